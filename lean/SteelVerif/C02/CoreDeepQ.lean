/-
C02 on the core with closures — the congruence theorem for local rewrites that are sound only in states satisfying a
predicate `Q` that depends on protected global slots only (constant folding: "the slot still holds the primitive";
inlining: "the slot still holds the callee").  `deepQ_all`: if the program and every closure reachable from the state
assign no protected slot (`noAssign`, `OkSt`), `Q` holds initially and is determined by the protected slots, then the
pass `deep rw` preserves the semantics up to `V.map (deep rw)` — `Q` holds at every node of the evaluation by
`stable_all`.
-/
import SteelVerif.C02.CoreStable2
namespace SteelVerif.C02C
open SteelVerif.C01C

/-- The operands of a call of a global (what is evaluated before the callee is looked up). -/
def operandsOf : Core → List Core
  | .callG _ args => args
  | _ => []

/-- Local soundness in the states that satisfy `Q` — `Q` is also known to hold after the operands of a global call
have been evaluated (the callee is looked up then). -/
def LocalSoundQ (Q : St Core → Prop) (rw : Core → Core) : Prop :=
  ∀ (fuel : Nat) (self : Self) (tail : Bool) (e : Core) (env caps : List Val) (σ : St Core)
    (r : Res (Val × List Val × St Core)), Q σ →
    (∀ F' env1 σ1, F' < fuel → evalArgs F' self (operandsOf e) env caps σ = .ok (env1, σ1) → Q σ1) →
    evalC fuel self tail e env caps σ = r → r ≠ .timeout → evalC fuel self tail (rw e) env caps σ = r

theorem oracle_nil {Q : St Core → Prop} {self : Self} {env caps : List Val} {σ : St Core} (hq : Q σ) :
    ∀ (F' : Nat) (env1 : List Val) (σ1 : St Core), evalArgs F' self [] env caps σ = .ok (env1, σ1) → Q σ1 := by
  intro F' env1 σ1 h
  cases F' with
  | zero => simp [evalArgs] at h
  | succ f => simp [evalArgs] at h; rw [← h.2]; exact hq

theorem evalArgs_mono' (fuel k : Nat) (self : Self) (args : List Core) (env caps : List Val) (σ : St Core)
    (r : Res (List Val × St Core)) (h : evalArgs fuel self args env caps σ = r) (hr : r ≠ .timeout) :
    evalArgs (fuel + k) self args env caps σ = r := by
  induction k with
  | zero => exact h
  | succ k ih => exact (mono_all (fuel + k)).2 _ _ _ _ _ _ ih hr

structure QOk (ps : List Nat) (Q : St Core → Prop) (rw : Core → Core) : Prop where
  same : ∀ σ σ', Same ps σ σ' → Q σ → Q σ'
  map : ∀ σ, Q σ → Q (mS rw σ)
  ls : LocalSoundQ Q rw

variable (rw : Core → Core) (ps : List Nat) (Q : St Core → Prop)

def G1Q (fuel : Nat) : Prop :=
  ∀ (self : Self) (tail : Bool) (e : Core) (env caps : List Val) (σ : St Core) (r : Res (Val × List Val × St Core)),
    evalC fuel self tail e env caps σ = r → r ≠ .timeout →
    noAssign ps e = true → OkSelf ps self → OkL ps env → OkL ps caps → OkSt ps σ → Q σ →
    evalC fuel (mSelf rw self) tail (deep rw e) (mL rw env) (mL rw caps) (mS rw σ) = mR3 rw r

def G2Q (fuel : Nat) : Prop :=
  ∀ (self : Self) (args : List Core) (env caps : List Val) (σ : St Core) (r : Res (List Val × St Core)),
    evalArgs fuel self args env caps σ = r → r ≠ .timeout →
    noAssignL ps args = true → OkSelf ps self → OkL ps env → OkL ps caps → OkSt ps σ → Q σ →
    evalArgs fuel (mSelf rw self) (deepL rw args) (mL rw env) (mL rw caps) (mS rw σ) = mR2a rw r

theorem applyWith_deepQ {fuel : Nat} (ih : G1Q rw ps Q fuel) (fv : Val) (argv : List Val) (σ : St Core)
    (r : Res (Val × St Core)) (h : applyWith (fun s => evalC fuel s true) fv argv σ = r) (hr : r ≠ .timeout)
    (hf : OkV ps fv) (ha : OkL ps argv) (hst : OkSt ps σ) (hq : Q σ) :
    applyWith (fun s => evalC fuel s true) (mV rw fv) (mL rw argv) (mS rw σ) = mR2 rw r := by
  cases fv with
  | clo a rr body cc =>
    cases hf with
    | clo _ _ _ _ hbody hcc =>
    simp only [applyWith] at h
    simp only [mV, map_clo, applyWith, mL, bindArgs_mapG]
    cases hb : bindArgs a rr argv with
    | ok locals =>
      simp only [hb, Res.map] at h ⊢
      cases he : evalC fuel (some (a, rr, body)) true body locals cc σ with
      | timeout => simp only [he] at h; exact absurd h.symm hr
      | err k =>
        have := ih _ _ _ _ _ _ _ he (by simp) hbody hbody (bindArgs_ok ha hb) hcc hst hq
        simp only [mSelf, mL] at this
        rw [this]; simp only [he] at h; subst h; simp [mR3, mR2, Res.map]
      | ok x =>
        have := ih _ _ _ _ _ _ _ he (by simp) hbody hbody (bindArgs_ok ha hb) hcc hst hq
        simp only [mSelf, mL] at this
        rw [this]; simp only [he] at h; subst h; simp [mR3, mR2, Res.map]
    | err k => simp only [hb, Res.map] at h ⊢; subst h; simp [mR2, Res.map]
    | timeout => simp only [hb] at h; exact absurd h.symm hr
  | prim p =>
    simp only [applyWith] at h
    simp only [mV, map_prim, applyWith, mL, prim_apply_mapG]
    subst h
    cases p.apply argv <;> simp [mR2, Res.map]
  | int n => simp only [applyWith] at h; subst h; simp [applyWith, mR2, Res.map]
  | bool b => simp only [applyWith] at h; subst h; simp [applyWith, mR2, Res.map]
  | void => simp only [applyWith] at h; subst h; simp [applyWith, mR2, Res.map]
  | box a => simp only [applyWith] at h; subst h; simp [applyWith, mR2, Res.map]
  | list xs => simp only [applyWith] at h; subst h; simp [applyWith, mR2, Res.map]

theorem deepQ_args (hk : QOk ps Q rw) (fuel : Nat) (ih1 : G1Q rw ps Q fuel) (ih2 : G2Q rw ps Q fuel) :
    G2Q rw ps Q (fuel + 1) := by
  intro self args env caps σ r h hr hn hself henv hcaps hst hq
  cases args with
  | nil =>
    simp only [evalArgs] at h; subst h
    simp [deepL, evalArgs, mR2a, Res.map]
  | cons a rest =>
    simp only [noAssignL, Bool.and_eq_true] at hn
    simp only [evalArgs] at h
    simp only [deepL, evalArgs]
    cases ha : evalC fuel self false a env caps σ with
    | timeout => simp only [ha] at h; exact absurd h.symm hr
    | err k =>
      rw [ih1 _ _ _ _ _ _ _ ha (by simp) hn.1 hself henv hcaps hst hq]
      simp only [ha] at h; subst h; simp [mR3, mR2a, Res.map]
    | ok x =>
      obtain ⟨v, env1, σ1⟩ := x
      rw [ih1 _ _ _ _ _ _ _ ha (by simp) hn.1 hself henv hcaps hst hq]
      obtain ⟨o1, o2, o3, o4⟩ := (stable_all ps fuel).1 _ _ _ _ _ _ _ _ _ ha hn.1 hself henv hcaps hst
      simp only [ha] at h
      simp only [mR3, Res.map]
      have := ih2 _ _ _ _ _ _ h hr hn.2 hself (o2.append (OkL.single o1)) hcaps o3 (hk.same _ _ o4 hq)
      simpa [mL] using this

theorem deepQ_expr (hk : QOk ps Q rw) (fuel : Nat) (ih1 : G1Q rw ps Q fuel) (ih2 : G2Q rw ps Q fuel) :
    G1Q rw ps Q (fuel + 1) := by
  intro self tail e env caps σ r h hr hn hself henv hcaps hst hq
  have hlsN := fun f s t (e' : Core) en ca r' (hop : operandsOf e' = []) =>
    hk.ls f s t e' en ca (mS rw σ) r' (hk.map σ hq)
      (by intro F' e1 s1 _ hev; rw [hop] at hev; exact oracle_nil (hk.map σ hq) F' e1 s1 hev)
  have ST1 := (stable_all ps fuel).1
  have ST2 := (stable_all ps fuel).2
  cases e with
  | const c =>
    simp only [deep]; refine hlsN _ _ _ _ _ _ _ rfl ?_ (mR3_ne rw hr)
    simp only [evalC] at h ⊢; subst h; simp [mR3, Res.map]
  | loc i mv =>
    simp only [deep]; refine hlsN _ _ _ _ _ _ _ rfl ?_ (mR3_ne rw hr)
    simp only [evalC, mL, List.getElem?_map] at h ⊢
    cases hv : env[i]? with
    | none => simp only [hv] at h; subst h; simp [mR3, Res.map]
    | some v => simp only [hv] at h; subst h; cases mv <;> simp [mR3, Res.map, List.map_set]
  | cap i =>
    simp only [deep]; refine hlsN _ _ _ _ _ _ _ rfl ?_ (mR3_ne rw hr)
    simp only [evalC, mL, List.getElem?_map] at h ⊢
    cases hv : caps[i]? with
    | none => simp only [hv] at h; subst h; simp [mR3, Res.map]
    | some v => simp only [hv] at h; subst h; simp [mR3, Res.map]
  | glob g =>
    simp only [deep]; refine hlsN _ _ _ _ _ _ _ rfl ?_ (mR3_ne rw hr)
    simp only [evalC, mS, mapSt_globals, lookupG_mapG] at h ⊢
    cases hv : lookupG g σ.globals with
    | none => simp only [hv] at h; subst h; simp [mR3, Res.map]
    | some v => simp only [hv] at h; subst h; simp [mR3, Res.map]
  | lam a rr cs body =>
    simp only [deep]; refine hlsN _ _ _ _ _ _ _ rfl ?_ (mR3_ne rw hr)
    simp only [evalC, mL, capture_mapG] at h ⊢
    cases hv : capture env caps cs with
    | none => simp only [hv] at h; subst h; simp [mR3, Res.map]
    | some cv => simp only [hv] at h; subst h; simp [mR3, Res.map]
  | app f args =>
    simp only [noAssign, Bool.and_eq_true] at hn
    simp only [deep]; refine hlsN _ _ _ _ _ _ _ rfl ?_ (mR3_ne rw hr)
    simp only [evalC] at h
    simp only [evalC, deepL_length]
    cases hi : evalArgs fuel self args env caps σ with
    | timeout => simp only [hi] at h; exact absurd h.symm hr
    | err k =>
      rw [ih2 _ _ _ _ _ _ hi (by simp) hn.2 hself henv hcaps hst hq]
      simp only [hi] at h; subst h; simp [mR2a, mR3, Res.map]
    | ok x =>
      obtain ⟨env1, σ1⟩ := x
      rw [ih2 _ _ _ _ _ _ hi (by simp) hn.2 hself henv hcaps hst hq]
      obtain ⟨a1, a2, a3⟩ := ST2 _ _ _ _ _ _ _ hi hn.2 hself henv hcaps hst
      have hq1 := hk.same _ _ a3 hq
      simp only [hi] at h
      simp only [mR2a, Res.map]
      cases hf : evalC fuel self false f env1 caps σ1 with
      | timeout => simp only [hf] at h; exact absurd h.symm hr
      | err k =>
        rw [ih1 _ _ _ _ _ _ _ hf (by simp) hn.1 hself a1 hcaps a2 hq1]
        simp only [hf] at h; subst h; simp [mR3, Res.map]
      | ok y =>
        obtain ⟨fv, env2, σ2⟩ := y
        rw [ih1 _ _ _ _ _ _ _ hf (by simp) hn.1 hself a1 hcaps a2 hq1]
        obtain ⟨b1, b2, b3, b4⟩ := ST1 _ _ _ _ _ _ _ _ _ hf hn.1 hself a1 hcaps a2
        have hq2 := hk.same _ _ b4 hq1
        simp only [hf] at h
        simp only [mR3, Res.map, mL, splitLast_mapG]
        cases hs : splitLast args.length env2 with
        | none => simp only [hs] at h; subst h; simp [Res.map]
        | some sp =>
          obtain ⟨envr, argv⟩ := sp
          obtain ⟨c1, c2⟩ := splitLast_ok b2 hs
          simp only [hs] at h
          simp only [Option.map]
          cases ha : applyWith (fun s => evalC fuel s true) fv argv σ2 with
          | timeout => simp only [ha] at h; exact absurd h.symm hr
          | err k =>
            have := applyWith_deepQ rw ps Q ih1 _ _ _ _ ha (by simp) b1 c2 b3 hq2
            simp only [mV, mL] at this
            rw [this]; simp only [ha] at h; subst h; simp [mR2, Res.map]
          | ok z =>
            have := applyWith_deepQ rw ps Q ih1 _ _ _ _ ha (by simp) b1 c2 b3 hq2
            simp only [mV, mL] at this
            rw [this]; simp only [ha] at h; subst h; simp [mR2, Res.map]
  | callG g args =>
    simp only [noAssign] at hn
    simp only [evalC] at h
    simp only [deep]
    refine hk.ls _ _ _ _ _ _ (mS rw σ) _ (hk.map σ hq) ?_ ?_ (mR3_ne rw hr)
    · -- `Q` after the operands, on the optimised side
      intro F' e1 s1 hF hev
      simp only [operandsOf] at hev
      have hev' := evalArgs_mono' F' (fuel - F') _ _ _ _ _ _ hev (by simp)
      rw [show F' + (fuel - F') = fuel by omega] at hev'
      cases hi : evalArgs fuel self args env caps σ with
      | timeout => simp only [hi] at h; exact absurd h.symm hr
      | err k =>
        rw [ih2 _ _ _ _ _ _ hi (by simp) hn hself henv hcaps hst hq] at hev'
        simp [mR2a, Res.map] at hev'
      | ok x =>
        obtain ⟨env1, σ1⟩ := x
        rw [ih2 _ _ _ _ _ _ hi (by simp) hn hself henv hcaps hst hq] at hev'
        simp only [mR2a, Res.map, Res.ok.injEq, Prod.mk.injEq] at hev'
        obtain ⟨_, a2, a3⟩ := ST2 _ _ _ _ _ _ _ hi hn hself henv hcaps hst
        rw [← hev'.2]
        exact hk.map _ (hk.same _ _ a3 hq)
    simp only [evalC, deepL_length]
    cases hi : evalArgs fuel self args env caps σ with
    | timeout => simp only [hi] at h; exact absurd h.symm hr
    | err k =>
      rw [ih2 _ _ _ _ _ _ hi (by simp) hn hself henv hcaps hst hq]
      simp only [hi] at h; subst h; simp [mR2a, mR3, Res.map]
    | ok x =>
      obtain ⟨env1, σ1⟩ := x
      rw [ih2 _ _ _ _ _ _ hi (by simp) hn hself henv hcaps hst hq]
      obtain ⟨a1, a2, a3⟩ := ST2 _ _ _ _ _ _ _ hi hn hself henv hcaps hst
      have hq1 := hk.same _ _ a3 hq
      simp only [hi] at h
      simp only [mR2a, Res.map, mS, mapSt_globals, lookupG_mapG]
      cases hg : lookupG g σ1.globals with
      | none => simp only [hg] at h; subst h; simp [mR3, Res.map]
      | some fv =>
        simp only [hg] at h
        simp only [Option.map, mL, splitLast_mapG]
        cases hs : splitLast args.length env1 with
        | none => simp only [hs] at h; subst h; simp [mR3, Res.map]
        | some sp =>
          obtain ⟨envr, argv⟩ := sp
          obtain ⟨c1, c2⟩ := splitLast_ok a1 hs
          simp only [hs] at h
          simp only [Option.map]
          cases ha : applyWith (fun s => evalC fuel s true) fv argv σ1 with
          | timeout => simp only [ha] at h; exact absurd h.symm hr
          | err k =>
            have := applyWith_deepQ rw ps Q ih1 _ _ _ _ ha (by simp) (a2.globs g _ (lookupG_mem' hg)) c2 a2 hq1
            simp only [mV, mL, mS] at this
            rw [this]; simp only [ha] at h; subst h; simp [mR2, mR3, Res.map]
          | ok z =>
            have := applyWith_deepQ rw ps Q ih1 _ _ _ _ ha (by simp) (a2.globs g _ (lookupG_mem' hg)) c2 a2 hq1
            simp only [mV, mL, mS] at this
            rw [this]; simp only [ha] at h; subst h; simp [mR2, mR3, Res.map]
  | selfTail args =>
    simp only [noAssign] at hn
    simp only [deep]; refine hlsN _ _ _ _ _ _ _ rfl ?_ (mR3_ne rw hr)
    simp only [evalC] at h
    simp only [evalC, deepL_length]
    cases tail
    · simp at h; subst h; simp [mR3, Res.map]
    · simp only [if_true] at h ⊢
      cases hi : evalArgs fuel self args env caps σ with
      | timeout => simp only [hi] at h; exact absurd h.symm hr
      | err k =>
        rw [ih2 _ _ _ _ _ _ hi (by simp) hn hself henv hcaps hst hq]
        simp only [hi] at h; subst h; simp [mR2a, mR3, Res.map]
      | ok x =>
        obtain ⟨env1, σ1⟩ := x
        rw [ih2 _ _ _ _ _ _ hi (by simp) hn hself henv hcaps hst hq]
        obtain ⟨a1, a2, a3⟩ := ST2 _ _ _ _ _ _ _ hi hn hself henv hcaps hst
        have hq1 := hk.same _ _ a3 hq
        simp only [hi] at h
        simp only [mR2a, Res.map]
        cases self with
        | none => simp at h; subst h; simp [mSelf, mR3, Res.map]
        | some sf =>
          obtain ⟨a, rr, body⟩ := sf
          simp only at h
          simp only [mSelf, mL, splitLast_mapG]
          cases hs : splitLast args.length env1 with
          | none => simp only [hs] at h; subst h; simp [mR3, Res.map]
          | some sp =>
            obtain ⟨envr, argv⟩ := sp
            obtain ⟨c1, c2⟩ := splitLast_ok a1 hs
            simp only [hs] at h
            simp only [Option.map]
            cases ha : applyWith (fun s => evalC fuel s true) (.clo a rr body caps) argv σ1 with
            | timeout => simp only [ha] at h; exact absurd h.symm hr
            | err k =>
              have := applyWith_deepQ rw ps Q ih1 _ _ _ _ ha (by simp) (.clo _ _ _ _ hself hcaps) c2 a2 hq1
              simp only [mV, map_clo, mL] at this
              rw [this]; simp only [ha] at h; subst h; simp [mR2, mR3, Res.map]
            | ok z =>
              have := applyWith_deepQ rw ps Q ih1 _ _ _ _ ha (by simp) (.clo _ _ _ _ hself hcaps) c2 a2 hq1
              simp only [mV, map_clo, mL] at this
              rw [this]; simp only [ha] at h; subst h; simp [mR2, mR3, Res.map]
  | ite c t e' =>
    simp only [noAssign, Bool.and_eq_true] at hn
    simp only [deep]; refine hlsN _ _ _ _ _ _ _ rfl ?_ (mR3_ne rw hr)
    simp only [evalC] at h ⊢
    cases hc : evalC fuel self false c env caps σ with
    | timeout => simp only [hc] at h; exact absurd h.symm hr
    | err k =>
      rw [ih1 _ _ _ _ _ _ _ hc (by simp) hn.1.1 hself henv hcaps hst hq]
      simp only [hc] at h; subst h; simp [mR3, Res.map]
    | ok x =>
      obtain ⟨vc, env1, σ1⟩ := x
      rw [ih1 _ _ _ _ _ _ _ hc (by simp) hn.1.1 hself henv hcaps hst hq]
      obtain ⟨a1, a2, a3, a4⟩ := ST1 _ _ _ _ _ _ _ _ _ hc hn.1.1 hself henv hcaps hst
      have hq1 := hk.same _ _ a4 hq
      simp only [hc] at h
      simp only [mR3, Res.map, mV, truthy_map]
      by_cases ht : truthy vc = true
      · simp only [ht, if_true] at h ⊢; exact ih1 _ _ _ _ _ _ _ h hr hn.1.2 hself a2 hcaps a3 hq1
      · simp only [ht, if_false] at h ⊢; exact ih1 _ _ _ _ _ _ _ h hr hn.2 hself a2 hcaps a3 hq1
  | let_ off inits body =>
    simp only [noAssign, Bool.and_eq_true] at hn
    simp only [deep]; refine hlsN _ _ _ _ _ _ _ rfl ?_ (mR3_ne rw hr)
    simp only [evalC] at h ⊢
    cases hi : evalArgs fuel self inits env caps σ with
    | timeout => simp only [hi] at h; exact absurd h.symm hr
    | err k =>
      rw [ih2 _ _ _ _ _ _ hi (by simp) hn.1 hself henv hcaps hst hq]
      simp only [hi] at h; subst h; simp [mR2a, mR3, Res.map]
    | ok x =>
      obtain ⟨env1, σ1⟩ := x
      rw [ih2 _ _ _ _ _ _ hi (by simp) hn.1 hself henv hcaps hst hq]
      obtain ⟨a1, a2, a3⟩ := ST2 _ _ _ _ _ _ _ hi hn.1 hself henv hcaps hst
      have hq1 := hk.same _ _ a3 hq
      simp only [hi] at h
      simp only [mR2a, Res.map]
      cases hb : evalC fuel self tail body env1 caps σ1 with
      | timeout => simp only [hb] at h; exact absurd h.symm hr
      | err k =>
        rw [ih1 _ _ _ _ _ _ _ hb (by simp) hn.2 hself a1 hcaps a2 hq1]
        simp only [hb] at h; subst h; simp [mR3, Res.map]
      | ok y =>
        obtain ⟨vb, env2, σ2⟩ := y
        rw [ih1 _ _ _ _ _ _ _ hb (by simp) hn.2 hself a1 hcaps a2 hq1]
        simp only [hb] at h
        simp only [mR3, Res.map, mL, List.length_map]
        by_cases hl : env2.length < off
        · simp only [hl, if_true] at h ⊢; subst h; simp [Res.map]
        · simp only [hl, if_false] at h ⊢; subst h; simp [Res.map, List.map_take]
  | seq a b =>
    simp only [noAssign, Bool.and_eq_true] at hn
    simp only [deep]; refine hlsN _ _ _ _ _ _ _ rfl ?_ (mR3_ne rw hr)
    simp only [evalC] at h ⊢
    cases ha : evalC fuel self false a env caps σ with
    | timeout => simp only [ha] at h; exact absurd h.symm hr
    | err k =>
      rw [ih1 _ _ _ _ _ _ _ ha (by simp) hn.1 hself henv hcaps hst hq]
      simp only [ha] at h; subst h; simp [mR3, Res.map]
    | ok x =>
      obtain ⟨va, env1, σ1⟩ := x
      rw [ih1 _ _ _ _ _ _ _ ha (by simp) hn.1 hself henv hcaps hst hq]
      obtain ⟨a1, a2, a3, a4⟩ := ST1 _ _ _ _ _ _ _ _ _ ha hn.1 hself henv hcaps hst
      simp only [ha] at h
      simp only [mR3, Res.map]
      exact ih1 _ _ _ _ _ _ _ h hr hn.2 hself a2 hcaps a3 (hk.same _ _ a4 hq)
  | setLoc i e' =>
    simp only [noAssign] at hn
    simp only [deep]; refine hlsN _ _ _ _ _ _ _ rfl ?_ (mR3_ne rw hr)
    simp only [evalC] at h ⊢
    cases he : evalC fuel self false e' env caps σ with
    | timeout => simp only [he] at h; exact absurd h.symm hr
    | err k =>
      rw [ih1 _ _ _ _ _ _ _ he (by simp) hn hself henv hcaps hst hq]
      simp only [he] at h; subst h; simp [mR3, Res.map]
    | ok x =>
      obtain ⟨ve, env1, σ1⟩ := x
      rw [ih1 _ _ _ _ _ _ _ he (by simp) hn hself henv hcaps hst hq]
      simp only [he] at h
      simp only [mR3, Res.map, mL, List.getElem?_map]
      cases ho : env1[i]? with
      | none => simp only [ho] at h; subst h; simp [Res.map]
      | some old => simp only [ho] at h; subst h; simp [Res.map, List.map_set]
  | boxop op args =>
    simp only [noAssign] at hn
    simp only [deep]; refine hlsN _ _ _ _ _ _ _ rfl ?_ (mR3_ne rw hr)
    simp only [evalC] at h ⊢
    cases hi : evalArgs fuel self args env caps σ with
    | timeout => simp only [hi] at h; exact absurd h.symm hr
    | err k =>
      rw [ih2 _ _ _ _ _ _ hi (by simp) hn hself henv hcaps hst hq]
      simp only [hi] at h; subst h; simp [mR2a, mR3, Res.map]
    | ok x =>
      obtain ⟨env1, σ1⟩ := x
      rw [ih2 _ _ _ _ _ _ hi (by simp) hn hself henv hcaps hst hq]
      simp only [hi] at h
      simp only [mR2a, Res.map, mL, splitLast_mapG]
      cases hs : splitLast op.arity env1 with
      | none => simp only [hs] at h; subst h; simp [mR3, Res.map]
      | some sp =>
        obtain ⟨envr, argv⟩ := sp
        simp only [hs] at h
        simp only [Option.map, mS, boxop_apply_mapG]
        cases ha : op.apply argv σ1 with
        | timeout => simp only [ha] at h; exact absurd h.symm hr
        | err k => simp only [ha] at h; subst h; simp [mR3, Res.map]
        | ok z => simp only [ha] at h; subst h; simp [mR3, Res.map]
  | define g e' =>
    simp only [noAssign, Bool.and_eq_true] at hn
    simp only [deep]; refine hlsN _ _ _ _ _ _ _ rfl ?_ (mR3_ne rw hr)
    simp only [evalC] at h ⊢
    cases he : evalC fuel self false e' env caps σ with
    | timeout => simp only [he] at h; exact absurd h.symm hr
    | err k =>
      rw [ih1 _ _ _ _ _ _ _ he (by simp) hn.2 hself henv hcaps hst hq]
      simp only [he] at h; subst h; simp [mR3, Res.map]
    | ok x =>
      rw [ih1 _ _ _ _ _ _ _ he (by simp) hn.2 hself henv hcaps hst hq]
      simp only [he] at h; subst h; simp [mR3, Res.map, mapSt]
  | setGlob g e' =>
    simp only [noAssign, Bool.and_eq_true] at hn
    simp only [deep]; refine hlsN _ _ _ _ _ _ _ rfl ?_ (mR3_ne rw hr)
    simp only [evalC] at h ⊢
    cases he : evalC fuel self false e' env caps σ with
    | timeout => simp only [he] at h; exact absurd h.symm hr
    | err k =>
      rw [ih1 _ _ _ _ _ _ _ he (by simp) hn.2 hself henv hcaps hst hq]
      simp only [he] at h; subst h; simp [mR3, Res.map]
    | ok x =>
      obtain ⟨ve, env1, σ1⟩ := x
      rw [ih1 _ _ _ _ _ _ _ he (by simp) hn.2 hself henv hcaps hst hq]
      simp only [he] at h
      simp only [mR3, Res.map, mS, mapSt_globals, lookupG_mapG]
      cases ho : lookupG g σ1.globals with
      | none => simp only [ho] at h; subst h; simp [Res.map]
      | some old => simp only [ho] at h; subst h; simp [Res.map, mapSt]

theorem deepQ_all (hk : QOk ps Q rw) : ∀ fuel, G1Q rw ps Q fuel ∧ G2Q rw ps Q fuel := by
  intro fuel
  induction fuel with
  | zero =>
    constructor
    · intro self tail e env caps σ r h hr; simp [evalC] at h; exact absurd h.symm hr
    · intro self args env caps σ r h hr; simp [evalArgs] at h; exact absurd h.symm hr
  | succ fuel ih => exact ⟨deepQ_expr rw ps Q hk fuel ih.1 ih.2, deepQ_args rw ps Q hk fuel ih.1 ih.2⟩

end SteelVerif.C02C
