/-
C02 — the inlining pass preserves `evalIR`: both directions, with every procedure body of the unit rewritten.
-/
import SteelVerif.C02.LemmasShift
namespace SteelVerif.C02
open SteelVerif.C01

/-- `T'` is `T` after the pass: every procedure body inlined (each with its own policy) with the ORIGINAL
bodies of `T`. -/
def Rel (thr : Nat) (T T' : List FnDef) : Prop :=
  T'.length = T.length ∧ ∀ (c : Nat) (fd : FnDef), T[c]? = some fd → ∃ pol, T'[c]? = some (inlineFn T pol thr fd)

variable {T T' : List FnDef} {thr : Nat}

theorem eligible_some {pol : Nat → Bool} {f n : Nat} {fd : FnDef} (h : eligible T pol thr f n = some fd) :
    T[f]? = some fd ∧ pol f = true ∧ size fd.body < thr ∧ fd.arity = n := by
  unfold eligible at h
  cases hf : T[f]? with
  | none => simp [hf] at h
  | some fd' =>
    simp only [hf] at h
    split at h
    · rename_i hc
      simp only [Option.some.injEq] at h; subst h
      simp only [Bool.and_eq_true, decide_eq_true_eq] at hc
      exact ⟨rfl, hc.1.1, hc.1.2, hc.2⟩
    · cases h

theorem eligible_never (f n : Nat) : eligible T (fun _ => false) thr f n = none := by
  unfold eligible
  cases T[f]? <;> simp

theorem inlineArgs_length (pol : Nat → Bool) : ∀ (args : List IR) (h : Nat),
    (inlineArgs T pol thr h args).length = args.length := by
  intro args
  induction args with
  | nil => intro h; simp [inlineArgs]
  | cons a r ih => intro h; simp [inlineArgs, ih]

theorem inline_call_none {pol : Nat → Bool} {f : Nat} {args : List IR} (h : Nat)
    (hel : eligible T pol thr f args.length = none) :
    inline T pol thr h (.call f args) = .call f (inlineArgs T pol thr h args) := by
  simp only [inline, hel]

theorem inline_call_some {pol : Nat → Bool} {f : Nat} {args : List IR} {fd : FnDef} (h : Nat)
    (hel : eligible T pol thr f args.length = some fd) :
    inline T pol thr h (.call f args) = bindArgs (inlineArgs T pol thr h args) (shift h fd.body) := by
  simp only [inline, hel]

/-- With the policy "never" the pass is the identity. -/
theorem inline_never : ∀ (e : IR) (h : Nat), inline T (fun _ => false) thr h e = e := by
  intro e
  induction e using size.induct
    (motive_2 := fun args => ∀ h, inlineArgs T (fun _ => false) thr h args = args) with
  | case1 v => intro h; simp [inline]
  | case2 i => intro h; simp [inline]
  | case3 op a b iha ihb => intro h; simp [inline, iha, ihb]
  | case4 c t e ihc iht ihe => intro h; simp [inline, ihc, iht, ihe]
  | case5 e b ihe ihb => intro h; simp [inline, ihe, ihb]
  | case6 a b iha ihb => intro h; simp [inline, iha, ihb]
  | case7 i e ihe => intro h; simp [inline, ihe]
  | case8 f args ih => intro h; rw [inline_call_none h (eligible_never f args.length), ih]
  | case9 => rename_i h; simp [inlineArgs]
  | case10 a r iha ihr => rename_i h; simp [inlineArgs, iha, ihr]

/-- The inlined call, evaluated: the operands, then the callee's original body in the frame formed by the
operands — the semantics of the call, except that the body runs on the caller's fuel. -/
theorem inlined_call_eval (Tb : List FnDef) (F : Nat) (args' : List IR) (body : IR) (s : List Val) :
    evalIR Tb F (bindArgs args' (shift s.length body)) s =
      (evalArgs Tb F args' s).bind fun s1 =>
        (evalIR Tb F body (s1.drop (s1.length - args'.length))).map fun r =>
          (r.1, s1.take (s1.length - args'.length)) := by
  rw [bindArgs_eval]
  cases ha : evalArgs Tb F args' s with
  | none => rfl
  | some s1 =>
    simp only [Option.bind_some]
    have hl := evalArgs_length Tb F args' s s1 ha
    have hk : s1.length - args'.length = s.length := by omega
    rw [hk]
    have hp : (s1.take s.length).length = s.length := by simp; omega
    have hs1 : s1 = s1.take s.length ++ s1.drop s.length := (List.take_append_drop _ _).symm
    have step : evalIR Tb F (shift s.length body) s1 =
        evalIR Tb F (shift (s1.take s.length).length body) (s1.take s.length ++ s1.drop s.length) := by
      rw [hp, ← hs1]
    rw [step, shift_eval]
    cases hb : evalIR Tb F body (s1.drop s.length) with
    | none => rfl
    | some q =>
      obtain ⟨v, t'⟩ := q
      simp only [Option.map_some]
      have hl2 := eval_preserves_height Tb F body _ _ _ hb
      have : (s1.take s.length ++ t').length - args'.length = (s1.take s.length).length + 0 := by
        simp only [List.length_append, hp]; simp at hl2; omega
      rw [this, List.take_length_add_append]; simp

/-! ## Forward: what the original computes, the inlined program computes (with the same fuel) -/

theorem inline_fwd_aux (hrel : Rel thr T T') (F : Nat)
    (hbody : ∀ F0, F = F0 + 1 → ∀ (e : IR) (s : List Val) (pol : Nat → Bool) (r : Val × List Val),
      evalIR T F0 e s = some r → evalIR T' F0 (inline T pol thr s.length e) s = some r) :
    ∀ (e : IR) (s : List Val) (pol : Nat → Bool) (r : Val × List Val),
      evalIR T F e s = some r → evalIR T' F (inline T pol thr s.length e) s = some r := by
  intro e
  induction e using size.induct
    (motive_2 := fun args => ∀ (s : List Val) (pol : Nat → Bool) (s1 : List Val),
      evalArgs T F args s = some s1 → evalArgs T' F (inlineArgs T pol thr s.length args) s = some s1) with
  | case1 v => intro s pol r h; simpa [inline, evalIR_const] using h
  | case2 i => intro s pol r h; simpa [inline, evalIR_loc] using h
  | case3 op a b iha ihb =>
    intro s pol r h
    simp only [inline]
    rw [evalIR_prim] at h ⊢
    cases ha : evalIR T F a s with
    | none => simp [ha] at h
    | some p =>
      rw [ha] at h; simp only [Option.bind_some] at h
      rw [iha s pol p ha]; simp only [Option.bind_some]
      have hl := eval_preserves_height T F a s p.2 p.1 ha
      cases hb : evalIR T F b (p.2 ++ [p.1]) with
      | none => simp [hb] at h
      | some q =>
        rw [hb] at h
        have := ihb (p.2 ++ [p.1]) pol q hb
        rw [show (p.2 ++ [p.1]).length = s.length + 1 by simp [hl]] at this
        rw [this]; exact h
  | case4 c t e ihc iht ihe =>
    intro s pol r h
    simp only [inline]
    rw [evalIR_ite] at h ⊢
    cases hc : evalIR T F c s with
    | none => simp [hc] at h
    | some p =>
      rw [hc] at h; simp only [Option.bind_some] at h
      rw [ihc s pol p hc]; simp only [Option.bind_some]
      have hl := eval_preserves_height T F c s p.2 p.1 hc
      split
      · rename_i ht; rw [if_pos ht] at h
        have := iht p.2 pol r h; rw [hl] at this; exact this
      · rename_i ht; rw [if_neg ht] at h
        have := ihe p.2 pol r h; rw [hl] at this; exact this
  | case5 e b ihe ihb =>
    intro s pol r h
    simp only [inline]
    rw [evalIR_let1] at h ⊢
    cases he : evalIR T F e s with
    | none => simp [he] at h
    | some p =>
      rw [he] at h; simp only [Option.bind_some] at h
      rw [ihe s pol p he]; simp only [Option.bind_some]
      have hl := eval_preserves_height T F e s p.2 p.1 he
      cases hb : evalIR T F b (p.2 ++ [p.1]) with
      | none => simp [hb] at h
      | some q =>
        rw [hb] at h
        have := ihb (p.2 ++ [p.1]) pol q hb
        rw [show (p.2 ++ [p.1]).length = s.length + 1 by simp [hl]] at this
        rw [this]; exact h
  | case6 a b iha ihb =>
    intro s pol r h
    simp only [inline]
    rw [evalIR_seq] at h ⊢
    cases ha : evalIR T F a s with
    | none => simp [ha] at h
    | some p =>
      rw [ha] at h; simp only [Option.bind_some] at h
      rw [iha s pol p ha]; simp only [Option.bind_some]
      have hl := eval_preserves_height T F a s p.2 p.1 ha
      have := ihb p.2 pol r h; rw [hl] at this; exact this
  | case7 i e ihe =>
    intro s pol r h
    simp only [inline]
    rw [evalIR_setLoc] at h ⊢
    cases he : evalIR T F e s with
    | none => simp [he] at h
    | some p => rw [he] at h; rw [ihe s pol p he]; exact h
  | case8 f args ihargs =>
    intro s pol r h
    cases F with
    | zero => simp [evalIR_call_zero] at h
    | succ F0 =>
      rw [evalIR_call_succ] at h
      cases ha : evalArgs T (F0 + 1) args s with
      | none => simp [ha] at h
      | some s1 =>
        rw [ha] at h; simp only [Option.bind_some] at h
        have hargs := ihargs s pol s1 ha
        have hlen := evalArgs_length T (F0 + 1) args s s1 ha
        cases hf : T[f]? with
        | none => simp [hf] at h
        | some fd =>
          rw [hf] at h; simp only [Option.bind_some] at h
          by_cases hbad : fd.arity ≠ args.length ∨ s1.length < args.length
          · rw [if_pos hbad] at h; cases h
          · rw [if_neg hbad] at h
            have har : fd.arity = args.length := by
              by_cases h1 : fd.arity = args.length
              · exact h1
              · exact absurd (Or.inl h1) hbad
            cases hb : evalIR T F0 fd.body (s1.drop (s1.length - args.length)) with
            | none => simp [hb] at h
            | some q =>
              rw [hb] at h; simp only [Option.map_some, Option.some.injEq] at h
              have hdl : (s1.drop (s1.length - args.length)).length = fd.arity := by simp; omega
              cases hel : eligible T pol thr f args.length with
              | none =>
                rw [inline_call_none _ hel, evalIR_call_succ, hargs, inlineArgs_length]
                simp only [Option.bind_some]
                obtain ⟨polf, hT'⟩ := hrel.2 f fd hf
                rw [hT']; simp only [Option.bind_some]
                have hbad' : ¬ ((inlineFn T polf thr fd).arity ≠ args.length ∨ s1.length < args.length) := hbad
                rw [if_neg hbad']
                have := hbody F0 rfl fd.body _ polf q hb
                rw [hdl] at this
                simp only [inlineFn]
                rw [this]; simp only [Option.map_some]; rw [h]
              | some fd' =>
                have hes := eligible_some hel
                have : fd' = fd := by rw [hf] at hes; exact (Option.some.inj hes.1).symm
                subst this
                rw [inline_call_some _ hel, inlined_call_eval, hargs, inlineArgs_length]
                simp only [Option.bind_some]
                have := hbody F0 rfl fd'.body _ (fun _ => false) q hb
                rw [inline_never] at this
                rw [evalIR_mono_succ T' F0 _ _ _ this]
                simp only [Option.map_some]; rw [h]
  | case9 => rename_i s pol s1 h; simpa [inlineArgs, evalArgs_nil] using h
  | case10 a r iha ihr =>
    rename_i s pol s1 h
    simp only [inlineArgs]
    rw [evalArgs_cons] at h ⊢
    cases ha : evalIR T F a s with
    | none => simp [ha] at h
    | some p =>
      rw [ha] at h; simp only [Option.bind_some] at h
      rw [iha s pol p ha]; simp only [Option.bind_some]
      have hl := eval_preserves_height T F a s p.2 p.1 ha
      have := ihr (p.2 ++ [p.1]) pol s1 h
      rw [show (p.2 ++ [p.1]).length = s.length + 1 by simp [hl]] at this
      exact this

theorem inline_fwd (hrel : Rel thr T T') : ∀ (F : Nat) (e : IR) (s : List Val) (pol : Nat → Bool) (r : Val × List Val),
    evalIR T F e s = some r → evalIR T' F (inline T pol thr s.length e) s = some r := by
  intro F
  induction F with
  | zero => exact inline_fwd_aux hrel 0 (by intro F0 h; omega)
  | succ F ih => exact inline_fwd_aux hrel (F + 1) (by intro F0 h; obtain rfl : F0 = F := (by omega); exact ih)

/-! ## Backward: what the inlined program computes, the original computes (an inlined frame costs the original one
more unit of fuel, so `2 * F + 1` suffices) -/

theorem rel_lookup (hrel : Rel thr T T') {f : Nat} {fd' : FnDef} (h : T'[f]? = some fd') :
    ∃ fd polf, T[f]? = some fd ∧ fd' = inlineFn T polf thr fd := by
  have hlt : f < T'.length := by
    rcases Nat.lt_or_ge f T'.length with h1 | h1
    · exact h1
    · rw [List.getElem?_eq_none h1] at h; cases h
  rw [hrel.1] at hlt
  have hf : T[f]? = some T[f] := List.getElem?_eq_getElem hlt
  obtain ⟨polf, hp⟩ := hrel.2 f _ hf
  rw [h] at hp
  exact ⟨T[f], polf, hf, Option.some.inj hp⟩

theorem inline_bwd_aux (hrel : Rel thr T T') (F B : Nat) (pol : Nat → Bool)
    (hcall : ∀ F0, F = F0 + 1 → ∃ B0, B = B0 + 1 ∧ ∀ (body : IR) (polf : Nat → Bool) (t : List Val) (r : Val × List Val),
      evalIR T' F0 (inline T polf thr t.length body) t = some r → evalIR T B0 body t = some r)
    (hinl : ∀ (f : Nat) (fd : FnDef) (t : List Val) (r : Val × List Val), T[f]? = some fd → pol f = true →
      evalIR T' F fd.body t = some r → ∃ B0, B = B0 + 1 ∧ evalIR T B0 fd.body t = some r) :
    ∀ (e : IR) (s : List Val) (r : Val × List Val),
      evalIR T' F (inline T pol thr s.length e) s = some r → evalIR T B e s = some r := by
  intro e
  induction e using size.induct
    (motive_2 := fun args => ∀ (s : List Val) (s1 : List Val),
      evalArgs T' F (inlineArgs T pol thr s.length args) s = some s1 → evalArgs T B args s = some s1) with
  | case1 v => intro s r h; simpa [inline, evalIR_const] using h
  | case2 i => intro s r h; simpa [inline, evalIR_loc] using h
  | case3 op a b iha ihb =>
    intro s r h
    simp only [inline] at h
    rw [evalIR_prim] at h ⊢
    cases ha : evalIR T' F (inline T pol thr s.length a) s with
    | none => simp [ha] at h
    | some p =>
      rw [ha] at h; simp only [Option.bind_some] at h
      rw [iha s p ha]; simp only [Option.bind_some]
      have hl := eval_preserves_height T' F _ s p.2 p.1 ha
      cases hb : evalIR T' F (inline T pol thr (s.length + 1) b) (p.2 ++ [p.1]) with
      | none => simp [hb] at h
      | some q =>
        rw [hb] at h
        rw [show s.length + 1 = (p.2 ++ [p.1]).length by simp [hl]] at hb
        rw [ihb _ q hb]; exact h
  | case4 c t e ihc iht ihe =>
    intro s r h
    simp only [inline] at h
    rw [evalIR_ite] at h ⊢
    cases hc : evalIR T' F (inline T pol thr s.length c) s with
    | none => simp [hc] at h
    | some p =>
      rw [hc] at h; simp only [Option.bind_some] at h
      rw [ihc s p hc]; simp only [Option.bind_some]
      have hl := eval_preserves_height T' F _ s p.2 p.1 hc
      rw [← hl] at h
      split
      · rename_i ht; rw [if_pos ht] at h; exact iht p.2 r h
      · rename_i ht; rw [if_neg ht] at h; exact ihe p.2 r h
  | case5 e b ihe ihb =>
    intro s r h
    simp only [inline] at h
    rw [evalIR_let1] at h ⊢
    cases he : evalIR T' F (inline T pol thr s.length e) s with
    | none => simp [he] at h
    | some p =>
      rw [he] at h; simp only [Option.bind_some] at h
      rw [ihe s p he]; simp only [Option.bind_some]
      have hl := eval_preserves_height T' F _ s p.2 p.1 he
      cases hb : evalIR T' F (inline T pol thr (s.length + 1) b) (p.2 ++ [p.1]) with
      | none => simp [hb] at h
      | some q =>
        rw [hb] at h
        rw [show s.length + 1 = (p.2 ++ [p.1]).length by simp [hl]] at hb
        rw [ihb _ q hb]; exact h
  | case6 a b iha ihb =>
    intro s r h
    simp only [inline] at h
    rw [evalIR_seq] at h ⊢
    cases ha : evalIR T' F (inline T pol thr s.length a) s with
    | none => simp [ha] at h
    | some p =>
      rw [ha] at h; simp only [Option.bind_some] at h
      rw [iha s p ha]; simp only [Option.bind_some]
      have hl := eval_preserves_height T' F _ s p.2 p.1 ha
      rw [← hl] at h
      exact ihb p.2 r h
  | case7 i e ihe =>
    intro s r h
    simp only [inline] at h
    rw [evalIR_setLoc] at h ⊢
    cases he : evalIR T' F (inline T pol thr s.length e) s with
    | none => simp [he] at h
    | some p => rw [he] at h; rw [ihe s p he]; exact h
  | case8 f args ihargs =>
    intro s r h
    cases hel : eligible T pol thr f args.length with
    | none =>
      rw [inline_call_none _ hel] at h
      cases F with
      | zero => simp [evalIR_call_zero] at h
      | succ F0 =>
        obtain ⟨B0, hB, hc⟩ := hcall F0 rfl
        subst hB
        rw [evalIR_call_succ, inlineArgs_length] at h
        rw [evalIR_call_succ]
        cases ha : evalArgs T' (F0 + 1) (inlineArgs T pol thr s.length args) s with
        | none => simp [ha] at h
        | some s1 =>
          rw [ha] at h; simp only [Option.bind_some] at h
          rw [ihargs s s1 ha]; simp only [Option.bind_some]
          cases hf' : T'[f]? with
          | none => simp [hf'] at h
          | some fd' =>
            rw [hf'] at h; simp only [Option.bind_some] at h
            obtain ⟨fd, polf, hf, rfl⟩ := rel_lookup hrel hf'
            rw [hf]; simp only [Option.bind_some]
            by_cases hbad : fd.arity ≠ args.length ∨ s1.length < args.length
            · have hbad' : (inlineFn T polf thr fd).arity ≠ args.length ∨ s1.length < args.length := hbad
              rw [if_pos hbad'] at h; cases h
            · have hbad' : ¬ ((inlineFn T polf thr fd).arity ≠ args.length ∨ s1.length < args.length) := hbad
              rw [if_neg hbad'] at h; rw [if_neg hbad]
              have har : fd.arity = args.length := by
                by_cases h1 : fd.arity = args.length
                · exact h1
                · exact absurd (Or.inl h1) hbad
              have hdl : fd.arity = (s1.drop (s1.length - args.length)).length := by simp; omega
              simp only [inlineFn] at h
              cases hb : evalIR T' F0 (inline T polf thr fd.arity fd.body) (s1.drop (s1.length - args.length)) with
              | none => simp [hb] at h
              | some q =>
                rw [hb] at h
                rw [hdl] at hb
                rw [hc fd.body polf _ q hb]; exact h
    | some fd =>
      have hes := eligible_some hel
      rw [inline_call_some _ hel, inlined_call_eval, inlineArgs_length] at h
      cases ha : evalArgs T' F (inlineArgs T pol thr s.length args) s with
      | none => simp [ha] at h
      | some s1 =>
        rw [ha] at h; simp only [Option.bind_some] at h
        cases hb : evalIR T' F fd.body (s1.drop (s1.length - args.length)) with
        | none => simp [hb] at h
        | some q =>
          rw [hb] at h
          obtain ⟨B0, hB, hq⟩ := hinl f fd _ q hes.1 hes.2.1 hb
          subst hB
          have hlen := evalArgs_length T' F _ s s1 ha
          rw [inlineArgs_length] at hlen
          rw [evalIR_call_succ, ihargs s s1 ha]; simp only [Option.bind_some]
          rw [hes.1]; simp only [Option.bind_some]
          have hok : ¬ (fd.arity ≠ args.length ∨ s1.length < args.length) := by
            intro h1; rcases h1 with h1 | h1
            · exact h1 hes.2.2.2
            · omega
          rw [if_neg hok, hq]; exact h
  | case9 => rename_i s s1 h; simpa [inlineArgs, evalArgs_nil] using h
  | case10 a r iha ihr =>
    rename_i s s1 h
    simp only [inlineArgs] at h
    rw [evalArgs_cons] at h ⊢
    cases ha : evalIR T' F (inline T pol thr s.length a) s with
    | none => simp [ha] at h
    | some p =>
      rw [ha] at h; simp only [Option.bind_some] at h
      rw [iha s p ha]; simp only [Option.bind_some]
      have hl := eval_preserves_height T' F _ s p.2 p.1 ha
      rw [show s.length + 1 = (p.2 ++ [p.1]).length by simp [hl]] at h
      exact ihr _ s1 h

theorem inline_bwd (hrel : Rel thr T T') : ∀ (F : Nat) (e : IR) (s : List Val) (pol : Nat → Bool) (r : Val × List Val),
    evalIR T' F (inline T pol thr s.length e) s = some r → evalIR T (2 * F + 1) e s = some r := by
  intro F
  induction F with
  | zero =>
    intro e s pol r h
    refine inline_bwd_aux hrel 0 1 pol (by intro F0 h0; omega) ?_ e s r h
    intro f fd t r' hf hp hb
    refine ⟨0, rfl, ?_⟩
    have := inline_bwd_aux hrel 0 0 (fun _ => false) (by intro F0 h0; omega) (by intro f fd t r _ hp; cases hp)
      fd.body t r' (by rw [inline_never]; exact hb)
    exact this
  | succ F ih =>
    -- un-inlined expressions at fuel F + 1 need 2 * (F + 1)
    have q0 : ∀ (e : IR) (s : List Val) (r : Val × List Val), evalIR T' (F + 1) e s = some r →
        evalIR T (2 * (F + 1)) e s = some r := by
      intro e s r h
      refine inline_bwd_aux hrel (F + 1) (2 * (F + 1)) (fun _ => false) ?_ (by intro f fd t r _ hp; cases hp) e s r
        (by rw [inline_never]; exact h)
      intro F0 h0
      obtain rfl : F0 = F := by omega
      exact ⟨2 * F0 + 1, by omega, fun body polf t r hb => ih body t polf r hb⟩
    intro e s pol r h
    refine inline_bwd_aux hrel (F + 1) (2 * (F + 1) + 1) pol ?_ ?_ e s r h
    · intro F0 h0
      obtain rfl : F0 = F := by omega
      refine ⟨2 * F0 + 2, by omega, fun body polf t r hb => ?_⟩
      exact evalIR_mono_succ T _ _ _ _ (ih body t polf r hb)
    · intro f fd t r' hf hp hb
      exact ⟨2 * (F + 1), rfl, q0 fd.body t r' hb⟩

end SteelVerif.C02
