/-
C02 — histories: the cell table of the run with unit-local inlining stays the pointwise inlining of the cell
table of the plain run, as long as no piece assigns a cell that an earlier (or the same) piece could inline.
-/
import SteelVerif.C02.LemmasInline
namespace SteelVerif.C02
open SteelVerif.C01

variable {thr : Nat}

theorem eligible_eq (A : List FnDef) (pol : Nat → Bool) (f n : Nat) :
    eligible A pol thr f n =
      if pol f = true then (A[f]?).bind (fun fd => if size fd.body < thr ∧ fd.arity = n then some fd else none)
      else none := by
  unfold eligible
  cases hf : A[f]? with
  | none => simp
  | some fd =>
    cases hp : pol f <;> simp

theorem inline_congr {A B : List FnDef} {polA polB : Nat → Bool}
    (h : ∀ f n, eligible A polA thr f n = eligible B polB thr f n) :
    ∀ (e : IR) (k : Nat), inline A polA thr k e = inline B polB thr k e := by
  intro e
  induction e using size.induct
    (motive_2 := fun args => ∀ k, inlineArgs A polA thr k args = inlineArgs B polB thr k args) with
  | case1 v => intro k; simp [inline]
  | case2 i => intro k; simp [inline]
  | case3 op a b iha ihb => intro k; simp [inline, iha, ihb]
  | case4 c t e ihc iht ihe => intro k; simp [inline, ihc, iht, ihe]
  | case5 e b ihe ihb => intro k; simp [inline, ihe, ihb]
  | case6 a b iha ihb => intro k; simp [inline, iha, ihb]
  | case7 i e ihe => intro k; simp [inline, ihe]
  | case8 f args ih =>
    intro k
    cases hel : eligible B polB thr f args.length with
    | none => rw [inline_call_none k hel, inline_call_none k (by rw [h]; exact hel), ih]
    | some fd => rw [inline_call_some k hel, inline_call_some k (by rw [h]; exact hel), ih]
  | case9 => rename_i k; simp [inlineArgs]
  | case10 a r iha ihr => rename_i k; simp [inlineArgs, iha, ihr]

theorem inlineFn_congr {A B : List FnDef} {polA polB : Nat → Bool}
    (h : ∀ f n, eligible A polA thr f n = eligible B polB thr f n) (fd : FnDef) :
    inlineFn A polA thr fd = inlineFn B polB thr fd := by
  simp only [inlineFn, inline_congr h]

/-- Tables that agree wherever the policy is true give the same eligible callees. -/
theorem eligible_agree {A B : List FnDef} {pol : Nat → Bool} (h : ∀ f, pol f = true → A[f]? = B[f]?) (f n : Nat) :
    eligible A pol thr f n = eligible B pol thr f n := by
  rw [eligible_eq, eligible_eq]
  cases hp : pol f with
  | false => simp
  | true => simp [h f hp]

/-- The policy of a unit, cut to the cells that exist, against a table that agrees with the unit's table on
the inlinable cells. -/
theorem eligible_unit {tab P : List FnDef} {inl : List Nat} (hlen : tab.length = P.length)
    (hag : ∀ f, f ∈ inl → tab[f]? = P[f]?) (f n : Nat) :
    eligible tab (fun f => inl.contains f) thr f n =
      eligible P (fun f => inl.contains f && decide (f < P.length)) thr f n := by
  rw [eligible_eq, eligible_eq]
  cases hp : inl.contains f with
  | false => simp
  | true =>
    have hm : f ∈ inl := by simpa using hp
    by_cases hlt : f < P.length
    · simp [hag f hm, hlt]
    · have h1 : tab[f]? = none := List.getElem?_eq_none (by rw [hlen]; omega)
      simp [h1, hlt]

/-- The cell table `I` of the inlining run is the pointwise inlining of the cell table `P` of the plain run,
with policies that only select existing cells that will never be assigned (`fz`). -/
def Inv (thr : Nat) (fz : List Nat) (P I : List FnDef) : Prop :=
  I.length = P.length ∧ ∀ (c : Nat) (fd : FnDef), P[c]? = some fd →
    ∃ pol : Nat → Bool, (∀ f, pol f = true → f < P.length ∧ f ∈ fz) ∧ I[c]? = some (inlineFn P pol thr fd)

/-- The unit's table agrees with the cells on everything the unit may inline. -/
def UA (inl : List Nat) (tab P : List FnDef) : Prop :=
  tab.length = P.length ∧ ∀ f, f ∈ inl → tab[f]? = P[f]?

theorem Inv.rel {fz : List Nat} {P I : List FnDef} (h : Inv thr fz P I) : Rel thr P I :=
  ⟨h.1, fun c fd hc => let ⟨pol, _, hp⟩ := h.2 c fd hc; ⟨pol, hp⟩⟩

theorem Inv.mono {fz fz' : List Nat} {P I : List FnDef} (h : Inv thr fz P I) (hs : ∀ f, f ∈ fz → f ∈ fz') :
    Inv thr fz' P I :=
  ⟨h.1, fun c fd hc => let ⟨pol, h1, hp⟩ := h.2 c fd hc; ⟨pol, fun f hf => ⟨(h1 f hf).1, hs f (h1 f hf).2⟩, hp⟩⟩

theorem inv_define {fz inl : List Nat} {P I tab : List FnDef} (fd : FnDef)
    (hinv : Inv thr fz P I) (hua : UA inl tab P) (hsub : ∀ f, f ∈ inl → f ∈ fz) :
    Inv thr fz (P ++ [fd]) (I ++ [inlineFn (tab ++ [fd]) (fun f => inl.contains f) thr fd]) ∧
    UA inl (tab ++ [fd]) (P ++ [fd]) := by
  have hua' : UA inl (tab ++ [fd]) (P ++ [fd]) := by
    refine ⟨by simp [hua.1], fun f hf => ?_⟩
    by_cases hlt : f < P.length
    · rw [List.getElem?_append_left (by rw [hua.1]; exact hlt), List.getElem?_append_left hlt]; exact hua.2 f hf
    · rw [List.getElem?_append_right (by rw [hua.1]; omega), List.getElem?_append_right (by omega), hua.1]
  refine ⟨⟨by simp [hinv.1], fun c fdc hc => ?_⟩, hua'⟩
  by_cases hlt : c < P.length
  · rw [List.getElem?_append_left hlt] at hc
    obtain ⟨pol, hsup, hI⟩ := hinv.2 c fdc hc
    refine ⟨pol, fun f hf => ⟨by have := (hsup f hf).1; simp; omega, (hsup f hf).2⟩, ?_⟩
    rw [List.getElem?_append_left (by rw [hinv.1]; exact hlt), hI]
    congr 1
    apply inlineFn_congr
    apply eligible_agree
    intro f hf
    rw [List.getElem?_append_left (hsup f hf).1]
  · have hce : c = P.length := by
      have : c < (P ++ [fd]).length := by
        rcases Nat.lt_or_ge c (P ++ [fd]).length with h1 | h1
        · exact h1
        · rw [List.getElem?_eq_none h1] at hc; cases hc
      simp at this; omega
    subst hce
    rw [List.getElem?_append_right (Nat.le_refl _)] at hc
    simp at hc; subst hc
    refine ⟨fun f => inl.contains f && decide (f < (P ++ [fd]).length), fun f hf => ?_, ?_⟩
    · simp only [Bool.and_eq_true, decide_eq_true_eq] at hf
      exact ⟨hf.2, hsub f (by simpa using hf.1)⟩
    · rw [List.getElem?_append_right (by rw [hinv.1]; exact Nat.le_refl _), hinv.1]
      simp only [Nat.sub_self, List.getElem?_cons_zero, Option.some.injEq]
      apply inlineFn_congr
      exact eligible_unit hua'.1 hua'.2

theorem inv_assign {fz inl : List Nat} {P I tab : List FnDef} (c : Nat) (fd : FnDef)
    (hinv : Inv thr fz P I) (hua : UA inl tab P) (hsub : ∀ f, f ∈ inl → f ∈ fz) (hc : c ∉ fz) :
    Inv thr fz (P.set c fd) (I.set c (inlineFn tab (fun f => inl.contains f) thr fd)) ∧ UA inl tab (P.set c fd) := by
  have hua' : UA inl tab (P.set c fd) := by
    refine ⟨by simp [hua.1], fun f hf => ?_⟩
    have hne : c ≠ f := fun h => hc (h ▸ hsub f hf)
    rw [List.getElem?_set_ne hne]; exact hua.2 f hf
  refine ⟨⟨by simp [hinv.1], fun d fdd hd => ?_⟩, hua'⟩
  by_cases hdc : c = d
  · subst hdc
    have hlt : c < P.length := by
      rcases Nat.lt_or_ge c P.length with h1 | h1
      · exact h1
      · rw [List.getElem?_eq_none (by simpa using h1)] at hd; cases hd
    rw [List.getElem?_set_self hlt] at hd
    simp only [Option.some.injEq] at hd; subst hd
    refine ⟨fun f => inl.contains f && decide (f < (P.set c fd).length), fun f hf => ?_, ?_⟩
    · simp only [Bool.and_eq_true, decide_eq_true_eq] at hf
      exact ⟨hf.2, hsub f (by simpa using hf.1)⟩
    · rw [List.getElem?_set_self (by rw [hinv.1]; exact hlt)]
      simp only [Option.some.injEq]
      apply inlineFn_congr
      exact eligible_unit hua'.1 hua'.2
  · rw [List.getElem?_set_ne hdc] at hd
    obtain ⟨pol, hsup, hI⟩ := hinv.2 d fdd hd
    refine ⟨pol, fun f hf => ⟨by simpa using (hsup f hf).1, (hsup f hf).2⟩, ?_⟩
    rw [List.getElem?_set_ne hdc, hI]
    congr 1
    apply inlineFn_congr
    apply eligible_agree
    intro f hf
    have hne : c ≠ f := fun h => hc (h ▸ (hsup f hf).2)
    rw [List.getElem?_set_ne hne]

theorem obs_eval {fz inl : List Nat} {P I tab : List FnDef} (e : IR)
    (hinv : Inv thr fz P I) (hua : UA inl tab P) :
    Obs.Equiv (P, e) (I, inline tab (fun f => inl.contains f) thr 0 e) := by
  have hc : inline tab (fun f => inl.contains f) thr 0 e =
      inline P (fun f => inl.contains f && decide (f < P.length)) thr ([] : List Val).length e :=
    inline_congr (eligible_unit hua.1 hua.2) e 0
  intro v
  show (∃ n, Option.map (·.1) (evalIR P n e []) = some v) ↔
    (∃ n, Option.map (·.1) (evalIR I n (inline tab (fun f => inl.contains f) thr 0 e) []) = some v)
  rw [hc]
  constructor
  · rintro ⟨n, hn⟩
    cases hr : evalIR P n e [] with
    | none => rw [hr] at hn; cases hn
    | some r =>
      rw [hr] at hn
      exact ⟨n, by rw [inline_fwd hinv.rel n e [] _ r hr]; exact hn⟩
  · rintro ⟨n, hn⟩
    cases hr : evalIR I n (inline P (fun f => inl.contains f && decide (f < P.length)) thr ([] : List Val).length e) [] with
    | none => rw [hr] at hn; cases hn
    | some r =>
      rw [hr] at hn
      exact ⟨2 * n + 1, by rw [inline_bwd hinv.rel n e [] _ r hr]; exact hn⟩

theorem obsEquiv_append : ∀ (a b c d : List Obs), ObsEquiv a b → ObsEquiv c d → ObsEquiv (a ++ c) (b ++ d) := by
  intro a
  induction a with
  | nil =>
    intro b c d h1 h2
    cases b with
    | nil => simpa using h2
    | cons x xs => simp [ObsEquiv] at h1
  | cons y ys ih =>
    intro b c d h1 h2
    cases b with
    | nil => simp [ObsEquiv] at h1
    | cons x xs =>
      simp only [ObsEquiv, List.cons_append] at h1 ⊢
      exact ⟨h1.1, ih xs c d h1.2 h2⟩

/-! ## One piece -/

theorem runForms_length : ∀ (forms : List Form) (P : List FnDef),
    (runForms forms P).1.length = P.length + countDefs forms := by
  intro forms
  induction forms with
  | nil => intro P; simp [runForms, countDefs]
  | cons fm rest ih =>
    intro P
    cases fm with
    | define fd => simp only [runForms, countDefs, ih]; simp; omega
    | assign c fd =>
      simp only [runForms, countDefs, ih]
      split <;> simp
    | eval e => simp only [runForms, countDefs, ih]

theorem piece_step {fz inl : List Nat} (hsub : ∀ f, f ∈ inl → f ∈ fz) :
    ∀ (forms : List Form) (P I tab : List FnDef), Inv thr fz P I → UA inl tab P →
      (∀ c, c ∈ assignedIn forms → c ∉ fz) →
      Inv thr fz (runForms forms P).1 (runForms (compileForms thr inl tab forms) I).1 ∧
      ObsEquiv (runForms forms P).2 (runForms (compileForms thr inl tab forms) I).2 := by
  intro forms
  induction forms with
  | nil => intro P I tab hinv _ _; exact ⟨by simpa [runForms, compileForms] using hinv, by simp [runForms, compileForms, ObsEquiv]⟩
  | cons fm rest ih =>
    intro P I tab hinv hua hasg
    cases fm with
    | define fd =>
      obtain ⟨hinv', hua'⟩ := inv_define fd hinv hua hsub
      simp only [runForms, compileForms]
      exact ih _ _ _ hinv' hua' (fun c hc => hasg c (by simpa [assignedIn] using hc))
    | assign c fd =>
      have hc : c ∉ fz := hasg c (by simp [assignedIn])
      have hrest : ∀ d, d ∈ assignedIn rest → d ∉ fz := fun d hd => hasg d (by simp [assignedIn, hd])
      simp only [runForms, compileForms, hinv.1]
      split
      · obtain ⟨hinv', hua'⟩ := inv_assign c fd hinv hua hsub hc
        exact ih _ _ _ hinv' hua' hrest
      · exact ih _ _ _ hinv hua hrest
    | eval e =>
      have := ih P I tab hinv hua (fun c hc => hasg c (by simpa [assignedIn] using hc))
      simp only [runForms, compileForms]
      exact ⟨this.1, obs_eval e hinv hua, this.2⟩

theorem mem_pieceInlinable {base : Nat} {p : Piece} {c : Nat} (h : c ∈ pieceInlinable thr base p) :
    base ≤ c ∧ c ∉ assignedIn p := by
  simp only [pieceInlinable, List.mem_filterMap, List.mem_range] at h
  obtain ⟨i, _, hi⟩ := h
  split at hi
  · rename_i fd _
    split at hi
    · rename_i hcond
      simp only [Option.some.injEq] at hi; subst hi
      simp only [Bool.and_eq_true, decide_eq_true_eq, Bool.not_eq_true', List.contains_eq_mem,
        decide_eq_false_iff_not] at hcond
      exact ⟨by omega, hcond.2⟩
    · cases hi
  · cases hi

/-! ## Whole histories -/

theorem history_inv : ∀ (h : History) (P I : List FnDef) (inl : List Nat), Inv thr inl P I →
    noLaterAssign thr h P.length inl = true →
    ObsEquiv (runHistory .plain h P) (runHistory (.inlining thr) h I) := by
  intro h
  induction h with
  | nil => intro P I inl _ _; simp [runHistory, ObsEquiv]
  | cons p rest ih =>
    intro P I inl hinv hg
    simp only [noLaterAssign, Bool.and_eq_true, List.all_eq_true, Bool.not_eq_true', List.contains_eq_mem,
      decide_eq_false_iff_not] at hg
    obtain ⟨hasg, hrest⟩ := hg
    let pin := pieceInlinable thr P.length p
    have hinv' : Inv thr (inl ++ pin) P I := hinv.mono (fun f hf => List.mem_append_left _ hf)
    have hua : UA pin (List.replicate P.length oldCell) P := by
      refine ⟨by simp, fun f hf => ?_⟩
      have := (mem_pieceInlinable hf).1
      rw [List.getElem?_eq_none (by simp; omega), List.getElem?_eq_none (by omega)]
    have hasg' : ∀ c, c ∈ assignedIn p → c ∉ inl ++ pin := by
      intro c hc hmem
      rcases List.mem_append.mp hmem with h1 | h1
      · exact hasg c hc h1
      · exact (mem_pieceInlinable h1).2 hc
    have hstep := piece_step (thr := thr) (fz := inl ++ pin) (inl := pin) (fun f hf => List.mem_append_right _ hf)
      p P I (List.replicate P.length oldCell) hinv' hua hasg'
    simp only [runHistory, compilePiece, hinv.1]
    refine obsEquiv_append _ _ _ _ hstep.2 ?_
    refine ih _ _ (inl ++ pin) hstep.1 ?_
    rw [runForms_length]
    exact hrest

end SteelVerif.C02
