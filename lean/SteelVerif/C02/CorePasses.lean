/-
C02 on the core with closures (`C01/Core.lean`) — groundwork for optimisation passes: the reference semantics is
monotone in the fuel (an outcome reached with some fuel is reached with any larger fuel), and the first pass:
dead-branch elimination on constant tests.
-/
import SteelVerif.C01.PropsCore
namespace SteelVerif.C02C
open SteelVerif.C01C

/-! ## Fuel monotonicity of `evalC` -/

def MonoE (fuel : Nat) : Prop :=
  ∀ (self : Self) (tail : Bool) (e : Core) (env caps : List Val) (σ : St Core) (r : Res (Val × List Val × St Core)),
    evalC fuel self tail e env caps σ = r → r ≠ .timeout → evalC (fuel + 1) self tail e env caps σ = r

def MonoA (fuel : Nat) : Prop :=
  ∀ (self : Self) (args : List Core) (env caps : List Val) (σ : St Core) (r : Res (List Val × St Core)),
    evalArgs fuel self args env caps σ = r → r ≠ .timeout → evalArgs (fuel + 1) self args env caps σ = r

theorem applyWith_mono {ev1 ev2 : Self → Core → List Val → List Val → St Core → Res (Val × List Val × St Core)}
    (hext : ∀ s b l c σ r, ev1 s b l c σ = r → r ≠ .timeout → ev2 s b l c σ = r)
    (fv : Val) (argv : List Val) (σ : St Core) (r : Res (Val × St Core))
    (h : applyWith ev1 fv argv σ = r) (hr : r ≠ .timeout) : applyWith ev2 fv argv σ = r := by
  cases fv with
  | clo a rr body cc =>
    simp only [applyWith] at h ⊢
    cases hb : bindArgs a rr argv with
    | ok locals =>
      simp only [hb] at h ⊢
      cases he : ev1 (some (a, rr, body)) body locals cc σ with
      | timeout => simp only [he] at h; exact absurd h.symm hr
      | err k => rw [hext _ _ _ _ _ _ he (by simp)]; simpa [he] using h
      | ok x => rw [hext _ _ _ _ _ _ he (by simp)]; simpa [he] using h
    | err k => simpa [hb] using h
    | timeout => simpa [hb] using h
  | prim p => simpa [applyWith] using h
  | int n => simpa [applyWith] using h
  | bool b => simpa [applyWith] using h
  | void => simpa [applyWith] using h
  | box a => simpa [applyWith] using h
  | list xs => simpa [applyWith] using h

/-- One sub-evaluation: transfer it to the larger fuel, or finish at once when it is an error / out of fuel. -/
theorem mono_args (fuel : Nat) (ihE : MonoE fuel) (ihA : MonoA fuel) : MonoA (fuel + 1) := by
  intro self args env caps σ r h hr
  cases args with
  | nil => simpa [evalArgs] using h
  | cons a rest =>
    simp only [evalArgs] at h ⊢
    cases ha : evalC fuel self false a env caps σ with
    | timeout => simp only [ha] at h; exact absurd h.symm hr
    | err k => rw [ihE _ _ _ _ _ _ _ ha (by simp)]; simpa [ha] using h
    | ok x =>
      obtain ⟨v, env1, σ1⟩ := x
      rw [ihE _ _ _ _ _ _ _ ha (by simp)]
      simp only [ha] at h ⊢
      exact ihA _ _ _ _ _ _ h hr

theorem mono_expr (fuel : Nat) (ihE : MonoE fuel) (ihA : MonoA fuel) : MonoE (fuel + 1) := by
  intro self tail e env caps σ r h hr
  have hap : ∀ fv argv σ' (r' : Res (Val × St Core)), applyWith (fun s => evalC fuel s true) fv argv σ' = r' →
      r' ≠ .timeout → applyWith (fun s => evalC (fuel + 1) s true) fv argv σ' = r' :=
    fun fv argv σ' r' => applyWith_mono (fun s b l c σ r h1 h2 => ihE s true b l c σ r h1 h2) fv argv σ' r'
  cases e with
  | const c => simpa [evalC] using h
  | loc i mv => simpa [evalC] using h
  | cap i => simpa [evalC] using h
  | glob g => simpa [evalC] using h
  | lam a rr cs body => simpa [evalC] using h
  | app f args =>
    simp only [evalC] at h; rw [evalC]
    cases hi : evalArgs fuel self args env caps σ with
    | timeout => simp only [hi] at h; exact absurd h.symm hr
    | err k => rw [ihA _ _ _ _ _ _ hi (by simp)]; simpa [hi] using h
    | ok x =>
      obtain ⟨env1, σ1⟩ := x
      rw [ihA _ _ _ _ _ _ hi (by simp)]
      simp only [hi] at h ⊢
      cases hf : evalC fuel self false f env1 caps σ1 with
      | timeout => simp only [hf] at h; exact absurd h.symm hr
      | err k => rw [ihE _ _ _ _ _ _ _ hf (by simp)]; simpa [hf] using h
      | ok y =>
        obtain ⟨fv, env2, σ2⟩ := y
        rw [ihE _ _ _ _ _ _ _ hf (by simp)]
        simp only [hf] at h ⊢
        cases hs : splitLast args.length env2 with
        | none => simpa [hs] using h
        | some sp =>
          obtain ⟨envr, argv⟩ := sp
          simp only [hs] at h ⊢
          cases ha : applyWith (fun s => evalC fuel s true) fv argv σ2 with
          | timeout => simp only [ha] at h; exact absurd h.symm hr
          | err k => rw [hap _ _ _ _ ha (by simp)]; simpa [ha] using h
          | ok z => rw [hap _ _ _ _ ha (by simp)]; simpa [ha] using h
  | callG g args =>
    simp only [evalC] at h; rw [evalC]
    cases hi : evalArgs fuel self args env caps σ with
    | timeout => simp only [hi] at h; exact absurd h.symm hr
    | err k => rw [ihA _ _ _ _ _ _ hi (by simp)]; simpa [hi] using h
    | ok x =>
      obtain ⟨env1, σ1⟩ := x
      rw [ihA _ _ _ _ _ _ hi (by simp)]
      simp only [hi] at h ⊢
      cases hg : lookupG g σ1.globals with
      | none => simpa [hg] using h
      | some fv =>
        simp only [hg] at h ⊢
        cases hs : splitLast args.length env1 with
        | none => simpa [hs] using h
        | some sp =>
          obtain ⟨envr, argv⟩ := sp
          simp only [hs] at h ⊢
          cases ha : applyWith (fun s => evalC fuel s true) fv argv σ1 with
          | timeout => simp only [ha] at h; exact absurd h.symm hr
          | err k => rw [hap _ _ _ _ ha (by simp)]; simpa [ha] using h
          | ok z => rw [hap _ _ _ _ ha (by simp)]; simpa [ha] using h
  | selfTail args =>
    simp only [evalC] at h; rw [evalC]
    cases tail
    · simpa using h
    · simp only [if_true] at h ⊢
      cases hi : evalArgs fuel self args env caps σ with
      | timeout => simp only [hi] at h; exact absurd h.symm hr
      | err k => rw [ihA _ _ _ _ _ _ hi (by simp)]; simpa [hi] using h
      | ok x =>
        obtain ⟨env1, σ1⟩ := x
        rw [ihA _ _ _ _ _ _ hi (by simp)]
        simp only [hi] at h ⊢
        cases self with
        | none => simpa using h
        | some sf =>
          obtain ⟨a, rr, body⟩ := sf
          simp only at h ⊢
          cases hs : splitLast args.length env1 with
          | none => simpa [hs] using h
          | some sp =>
            obtain ⟨envr, argv⟩ := sp
            simp only [hs] at h ⊢
            cases ha : applyWith (fun s => evalC fuel s true) (.clo a rr body caps) argv σ1 with
            | timeout => simp only [ha] at h; exact absurd h.symm hr
            | err k => rw [hap _ _ _ _ ha (by simp)]; simpa [ha] using h
            | ok z => rw [hap _ _ _ _ ha (by simp)]; simpa [ha] using h
  | ite c t e' =>
    simp only [evalC] at h; rw [evalC]
    cases hc : evalC fuel self false c env caps σ with
    | timeout => simp only [hc] at h; exact absurd h.symm hr
    | err k => rw [ihE _ _ _ _ _ _ _ hc (by simp)]; simpa [hc] using h
    | ok x =>
      obtain ⟨vc, env1, σ1⟩ := x
      rw [ihE _ _ _ _ _ _ _ hc (by simp)]
      simp only [hc] at h ⊢
      split
      · rename_i ht; simp only [ht, if_true] at h; exact ihE _ _ _ _ _ _ _ h hr
      · rename_i ht; simp only [ht, if_false] at h; exact ihE _ _ _ _ _ _ _ h hr
  | let_ off inits body =>
    simp only [evalC] at h; rw [evalC]
    cases hi : evalArgs fuel self inits env caps σ with
    | timeout => simp only [hi] at h; exact absurd h.symm hr
    | err k => rw [ihA _ _ _ _ _ _ hi (by simp)]; simpa [hi] using h
    | ok x =>
      obtain ⟨env1, σ1⟩ := x
      rw [ihA _ _ _ _ _ _ hi (by simp)]
      simp only [hi] at h ⊢
      cases hb : evalC fuel self tail body env1 caps σ1 with
      | timeout => simp only [hb] at h; exact absurd h.symm hr
      | err k => rw [ihE _ _ _ _ _ _ _ hb (by simp)]; simpa [hb] using h
      | ok y => rw [ihE _ _ _ _ _ _ _ hb (by simp)]; simpa [hb] using h
  | seq a b =>
    simp only [evalC] at h; rw [evalC]
    cases ha : evalC fuel self false a env caps σ with
    | timeout => simp only [ha] at h; exact absurd h.symm hr
    | err k => rw [ihE _ _ _ _ _ _ _ ha (by simp)]; simpa [ha] using h
    | ok x =>
      obtain ⟨va, env1, σ1⟩ := x
      rw [ihE _ _ _ _ _ _ _ ha (by simp)]
      simp only [ha] at h ⊢
      exact ihE _ _ _ _ _ _ _ h hr
  | setLoc i e' =>
    simp only [evalC] at h; rw [evalC]
    cases he : evalC fuel self false e' env caps σ with
    | timeout => simp only [he] at h; exact absurd h.symm hr
    | err k => rw [ihE _ _ _ _ _ _ _ he (by simp)]; simpa [he] using h
    | ok x => rw [ihE _ _ _ _ _ _ _ he (by simp)]; simpa [he] using h
  | boxop op args =>
    simp only [evalC] at h; rw [evalC]
    cases hi : evalArgs fuel self args env caps σ with
    | timeout => simp only [hi] at h; exact absurd h.symm hr
    | err k => rw [ihA _ _ _ _ _ _ hi (by simp)]; simpa [hi] using h
    | ok x => rw [ihA _ _ _ _ _ _ hi (by simp)]; simpa [hi] using h
  | define g e' =>
    simp only [evalC] at h; rw [evalC]
    cases he : evalC fuel self false e' env caps σ with
    | timeout => simp only [he] at h; exact absurd h.symm hr
    | err k => rw [ihE _ _ _ _ _ _ _ he (by simp)]; simpa [he] using h
    | ok x => rw [ihE _ _ _ _ _ _ _ he (by simp)]; simpa [he] using h
  | setGlob g e' =>
    simp only [evalC] at h; rw [evalC]
    cases he : evalC fuel self false e' env caps σ with
    | timeout => simp only [he] at h; exact absurd h.symm hr
    | err k => rw [ihE _ _ _ _ _ _ _ he (by simp)]; simpa [he] using h
    | ok x => rw [ihE _ _ _ _ _ _ _ he (by simp)]; simpa [he] using h

theorem mono_all : ∀ fuel, MonoE fuel ∧ MonoA fuel := by
  intro fuel
  induction fuel with
  | zero =>
    constructor
    · intro self tail e env caps σ r h hr; simp [evalC] at h; exact absurd h.symm hr
    · intro self args env caps σ r h hr; simp [evalArgs] at h; exact absurd h.symm hr
  | succ fuel ih => exact ⟨mono_expr fuel ih.1 ih.2, mono_args fuel ih.1 ih.2⟩

/-- **`evalC` is monotone in the fuel.** -/
theorem evalC_mono (fuel k : Nat) (self : Self) (tail : Bool) (e : Core) (env caps : List Val) (σ : St Core)
    (r : Res (Val × List Val × St Core)) (h : evalC fuel self tail e env caps σ = r) (hr : r ≠ .timeout) :
    evalC (fuel + k) self tail e env caps σ = r := by
  induction k with
  | zero => exact h
  | succ k ih => exact (mono_all (fuel + k)).1 _ _ _ _ _ _ _ ih hr

theorem evalTop_mono (fuel k : Nat) (e : Core) (σ : St Core) (r : Res (Val × St Core))
    (h : evalTop fuel e σ = r) (hr : r ≠ .timeout) : evalTop (fuel + k) e σ = r := by
  unfold evalTop at h ⊢
  cases he : evalC fuel none false e [] [] σ with
  | timeout => rw [he] at h; simp [Res.map] at h; exact absurd h.symm hr
  | err x => rw [evalC_mono fuel k _ _ _ _ _ _ _ he (by simp)]; rw [he] at h; exact h
  | ok x => rw [evalC_mono fuel k _ _ _ _ _ _ _ he (by simp)]; rw [he] at h; exact h

end SteelVerif.C02C
