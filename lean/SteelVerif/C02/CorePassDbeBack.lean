/-
C02 on the core with closures — the backward direction for dead-branch elimination (`dbe` of `CorePassDbe.lean`):
if the optimised program finishes, the original finishes with the same outcome — with `slack e` more fuel (the number
of eliminated constant tests nested along a path).
-/
import SteelVerif.C02.CorePassFold
namespace SteelVerif.C02C
open SteelVerif.C01C

mutual
def slack : Core → Nat
  | .const _ => 0
  | .loc _ _ => 0
  | .cap _ => 0
  | .glob _ => 0
  | .lam _ _ _ _ => 0
  | .app f args => max (slack f) (slackL args)
  | .callG _ args => slackL args
  | .selfTail args => slackL args
  | .ite c t e =>
      match constTest c with
      | some true => slack t + 1
      | some false => slack e + 1
      | none => max (slack c) (max (slack t) (slack e))
  | .let_ _ inits body => max (slackL inits) (slack body)
  | .seq a b => max (slack a) (slack b)
  | .setLoc _ e => slack e
  | .boxop _ args => slackL args
  | .define _ e => slack e
  | .setGlob _ e => slack e
def slackL : List Core → Nat
  | [] => 0
  | a :: rest => max (slack a) (slackL rest)
end

theorem lift3 {F a m : Nat} {self : Self} {tail : Bool} {e : Core} {env caps : List Val} {σ : St Core}
    {r : Res (Val × List Val × St Core)} (h : evalC (F + a) self tail e env caps σ = r) (hr : r ≠ .timeout)
    (ha : a ≤ m) : evalC (F + m) self tail e env caps σ = r := by
  have := evalC_mono (F + a) (m - a) self tail e env caps σ r h hr
  rwa [show F + a + (m - a) = F + m by omega] at this

theorem evalArgs_mono (fuel k : Nat) (self : Self) (args : List Core) (env caps : List Val) (σ : St Core)
    (r : Res (List Val × St Core)) (h : evalArgs fuel self args env caps σ = r) (hr : r ≠ .timeout) :
    evalArgs (fuel + k) self args env caps σ = r := by
  induction k with
  | zero => exact h
  | succ k ih => exact (mono_all (fuel + k)).2 _ _ _ _ _ _ ih hr

theorem lift2 {F a m : Nat} {self : Self} {args : List Core} {env caps : List Val} {σ : St Core}
    {r : Res (List Val × St Core)} (h : evalArgs (F + a) self args env caps σ = r) (hr : r ≠ .timeout)
    (ha : a ≤ m) : evalArgs (F + m) self args env caps σ = r := by
  have := evalArgs_mono (F + a) (m - a) self args env caps σ r h hr
  rwa [show F + a + (m - a) = F + m by omega] at this

theorem liftA {F m : Nat} {fv : Val} {argv : List Val} {σ : St Core} {r : Res (Val × St Core)}
    (h : applyWith (fun s => evalC F s true) fv argv σ = r) (hr : r ≠ .timeout) :
    applyWith (fun s => evalC (F + m) s true) fv argv σ = r :=
  applyWith_mono (fun s b l c σ' r' h1 h2 => evalC_mono F m s true b l c σ' r' h1 h2) fv argv σ r h hr

mutual
theorem dbe_back : ∀ (e : Core) (fuel : Nat) (self : Self) (tail : Bool) (env caps : List Val) (σ : St Core)
    (r : Res (Val × List Val × St Core)), evalC fuel self tail (dbe e) env caps σ = r → r ≠ .timeout →
    evalC (fuel + slack e) self tail e env caps σ = r
  | .const c, fuel, self, tail, env, caps, σ, r, h, _ => by simpa [dbe, slack] using h
  | .loc i mv, fuel, self, tail, env, caps, σ, r, h, _ => by simpa [dbe, slack] using h
  | .cap i, fuel, self, tail, env, caps, σ, r, h, _ => by simpa [dbe, slack] using h
  | .glob g, fuel, self, tail, env, caps, σ, r, h, _ => by simpa [dbe, slack] using h
  | .lam a rr cs body, fuel, self, tail, env, caps, σ, r, h, _ => by simpa [dbe, slack] using h
  | .app f args, fuel, self, tail, env, caps, σ, r, h, hr => by
    cases fuel with
    | zero => simp [evalC] at h; exact absurd h.symm hr
    | succ F =>
      simp only [dbe, evalC, dbeL_length] at h
      simp only [slack]
      rw [Nat.add_right_comm, evalC]
      cases hi : evalArgs F self (dbeL args) env caps σ with
      | timeout => simp only [hi] at h; exact absurd h.symm hr
      | err k =>
        rw [lift2 (dbeL_back args F self env caps σ _ hi (by simp)) (by simp) (Nat.le_max_right _ _)]
        simpa [hi] using h
      | ok x =>
        obtain ⟨env1, σ1⟩ := x
        rw [lift2 (dbeL_back args F self env caps σ _ hi (by simp)) (by simp) (Nat.le_max_right _ _)]
        simp only [hi] at h ⊢
        cases hf : evalC F self false (dbe f) env1 caps σ1 with
        | timeout => simp only [hf] at h; exact absurd h.symm hr
        | err k =>
          rw [lift3 (dbe_back f F self false env1 caps σ1 _ hf (by simp)) (by simp) (Nat.le_max_left _ _)]
          simpa [hf] using h
        | ok y =>
          obtain ⟨fv, env2, σ2⟩ := y
          rw [lift3 (dbe_back f F self false env1 caps σ1 _ hf (by simp)) (by simp) (Nat.le_max_left _ _)]
          simp only [hf] at h ⊢
          cases hs : splitLast args.length env2 with
          | none => simpa [hs] using h
          | some sp =>
            obtain ⟨envr, argv⟩ := sp
            simp only [hs] at h ⊢
            cases ha : applyWith (fun s => evalC F s true) fv argv σ2 with
            | timeout => simp only [ha] at h; exact absurd h.symm hr
            | err k => rw [liftA ha (by simp)]; simpa [ha] using h
            | ok z => rw [liftA ha (by simp)]; simpa [ha] using h
  | .callG g args, fuel, self, tail, env, caps, σ, r, h, hr => by
    cases fuel with
    | zero => simp [evalC] at h; exact absurd h.symm hr
    | succ F =>
      simp only [dbe, evalC, dbeL_length] at h
      simp only [slack]
      rw [Nat.add_right_comm, evalC]
      cases hi : evalArgs F self (dbeL args) env caps σ with
      | timeout => simp only [hi] at h; exact absurd h.symm hr
      | err k => rw [dbeL_back args F self env caps σ _ hi (by simp)]; simpa [hi] using h
      | ok x =>
        obtain ⟨env1, σ1⟩ := x
        rw [dbeL_back args F self env caps σ _ hi (by simp)]
        simp only [hi] at h ⊢
        cases hg : lookupG g σ1.globals with
        | none => simpa [hg] using h
        | some fv =>
          simp only [hg] at h ⊢
          cases hs : splitLast args.length env1 with
          | none => simpa [hs] using h
          | some sp =>
            obtain ⟨envr, argv⟩ := sp
            simp only [hs] at h ⊢
            cases ha : applyWith (fun s => evalC F s true) fv argv σ1 with
            | timeout => simp only [ha] at h; exact absurd h.symm hr
            | err k => rw [liftA ha (by simp)]; simpa [ha] using h
            | ok z => rw [liftA ha (by simp)]; simpa [ha] using h
  | .selfTail args, fuel, self, tail, env, caps, σ, r, h, hr => by
    cases fuel with
    | zero => simp [evalC] at h; exact absurd h.symm hr
    | succ F =>
      simp only [dbe, evalC, dbeL_length] at h
      simp only [slack]
      rw [Nat.add_right_comm, evalC]
      cases tail
      · simpa using h
      · simp only [if_true] at h ⊢
        cases hi : evalArgs F self (dbeL args) env caps σ with
        | timeout => simp only [hi] at h; exact absurd h.symm hr
        | err k => rw [dbeL_back args F self env caps σ _ hi (by simp)]; simpa [hi] using h
        | ok x =>
          obtain ⟨env1, σ1⟩ := x
          rw [dbeL_back args F self env caps σ _ hi (by simp)]
          simp only [hi] at h ⊢
          cases self with
          | none => simpa using h
          | some sf =>
            obtain ⟨a, rr, body⟩ := sf
            simp only at h ⊢
            cases hs : splitLast args.length env1 with
            | none => simpa [hs] using h
            | some sp =>
              obtain ⟨envr, argv⟩ := sp
              simp only [hs] at h ⊢
              cases ha : applyWith (fun s => evalC F s true) (.clo a rr body caps) argv σ1 with
              | timeout => simp only [ha] at h; exact absurd h.symm hr
              | err k => rw [liftA ha (by simp)]; simpa [ha] using h
              | ok z => rw [liftA ha (by simp)]; simpa [ha] using h
  | .ite c t e', fuel, self, tail, env, caps, σ, r, h, hr => by
    cases hct : constTest c with
    | some b =>
      cases c <;> simp [constTest] at hct
      rename_i k
      cases fuel with
      | zero => simp [evalC] at h; exact absurd h.symm hr
      | succ F =>
        cases b
        · have hk : truthy (k.toV : Val) = false := by simpa using hct
          simp only [dbe, constTest, hk] at h
          have := dbe_back e' (F + 1) self tail env caps σ r h hr
          simp only [slack, constTest, hk]
          rw [show F + 1 + (slack e' + 1) = (F + 1 + slack e') + 1 by omega, evalC]
          rw [show F + 1 + slack e' = (F + slack e') + 1 by omega, evalC]
          simp only [hk, Bool.false_eq_true, if_false]
          rw [show F + slack e' + 1 = F + 1 + slack e' by omega]; exact this
        · have hk : truthy (k.toV : Val) = true := by simpa using hct
          simp only [dbe, constTest, hk] at h
          have := dbe_back t (F + 1) self tail env caps σ r h hr
          simp only [slack, constTest, hk]
          rw [show F + 1 + (slack t + 1) = (F + 1 + slack t) + 1 by omega, evalC]
          rw [show F + 1 + slack t = (F + slack t) + 1 by omega, evalC]
          simp only [hk, if_true]
          rw [show F + slack t + 1 = F + 1 + slack t by omega]; exact this
    | none =>
      cases fuel with
      | zero => simp [evalC] at h; exact absurd h.symm hr
      | succ F =>
        simp only [dbe, hct, evalC] at h
        simp only [slack, hct]
        rw [Nat.add_right_comm, evalC]
        cases hc : evalC F self false (dbe c) env caps σ with
        | timeout => simp only [hc] at h; exact absurd h.symm hr
        | err k =>
          rw [lift3 (dbe_back c F self false env caps σ _ hc (by simp)) (by simp) (Nat.le_max_left _ _)]
          simpa [hc] using h
        | ok x =>
          obtain ⟨vc, env1, σ1⟩ := x
          rw [lift3 (dbe_back c F self false env caps σ _ hc (by simp)) (by simp) (Nat.le_max_left _ _)]
          simp only [hc] at h ⊢
          split
          · rename_i ht; simp only [ht, if_true] at h
            exact lift3 (dbe_back t F self tail env1 caps σ1 r h hr) hr (by omega)
          · rename_i ht; simp only [ht, if_false] at h
            exact lift3 (dbe_back e' F self tail env1 caps σ1 r h hr) hr (by omega)
  | .let_ off inits body, fuel, self, tail, env, caps, σ, r, h, hr => by
    cases fuel with
    | zero => simp [evalC] at h; exact absurd h.symm hr
    | succ F =>
      simp only [dbe, evalC] at h
      simp only [slack]
      rw [Nat.add_right_comm, evalC]
      cases hi : evalArgs F self (dbeL inits) env caps σ with
      | timeout => simp only [hi] at h; exact absurd h.symm hr
      | err k =>
        rw [lift2 (dbeL_back inits F self env caps σ _ hi (by simp)) (by simp) (Nat.le_max_left _ _)]
        simpa [hi] using h
      | ok x =>
        obtain ⟨env1, σ1⟩ := x
        rw [lift2 (dbeL_back inits F self env caps σ _ hi (by simp)) (by simp) (Nat.le_max_left _ _)]
        simp only [hi] at h ⊢
        cases hb : evalC F self tail (dbe body) env1 caps σ1 with
        | timeout => simp only [hb] at h; exact absurd h.symm hr
        | err k =>
          rw [lift3 (dbe_back body F self tail env1 caps σ1 _ hb (by simp)) (by simp) (Nat.le_max_right _ _)]
          simpa [hb] using h
        | ok y =>
          rw [lift3 (dbe_back body F self tail env1 caps σ1 _ hb (by simp)) (by simp) (Nat.le_max_right _ _)]
          simpa [hb] using h
  | .seq a b, fuel, self, tail, env, caps, σ, r, h, hr => by
    cases fuel with
    | zero => simp [evalC] at h; exact absurd h.symm hr
    | succ F =>
      simp only [dbe, evalC] at h
      simp only [slack]
      rw [Nat.add_right_comm, evalC]
      cases ha : evalC F self false (dbe a) env caps σ with
      | timeout => simp only [ha] at h; exact absurd h.symm hr
      | err k =>
        rw [lift3 (dbe_back a F self false env caps σ _ ha (by simp)) (by simp) (Nat.le_max_left _ _)]
        simpa [ha] using h
      | ok x =>
        obtain ⟨va, env1, σ1⟩ := x
        rw [lift3 (dbe_back a F self false env caps σ _ ha (by simp)) (by simp) (Nat.le_max_left _ _)]
        simp only [ha] at h ⊢
        exact lift3 (dbe_back b F self tail env1 caps σ1 r h hr) hr (Nat.le_max_right _ _)
  | .setLoc i e', fuel, self, tail, env, caps, σ, r, h, hr => by
    cases fuel with
    | zero => simp [evalC] at h; exact absurd h.symm hr
    | succ F =>
      simp only [dbe, evalC] at h
      simp only [slack]
      rw [Nat.add_right_comm, evalC]
      cases he : evalC F self false (dbe e') env caps σ with
      | timeout => simp only [he] at h; exact absurd h.symm hr
      | err k => rw [dbe_back e' F self false env caps σ _ he (by simp)]; simpa [he] using h
      | ok x => rw [dbe_back e' F self false env caps σ _ he (by simp)]; simpa [he] using h
  | .boxop op args, fuel, self, tail, env, caps, σ, r, h, hr => by
    cases fuel with
    | zero => simp [evalC] at h; exact absurd h.symm hr
    | succ F =>
      simp only [dbe, evalC] at h
      simp only [slack]
      rw [Nat.add_right_comm, evalC]
      cases hi : evalArgs F self (dbeL args) env caps σ with
      | timeout => simp only [hi] at h; exact absurd h.symm hr
      | err k => rw [dbeL_back args F self env caps σ _ hi (by simp)]; simpa [hi] using h
      | ok x => rw [dbeL_back args F self env caps σ _ hi (by simp)]; simpa [hi] using h
  | .define g e', fuel, self, tail, env, caps, σ, r, h, hr => by
    cases fuel with
    | zero => simp [evalC] at h; exact absurd h.symm hr
    | succ F =>
      simp only [dbe, evalC] at h
      simp only [slack]
      rw [Nat.add_right_comm, evalC]
      cases he : evalC F self false (dbe e') env caps σ with
      | timeout => simp only [he] at h; exact absurd h.symm hr
      | err k => rw [dbe_back e' F self false env caps σ _ he (by simp)]; simpa [he] using h
      | ok x => rw [dbe_back e' F self false env caps σ _ he (by simp)]; simpa [he] using h
  | .setGlob g e', fuel, self, tail, env, caps, σ, r, h, hr => by
    cases fuel with
    | zero => simp [evalC] at h; exact absurd h.symm hr
    | succ F =>
      simp only [dbe, evalC] at h
      simp only [slack]
      rw [Nat.add_right_comm, evalC]
      cases he : evalC F self false (dbe e') env caps σ with
      | timeout => simp only [he] at h; exact absurd h.symm hr
      | err k => rw [dbe_back e' F self false env caps σ _ he (by simp)]; simpa [he] using h
      | ok x => rw [dbe_back e' F self false env caps σ _ he (by simp)]; simpa [he] using h
theorem dbeL_back : ∀ (args : List Core) (fuel : Nat) (self : Self) (env caps : List Val) (σ : St Core)
    (r : Res (List Val × St Core)), evalArgs fuel self (dbeL args) env caps σ = r → r ≠ .timeout →
    evalArgs (fuel + slackL args) self args env caps σ = r
  | [], fuel, self, env, caps, σ, r, h, _ => by simpa [dbeL, slackL] using h
  | a :: rest, fuel, self, env, caps, σ, r, h, hr => by
    cases fuel with
    | zero => simp [evalArgs] at h; exact absurd h.symm hr
    | succ F =>
      simp only [dbeL, evalArgs] at h
      simp only [slackL]
      rw [Nat.add_right_comm, evalArgs]
      cases ha : evalC F self false (dbe a) env caps σ with
      | timeout => simp only [ha] at h; exact absurd h.symm hr
      | err k =>
        rw [lift3 (dbe_back a F self false env caps σ _ ha (by simp)) (by simp) (Nat.le_max_left _ _)]
        simpa [ha] using h
      | ok x =>
        obtain ⟨v, env1, σ1⟩ := x
        rw [lift3 (dbe_back a F self false env caps σ _ ha (by simp)) (by simp) (Nat.le_max_left _ _)]
        simp only [ha] at h ⊢
        exact lift2 (dbeL_back rest F self (env1 ++ [v]) caps σ1 r h hr) hr (Nat.le_max_right _ _)
end

end SteelVerif.C02C
