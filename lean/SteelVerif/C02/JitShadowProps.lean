/-
C02 — theorems about the JIT's shadow stack (model: JitShadow.lean).

`shadow_transparent`: late materialisation of operands is unobservable — native code and the interpreter reach
the same slots and the same operand stack — for every operand program that passes the two static guards of
`absP true` (no write to a slot with a pending reference; both branches of a conditional leave the pending
entries in the same state) from every well-formed state.  The guards are NOT in jit2/cgen.rs: the decided
witnesses at the end are operand programs of the real findings (K02g, K02i, K02n in both directions, the `lp`
loop) on which the model of the real code generator and the interpreter differ — each violates one guard.
-/
import SteelVerif.C02.JitShadow
import SteelVerif.C01.Core
namespace SteelVerif.C02J

variable {α : Type} (void : α)

/-! ## Lemmas -/

theorem filter_unsp_of_all_spilled (r : List (Pend α)) (h : r.all (fun x => !x.unsp) = true) :
    r.filter Pend.unsp = [] := by
  induction r with
  | nil => rfl
  | cons e r ih =>
      simp only [List.all_cons, Bool.and_eq_true] at h
      have h1 : e.unsp = false := by simpa using h.1
      simp [List.filter_cons, h1, ih h.2]

theorem sorted_of_all_spilled (r : List (Pend α)) (h : r.all (fun x => !x.unsp) = true) : sorted r = true := by
  cases r with
  | nil => rfl
  | cons e r =>
      simp only [List.all_cons, Bool.and_eq_true] at h
      have he : e.unsp = false := by simpa using h.1
      unfold sorted
      simp [he, h.2]

theorem sorted_tail (e : Pend α) (r : List (Pend α)) (h : sorted (e :: r) = true) : sorted r = true := by
  unfold sorted at h
  split at h
  · exact h
  · exact sorted_of_all_spilled r h

theorem sorted_cons_unsp (e : Pend α) (r : List (Pend α)) (he : e.unsp = true) (h : sorted r = true) :
    sorted (e :: r) = true := by
  unfold sorted
  simp [he, h]

/-- `pop` against the concretisation. -/
theorem pop_sound {st st' : NSt α} {a : α} (hw : sorted st.sh = true) (h : pop void st = some (a, st')) :
    concOps void st.loc st.vm st.sh = a :: concOps void st'.loc st'.vm st'.sh ∧ st'.loc = st.loc ∧
      sorted st'.sh = true ∧ ∃ e, st.sh = e :: st'.sh := by
  unfold pop at h
  cases hs : st.sh with
  | nil => simp [hs] at h
  | cons e r =>
      rw [hs] at h hw
      have hr := sorted_tail e r hw
      cases e with
      | ref i =>
          simp only [Option.some.injEq, Prod.mk.injEq] at h
          obtain ⟨ha, hst⟩ := h
          subst hst ha
          simp [concOps, List.filter_cons, Pend.unsp, valOf, hr]
      | val v b =>
          cases b with
          | false =>
              simp only [Option.some.injEq, Prod.mk.injEq] at h
              obtain ⟨ha, hst⟩ := h
              subst hst ha
              simp [concOps, List.filter_cons, Pend.unsp, valOf, hr]
          | true =>
              cases hv : st.vm with
              | nil => simp [hv] at h
              | cons x vm' =>
                  simp only [hv, Option.some.injEq, Prod.mk.injEq] at h
                  obtain ⟨ha, hst⟩ := h
                  subst hst ha
                  have hall : r.all (fun x => !x.unsp) = true := by
                    unfold sorted at hw
                    simpa [Pend.unsp] using hw
                  simp [concOps, List.filter_cons, Pend.unsp, filter_unsp_of_all_spilled r hall, hr]

theorem getD_set_ne (l : List α) (i j : Nat) (x : α) (h : j ≠ i) : (l.set i x)[j]?.getD void = l[j]?.getD void := by
  rw [List.getElem?_set_ne (Ne.symm h)]

theorem conc_matRef (loc : List α) (i : Nat) (sh : List (Pend α)) :
    ((sh.map (matRef void loc i)).filter Pend.unsp).map (valOf void (loc.set i void)) =
      (sh.filter Pend.unsp).map (valOf void loc) := by
  induction sh with
  | nil => rfl
  | cons e r ih =>
      cases e with
      | val v b =>
          cases b <;> simp [matRef, Pend.unsp, valOf, List.filter_cons, ih]
      | ref j =>
          by_cases hj : j = i
          · subst hj
            simp [matRef, Pend.unsp, valOf, List.filter_cons, ih]
          · simp [matRef, hj, Pend.unsp, valOf, List.filter_cons, ih, getD_set_ne void loc i j void hj]

theorem unsp_matRef (loc : List α) (i : Nat) (e : Pend α) : (matRef void loc i e).unsp = e.unsp := by
  cases e with
  | val v b => rfl
  | ref j => by_cases hj : j = i <;> simp [matRef, hj, Pend.unsp]

theorem sorted_map_of_unsp {f : Pend α → Pend α} (hf : ∀ e, (f e).unsp = e.unsp) (sh : List (Pend α))
    (h : sorted sh = true) : sorted (sh.map f) = true := by
  induction sh with
  | nil => rfl
  | cons e r ih =>
      unfold sorted at h ⊢
      simp only [List.map_cons, hf]
      split
      · rename_i he
        simp only [he, if_true] at h
        exact ih h
      · rename_i he
        simp only [he] at h
        simp only [List.all_map]
        simpa [Function.comp_def, hf] using h

theorem shape_matRef (loc : List α) (i : Nat) (sh : List (Pend α)) :
    (sh.map (matRef void loc i)).map Pend.shape =
      (sh.map Pend.shape).map (fun e => if e = Sh.ref i then Sh.val false else e) := by
  induction sh with
  | nil => rfl
  | cons e r ih =>
      cases e with
      | val v b => simp [matRef, Pend.shape, ih]
      | ref j =>
          by_cases hj : j = i
          · simp [matRef, hj, Pend.shape, ih]
          · simp [matRef, hj, Pend.shape, ih]

/-- Slots other than `i` keep what an entry stands for, when no entry refers to `i`. -/
theorem conc_set_noref (loc : List α) (i : Nat) (x : α) (sh : List (Pend α))
    (h : (sh.map Pend.shape).contains (Sh.ref i) = false) :
    (sh.filter Pend.unsp).map (valOf void (loc.set i x)) = (sh.filter Pend.unsp).map (valOf void loc) := by
  induction sh with
  | nil => rfl
  | cons e r ih =>
      simp only [List.map_cons, List.contains_cons, Bool.or_eq_false_iff] at h
      cases e with
      | val v b => cases b <;> simp [Pend.unsp, valOf, List.filter_cons, ih h.2]
      | ref j =>
          have hj : j ≠ i := by
            intro hji
            have := h.1
            simp [Pend.shape, hji] at this
          simp [Pend.unsp, valOf, List.filter_cons, ih h.2, getD_set_ne void loc i j x hj]

theorem unsp_spillE (loc : List α) (e : Pend α) : (spillE void loc e).unsp = false := by
  cases e <;> rfl

theorem spill_all_spilled (loc : List α) (sh : List (Pend α)) :
    (sh.map (spillE void loc)).all (fun x => !x.unsp) = true := by
  induction sh with
  | nil => rfl
  | cons e r ih =>
      simp only [List.map_cons, List.all_cons, unsp_spillE, Bool.not_false, Bool.true_and]
      exact ih

theorem shape_spill (loc : List α) (sh : List (Pend α)) :
    (sh.map (spillE void loc)).map Pend.shape = (sh.map Pend.shape).map (fun _ => Sh.val true) := by
  induction sh with
  | nil => rfl
  | cons e r ih => cases e <;> simp [spillE, Pend.shape, ih]

/-! ## One straight-line instruction -/

/-- The three facts carried through a run: same slots and operand stack as the interpreter, the shadow stack
stays ordered, and its shapes are the ones the code generator computed. -/
def Sim (o : SOp α) (st st' : NSt α) (shs' : List Sh) : Prop :=
  interpS void o (conc void st) = some (conc void st') ∧ sorted st'.sh = true ∧ st'.sh.map Pend.shape = shs'

theorem natS_sound (o : SOp α) {st st' : NSt α} {shs' : List Sh} (hw : sorted st.sh = true)
    (ha : absS true o (st.sh.map Pend.shape) = some shs') (hn : natS void o st = some st') :
    Sim void o st st' shs' := by
  unfold Sim
  cases o with
  | const v =>
      simp only [natS, Option.some.injEq] at hn
      simp only [absS, Option.some.injEq] at ha
      subst hn ha
      refine ⟨?_, sorted_cons_unsp _ _ rfl hw, rfl⟩
      simp [interpS, conc, concOps, List.filter_cons, Pend.unsp, valOf]
  | read i =>
      simp only [natS] at hn
      simp only [absS, Option.some.injEq] at ha
      cases hl : st.loc[i]? with
      | none => simp [hl] at hn
      | some v =>
          simp only [hl, Option.some.injEq] at hn
          subst hn ha
          refine ⟨?_, sorted_cons_unsp _ _ rfl hw, rfl⟩
          simp [interpS, conc, concOps, List.filter_cons, Pend.unsp, valOf, hl]
  | move i =>
      simp only [natS] at hn
      simp only [absS, Option.some.injEq] at ha
      cases hl : st.loc[i]? with
      | none => simp [hl] at hn
      | some v =>
          simp only [hl, Option.some.injEq] at hn
          subst hn ha
          refine ⟨?_, sorted_cons_unsp _ _ rfl (sorted_map_of_unsp (unsp_matRef void st.loc i) _ hw), ?_⟩
          · simp [interpS, conc, concOps, List.filter_cons, Pend.unsp, valOf, hl, conc_matRef]
          · simp only [List.map_cons, Pend.shape, shape_matRef]
  | setl i =>
      simp only [natS] at hn
      cases hp : pop void st with
      | none => simp [hp] at hn
      | some p =>
          obtain ⟨v, st1⟩ := p
          obtain ⟨hc, hloc, hs1, e, he⟩ := pop_sound void hw hp
          simp only [hp] at hn
          cases hl : st1.loc[i]? with
          | none => simp [hl] at hn
          | some old =>
              simp only [hl, Option.some.injEq] at hn
              subst hn
              rw [he] at ha
              simp only [List.map_cons, absS, Bool.true_and] at ha
              split at ha
              · simp at ha
              · rename_i hg
                simp only [Option.some.injEq] at ha
                subst ha
                have hg' : (st1.sh.map Pend.shape).contains (Sh.ref i) = false := by simpa using hg
                refine ⟨?_, sorted_cons_unsp _ _ rfl hs1, rfl⟩
                rw [hloc] at hl
                show interpS void (.setl i) (st.loc, concOps void st.loc st.vm st.sh) = _
                rw [hc]
                have hcs := conc_set_noref void st1.loc i v st1.sh hg'
                rw [hloc] at hcs
                simp [interpS, conc, hl, concOps, List.filter_cons, Pend.unsp, valOf, hcs, hloc]
  | drop =>
      simp only [natS] at hn
      cases hp : pop void st with
      | none => simp [hp] at hn
      | some p =>
          obtain ⟨v, st1⟩ := p
          obtain ⟨hc, hloc, hs1, e, he⟩ := pop_sound void hw hp
          simp only [hp, Option.some.injEq] at hn
          subst hn
          rw [he] at ha
          simp only [List.map_cons, absS, Option.some.injEq] at ha
          subst ha
          refine ⟨?_, hs1, rfl⟩
          show interpS void .drop (st.loc, concOps void st.loc st.vm st.sh) = _
          rw [hc]
          simp [interpS, conc, hloc]
  | un f =>
      simp only [natS] at hn
      cases hp : pop void st with
      | none => simp [hp] at hn
      | some p =>
          obtain ⟨v, st1⟩ := p
          obtain ⟨hc, hloc, hs1, e, he⟩ := pop_sound void hw hp
          simp only [hp, Option.some.injEq] at hn
          subst hn
          rw [he] at ha
          simp only [List.map_cons, absS, Option.some.injEq] at ha
          subst ha
          refine ⟨?_, sorted_cons_unsp _ _ rfl hs1, rfl⟩
          show interpS void (.un f) (st.loc, concOps void st.loc st.vm st.sh) = _
          rw [hc]
          simp [interpS, conc, hloc, concOps, List.filter_cons, Pend.unsp, valOf]
  | bin f =>
      simp only [natS] at hn
      cases hp : pop void st with
      | none => simp [hp] at hn
      | some p =>
          obtain ⟨b, st1⟩ := p
          obtain ⟨hc, hloc, hs1, e, he⟩ := pop_sound void hw hp
          simp only [hp] at hn
          cases hp2 : pop void st1 with
          | none => simp [hp2] at hn
          | some p2 =>
              obtain ⟨a, st2⟩ := p2
              obtain ⟨hc2, hloc2, hs2, e2, he2⟩ := pop_sound void hs1 hp2
              simp only [hp2, Option.some.injEq] at hn
              subst hn
              rw [he, he2] at ha
              simp only [List.map_cons, absS, Option.some.injEq] at ha
              subst ha
              refine ⟨?_, sorted_cons_unsp _ _ rfl hs2, rfl⟩
              show interpS void (.bin f) (st.loc, concOps void st.loc st.vm st.sh) = _
              rw [hc, hc2]
              simp [interpS, conc, hloc, hloc2, concOps, List.filter_cons, Pend.unsp, valOf]
  | call f =>
      simp only [natS, spillAll] at hn
      cases hs : st.sh with
      | nil => simp [hs] at hn
      | cons e r =>
          cases hv : concOps void st.loc st.vm st.sh with
          | nil =>
              have hv' := hv
              rw [hs] at hv'
              simp [hs, hv'] at hn
          | cons a vm' =>
              have hv' := hv
              rw [hs] at hv'
              simp only [hs, List.map_cons, hv', Option.some.injEq] at hn
              subst hn
              rw [hs] at ha
              simp only [List.map_cons, absS, Option.some.injEq] at ha
              subst ha
              have hall := spill_all_spilled void st.loc r
              refine ⟨?_, ?_, ?_⟩
              · show interpS void (.call f) (st.loc, concOps void st.loc st.vm st.sh) = _
                rw [hv]
                simp [interpS, conc, concOps, List.filter_cons, Pend.unsp, valOf,
                  filter_unsp_of_all_spilled _ hall]
              · exact sorted_cons_unsp _ _ rfl (sorted_of_all_spilled _ hall)
              · simp only [List.map_cons, Pend.shape, shape_spill]

/-! ## Sequences, the join, programs -/

theorem natL_sound (ops : List (SOp α)) : ∀ {st st' : NSt α} {shs' : List Sh}, sorted st.sh = true →
    absL true ops (st.sh.map Pend.shape) = some shs' → natL void ops st = some st' →
    interpL void ops (conc void st) = some (conc void st') ∧ sorted st'.sh = true ∧ st'.sh.map Pend.shape = shs' := by
  induction ops with
  | nil =>
      intro st st' shs' hw ha hn
      simp only [natL, Option.some.injEq] at hn
      simp only [absL, Option.some.injEq] at ha
      subst hn ha
      exact ⟨rfl, hw, rfl⟩
  | cons o rest ih =>
      intro st st' shs' hw ha hn
      simp only [natL] at hn
      simp only [absL] at ha
      cases h1 : natS void o st with
      | none => simp [h1] at hn
      | some st1 =>
          cases h2 : absS true o (st.sh.map Pend.shape) with
          | none => simp [h2] at ha
          | some s1 =>
              simp only [h1] at hn
              simp only [h2] at ha
              obtain ⟨hi, hw1, hsh1⟩ := natS_sound void o hw h2 h1
              rw [← hsh1] at ha
              obtain ⟨hi2, hw2, hsh2⟩ := ih hw1 ha hn
              refine ⟨?_, hw2, hsh2⟩
              simp only [interpL, hi, hi2]

theorem absS_mono (o : SOp α) (s r : List Sh) (h : absS true o s = some r) : absS false o s = some r := by
  cases o with
  | setl i =>
      cases s with
      | nil => simp [absS] at h
      | cons x s =>
          simp only [absS, Bool.true_and] at h
          split at h
          · simp at h
          · simpa [absS] using h
  | const v => exact h
  | read i => exact h
  | move i => exact h
  | drop => cases s <;> simpa [absS] using h
  | un f => cases s <;> simpa [absS] using h
  | call f => cases s <;> simpa [absS] using h
  | bin f =>
      cases s with
      | nil => simp [absS] at h
      | cons x s' => cases s' <;> simpa [absS] using h

theorem absL_mono (ops : List (SOp α)) : ∀ (s r : List Sh), absL true ops s = some r → absL false ops s = some r := by
  induction ops with
  | nil => intro s r h; exact h
  | cons o rest ih =>
      intro s r h
      simp only [absL] at h ⊢
      cases h1 : absS true o s with
      | none => simp [h1] at h
      | some s1 =>
          simp only [h1] at h
          simp only [absS_mono o s s1 h1]
          exact ih s1 r h

/-- Under GUARD 2 the re-reading of the then path's entries changes nothing. -/
theorem reshape_id (cur : List (Pend α)) : ∀ (pre tgt : List Sh), cur.map Pend.shape = tgt → joinOk pre tgt = true →
    reshape void pre tgt cur = some cur := by
  induction cur with
  | nil =>
      intro pre tgt h _
      simp only [List.map_nil] at h
      subst h
      simp [reshape]
  | cons c cs ih =>
      intro pre tgt h hj
      simp only [List.map_cons] at h
      subst h
      simp only [joinOk, Bool.and_eq_true] at hj
      have ih' := ih pre.tail _ rfl hj.2
      cases c with
      | ref i => simp [reshape, Pend.shape, ih']
      | val v b =>
          cases hp : pre.head?.getD (Sh.val false) with
          | val b' => simp [reshape, Pend.shape, hp, ih']
          | ref j =>
              cases b with
              | true => simp [reshape, Pend.shape, hp, ih']
              | false =>
                  have := hj.1
                  simp [List.headD_eq_head?_getD, hp, Sh.isRef, Pend.shape] at this

theorem natO_sound (truthy : α → Bool) (o : Op α) {st st' : NSt α} {shs' : List Sh} (hw : sorted st.sh = true)
    (ha : absO true o (st.sh.map Pend.shape) = some shs') (hn : natO void truthy o st = some st') :
    interpO void truthy o (conc void st) = some (conc void st') ∧ sorted st'.sh = true ∧
      st'.sh.map Pend.shape = shs' := by
  cases o with
  | s o => exact natS_sound void o hw ha hn
  | ite t e =>
      simp only [natO] at hn
      cases hp : pop void st with
      | none => simp [hp] at hn
      | some p =>
          obtain ⟨c, st0⟩ := p
          obtain ⟨hc, hloc, hs0, e0, he0⟩ := pop_sound void hw hp
          simp only [hp] at hn
          rw [he0] at ha
          simp only [List.map_cons, absO] at ha
          cases hat : absL true t (st0.sh.map Pend.shape) with
          | none => simp [hat] at ha
          | some tsx =>
              cases hae : absL true e (st0.sh.map Pend.shape) with
              | none => cases tsx <;> simp [hat, hae] at ha
              | some esx =>
                  cases tsx with
                  | nil => simp [hat, hae] at ha
                  | cons x ts =>
                      cases esx with
                      | nil => simp [hat, hae] at ha
                      | cons y es =>
                          simp only [hat, hae, Bool.true_and] at ha
                          split at ha
                          · simp at ha
                          · rename_i hg
                            simp only [Option.some.injEq] at ha
                            subst ha
                            have hg' : ts = es ∧ joinOk (st0.sh.map Pend.shape) es = true := by
                              simpa using hg
                            have hconc : conc void st = (st0.loc, c :: concOps void st0.loc st0.vm st0.sh) := by
                              simp only [conc, hc, hloc]
                            by_cases htc : truthy c = true
                            · simp only [htc, if_true] at hn
                              cases h1 : natL void t st0 with
                              | none => simp [h1] at hn
                              | some st1 =>
                                  simp only [h1] at hn
                                  obtain ⟨hi1, hw1, hsh1⟩ := natL_sound void t hs0 hat h1
                                  cases hp1 : pop void st1 with
                                  | none => simp [hp1] at hn
                                  | some p1 =>
                                      obtain ⟨v, st2⟩ := p1
                                      obtain ⟨hc1, hloc1, hs2, e1, he1⟩ := pop_sound void hw1 hp1
                                      simp only [hp1, absL_mono e _ _ hae] at hn
                                      have hsh2 : st2.sh.map Pend.shape = es := by
                                        rw [he1] at hsh1
                                        simp only [List.map_cons, List.cons.injEq] at hsh1
                                        rw [hsh1.2, hg'.1]
                                      simp only [reshape_id void st2.sh _ es hsh2 hg'.2, Option.some.injEq] at hn
                                      subst hn
                                      refine ⟨?_, sorted_cons_unsp _ _ rfl hs2, ?_⟩
                                      · rw [hconc]
                                        simp only [interpO, htc, if_true]
                                        have : (st0.loc, concOps void st0.loc st0.vm st0.sh) = conc void st0 := rfl
                                        rw [this, hi1]
                                        simp only [conc, Option.some.injEq, Prod.mk.injEq]
                                        refine ⟨hloc1.symm, ?_⟩
                                        rw [hc1, hloc1]
                                        simp [concOps, List.filter_cons, Pend.unsp, valOf]
                                      · simp only [List.map_cons, Pend.shape, hsh2]
                            · have htc' : truthy c = false := by simpa using htc
                              simp only [htc', Bool.false_eq_true, if_false] at hn
                              cases h1 : natL void e st0 with
                              | none => simp [h1] at hn
                              | some st1 =>
                                  simp only [h1] at hn
                                  obtain ⟨hi1, hw1, hsh1⟩ := natL_sound void e hs0 hae h1
                                  cases hp1 : pop void st1 with
                                  | none => simp [hp1] at hn
                                  | some p1 =>
                                      obtain ⟨v, st2⟩ := p1
                                      obtain ⟨hc1, hloc1, hs2, e1, he1⟩ := pop_sound void hw1 hp1
                                      simp only [hp1, Option.some.injEq] at hn
                                      subst hn
                                      have hsh2 : st2.sh.map Pend.shape = es := by
                                        rw [he1] at hsh1
                                        simp only [List.map_cons, List.cons.injEq] at hsh1
                                        exact hsh1.2
                                      refine ⟨?_, sorted_cons_unsp _ _ rfl hs2, ?_⟩
                                      · rw [hconc]
                                        simp only [interpO, htc', Bool.false_eq_true, if_false]
                                        have : (st0.loc, concOps void st0.loc st0.vm st0.sh) = conc void st0 := rfl
                                        rw [this, hi1]
                                        simp only [conc, Option.some.injEq, Prod.mk.injEq]
                                        refine ⟨hloc1.symm, ?_⟩
                                        rw [hc1, hloc1]
                                        simp [concOps, List.filter_cons, Pend.unsp, valOf]
                                      · simp only [List.map_cons, Pend.shape, hsh2]

theorem natP_sound (truthy : α → Bool) (prog : List (Op α)) : ∀ {st st' : NSt α} {shs' : List Sh},
    sorted st.sh = true → absP true prog (st.sh.map Pend.shape) = some shs' → natP void truthy prog st = some st' →
    interpP void truthy prog (conc void st) = some (conc void st') ∧ sorted st'.sh = true ∧
      st'.sh.map Pend.shape = shs' := by
  induction prog with
  | nil =>
      intro st st' shs' hw ha hn
      simp only [natP, Option.some.injEq] at hn
      simp only [absP, Option.some.injEq] at ha
      subst hn ha
      exact ⟨rfl, hw, rfl⟩
  | cons o rest ih =>
      intro st st' shs' hw ha hn
      simp only [natP] at hn
      simp only [absP] at ha
      cases h1 : natO void truthy o st with
      | none => simp [h1] at hn
      | some st1 =>
          cases h2 : absO true o (st.sh.map Pend.shape) with
          | none => simp [h2] at ha
          | some s1 =>
              simp only [h1] at hn
              simp only [h2] at ha
              obtain ⟨hi, hw1, hsh1⟩ := natO_sound void truthy o hw h2 h1
              rw [← hsh1] at ha
              obtain ⟨hi2, hw2, hsh2⟩ := ih hw1 ha hn
              refine ⟨?_, hw2, hsh2⟩
              simp only [interpP, hi, hi2]

/-! ## The theorems -/

/-- **Late materialisation of operands is unobservable — under the two guards.**  From any state whose shadow
stack is ordered, for any operand program that passes `absP true` (GUARD 1: no `setl i` while a reference to
slot `i` is pending; GUARD 2: both branches of a conditional leave every pending entry in the same state, and no
entry that was a reference is an unspilled value afterwards): whenever native code reaches a state, the
interpreter, started on the concretisation of the initial state, reaches the concretisation of that state — the
same slots and the same operand stack. -/
theorem shadow_transparent (truthy : α → Bool) (prog : List (Op α)) (st st' : NSt α) (hw : sorted st.sh = true)
    (hsafe : (absP true prog (st.sh.map Pend.shape)).isSome = true)
    (hn : natP void truthy prog st = some st') :
    interpP void truthy prog (conc void st) = some (conc void st') := by
  cases h : absP true prog (st.sh.map Pend.shape) with
  | none => simp [h] at hsafe
  | some shs => exact (natP_sound void truthy prog hw h hn).1

/-- At procedure entry (nothing pending, nothing spilled). -/
theorem shadow_transparent_entry (truthy : α → Bool) (prog : List (Op α)) (l : List α) (st' : NSt α)
    (hsafe : (absP (α := α) true prog []).isSome = true)
    (hn : natP void truthy prog { loc := l, vm := [], sh := [] } = some st') :
    interpP void truthy prog (l, []) = some (conc void st') :=
  shadow_transparent void truthy prog { loc := l, vm := [], sh := [] } st' rfl hsafe hn

/-- What the code generator computes statically are the run-time shapes (so the guards can be checked on the
byte code alone, which is what checks/c02.py's class predicates approximate). -/
theorem shapes_static (truthy : α → Bool) (prog : List (Op α)) (st st' : NSt α) (shs : List Sh)
    (hw : sorted st.sh = true) (h : absP true prog (st.sh.map Pend.shape) = some shs)
    (hn : natP void truthy prog st = some st') : st'.sh.map Pend.shape = shs :=
  (natP_sound void truthy prog hw h hn).2.2

/-! ## Witnesses: operand programs of the open findings (model of the REAL generator vs interpreter) -/

section witnesses
def wadd := W.arith (· + ·)
def wsub := W.arith (· - ·)
def wid : W → W := fun x => x
def entry (l : List W) : NSt W := { loc := l, vm := [], sh := [] }
def runN (p : List (Op W)) (l : List W) : Option (List W × List W) :=
  (natP W.void W.truthy p (entry l)).map (conc W.void)
def runI (p : List (Op W)) (l : List W) : Option (List W × List W) := interpP W.void W.truthy p (l, [])
def guards (p : List (Op W)) : Bool := (absP (α := W) true p []).isSome

/-- K02g `(+ x0 (begin (set! x0 3) x0))`: READLOCAL0, 3, SETLOCAL 0, POPSINGLE, READLOCAL0, ADD. -/
def k02g : List (Op W) :=
  [.s (.read 0), .s (.const (.int 3)), .s (.setl 0), .s .drop, .s (.read 0), .s (.bin wadd)]

/-- (f1 0) => 6 natively, 3 interpreted — the values the real engine gives; GUARD 1 fails. -/
theorem k02g_witness : guards k02g = false ∧ runN k02g [.int 0] = some ([.int 3], [.int 6]) ∧
    runI k02g [.int 0] = some ([.int 3], [.int 3]) := by decide

/-- K02i `(- x (if (< 3 y) x y))`: the then branch's moving read materialises the pending reference to `x` on
ITS path only; the state after the join says "still a reference". -/
def k02i : List (Op W) :=
  [.s (.read 0), .s (.const (.int 3)), .s (.read 1), .s (.bin W.lt), .ite [.move 0] [.move 1], .s (.bin wsub)]

/-- (a1 -1 7): `- expects a number, found #<void>` natively, 0 interpreted; (a1 3 0) agrees; GUARD 2 fails. -/
theorem k02i_witness : guards k02i = false ∧
    runN k02i [.int (-1), .int 7] = some ([.void, .int 7], [.void]) ∧
    runI k02i [.int (-1), .int 7] = some ([.void, .int 7], [.int 0]) ∧
    runN k02i [.int 3, .int 0] = runI k02i [.int 3, .int 0] := by decide

/-- K02n `(g (h 1) (k 2) (+ 0 (if c 0 (err 9))))`: only the ELSE branch contains a call, so only it spills the
pending operands; the state after the join says "spilled" and on the then path the consumer pops operands from
the VM stack that were never pushed (in the real engine: the frame's last local — "yields the last parameter",
the box `'#&-2`, `#<void>`). -/
def k02nElse : List (Op W) :=
  [.s (.const (.int 1)), .s (.call wid), .s (.const (.int 2)), .s (.call wid), .s (.const (.int 0)), .s (.read 0),
   .ite [.const (.int 0)] [.const (.int 9), .call wid], .s (.bin wadd)]

theorem k02n_else_spills_witness : guards k02nElse = false ∧
    runN k02nElse [.bool true] = some ([.bool true], [.int 1]) ∧
    runI k02nElse [.bool true] = some ([.bool true], [.int 0, .int 2, .int 1]) ∧
    runN k02nElse [.bool false] = runI k02nElse [.bool false] := by decide

/-- The `lp` loop `(lp (+ i 1) (+ a 0) (if ok (not (= i 9)) #f))` (user-level `+`, `=`, `not` are calls): only
the THEN branch spills; the state after the join says "not spilled", the operands are pushed a second time and
the self tail call takes its arguments one position off: (i a ok) := (a a ok') — `i` never reaches the bound. -/
def lpLoop : List (Op W) :=
  [.s (.read 0), .s (.call wid), .s (.read 1), .s (.call wid), .s (.read 2),
   .ite [.read 0, .call wid] [.const (.bool false)], .s (.call wid)]

theorem lp_then_spills_witness : guards lpLoop = false ∧
    runN lpLoop [.int 0, .int 5, .bool true] =
      some ([.int 0, .int 5, .bool true], [.int 0, .int 5, .int 5, .int 0]) ∧
    runI lpLoop [.int 0, .int 5, .bool true] = some ([.int 0, .int 5, .bool true], [.int 0, .int 5, .int 0]) ∧
    runN lpLoop [.int 0, .int 5, .bool false] = runI lpLoop [.int 0, .int 5, .bool false] := by decide

/-- Non-vacuity: guarded programs on which native code does reach a state — a straight-line moving read after a
pending reference `(- x (+ x 1))` (the case the real code handles: `matRef`), and a conditional whose branches
both call. -/
def okMove : List (Op W) := [.s (.read 0), .s (.move 0), .s (.const (.int 1)), .s (.bin wadd), .s (.bin wsub)]
def okBoth : List (Op W) :=
  [.s (.read 0), .s (.call wid), .s (.read 1), .ite [.read 0, .call wid] [.const (.int 7), .call wid], .s (.bin wadd)]

theorem guarded_examples : guards okMove = true ∧ runN okMove [.int 5] = some ([.void], [.int (-1)]) ∧
    guards okBoth = true ∧ (runN okBoth [.int 4, .bool true]).isSome = true ∧
    (runN okBoth [.int 4, .bool false]).isSome = true := by decide

/-- Both branches move the same pending reference: the value after the join would be an SSA value of the else
block; Cranelift's verifier rejects the function ("uses value from non-dominating inst"), it stays interpreted. -/
def bothMove : List (Op W) := [.s (.read 0), .s (.read 1), .ite [.move 0] [.move 0], .s (.bin wsub)]
theorem both_move_not_compiled : runN bothMove [.int 1, .bool true] = none ∧ guards bothMove = false := by decide

/-- **The guards are needed**: without them the statement of `shadow_transparent` is false. -/
theorem shadow_transparent_false :
    ¬ (∀ (prog : List (Op W)) (st st' : NSt W), sorted st.sh = true → natP W.void W.truthy prog st = some st' →
        interpP W.void W.truthy prog (conc W.void st) = some (conc W.void st')) := by
  intro h
  have h1 := h k02g (entry [.int 0]) { loc := [.int 3], vm := [], sh := [.val (.int 6) false] } rfl (by decide)
  revert h1
  decide
end witnesses

/-! ## `interpS` is the C01C VM on one frame: the operand pushes this model transforms are `C01C.step`'s
(frame base 0: slots `l`, operands above them, top last) -/

section tie
open SteelVerif.C01C

theorem getElem?_slots (l o : List VVal) (i : Nat) (v : VVal) (h : l[i]? = some v) : (l ++ o)[i]? = some v := by
  have hi : i < l.length := by
    cases Nat.lt_or_ge i l.length with
    | inl h' => exact h'
    | inr h' => simp [List.getElem?_eq_none h'] at h
  rw [List.getElem?_append_left hi]
  exact h

theorem read_is_step (code : List Instr) (ip i : Nat) (l o l' o' : List VVal) (σ : St (List Instr))
    (hc : code[ip]? = some (.READLOCAL i)) (h : interpS (α := VVal) .void (.read i) (l, o) = some (l', o')) :
    step { code := code, ip := ip, stack := l ++ o.reverse, frames := [], st := σ } =
      .next { code := code, ip := ip + 1, stack := l' ++ o'.reverse, frames := [], st := σ } := by
  simp only [interpS] at h
  cases hl : l[i]? with
  | none => simp [hl] at h
  | some v =>
      simp only [hl, Option.some.injEq, Prod.mk.injEq] at h
      obtain ⟨h1, h2⟩ := h
      subst h1 h2
      simp [step, hc, spOf, getElem?_slots l o.reverse i v hl]

theorem move_is_step (code : List Instr) (ip i : Nat) (l o l' o' : List VVal) (σ : St (List Instr))
    (hc : code[ip]? = some (.MOVEREADLOCAL i)) (h : interpS (α := VVal) .void (.move i) (l, o) = some (l', o')) :
    step { code := code, ip := ip, stack := l ++ o.reverse, frames := [], st := σ } =
      .next { code := code, ip := ip + 1, stack := l' ++ o'.reverse, frames := [], st := σ } := by
  simp only [interpS] at h
  cases hl : l[i]? with
  | none => simp [hl] at h
  | some v =>
      simp only [hl, Option.some.injEq, Prod.mk.injEq] at h
      obtain ⟨h1, h2⟩ := h
      subst h1 h2
      have hi : i < l.length := by
        cases Nat.lt_or_ge i l.length with
        | inl h' => exact h'
        | inr h' => simp [List.getElem?_eq_none h'] at hl
      simp [step, hc, spOf, getElem?_slots l o.reverse i v hl, List.set_append_left _ _ hi]

theorem setl_is_step (code : List Instr) (ip i : Nat) (l o l' o' : List VVal) (σ : St (List Instr))
    (hc : code[ip]? = some (.SETLOCAL i)) (h : interpS (α := VVal) .void (.setl i) (l, o) = some (l', o')) :
    step { code := code, ip := ip, stack := l ++ o.reverse, frames := [], st := σ } =
      .next { code := code, ip := ip + 1, stack := l' ++ o'.reverse, frames := [], st := σ } := by
  cases o with
  | nil => simp [interpS] at h
  | cons v o =>
      simp only [interpS] at h
      cases hl : l[i]? with
      | none => simp [hl] at h
      | some old =>
          simp only [hl, Option.some.injEq, Prod.mk.injEq] at h
          obtain ⟨h1, h2⟩ := h
          subst h1 h2
          have hi : i < l.length := by
            cases Nat.lt_or_ge i l.length with
            | inl h' => exact h'
            | inr h' => simp [List.getElem?_eq_none h'] at hl
          have hst : l ++ (v :: o).reverse = (l ++ o.reverse) ++ [v] := by simp
          simp [step, hc, spOf, hst, getElem?_slots l o.reverse i old hl, List.set_append_left _ _ hi]
end tie

end SteelVerif.C02J
