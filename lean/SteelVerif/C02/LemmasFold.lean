/-
C02 — constant folding / dead-branch elimination after inlining (`apply_const_evaluation`,
`SingleExprOptimizer` run after the optional passes, on whatever they exposed): a primitive applied to two
constants is computed at compile time when it succeeds (a failing application is kept, so the error stays a
run-time error), a conditional with a constant test is replaced by the selected branch.
How much there is to fold depends on how much was inlined, i.e. on the configuration.
-/
import SteelVerif.C02.LemmasInline
namespace SteelVerif.C02
open SteelVerif.C01

def mkPrim (op : Op) (a b : IR) : IR :=
  match a, b with
  | .const x, .const y =>
      match op.apply x y with
      | some r => .const r
      | none => .prim op (.const x) (.const y)
  | a, b => .prim op a b

def mkIte (c t e : IR) : IR :=
  match c with
  | .const v => if truthy v then t else e
  | c => .ite c t e

mutual
def fold : IR → IR
  | .const v => .const v
  | .loc i => .loc i
  | .prim op a b => mkPrim op (fold a) (fold b)
  | .ite c t e => mkIte (fold c) (fold t) (fold e)
  | .let1 e b => .let1 (fold e) (fold b)
  | .seq a b => .seq (fold a) (fold b)
  | .setLoc i e => .setLoc i (fold e)
  | .call f args => .call f (foldArgs args)
def foldArgs : List IR → List IR
  | [] => []
  | a :: r => fold a :: foldArgs r
end

def foldFn (fd : FnDef) : FnDef := { fd with body := fold fd.body }

variable (T : List FnDef) (F : Nat)

theorem mkPrim_eval (op : Op) (a b : IR) (s : List Val) :
    evalIR T F (mkPrim op a b) s = evalIR T F (.prim op a b) s := by
  unfold mkPrim
  split
  · rename_i x y
    split
    · rename_i r hr
      rw [evalIR_prim]
      simp [evalIR_const, hr]
    · rfl
  · rfl

theorem mkIte_eval (c t e : IR) (s : List Val) :
    evalIR T F (mkIte c t e) s = evalIR T F (.ite c t e) s := by
  unfold mkIte
  split
  · rename_i v
    rw [evalIR_ite]
    simp only [evalIR_const, Option.bind_some]
    split <;> rfl
  · rfl

theorem foldArgs_length : ∀ args : List IR, (foldArgs args).length = args.length := by
  intro args
  induction args with
  | nil => simp [foldArgs]
  | cons a r ih => simp [foldArgs, ih]

theorem fold_aux (hbody : ∀ F0, F = F0 + 1 → ∀ (e : IR) (s : List Val),
      evalIR (T.map foldFn) F0 (fold e) s = evalIR T F0 e s) :
    ∀ (e : IR) (s : List Val), evalIR (T.map foldFn) F (fold e) s = evalIR T F e s := by
  intro e
  induction e using size.induct
    (motive_2 := fun args => ∀ s : List Val, evalArgs (T.map foldFn) F (foldArgs args) s = evalArgs T F args s) with
  | case1 v => intro s; simp [fold, evalIR_const]
  | case2 i => intro s; simp [fold, evalIR_loc]
  | case3 op a b iha ihb =>
    intro s
    simp only [fold]
    rw [mkPrim_eval, evalIR_prim, evalIR_prim, iha]
    cases evalIR T F a s with
    | none => rfl
    | some p => simp only [Option.bind_some]; rw [ihb]
  | case4 c t e ihc iht ihe =>
    intro s
    simp only [fold]
    rw [mkIte_eval, evalIR_ite, evalIR_ite, ihc]
    cases evalIR T F c s with
    | none => rfl
    | some p => simp only [Option.bind_some]; rw [iht, ihe]
  | case5 e b ihe ihb =>
    intro s
    simp only [fold]
    rw [evalIR_let1, evalIR_let1, ihe]
    cases evalIR T F e s with
    | none => rfl
    | some p => simp only [Option.bind_some]; rw [ihb]
  | case6 a b iha ihb =>
    intro s
    simp only [fold]
    rw [evalIR_seq, evalIR_seq, iha]
    cases evalIR T F a s with
    | none => rfl
    | some p => simp only [Option.bind_some]; rw [ihb]
  | case7 i e ihe =>
    intro s
    simp only [fold]
    rw [evalIR_setLoc, evalIR_setLoc, ihe]
  | case8 f args ihargs =>
    intro s
    simp only [fold]
    cases F with
    | zero => simp [evalIR_call_zero]
    | succ F0 =>
      rw [evalIR_call_succ, evalIR_call_succ, ihargs, foldArgs_length]
      cases evalArgs T (F0 + 1) args s with
      | none => rfl
      | some s1 =>
        simp only [Option.bind_some, List.getElem?_map]
        cases T[f]? with
        | none => rfl
        | some fd =>
          simp only [Option.map_some, Option.bind_some, foldFn]
          rw [hbody F0 rfl]
  | case9 => rename_i s; simp [foldArgs, evalArgs_nil]
  | case10 a r iha ihr =>
    rename_i s
    simp only [foldArgs]
    rw [evalArgs_cons, evalArgs_cons, iha]
    cases evalIR T F a s with
    | none => rfl
    | some p => simp only [Option.bind_some]; rw [ihr]

/-- Folding every procedure body and the expression changes no result, at any fuel (errors included: `none`
stays `none`). -/
theorem fold_eval : ∀ (F : Nat) (e : IR) (s : List Val),
    evalIR (T.map foldFn) F (fold e) s = evalIR T F e s := by
  intro F
  induction F with
  | zero => exact fold_aux T 0 (by intro F0 h; omega)
  | succ F ih => exact fold_aux T (F + 1) (by intro F0 h; obtain rfl : F0 = F := (by omega); exact ih)

/-! ## The recursive inliner's rewrite (`recursively_inline_function_calls`, STEEL_INLINE_RECURSIVE) -/

/-- What `recursively_inline_function_calls` does at a call site: the callee's `lambda` is put in operator
position whatever the number of operands (no comparison with the number of parameters, finding K02b). -/
def inlineCallNoArity (fns : List FnDef) (h : Nat) (f : Nat) (args : List IR) : IR :=
  match fns[f]? with
  | some fd => bindArgs args (shift h fd.body)
  | none => .call f args

end SteelVerif.C02
