/-
C02 driver.
  c02driver            : the reference semantics S (Base/Eval.lean) on whole programs and piecewise histories, in
                         the record format of harness `c02`.  stdin: programs separated by a line `;;;===`, the
                         pieces of one program by a line `;;;---`; the state (globals, store) persists across
                         the pieces of a program, every program starts from the initial state.
  c02driver frag       : lowered-core programs (`fn <arity> <ir>` … `main <ir>`): `evalIR` on the program as
                         written and on the program after the model's inlining pass (thresholds 50 and 75).
  c02driver hist       : model histories over global cells (`piece` / `def <arity> <ir>` /
                         `set <cell> <arity> <ir>` / `eval <ir>` … `end`): for every `eval` the value without
                         inlining and with the unit-local inliner (thresholds 50, 75), plus the guard
                         `noLaterAssign` of `inline_history_partial`.
  c02driver switches   : the regenerated table of environment switches and the configuration sets.
-/
import SteelVerif.Base.Eval
import SteelVerif.C01.Parse
import SteelVerif.C02.Model
import SteelVerif.C02.GenSwitches
namespace SteelVerif.C02
open SteelVerif.Base
open SteelVerif.C01

partial def readAll (h : IO.FS.Stream) (acc : String) : IO String := do
  let l ← h.getLine
  if l.isEmpty then return acc else readAll h (acc ++ l)

def runPiece (st : St) (src : String) : String × St :=
  match Reader.read src with
  | none => ("\n\u001eE syntax", st)
  | some forms =>
    let st := { st with out := [] }
    let (vals, outcome, st') := evalProgram 2000000 forms st
    let out := String.join st'.out.reverse
    match outcome with
    | none => (s!"{out}\n\u001eV {"\u001f".intercalate vals}", st')
    | some o => (s!"{out}\n\u001eE {o}", st')

def runProgram (st0 : St) (prog : String) : String := Id.run do
  let mut st := st0
  let mut acc := "\u001eB\n"
  for piece in prog.splitOn "\n;;;---\n" do
    let (txt, st') := runPiece st piece
    st := st'
    acc := acc ++ txt ++ "\n"
  return acc

def FUEL : Nat := 400

def showOV (r : Option (C01.Val × List C01.Val)) : String := showFVal (r.map (·.1))

partial def fragLoop (h : IO.FS.Stream) (fns : List FnDef) : IO Unit := do
  let l ← h.getLine
  if l.isEmpty then return ()
  let l := l.trimAscii.toString
  if l.startsWith "fn " then
    match Reader.read (l.drop 3).toString with
    | some [.int ar, ir] =>
        match parseIR ir with
        | some b => fragLoop h (fns ++ [{ arity := ar.toNat, body := b }])
        | none => IO.println "bad"; fragLoop h fns
    | _ => IO.println "bad"; fragLoop h fns
  else if l.startsWith "main " then
    match (Reader.read (l.drop 5).toString).bind (fun x => x.head?.bind parseIR) with
    | some e =>
        let pol := unitPolicy []
        let polMain : Nat → Bool := fun _ => true
        let r := evalIR fns FUEL e []
        let r50 := evalIR (inlineProg fns pol 50) FUEL (inline fns polMain 50 0 e) []
        let r75 := evalIR (inlineProg fns pol 75) FUEL (inline fns polMain 75 0 e) []
        -- a second pass over the result of the first (STEEL_INLINE runs the pass again on its own output)
        let fns2 := inlineProg fns pol 50
        let r2 := evalIR (inlineProg fns2 pol 75) FUEL (inline fns2 polMain 75 0 (inline fns polMain 50 0 e)) []
        let grew := (sizeArgs ((inlineProg fns pol 50).map (·.body))) != (sizeArgs (fns.map (·.body)))
        IO.println s!"ref={showOV r} inl50={showOV r50} inl75={showOV r75} inl50x75={showOV r2} inlined={grew}"
        fragLoop h []
    | none => IO.println "bad"; fragLoop h []
  else fragLoop h fns

def parseFn (s : String) : Option FnDef :=
  match Reader.read s with
  | some [.int ar, ir] => (parseIR ir).map fun b => { arity := ar.toNat, body := b }
  | _ => none

def showObs (os : List Obs) : String :=
  " ".intercalate (os.map fun o => showFVal (o.value FUEL))

partial def histLoop (h : IO.FS.Stream) (hist : History) (cur : Option Piece) : IO Unit := do
  let l ← h.getLine
  if l.isEmpty then return ()
  let l := l.trimAscii.toString
  if l == "piece" then
    histLoop h (match cur with | some p => hist ++ [p] | none => hist) (some [])
  else if l.startsWith "def " then
    match parseFn (l.drop 4).toString with
    | some fd => histLoop h hist (some ((cur.getD []) ++ [.define fd]))
    | none => IO.println "bad"; histLoop h hist cur
  else if l.startsWith "set " then
    match Reader.read (l.drop 4).toString with
    | some [.int c, .int ar, ir] =>
        match parseIR ir with
        | some b => histLoop h hist (some ((cur.getD []) ++ [.assign c.toNat { arity := ar.toNat, body := b }]))
        | none => IO.println "bad"; histLoop h hist cur
    | _ => IO.println "bad"; histLoop h hist cur
  else if l.startsWith "eval " then
    match (Reader.read (l.drop 5).toString).bind (fun x => x.head?.bind parseIR) with
    | some e => histLoop h hist (some ((cur.getD []) ++ [.eval e]))
    | none => IO.println "bad"; histLoop h hist cur
  else if l == "end" then
    let hist := match cur with | some p => hist ++ [p] | none => hist
    IO.println s!"plain: {showObs (runHistory .plain hist [])}"
    IO.println s!"inl50: {showObs (runHistory (.inlining 50) hist [])}"
    IO.println s!"inl75: {showObs (runHistory (.inlining 75) hist [])}"
    IO.println s!"guard50={noLaterAssign 50 hist 0 []} guard75={noLaterAssign 75 hist 0 []}"
    histLoop h [] none
  else histLoop h hist cur

def showCfg (c : List Bool) : String := String.ofList (c.map fun b => if b then '1' else '0')

def mainC02 (args : List String) : IO Unit := do
  if args == ["frag"] then
    fragLoop (← IO.getStdin) []
  else if args == ["hist"] then
    histLoop (← IO.getStdin) [] none
  else if args == ["switches"] then
    for s in extractedSwitches do
      IO.println s!"switch {s.name} reads={s.reads} on_when={s.onWhen} default_on={s.defaultOn} at={s.sites}"
    let vals := modelledSwitches.map fun n =>
      match (extractedSwitches.find? (·.name == n)).bind nonDefaultValue with
      | some v => s!"{n}={v}"
      | none => s!"{n}=?"
    IO.println s!"modelled {" ".intercalate vals}"
    IO.println s!"quick {" ".intercalate (quickConfigs.map showCfg)}"
    IO.println s!"thorough {" ".intercalate (allConfigs.map showCfg)}"
  else
    let src ← readAll (← IO.getStdin) ""
    let st0 := initState
    for prog in src.splitOn "\n;;;===\n" do
      if prog.trimAscii.toString ≠ "" then
        IO.print (runProgram st0 prog)

end SteelVerif.C02

def main (args : List String) : IO Unit := SteelVerif.C02.mainC02 args
