/-
C02 — M: the mechanisms that differ between configurations, on the lowered core of C01
(`SteelVerif.C01.Frag`: `IR`, `evalIR`, `compile`, `stepVM`).

(a) Call inlining (`SemanticAnalysis::inline_function_calls` / `inline_handle_define` /
    `FindCallSitesMany` in `compiler/passes/analysis.rs`, followed by
    `replace_anonymous_function_calls_with_plain_lets`): a call `(f a₁ … aₙ)` of a known global
    procedure becomes `(let ((x₁ a₁) … (xₙ aₙ)) body_f)`.  Legality conditions of the real inliner,
    all present here:
      * the callee is a top-level `define` of a `lambda` of *this* compilation unit  (`fns[f]?`, policy `pol`);
      * estimated size of the callee `< threshold` (50 in the unconditional run, 75 under STEEL_INLINE);
      * the call passes exactly as many operands as the callee has parameters;
      * the callee is not assigned (`set_bang`) in this unit and the call site is textually after the
        definition — both are part of the policy `pol` (see `unitPolicy` below);
      * the inlined body itself is not visited again (`FindCallSitesMany.visit_list` only descends into
        `args[1..]`), so one pass inlines one level.
    In the lowered core variables are absolute frame offsets, so moving a body into a caller whose frame has
    height `h` at the call site shifts every offset by `h` (`shift`); the operands become nested `let1`.

(b) The tier hand-over protocol (`steel_vm/vm/jit.rs jit_compile_lambda`, the `DynSuperInstruction` arm of
    `VmCore::vm`): the interpreter and the native tier alternate at instruction boundaries.

(c) Histories: pieces evaluated one after another over a table of global cells; a `define` makes a new
    cell, a top-level `set!` overwrites a cell, every piece is compiled by the unit-local inliner.
-/
import SteelVerif.C01.Frag
import SteelVerif.C02.GenSwitches
namespace SteelVerif.C02
open SteelVerif.C01

/-! ## (a) The inliner -/

mutual
/-- Move an expression into a frame that has `k` more slots below it. -/
def shift (k : Nat) : IR → IR
  | .const v => .const v
  | .loc i => .loc (i + k)
  | .prim op a b => .prim op (shift k a) (shift k b)
  | .ite c t e => .ite (shift k c) (shift k t) (shift k e)
  | .let1 e b => .let1 (shift k e) (shift k b)
  | .seq a b => .seq (shift k a) (shift k b)
  | .setLoc i e => .setLoc (i + k) (shift k e)
  | .call f args => .call f (shiftArgs k args)
def shiftArgs (k : Nat) : List IR → List IR
  | [] => []
  | a :: r => shift k a :: shiftArgs k r
end

mutual
/-- `FunctionSizeEstimator`: the number of AST nodes. -/
def size : IR → Nat
  | .const _ => 1
  | .loc _ => 1
  | .prim _ a b => 1 + size a + size b
  | .ite c t e => 1 + size c + size t + size e
  | .let1 e b => 1 + size e + size b
  | .seq a b => 1 + size a + size b
  | .setLoc _ e => 1 + size e
  | .call _ args => 1 + sizeArgs args
def sizeArgs : List IR → Nat
  | [] => 0
  | a :: r => size a + sizeArgs r
end

/-- `((lambda (x₁ … xₙ) body) a₁ … aₙ)` as nested lets: the operands are evaluated left to right, each one
on top of the previous ones — the discipline of `evalArgs`. -/
def bindArgs : List IR → IR → IR
  | [], body => body
  | a :: r, body => .let1 a (bindArgs r body)

/-- May the call of `f` with `n` operands be inlined?  (`inline_handle_define` + the closure it registers.) -/
def eligible (fns : List FnDef) (pol : Nat → Bool) (thr : Nat) (f n : Nat) : Option FnDef :=
  match fns[f]? with
  | none => none
  | some fd => if pol f && decide (size fd.body < thr) && decide (fd.arity = n) then some fd else none

mutual
/-- One inlining pass over an expression that is evaluated in a frame of height `h`. -/
def inline (fns : List FnDef) (pol : Nat → Bool) (thr : Nat) : Nat → IR → IR
  | _, .const v => .const v
  | _, .loc i => .loc i
  | h, .prim op a b => .prim op (inline fns pol thr h a) (inline fns pol thr (h + 1) b)
  | h, .ite c t e => .ite (inline fns pol thr h c) (inline fns pol thr h t) (inline fns pol thr h e)
  | h, .let1 e b => .let1 (inline fns pol thr h e) (inline fns pol thr (h + 1) b)
  | h, .seq a b => .seq (inline fns pol thr h a) (inline fns pol thr h b)
  | h, .setLoc i e => .setLoc i (inline fns pol thr h e)
  | h, .call f args =>
      let args' := inlineArgs fns pol thr h args
      match eligible fns pol thr f args.length with
      | some fd => bindArgs args' (shift h fd.body)
      | none => .call f args'
def inlineArgs (fns : List FnDef) (pol : Nat → Bool) (thr : Nat) : Nat → List IR → List IR
  | _, [] => []
  | h, a :: r => inline fns pol thr h a :: inlineArgs fns pol thr (h + 1) r
end

/-- A procedure body is evaluated in a frame that consists of its parameters. -/
def inlineFn (fns : List FnDef) (pol : Nat → Bool) (thr : Nat) (fd : FnDef) : FnDef :=
  { fd with body := inline fns pol thr fd.arity fd.body }

/-- The policy of one compilation unit whose procedures are `fns` (in textual order): inside the body of
procedure `cur` the callees `f ≤ cur` are candidates ("only inline forwards": the call site has to come
after the `lambda` of the definition, which includes the procedure's own body), unless `f` is assigned in
the unit. -/
def unitPolicy (assigned : List Nat) (cur : Nat) (f : Nat) : Bool := decide (f ≤ cur) && !assigned.contains f

/-- The whole unit after the pass: every body inlined with the *original* bodies of its callees. -/
def inlineProg (fns : List FnDef) (pol : Nat → Nat → Bool) (thr : Nat) : List FnDef :=
  fns.mapIdx fun i fd => inlineFn fns (pol i) thr fd

/-! ## (b) Two tiers over one instruction set -/

inductive Tier where
  | interp | native
deriving DecidableEq, Repr, Inhabited

/-- What the scheduler (closure construction compiling a function, the trampoline, a deoptimisation) does
between two instructions. -/
inductive Ev where
  | run (k : Nat)        -- the current tier executes `k + 1` instructions
  | enter                -- trampoline `DynSuperInstruction`: the native tier takes over
  | deopt                -- the native code hands the frame back to the interpreter loop
deriving DecidableEq, Repr, Inhabited

/-- The two implementations of one instruction. -/
structure Impl where
  interp : VM → StepRes
  native : VM → StepRes

def Impl.step (im : Impl) : Tier → VM → StepRes
  | .interp => im.interp
  | .native => im.native

inductive Res where
  | halted (v : Val)
  | stuck
  | running (vm : VM) (t : Tier)
deriving Repr, Inhabited

/-- `k` instructions on tier `t`. -/
def runK (im : Impl) (t : Tier) : Nat → VM → Res
  | 0, vm => .running vm t
  | k + 1, vm =>
    match im.step t vm with
    | .next vm' => runK im t k vm'
    | .halt v => .halted v
    | .stuck => .stuck

/-- Follow a schedule; when it is exhausted the machine is wherever the last event left it. -/
def runSched (im : Impl) : List Ev → Tier → VM → Res
  | [], t, vm => .running vm t
  | .run k :: rest, t, vm =>
    match runK im t (k + 1) vm with
    | .running vm' t' => runSched im rest t' vm'
    | r => r
  | .enter :: rest, _, vm => runSched im rest .native vm
  | .deopt :: rest, _, vm => runSched im rest .interp vm

/-- The interpreter loop (`VmCore::vm`), `fuel` instructions at most. -/
def runInterp (im : Impl) : Nat → VM → Option Val
  | 0, _ => none
  | n + 1, vm =>
    match im.interp vm with
    | .next vm' => runInterp im n vm'
    | .halt v => some v
    | .stuck => none

/-- The schedule, then the interpreter until the program halts (fuel bounds the interpreter part). -/
def runTiered (im : Impl) (sched : List Ev) (fuel : Nat) (vm : VM) : Option Val :=
  match runSched im sched .interp vm with
  | .halted v => some v
  | .stuck => none
  | .running vm' _ => runInterp im fuel vm'

/-- Number of instructions a schedule executes. -/
def schedSteps : List Ev → Nat
  | [] => 0
  | .run k :: rest => k + 1 + schedSteps rest
  | _ :: rest => schedSteps rest

/-- The hypothesis of `tier_transparent` made false in one place — a native `call` that does not check the
callee's arity (the defect repaired by 03bbf0cc was of this kind: the native tier mishandled an arity error
that the interpreter reports). -/
def sloppyNative (fns : List FnDef) (vm : VM) : StepRes :=
  let fr := vm.cur
  match fr.code[fr.ip]? with
  | some (.call f n) =>
      match fns[f]? with
      | none => .stuck
      | some fd =>
        if fr.stack.length < n then .stuck
        else
          let args := fr.stack.drop (fr.stack.length - n)
          let caller := { fr with ip := fr.ip + 1, stack := fr.stack.take (fr.stack.length - n) }
          .next { cur := { code := compileFn fd, ip := 0, stack := args }, frames := caller :: vm.frames }
  | _ => stepVM fns vm

/-! ## (c) Histories over global cells -/

/-- Top-level forms of a piece, after name resolution: `call c` in an `IR` refers to the cell `c`. -/
inductive Form where
  | define (fd : FnDef)            -- `(define (f …) …)`: a NEW cell (index = number of cells so far)
  | assign (c : Nat) (fd : FnDef)  -- `(set! f (lambda …))`: overwrite cell `c`
  | eval (e : IR)                  -- an expression whose value is observed
deriving Repr, Inhabited

abbrev Piece := List Form
abbrev History := List Piece

/-- An observation: the cell table at that moment and the expression to evaluate in it. -/
abbrev Obs := List FnDef × IR

/-- Run the forms of one (compiled) piece. -/
def runForms : List Form → List FnDef → List FnDef × List Obs
  | [], cells => (cells, [])
  | .define fd :: rest, cells =>
      runForms rest (cells ++ [fd])
  | .assign c fd :: rest, cells =>
      runForms rest (if c < cells.length then cells.set c fd else cells)
  | .eval e :: rest, cells =>
      ((runForms rest cells).1, (cells, e) :: (runForms rest cells).2)

/-- The cells a piece assigns (`set_bang` of the unit's analysis). -/
def assignedIn : List Form → List Nat
  | [] => []
  | .assign c _ :: rest => c :: assignedIn rest
  | _ :: rest => assignedIn rest

def countDefs : List Form → Nat
  | [] => 0
  | .define _ :: rest => countDefs rest + 1
  | _ :: rest => countDefs rest

/-- The cells a piece makes available to its own inliner (`inline_handle_define`): defined in it by a `define`,
estimated size below the threshold, not assigned anywhere in the piece (`set_bang`).  `base` = number of cells
that exist when the piece starts; the i-th `define` of the piece creates cell `base + i`. -/
def pieceInlinable (thr : Nat) (base : Nat) (p : Piece) : List Nat :=
  let defs := p.filterMap fun | .define fd => some fd | _ => none
  (List.range defs.length).filterMap fun i =>
    match defs[i]? with
    | some fd => if size fd.body < thr && !(assignedIn p).contains (base + i) then some (base + i) else none
    | none => none

/-- A placeholder for the cells of earlier pieces in the unit's table: they are not `define`s of this unit
(and the policy never selects them). -/
def oldCell : FnDef := { arity := 0, body := .const (.bool false) }

/-- Compile the forms of a piece with the unit-local inliner.  `tab` = what the inliner knows at this point
of the text: a placeholder for every cell of earlier pieces, then the unit's own definitions read so far
("only inline forwards": a call site is rewritten only when it comes after the `lambda` of the definition —
which includes the procedure's own body).  The bodies copied are the original ones. -/
def compileForms (thr : Nat) (inl : List Nat) : List FnDef → List Form → List Form
  | _, [] => []
  | tab, .define fd :: rest =>
      .define (inlineFn (tab ++ [fd]) (fun f => inl.contains f) thr fd) :: compileForms thr inl (tab ++ [fd]) rest
  | tab, .assign c fd :: rest =>
      .assign c (inlineFn tab (fun f => inl.contains f) thr fd) :: compileForms thr inl tab rest
  | tab, .eval e :: rest =>
      .eval (inline tab (fun f => inl.contains f) thr 0 e) :: compileForms thr inl tab rest

inductive Cfg where
  | plain                 -- no inlining
  | inlining (thr : Nat)  -- the unit-local inliner with size threshold `thr`
deriving Repr, Inhabited

def compilePiece (cfg : Cfg) (base : Nat) (p : Piece) : Piece :=
  match cfg with
  | .plain => p
  | .inlining thr => compileForms thr (pieceInlinable thr base p) (List.replicate base oldCell) p

/-- Evaluate a history: every piece is compiled against the cells that exist when it starts. -/
def runHistory (cfg : Cfg) : History → List FnDef → List Obs
  | [], _ => []
  | p :: rest, cells =>
      (runForms (compilePiece cfg cells.length p) cells).2 ++
        runHistory cfg rest (runForms (compilePiece cfg cells.length p) cells).1

/-- The guard of `inline_history_partial`: **no piece assigns a cell that an earlier piece could inline**
(`inl` = those cells so far, `base` = number of cells so far). -/
def noLaterAssign (thr : Nat) : History → Nat → List Nat → Bool
  | [], _, _ => true
  | p :: rest, base, inl =>
      (assignedIn p).all (fun c => !inl.contains c) &&
      noLaterAssign thr rest (base + countDefs p) (inl ++ pieceInlinable thr base p)

/-- Value of an observation with `fuel`. -/
def Obs.value (o : Obs) (fuel : Nat) : Option Val := (evalIR o.1 fuel o.2 []).map (·.1)

/-- Two observations are indistinguishable: they yield the same values (with whatever call depth each
needs); in particular one is an error / diverges iff the other does. -/
def Obs.Equiv (a b : Obs) : Prop := ∀ v, (∃ n, a.value n = some v) ↔ (∃ n, b.value n = some v)

/-- Two runs made the same number of observations, pairwise indistinguishable. -/
def ObsEquiv : List Obs → List Obs → Prop
  | [], [] => True
  | a :: as, b :: bs => a.Equiv b ∧ ObsEquiv as bs
  | _, _ => False

/-! ## (d) Configurations -/

/-- The switches whose settings the differential run varies, in the order of the bits of a configuration.
Bit `true` = the variable is set to its NON-default value (`STEEL_JIT=false`, `STEEL_INLINE=1`,
`STEEL_INLINE_RECURSIVE=1`, `STEEL_CLOSURE_LIFTING=false`, `STEEL_MODULE_INLINE=1`), `false` = unset. -/
def modelledSwitches : List String :=
  ["STEEL_JIT", "STEEL_INLINE", "STEEL_INLINE_RECURSIVE", "STEEL_CLOSURE_LIFTING", "STEEL_MODULE_INLINE"]

/-- Environment variables steel-core reads that do not select an execution strategy: search paths, a
compile-time constant, a debugging dump, the collector hook of C04. -/
def ignoredEnv : List String :=
  ["STEEL_HOME", "STEEL_SEARCH_PATHS", "STEEL_BOOTSTRAP", "STEEL_DEBUG_AST", "STEEL_VERIF_GC_EVERY"]

/-- The value that switches a variable away from its default, from the test the code applies. -/
def nonDefaultValue (s : Switch) : Option String :=
  if s.onWhen = "ne:false" then some "false"
  else if s.onWhen = "eq:1" then some "1"
  else if s.onWhen = "set" then some "1"
  else none

abbrev Config := List Bool

def bitsOf (n k : Nat) : Config := (List.range k).map fun i => (n >>> i) % 2 == 1

/-- All 32 configurations (thorough tier). -/
def allConfigs : List Config := (List.range 32).map (bitsOf · 5)

/-- Quick tier: the orthogonal array OA(8,5,2,2) with columns a, b, c, a⊕b, a⊕c (every pair of switches takes
every pair of settings), plus "interpreter only" and "everything non-default". -/
def quickConfigs : List Config :=
  ((List.range 8).map fun n =>
    let a := n % 2 == 1
    let b := (n / 2) % 2 == 1
    let c := (n / 4) % 2 == 1
    [a, b, c, a != b, a != c]) ++
  [[true, false, false, false, false], [true, true, true, true, true]]

/-- Every pair of positions takes every pair of values somewhere in `cs`. -/
def pairwiseCovering (k : Nat) (cs : List Config) : Bool :=
  (List.range k).all fun i => (List.range k).all fun j =>
    i == j || [false, true].all fun a => [false, true].all fun b =>
      cs.any fun c => c[i]? == some a && c[j]? == some b

end SteelVerif.C02
