/-
C02 on the core with closures — dead-branch elimination on constant tests (`(if #t a b)` → `a`, `(if #f a b)` → `b`),
applied everywhere except inside lambda bodies (so that closure VALUES are unchanged and the two evaluations can be
compared by equality; descending into lambda bodies needs a value correspondence `V.map dbe`, not done here).
-/
import SteelVerif.C02.CorePasses
namespace SteelVerif.C02C
open SteelVerif.C01C

/-- The test is a constant: its truth value. -/
def constTest : Core → Option Bool
  | .const k => some (truthy (k.toV : Val))
  | _ => none

mutual
def dbe : Core → Core
  | .const c => .const c
  | .loc i mv => .loc i mv
  | .cap i => .cap i
  | .glob g => .glob g
  | .lam a r cs body => .lam a r cs body
  | .app f args => .app (dbe f) (dbeL args)
  | .callG g args => .callG g (dbeL args)
  | .selfTail args => .selfTail (dbeL args)
  | .ite c t e =>
      match constTest c with
      | some true => dbe t
      | some false => dbe e
      | none => .ite (dbe c) (dbe t) (dbe e)
  | .let_ off inits body => .let_ off (dbeL inits) (dbe body)
  | .seq a b => .seq (dbe a) (dbe b)
  | .setLoc i e => .setLoc i (dbe e)
  | .boxop op args => .boxop op (dbeL args)
  | .define g e => .define g (dbe e)
  | .setGlob g e => .setGlob g (dbe e)
def dbeL : List Core → List Core
  | [] => []
  | a :: rest => dbe a :: dbeL rest
end

theorem dbeL_length : ∀ args : List Core, (dbeL args).length = args.length
  | [] => by simp [dbeL]
  | a :: rest => by simp [dbeL, dbeL_length rest]

def D1 (fuel : Nat) : Prop :=
  ∀ (self : Self) (tail : Bool) (e : Core) (env caps : List Val) (σ : St Core) (r : Res (Val × List Val × St Core)),
    evalC fuel self tail e env caps σ = r → r ≠ .timeout → evalC fuel self tail (dbe e) env caps σ = r

def D2 (fuel : Nat) : Prop :=
  ∀ (self : Self) (args : List Core) (env caps : List Val) (σ : St Core) (r : Res (List Val × St Core)),
    evalArgs fuel self args env caps σ = r → r ≠ .timeout → evalArgs fuel self (dbeL args) env caps σ = r

theorem dbe_args (fuel : Nat) (ih1 : D1 fuel) (ih2 : D2 fuel) : D2 (fuel + 1) := by
  intro self args env caps σ r h hr
  cases args with
  | nil => simpa [dbeL, evalArgs] using h
  | cons a rest =>
    simp only [evalArgs] at h
    simp only [dbeL, evalArgs]
    cases ha : evalC fuel self false a env caps σ with
    | timeout => simp only [ha] at h; exact absurd h.symm hr
    | err k => rw [ih1 _ _ _ _ _ _ _ ha (by simp)]; simpa [ha] using h
    | ok x =>
      obtain ⟨v, env1, σ1⟩ := x
      rw [ih1 _ _ _ _ _ _ _ ha (by simp)]
      simp only [ha] at h ⊢
      exact ih2 _ _ _ _ _ _ h hr

theorem dbe_expr (fuel : Nat) (ih1 : D1 fuel) (ih2 : D2 fuel) : D1 (fuel + 1) := by
  intro self tail e env caps σ r h hr
  cases e with
  | const c => simpa [dbe] using h
  | loc i mv => simpa [dbe] using h
  | cap i => simpa [dbe] using h
  | glob g => simpa [dbe] using h
  | lam a rr cs body => simpa [dbe] using h
  | app f args =>
    simp only [evalC] at h
    simp only [dbe, evalC, dbeL_length]
    cases hi : evalArgs fuel self args env caps σ with
    | timeout => simp only [hi] at h; exact absurd h.symm hr
    | err k => rw [ih2 _ _ _ _ _ _ hi (by simp)]; simpa [hi] using h
    | ok x =>
      obtain ⟨env1, σ1⟩ := x
      rw [ih2 _ _ _ _ _ _ hi (by simp)]
      simp only [hi] at h ⊢
      cases hf : evalC fuel self false f env1 caps σ1 with
      | timeout => simp only [hf] at h; exact absurd h.symm hr
      | err k => rw [ih1 _ _ _ _ _ _ _ hf (by simp)]; simpa [hf] using h
      | ok y => rw [ih1 _ _ _ _ _ _ _ hf (by simp)]; simpa [hf] using h
  | callG g args =>
    simp only [evalC] at h
    simp only [dbe, evalC, dbeL_length]
    cases hi : evalArgs fuel self args env caps σ with
    | timeout => simp only [hi] at h; exact absurd h.symm hr
    | err k => rw [ih2 _ _ _ _ _ _ hi (by simp)]; simpa [hi] using h
    | ok x => rw [ih2 _ _ _ _ _ _ hi (by simp)]; simpa [hi] using h
  | selfTail args =>
    simp only [evalC] at h
    simp only [dbe, evalC, dbeL_length]
    cases tail
    · simpa using h
    · simp only [if_true] at h ⊢
      cases hi : evalArgs fuel self args env caps σ with
      | timeout => simp only [hi] at h; exact absurd h.symm hr
      | err k => rw [ih2 _ _ _ _ _ _ hi (by simp)]; simpa [hi] using h
      | ok x => rw [ih2 _ _ _ _ _ _ hi (by simp)]; simpa [hi] using h
  | ite c t e' =>
    simp only [evalC] at h
    cases hct : constTest c with
    | some b =>
      -- the test is a constant: the branch is selected statically
      cases c <;> simp [constTest] at hct
      rename_i k
      cases fuel with
      | zero => simp [evalC] at h; exact absurd h.symm hr
      | succ f =>
        simp only [evalC] at h
        cases b
        · have hk : truthy (k.toV : Val) = false := by simpa using hct
          simp only [hk, Bool.false_eq_true, if_false] at h
          have := ih1 _ _ _ _ _ _ _ h hr
          simp only [dbe, constTest, hk]
          exact (mono_all (f + 1)).1 _ _ _ _ _ _ _ this hr
        · have hk : truthy (k.toV : Val) = true := by simpa using hct
          simp only [hk, if_true] at h
          have := ih1 _ _ _ _ _ _ _ h hr
          simp only [dbe, constTest, hk]
          exact (mono_all (f + 1)).1 _ _ _ _ _ _ _ this hr
    | none =>
      simp only [dbe, hct, evalC]
      cases hc : evalC fuel self false c env caps σ with
      | timeout => simp only [hc] at h; exact absurd h.symm hr
      | err k => rw [ih1 _ _ _ _ _ _ _ hc (by simp)]; simpa [hc] using h
      | ok x =>
        obtain ⟨vc, env1, σ1⟩ := x
        rw [ih1 _ _ _ _ _ _ _ hc (by simp)]
        simp only [hc] at h ⊢
        split
        · rename_i ht; simp only [ht, if_true] at h; exact ih1 _ _ _ _ _ _ _ h hr
        · rename_i ht; simp only [ht, if_false] at h; exact ih1 _ _ _ _ _ _ _ h hr
  | let_ off inits body =>
    simp only [evalC] at h
    simp only [dbe, evalC]
    cases hi : evalArgs fuel self inits env caps σ with
    | timeout => simp only [hi] at h; exact absurd h.symm hr
    | err k => rw [ih2 _ _ _ _ _ _ hi (by simp)]; simpa [hi] using h
    | ok x =>
      obtain ⟨env1, σ1⟩ := x
      rw [ih2 _ _ _ _ _ _ hi (by simp)]
      simp only [hi] at h ⊢
      cases hb : evalC fuel self tail body env1 caps σ1 with
      | timeout => simp only [hb] at h; exact absurd h.symm hr
      | err k => rw [ih1 _ _ _ _ _ _ _ hb (by simp)]; simpa [hb] using h
      | ok y => rw [ih1 _ _ _ _ _ _ _ hb (by simp)]; simpa [hb] using h
  | seq a b =>
    simp only [evalC] at h
    simp only [dbe, evalC]
    cases ha : evalC fuel self false a env caps σ with
    | timeout => simp only [ha] at h; exact absurd h.symm hr
    | err k => rw [ih1 _ _ _ _ _ _ _ ha (by simp)]; simpa [ha] using h
    | ok x =>
      obtain ⟨va, env1, σ1⟩ := x
      rw [ih1 _ _ _ _ _ _ _ ha (by simp)]
      simp only [ha] at h ⊢
      exact ih1 _ _ _ _ _ _ _ h hr
  | setLoc i e' =>
    simp only [evalC] at h
    simp only [dbe, evalC]
    cases he : evalC fuel self false e' env caps σ with
    | timeout => simp only [he] at h; exact absurd h.symm hr
    | err k => rw [ih1 _ _ _ _ _ _ _ he (by simp)]; simpa [he] using h
    | ok x => rw [ih1 _ _ _ _ _ _ _ he (by simp)]; simpa [he] using h
  | boxop op args =>
    simp only [evalC] at h
    simp only [dbe, evalC]
    cases hi : evalArgs fuel self args env caps σ with
    | timeout => simp only [hi] at h; exact absurd h.symm hr
    | err k => rw [ih2 _ _ _ _ _ _ hi (by simp)]; simpa [hi] using h
    | ok x => rw [ih2 _ _ _ _ _ _ hi (by simp)]; simpa [hi] using h
  | define g e' =>
    simp only [evalC] at h
    simp only [dbe, evalC]
    cases he : evalC fuel self false e' env caps σ with
    | timeout => simp only [he] at h; exact absurd h.symm hr
    | err k => rw [ih1 _ _ _ _ _ _ _ he (by simp)]; simpa [he] using h
    | ok x => rw [ih1 _ _ _ _ _ _ _ he (by simp)]; simpa [he] using h
  | setGlob g e' =>
    simp only [evalC] at h
    simp only [dbe, evalC]
    cases he : evalC fuel self false e' env caps σ with
    | timeout => simp only [he] at h; exact absurd h.symm hr
    | err k => rw [ih1 _ _ _ _ _ _ _ he (by simp)]; simpa [he] using h
    | ok x => rw [ih1 _ _ _ _ _ _ _ he (by simp)]; simpa [he] using h

theorem dbe_all : ∀ fuel, D1 fuel ∧ D2 fuel := by
  intro fuel
  induction fuel with
  | zero =>
    constructor
    · intro self tail e env caps σ r h hr; simp [evalC] at h; exact absurd h.symm hr
    · intro self args env caps σ r h hr; simp [evalArgs] at h; exact absurd h.symm hr
  | succ fuel ih => exact ⟨dbe_expr fuel ih.1 ih.2, dbe_args fuel ih.1 ih.2⟩

end SteelVerif.C02C
