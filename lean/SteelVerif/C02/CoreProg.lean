/-
C02 on the core with closures — whole units, all outcomes (values or the error of the first failing form).
-/
import SteelVerif.C02.CoreObs
namespace SteelVerif.C02C
open SteelVerif.C01C

def mRP (rw : Core → Core) (r : Res (List Val × St Core)) : Res (List Val × St Core) :=
  r.map (fun p => (mL rw p.1, mS rw p.2))

theorem obsProg_mRP (rw : Core → Core) (r : Res (List Val × St Core)) : obsProg (mRP rw r) = obsProg r := by
  cases r <;> simp [obsProg, mRP, Res.map, mL, obsL_map']

theorem mRP_ne {rw : Core → Core} {r : Res (List Val × St Core)} (h : r ≠ .timeout) : mRP rw r ≠ .timeout := by
  cases r <;> simp_all [mRP, Res.map]

/-- Top-level form, unconditional rewrite, all outcomes (from `deep_all`). -/
theorem deep_top_all (rw : Core → Core) (hls : LocalSound rw) (fuel : Nat) (e : Core) (σ : St Core)
    (r : Res (Val × St Core)) (h : evalTop fuel e σ = r) (hr : r ≠ .timeout) :
    evalTop fuel (deep rw e) (mS rw σ) = r.map (fun p => (mV rw p.1, mS rw p.2)) := by
  unfold evalTop at h ⊢
  cases he : evalC fuel none false e [] [] σ with
  | timeout => rw [he] at h; simp [Res.map] at h; exact absurd h.symm hr
  | err x =>
    have := (deep_all rw hls fuel).1 none false e [] [] σ _ he (by simp)
    simp only [mSelf, List.map_nil] at this
    rw [this]; rw [he] at h; subst h; simp [mR3, Res.map]
  | ok x =>
    have := (deep_all rw hls fuel).1 none false e [] [] σ _ he (by simp)
    simp only [mSelf, List.map_nil] at this
    rw [this]; rw [he] at h; subst h; simp [mR3, Res.map]

theorem deep_program_all (rw : Core → Core) (hls : LocalSound rw) (fuel : Nat) : ∀ (es : List Core) (σ : St Core)
    (r : Res (List Val × St Core)), evalProgram fuel es σ = r → r ≠ .timeout →
    evalProgram fuel (es.map (deep rw)) (mS rw σ) = mRP rw r := by
  intro es
  induction es with
  | nil => intro σ r h _; simp [evalProgram] at h; subst h; simp [evalProgram, mRP, Res.map]
  | cons e rest ih =>
    intro σ r h hr
    simp only [evalProgram] at h
    simp only [List.map_cons, evalProgram]
    cases h1 : evalTop fuel e σ with
    | timeout => simp only [h1] at h; exact absurd h.symm hr
    | err k => rw [deep_top_all rw hls fuel e σ _ h1 (by simp)]; simp only [h1] at h; subst h; simp [mRP, Res.map]
    | ok p =>
      obtain ⟨v, σ1⟩ := p
      rw [deep_top_all rw hls fuel e σ _ h1 (by simp)]
      simp only [h1] at h
      simp only [Res.map]
      cases h2 : evalProgram fuel rest σ1 with
      | timeout => simp only [h2, Res.map] at h; exact absurd h.symm hr
      | err k => rw [ih σ1 _ h2 (by simp)]; simp only [h2, Res.map] at h; subst h; simp [mRP, Res.map]
      | ok q => rw [ih σ1 _ h2 (by simp)]; simp only [h2, Res.map] at h; subst h; simp [mRP, Res.map]

/-- Conditional rewrite, all outcomes. -/
theorem deepQ_program_all (rw : Core → Core) (ps : List Nat) (Q : St Core → Prop) (hk : QOk ps Q rw) (fuel : Nat) :
    ∀ (es : List Core) (σ : St Core) (r : Res (List Val × St Core)), evalProgram fuel es σ = r → r ≠ .timeout →
    (∀ e, e ∈ es → noAssign ps e = true) → OkSt ps σ → Q σ →
    evalProgram fuel (es.map (deep rw)) (mS rw σ) = mRP rw r := by
  intro es
  induction es with
  | nil => intro σ r h _ _ _ _; simp [evalProgram] at h; subst h; simp [evalProgram, mRP, Res.map]
  | cons e rest ih =>
    intro σ r h hr hn hst hq
    have htop : ∀ r', evalTop fuel e σ = r' → r' ≠ .timeout →
        evalTop fuel (deep rw e) (mS rw σ) = r'.map (fun p => (mV rw p.1, mS rw p.2)) := by
      intro r' h' hr'
      unfold evalTop at h' ⊢
      cases he : evalC fuel none false e [] [] σ with
      | timeout => rw [he] at h'; simp [Res.map] at h'; exact absurd h'.symm hr'
      | err x =>
        have := (deepQ_all rw ps Q hk fuel).1 none false e [] [] σ _ he (by simp) (hn e (by simp)) trivial
          OkL.nil OkL.nil hst hq
        simp only [mSelf, List.map_nil] at this
        rw [this]; rw [he] at h'; subst h'; simp [mR3, Res.map]
      | ok x =>
        have := (deepQ_all rw ps Q hk fuel).1 none false e [] [] σ _ he (by simp) (hn e (by simp)) trivial
          OkL.nil OkL.nil hst hq
        simp only [mSelf, List.map_nil] at this
        rw [this]; rw [he] at h'; subst h'; simp [mR3, Res.map]
    simp only [evalProgram] at h
    simp only [List.map_cons, evalProgram]
    cases h1 : evalTop fuel e σ with
    | timeout => simp only [h1] at h; exact absurd h.symm hr
    | err k => rw [htop _ h1 (by simp)]; simp only [h1] at h; subst h; simp [mRP, Res.map]
    | ok p =>
      obtain ⟨v, σ1⟩ := p
      rw [htop _ h1 (by simp)]
      simp only [h1] at h
      simp only [Res.map]
      have hsame : Same ps σ σ1 ∧ OkSt ps σ1 := by
        unfold evalTop at h1
        cases he : evalC fuel none false e [] [] σ with
        | timeout => simp [he, Res.map] at h1
        | err k => simp [he, Res.map] at h1
        | ok x =>
          obtain ⟨v', env', σ''⟩ := x
          simp only [he, Res.map, Res.ok.injEq, Prod.mk.injEq] at h1
          obtain ⟨_, rfl⟩ := h1
          obtain ⟨_, _, a3, a4⟩ := (stable_all ps fuel).1 none false e [] [] σ v' env' σ'' he (hn e (by simp)) trivial
            OkL.nil OkL.nil hst
          exact ⟨a4, a3⟩
      have hn' : ∀ e', e' ∈ rest → noAssign ps e' = true := fun e' he' => hn e' (List.mem_cons_of_mem _ he')
      cases h2 : evalProgram fuel rest σ1 with
      | timeout => simp only [h2, Res.map] at h; exact absurd h.symm hr
      | err k =>
        rw [ih σ1 _ h2 (by simp) hn' hsame.2 (hk.same _ _ hsame.1 hq)]
        simp only [h2, Res.map] at h; subst h; simp [mRP, Res.map]
      | ok q =>
        rw [ih σ1 _ h2 (by simp) hn' hsame.2 (hk.same _ _ hsame.1 hq)]
        simp only [h2, Res.map] at h; subst h; simp [mRP, Res.map]

theorem evalProgram_append_ok (fuel : Nat) : ∀ (a b : List Core) (σ σ1 : St Core) (v1 : List Val),
    evalProgram fuel a σ = .ok (v1, σ1) →
    evalProgram fuel (a ++ b) σ = (evalProgram fuel b σ1).map (fun p => (v1 ++ p.1, p.2)) := by
  intro a
  induction a with
  | nil =>
    intro b σ σ1 v1 h1; simp [evalProgram] at h1; obtain ⟨rfl, rfl⟩ := h1
    cases hb : evalProgram fuel b σ <;> simp [Res.map, hb]
  | cons e rest ih =>
    intro b σ σ1 v1 h1
    simp only [evalProgram] at h1
    cases he : evalTop fuel e σ with
    | err k => simp [he] at h1
    | timeout => simp [he] at h1
    | ok p =>
      obtain ⟨v, σ'⟩ := p
      simp only [he] at h1
      cases hr : evalProgram fuel rest σ' with
      | err k => simp [hr, Res.map] at h1
      | timeout => simp [hr, Res.map] at h1
      | ok q =>
        obtain ⟨vs, σ''⟩ := q
        simp only [hr, Res.map, Res.ok.injEq, Prod.mk.injEq] at h1
        obtain ⟨rfl, rfl⟩ := h1
        have := ih b σ' σ'' vs hr
        simp only [List.cons_append, evalProgram, he, this]
        cases hb : evalProgram fuel b σ'' <;> simp [Res.map, hb]

end SteelVerif.C02C
