/-
C02 — lemmas about `evalIR` (the reference semantics of the lowered core): equations in `bind` form, frame
heights, fuel monotonicity, evaluation under a frame prefix (`shift`), nested lets (`bindArgs`).
-/
import SteelVerif.C01.Props
import SteelVerif.C02.Model
namespace SteelVerif.C02
open SteelVerif.C01

variable (T : List FnDef) (F : Nat)

/-! ## Equations (no `match`: two syntactically equal matches need not be the same term) -/

theorem evalIR_const (v : Val) (s : List Val) : evalIR T F (.const v) s = some (v, s) := by simp [evalIR]

theorem evalIR_loc (i : Nat) (s : List Val) : evalIR T F (.loc i) s = (s[i]?).map (·, s) := by simp [evalIR]

theorem evalIR_prim (op : Op) (a b : IR) (s : List Val) :
    evalIR T F (.prim op a b) s =
      (evalIR T F a s).bind fun p => (evalIR T F b (p.2 ++ [p.1])).bind fun q =>
        (q.2.getLast?).bind fun va' => (op.apply va' q.1).map (·, q.2.dropLast) := by
  simp only [evalIR]
  cases evalIR T F a s with
  | none => rfl
  | some p =>
    obtain ⟨va, s1⟩ := p
    simp only [Option.bind_some]
    cases evalIR T F b (s1 ++ [va]) with
    | none => rfl
    | some q =>
      obtain ⟨vb, s2⟩ := q
      simp only [Option.bind_some]
      cases s2.getLast? <;> rfl

theorem evalIR_ite (c t e : IR) (s : List Val) :
    evalIR T F (.ite c t e) s =
      (evalIR T F c s).bind fun p => if truthy p.1 then evalIR T F t p.2 else evalIR T F e p.2 := by
  simp only [evalIR]
  cases evalIR T F c s with
  | none => rfl
  | some p => obtain ⟨vc, s1⟩ := p; rfl

theorem evalIR_let1 (e b : IR) (s : List Val) :
    evalIR T F (.let1 e b) s =
      (evalIR T F e s).bind fun p => (evalIR T F b (p.2 ++ [p.1])).map fun q => (q.1, q.2.dropLast) := by
  simp only [evalIR]
  cases evalIR T F e s with
  | none => rfl
  | some p =>
    obtain ⟨ve, s1⟩ := p
    simp only [Option.bind_some]
    cases evalIR T F b (s1 ++ [ve]) with
    | none => rfl
    | some q => obtain ⟨vb, s2⟩ := q; rfl

theorem evalIR_seq (a b : IR) (s : List Val) :
    evalIR T F (.seq a b) s = (evalIR T F a s).bind fun p => evalIR T F b p.2 := by
  simp only [evalIR]
  cases evalIR T F a s with
  | none => rfl
  | some p => obtain ⟨va, s1⟩ := p; rfl

theorem evalIR_setLoc (i : Nat) (e : IR) (s : List Val) :
    evalIR T F (.setLoc i e) s =
      (evalIR T F e s).bind fun p => (p.2[i]?).map fun old => (old, p.2.set i p.1) := by
  simp only [evalIR]
  cases evalIR T F e s with
  | none => rfl
  | some p =>
    obtain ⟨v, s1⟩ := p
    simp only [Option.bind_some]
    cases s1[i]? <;> rfl

theorem evalIR_call_zero (f : Nat) (args : List IR) (s : List Val) : evalIR T 0 (.call f args) s = none := by
  simp [evalIR]

theorem evalIR_call_succ (f : Nat) (args : List IR) (s : List Val) :
    evalIR T (F + 1) (.call f args) s =
      (evalArgs T (F + 1) args s).bind fun s1 => (T[f]?).bind fun fd =>
        if fd.arity ≠ args.length ∨ s1.length < args.length then none
        else (evalIR T F fd.body (s1.drop (s1.length - args.length))).map fun r =>
          (r.1, s1.take (s1.length - args.length)) := by
  simp only [evalIR]
  cases evalArgs T (F + 1) args s with
  | none => rfl
  | some s1 =>
    simp only [Option.bind_some]
    cases T[f]? with
    | none => rfl
    | some fd =>
      simp only [Option.bind_some]
      split
      · rfl
      · cases evalIR T F fd.body (s1.drop (s1.length - args.length)) with
        | none => rfl
        | some r => obtain ⟨v, s2⟩ := r; rfl

theorem evalArgs_nil (s : List Val) : evalArgs T F [] s = some s := by simp [evalArgs]

theorem evalArgs_cons (a : IR) (r : List IR) (s : List Val) :
    evalArgs T F (a :: r) s = (evalIR T F a s).bind fun p => evalArgs T F r (p.2 ++ [p.1]) := by
  simp only [evalArgs]
  cases evalIR T F a s with
  | none => rfl
  | some p => obtain ⟨v, s1⟩ := p; rfl

/-! ## Heights -/

theorem evalArgs_length : ∀ (args : List IR) (s s1 : List Val),
    evalArgs T F args s = some s1 → s1.length = s.length + args.length := by
  intro args
  induction args with
  | nil => intro s s1 h; simp [evalArgs_nil] at h; subst h; simp
  | cons a r ih =>
    intro s s1 h
    rw [evalArgs_cons] at h
    cases ha : evalIR T F a s with
    | none => simp [ha] at h
    | some p =>
      obtain ⟨v, s'⟩ := p
      simp only [ha, Option.bind_some] at h
      have h1 := eval_preserves_height T F a s s' v ha
      have h2 := ih _ _ h
      simp at h2 ⊢; omega

/-! ## More fuel never changes a result -/

theorem mono_aux (hbody : ∀ F0, F = F0 + 1 → ∀ e s r, evalIR T F0 e s = some r → evalIR T (F0 + 1) e s = some r) :
    ∀ e : IR, ∀ s r, evalIR T F e s = some r → evalIR T (F + 1) e s = some r := by
  intro e
  induction e using size.induct
    (motive_2 := fun args => ∀ s s1, evalArgs T F args s = some s1 → evalArgs T (F + 1) args s = some s1) with
  | case1 v => intro s r h; simpa [evalIR_const] using h
  | case2 i => intro s r h; simpa [evalIR_loc] using h
  | case3 op a b iha ihb =>
    intro s r h
    rw [evalIR_prim] at h ⊢
    cases ha : evalIR T F a s with
    | none => simp [ha] at h
    | some p =>
      rw [ha] at h; simp only [Option.bind_some] at h
      rw [iha _ _ ha]; simp only [Option.bind_some]
      cases hb : evalIR T F b (p.2 ++ [p.1]) with
      | none => simp [hb] at h
      | some q => rw [hb] at h; rw [ihb _ _ hb]; exact h
  | case4 c t e ihc iht ihe =>
    intro s r h
    rw [evalIR_ite] at h ⊢
    cases hc : evalIR T F c s with
    | none => simp [hc] at h
    | some p =>
      rw [hc] at h; simp only [Option.bind_some] at h
      rw [ihc _ _ hc]; simp only [Option.bind_some]
      split
      · rename_i ht; rw [if_pos ht] at h; exact iht _ _ h
      · rename_i ht; rw [if_neg ht] at h; exact ihe _ _ h
  | case5 e b ihe ihb =>
    intro s r h
    rw [evalIR_let1] at h ⊢
    cases he : evalIR T F e s with
    | none => simp [he] at h
    | some p =>
      rw [he] at h; simp only [Option.bind_some] at h
      rw [ihe _ _ he]; simp only [Option.bind_some]
      cases hb : evalIR T F b (p.2 ++ [p.1]) with
      | none => simp [hb] at h
      | some q => rw [hb] at h; rw [ihb _ _ hb]; exact h
  | case6 a b iha ihb =>
    intro s r h
    rw [evalIR_seq] at h ⊢
    cases ha : evalIR T F a s with
    | none => simp [ha] at h
    | some p =>
      rw [ha] at h; simp only [Option.bind_some] at h
      rw [iha _ _ ha]; simp only [Option.bind_some]
      exact ihb _ _ h
  | case7 i e ihe =>
    intro s r h
    rw [evalIR_setLoc] at h ⊢
    cases he : evalIR T F e s with
    | none => simp [he] at h
    | some p =>
      rw [he] at h; rw [ihe _ _ he]; exact h
  | case8 f args ihargs =>
    intro s r h
    cases F with
    | zero => simp [evalIR_call_zero] at h
    | succ F0 =>
      rw [evalIR_call_succ] at h ⊢
      cases ha : evalArgs T (F0 + 1) args s with
      | none => simp [ha] at h
      | some s1 =>
        rw [ha] at h; simp only [Option.bind_some] at h
        rw [ihargs _ _ ha]; simp only [Option.bind_some]
        cases hf : T[f]? with
        | none => simp [hf] at h
        | some fd =>
          rw [hf] at h; simp only [Option.bind_some] at h ⊢
          split
          · rename_i hbad; rw [if_pos hbad] at h; exact h
          · rename_i hok; rw [if_neg hok] at h
            cases hb : evalIR T F0 fd.body (s1.drop (s1.length - args.length)) with
            | none => simp [hb] at h
            | some q => rw [hb] at h; rw [hbody F0 rfl _ _ _ hb]; exact h
  | case9 => rename_i s s1 h; simpa [evalArgs_nil] using h
  | case10 a r iha ihr =>
    rename_i s s1 h
    rw [evalArgs_cons] at h ⊢
    cases ha : evalIR T F a s with
    | none => simp [ha] at h
    | some p =>
      rw [ha] at h; simp only [Option.bind_some] at h
      rw [iha _ _ ha]; simp only [Option.bind_some]
      exact ihr _ _ h

theorem evalIR_mono_succ : ∀ (F : Nat) (e : IR) (s : List Val) (r : Val × List Val),
    evalIR T F e s = some r → evalIR T (F + 1) e s = some r := by
  intro F
  induction F with
  | zero => exact mono_aux T 0 (by intro F0 h; omega)
  | succ F ih => exact mono_aux T (F + 1) (by intro F0 h; obtain rfl : F0 = F := (by omega); exact ih)

theorem evalIR_mono {F F' : Nat} (h : F ≤ F') (e : IR) (s : List Val) (r : Val × List Val)
    (he : evalIR T F e s = some r) : evalIR T F' e s = some r := by
  induction h with
  | refl => exact he
  | step _ ih => exact evalIR_mono_succ T _ e s r ih

theorem evalArgs_mono {F F' : Nat} (h : F ≤ F') : ∀ (args : List IR) (s s1 : List Val),
    evalArgs T F args s = some s1 → evalArgs T F' args s = some s1 := by
  intro args
  induction args with
  | nil => intro s s1 h1; simpa [evalArgs_nil] using h1
  | cons a r ih =>
    intro s s1 h1
    rw [evalArgs_cons] at h1 ⊢
    cases ha : evalIR T F a s with
    | none => simp [ha] at h1
    | some p =>
      rw [ha] at h1; simp only [Option.bind_some] at h1
      rw [evalIR_mono T h a s p ha]; simp only [Option.bind_some]
      exact ih _ _ h1

/-- Results do not depend on the fuel that produced them. -/
theorem evalIR_det {F F' : Nat} (e : IR) (s : List Val) (r r' : Val × List Val)
    (h : evalIR T F e s = some r) (h' : evalIR T F' e s = some r') : r = r' := by
  have a := evalIR_mono T (Nat.le_max_left F F') e s r h
  have b := evalIR_mono T (Nat.le_max_right F F') e s r' h'
  rw [a] at b; exact Option.some.inj b

end SteelVerif.C02
