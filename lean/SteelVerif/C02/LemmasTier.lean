/-
C02 — the two-tier machine: whatever the schedule, it computes what the interpreter computes.
-/
import SteelVerif.C01.Props
import SteelVerif.C02.Model
namespace SteelVerif.C02
open SteelVerif.C01

/-- The interpreter is `stepVM`; the native tier is a parameter. -/
def mkImpl (fns : List FnDef) (native : VM → StepRes) : Impl := { interp := stepVM fns, native := native }

/-- What remains to be done after a schedule: nothing, or the interpreter continues. -/
def Res.finish (fns : List FnDef) (fuel : Nat) : Res → Option Val
  | .halted v => some v
  | .stuck => none
  | .running vm _ => runVM fns fuel vm

/-- The hypothesis made false in the way finding K02e shows it to be false in the code: a native primitive
whose operands have the wrong type records the error somewhere nobody looks and goes on with a placeholder
(`#<void>` in the engine, `#false` here) instead of leaving the native tier. -/
def lossyNative (fns : List FnDef) (vm : VM) : StepRes :=
  let fr := vm.cur
  match fr.code[fr.ip]? with
  | some (.prim op) =>
      match fr.stack.dropLast.getLast?, fr.stack.getLast? with
      | some a, some b =>
        match op.apply a b with
        | some r => .next { vm with cur := { fr with ip := fr.ip + 1, stack := fr.stack.dropLast.dropLast ++ [r] } }
        | none => .next { vm with cur := { fr with ip := fr.ip + 1, stack := fr.stack.dropLast.dropLast ++ [.bool false] } }
      | _, _ => .stuck
  | _ => stepVM fns vm

variable (fns : List FnDef) (native : VM → StepRes) (hN : ∀ vm, native vm = stepVM fns vm)
include hN

theorem step_eq (t : Tier) (vm : VM) : (mkImpl fns native).step t vm = stepVM fns vm := by
  cases t
  · rfl
  · exact hN vm

theorem runK_finish : ∀ (k : Nat) (t : Tier) (vm : VM) (fuel : Nat),
    (runK (mkImpl fns native) t k vm).finish fns fuel = runVM fns (k + fuel) vm := by
  intro k
  induction k with
  | zero => intro t vm fuel; simp [runK, Res.finish]
  | succ k ih =>
    intro t vm fuel
    rw [show k + 1 + fuel = (k + fuel) + 1 by omega]
    simp only [runK, runVM, step_eq fns native hN]
    cases hs : stepVM fns vm with
    | next vm' => simp only; exact ih t vm' fuel
    | halt v => simp [Res.finish]
    | stuck => simp [Res.finish]

theorem runSched_finish : ∀ (sched : List Ev) (t : Tier) (vm : VM) (fuel : Nat),
    (runSched (mkImpl fns native) sched t vm).finish fns fuel = runVM fns (schedSteps sched + fuel) vm := by
  intro sched
  induction sched with
  | nil => intro t vm fuel; simp [runSched, schedSteps, Res.finish]
  | cons ev rest ih =>
    intro t vm fuel
    cases ev with
    | run k =>
      have hk := runK_finish fns native hN (k + 1) t vm (schedSteps rest + fuel)
      rw [show schedSteps (Ev.run k :: rest) + fuel = k + 1 + (schedSteps rest + fuel) by simp [schedSteps]; omega]
      rw [← hk]
      simp only [runSched]
      cases hr : runK (mkImpl fns native) t (k + 1) vm with
      | halted v => simp [Res.finish]
      | stuck => simp [Res.finish]
      | running vm' t' => simp only [Res.finish]; exact ih t' vm' fuel
    | enter => simp only [runSched, schedSteps]; exact ih .native vm fuel
    | deopt => simp only [runSched, schedSteps]; exact ih .interp vm fuel

omit hN in
theorem runInterp_eq : ∀ (fuel : Nat) (vm : VM), runInterp (mkImpl fns native) fuel vm = runVM fns fuel vm := by
  intro fuel
  induction fuel with
  | zero => intro vm; simp [runInterp, runVM]
  | succ n ih =>
    intro vm
    simp only [runInterp, runVM, mkImpl]
    cases stepVM fns vm with
    | next vm' => simp only; exact ih vm'
    | halt v => rfl
    | stuck => rfl

theorem runTiered_eq (sched : List Ev) (fuel : Nat) (vm : VM) :
    runTiered (mkImpl fns native) sched fuel vm = runVM fns (schedSteps sched + fuel) vm := by
  rw [← runSched_finish fns native hN sched .interp vm fuel]
  simp only [runTiered]
  cases runSched (mkImpl fns native) sched .interp vm with
  | halted v => simp [Res.finish]
  | stuck => simp [Res.finish]
  | running vm' t' => simp only [Res.finish]; exact runInterp_eq fns native fuel vm'

end SteelVerif.C02
