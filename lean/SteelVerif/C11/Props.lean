/-
C11 — property theorems.

* `EqStructural c`: the FULL statement — on every acyclic value graph (any nesting, any sharing) the
  model of `equal?` under configuration `c` returns equality of the unfoldings.
  - `eq_structural`: it holds for every sound configuration (`Cfg.fixed`, the code after the fixes of
    K11a/K11b: pair-keyed `visited`, no `return false` on a revisited vector, all leaf arms).
    `GenSound.code_cfg_sound` says the configuration extracted from /repo is sound.
  - `not_eq_structural_old`: it FAILS for `Cfg.legacy` (the code before the fixes; defect D10) — the
    negation witness, by `decide`; `eq_old_wrong_on_vectors` is the `return false` half.
* `HashRespectsEq c`: values with equal unfoldings hash alike: `hash_respects_eq` (sound `c`),
  `not_hash_respects_eq_old_*` (the three legacy defects K11c, K11d, K11e).
* `eq_refl`, `eq_symm`, `eq_trans`, `eq_equivalence`: equal? is an equivalence relation, THROUGH hash maps and hash sets;
  `built_guards` / `eq_equivalence_built`: the constructors (`mkSet` = `(hashset ..)`, `mkMap` = `(hash ..)`, the others)
  establish every guard, so the equivalence holds for all values they build, no guard left.  NaN policy as theorems:
  `nan_equal_nothing`, `container_equal_itself`.
* `keys_interchangeable` (a key is found iff it equals the stored key's unfolding) and its composition with the map
  operations: `keyed_map_*` — a hash map keyed by values (collections included) is a finite map modulo `equal?`.
* collection laws for all inputs (reference model S = `Coll.*`), and `prim_refines`: the model P of the Rust primitives
  (`Prim.lean`) answers every operation SEQUENCE as S does.
Guards: `ListSigOK` (what is ASSUMED about list identities, see below), `WF` (acyclic: definitions mention earlier nodes only), `NoNaN` (a NaN is not `equal?` to
itself — documented semantics, while an object holding one is identical to itself), `KeysDistinct` / `MembersDistinct`
(the keys of a hash map / the members of a hash set are pairwise different, as in every real map / set: proved of the
constructors).  All are decidable; `Guards` bundles them.

Identity of lists.  A node id stands for the pointer of a list's head cell, so "same identity ⇒ same
value" is built into the representation (one id, one definition): the harness gives two real lists the
same node exactly when `as_ptr_usize()` agrees, and otherwise separate nodes.  The second short cut of
the code, `storage_ptr_eq ∧ equal next pointer`, is modelled by `ListSig` (storage, index, next) read off
the real object; `ListSigOK` = lists with identical signatures have identical elements — a fact about
im-lists that the theorems ASSUME and the correspondence run checks on every graph the harness builds.
`not_eq_structural_k11j`: without the `next` conjunct (K11j, the code before 14209e55) it is false.
-/
import SteelVerif.C11.LemmasLoop
import SteelVerif.C11.LemmasColl
import SteelVerif.C11.LemmasEquiv
import SteelVerif.C11.LemmasConstruct
import SteelVerif.C11.LemmasRefine
import SteelVerif.C11.LemmasKeyed
namespace SteelVerif.C11

/-! ## equal? is structural -/

/-- The full statement of the property for configuration `c`. -/
def EqStructural (c : Cfg) : Prop :=
  ∀ (g : Graph) (a b : Nat), WF g → NoNaN g → KeysDistinct g → ListSigOK g → a < g.length →
    eqImpl c g a b = eqSpec g a b

theorem cfg_of_sound {c : Cfg} (h : c.sound = true) : c = Cfg.fixed := by
  unfold Cfg.sound at h
  exact of_decide_eq_true (by simpa using h)

/-- **equal? is structural**: for the sound configuration the worklist with its visited set and
    pointer short cuts computes exactly equality of the unfoldings — for all graphs, any sharing. -/
theorem eq_structural (c : Cfg) (hc : c.sound = true) : EqStructural c := by
  intro g a b hwf hn hkd hsig ha
  rw [cfg_of_sound hc]
  unfold eqImpl
  apply topEq_spec hwf ha
  have := loop_correct hwf hn hkd hsig (size g a + size g b) [(a, b)] [] []
    (by simpa using ha) (by simp) (by intro q hq; simp at hq) (by simp)
  simpa [specP] using this

/-- x = (list 1 2); left = (list x x); right = (list (list 3 4) (list 1 2)) -/
def witnessD10 : Graph :=
  [.leaf (.int 1), .leaf (.int 2), .leaf (.int 3), .leaf (.int 4),
   .list [0, 1] none, .list [4, 4] none, .list [2, 3] none, .list [0, 1] none, .list [6, 7] none]

/-- v = #(1 2), w = #(1 2) (immutable); left = #(v v); right = #(w w) -/
def witnessVec : Graph :=
  [.leaf (.int 1), .leaf (.int 2), .vec [0, 1], .vec [0, 1], .vec [2, 2], .vec [3, 3]]

/-- **Negation witness** (defect D10/K11a): the legacy algorithm says `#true` for two values whose
    unfoldings differ. -/
theorem not_eq_structural_old : ¬ EqStructural Cfg.legacy := by
  intro h
  have := h witnessD10 5 8 (by decide) (by decide) (by decide) (by decide) (by decide)
  revert this
  decide

/-- y = (list 1 2 3 4) fills one node; a = (append y (list 4)), b = (append y (list 5)): two different head
    cells over the SAME element storage and index, with different next nodes (ids 5 = a, 6 = b). -/
def witnessK11j : Graph :=
  [.leaf (.int 1), .leaf (.int 2), .leaf (.int 3), .leaf (.int 4), .leaf (.int 5),
   .list [0, 1, 2, 3, 3] (some ⟨100, 4, 201⟩), .list [0, 1, 2, 3, 4] (some ⟨100, 4, 202⟩),
   .list [5, 5] none, .list [5, 6] none]

/-- **Negation witness** (defect K11j): a short cut that compares the storage and the index of the first
    node only takes two different lists for equal — also nested, through the visited key. -/
theorem not_eq_structural_k11j : ¬ EqStructural Cfg.k11j := by
  intro h
  have := h witnessK11j 5 6 (by decide) (by decide) (by decide) (by decide) (by decide)
  revert this
  decide

/-- the same graph satisfies the guards and is answered correctly by the fixed algorithm, also nested -/
example : WF witnessK11j ∧ ListSigOK witnessK11j ∧ eqSpec witnessK11j 5 6 = false ∧
    eqImpl Cfg.fixed witnessK11j 5 6 = false ∧ eqImpl Cfg.fixed witnessK11j 7 8 = false ∧
    eqImpl Cfg.k11j witnessK11j 7 8 = true := by decide

/-- mv = (vector 1), iv = #(1); (list mv) vs (list iv) -/
def witnessM1 : Graph := [.leaf (.int 1), .mvec [0], .vec [0], .list [1] none, .list [2] none]

/-- **Negation witness** (seeded defect m1): rejecting list elements of different discriminants breaks the
    property, because a mutable and an immutable vector with equal elements are equal. -/
theorem not_eq_structural_kind_reject : ¬ EqStructural Cfg.kindReject := by
  intro h
  have := h witnessM1 3 4 (by decide) (by decide) (by decide) (by decide) (by decide)
  revert this
  decide

example : eqImpl Cfg.fixed witnessM1 1 2 = true ∧ eqImpl Cfg.fixed witnessM1 3 4 = true ∧
    eqImpl Cfg.kindReject witnessM1 1 2 = true ∧ eqImpl Cfg.kindReject witnessM1 3 4 = false := by decide

/-- the other half of D10: equal immutable vectors that occur twice are rejected -/
theorem eq_old_wrong_on_vectors :
    eqImpl Cfg.legacy witnessVec 4 5 = false ∧ eqSpec witnessVec 4 5 = true := by decide

/-- non-vacuity of `eq_structural`: the witness graphs satisfy the guards, and the fixed algorithm
    answers them correctly -/
example : WF witnessD10 ∧ NoNaN witnessD10 ∧ KeysDistinct witnessD10 ∧
    eqImpl Cfg.fixed witnessD10 5 8 = false ∧ eqImpl Cfg.fixed witnessVec 4 5 = true := by decide

/-- a value with sharing, hash maps keyed by collections and nested sets, inside the guards -/
def witnessMap : Graph :=
  [.leaf (.int 1), .leaf (.int 2), .list [0, 1] none, .list [0, 1] none, .set [2], .set [3],
   .map [(2, 4), (0, 2)], .map [(0, 3), (3, 5)], .list [6, 6] none, .list [7, 6] none]

example : WF witnessMap ∧ NoNaN witnessMap ∧ KeysDistinct witnessMap ∧
    eqSpec witnessMap 8 9 = true ∧ eqImpl Cfg.fixed witnessMap 8 9 = true := by decide

/-- non-vacuity (theorem applied, every hypothesis instantiated): shared sub-lists used as keys of hash maps -/
example : eqImpl Cfg.fixed witnessMap 8 9 = eqSpec witnessMap 8 9 :=
  eq_structural _ rfl _ _ _ (by decide) (by decide) (by decide) (by decide) (by decide)
example : eqImpl Cfg.fixed witnessD10 5 8 = eqSpec witnessD10 5 8 :=
  eq_structural _ rfl _ _ _ (by decide) (by decide) (by decide) (by decide) (by decide)

/-- equal? is reflexive (on NaN-free values) -/
theorem eq_refl (c : Cfg) (hc : c.sound = true) (g : Graph) (a : Nat) (hwf : WF g) (hn : NoNaN g)
    (hkd : KeysDistinct g) (hsig : ListSigOK g) (ha : a < g.length) : eqImpl c g a a = true := by
  rw [eq_structural c hc g a a hwf hn hkd hsig ha]
  exact spec_refl hwf hn hkd a ha

example : eqImpl Cfg.fixed witnessMap 9 9 = true :=
  eq_refl _ rfl _ _ (by decide) (by decide) (by decide) (by decide) (by decide)
/-- the guard `NoNaN` is needed: a NaN is not `equal?` to itself -/
example : eqImpl Cfg.fixed [.leaf (.flt 0x7ff8000000000000)] 0 0 = false := by decide

/-- **NaN policy, part 1** (documented semantics, any configuration, any graph): a NaN is `equal?` to nothing, not even
    to itself -/
theorem nan_equal_nothing (c : Cfg) (g : Graph) (a b : Nat) (x : Nat) (ha : g.node a = .leaf (.flt x))
    (hx : fIsNaN x = true) : eqImpl c g a b = false ∧ eqImpl c g b a = false := by
  obtain ⟨f, hf⟩ : ∃ f, size g a + size g b = f + 1 := ⟨size g a + size g b - 1, by have := size_pos g a; omega⟩
  obtain ⟨f', hf'⟩ : ∃ f, size g b + size g a = f + 1 := ⟨size g b + size g a - 1, by have := size_pos g a; omega⟩
  unfold eqImpl topEq
  dsimp only
  rw [ha, hf, hf']
  cases hb : g.node b with
  | leaf y =>
    cases y <;> simp [leafEqSpec, fEq, hx]
  | _ => simp [loop, arm, ha, hb]

/-- **NaN policy, part 2** (any configuration, ANY graph — cyclic or holding NaNs): a container is `equal?` to itself;
    the pointer-equality short cut answers before anything is compared -/
theorem container_equal_itself (c : Cfg) (g : Graph) (a : Nat) (ha : ∀ l, g.node a ≠ .leaf l) :
    eqImpl c g a a = true := by
  obtain ⟨f, hf⟩ : ∃ f, size g a + size g a = f + 1 := ⟨size g a + size g a - 1, by have := size_pos g a; omega⟩
  unfold eqImpl topEq
  dsimp only
  rw [hf]
  cases hn : g.node a with
  | leaf l => exact absurd hn (ha l)
  | _ => simp [loop, arm, hn]

/-- non-vacuity: a list holding a NaN is `equal?` to itself and not to a separately built copy (whose unfolding is
    "the same"): on values with NaN `equal?` is NOT structural — the documented exception, now stated; a vector that
    contains itself (a cycle, outside `WF`) is `equal?` to itself -/
example : eqImpl Cfg.fixed [.leaf (.flt 0x7ff8000000000000), .list [0] none, .list [0] none] 1 1 = true :=
  container_equal_itself _ _ 1 (by intro l h; cases h)
example : eqImpl Cfg.fixed [.leaf (.flt 0x7ff8000000000000), .list [0] none, .list [0] none] 1 2 = false := by decide
example : eqImpl Cfg.fixed [.leaf (.flt 0x7ff8000000000000), .leaf (.flt 0x7ff8000000000000)] 0 1 = false :=
  (nan_equal_nothing _ _ 0 1 _ rfl (by decide)).1
example : ¬ WF [Node.mvec [0]] ∧ eqImpl Cfg.fixed [.mvec [0]] 0 0 = true :=
  ⟨by decide, container_equal_itself _ _ 0 (by intro l h; cases h)⟩


/-- **equal? is symmetric**, also THROUGH hash maps and hash sets.  `eqSpec` on maps/sets is what the code does
    ("same size and every LEFT entry is found on the right"); that this is symmetric is a counting argument
    (`cover_symm`: an injection between two pairwise-distinct lists of the same length is onto) which needs the
    keys of a map (`KeysDistinct`) and the members of a set (`MembersDistinct`) to be pairwise non-`equal?` — what
    the constructors `hash` / `hashset` guarantee (`mkMap_guards`, `mkSet_guards`, `built_guards` below). -/
theorem eq_symm (c : Cfg) (hc : c.sound = true) (g : Graph) (a b : Nat) (hwf : WF g) (hn : NoNaN g)
    (hkd : KeysDistinct g) (hmd : MembersDistinct g) (hsig : ListSigOK g) (ha : a < g.length) (hb : b < g.length) :
    eqImpl c g a b = eqImpl c g b a := by
  rw [eq_structural c hc g a b hwf hn hkd hsig ha, eq_structural c hc g b a hwf hn hkd hsig hb]
  exact spec_symm_full hwf hkd hmd a b ha hb

/-- two separately built lists `(1)`, and two "hash sets" `{(1), (1)'}` and `{(1), 2}`: the first one has two
    members that are `equal?` to each other — which no real hash set has (`mkSet_guards`) -/
def witnessDupSet : Graph :=
  [.leaf (.int 1), .leaf (.int 2), .list [0] none, .list [0] none, .set [2, 3], .set [2, 1]]

/-- **The guard `MembersDistinct` is needed**: without it symmetry is FALSE (for the specification and, by
    `eq_structural`, for the model of the code alike) — and the witness violates exactly that guard. -/
theorem eq_symm_fails_without_distinct_members :
    WF witnessDupSet ∧ NoNaN witnessDupSet ∧ KeysDistinct witnessDupSet ∧ ListSigOK witnessDupSet ∧
    ¬ MembersDistinct witnessDupSet ∧
    eqSpec witnessDupSet 4 5 = true ∧ eqSpec witnessDupSet 5 4 = false ∧
    eqImpl Cfg.fixed witnessDupSet 4 5 = true ∧ eqImpl Cfg.fixed witnessDupSet 5 4 = false := by decide

/-- **equal? is transitive**, also through hash maps and hash sets. -/
theorem eq_trans (c : Cfg) (hc : c.sound = true) (g : Graph) (a b d : Nat) (hwf : WF g) (hn : NoNaN g)
    (hkd : KeysDistinct g) (hmd : MembersDistinct g) (hsig : ListSigOK g) (ha : a < g.length) (hb : b < g.length)
    (hd : d < g.length) (h1 : eqImpl c g a b = true) (h2 : eqImpl c g b d = true) : eqImpl c g a d = true := by
  rw [eq_structural c hc g a b hwf hn hkd hsig ha] at h1
  rw [eq_structural c hc g b d hwf hn hkd hsig hb] at h2
  rw [eq_structural c hc g a d hwf hn hkd hsig ha]
  exact spec_trans_full hwf hkd hmd a b d ha hb hd h1 h2

/-- **equal? is an equivalence relation** on every graph that satisfies the guards (`Guards` = `WF`, `NoNaN`,
    `KeysDistinct`, `MembersDistinct`, `ListSigOK`): all acyclic NaN-free values of the modelled kinds, any nesting,
    any sharing, hash maps and hash sets included. -/
theorem eq_equivalence (c : Cfg) (hc : c.sound = true) (g : Graph) (h : Guards g) :
    (∀ a, a < g.length → eqImpl c g a a = true) ∧
    (∀ a b, a < g.length → b < g.length → eqImpl c g a b = eqImpl c g b a) ∧
    (∀ a b d, a < g.length → b < g.length → d < g.length →
      eqImpl c g a b = true → eqImpl c g b d = true → eqImpl c g a d = true) :=
  ⟨fun a ha => eq_refl c hc g a h.wf h.nonan h.keys h.sig ha,
   fun a b ha hb => eq_symm c hc g a b h.wf h.nonan h.keys h.members h.sig ha hb,
   fun a b d ha hb hd => eq_trans c hc g a b d h.wf h.nonan h.keys h.members h.sig ha hb hd⟩

/-! ### the constructors establish the guards

`Built g`: the graph was built node by node by the constructors of the language — a leaf that is no NaN, a list /
pair / vector / struct / box over earlier nodes (lists without a shared-storage signature), `(hashset k …)` =
`mkSet` and `(hash k v …)` = `mkMap` over earlier nodes, which insert member by member with the key equality of
the code (`keyEqImpl`: same hash and `==`) and REPLACE an equal member.  No guard is assumed. -/

inductive Built : Graph → Prop
  | nil : Built []
  | node {g : Graph} (n : Node) : Built g → isHashed n = false → leafNoNaN n = true →
      (∀ xs s, n = .list xs s → s = none) → (∀ j ∈ children n, j < g.length) → Built (g ++ [n])
  | set {g : Graph} (ks : List Nat) : Built g → (∀ k ∈ ks, k < g.length) → Built (g ++ [mkSet Cfg.fixed g ks])
  | map {g : Graph} (kvs : List (Nat × Nat)) : Built g → (∀ e ∈ kvs, e.1 < g.length ∧ e.2 < g.length) →
      Built (g ++ [mkMap Cfg.fixed g kvs])

/-- every graph built by the constructors satisfies all guards: acyclic, keys of every map and members of every set
    pairwise non-`equal?` -/
theorem built_guards {g : Graph} (h : Built g) : Guards g := by
  induction h with
  | nil => exact guards_nil
  | node n _ hn hnan hsig hc ih => exact other_guards ih n hn hnan hsig hc
  | set ks _ hks ih => exact mkSet_guards ih ks hks
  | map kvs _ hks ih => exact mkMap_guards ih kvs hks

/-- **equal? is an equivalence relation on all values built by the constructors** (no guard left) -/
theorem eq_equivalence_built (g : Graph) (h : Built g) :
    (∀ a, a < g.length → eqImpl Cfg.fixed g a a = true) ∧
    (∀ a b, a < g.length → b < g.length → eqImpl Cfg.fixed g a b = eqImpl Cfg.fixed g b a) ∧
    (∀ a b d, a < g.length → b < g.length → d < g.length →
      eqImpl Cfg.fixed g a b = true → eqImpl Cfg.fixed g b d = true → eqImpl Cfg.fixed g a d = true) :=
  eq_equivalence Cfg.fixed rfl g (built_guards h)

/-- `(hashset (list 1) (list 1)' 2)` built by the constructor: the second `(1)` replaces the first, the set has two
    members — unlike the hand-written `witnessDupSet` -/
example : mkSet Cfg.fixed [.leaf (.int 1), .leaf (.int 2), .list [0] none, .list [0] none] [2, 3, 1] = .set [3, 1] := by
  decide
/-- `(hash (list 1) 1 (list 1)' 2)`: one entry, the later key object and value -/
example : mkMap Cfg.fixed [.leaf (.int 1), .leaf (.int 2), .list [0] none, .list [0] none] [(2, 0), (3, 1)] = .map [(3, 1)] := by
  decide

/-- x = #(1 (2)), y, z: three separately built copies, each with an inner list; `y`'s inner list is shared with
    a fourth value -/
def witnessTrans : Graph :=
  [.leaf (.int 1), .leaf (.int 2), .list [1] none, .list [1] none, .vec [0, 2], .mvec [0, 3], .vec [0, 3],
   .list [3, 3] none]

/-- three hash maps `{(1 2) ↦ {1 2}, 1 ↦ (1 2)}` built from separately allocated lists and sets, with the entries in
    different orders, inside lists (ids 11, 12, 13) -/
def witnessHashed : Graph :=
  [.leaf (.int 1), .leaf (.int 2), .list [0, 1] none, .list [0, 1] none, .list [0, 1] none,
   .set [0, 1], .set [1, 0], .set [0, 1],
   .map [(2, 5), (0, 2)], .map [(0, 3), (3, 6)], .map [(4, 7), (0, 4)],
   .list [8, 8] none, .list [9, 8] none, .list [10, 9] none]

/-- non-vacuity (theorems applied; every hypothesis instantiated): symmetry on the D10 witness (the two values
    differ) and through hash maps keyed by lists; transitivity over three distinct nodes, one of them a mutable
    vector, and over three lists of hash maps holding sets -/
example : eqImpl Cfg.fixed witnessD10 5 8 = eqImpl Cfg.fixed witnessD10 8 5 :=
  eq_symm _ rfl _ _ _ (by decide) (by decide) (by decide) (by decide) (by decide) (by decide) (by decide)
example : eqImpl Cfg.fixed witnessMap 8 9 = eqImpl Cfg.fixed witnessMap 9 8 :=
  eq_symm _ rfl _ _ _ (by decide) (by decide) (by decide) (by decide) (by decide) (by decide) (by decide)
example : eqImpl Cfg.fixed witnessTrans 4 6 = true :=
  eq_trans _ rfl witnessTrans 4 5 6 (by decide) (by decide) (by decide) (by decide) (by decide) (by decide)
    (by decide) (by decide) (by decide) (by decide)
example : eqImpl Cfg.fixed witnessHashed 11 13 = true :=
  eq_trans _ rfl witnessHashed 11 12 13 (by decide) (by decide) (by decide) (by decide) (by decide) (by decide)
    (by decide) (by decide) (by decide) (by decide)
example : eqImpl Cfg.fixed witnessHashed 11 12 = true ∧ eqImpl Cfg.fixed witnessHashed 12 13 = true ∧
    eqImpl Cfg.fixed witnessHashed 13 11 = true ∧ MembersDistinct witnessHashed ∧ ¬ NoHashed witnessHashed := by decide
/-- `Built` is inhabited by graphs with hash sets of lists, and the equivalence applies to them -/
example : Built ([.leaf (.int 1), .list [0] none, .list [0] none] ++
    [mkSet Cfg.fixed [.leaf (.int 1), .list [0] none, .list [0] none] [1, 2, 0]]) :=
  Built.set [1, 2, 0]
    (Built.node (.list [0] none) (Built.node (.list [0] none) (Built.node (.leaf (.int 1)) Built.nil rfl rfl
      (by intro xs s h; cases h) (by intro j hj; cases hj)) rfl rfl (by intro xs s h; cases h; rfl) (by decide))
      rfl rfl (by intro xs s h; cases h; rfl) (by decide))
    (by decide)

/-! ## hashing agrees with equality -/

/-- The full statement: values with equal unfoldings hash alike. -/
def HashRespectsEq (c : Cfg) : Prop :=
  ∀ (g : Graph) (a b : Nat), eqSpec g a b = true → hashEq c g a b = true

theorem hash_respects_eq (c : Cfg) (hc : c.sound = true) : HashRespectsEq c := by
  intro g a b h
  rw [cfg_of_sound hc]
  exact relF_spec_hash g _ _ _ h

/-- non-vacuity (theorem applied): two sets with different iteration orders inside lists; `0.0` and `-0.0` -/
example : hashEq Cfg.fixed [.leaf (.int 1), .leaf (.int 2), .set [0, 1], .set [1, 0], .list [2] none, .list [3] none] 4 5
    = true :=
  hash_respects_eq _ rfl _ _ _ (by decide)
example : hashEq Cfg.fixed [.leaf (.flt 0), .leaf (.flt (2 ^ 63))] 0 1 = true :=
  hash_respects_eq _ rfl _ _ _ (by decide)

/-- K11c: `0.0` and `-0.0` are equal but the legacy hash differs -/
theorem not_hash_respects_eq_old_zero : ¬ HashRespectsEq Cfg.legacy := by
  intro h
  have := h [.leaf (.flt 0), .leaf (.flt (2 ^ 63))] 0 1 (by decide)
  revert this
  decide

/-- K11d: two equal hash sets that iterate in different orders hash differently under the legacy hash -/
theorem not_hash_respects_eq_old_order :
    let g : Graph := [.leaf (.int 1), .leaf (.int 2), .set [0, 1], .set [1, 0]]
    eqSpec g 2 3 = true ∧ hashEq Cfg.legacy g 2 3 = false := by decide

/-- K11e: a mutable and an immutable vector with equal elements hash differently under the legacy hash -/
theorem not_hash_respects_eq_old_vec :
    let g : Graph := [.leaf (.int 1), .vec [0], .mvec [0]]
    eqSpec g 1 2 = true ∧ hashEq Cfg.legacy g 1 2 = false := by decide

example : let g : Graph := [.leaf (.int 1), .leaf (.int 2), .set [0, 1], .set [1, 0], .vec [0], .mvec [0],
                            .leaf (.flt 0), .leaf (.flt (2 ^ 63))]
    hashEq Cfg.fixed g 2 3 = true ∧ hashEq Cfg.fixed g 4 5 = true ∧ hashEq Cfg.fixed g 6 7 = true := by decide

/-- **Keys are interchangeable**: `HashMap::get` / `HashSet::contains` with query `k` finds the stored
    key `k'` exactly when the two have equal unfoldings. -/
theorem keys_interchangeable (c : Cfg) (hc : c.sound = true) (g : Graph) (k k' : Nat) (hwf : WF g)
    (hn : NoNaN g) (hkd : KeysDistinct g) (hsig : ListSigOK g) (hk : k < g.length) :
    keyEqImpl c g k k' = eqSpec g k k' := by
  unfold keyEqImpl
  rw [eq_structural c hc g k k' hwf hn hkd hsig hk]
  cases hs : eqSpec g k k'
  · simp
  · simp [hash_respects_eq c hc g k k' hs]

/-- non-vacuity (theorem applied): in `witnessMap` the lists 2 and 3 are two objects with equal elements: either
    finds the other as a stored key; the leaf 0 does not -/
example : keyEqImpl Cfg.fixed witnessMap 2 3 = true :=
  (keys_interchangeable _ rfl witnessMap 2 3 (by decide) (by decide) (by decide) (by decide) (by decide)).trans
    (by decide)
example : keyEqImpl Cfg.fixed witnessMap 2 0 = false :=
  (keys_interchangeable _ rfl witnessMap 2 0 (by decide) (by decide) (by decide) (by decide) (by decide)).trans
    (by decide)

/-! ## hash maps and hash sets keyed by values: finite maps whose keys are taken modulo `equal?`

`gmGet` / `gmInsert` / `gmRemove` (Model.lean) are `HashMap::get/insert/remove` on an entry list with the key equality of
the code (`keyEqImpl`: same hash and `==`); the keys are nodes of a value graph — numbers, strings, lists, vectors, sets,
maps, with any sharing.  `KeysOK` is the representation invariant (stored keys pairwise non-`equal?`), established by
the empty map and preserved by every operation. -/

/-- on a graph that satisfies the guards the key equality of the code is an equivalence relation: it IS `eqSpec` -/
theorem keyRel_of_guards {g : Graph} (h : Guards g) : KeyRel (· < g.length) (keyEqImpl Cfg.fixed g) := by
  have hs : ∀ a b, a < g.length → keyEqImpl Cfg.fixed g a b = eqSpec g a b := fun a b ha =>
    keyEq_fixed_spec h.wf h.nonan h.keys h.sig ha b
  constructor
  · intro a b ha hb
    rw [hs a b ha, hs b a hb]
    exact spec_symm_full h.wf h.keys h.members a b ha hb
  · intro a b c ha hb hc h1 h2
    rw [hs a b ha] at h1
    rw [hs b c hb] at h2
    rw [hs a c ha]
    exact spec_trans_full h.wf h.keys h.members a b c ha hb hc h1 h2

section Keyed
variable {ν : Type}

/-- **equal? keys are interchangeable** in a hash map however it was built: a lookup with `k'` answers what a lookup
    with `k` answers whenever the two have equal unfoldings — keys that are themselves collections included -/
theorem keyed_map_interchangeable {g : Graph} (h : Guards g) (es : List (Nat × ν))
    (hes : KeysOK (· < g.length) (keyEqImpl Cfg.fixed g) es) (k k' : Nat) (hk : k < g.length) (hk' : k' < g.length)
    (heq : eqSpec g k k' = true) :
    gmGet (keyEqImpl Cfg.fixed g) es k = gmGet (keyEqImpl Cfg.fixed g) es k' :=
  gmGet_congr (keyRel_of_guards h) hes hk hk'
    (by rw [keyEq_fixed_spec h.wf h.nonan h.keys h.sig hk k']; exact heq)

/-- `(hash-ref (hash-insert m k v) k')`: the new value exactly when `k'` is `equal?` to `k` -/
theorem keyed_map_get_insert {g : Graph} (h : Guards g) (es : List (Nat × ν))
    (hes : KeysOK (· < g.length) (keyEqImpl Cfg.fixed g) es) (k k' : Nat) (v : ν) (hk : k < g.length) (hk' : k' < g.length) :
    gmGet (keyEqImpl Cfg.fixed g) (gmInsert (keyEqImpl Cfg.fixed g) es k v) k' =
      if eqSpec g k' k = true then some v else gmGet (keyEqImpl Cfg.fixed g) es k' := by
  rw [gmGet_insert (keyRel_of_guards h) hes v hk hk', keyEq_fixed_spec h.wf h.nonan h.keys h.sig hk' k]

/-- `(hash-ref (hash-remove m k) k')` -/
theorem keyed_map_get_remove {g : Graph} (h : Guards g) (es : List (Nat × ν))
    (hes : KeysOK (· < g.length) (keyEqImpl Cfg.fixed g) es) (k k' : Nat) (hk : k < g.length) (hk' : k' < g.length) :
    gmGet (keyEqImpl Cfg.fixed g) (gmRemove (keyEqImpl Cfg.fixed g) es k) k' =
      if eqSpec g k' k = true then none else gmGet (keyEqImpl Cfg.fixed g) es k' := by
  rw [gmGet_remove (keyRel_of_guards h) hes hk hk', keyEq_fixed_spec h.wf h.nonan h.keys h.sig hk' k]

/-- `hash-length` after `hash-insert`: an `equal?` key is replaced, not added -/
theorem keyed_map_length_insert {g : Graph} (h : Guards g) (es : List (Nat × ν))
    (hes : KeysOK (· < g.length) (keyEqImpl Cfg.fixed g) es) (k : Nat) (v : ν) (hk : k < g.length) :
    (gmInsert (keyEqImpl Cfg.fixed g) es k v).length =
      if gmContains (keyEqImpl Cfg.fixed g) es k then es.length else es.length + 1 :=
  gmInsert_length (keyRel_of_guards h) hes v hk

/-- the invariant: true of the empty map, kept by `hash-insert` and `hash-remove` -/
theorem keyed_map_invariant {g : Graph} (h : Guards g) (es : List (Nat × ν))
    (hes : KeysOK (· < g.length) (keyEqImpl Cfg.fixed g) es) (k : Nat) (v : ν) (hk : k < g.length) :
    KeysOK (· < g.length) (keyEqImpl Cfg.fixed g) ([] : List (Nat × ν)) ∧
    KeysOK (· < g.length) (keyEqImpl Cfg.fixed g) (gmInsert (keyEqImpl Cfg.fixed g) es k v) ∧
    KeysOK (· < g.length) (keyEqImpl Cfg.fixed g) (gmRemove (keyEqImpl Cfg.fixed g) es k) :=
  ⟨keysOK_nil, keysOK_insert (keyRel_of_guards h) hes v hk, keysOK_remove hes k⟩

/-- `(hash k1 v1 k2 v2 …)` IS the fold of `hash-insert`, and a lookup in it finds the value of the LAST argument key that is
    `equal?` to the query (duplicate keys that are different objects included) -/
theorem keyed_map_ofList_last_wins {g : Graph} (h : Guards g) (kvs : List (Nat × Nat))
    (hks : ∀ e ∈ kvs, e.1 < g.length) (k : Nat) (hk : k < g.length) :
    mkMap Cfg.fixed g kvs = .map (kvs.foldl (fun m e => gmInsert (keyEqImpl Cfg.fixed g) m e.1 e.2) []) ∧
    gmGet (keyEqImpl Cfg.fixed g) (kvs.foldl (fun m e => gmInsert (keyEqImpl Cfg.fixed g) m e.1 e.2) []) k =
      (kvs.reverse.find? fun e => eqSpec g k e.1).map Prod.snd := by
  refine ⟨rfl, ?_⟩
  rw [gmGet_foldl (keyRel_of_guards h) kvs [] keysOK_nil hks k hk]
  have : (fun e : Nat × Nat => keyEqImpl Cfg.fixed g k e.1) = (fun e => eqSpec g k e.1) := by
    funext e; exact keyEq_fixed_spec h.wf h.nonan h.keys h.sig hk e.1
  rw [this]
  cases kvs.reverse.find? (fun e => eqSpec g k e.1) <;> simp [gmGet]

/-- `hash-union` of two maps keyed by values, as `imbl` computes it (the larger map mutated): left-biased modulo `equal?` -/
theorem keyed_map_union {g : Graph} (h : Guards g) (l r : List (Nat × ν))
    (hl : KeysOK (· < g.length) (keyEqImpl Cfg.fixed g) l) (hr : KeysOK (· < g.length) (keyEqImpl Cfg.fixed g) r)
    (q : Nat) (hq : q < g.length) :
    gmGet (keyEqImpl Cfg.fixed g) (gmUnion (keyEqImpl Cfg.fixed g) l r) q =
      (match gmGet (keyEqImpl Cfg.fixed g) l q with
       | some v => some v
       | none => gmGet (keyEqImpl Cfg.fixed g) r q) ∧
    KeysOK (· < g.length) (keyEqImpl Cfg.fixed g) (gmUnion (keyEqImpl Cfg.fixed g) l r) :=
  gmUnion_laws (keyRel_of_guards h) hl hr hq

/-- hash SETS keyed by values (`setInsertIds` = `HashSet::insert`, `xs.any (keyEq q)` = `HashSet::contains`):
    `(hashset-contains? (hashset-insert s k) k')`, members `equal?` to each other are interchangeable, `hashset-length`
    counts values modulo `equal?`, and the invariant (members pairwise non-`equal?`) holds of the empty set and is kept -/
theorem keyed_set_laws {g : Graph} (h : Guards g) (xs : List Nat)
    (hxs : MembersOK (· < g.length) (keyEqImpl Cfg.fixed g) xs) (k k' : Nat) (hk : k < g.length) (hk' : k' < g.length) :
    ((setInsertIds (keyEqImpl Cfg.fixed g) xs k).any (keyEqImpl Cfg.fixed g k') =
        (eqSpec g k' k || xs.any (keyEqImpl Cfg.fixed g k'))) ∧
    (eqSpec g k k' = true → xs.any (keyEqImpl Cfg.fixed g k) = xs.any (keyEqImpl Cfg.fixed g k')) ∧
    ((setInsertIds (keyEqImpl Cfg.fixed g) xs k).length =
        if xs.any (keyEqImpl Cfg.fixed g k) then xs.length else xs.length + 1) ∧
    MembersOK (· < g.length) (keyEqImpl Cfg.fixed g) [] ∧
    MembersOK (· < g.length) (keyEqImpl Cfg.fixed g) (setInsertIds (keyEqImpl Cfg.fixed g) xs k) := by
  have hr := keyRel_of_guards h
  refine ⟨?_, ?_, gsInsert_length hr hxs hk, membersOK_nil, membersOK_insert hr hxs hk⟩
  · rw [gsContains_insert hr hxs hk hk', keyEq_fixed_spec h.wf h.nonan h.keys h.sig hk' k]
  · intro heq
    exact gsContains_congr hr hxs hk hk' (by rw [keyEq_fixed_spec h.wf h.nonan h.keys h.sig hk k']; exact heq)

/-- **the set algebra on members that are values** (collections included): `hashset-union`, `hashset-intersection`,
    `hashset-difference` (the symmetric difference) as `imbl` computes them — the larger set mutated, members removed or
    inserted one by one with the key equality of the code — have the membership functions of union, intersection and
    symmetric difference MODULO `equal?`, keep the invariant, and `hashset-subset?` is inclusion of the membership functions -/
theorem keyed_set_algebra {g : Graph} (h : Guards g) (a b : List Nat)
    (ha : MembersOK (· < g.length) (keyEqImpl Cfg.fixed g) a) (hb : MembersOK (· < g.length) (keyEqImpl Cfg.fixed g) b)
    (q : Nat) (hq : q < g.length) :
    let r := keyEqImpl Cfg.fixed g
    ((gsUnion r a b).any (r q) = (a.any (r q) || b.any (r q)) ∧ MembersOK (· < g.length) r (gsUnion r a b)) ∧
    ((gsInter r a b).any (r q) = (a.any (r q) && b.any (r q)) ∧ MembersOK (· < g.length) r (gsInter r a b)) ∧
    ((gsSymDiff r a b).any (r q) = (a.any (r q) != b.any (r q)) ∧ MembersOK (· < g.length) r (gsSymDiff r a b)) ∧
    (gsSubset r a b = true ↔ ∀ q, q < g.length → a.any (r q) = true → b.any (r q) = true) := by
  have hr := keyRel_of_guards h
  have hrefl : ∀ x, x < g.length → keyEqImpl Cfg.fixed g x x = true := fun x hx => by
    rw [keyEq_fixed_spec h.wf h.nonan h.keys h.sig hx x]
    exact spec_refl h.wf h.nonan h.keys x hx
  exact ⟨gsUnion_laws hr ha hb hq, gsInter_laws hr ha hb hq, gsSymDiff_laws hr ha hb hq, gsSubset_iff hr hrefl ha hb⟩

end Keyed

/-- non-vacuity (theorems applied): in `witnessMap` the lists 2 and 3 are two objects `(1 2)`; a value stored under one is
    found under the other, and storing under the other replaces it -/
example : gmGet (keyEqImpl Cfg.fixed witnessMap) (gmInsert (keyEqImpl Cfg.fixed witnessMap) [] 2 (7 : Int)) 3 = some 7 :=
  (keyed_map_get_insert ⟨by decide, by decide, by decide, by decide, by decide⟩ [] keysOK_nil 2 3 7 (by decide) (by decide)).trans
    (by decide)
example : gmGet (keyEqImpl Cfg.fixed witnessMap)
    ([(2, 0), (0, 1), (3, 1)].foldl (fun m e => gmInsert (keyEqImpl Cfg.fixed witnessMap) m e.1 e.2) []) 2 = some 1 :=
  ((keyed_map_ofList_last_wins ⟨by decide, by decide, by decide, by decide, by decide⟩ [(2, 0), (0, 1), (3, 1)]
    (by decide) 2 (by decide)).2).trans (by decide)
/-- `{(1 2) ↦ 7}` ∪ `{(1 2)' ↦ 8, 1 ↦ 9}`: the larger RIGHT map is mutated and still the left value wins -/
example : gmUnion (keyEqImpl Cfg.fixed witnessMap) [(2, (7 : Int))] [(3, 8), (0, 9)] = [(0, 9), (2, 7)] := by decide
/-- `{(1 2)}` ∪ / ∩ / Δ `{(1 2)', 1}` with two different list objects `(1 2)`: one member / one member / the leaf only -/
example : gsUnion (keyEqImpl Cfg.fixed witnessMap) [2] [3, 0] = [0, 2] ∧ gsInter (keyEqImpl Cfg.fixed witnessMap) [2] [3, 0] = [3] ∧
    gsSymDiff (keyEqImpl Cfg.fixed witnessMap) [2] [3, 0] = [0] ∧ gsSubset (keyEqImpl Cfg.fixed witnessMap) [2] [3, 0] = true ∧
    gsSubset (keyEqImpl Cfg.fixed witnessMap) [3, 0] [2] = false := by decide
example : (setInsertIds (keyEqImpl Cfg.fixed witnessMap) [2] 3).length = 1 :=
  ((keyed_set_laws ⟨by decide, by decide, by decide, by decide, by decide⟩ [2]
    (membersOK_insert (keyRel_of_guards ⟨by decide, by decide, by decide, by decide, by decide⟩) membersOK_nil (by decide))
    3 2 (by decide) (by decide)).2.2.1).trans (by decide)
example : (gmInsert (keyEqImpl Cfg.fixed witnessMap) (gmInsert (keyEqImpl Cfg.fixed witnessMap) [] 2 (7 : Int)) 3 8).length = 1 ∧
    gmGet (keyEqImpl Cfg.fixed witnessMap) (gmInsert (keyEqImpl Cfg.fixed witnessMap) (gmInsert (keyEqImpl Cfg.fixed witnessMap) [] 2 (7 : Int)) 3 8) 2
      = some 8 := by decide

/-! ## collections behave as finite maps, finite sets and sequences -/

section Collections
open Coll
variable {κ ν α : Type} [DecidableEq κ]

/-- `(hash-try-get (hash-insert m k v) k')` -/
theorem map_get_insert (m : M κ ν) (k k' : κ) (v : ν) :
    mTryGet (mInsert m k v) k' = if k' = k then some v else mTryGet m k' :=
  Coll.tryGet_insert m k k' v

/-- `(hash-ref (hash-insert m k v) k')`: the inserted value, otherwise what was there (or an error) -/
theorem map_ref_insert (m : M κ ν) (k k' : κ) (v : ν) :
    mRef (mInsert m k v) k' = if k' = k then .ok v else mRef m k' := by
  unfold mRef
  rw [map_get_insert]
  by_cases h : k' = k <;> simp [h]

/-- `(hash-try-get (hash-remove m k) k')` -/
theorem map_get_remove (m : M κ ν) (k k' : κ) :
    mTryGet (mRemove m k) k' = if k' = k then none else mTryGet m k' :=
  Coll.tryGet_remove m k k'

/-- `hash-ref` of a missing key is an error, of a present key its value -/
theorem map_ref_err_iff (m : M κ ν) (k : κ) : mRef m k = .err ↔ mContains m k = false :=
  Coll.ref_err_iff m k

theorem map_contains_insert (m : M κ ν) (k k' : κ) (v : ν) :
    mContains (mInsert m k v) k' = (decide (k' = k) || mContains m k') :=
  Coll.contains_insert m k k' v

/-- `hash-length` after `hash-insert`: grows by one exactly when the key is new (duplicates collapse) -/
theorem map_length_insert (m : M κ ν) (k : κ) (v : ν) (h : mNodup m) :
    mLength (mInsert m k v) = if mContains m k then mLength m else mLength m + 1 :=
  Coll.length_insert m k v h

theorem map_length_remove (m : M κ ν) (k : κ) (h : mNodup m) :
    mLength (mRemove m k) = if mContains m k then mLength m - 1 else mLength m :=
  Coll.length_remove m k h

/-- the representation invariant is preserved, and `(hash k v …)` establishes it -/
theorem map_nodup_insert (m : M κ ν) (k : κ) (v : ν) (h : mNodup m) : mNodup (mInsert m k v) :=
  Coll.nodup_insert m k v h
theorem map_nodup_remove (m : M κ ν) (k : κ) (h : mNodup m) : mNodup (mRemove m k) :=
  Coll.nodup_remove m k h
theorem map_nodup_ofList (kvs : List (κ × ν)) : mNodup (mOfList kvs) := Coll.nodup_ofList kvs

/-- duplicate keys in `(hash k1 v1 k2 v2 …)`: the last binding wins -/
theorem map_ofList_last_wins (kvs : List (κ × ν)) (k : κ) :
    mTryGet (mOfList kvs) k = (kvs.reverse.find? fun e => e.1 == k).map Prod.snd :=
  Coll.tryGet_ofList kvs k

/-- `(hash-union l r)`: a finite-map union in which, for a key of both, the value of the LEFT map wins -/
theorem map_get_union (l r : M κ ν) (k : κ) :
    mTryGet (mUnion l r) k = match mTryGet l k with | some v => some v | none => mTryGet r k :=
  Coll.tryGet_union l r k

example : mRef (mUnion [((1 : Int), (2 : Int))] [(1, 3), (4, 5)]) 1 = .ok 2 ∧ mRef (mUnion [((1 : Int), (2 : Int))] [(1, 3), (4, 5)]) 4 = .ok 5 := by decide

example : mRef (mOfList [((1 : Int), (2 : Int)), (1, 3)]) 1 = .ok 3 ∧ mLength (mOfList [((1 : Int), (2 : Int)), (1, 3)]) = 1
    ∧ mRef (mOfList [((1 : Int), (2 : Int))]) 5 = .err := by decide

/-- `hashset-contains?` after `hashset-insert` -/
theorem set_contains_insert (s : S κ) (k k' : κ) :
    sContains (sInsert s k) k' = (decide (k' = k) || sContains s k') := Coll.sContains_insert s k k'

/-- inserting twice is inserting once -/
theorem set_insert_idem (s : S κ) (k : κ) : sInsert (sInsert s k) k = sInsert s k :=
  Coll.sInsert_idem s k

theorem set_length_insert (s : S κ) (k : κ) :
    sLength (sInsert s k) = if sContains s k then sLength s else sLength s + 1 := Coll.sLength_insert s k

/-- `(hashset k …)`: duplicates collapse, membership is membership in the argument list -/
theorem set_contains_ofList (ks : List κ) (k : κ) : sContains (sOfList ks) k = ks.contains k :=
  Coll.sContains_ofList ks k
theorem set_nodup_ofList (ks : List κ) : (sOfList ks).Nodup := Coll.sNodup_ofList ks

/-- `hashset-union`, `hashset-intersection`, `hashset-difference` (documented as the symmetric difference) -/
theorem set_contains_union (s t : S κ) (k : κ) : sContains (sUnion s t) k = (sContains s k || sContains t k) :=
  Coll.sContains_union s t k
theorem set_contains_inter (s t : S κ) (k : κ) : sContains (sInter s t) k = (sContains s k && sContains t k) :=
  Coll.sContains_inter s t k
theorem set_contains_symdiff (s t : S κ) (k : κ) : sContains (sSymDiff s t) k = (sContains s k != sContains t k) :=
  Coll.sContains_symDiff s t k

example : sLength (sOfList [(1 : Int), 1, 2]) = 2 ∧ sContains (sOfList [(1 : Int), 1, 2]) 3 = false := by decide

/-- `list-ref` / `vector-ref` / `string-ref` / `bytes-ref`: an error exactly outside `0 ≤ i < length` -/
theorem ref_err_iff (l : List α) (i : Int) : lRef l i = .err ↔ (i < 0 ∨ (l.length : Int) ≤ i) :=
  Coll.lRef_err_iff l i

theorem ref_ok (l : List α) (n : Nat) (h : n < l.length) : lRef l (n : Int) = .ok l[n] :=
  Coll.lRef_ok l n h

/-- `vector-set!` / `bytes-set!`: an error exactly outside the bounds (`index == length` included) -/
theorem set_err_iff (v : List α) (i : Int) (x : α) : vSet v i x = .err ↔ (i < 0 ∨ (v.length : Int) ≤ i) :=
  Coll.vSet_err_iff v i x

/-- reading after writing -/
theorem ref_set (v v' : List α) (i j : Int) (x : α) (h : vSet v i x = .ok v') :
    vRef v' j = if j = i then .ok x else vRef v j := Coll.vRef_vSet v v' i j x h

theorem set_length (v v' : List α) (i : Int) (x : α) (h : vSet v i x = .ok v') : v'.length = v.length :=
  Coll.vSet_length v v' i x h

theorem push_ref (v : List α) (x : α) : vRef (vPush v x) (v.length : Int) = .ok x ∧ (vPush v x).length = v.length + 1 :=
  Coll.vPush_ref v x

/-- `first`/`rest` of the empty list are errors; otherwise they split the list -/
theorem first_rest (l : List α) :
    (l = [] → lFirst l = .err ∧ lRest l = .err) ∧
    (∀ x t, l = x :: t → lFirst l = .ok x ∧ lRest l = .ok t) := by
  constructor
  · intro h; subst h; exact ⟨rfl, rfl⟩
  · intro x t h; subst h; exact ⟨rfl, rfl⟩

/-- `take` and `list-tail` at the same position split the list; `list-tail` beyond the end is an error,
    `take` beyond the end takes everything -/
theorem take_tail (l : List α) (n : Int) :
    (lTail l n = .err ↔ (n < 0 ∨ (l.length : Int) < n)) ∧
    (∀ t h, lTail l n = .ok t → lTake l n = .ok h → h ++ t = l) ∧
    ((l.length : Int) ≤ n → lTake l n = .ok l) := Coll.take_tail l n

/-- `substring`: defined exactly for `0 ≤ i ≤ j ≤ length`, and then it has `j - i` characters -/
theorem substring_spec (s : List Char) (i j : Int) :
    (strSub s i j = .err ↔ (i < 0 ∨ j < i ∨ (s.length : Int) < j)) ∧
    (∀ t, strSub s i j = .ok t → (t.length : Int) = j - i) := Coll.strSub_spec s i j

/-- byte vectors hold bytes: construction and update with a value outside 0..255 is an error -/
theorem bytes_range (xs : List Int) (i x : Int) :
    (bMake xs = .err ↔ ∃ y ∈ xs, y < 0 ∨ 255 < y) ∧ ((x < 0 ∨ 255 < x) → bSet xs i x = .err) :=
  Coll.bytes_range xs i x

example : vSet [(1 : Int), 2] 2 0 = .err ∧ vSet [(1 : Int), 2] 1 9 = .ok [1, 9] ∧ lRef [(1 : Int), 2] (-1) = .err
    ∧ lTail [(1 : Int), 2, 3] 4 = .err ∧ lTake [(1 : Int), 2, 3] 5 = .ok [1, 2, 3]
    ∧ strSub ['a', 'b', 'c'] 1 3 = .ok ['b', 'c'] ∧ strSub ['a', 'b', 'c'] 0 4 = .err
    ∧ bSet [1, 2] 0 256 = .err ∧ bSet [1, 2] 2 1 = .err := by decide

/-- non-vacuity of the laws with hypotheses (applied), and of the others on values with a key collision, a
    removed key, a key that is absent, and boundary indices -/
example : mLength (mInsert [((1 : Int), (2 : Int)), (3, 4)] 3 9) = 2 ∧ mLength (mInsert [((1 : Int), (2 : Int)), (3, 4)] 5 9) = 3 :=
  ⟨(map_length_insert _ _ _ (by unfold mNodup; decide)).trans (by decide), (map_length_insert _ _ _ (by unfold mNodup; decide)).trans (by decide)⟩
example : mLength (mRemove [((1 : Int), (2 : Int)), (3, 4)] 3) = 1 ∧ mLength (mRemove [((1 : Int), (2 : Int)), (3, 4)] 5) = 2 :=
  ⟨(map_length_remove _ _ (by unfold mNodup; decide)).trans (by decide), (map_length_remove _ _ (by unfold mNodup; decide)).trans (by decide)⟩
example : mNodup (mInsert [((1 : Int), (2 : Int)), (3, 4)] 3 9) ∧ mNodup (mRemove [((1 : Int), (2 : Int)), (3, 4)] 1) :=
  ⟨map_nodup_insert _ _ _ (by unfold mNodup; decide), map_nodup_remove _ _ (by unfold mNodup; decide)⟩
example : lRef [(10 : Int), 20, 30] ((2 : Nat) : Int) = .ok 30 := ref_ok _ 2 (by decide)
example : vRef [(1 : Int), 9] 1 = .ok 9 ∧ vRef [(1 : Int), 9] 0 = .ok 1 :=
  ⟨(ref_set [1, 2] [1, 9] 1 1 9 (by decide)).trans (by decide), (ref_set [1, 2] [1, 9] 1 0 9 (by decide)).trans (by decide)⟩
example : ([(1 : Int), 9]).length = ([(1 : Int), 2]).length := set_length [1, 2] [1, 9] 1 9 (by decide)
example : mTryGet (mInsert [((1 : Int), (2 : Int)), (3, 4)] 3 9) 3 = some 9 ∧ mTryGet (mInsert [((1 : Int), (2 : Int)), (3, 4)] 3 9) 1 = some 2
    ∧ mTryGet (mRemove [((1 : Int), (2 : Int)), (3, 4)] 3) 3 = none ∧ mRef (mRemove [((1 : Int), (2 : Int)), (3, 4)] 3) 1 = .ok 2
    ∧ mContains (mInsert [((1 : Int), (2 : Int))] 7 0) 7 = true ∧ mContains (mInsert [((1 : Int), (2 : Int))] 7 0) 8 = false
    ∧ sContains (sInsert [(1 : Int), 2] 2) 2 = true ∧ sLength (sInsert [(1 : Int), 2] 2) = 2 ∧ sLength (sInsert [(1 : Int), 2] 3) = 3
    ∧ sContains (sUnion [(1 : Int), 2] [2, 3]) 3 = true ∧ sContains (sInter [(1 : Int), 2] [2, 3]) 1 = false
    ∧ sContains (sSymDiff [(1 : Int), 2] [2, 3]) 2 = false ∧ sContains (sSymDiff [(1 : Int), 2] [2, 3]) 3 = true
    ∧ vRef (vPush [(1 : Int), 2] 7) 2 = .ok 7 ∧ lFirst ([] : List Int) = .err ∧ lRest [(1 : Int)] = .ok []
    ∧ bMake [0, 255] = .ok [0, 255] ∧ bMake [0, 256] = .err := by decide

end Collections

/-! ## the Rust primitives refine the mathematical models

`Prim.lean` is a model P of the primitives themselves (argument conversions, checks in the order of the code, the
loops of `drop` / `append` / `range`, `bounds` with its byte offsets, `imbl`'s size-directed `union`,
`symmetric_difference`, `intersection`, the four ownership branches of `hm_union`); `Coll.*` is the mathematical
model S the laws above are about.  The operation language `Op` is the one the correspondence run speaks. -/

/-- **Any sequence of collection operations on the model of the primitives yields what the same sequence yields on
    the mathematical sequence / finite map / finite set** — answer by answer (errors included), unordered results
    (keys, values, members, map contents) up to permutation.  For all sequences, all arguments. -/
theorem prim_refines (ops : List Op) : AnsSeqRel (runP ops) (runS ops) :=
  run_refines_from ops {} {} stRel_init

/-- and the registers stay related: after any prefix the P hash map has the lookup function of the S map, the P set
    the members of the S set, the sequences are equal -/
theorem prim_refines_state (p s : St) (h : StRel p s) (op : Op) : StRel (stepP p op).1 (stepS s op).1 :=
  (step_refines p s h op).1

/-- `hash-union` is left-biased under EVERY ownership pattern of its arguments and whichever map `imbl` decides to
    mutate (seeded defect m3 swapped the operands in one branch) -/
theorem hash_union_left_biased (ul ur : Bool) (l r : List (Int × Int)) (hl : Coll.mNodup l) (k : Int) :
    Prim.hmGet (Prim.hmUnion ul ur l r) k = match Prim.hmGet l k with | some v => some v | none => Prim.hmGet r k := by
  rw [hmUnion_eq, hmGet_eq, get_imblUnion l r hl k, hmGet_eq, hmGet_eq]
  cases Coll.mTryGet l k <;> rfl

/-- `substring` / `string->list` on arbitrary Unicode: turning character indices into byte offsets and slicing the
    bytes = dropping and taking characters; an error exactly outside `0 ≤ i ≤ j ≤ length` (`substring_spec`) -/
theorem substring_char_indices (s : List Char) (i j : Int) : Prim.substring s i (some j) = Coll.strSub s i j :=
  substring_eq s i (some j)

/-- `string-ref` compares the index with the BYTE length first; that never rejects a valid character index -/
theorem string_ref_char_index (s : List Char) (i : Int) : Prim.stringRef s i = Coll.strRef s i := stringRef_eq s i

/-- `(drop l n)` (a `cdr` loop in `stdlib.scm`) and `(list-tail l n)` agree, errors included -/
theorem drop_is_list_tail (l : List Int) (n : Int) : Prim.drop l n = Prim.listTail l n := by
  rw [drop_eq, listTail_eq]; rfl

/-- n-ary `append` (with its special case for an empty first list) concatenates -/
theorem append_flatten (xss : List (List Int)) : Prim.append xss = xss.flatten := append_eq xss

section MoreLaws
open Coll
variable {κ ν α : Type} [DecidableEq κ]

/-- `last` of a list that ends in `x`; of the empty list an error -/
theorem last_append_singleton (l : List α) (x : α) : lLast (l ++ [x]) = .ok x ∧ lLast ([] : List α) = .err := by
  constructor
  · simp [lLast]
  · rfl

/-- `(range lo hi)`: `hi - lo` elements, the i-th is `lo + i`; empty when `hi ≤ lo` -/
theorem range_spec (lo hi : Int) (hlo : 0 ≤ lo) (hhi : 0 ≤ hi) :
    ∃ l, lRange lo hi = .ok l ∧ l.length = (hi - lo).toNat ∧ ∀ i, i < l.length → l[i]? = some (lo + (i : Int)) := by
  refine ⟨(List.range (hi - lo).toNat).map fun (i : Nat) => lo + (i : Int), ?_, by simp, ?_⟩
  · unfold lRange
    have : ¬ (lo < 0 ∨ hi < 0) := by omega
    simp [this]
  · intro i hi'
    simp only [List.length_map, List.length_range] at hi'
    simp [hi']

/-- `hash-keys->list`: every key once, and exactly the keys `hash-contains?` answers for; `hash-values->list` has the
    same length -/
theorem keys_spec (m : M κ ν) (h : mNodup m) :
    (mKeys m).Nodup ∧ (∀ k, k ∈ mKeys m ↔ mContains m k = true) ∧ (mValues m).length = (mKeys m).length :=
  ⟨h, fun k => (Coll.contains_iff_mem m k).symm, by simp [mValues, mKeys]⟩

/-- `hashset-subset?` is the subset relation of the membership functions -/
theorem subset_spec (s t : S κ) : sSubset s t = true ↔ ∀ k, sContains s k = true → sContains t k = true := by
  unfold sSubset sContains
  rw [List.all_eq_true]
  constructor
  · intro h k hk; exact h k (List.contains_iff_mem.mp hk)
  · intro h k hk; exact h k (List.contains_iff_mem.mpr hk)

/-- `reverse` is an involution that keeps the length; `append` adds the lengths and is associative (n-ary append) -/
theorem reverse_append_laws (a b c : List α) :
    a.reverse.reverse = a ∧ a.reverse.length = a.length ∧ (a ++ b).length = a.length + b.length ∧
    [a, b, c].flatten = a ++ (b ++ c) ∧ (a ++ b).reverse = b.reverse ++ a.reverse := by
  simp

end MoreLaws

/-- non-vacuity of `prim_refines` (theorem applied) on a sequence with a duplicate key, a union in which the
    consumed map is the register (`imbl` mutates the literal), boundary indices, a non-ASCII substring and errors;
    the answers of P, evaluated -/
def witnessOps : List Op :=
  [.mNew [1, 2, 1] [10, 20, 30], .mUnion true false true [1, 3, 4] [100, 30, 40], .mRef 1, .mRef 9, .mLen,
   .sNew [1, 1, 2], .sDiff true [2, 3], .sSubset true [1, 3, 5], .sLen,
   .lNew [1, 2, 3], .lDrop 3, .lDrop 1, .lRange 2 5, .lAppend [[], [7]] [[], [8, 9]], .lLast, .lTail 7,
   .vNew [1, 2], .vSet 2 0, .vSet 1 9, .vRef (-1),
   .bNew [0, 255], .bSet 1 256, .bPush 7, .bNew [256],
   .tNew ['h', 'é', 'λ', '😀', 'x'], .tSub 1 (some 4), .tRef 2, .tSub 2 (some 5), .tToList none none]

example : AnsSeqRel (runP witnessOps) (runS witnessOps) := prim_refines witnessOps

example : runP witnessOps =
    [.map [(2, 20), (1, 30)], .map [(3, 30), (4, 40), (2, 20), (1, 30)], .int 30, .err, .int 4,
     .bag [1, 2], .bag [1, 3], .bool true, .int 2,
     .seq [1, 2, 3], .seq [], .err, .seq [2, 3, 4], .seq [7, 2, 3, 4, 8, 9], .int 9, .err,
     .seq [1, 2], .err, .seq [1, 9], .err,
     .seq [0, 255], .err, .seq [0, 255, 7], .err,
     .str ['h', 'é', 'λ', '😀', 'x'], .str ['é', 'λ', '😀'], .chr '😀', .err, .str ['é', 'λ', '😀']] := by decide
/-- immutable vectors: `take` / `drop` beyond the length are not errors (in either ownership branch), `set` at the length is -/
example : runP [.iNew [1, 2, 3], .iTake true 5, .iTake false 5, .iDrop false 5, .iSet true 0 1, .iNew [1, 2], .iDrop true 5, .iNew [1, 2],
      .iSet false 2 9, .iRest, .iRef 1] =
    [.seq [1, 2, 3], .seq [1, 2, 3], .seq [1, 2, 3], .seq [], .err, .seq [1, 2], .seq [], .seq [1, 2], .err, .seq [2], .err] := by decide
/-- the mathematical model gives the same answers, the unordered ones in another order -/
example : runS witnessOps =
    [.map [(1, 30), (2, 20)], .map [(1, 30), (2, 20), (4, 40), (3, 30)], .int 30, .err, .int 4,
     .bag [2, 1], .bag [1, 3], .bool true, .int 2,
     .seq [1, 2, 3], .seq [], .err, .seq [2, 3, 4], .seq [7, 2, 3, 4, 8, 9], .int 9, .err,
     .seq [1, 2], .err, .seq [1, 9], .err,
     .seq [0, 255], .err, .seq [0, 255, 7], .err,
     .str ['h', 'é', 'λ', '😀', 'x'], .str ['é', 'λ', '😀'], .chr '😀', .err, .str ['é', 'λ', '😀']] := by decide

/-! ## Clauses of the property not carried by a theorem -/

/-
What the theorems say, read together.  (1) On every ACYCLIC value graph over the modelled kinds (integers,
floats by bit pattern, booleans, characters, strings, symbols, void, rationals, byte vectors; lists, pairs,
immutable and mutable vectors, structs, boxes, hash maps, hash sets), with arbitrary nesting and arbitrary
sharing, without NaN, with pairwise different map keys and under the assumption `ListSigOK` about list
identities, the model of the worklist `equal?` of the fixed configuration equals equality of the unfoldings
(`eq_structural`); it is an EQUIVALENCE RELATION, through hash maps and hash sets as well (`eq_refl`, `eq_symm`,
`eq_trans`, `eq_equivalence`; the extra guard "set members pairwise different" is needed —
`eq_symm_fails_without_distinct_members` — and is what the constructors establish: `built_guards`, so that on every
graph BUILT by the constructors no guard is left, `eq_equivalence_built`); with NaN the two documented facts are theorems
for every graph (`nan_equal_nothing`, `container_equal_itself`); values with equal unfoldings hash alike
(`hash_respects_eq`), are found as each other's keys (`keys_interchangeable`) and are interchangeable in every
operation of a hash map / hash set keyed by values, which is a finite map / set modulo `equal?`
(`keyed_map_interchangeable`, `keyed_map_get_insert`, `keyed_map_get_remove`, `keyed_map_length_insert`,
`keyed_map_invariant`, `keyed_map_ofList_last_wins`, `keyed_map_union`, `keyed_set_laws`, `keyed_set_algebra`).  That the current code
HAS the fixed configuration is `GenSound.code_cfg_sound` (a `decide` on the regenerated `codeCfg`).
(2) The model P of the Rust collection primitives (`Prim.lean`: argument conversions, bounds checks in the order of the
code, the loops of `drop` / `append` / `range`, `last` through `len - 1`, `bounds` with byte offsets and its early
comparison against the byte length, `imbl`'s size-directed `union`, `symmetric_difference`, `intersection`, `is_subset`,
the four ownership branches of `hm_union`, the in-place and the copying branch of the immutable-vector updates,
replace-on-insert) answers ANY operation sequence — errors at boundary indices
included — as the mathematical model S does (`prim_refines`; per primitive: `hash_union_left_biased`,
`substring_char_indices`, `string_ref_char_index`, `drop_is_list_tail`, `append_flatten`), and S satisfies the laws of finite
maps, finite sets and sequences (`map_*`, `set_*`, `ref_*`, `take_tail`, `substring_spec`, `bytes_range`, `range_spec`,
`keys_spec`, `subset_spec`, `last_append_singleton`, `reverse_append_laws`).  P is run against the real engine on every
generated operation sequence by checks/c11.py (the driver executes `stepP` and `stepS` side by side).

NOT carried by any theorem (covered only by the differential correspondence of checks/c11.py, or not at all):

 * **Below the primitives**: the HAMT of `imbl` (P takes `HashMap::insert/get/remove` as operations on an entry list in an
   unspecified order), the unrolled cells of `im-lists` (P takes a list as a sequence; the defects K11h/K11i/K11j lived in
   the cell structure and are regression cases of the corpus and of the `lx` stream, not theorems), the UTF-8 encoding
   itself (a string is a `List Char`, byte offsets are sums of `Char.utf8Size`; that slicing a real `str` at those offsets
   yields those characters is the correspondence), `Vec` and its growth.
 * **Operation sequences whose ELEMENTS are collections** go through two separate theorems: `prim_refines` has integer keys
   and elements, `keyed_map_*` / `keyed_set_laws` / `keyed_set_algebra` have graph keys and state the LAWS of the finite map /
   set modulo `equal?` operation by operation; one refinement theorem for a register language over graph values (a
   quotient construction) is not stated.
 * **Primitives outside `Op`**: `list-ref` on improper pairs, `cons`/`car`/`cdr` on pairs, `list->vector`, `vector-fill!`,
   `vector-copy!`, `make-vector`, `subvector`, `bytes-copy` ranges, `string-ref` on mutable strings, `hash->list` order,
   `hashset->vector`, `vector-push-front`, `vector-swap!`, `mutable-vector-pop!`, … are neither in P nor in the generated sequences.
 * **Aliasing**: a register holds a VALUE; that the in-place branch of a primitive (`Gc::get_mut` succeeds) is only taken when
   no other holder can observe the update is C03's property, not stated here (P has both branches of `hm_union` and of
   the immutable-vector updates and proves them equal; the run exercises both through owned copies / live globals).
 * **Cyclic values** (built by mutation of boxes / mutable vectors / mutable struct fields): `WF` demands an
   acyclic graph; of the cycle protection of the visited set only the self-comparison short cut is a theorem
   (`container_equal_itself`); C18 looks at termination only.
 * **Values with NaN**: `eq_structural` and the equivalence assume `NoNaN`; what `equal?` does on two DIFFERENT containers
   that hold NaNs is determined by the model (answered `false` at the NaN) but no specification other than the two policy
   theorems is stated.
 * **The other value kinds** ("all value kinds", 36 of them): closures, built-in and boxed functions, ports,
   continuations, streams, futures, syntax objects, opaque/custom Rust values, complex numbers, mutable vs
   immutable strings, … have no `Leaf`/`Node` constructor (`Cfg.armComplex`, `Cfg.armBoxedFunction` are fields
   without a value kind to act on); corpus cases only.
 * **`eq?` and `eqv?`** and numeric `=`: no model, no theorem.
 * **`ListSigOK`** (lists whose first nodes share storage, index and next pointer have the same elements) and
   "one head cell, one node id" are ASSUMPTIONS about im-lists, checked on the graphs the harness builds; `Built` graphs
   use lists without a shared-storage signature.
 * **The hash function itself**: `hashEq` is "feeds the hasher the same stream"; 64-bit collisions, the
   `Hasher`, and the HAMT lookup that `keyEqImpl` abstracts as "same hash and `==`" are not modelled.
-/

end SteelVerif.C11
