/-
C11 — property theorems.

* `EqStructural c`: the FULL statement — on every acyclic value graph (any nesting, any sharing) the
  model of `equal?` under configuration `c` returns equality of the unfoldings.
  - `eq_structural`: it holds for every sound configuration (`Cfg.fixed`, the code after the fixes of
    K11a/K11b: pair-keyed `visited`, no `return false` on a revisited vector, all leaf arms).
    `GenSound.code_cfg_sound` says the configuration extracted from /repo is sound.
  - `not_eq_structural_old`: it FAILS for `Cfg.legacy` (the code before the fixes; defect D10) — the
    negation witness, by `decide`; `eq_old_wrong_on_vectors` is the `return false` half.
* `HashRespectsEq c`: values with equal unfoldings hash alike: `hash_respects_eq` (sound `c`),
  `not_hash_respects_eq_old_*` (the three legacy defects K11c, K11d, K11e).
* `eq_refl`; `eq_symm_partial`, `eq_trans_partial` (ONLY values without hash maps / sets); `keys_interchangeable` (a key is found iff it equals the stored key's unfolding).
* collection laws for all inputs.
Guards: `ListSigOK` (what is ASSUMED about list identities, see below), `WF` (acyclic: definitions mention earlier nodes only), `NoNaN` (a NaN is not `equal?` to
itself — documented semantics, while an object holding one is identical to itself), `KeysDistinct`
(the keys of a hash map are pairwise different, as in every real map).  All three are decidable.

Identity of lists.  A node id stands for the pointer of a list's head cell, so "same identity ⇒ same
value" is built into the representation (one id, one definition): the harness gives two real lists the
same node exactly when `as_ptr_usize()` agrees, and otherwise separate nodes.  The second short cut of
the code, `storage_ptr_eq ∧ equal next pointer`, is modelled by `ListSig` (storage, index, next) read off
the real object; `ListSigOK` = lists with identical signatures have identical elements — a fact about
im-lists that the theorems ASSUME and the correspondence run checks on every graph the harness builds.
`not_eq_structural_k11j`: without the `next` conjunct (K11j, the code before 14209e55) it is false.
-/
import SteelVerif.C11.LemmasLoop
import SteelVerif.C11.LemmasColl
import SteelVerif.C11.LemmasEquiv
import SteelVerif.C11.LemmasConstruct
import SteelVerif.C11.LemmasRefine
namespace SteelVerif.C11

/-! ## equal? is structural -/

/-- The full statement of the property for configuration `c`. -/
def EqStructural (c : Cfg) : Prop :=
  ∀ (g : Graph) (a b : Nat), WF g → NoNaN g → KeysDistinct g → ListSigOK g → a < g.length →
    eqImpl c g a b = eqSpec g a b

theorem cfg_of_sound {c : Cfg} (h : c.sound = true) : c = Cfg.fixed := by
  unfold Cfg.sound at h
  exact of_decide_eq_true (by simpa using h)

/-- **equal? is structural**: for the sound configuration the worklist with its visited set and
    pointer short cuts computes exactly equality of the unfoldings — for all graphs, any sharing. -/
theorem eq_structural (c : Cfg) (hc : c.sound = true) : EqStructural c := by
  intro g a b hwf hn hkd hsig ha
  rw [cfg_of_sound hc]
  unfold eqImpl
  apply topEq_spec hwf ha
  have := loop_correct hwf hn hkd hsig (size g a + size g b) [(a, b)] [] []
    (by simpa using ha) (by simp) (by intro q hq; simp at hq) (by simp)
  simpa [specP] using this

/-- x = (list 1 2); left = (list x x); right = (list (list 3 4) (list 1 2)) -/
def witnessD10 : Graph :=
  [.leaf (.int 1), .leaf (.int 2), .leaf (.int 3), .leaf (.int 4),
   .list [0, 1] none, .list [4, 4] none, .list [2, 3] none, .list [0, 1] none, .list [6, 7] none]

/-- v = #(1 2), w = #(1 2) (immutable); left = #(v v); right = #(w w) -/
def witnessVec : Graph :=
  [.leaf (.int 1), .leaf (.int 2), .vec [0, 1], .vec [0, 1], .vec [2, 2], .vec [3, 3]]

/-- **Negation witness** (defect D10/K11a): the legacy algorithm says `#true` for two values whose
    unfoldings differ. -/
theorem not_eq_structural_old : ¬ EqStructural Cfg.legacy := by
  intro h
  have := h witnessD10 5 8 (by decide) (by decide) (by decide) (by decide) (by decide)
  revert this
  decide

/-- y = (list 1 2 3 4) fills one node; a = (append y (list 4)), b = (append y (list 5)): two different head
    cells over the SAME element storage and index, with different next nodes (ids 5 = a, 6 = b). -/
def witnessK11j : Graph :=
  [.leaf (.int 1), .leaf (.int 2), .leaf (.int 3), .leaf (.int 4), .leaf (.int 5),
   .list [0, 1, 2, 3, 3] (some ⟨100, 4, 201⟩), .list [0, 1, 2, 3, 4] (some ⟨100, 4, 202⟩),
   .list [5, 5] none, .list [5, 6] none]

/-- **Negation witness** (defect K11j): a short cut that compares the storage and the index of the first
    node only takes two different lists for equal — also nested, through the visited key. -/
theorem not_eq_structural_k11j : ¬ EqStructural Cfg.k11j := by
  intro h
  have := h witnessK11j 5 6 (by decide) (by decide) (by decide) (by decide) (by decide)
  revert this
  decide

/-- the same graph satisfies the guards and is answered correctly by the fixed algorithm, also nested -/
example : WF witnessK11j ∧ ListSigOK witnessK11j ∧ eqSpec witnessK11j 5 6 = false ∧
    eqImpl Cfg.fixed witnessK11j 5 6 = false ∧ eqImpl Cfg.fixed witnessK11j 7 8 = false ∧
    eqImpl Cfg.k11j witnessK11j 7 8 = true := by decide

/-- mv = (vector 1), iv = #(1); (list mv) vs (list iv) -/
def witnessM1 : Graph := [.leaf (.int 1), .mvec [0], .vec [0], .list [1] none, .list [2] none]

/-- **Negation witness** (seeded defect m1): rejecting list elements of different discriminants breaks the
    property, because a mutable and an immutable vector with equal elements are equal. -/
theorem not_eq_structural_kind_reject : ¬ EqStructural Cfg.kindReject := by
  intro h
  have := h witnessM1 3 4 (by decide) (by decide) (by decide) (by decide) (by decide)
  revert this
  decide

example : eqImpl Cfg.fixed witnessM1 1 2 = true ∧ eqImpl Cfg.fixed witnessM1 3 4 = true ∧
    eqImpl Cfg.kindReject witnessM1 1 2 = true ∧ eqImpl Cfg.kindReject witnessM1 3 4 = false := by decide

/-- the other half of D10: equal immutable vectors that occur twice are rejected -/
theorem eq_old_wrong_on_vectors :
    eqImpl Cfg.legacy witnessVec 4 5 = false ∧ eqSpec witnessVec 4 5 = true := by decide

/-- non-vacuity of `eq_structural`: the witness graphs satisfy the guards, and the fixed algorithm
    answers them correctly -/
example : WF witnessD10 ∧ NoNaN witnessD10 ∧ KeysDistinct witnessD10 ∧
    eqImpl Cfg.fixed witnessD10 5 8 = false ∧ eqImpl Cfg.fixed witnessVec 4 5 = true := by decide

/-- a value with sharing, hash maps keyed by collections and nested sets, inside the guards -/
def witnessMap : Graph :=
  [.leaf (.int 1), .leaf (.int 2), .list [0, 1] none, .list [0, 1] none, .set [2], .set [3],
   .map [(2, 4), (0, 2)], .map [(0, 3), (3, 5)], .list [6, 6] none, .list [7, 6] none]

example : WF witnessMap ∧ NoNaN witnessMap ∧ KeysDistinct witnessMap ∧
    eqSpec witnessMap 8 9 = true ∧ eqImpl Cfg.fixed witnessMap 8 9 = true := by decide

/-- non-vacuity (theorem applied, every hypothesis instantiated): shared sub-lists used as keys of hash maps -/
example : eqImpl Cfg.fixed witnessMap 8 9 = eqSpec witnessMap 8 9 :=
  eq_structural _ rfl _ _ _ (by decide) (by decide) (by decide) (by decide) (by decide)
example : eqImpl Cfg.fixed witnessD10 5 8 = eqSpec witnessD10 5 8 :=
  eq_structural _ rfl _ _ _ (by decide) (by decide) (by decide) (by decide) (by decide)

/-- equal? is reflexive (on NaN-free values) -/
theorem eq_refl (c : Cfg) (hc : c.sound = true) (g : Graph) (a : Nat) (hwf : WF g) (hn : NoNaN g)
    (hkd : KeysDistinct g) (hsig : ListSigOK g) (ha : a < g.length) : eqImpl c g a a = true := by
  rw [eq_structural c hc g a a hwf hn hkd hsig ha]
  exact spec_refl hwf hn hkd a ha

example : eqImpl Cfg.fixed witnessMap 9 9 = true :=
  eq_refl _ rfl _ _ (by decide) (by decide) (by decide) (by decide) (by decide)
/-- the guard `NoNaN` is needed: a NaN is not `equal?` to itself -/
example : eqImpl Cfg.fixed [.leaf (.flt 0x7ff8000000000000)] 0 0 = false := by decide

/-- **equal? is symmetric**, also THROUGH hash maps and hash sets.  `eqSpec` on maps/sets is what the code does
    ("same size and every LEFT entry is found on the right"); that this is symmetric is a counting argument
    (`cover_symm`: an injection between two pairwise-distinct lists of the same length is onto) which needs the
    keys of a map (`KeysDistinct`) and the members of a set (`MembersDistinct`) to be pairwise non-`equal?` — what
    the constructors `hash` / `hashset` guarantee (`mkMap_guards`, `mkSet_guards`, `built_guards` below). -/
theorem eq_symm (c : Cfg) (hc : c.sound = true) (g : Graph) (a b : Nat) (hwf : WF g) (hn : NoNaN g)
    (hkd : KeysDistinct g) (hmd : MembersDistinct g) (hsig : ListSigOK g) (ha : a < g.length) (hb : b < g.length) :
    eqImpl c g a b = eqImpl c g b a := by
  rw [eq_structural c hc g a b hwf hn hkd hsig ha, eq_structural c hc g b a hwf hn hkd hsig hb]
  exact spec_symm_full hwf hkd hmd a b ha hb

/-- two separately built lists `(1)`, and two "hash sets" `{(1), (1)'}` and `{(1), 2}`: the first one has two
    members that are `equal?` to each other — which no real hash set has (`mkSet_guards`) -/
def witnessDupSet : Graph :=
  [.leaf (.int 1), .leaf (.int 2), .list [0] none, .list [0] none, .set [2, 3], .set [2, 1]]

/-- **The guard `MembersDistinct` is needed**: without it symmetry is FALSE (for the specification and, by
    `eq_structural`, for the model of the code alike) — and the witness violates exactly that guard. -/
theorem eq_symm_fails_without_distinct_members :
    WF witnessDupSet ∧ NoNaN witnessDupSet ∧ KeysDistinct witnessDupSet ∧ ListSigOK witnessDupSet ∧
    ¬ MembersDistinct witnessDupSet ∧
    eqSpec witnessDupSet 4 5 = true ∧ eqSpec witnessDupSet 5 4 = false ∧
    eqImpl Cfg.fixed witnessDupSet 4 5 = true ∧ eqImpl Cfg.fixed witnessDupSet 5 4 = false := by decide

/-- **equal? is transitive**, also through hash maps and hash sets. -/
theorem eq_trans (c : Cfg) (hc : c.sound = true) (g : Graph) (a b d : Nat) (hwf : WF g) (hn : NoNaN g)
    (hkd : KeysDistinct g) (hmd : MembersDistinct g) (hsig : ListSigOK g) (ha : a < g.length) (hb : b < g.length)
    (hd : d < g.length) (h1 : eqImpl c g a b = true) (h2 : eqImpl c g b d = true) : eqImpl c g a d = true := by
  rw [eq_structural c hc g a b hwf hn hkd hsig ha] at h1
  rw [eq_structural c hc g b d hwf hn hkd hsig hb] at h2
  rw [eq_structural c hc g a d hwf hn hkd hsig ha]
  exact spec_trans_full hwf hkd hmd a b d ha hb hd h1 h2

/-- **equal? is an equivalence relation** on every graph that satisfies the guards (`Guards` = `WF`, `NoNaN`,
    `KeysDistinct`, `MembersDistinct`, `ListSigOK`): all acyclic NaN-free values of the modelled kinds, any nesting,
    any sharing, hash maps and hash sets included. -/
theorem eq_equivalence (c : Cfg) (hc : c.sound = true) (g : Graph) (h : Guards g) :
    (∀ a, a < g.length → eqImpl c g a a = true) ∧
    (∀ a b, a < g.length → b < g.length → eqImpl c g a b = eqImpl c g b a) ∧
    (∀ a b d, a < g.length → b < g.length → d < g.length →
      eqImpl c g a b = true → eqImpl c g b d = true → eqImpl c g a d = true) :=
  ⟨fun a ha => eq_refl c hc g a h.wf h.nonan h.keys h.sig ha,
   fun a b ha hb => eq_symm c hc g a b h.wf h.nonan h.keys h.members h.sig ha hb,
   fun a b d ha hb hd => eq_trans c hc g a b d h.wf h.nonan h.keys h.members h.sig ha hb hd⟩

/-! ### the constructors establish the guards

`Built g`: the graph was built node by node by the constructors of the language — a leaf that is no NaN, a list /
pair / vector / struct / box over earlier nodes (lists without a shared-storage signature), `(hashset k …)` =
`mkSet` and `(hash k v …)` = `mkMap` over earlier nodes, which insert member by member with the key equality of
the code (`keyEqImpl`: same hash and `==`) and REPLACE an equal member.  No guard is assumed. -/

inductive Built : Graph → Prop
  | nil : Built []
  | node {g : Graph} (n : Node) : Built g → isHashed n = false → leafNoNaN n = true →
      (∀ xs s, n = .list xs s → s = none) → (∀ j ∈ children n, j < g.length) → Built (g ++ [n])
  | set {g : Graph} (ks : List Nat) : Built g → (∀ k ∈ ks, k < g.length) → Built (g ++ [mkSet Cfg.fixed g ks])
  | map {g : Graph} (kvs : List (Nat × Nat)) : Built g → (∀ e ∈ kvs, e.1 < g.length ∧ e.2 < g.length) →
      Built (g ++ [mkMap Cfg.fixed g kvs])

/-- every graph built by the constructors satisfies all guards: acyclic, keys of every map and members of every set
    pairwise non-`equal?` -/
theorem built_guards {g : Graph} (h : Built g) : Guards g := by
  induction h with
  | nil => exact guards_nil
  | node n _ hn hnan hsig hc ih => exact other_guards ih n hn hnan hsig hc
  | set ks _ hks ih => exact mkSet_guards ih ks hks
  | map kvs _ hks ih => exact mkMap_guards ih kvs hks

/-- **equal? is an equivalence relation on all values built by the constructors** (no guard left) -/
theorem eq_equivalence_built (g : Graph) (h : Built g) :
    (∀ a, a < g.length → eqImpl Cfg.fixed g a a = true) ∧
    (∀ a b, a < g.length → b < g.length → eqImpl Cfg.fixed g a b = eqImpl Cfg.fixed g b a) ∧
    (∀ a b d, a < g.length → b < g.length → d < g.length →
      eqImpl Cfg.fixed g a b = true → eqImpl Cfg.fixed g b d = true → eqImpl Cfg.fixed g a d = true) :=
  eq_equivalence Cfg.fixed rfl g (built_guards h)

/-- `(hashset (list 1) (list 1)' 2)` built by the constructor: the second `(1)` replaces the first, the set has two
    members — unlike the hand-written `witnessDupSet` -/
example : mkSet Cfg.fixed [.leaf (.int 1), .leaf (.int 2), .list [0] none, .list [0] none] [2, 3, 1] = .set [3, 1] := by
  decide
/-- `(hash (list 1) 1 (list 1)' 2)`: one entry, the later key object and value -/
example : mkMap Cfg.fixed [.leaf (.int 1), .leaf (.int 2), .list [0] none, .list [0] none] [(2, 0), (3, 1)] = .map [(3, 1)] := by
  decide

/-- x = #(1 (2)), y, z: three separately built copies, each with an inner list; `y`'s inner list is shared with
    a fourth value -/
def witnessTrans : Graph :=
  [.leaf (.int 1), .leaf (.int 2), .list [1] none, .list [1] none, .vec [0, 2], .mvec [0, 3], .vec [0, 3],
   .list [3, 3] none]

/-- three hash maps `{(1 2) ↦ {1 2}, 1 ↦ (1 2)}` built from separately allocated lists and sets, with the entries in
    different orders, inside lists (ids 11, 12, 13) -/
def witnessHashed : Graph :=
  [.leaf (.int 1), .leaf (.int 2), .list [0, 1] none, .list [0, 1] none, .list [0, 1] none,
   .set [0, 1], .set [1, 0], .set [0, 1],
   .map [(2, 5), (0, 2)], .map [(0, 3), (3, 6)], .map [(4, 7), (0, 4)],
   .list [8, 8] none, .list [9, 8] none, .list [10, 9] none]

/-- non-vacuity (theorems applied; every hypothesis instantiated): symmetry on the D10 witness (the two values
    differ) and through hash maps keyed by lists; transitivity over three distinct nodes, one of them a mutable
    vector, and over three lists of hash maps holding sets -/
example : eqImpl Cfg.fixed witnessD10 5 8 = eqImpl Cfg.fixed witnessD10 8 5 :=
  eq_symm _ rfl _ _ _ (by decide) (by decide) (by decide) (by decide) (by decide) (by decide) (by decide)
example : eqImpl Cfg.fixed witnessMap 8 9 = eqImpl Cfg.fixed witnessMap 9 8 :=
  eq_symm _ rfl _ _ _ (by decide) (by decide) (by decide) (by decide) (by decide) (by decide) (by decide)
example : eqImpl Cfg.fixed witnessTrans 4 6 = true :=
  eq_trans _ rfl witnessTrans 4 5 6 (by decide) (by decide) (by decide) (by decide) (by decide) (by decide)
    (by decide) (by decide) (by decide) (by decide)
example : eqImpl Cfg.fixed witnessHashed 11 13 = true :=
  eq_trans _ rfl witnessHashed 11 12 13 (by decide) (by decide) (by decide) (by decide) (by decide) (by decide)
    (by decide) (by decide) (by decide) (by decide)
example : eqImpl Cfg.fixed witnessHashed 11 12 = true ∧ eqImpl Cfg.fixed witnessHashed 12 13 = true ∧
    eqImpl Cfg.fixed witnessHashed 13 11 = true ∧ MembersDistinct witnessHashed ∧ ¬ NoHashed witnessHashed := by decide
/-- `Built` is inhabited by graphs with hash sets of lists, and the equivalence applies to them -/
example : Built ([.leaf (.int 1), .list [0] none, .list [0] none] ++
    [mkSet Cfg.fixed [.leaf (.int 1), .list [0] none, .list [0] none] [1, 2, 0]]) :=
  Built.set [1, 2, 0]
    (Built.node (.list [0] none) (Built.node (.list [0] none) (Built.node (.leaf (.int 1)) Built.nil rfl rfl
      (by intro xs s h; cases h) (by intro j hj; cases hj)) rfl rfl (by intro xs s h; cases h; rfl) (by decide))
      rfl rfl (by intro xs s h; cases h; rfl) (by decide))
    (by decide)

/-! ## hashing agrees with equality -/

/-- The full statement: values with equal unfoldings hash alike. -/
def HashRespectsEq (c : Cfg) : Prop :=
  ∀ (g : Graph) (a b : Nat), eqSpec g a b = true → hashEq c g a b = true

theorem hash_respects_eq (c : Cfg) (hc : c.sound = true) : HashRespectsEq c := by
  intro g a b h
  rw [cfg_of_sound hc]
  exact relF_spec_hash g _ _ _ h

/-- non-vacuity (theorem applied): two sets with different iteration orders inside lists; `0.0` and `-0.0` -/
example : hashEq Cfg.fixed [.leaf (.int 1), .leaf (.int 2), .set [0, 1], .set [1, 0], .list [2] none, .list [3] none] 4 5
    = true :=
  hash_respects_eq _ rfl _ _ _ (by decide)
example : hashEq Cfg.fixed [.leaf (.flt 0), .leaf (.flt (2 ^ 63))] 0 1 = true :=
  hash_respects_eq _ rfl _ _ _ (by decide)

/-- K11c: `0.0` and `-0.0` are equal but the legacy hash differs -/
theorem not_hash_respects_eq_old_zero : ¬ HashRespectsEq Cfg.legacy := by
  intro h
  have := h [.leaf (.flt 0), .leaf (.flt (2 ^ 63))] 0 1 (by decide)
  revert this
  decide

/-- K11d: two equal hash sets that iterate in different orders hash differently under the legacy hash -/
theorem not_hash_respects_eq_old_order :
    let g : Graph := [.leaf (.int 1), .leaf (.int 2), .set [0, 1], .set [1, 0]]
    eqSpec g 2 3 = true ∧ hashEq Cfg.legacy g 2 3 = false := by decide

/-- K11e: a mutable and an immutable vector with equal elements hash differently under the legacy hash -/
theorem not_hash_respects_eq_old_vec :
    let g : Graph := [.leaf (.int 1), .vec [0], .mvec [0]]
    eqSpec g 1 2 = true ∧ hashEq Cfg.legacy g 1 2 = false := by decide

example : let g : Graph := [.leaf (.int 1), .leaf (.int 2), .set [0, 1], .set [1, 0], .vec [0], .mvec [0],
                            .leaf (.flt 0), .leaf (.flt (2 ^ 63))]
    hashEq Cfg.fixed g 2 3 = true ∧ hashEq Cfg.fixed g 4 5 = true ∧ hashEq Cfg.fixed g 6 7 = true := by decide

/-- **Keys are interchangeable**: `HashMap::get` / `HashSet::contains` with query `k` finds the stored
    key `k'` exactly when the two have equal unfoldings. -/
theorem keys_interchangeable (c : Cfg) (hc : c.sound = true) (g : Graph) (k k' : Nat) (hwf : WF g)
    (hn : NoNaN g) (hkd : KeysDistinct g) (hsig : ListSigOK g) (hk : k < g.length) :
    keyEqImpl c g k k' = eqSpec g k k' := by
  unfold keyEqImpl
  rw [eq_structural c hc g k k' hwf hn hkd hsig hk]
  cases hs : eqSpec g k k'
  · simp
  · simp [hash_respects_eq c hc g k k' hs]

/-- non-vacuity (theorem applied): in `witnessMap` the lists 2 and 3 are two objects with equal elements: either
    finds the other as a stored key; the leaf 0 does not -/
example : keyEqImpl Cfg.fixed witnessMap 2 3 = true :=
  (keys_interchangeable _ rfl witnessMap 2 3 (by decide) (by decide) (by decide) (by decide) (by decide)).trans
    (by decide)
example : keyEqImpl Cfg.fixed witnessMap 2 0 = false :=
  (keys_interchangeable _ rfl witnessMap 2 0 (by decide) (by decide) (by decide) (by decide) (by decide)).trans
    (by decide)

/-! ## collections behave as finite maps, finite sets and sequences -/

section Collections
open Coll
variable {κ ν α : Type} [DecidableEq κ]

/-- `(hash-try-get (hash-insert m k v) k')` -/
theorem map_get_insert (m : M κ ν) (k k' : κ) (v : ν) :
    mTryGet (mInsert m k v) k' = if k' = k then some v else mTryGet m k' :=
  Coll.tryGet_insert m k k' v

/-- `(hash-ref (hash-insert m k v) k')`: the inserted value, otherwise what was there (or an error) -/
theorem map_ref_insert (m : M κ ν) (k k' : κ) (v : ν) :
    mRef (mInsert m k v) k' = if k' = k then .ok v else mRef m k' := by
  unfold mRef
  rw [map_get_insert]
  by_cases h : k' = k <;> simp [h]

/-- `(hash-try-get (hash-remove m k) k')` -/
theorem map_get_remove (m : M κ ν) (k k' : κ) :
    mTryGet (mRemove m k) k' = if k' = k then none else mTryGet m k' :=
  Coll.tryGet_remove m k k'

/-- `hash-ref` of a missing key is an error, of a present key its value -/
theorem map_ref_err_iff (m : M κ ν) (k : κ) : mRef m k = .err ↔ mContains m k = false :=
  Coll.ref_err_iff m k

theorem map_contains_insert (m : M κ ν) (k k' : κ) (v : ν) :
    mContains (mInsert m k v) k' = (decide (k' = k) || mContains m k') :=
  Coll.contains_insert m k k' v

/-- `hash-length` after `hash-insert`: grows by one exactly when the key is new (duplicates collapse) -/
theorem map_length_insert (m : M κ ν) (k : κ) (v : ν) (h : mNodup m) :
    mLength (mInsert m k v) = if mContains m k then mLength m else mLength m + 1 :=
  Coll.length_insert m k v h

theorem map_length_remove (m : M κ ν) (k : κ) (h : mNodup m) :
    mLength (mRemove m k) = if mContains m k then mLength m - 1 else mLength m :=
  Coll.length_remove m k h

/-- the representation invariant is preserved, and `(hash k v …)` establishes it -/
theorem map_nodup_insert (m : M κ ν) (k : κ) (v : ν) (h : mNodup m) : mNodup (mInsert m k v) :=
  Coll.nodup_insert m k v h
theorem map_nodup_remove (m : M κ ν) (k : κ) (h : mNodup m) : mNodup (mRemove m k) :=
  Coll.nodup_remove m k h
theorem map_nodup_ofList (kvs : List (κ × ν)) : mNodup (mOfList kvs) := Coll.nodup_ofList kvs

/-- duplicate keys in `(hash k1 v1 k2 v2 …)`: the last binding wins -/
theorem map_ofList_last_wins (kvs : List (κ × ν)) (k : κ) :
    mTryGet (mOfList kvs) k = (kvs.reverse.find? fun e => e.1 == k).map Prod.snd :=
  Coll.tryGet_ofList kvs k

/-- `(hash-union l r)`: a finite-map union in which, for a key of both, the value of the LEFT map wins -/
theorem map_get_union (l r : M κ ν) (k : κ) :
    mTryGet (mUnion l r) k = match mTryGet l k with | some v => some v | none => mTryGet r k :=
  Coll.tryGet_union l r k

example : mRef (mUnion [((1 : Int), (2 : Int))] [(1, 3), (4, 5)]) 1 = .ok 2 ∧ mRef (mUnion [((1 : Int), (2 : Int))] [(1, 3), (4, 5)]) 4 = .ok 5 := by decide

example : mRef (mOfList [((1 : Int), (2 : Int)), (1, 3)]) 1 = .ok 3 ∧ mLength (mOfList [((1 : Int), (2 : Int)), (1, 3)]) = 1
    ∧ mRef (mOfList [((1 : Int), (2 : Int))]) 5 = .err := by decide

/-- `hashset-contains?` after `hashset-insert` -/
theorem set_contains_insert (s : S κ) (k k' : κ) :
    sContains (sInsert s k) k' = (decide (k' = k) || sContains s k') := Coll.sContains_insert s k k'

/-- inserting twice is inserting once -/
theorem set_insert_idem (s : S κ) (k : κ) : sInsert (sInsert s k) k = sInsert s k :=
  Coll.sInsert_idem s k

theorem set_length_insert (s : S κ) (k : κ) :
    sLength (sInsert s k) = if sContains s k then sLength s else sLength s + 1 := Coll.sLength_insert s k

/-- `(hashset k …)`: duplicates collapse, membership is membership in the argument list -/
theorem set_contains_ofList (ks : List κ) (k : κ) : sContains (sOfList ks) k = ks.contains k :=
  Coll.sContains_ofList ks k
theorem set_nodup_ofList (ks : List κ) : (sOfList ks).Nodup := Coll.sNodup_ofList ks

/-- `hashset-union`, `hashset-intersection`, `hashset-difference` (documented as the symmetric difference) -/
theorem set_contains_union (s t : S κ) (k : κ) : sContains (sUnion s t) k = (sContains s k || sContains t k) :=
  Coll.sContains_union s t k
theorem set_contains_inter (s t : S κ) (k : κ) : sContains (sInter s t) k = (sContains s k && sContains t k) :=
  Coll.sContains_inter s t k
theorem set_contains_symdiff (s t : S κ) (k : κ) : sContains (sSymDiff s t) k = (sContains s k != sContains t k) :=
  Coll.sContains_symDiff s t k

example : sLength (sOfList [(1 : Int), 1, 2]) = 2 ∧ sContains (sOfList [(1 : Int), 1, 2]) 3 = false := by decide

/-- `list-ref` / `vector-ref` / `string-ref` / `bytes-ref`: an error exactly outside `0 ≤ i < length` -/
theorem ref_err_iff (l : List α) (i : Int) : lRef l i = .err ↔ (i < 0 ∨ (l.length : Int) ≤ i) :=
  Coll.lRef_err_iff l i

theorem ref_ok (l : List α) (n : Nat) (h : n < l.length) : lRef l (n : Int) = .ok l[n] :=
  Coll.lRef_ok l n h

/-- `vector-set!` / `bytes-set!`: an error exactly outside the bounds (`index == length` included) -/
theorem set_err_iff (v : List α) (i : Int) (x : α) : vSet v i x = .err ↔ (i < 0 ∨ (v.length : Int) ≤ i) :=
  Coll.vSet_err_iff v i x

/-- reading after writing -/
theorem ref_set (v v' : List α) (i j : Int) (x : α) (h : vSet v i x = .ok v') :
    vRef v' j = if j = i then .ok x else vRef v j := Coll.vRef_vSet v v' i j x h

theorem set_length (v v' : List α) (i : Int) (x : α) (h : vSet v i x = .ok v') : v'.length = v.length :=
  Coll.vSet_length v v' i x h

theorem push_ref (v : List α) (x : α) : vRef (vPush v x) (v.length : Int) = .ok x ∧ (vPush v x).length = v.length + 1 :=
  Coll.vPush_ref v x

/-- `first`/`rest` of the empty list are errors; otherwise they split the list -/
theorem first_rest (l : List α) :
    (l = [] → lFirst l = .err ∧ lRest l = .err) ∧
    (∀ x t, l = x :: t → lFirst l = .ok x ∧ lRest l = .ok t) := by
  constructor
  · intro h; subst h; exact ⟨rfl, rfl⟩
  · intro x t h; subst h; exact ⟨rfl, rfl⟩

/-- `take` and `list-tail` at the same position split the list; `list-tail` beyond the end is an error,
    `take` beyond the end takes everything -/
theorem take_tail (l : List α) (n : Int) :
    (lTail l n = .err ↔ (n < 0 ∨ (l.length : Int) < n)) ∧
    (∀ t h, lTail l n = .ok t → lTake l n = .ok h → h ++ t = l) ∧
    ((l.length : Int) ≤ n → lTake l n = .ok l) := Coll.take_tail l n

/-- `substring`: defined exactly for `0 ≤ i ≤ j ≤ length`, and then it has `j - i` characters -/
theorem substring_spec (s : List Char) (i j : Int) :
    (strSub s i j = .err ↔ (i < 0 ∨ j < i ∨ (s.length : Int) < j)) ∧
    (∀ t, strSub s i j = .ok t → (t.length : Int) = j - i) := Coll.strSub_spec s i j

/-- byte vectors hold bytes: construction and update with a value outside 0..255 is an error -/
theorem bytes_range (xs : List Int) (i x : Int) :
    (bMake xs = .err ↔ ∃ y ∈ xs, y < 0 ∨ 255 < y) ∧ ((x < 0 ∨ 255 < x) → bSet xs i x = .err) :=
  Coll.bytes_range xs i x

example : vSet [(1 : Int), 2] 2 0 = .err ∧ vSet [(1 : Int), 2] 1 9 = .ok [1, 9] ∧ lRef [(1 : Int), 2] (-1) = .err
    ∧ lTail [(1 : Int), 2, 3] 4 = .err ∧ lTake [(1 : Int), 2, 3] 5 = .ok [1, 2, 3]
    ∧ strSub ['a', 'b', 'c'] 1 3 = .ok ['b', 'c'] ∧ strSub ['a', 'b', 'c'] 0 4 = .err
    ∧ bSet [1, 2] 0 256 = .err ∧ bSet [1, 2] 2 1 = .err := by decide

/-- non-vacuity of the laws with hypotheses (applied), and of the others on values with a key collision, a
    removed key, a key that is absent, and boundary indices -/
example : mLength (mInsert [((1 : Int), (2 : Int)), (3, 4)] 3 9) = 2 ∧ mLength (mInsert [((1 : Int), (2 : Int)), (3, 4)] 5 9) = 3 :=
  ⟨(map_length_insert _ _ _ (by unfold mNodup; decide)).trans (by decide), (map_length_insert _ _ _ (by unfold mNodup; decide)).trans (by decide)⟩
example : mLength (mRemove [((1 : Int), (2 : Int)), (3, 4)] 3) = 1 ∧ mLength (mRemove [((1 : Int), (2 : Int)), (3, 4)] 5) = 2 :=
  ⟨(map_length_remove _ _ (by unfold mNodup; decide)).trans (by decide), (map_length_remove _ _ (by unfold mNodup; decide)).trans (by decide)⟩
example : mNodup (mInsert [((1 : Int), (2 : Int)), (3, 4)] 3 9) ∧ mNodup (mRemove [((1 : Int), (2 : Int)), (3, 4)] 1) :=
  ⟨map_nodup_insert _ _ _ (by unfold mNodup; decide), map_nodup_remove _ _ (by unfold mNodup; decide)⟩
example : lRef [(10 : Int), 20, 30] ((2 : Nat) : Int) = .ok 30 := ref_ok _ 2 (by decide)
example : vRef [(1 : Int), 9] 1 = .ok 9 ∧ vRef [(1 : Int), 9] 0 = .ok 1 :=
  ⟨(ref_set [1, 2] [1, 9] 1 1 9 (by decide)).trans (by decide), (ref_set [1, 2] [1, 9] 1 0 9 (by decide)).trans (by decide)⟩
example : ([(1 : Int), 9]).length = ([(1 : Int), 2]).length := set_length [1, 2] [1, 9] 1 9 (by decide)
example : mTryGet (mInsert [((1 : Int), (2 : Int)), (3, 4)] 3 9) 3 = some 9 ∧ mTryGet (mInsert [((1 : Int), (2 : Int)), (3, 4)] 3 9) 1 = some 2
    ∧ mTryGet (mRemove [((1 : Int), (2 : Int)), (3, 4)] 3) 3 = none ∧ mRef (mRemove [((1 : Int), (2 : Int)), (3, 4)] 3) 1 = .ok 2
    ∧ mContains (mInsert [((1 : Int), (2 : Int))] 7 0) 7 = true ∧ mContains (mInsert [((1 : Int), (2 : Int))] 7 0) 8 = false
    ∧ sContains (sInsert [(1 : Int), 2] 2) 2 = true ∧ sLength (sInsert [(1 : Int), 2] 2) = 2 ∧ sLength (sInsert [(1 : Int), 2] 3) = 3
    ∧ sContains (sUnion [(1 : Int), 2] [2, 3]) 3 = true ∧ sContains (sInter [(1 : Int), 2] [2, 3]) 1 = false
    ∧ sContains (sSymDiff [(1 : Int), 2] [2, 3]) 2 = false ∧ sContains (sSymDiff [(1 : Int), 2] [2, 3]) 3 = true
    ∧ vRef (vPush [(1 : Int), 2] 7) 2 = .ok 7 ∧ lFirst ([] : List Int) = .err ∧ lRest [(1 : Int)] = .ok []
    ∧ bMake [0, 255] = .ok [0, 255] ∧ bMake [0, 256] = .err := by decide

end Collections

/-! ## the Rust primitives refine the mathematical models

`Prim.lean` is a model P of the primitives themselves (argument conversions, checks in the order of the code, the
loops of `drop` / `append` / `range`, `bounds` with its byte offsets, `imbl`'s size-directed `union`,
`symmetric_difference`, `intersection`, the four ownership branches of `hm_union`); `Coll.*` is the mathematical
model S the laws above are about.  The operation language `Op` is the one the correspondence run speaks. -/

/-- **Any sequence of collection operations on the model of the primitives yields what the same sequence yields on
    the mathematical sequence / finite map / finite set** — answer by answer (errors included), unordered results
    (keys, values, members, map contents) up to permutation.  For all sequences, all arguments. -/
theorem prim_refines (ops : List Op) : AnsSeqRel (runP ops) (runS ops) :=
  run_refines_from ops {} {} stRel_init

/-- and the registers stay related: after any prefix the P hash map has the lookup function of the S map, the P set
    the members of the S set, the sequences are equal -/
theorem prim_refines_state (p s : St) (h : StRel p s) (op : Op) : StRel (stepP p op).1 (stepS s op).1 :=
  (step_refines p s h op).1

/-- `hash-union` is left-biased under EVERY ownership pattern of its arguments and whichever map `imbl` decides to
    mutate (seeded defect m3 swapped the operands in one branch) -/
theorem hash_union_left_biased (ul ur : Bool) (l r : List (Int × Int)) (hl : Coll.mNodup l) (k : Int) :
    Prim.hmGet (Prim.hmUnion ul ur l r) k = match Prim.hmGet l k with | some v => some v | none => Prim.hmGet r k := by
  rw [hmUnion_eq, hmGet_eq, get_imblUnion l r hl k, hmGet_eq, hmGet_eq]
  cases Coll.mTryGet l k <;> rfl

/-- `substring` / `string->list` on arbitrary Unicode: turning character indices into byte offsets and slicing the
    bytes = dropping and taking characters; an error exactly outside `0 ≤ i ≤ j ≤ length` (`substring_spec`) -/
theorem substring_char_indices (s : List Char) (i j : Int) : Prim.substring s i (some j) = Coll.strSub s i j :=
  substring_eq s i (some j)

/-- `string-ref` compares the index with the BYTE length first; that never rejects a valid character index -/
theorem string_ref_char_index (s : List Char) (i : Int) : Prim.stringRef s i = Coll.strRef s i := stringRef_eq s i

/-- `(drop l n)` (a `cdr` loop in `stdlib.scm`) and `(list-tail l n)` agree, errors included -/
theorem drop_is_list_tail (l : List Int) (n : Int) : Prim.drop l n = Prim.listTail l n := by
  rw [drop_eq, listTail_eq]; rfl

/-- n-ary `append` (with its special case for an empty first list) concatenates -/
theorem append_flatten (xss : List (List Int)) : Prim.append xss = xss.flatten := append_eq xss

section MoreLaws
open Coll
variable {κ ν α : Type} [DecidableEq κ]

/-- `last` of a list that ends in `x`; of the empty list an error -/
theorem last_append_singleton (l : List α) (x : α) : lLast (l ++ [x]) = .ok x ∧ lLast ([] : List α) = .err := by
  constructor
  · simp [lLast]
  · rfl

/-- `(range lo hi)`: `hi - lo` elements, the i-th is `lo + i`; empty when `hi ≤ lo` -/
theorem range_spec (lo hi : Int) (hlo : 0 ≤ lo) (hhi : 0 ≤ hi) :
    ∃ l, lRange lo hi = .ok l ∧ l.length = (hi - lo).toNat ∧ ∀ i, i < l.length → l[i]? = some (lo + (i : Int)) := by
  refine ⟨(List.range (hi - lo).toNat).map fun (i : Nat) => lo + (i : Int), ?_, by simp, ?_⟩
  · unfold lRange
    have : ¬ (lo < 0 ∨ hi < 0) := by omega
    simp [this]
  · intro i hi'
    simp only [List.length_map, List.length_range] at hi'
    simp [hi']

/-- `hash-keys->list`: every key once, and exactly the keys `hash-contains?` answers for; `hash-values->list` has the
    same length -/
theorem keys_spec (m : M κ ν) (h : mNodup m) :
    (mKeys m).Nodup ∧ (∀ k, k ∈ mKeys m ↔ mContains m k = true) ∧ (mValues m).length = (mKeys m).length :=
  ⟨h, fun k => (Coll.contains_iff_mem m k).symm, by simp [mValues, mKeys]⟩

/-- `hashset-subset?` is the subset relation of the membership functions -/
theorem subset_spec (s t : S κ) : sSubset s t = true ↔ ∀ k, sContains s k = true → sContains t k = true := by
  unfold sSubset sContains
  rw [List.all_eq_true]
  constructor
  · intro h k hk; exact h k (List.contains_iff_mem.mp hk)
  · intro h k hk; exact h k (List.contains_iff_mem.mpr hk)

/-- `reverse` is an involution that keeps the length; `append` adds the lengths and is associative (n-ary append) -/
theorem reverse_append_laws (a b c : List α) :
    a.reverse.reverse = a ∧ a.reverse.length = a.length ∧ (a ++ b).length = a.length + b.length ∧
    [a, b, c].flatten = a ++ (b ++ c) ∧ (a ++ b).reverse = b.reverse ++ a.reverse := by
  simp

end MoreLaws

/-- non-vacuity of `prim_refines` (theorem applied) on a sequence with a duplicate key, a union in which the
    consumed map is the register (`imbl` mutates the literal), boundary indices, a non-ASCII substring and errors;
    the answers of P, evaluated -/
def witnessOps : List Op :=
  [.mNew [1, 2, 1] [10, 20, 30], .mUnion true false true [1, 3, 4] [100, 30, 40], .mRef 1, .mRef 9, .mLen,
   .sNew [1, 1, 2], .sDiff true [2, 3], .sSubset true [1, 3, 5], .sLen,
   .lNew [1, 2, 3], .lDrop 3, .lDrop 1, .lRange 2 5, .lAppend [[], [7]] [[], [8, 9]], .lLast, .lTail 7,
   .vNew [1, 2], .vSet 2 0, .vSet 1 9, .vRef (-1),
   .bNew [0, 255], .bSet 1 256, .bPush 7, .bNew [256],
   .tNew ['h', 'é', 'λ', '😀', 'x'], .tSub 1 (some 4), .tRef 2, .tSub 2 (some 5), .tToList none none]

example : AnsSeqRel (runP witnessOps) (runS witnessOps) := prim_refines witnessOps

example : runP witnessOps =
    [.map [(2, 20), (1, 30)], .map [(3, 30), (4, 40), (2, 20), (1, 30)], .int 30, .err, .int 4,
     .bag [1, 2], .bag [1, 3], .bool true, .int 2,
     .seq [1, 2, 3], .seq [], .err, .seq [2, 3, 4], .seq [7, 2, 3, 4, 8, 9], .int 9, .err,
     .seq [1, 2], .err, .seq [1, 9], .err,
     .seq [0, 255], .err, .seq [0, 255, 7], .err,
     .str ['h', 'é', 'λ', '😀', 'x'], .str ['é', 'λ', '😀'], .chr '😀', .err, .str ['é', 'λ', '😀']] := by decide
/-- the mathematical model gives the same answers, the unordered ones in another order -/
example : runS witnessOps =
    [.map [(1, 30), (2, 20)], .map [(1, 30), (2, 20), (4, 40), (3, 30)], .int 30, .err, .int 4,
     .bag [2, 1], .bag [1, 3], .bool true, .int 2,
     .seq [1, 2, 3], .seq [], .err, .seq [2, 3, 4], .seq [7, 2, 3, 4, 8, 9], .int 9, .err,
     .seq [1, 2], .err, .seq [1, 9], .err,
     .seq [0, 255], .err, .seq [0, 255, 7], .err,
     .str ['h', 'é', 'λ', '😀', 'x'], .str ['é', 'λ', '😀'], .chr '😀', .err, .str ['é', 'λ', '😀']] := by decide

/-! ## Clauses of the property not carried by a theorem -/

/-
What the theorems say, read together.  (1) On every ACYCLIC value graph over the modelled kinds (integers,
floats by bit pattern, booleans, characters, strings, symbols, void, rationals, byte vectors; lists, pairs,
immutable and mutable vectors, structs, boxes, hash maps, hash sets), with arbitrary nesting and arbitrary
sharing, without NaN, with pairwise different map keys and under the assumption `ListSigOK` about list
identities, the model of the worklist `equal?` of the fixed configuration equals equality of the unfoldings
(`eq_structural`); it is reflexive (`eq_refl`); symmetric and transitive on values WITHOUT hash maps/sets
(`eq_symm_partial`, `eq_trans_partial`); values with equal unfoldings hash alike (`hash_respects_eq`) and are
found as each other's keys (`keys_interchangeable`).  That the current code HAS the fixed configuration is
`GenSound.code_cfg_sound` (a `decide` on the regenerated `codeCfg`).  (2) The REFERENCE models of the
collections (association lists, duplicate-free lists, lists with integer indices) satisfy the laws of finite
maps, finite sets and sequences, including boundary indices and duplicate keys.

NOT carried by any theorem (covered only by the differential correspondence of checks/c11.py):

 * **"equal? is an equivalence relation" through hash maps and hash sets**: symmetry and transitivity are
   proved only under `NoHashed` (see `eq_symm_partial`); the guards lack "set members are pairwise different",
   without which symmetry is false in the model (`eq_symm_fails_without_distinct_members`).
 * **NaN**: every theorem about `equal?` assumes `NoNaN` (a NaN is not `equal?` to itself — documented
   semantics; but also a list CONTAINING a NaN is outside every theorem).
 * **Cyclic values** (built by mutation of boxes / mutable vectors / mutable struct fields): `WF` demands an
   acyclic graph; the cycle protection of the visited set, which is what the set exists for, is not verified
   (C18 looks at termination only).
 * **The other value kinds** ("all value kinds", 36 of them): closures, built-in and boxed functions, ports,
   continuations, streams, futures, syntax objects, opaque/custom Rust values, complex numbers, mutable vs
   immutable strings, … have no `Leaf`/`Node` constructor (`Cfg.armComplex`, `Cfg.armBoxedFunction` are fields
   without a value kind to act on).
 * **`eq?` and `eqv?`** and numeric `=`: no model, no theorem.
 * **`ListSigOK`** (lists whose first nodes share storage, index and next pointer have the same elements) and
   "one head cell, one node id" are ASSUMPTIONS about im-lists, checked on the graphs the harness builds.
 * **The hash function itself**: `hashEq` is "feeds the hasher the same stream"; 64-bit collisions, the
   `Hasher`, and the HAMT (`im`/`imbl`) lookup that `keys_interchangeable` abstracts as "same hash and `==`"
   are not modelled.
 * **Collections — there is no model M of the Rust primitives**: the theorems of the last section are laws of
   the reference S (`Coll.*`); that `hash-insert`, `hash-ref`, `hashset-*`, `list-ref`, `vector-set!`,
   `substring`, `bytes-set!`, … of the real engine behave as S on operation SEQUENCES is the correspondence only.
   No law is stated for `append`, `reverse`, `range`, `last`, `hash-keys->list`, `hash-values->list`,
   `hashset-subset?`, `hashset-remove`, `string-append`, `string->list`, `list->string`, `vector-append`,
   `bytes-append`, `hash-clear`, `cons`/`car`/`cdr` on improper pairs (the definitions `lLast`, `mKeys`,
   `mValues`, `sSubset`, `sRemove` are used by the driver only).  `first_rest` restates the definition.
 * **Keys that are themselves collections** inside the collection laws: the laws are generic in a key type with
   decidable equality; the link "Steel key equality = `eqSpec`" is `keys_interchangeable`, the composition of
   the two (a finite map keyed by graphs modulo `eqSpec`) is not stated as a theorem.
 * **Strings with arbitrary Unicode**: `strSub`/`strRef` index a `List Char`; byte offsets / UTF-8 boundaries of
   the real `substring` are not modelled.
-/

end SteelVerif.C11
