import SteelVerif.C11.Props
import SteelVerif.C11.GenSound
open SteelVerif.C11
#print axioms not_eq_structural_old_witness
#print axioms code_cfg_sound
