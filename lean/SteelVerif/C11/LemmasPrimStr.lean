/-
C11 helper lemmas, part 8: the string primitives of the model P (`Prim.bounds`: character indices turned into byte
offsets through `char_indices()`, slicing by byte offsets, the guards that compare with the BYTE length) compute
`substring` / `string-ref` / `string->list` on characters (`Coll.strSub`, `Coll.strFrom`, `Coll.strRef`).
-/
import SteelVerif.C11.Prim
import SteelVerif.C11.LemmasColl
namespace SteelVerif.C11
open Coll

theorem byteLen_nil : Prim.byteLen [] = 0 := rfl

theorem byteLen_cons (c : Char) (cs : List Char) : Prim.byteLen (c :: cs) = c.utf8Size + Prim.byteLen cs := by
  simp [Prim.byteLen]

/-- a string has at most as many characters as bytes -/
theorem length_le_byteLen : ∀ s : List Char, s.length ≤ Prim.byteLen s
  | [] => Nat.le_refl _
  | c :: cs => by
      rw [byteLen_cons, List.length_cons]
      have := length_le_byteLen cs
      have := Char.utf8Size_pos c
      omega

/-- the k-th element of `char_indices().map(offset).chain(once(len))` is the byte length of the first k characters -/
theorem charOffsets_get : ∀ (s : List Char) (o k : Nat),
    (Prim.charOffsets o s)[k]? = if k ≤ s.length then some (o + Prim.byteLen (s.take k)) else none
  | [], o, 0 => by simp [Prim.charOffsets, byteLen_nil]
  | [], o, k + 1 => by simp [Prim.charOffsets]
  | c :: cs, o, 0 => by simp [Prim.charOffsets, byteLen_nil]
  | c :: cs, o, k + 1 => by
      simp only [Prim.charOffsets, List.getElem?_cons_succ, List.length_cons, List.take_succ_cons, byteLen_cons]
      rw [charOffsets_get cs (o + c.utf8Size) k]
      by_cases h : k ≤ cs.length
      · simp [h, Nat.add_assoc]
      · simp [h]

theorem slice_empty : ∀ (s : List Char) (o a b : Nat), b ≤ o → Prim.sliceBytes o a b s = []
  | [], _, _, _, _ => rfl
  | c :: cs, o, a, b, h => by
      have hlt : ¬ o < b := by omega
      simp only [Prim.sliceBytes, hlt, decide_false, Bool.and_false, Bool.false_eq_true, if_false]
      exact slice_empty cs _ a b (by omega)

/-- the start of the range matters only through `start ≤ offset` -/
theorem slice_start : ∀ (s : List Char) (o a a' b : Nat), a ≤ o → a' ≤ o →
    Prim.sliceBytes o a b s = Prim.sliceBytes o a' b s
  | [], _, _, _, _, _, _ => rfl
  | c :: cs, o, a, a', b, h, h' => by
      simp only [Prim.sliceBytes, h, h', decide_true, Bool.true_and]
      rw [slice_start cs (o + c.utf8Size) a a' b (by omega) (by omega)]

/-- slicing at the byte offsets of the i-th and the j-th character = dropping i and taking j - i characters -/
theorem slice_eq : ∀ (s : List Char) (o i j : Nat), i ≤ j → j ≤ s.length →
    Prim.sliceBytes o (o + Prim.byteLen (s.take i)) (o + Prim.byteLen (s.take j)) s = (s.drop i).take (j - i)
  | [], o, i, j, hij, hj => by
      have : j = 0 := by simpa using hj
      subst this
      have : i = 0 := by omega
      subst this
      rfl
  | c :: cs, o, 0, 0, _, _ => by
      simp only [List.take_zero, byteLen_nil, Nat.add_zero, Prim.sliceBytes, Nat.lt_irrefl, decide_false,
        Bool.and_false, Bool.false_eq_true, if_false, List.drop_zero, Nat.sub_self]
      exact slice_empty cs _ o o (by omega)
  | c :: cs, o, 0, j + 1, _, hj => by
      have hpos := Char.utf8Size_pos c
      simp only [List.take_zero, byteLen_nil, Nat.add_zero, List.take_succ_cons, byteLen_cons, Prim.sliceBytes,
        List.drop_zero, Nat.sub_zero]
      have hlt : o < o + (c.utf8Size + Prim.byteLen (cs.take j)) := by omega
      simp only [Nat.le_refl, hlt, decide_true, Bool.and_self, if_true]
      congr 1
      rw [slice_start cs (o + c.utf8Size) o (o + c.utf8Size) _ (by omega) (Nat.le_refl _)]
      have := slice_eq cs (o + c.utf8Size) 0 j (Nat.zero_le _) (by simpa using hj)
      simp only [List.take_zero, byteLen_nil, Nat.add_zero, List.drop_zero, Nat.sub_zero] at this
      rw [Nat.add_assoc] at this
      exact this
  | c :: cs, o, i + 1, 0, hij, _ => by omega
  | c :: cs, o, i + 1, j + 1, hij, hj => by
      have hpos := Char.utf8Size_pos c
      simp only [List.take_succ_cons, byteLen_cons, Prim.sliceBytes, List.drop_succ_cons]
      have hle : ¬ (o + (c.utf8Size + Prim.byteLen (cs.take i)) ≤ o) := by omega
      simp only [hle, decide_false, Bool.false_and, Bool.false_eq_true, if_false]
      have := slice_eq cs (o + c.utf8Size) i j (by omega) (by simpa using hj)
      rw [Nat.add_assoc, Nat.add_assoc] at this
      rw [this]
      congr 1
      omega

/-- **`bounds` + byte slicing = character range**: every check of `bounds` (negative bounds, the early comparison of
    a CHARACTER index with the BYTE length, left > right, `nth` on the offsets) errs exactly outside `0 ≤ i ≤ j ≤ length` -/
theorem bounds_slice (s : List Char) (i j : Option Int) :
    (match Prim.bounds s i j with
      | .ok (a, b) => Res.ok (Prim.sliceBytes 0 a b s)
      | .err => Res.err) = strRange s i j := by
  have hlen := length_le_byteLen s
  unfold Prim.bounds strRange
  simp only
  generalize i.getD 0 = i0
  by_cases hneg : i0 < 0
  · cases j <;> simp [hneg, strSub, strFrom]
  · simp only [hneg, if_false]
    by_cases hbig : i0.toNat > Prim.byteLen s
    · have hgt : i0.toNat > s.length := by omega
      simp only [hbig, if_true]
      cases j with
      | none => simp [strFrom, hgt]
      | some j =>
        simp only [strSub]
        by_cases hj : j < i0
        · simp [hj]
        · have : j.toNat > s.length := by omega
          simp [this]
    · simp only [hbig, if_false]
      cases j with
      | none =>
        simp only [Bool.false_eq_true, if_false, charOffsets_get, Nat.zero_add]
        by_cases hle : i0.toNat ≤ s.length
        · simp only [hle, if_true, strFrom]
          have hnot : ¬ (i0.toNat > s.length) := by omega
          simp only [hneg, hnot, decide_false, Bool.or_self, Bool.false_eq_true, if_false]
          have := slice_eq s 0 i0.toNat s.length hle (Nat.le_refl _)
          simp only [Nat.zero_add, List.take_length] at this
          rw [this, List.take_of_length_le (by simp)]
        · have hgt : i0.toNat > s.length := by omega
          simp [hle, strFrom, hgt]
      | some j =>
        simp only [strSub]
        by_cases hjneg : j < 0
        · have : j < i0 := by omega
          simp [hjneg, this]
        · simp only [hjneg, if_false]
          by_cases hij : i0.toNat > j.toNat
          · have : j < i0 := by omega
            simp [hij, this]
          · have hji : ¬ j < i0 := by omega
            simp only [hij, decide_false, Bool.false_eq_true, if_false, charOffsets_get, Nat.zero_add]
            by_cases hle : i0.toNat ≤ s.length
            · simp only [hle, if_true]
              cases hd : j.toNat - i0.toNat with
              | zero =>
                have hjj : j.toNat = i0.toNat := by omega
                have hnot : ¬ (j.toNat > s.length) := by omega
                simp only [List.getElem?_cons_zero, hneg, hji, hnot, decide_false, Bool.or_self, Bool.false_eq_true,
                  if_false, hd, List.take_zero]
                have := slice_eq s 0 i0.toNat i0.toNat (Nat.le_refl _) hle
                simp only [Nat.zero_add, Nat.sub_self, List.take_zero] at this
                rw [this]
              | succ k =>
                simp only [List.getElem?_cons_succ, List.getElem?_drop, charOffsets_get, Nat.zero_add]
                have hidx : i0.toNat + 1 + k = j.toNat := by omega
                rw [hidx]
                by_cases hjl : j.toNat ≤ s.length
                · have hnot : ¬ (j.toNat > s.length) := by omega
                  simp only [hjl, if_true, hneg, hji, hnot, decide_false, Bool.or_self, Bool.false_eq_true, if_false]
                  have := slice_eq s 0 i0.toNat j.toNat (by omega) hjl
                  simp only [Nat.zero_add] at this
                  rw [this, hd]
                · have hgt : j.toNat > s.length := by omega
                  simp [hjl, hgt]
            · have hgt : j.toNat > s.length := by omega
              simp [hle, hgt]

theorem substring_eq (s : List Char) (i : Int) (j : Option Int) :
    Prim.substring s i j = strRange s (some i) j := by
  unfold Prim.substring Prim.asUsize
  by_cases h : i < 0
  · cases j <;> simp [h, strRange, strSub, strFrom]
  · simp only [h, if_false]
    rw [← bounds_slice]
    cases Prim.bounds s (some i) j with
    | err => rfl
    | ok p => rfl

theorem stringToList_eq (s : List Char) (i j : Option Int) : Prim.stringToList s i j = strRange s i j := by
  unfold Prim.stringToList
  rw [← bounds_slice]
  cases Prim.bounds s i j with
  | err => rfl
  | ok p => rfl

/-- `string-ref`: the guard against the byte length never rejects a valid character index -/
theorem stringRef_eq (s : List Char) (i : Int) : Prim.stringRef s i = strRef s i := by
  have hlen := length_le_byteLen s
  unfold Prim.stringRef Prim.asUsize strRef lRef
  by_cases h : i < 0
  · simp [h]
  · simp only [h, if_false]
    by_cases hb : i.toNat < Prim.byteLen s
    · simp only [hb, if_true]
      cases s[i.toNat]? <;> rfl
    · have : s[i.toNat]? = none := List.getElem?_eq_none (by omega)
      simp only [hb, if_false, this]

theorem stringAppend_eq (args : List (List Char)) : Prim.stringAppend args = args.flatten := by
  unfold Prim.stringAppend
  have : ∀ (xs : List (List Char)) (acc : List Char), xs.foldl (fun acc a => acc ++ a) acc = acc ++ xs.flatten := by
    intro xs
    induction xs with
    | nil => intro acc; simp
    | cons r rs ih => intro acc; simp [ih]
  simp [this]

end SteelVerif.C11
