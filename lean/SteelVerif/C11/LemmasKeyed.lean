/-
C11 helper lemmas, part 10: hash maps keyed by values of the graph.  For ANY key relation `r` that is symmetric and
transitive on a class `P` of keys (for the graph instance: `keyEqImpl Cfg.fixed g` = `eqSpec g` on the ids of a graph
that satisfies the guards), the entry-list operations `gmInsert` / `gmRemove` / `gmGet` obey the laws of a finite map
whose keys are taken MODULO `r`: related keys are interchangeable in every operation.
-/
import SteelVerif.C11.Model
namespace SteelVerif.C11

structure KeyRel (P : Nat → Prop) (r : Nat → Nat → Bool) : Prop where
  symm : ∀ a b, P a → P b → r a b = r b a
  trans : ∀ a b c, P a → P b → P c → r a b = true → r b c = true → r a c = true

/-- the representation invariant: keys in the class, pairwise unrelated -/
def KeysOK {ν : Type} (P : Nat → Prop) (r : Nat → Nat → Bool) (es : List (Nat × ν)) : Prop :=
  (∀ e ∈ es, P e.1) ∧ es.Pairwise (fun e f => r e.1 f.1 = false)

section
variable {ν : Type} {P : Nat → Prop} {r : Nat → Nat → Bool}

theorem keysOK_nil : KeysOK P r ([] : List (Nat × ν)) := ⟨by simp, List.Pairwise.nil⟩

/-- related keys are unrelated to the same stored keys -/
theorem rel_congr_left (h : KeyRel P r) {k k' x : Nat} (hk : P k) (hk' : P k') (hx : P x) (hkk : r k k' = true) :
    r k x = r k' x := by
  cases h1 : r k x <;> cases h2 : r k' x
  · rfl
  · exact absurd (h.trans k k' x hk hk' hx hkk h2) (by simp [h1])
  · have hk'k : r k' k = true := by rw [h.symm k' k hk' hk]; exact hkk
    exact absurd (h.trans k' k x hk' hk hx hk'k h1) (by simp [h2])
  · rfl

theorem find?_congr {α : Type} {p q : α → Bool} : ∀ (l : List α), (∀ x ∈ l, p x = q x) → l.find? p = l.find? q
  | [], _ => rfl
  | x :: xs, h => by
      simp only [List.find?_cons]
      rw [h x (List.mem_cons_self ..), find?_congr xs (fun z hz => h z (List.mem_cons_of_mem _ hz))]

/-- **keys are interchangeable in lookups**: related queries get the same answer -/
theorem gmGet_congr (h : KeyRel P r) {es : List (Nat × ν)} (hes : KeysOK P r es) {k k' : Nat} (hk : P k) (hk' : P k')
    (hkk : r k k' = true) : gmGet r es k = gmGet r es k' := by
  unfold gmGet
  congr 1
  apply find?_congr
  intro e he
  exact rel_congr_left h hk hk' (hes.1 e he) hkk

/-- `find?` skips what a filter removed when the removed elements do not satisfy the predicate -/
theorem find?_filter_of {α : Type} {p q : α → Bool} : ∀ (l : List α), (∀ x ∈ l, q x = true → p x = true) →
    (l.filter p).find? q = l.find? q
  | [], _ => rfl
  | x :: xs, h => by
      have ih := find?_filter_of xs (fun z hz => h z (List.mem_cons_of_mem _ hz))
      by_cases hp : p x = true
      · rw [List.filter_cons, if_pos hp, List.find?_cons, List.find?_cons, ih]
      · have hq : q x = false := by
          cases hq : q x
          · rfl
          · exact absurd (h x (List.mem_cons_self ..) hq) hp
        rw [List.filter_cons, if_neg hp, ih, List.find?_cons, hq]

theorem gmGet_insert (h : KeyRel P r) {es : List (Nat × ν)} (hes : KeysOK P r es) {k k' : Nat} (v : ν)
    (hk : P k) (hk' : P k') :
    gmGet r (gmInsert r es k v) k' = if r k' k = true then some v else gmGet r es k' := by
  unfold gmGet gmInsert
  rw [List.find?_append]
  by_cases hkk : r k' k = true
  · -- no surviving entry is found by k'
    have hnone : (es.filter fun e => !r k e.1).find? (fun e => r k' e.1) = none := by
      rw [List.find?_eq_none]
      intro e he
      have hm := List.mem_filter.mp he
      have hne : r k e.1 = false := by simpa using hm.2
      rw [rel_congr_left h hk' hk (hes.1 e hm.1) hkk, hne]
      simp
    simp [hnone, hkk]
  · have hkk' : r k' k = false := by simpa using hkk
    have hsame : (es.filter fun e => !r k e.1).find? (fun e => r k' e.1) = es.find? (fun e => r k' e.1) := by
      apply find?_filter_of
      intro e he hq
      -- r k' e, and if r k e then r k' k: contradiction
      cases hke : r k e.1
      · rfl
      · have hek : r e.1 k = true := by rw [h.symm e.1 k (hes.1 e he) hk]; exact hke
        exact absurd (h.trans k' e.1 k hk' (hes.1 e he) hk hq hek) hkk
    rw [hsame]
    cases es.find? (fun e => r k' e.1) with
    | some e => simp [hkk]
    | none => simp [hkk, hkk']

theorem gmGet_remove (h : KeyRel P r) {es : List (Nat × ν)} (hes : KeysOK P r es) {k k' : Nat}
    (hk : P k) (hk' : P k') :
    gmGet r (gmRemove r es k) k' = if r k' k = true then none else gmGet r es k' := by
  unfold gmGet gmRemove
  by_cases hkk : r k' k = true
  · have hnone : (es.filter fun e => !r k e.1).find? (fun e => r k' e.1) = none := by
      rw [List.find?_eq_none]
      intro e he
      have hm := List.mem_filter.mp he
      have hne : r k e.1 = false := by simpa using hm.2
      rw [rel_congr_left h hk' hk (hes.1 e hm.1) hkk, hne]
      simp
    simp [hnone, hkk]
  · have hsame : (es.filter fun e => !r k e.1).find? (fun e => r k' e.1) = es.find? (fun e => r k' e.1) := by
      apply find?_filter_of
      intro e he hq
      cases hke : r k e.1
      · rfl
      · have hek : r e.1 k = true := by rw [h.symm e.1 k (hes.1 e he) hk]; exact hke
        exact absurd (h.trans k' e.1 k hk' (hes.1 e he) hk hq hek) hkk
    rw [hsame]
    simp [hkk]

theorem keysOK_remove {es : List (Nat × ν)} (hes : KeysOK P r es) (k : Nat) : KeysOK P r (gmRemove r es k) :=
  ⟨fun e he => hes.1 e (List.mem_filter.mp he).1, hes.2.filter _⟩

theorem keysOK_insert (h : KeyRel P r) {es : List (Nat × ν)} (hes : KeysOK P r es) {k : Nat} (v : ν) (hk : P k) :
    KeysOK P r (gmInsert r es k v) := by
  unfold gmInsert
  constructor
  · intro e he
    rcases List.mem_append.mp he with he | he
    · exact hes.1 e (List.mem_filter.mp he).1
    · rw [List.mem_singleton.mp he]; exact hk
  · rw [List.pairwise_append]
    refine ⟨hes.2.filter _, List.pairwise_singleton _ _, ?_⟩
    intro a ha b hb
    rw [List.mem_singleton.mp hb]
    have hm := List.mem_filter.mp ha
    have hne : r k a.1 = false := by simpa using hm.2
    show r a.1 k = false
    rw [h.symm a.1 k (hes.1 a hm.1) hk]
    exact hne

/-- at most one stored key answers a query -/
theorem filter_related_length (h : KeyRel P r) : ∀ {es : List (Nat × ν)}, KeysOK P r es → ∀ {k : Nat}, P k →
    (es.filter fun e => r k e.1).length ≤ 1
  | [], _, _, _ => by simp
  | e :: es, hes, k, hk => by
      have hes' : KeysOK P r es := ⟨fun x hx => hes.1 x (List.mem_cons_of_mem _ hx), (List.pairwise_cons.mp hes.2).2⟩
      have ih := filter_related_length h hes' hk
      by_cases he : r k e.1 = true
      · -- then no other entry is related to k
        have hnil : es.filter (fun x => r k x.1) = [] := by
          rw [List.filter_eq_nil_iff]
          intro x hx hrx
          have hPe := hes.1 e (List.mem_cons_self ..)
          have hPx := hes.1 x (List.mem_cons_of_mem _ hx)
          have hek : r e.1 k = true := by rw [h.symm e.1 k hPe hk]; exact he
          have := h.trans e.1 k x.1 hPe hk hPx hek hrx
          rw [(List.pairwise_cons.mp hes.2).1 x hx] at this
          exact absurd this (by simp)
        simp [List.filter_cons, he, hnil]
      · simp only [List.filter_cons, he, if_false]
        exact ih

theorem length_filter_not {α : Type} (p : α → Bool) : ∀ (l : List α),
    (l.filter fun x => !p x).length + (l.filter p).length = l.length
  | [] => rfl
  | x :: xs => by
      have ih := length_filter_not p xs
      cases hp : p x <;> simp [List.filter_cons, hp] <;> omega

/-- `hash-length` after `hash-insert`: grows by one exactly when no stored key is related to the new one -/
theorem gmInsert_length (h : KeyRel P r) {es : List (Nat × ν)} (hes : KeysOK P r es) {k : Nat} (v : ν) (hk : P k) :
    (gmInsert r es k v).length = if (gmGet r es k).isSome then es.length else es.length + 1 := by
  unfold gmInsert gmGet
  rw [List.length_append, List.length_singleton]
  have hsum := length_filter_not (fun e : Nat × ν => r k e.1) es
  have hle := filter_related_length h hes hk
  cases hf : es.find? (fun e => r k e.1) with
  | none =>
    have : es.filter (fun e => r k e.1) = [] := by
      rw [List.filter_eq_nil_iff]
      intro x hx
      exact (List.find?_eq_none.mp hf) x hx
    rw [this] at hsum
    simp at hsum ⊢
    omega
  | some e =>
    have hmem : e ∈ es.filter (fun e => r k e.1) :=
      List.mem_filter.mpr ⟨List.mem_of_find?_eq_some hf, List.find?_some (p := fun e : Nat × ν => r k e.1) hf⟩
    have hpos : 0 < (es.filter fun e => r k e.1).length := List.length_pos_of_mem hmem
    simp
    omega

theorem keysOK_foldl (h : KeyRel P r) : ∀ (kvs : List (Nat × ν)) (es : List (Nat × ν)), KeysOK P r es →
    (∀ e ∈ kvs, P e.1) → KeysOK P r (kvs.foldl (fun m e => gmInsert r m e.1 e.2) es)
  | [], _, hes, _ => hes
  | e :: kvs, es, hes, hP => by
      rw [List.foldl_cons]
      exact keysOK_foldl h kvs _ (keysOK_insert h hes e.2 (hP e (List.mem_cons_self ..)))
        (fun x hx => hP x (List.mem_cons_of_mem _ hx))

/-- `(hash k1 v1 k2 v2 …)` with keys taken modulo `r`: the LAST binding whose key is related to the query wins -/
theorem gmGet_foldl (h : KeyRel P r) : ∀ (kvs : List (Nat × ν)) (es : List (Nat × ν)), KeysOK P r es →
    (∀ e ∈ kvs, P e.1) → ∀ k, P k →
    gmGet r (kvs.foldl (fun m e => gmInsert r m e.1 e.2) es) k =
      match kvs.reverse.find? (fun e => r k e.1) with
      | some e => some e.2
      | none => gmGet r es k
  | [], _, _, _, _, _ => by simp
  | e :: kvs, es, hes, hP, k, hk => by
      have hPe := hP e (List.mem_cons_self ..)
      rw [List.foldl_cons, gmGet_foldl h kvs _ (keysOK_insert h hes e.2 hPe)
        (fun x hx => hP x (List.mem_cons_of_mem _ hx)) k hk]
      simp only [List.reverse_cons, List.find?_append]
      cases hf : kvs.reverse.find? (fun e => r k e.1) with
      | some e' => simp
      | none =>
        simp only [Option.none_or, List.find?_cons]
        rw [gmGet_insert h hes e.2 hPe hk]
        cases r k e.1 <;> simp

/-! ### `hash-union` on maps keyed by values -/

theorem keysOK_tail {e : Nat × ν} {es : List (Nat × ν)} (h : KeysOK P r (e :: es)) :
    KeysOK P r es ∧ ∀ x ∈ es, r e.1 x.1 = false :=
  ⟨⟨fun x hx => h.1 x (List.mem_cons_of_mem _ hx), (List.pairwise_cons.mp h.2).2⟩, (List.pairwise_cons.mp h.2).1⟩

/-- with pairwise unrelated keys at most one entry answers a query: the first and the last match coincide -/
theorem find?_reverse_of_keysOK (h : KeyRel P r) {q : Nat} (hq : P q) : ∀ {es : List (Nat × ν)}, KeysOK P r es →
    es.reverse.find? (fun e => r q e.1) = es.find? (fun e => r q e.1)
  | [], _ => rfl
  | e :: es, hes => by
      obtain ⟨hes', hdis⟩ := keysOK_tail hes
      have hPe := hes.1 e (List.mem_cons_self ..)
      rw [List.reverse_cons, List.find?_append, find?_reverse_of_keysOK h hq hes', List.find?_cons]
      cases hqe : r q e.1
      · simp [List.find?_cons, hqe]
      · have hnone : es.find? (fun e => r q e.1) = none := by
          rw [List.find?_eq_none]
          intro x hx hqx
          have heq : r e.1 q = true := by rw [h.symm e.1 q hPe hq]; exact hqe
          have := h.trans e.1 q x.1 hPe hq (hes'.1 x hx) heq hqx
          rw [hdis x hx] at this
          exact absurd this (by simp)
        simp [hnone, hqe]

theorem union_fold_vacant (h : KeyRel P r) {q : Nat} (hq : P q) : ∀ (es acc : List (Nat × ν)), KeysOK P r acc →
    (∀ e ∈ es, P e.1) →
    gmGet r (es.foldl (fun m e => if (gmGet r m e.1).isSome then m else gmInsert r m e.1 e.2) acc) q =
      (match gmGet r acc q with | some v => some v | none => gmGet r es q) ∧
    KeysOK P r (es.foldl (fun m e => if (gmGet r m e.1).isSome then m else gmInsert r m e.1 e.2) acc)
  | [], acc, hacc, _ => by
      refine ⟨?_, hacc⟩
      simp only [List.foldl_nil]
      cases hg : gmGet r acc q <;> rfl
  | e :: es, acc, hacc, hes => by
      have hPe := hes e (List.mem_cons_self ..)
      have hes' : ∀ x ∈ es, P x.1 := fun x hx => hes x (List.mem_cons_of_mem _ hx)
      have hhead : gmGet r (e :: es) q = if r q e.1 = true then some e.2 else gmGet r es q := by
        unfold gmGet
        rw [List.find?_cons]
        cases r q e.1 <;> simp
      rw [List.foldl_cons]
      cases hoc : (gmGet r acc e.1).isSome
      · -- vacant: inserted
        simp only [Bool.false_eq_true, if_false]
        have ih := union_fold_vacant h hq es _ (keysOK_insert h hacc e.2 hPe) hes'
        refine ⟨?_, ih.2⟩
        rw [ih.1, gmGet_insert h hacc e.2 hPe hq, hhead]
        cases hqe : r q e.1
        · simp
        · have : gmGet r acc q = none := by
            rw [gmGet_congr h hacc hq hPe hqe]
            cases hg : gmGet r acc e.1 with
            | none => rfl
            | some v => rw [hg] at hoc; simp at hoc
          simp [this]
      · -- occupied: kept
        simp only [if_true]
        have ih := union_fold_vacant h hq es acc hacc hes'
        refine ⟨?_, ih.2⟩
        rw [ih.1, hhead]
        cases hqe : r q e.1
        · simp
        · have hsome : (gmGet r acc q).isSome = true := by rw [gmGet_congr h hacc hq hPe hqe]; exact hoc
          cases hg : gmGet r acc q with
          | none => rw [hg] at hsome; simp at hsome
          | some v => rfl

/-- `hash-union` of maps keyed by values is left-biased modulo `r`, whichever map `imbl` decides to mutate -/
theorem gmUnion_laws (h : KeyRel P r) {l rr : List (Nat × ν)} (hl : KeysOK P r l) (hr : KeysOK P r rr) {q : Nat} (hq : P q) :
    gmGet r (gmUnion r l rr) q = (match gmGet r l q with | some v => some v | none => gmGet r rr q) ∧
    KeysOK P r (gmUnion r l rr) := by
  unfold gmUnion
  by_cases hlen : l.length ≥ rr.length
  · simp only [hlen, if_true]
    exact union_fold_vacant h hq rr l hl hr.1
  · simp only [hlen, if_false, ite_self]
    refine ⟨?_, keysOK_foldl h l rr hr hl.1⟩
    rw [gmGet_foldl h l rr hr hl.1 q hq, find?_reverse_of_keysOK h hq hl]
    unfold gmGet
    cases l.find? (fun e => r q e.1) <;> rfl

/-! ### hash sets keyed by values: a set is a map to `Unit` -/

def asMap (xs : List Nat) : List (Nat × Unit) := xs.map fun x => (x, ())

theorem setInsert_asMap (xs : List Nat) (k : Nat) :
    asMap (setInsertIds r xs k) = gmInsert r (asMap xs) k () := by
  unfold asMap setInsertIds gmInsert
  rw [List.map_append, List.filter_map]
  rfl

theorem any_asMap (xs : List Nat) (q : Nat) : xs.any (r q) = gmContains r (asMap xs) q := by
  unfold gmContains gmGet asMap
  induction xs with
  | nil => rfl
  | cons x xs ih =>
    simp only [List.any_cons, List.map_cons, List.find?_cons]
    cases r q x <;> simp [ih]

/-- the representation invariant of a set: members in the class, pairwise unrelated -/
def MembersOK (P : Nat → Prop) (r : Nat → Nat → Bool) (xs : List Nat) : Prop := KeysOK P r (asMap xs)

theorem membersOK_nil : MembersOK P r [] := keysOK_nil

theorem membersOK_insert (h : KeyRel P r) {xs : List Nat} (hxs : MembersOK P r xs) {k : Nat} (hk : P k) :
    MembersOK P r (setInsertIds r xs k) := by
  unfold MembersOK
  rw [setInsert_asMap]
  exact keysOK_insert h hxs () hk

/-- `(hashset-contains? (hashset-insert s k) k')` -/
theorem gsContains_insert (h : KeyRel P r) {xs : List Nat} (hxs : MembersOK P r xs) {k k' : Nat} (hk : P k) (hk' : P k') :
    (setInsertIds r xs k).any (r k') = (r k' k || xs.any (r k')) := by
  rw [any_asMap, any_asMap, setInsert_asMap]
  unfold gmContains
  rw [gmGet_insert h hxs () hk hk']
  cases r k' k <;> simp

/-- related values are interchangeable as members -/
theorem gsContains_congr (h : KeyRel P r) {xs : List Nat} (hxs : MembersOK P r xs) {k k' : Nat} (hk : P k) (hk' : P k')
    (hkk : r k k' = true) : xs.any (r k) = xs.any (r k') := by
  rw [any_asMap, any_asMap]
  unfold gmContains
  rw [gmGet_congr h hxs hk hk' hkk]

theorem gsInsert_length (h : KeyRel P r) {xs : List Nat} (hxs : MembersOK P r xs) {k : Nat} (hk : P k) :
    (setInsertIds r xs k).length = if xs.any (r k) then xs.length else xs.length + 1 := by
  have := gmInsert_length h hxs () hk
  rw [← setInsert_asMap] at this
  unfold asMap at this
  simp only [List.length_map] at this
  rw [any_asMap]
  exact this

/-! ### the set algebra, members modulo `r` -/

theorem remove_asMap (xs : List Nat) (k : Nat) : asMap (gsRemove r xs k) = gmRemove r (asMap xs) k := by
  unfold asMap gsRemove gmRemove
  rw [List.filter_map]
  rfl

theorem membersOK_remove {xs : List Nat} (hxs : MembersOK P r xs) (k : Nat) : MembersOK P r (gsRemove r xs k) := by
  unfold MembersOK
  rw [remove_asMap]
  exact keysOK_remove hxs k

theorem membersOK_P {xs : List Nat} (hxs : MembersOK P r xs) : ∀ x ∈ xs, P x := by
  intro x hx
  have := hxs.1 (x, ()) (by unfold asMap; exact List.mem_map.mpr ⟨x, hx, rfl⟩)
  exact this

theorem gsContains_remove (h : KeyRel P r) {xs : List Nat} (hxs : MembersOK P r xs) {k k' : Nat} (hk : P k) (hk' : P k') :
    (gsRemove r xs k).any (r k') = (!r k' k && xs.any (r k')) := by
  rw [any_asMap, any_asMap, remove_asMap]
  unfold gmContains
  rw [gmGet_remove h hxs hk hk']
  cases r k' k <;> simp

theorem membersOK_foldInsert (h : KeyRel P r) : ∀ (es acc : List Nat), MembersOK P r acc → (∀ e ∈ es, P e) →
    MembersOK P r (es.foldl (setInsertIds r) acc)
  | [], _, hacc, _ => hacc
  | e :: es, acc, hacc, hes => by
      rw [List.foldl_cons]
      exact membersOK_foldInsert h es _ (membersOK_insert h hacc (hes e (List.mem_cons_self ..)))
        (fun x hx => hes x (List.mem_cons_of_mem _ hx))

theorem contains_foldInsert (h : KeyRel P r) {q : Nat} (hq : P q) : ∀ (es acc : List Nat), MembersOK P r acc →
    (∀ e ∈ es, P e) → (es.foldl (setInsertIds r) acc).any (r q) = (acc.any (r q) || es.any (r q))
  | [], acc, _, _ => by simp
  | e :: es, acc, hacc, hes => by
      have hPe := hes e (List.mem_cons_self ..)
      rw [List.foldl_cons, contains_foldInsert h hq es _ (membersOK_insert h hacc hPe)
        (fun x hx => hes x (List.mem_cons_of_mem _ hx)), gsContains_insert h hacc hPe hq, List.any_cons]
      cases r q e <;> cases acc.any (r q) <;> simp

/-- `hashset-union`: whichever set `imbl` mutates -/
theorem gsUnion_laws (h : KeyRel P r) {a b : List Nat} (ha : MembersOK P r a) (hb : MembersOK P r b) {q : Nat} (hq : P q) :
    (gsUnion r a b).any (r q) = (a.any (r q) || b.any (r q)) ∧ MembersOK P r (gsUnion r a b) := by
  unfold gsUnion
  by_cases hl : a.length ≥ b.length
  · simp only [hl, if_true]
    exact ⟨contains_foldInsert h hq b a ha (membersOK_P hb), membersOK_foldInsert h b a ha (membersOK_P hb)⟩
  · simp only [hl, if_false]
    refine ⟨?_, membersOK_foldInsert h a b hb (membersOK_P ha)⟩
    rw [contains_foldInsert h hq a b hb (membersOK_P ha), Bool.or_comm]

theorem any_congr_mem' {α : Type} {p q : α → Bool} : ∀ (l : List α), (∀ x ∈ l, p x = q x) → l.any p = l.any q
  | [], _ => rfl
  | x :: xs, h => by
      simp only [List.any_cons]
      rw [h x (List.mem_cons_self ..), any_congr_mem' xs (fun z hz => h z (List.mem_cons_of_mem _ hz))]

theorem inter_fold (h : KeyRel P r) {self : List Nat} (hs : MembersOK P r self) {q : Nat} (hq : P q) :
    ∀ (es out : List Nat), MembersOK P r out → (∀ e ∈ es, P e) →
    (es.foldl (fun out x => if self.any (r x) then setInsertIds r out x else out) out).any (r q) =
      (out.any (r q) || (es.any (r q) && self.any (r q))) ∧
    MembersOK P r (es.foldl (fun out x => if self.any (r x) then setInsertIds r out x else out) out)
  | [], out, hout, _ => by simp [hout]
  | e :: es, out, hout, hes => by
      have hPe := hes e (List.mem_cons_self ..)
      have hes' : ∀ x ∈ es, P x := fun x hx => hes x (List.mem_cons_of_mem _ hx)
      rw [List.foldl_cons]
      by_cases hc : self.any (r e) = true
      · simp only [hc, if_true]
        have ih := inter_fold h hs hq es _ (membersOK_insert h hout hPe) hes'
        refine ⟨?_, ih.2⟩
        rw [ih.1, gsContains_insert h hout hPe hq, List.any_cons]
        cases hqe : r q e
        · simp
        · -- q is related to e, and e is in self: so is q
          have : self.any (r q) = true := by rw [gsContains_congr h hs hq hPe hqe]; exact hc
          simp [this]
      · have hc' : self.any (r e) = false := by simpa using hc
        simp only [hc', Bool.false_eq_true, if_false]
        have ih := inter_fold h hs hq es out hout hes'
        refine ⟨?_, ih.2⟩
        rw [ih.1, List.any_cons]
        cases hqe : r q e
        · simp
        · have : self.any (r q) = false := by rw [gsContains_congr h hs hq hPe hqe]; exact hc'
          simp [this]

/-- `hashset-intersection` -/
theorem gsInter_laws (h : KeyRel P r) {a b : List Nat} (ha : MembersOK P r a) (hb : MembersOK P r b) {q : Nat} (hq : P q) :
    (gsInter r a b).any (r q) = (a.any (r q) && b.any (r q)) ∧ MembersOK P r (gsInter r a b) := by
  unfold gsInter
  have := inter_fold h ha hq b [] membersOK_nil (membersOK_P hb)
  refine ⟨?_, this.2⟩
  rw [this.1]
  simp [Bool.and_comm]

theorem membersOK_tail {e : Nat} {es : List Nat} (h : MembersOK P r (e :: es)) :
    MembersOK P r es ∧ ∀ x ∈ es, r e x = false := by
  unfold MembersOK asMap at h
  simp only [List.map_cons] at h
  have hp := List.pairwise_cons.mp h.2
  refine ⟨⟨fun x hx => h.1 x (List.mem_cons_of_mem _ hx), hp.2⟩, ?_⟩
  intro x hx
  exact hp.1 (x, ()) (List.mem_map.mpr ⟨x, hx, rfl⟩)

theorem sym_fold (h : KeyRel P r) {q : Nat} (hq : P q) : ∀ (es acc : List Nat), MembersOK P r acc → MembersOK P r es →
    (es.foldl (fun acc x => if acc.any (r x) then gsRemove r acc x else setInsertIds r acc x) acc).any (r q) =
      (acc.any (r q) != es.any (r q)) ∧
    MembersOK P r (es.foldl (fun acc x => if acc.any (r x) then gsRemove r acc x else setInsertIds r acc x) acc)
  | [], acc, hacc, _ => by simp [hacc]
  | e :: es, acc, hacc, hes => by
      have hPe : P e := membersOK_P hes e (List.mem_cons_self ..)
      obtain ⟨hes', hdis⟩ := membersOK_tail hes
      rw [List.foldl_cons]
      -- one step toggles the class of `e`
      have hstep : (if acc.any (r e) then gsRemove r acc e else setInsertIds r acc e).any (r q) = (acc.any (r q) != r q e) ∧
          MembersOK P r (if acc.any (r e) then gsRemove r acc e else setInsertIds r acc e) := by
        by_cases hc : acc.any (r e) = true
        · simp only [hc, if_true]
          refine ⟨?_, membersOK_remove hacc e⟩
          rw [gsContains_remove h hacc hPe hq]
          cases hqe : r q e
          · simp
          · have : acc.any (r q) = true := by rw [gsContains_congr h hacc hq hPe hqe]; exact hc
            simp [this]
        · have hc' : acc.any (r e) = false := by simpa using hc
          simp only [hc', Bool.false_eq_true, if_false]
          refine ⟨?_, membersOK_insert h hacc hPe⟩
          rw [gsContains_insert h hacc hPe hq]
          cases hqe : r q e
          · simp
          · have : acc.any (r q) = false := by rw [gsContains_congr h hacc hq hPe hqe]; exact hc'
            simp [this]
      have ih := sym_fold h hq es _ hstep.2 hes'
      refine ⟨?_, ih.2⟩
      rw [ih.1, hstep.1, List.any_cons]
      cases hqe : r q e
      · simp
      · -- q related to e: then q is related to no other member of `es`
        have hnone : es.any (r q) = false := by
          rw [List.any_eq_false]
          intro x hx hqx
          have hPx := membersOK_P hes' x hx
          have heq : r e q = true := by rw [h.symm e q hPe hq]; exact hqe
          have := h.trans e q x hPe hq hPx heq hqx
          rw [hdis x hx] at this
          exact absurd this (by simp)
        simp [hnone]

/-- `hashset-difference` (= `symmetric_difference`) -/
theorem gsSymDiff_laws (h : KeyRel P r) {a b : List Nat} (ha : MembersOK P r a) (hb : MembersOK P r b) {q : Nat} (hq : P q) :
    (gsSymDiff r a b).any (r q) = (a.any (r q) != b.any (r q)) ∧ MembersOK P r (gsSymDiff r a b) :=
  sym_fold h hq b a ha hb

/-- `hashset-subset?` -/
theorem gsSubset_iff (h : KeyRel P r) (hrefl : ∀ a, P a → r a a = true) {a b : List Nat} (ha : MembersOK P r a)
    (hb : MembersOK P r b) :
    gsSubset r a b = true ↔ ∀ q, P q → a.any (r q) = true → b.any (r q) = true := by
  unfold gsSubset
  rw [List.all_eq_true]
  constructor
  · intro hall q hq hqa
    obtain ⟨x, hx, hqx⟩ := List.any_eq_true.mp hqa
    rw [gsContains_congr h hb hq (membersOK_P ha x hx) hqx]
    exact hall x hx
  · intro hq x hx
    have hPx := membersOK_P ha x hx
    exact hq x hPx (List.any_eq_true.mpr ⟨x, hx, hrefl x hPx⟩)

end
end SteelVerif.C11
