/-
C11 driver: runs the model on the line protocol of `harness/src/bin/c11.rs`.

  def NAME <kind> <args>      (the *resolved* definitions printed by the harness)  -> `def NAME`
  eq A B    -> `eq impl=<b> spec=<b> old=<b> wf=<b> nonan=<b> keys=<b> sig=<b> shared=<b>`
  hq A B    -> `hq impl=<b> old=<b>`
  key A B   -> `key impl=<b> spec=<b>`
  cfg legacy|fixed|code       choose the configuration used for `impl` (default: `codeCfg`, generated)
  reset
  cm/cs/cl/cv/cb/ct <op> ..   collection registers (see `collLine`)
-/
import SteelVerif.C11.GenCfg
namespace SteelVerif.C11

structure DState where
  names : List (String × Nat) := []
  graph : Graph := []
  cfg : Cfg := codeCfg
  /-- the guards of the current graph (wf, nonan, keys, sig), computed once per graph -/
  guards : Option String := none
  cm : Coll.M Int Int := []
  cs : Coll.S Int := []
  cl : List Int := []
  cv : List Int := []
  cb : List Int := []
  ct : List Int := []

def lookupName (s : DState) (n : String) : Option Nat := (s.names.find? (·.1 == n)).map (·.2)

def parseCps (s : String) : List Nat :=
  if s == "-" || s == "" then [] else (s.splitOn ",").filterMap (·.toNat?)

def cpsToString (s : String) : String := String.ofList ((parseCps s).map Char.ofNat)

def lookupAllNames (s : DState) (ns : List String) : Option (List Nat) := ns.mapM (lookupName s)

def pairUp : List Nat → Option (List (Nat × Nat))
  | [] => some []
  | k :: v :: rest => (pairUp rest).map ((k, v) :: ·)
  | _ => none

def pairUpInt : List Int → Option (List (Int × Int))
  | [] => some []
  | k :: v :: rest => (pairUpInt rest).map ((k, v) :: ·)
  | _ => none

def parseNode (s : DState) (kind : String) (args : List String) : Option Node :=
  match kind, args with
  | "int", [i] => i.toInt?.map fun i => .leaf (.int i)
  | "flt", [b] => b.toNat?.map fun b => .leaf (.flt b)
  | "bool", [b] => some (.leaf (.bool (b == "1")))
  | "char", [c] => c.toNat?.map fun c => .leaf (.char c)
  | "str", [x] => some (.leaf (.str (cpsToString x)))
  | "str", [] => some (.leaf (.str ""))
  | "sym", [x] => some (.leaf (.sym (cpsToString x)))
  | "void", [] => some (.leaf .void)
  | "rat", [n, d] => do let n ← n.toInt?; let d ← d.toNat?; pure (.leaf (.rat n d))
  | "bytes", [x] => some (.leaf (.bytes (parseCps x)))
  | "bytes", [] => some (.leaf (.bytes []))
  | "list", xs =>
      -- `list e1 .. | store idx next`: the part after `|` is what the short cuts of the real list see
      let (es, sg) := xs.span (· ≠ "|")
      let sig : Option ListSig := match sg with
        | [_, a, b, c] => do let a ← a.toNat?; let b ← b.toNat?; let c ← c.toNat?; pure ⟨a, b, c⟩
        | _ => none
      (lookupAllNames s es).map (Node.list · sig)
  | "pair", [a, b] => do let a ← lookupName s a; let b ← lookupName s b; pure (.pair a b)
  | "vec", xs => (lookupAllNames s xs).map .vec
  | "mvec", xs => (lookupAllNames s xs).map .mvec
  | "struct", t :: xs => do let t ← t.toNat?; let xs ← lookupAllNames s xs; pure (.struct t xs)
  | "box", [a] => (lookupName s a).map .box
  | "map", xs => do let ids ← lookupAllNames s xs; let es ← pairUp ids; pure (.map es)
  | "set", xs => (lookupAllNames s xs).map .set
  | _, _ => none

def showB (b : Bool) : String := if b then "true" else "false"

def showSeq (xs : List Int) : String := " ".intercalate ("seq" :: xs.map toString)

def insertSorted (x : Int × Int) : List (Int × Int) → List (Int × Int)
  | [] => [x]
  | y :: ys => if x.1 ≤ y.1 then x :: y :: ys else y :: insertSorted x ys

def showMap (m : Coll.M Int Int) : String :=
  " ".intercalate ("map" :: (m.foldr insertSorted []).map fun e => s!"{e.1}:{e.2}")

def showSet (s : Coll.S Int) : String :=
  " ".intercalate ("set" :: ((s.map fun k => (k, (0 : Int))).foldr insertSorted []).map fun e => toString e.1)

def showRes (r : Res Int) : String := match r with | .ok v => s!"ok {v}" | .err => "err"

def ints (xs : List String) : Option (List Int) := xs.mapM (·.toInt?)

/-- update a sequence register with the result of an operation that returns a sequence -/
def seqUpd (cur : List Int) (r : Res (List Int)) : List Int × String :=
  match r with
  | .ok v => (v, showSeq v)
  | .err => (cur, "err")

def seqOp (cur : List Int) (op : String) (args : List Int) (kind : String) : Option (List Int × String) :=
  match op, args with
  | "new", xs => if kind == "b" then some (seqUpd cur (Coll.bMake xs)) else some (xs, showSeq xs)
  | "len", [] => some (cur, toString cur.length)
  | "ref", [i] => some (cur, showRes (Coll.lRef cur i))
  | "first", [] => some (cur, showRes (Coll.lFirst cur))
  | "last", [] => some (cur, showRes (Coll.lLast cur))
  | "rest", [] => some (seqUpd cur (Coll.lRest cur))
  | "take", [n] => some (seqUpd cur (Coll.lTake cur n))
  | "tail", [n] => some (seqUpd cur (Coll.lTail cur n))
  | "append", xs => some (cur ++ xs, showSeq (cur ++ xs))
  | "appendl", xs => some (xs ++ cur, showSeq (xs ++ cur))
  | "append2", [x, y] => some (cur ++ [x] ++ [y], showSeq (cur ++ [x] ++ [y]))
  | "cons2", [x, y] => some (x :: y :: cur, showSeq (x :: y :: cur))
  | "reverse", [] => some (cur.reverse, showSeq cur.reverse)
  | "cons", [x] => some (x :: cur, showSeq (x :: cur))
  | "set", [i, x] => some (seqUpd cur (if kind == "b" then Coll.bSet cur i x else Coll.vSet cur i x))
  | "push", [x] => some (Coll.vPush cur x, showSeq (Coll.vPush cur x))
  | "sub", [i, j] =>
      some (seqUpd cur (match Coll.strSub (cur.map fun c => Char.ofNat c.toNat) i j with
        | .ok cs => .ok (cs.map fun c => (c.toNat : Int))
        | .err => .err))
  | _, _ => none

def collLine (s : DState) (reg op0 : String) (args : List String) : Option (DState × String) := do
  let a ← ints args
  -- `union_n`, `union_let`, … : the same operation with another ownership pattern of the arguments in the
  -- Steel program (named and live / let-bound last use / temporary): the model does not depend on it
  let op := (op0.splitOn "_").headD op0
  match reg with
  | "cm" =>
      match op, a with
      | "new", xs => do
          let kvs ← pairUpInt xs
          let m := Coll.mOfList kvs
          pure ({ s with cm := m }, showMap m)
      | "insert", [k, v] => let m := Coll.mInsert s.cm k v; pure ({ s with cm := m }, showMap m)
      | "insert2", [k, v, k2, v2] =>
          let m := Coll.mInsert (Coll.mInsert s.cm k v) k2 v2; pure ({ s with cm := m }, showMap m)
      | "insrem", [k, v, k2] =>
          let m := Coll.mRemove (Coll.mInsert s.cm k v) k2; pure ({ s with cm := m }, showMap m)
      | "union", xs => do
          let kvs ← pairUpInt xs
          let m := Coll.mUnion s.cm (Coll.mOfList kvs); pure ({ s with cm := m }, showMap m)
      | "unionr", xs => do
          let kvs ← pairUpInt xs
          let m := Coll.mUnion (Coll.mOfList kvs) s.cm; pure ({ s with cm := m }, showMap m)
      | "uniontt", n :: xs => do
          let l ← pairUpInt (xs.take n.toNat)
          let r ← pairUpInt (xs.drop n.toNat)
          let m := Coll.mUnion (Coll.mOfList l) (Coll.mOfList r); pure ({ s with cm := m }, showMap m)
      | "remove", [k] => let m := Coll.mRemove s.cm k; pure ({ s with cm := m }, showMap m)
      | "ref", [k] => pure (s, showRes (Coll.mRef s.cm k))
      | "tryget", [k] => pure (s, match Coll.mTryGet s.cm k with | some v => s!"some {v}" | none => "none")
      | "contains", [k] => pure (s, showB (Coll.mContains s.cm k))
      | "len", [] => pure (s, toString (Coll.mLength s.cm))
      | _, _ => none
  | "cs" =>
      match op, a with
      | "new", xs => let t := Coll.sOfList xs; pure ({ s with cs := t }, showSet t)
      | "insert", [k] => let t := Coll.sInsert s.cs k; pure ({ s with cs := t }, showSet t)
      | "union", xs => let t := Coll.sUnion s.cs (Coll.sOfList xs); pure ({ s with cs := t }, showSet t)
      | "unionr", xs => let t := Coll.sUnion (Coll.sOfList xs) s.cs; pure ({ s with cs := t }, showSet t)
      | "inter", xs => let t := Coll.sInter s.cs (Coll.sOfList xs); pure ({ s with cs := t }, showSet t)
      | "interr", xs => let t := Coll.sInter (Coll.sOfList xs) s.cs; pure ({ s with cs := t }, showSet t)
      | "diff", xs => let t := Coll.sSymDiff s.cs (Coll.sOfList xs); pure ({ s with cs := t }, showSet t)
      | "diffr", xs => let t := Coll.sSymDiff (Coll.sOfList xs) s.cs; pure ({ s with cs := t }, showSet t)
      | "contains", [k] => pure (s, showB (Coll.sContains s.cs k))
      | "len", [] => pure (s, toString (Coll.sLength s.cs))
      | "subset", xs => pure (s, showB (Coll.sSubset s.cs (Coll.sOfList xs)))
      | _, _ => none
  | "cl" => do let (c, out) ← seqOp s.cl op a "l"; pure ({ s with cl := c }, out)
  | "cv" => do let (c, out) ← seqOp s.cv op a "v"; pure ({ s with cv := c }, out)
  | "cb" => do let (c, out) ← seqOp s.cb op a "b"; pure ({ s with cb := c }, out)
  | "ct" => do let (c, out) ← seqOp s.ct op a "t"; pure ({ s with ct := c }, out)
  | _ => none

def line (s : DState) (l : String) : DState × String :=
  let toks := (l.trimAscii.toString.splitOn " ").filter (· ≠ "")
  match toks with
  | [] => (s, "")
  | ["reset"] => ({ cfg := s.cfg }, "reset")
  | ["cfg", "legacy"] => ({ s with cfg := Cfg.legacy }, "cfg legacy")
  | ["cfg", "fixed"] => ({ s with cfg := Cfg.fixed }, "cfg fixed")
  | ["cfg", "k11j"] => ({ s with cfg := Cfg.k11j }, "cfg k11j")
  | ["cfg", "code"] => ({ s with cfg := codeCfg }, "cfg code")
  | ["def", name, "alias", other] =>
      -- the real value IS the list `other` (same head cell): the same node
      match lookupName s other with
      | some i => ({ s with names := (name, i) :: s.names }, s!"def {name}")
      | none => (s, s!"bad def {name}")
  | "def" :: name :: kind :: args =>
      match parseNode s kind args with
      | some n =>
          ({ s with names := (name, s.graph.length) :: s.names, graph := s.graph ++ [n], guards := none }, s!"def {name}")
      | none => (s, s!"bad def {name}")
  | ["eq", a, b] =>
      match lookupName s a, lookupName s b with
      | some a, some b =>
          let g := s.graph
          let gd := match s.guards with
            | some x => x
            | none => s!"wf={showB (wfB g)} nonan={showB (noNaNB g)} keys={showB (keysDistinctB g)} sig={showB (listSigB g)}"
          ({ s with guards := some gd }, s!"eq impl={showB (eqImpl s.cfg g a b)} spec={showB (eqSpec g a b)} old={showB (eqImpl Cfg.legacy g a b)} {gd} shared={showB (!noSharingB g a b)}")
      | _, _ => (s, "bad name")
  | ["hq", a, b] =>
      match lookupName s a, lookupName s b with
      | some a, some b =>
          (s, s!"hq impl={showB (hashEq s.cfg s.graph a b)} old={showB (hashEq Cfg.legacy s.graph a b)}")
      | _, _ => (s, "bad name")
  | ["key", a, b] =>
      match lookupName s a, lookupName s b with
      | some a, some b =>
          (s, s!"key impl={showB (keyEqImpl s.cfg s.graph a b)} spec={showB (eqSpec s.graph a b)}")
      | _, _ => (s, "bad name")
  | reg :: op :: args =>
      match collLine s reg op args with
      | some (s', out) => (s', out)
      | none => (s, "bad command")
  | _ => (s, "bad command")

partial def mainLoop (h : IO.FS.Stream) (out : IO.FS.Stream) (s : DState) : IO Unit := do
  let l ← h.getLine
  if l.isEmpty then
    pure ()
  else
    let t := l.trimAscii.toString
    if t == "" || t.startsWith "#" then
      mainLoop h out s
    else
      let (s', o) := line s t
      out.putStrLn o
      mainLoop h out s'

end SteelVerif.C11

def main (_args : List String) : IO Unit := do
  let stdin ← IO.getStdin
  let stdout ← IO.getStdout
  SteelVerif.C11.mainLoop stdin stdout {}
  stdout.flush
