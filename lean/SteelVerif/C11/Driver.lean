/-
C11 driver: runs the model on the line protocol of `harness/src/bin/c11.rs`.

  def NAME <kind> <args>      (the *resolved* definitions printed by the harness)  -> `def NAME`
  eq A B    -> `eq impl=<b> spec=<b> old=<b> wf=<b> nonan=<b> keys=<b> sig=<b> shared=<b>`
  hq A B    -> `hq impl=<b> old=<b>`
  key A B   -> `key impl=<b> spec=<b>`
  cfg legacy|fixed|code       choose the configuration used for `impl` (default: `codeCfg`, generated)
  reset
  mk NAME set|map A..         (driver only) the ORIGINAL arguments of the `(hashset ..)` / `(hash ..)` that made NAME:
                              -> `mk same=<b>`: the model constructor `mkSet`/`mkMap` yields the members the real object has
  cm/cs/cl/cv/cb/ct <op> ..   collection registers (see `collOps`): every operation runs on the model P of the Rust
                              primitives (`stepP`) AND on the mathematical model S (`stepS`); the answer printed is P's
                              (canonical order for unordered results), followed by ` !refine` if S answers differently
                              (never, by `Props.prim_refines`)
-/
import SteelVerif.C11.GenCfg
import SteelVerif.C11.Prim
namespace SteelVerif.C11

structure DState where
  names : List (String × Nat) := []
  graph : Graph := []
  cfg : Cfg := codeCfg
  /-- the guards of the current graph (wf, nonan, keys, sig), computed once per graph -/
  guards : Option String := none
  /-- the registers of the model P of the primitives, and of the mathematical model S -/
  pst : St := {}
  sst : St := {}
  /-- a hash map / hash set keyed by nodes of the current graph (`gm` / `gs` commands) -/
  gm : List (Nat × Int) := []
  gs : List Nat := []

def lookupName (s : DState) (n : String) : Option Nat := (s.names.find? (·.1 == n)).map (·.2)

def parseCps (s : String) : List Nat :=
  if s == "-" || s == "" then [] else (s.splitOn ",").filterMap (·.toNat?)

def cpsToString (s : String) : String := String.ofList ((parseCps s).map Char.ofNat)

def lookupAllNames (s : DState) (ns : List String) : Option (List Nat) := ns.mapM (lookupName s)

def pairUp : List Nat → Option (List (Nat × Nat))
  | [] => some []
  | k :: v :: rest => (pairUp rest).map ((k, v) :: ·)
  | _ => none

def pairUpInt : List Int → Option (List (Int × Int))
  | [] => some []
  | k :: v :: rest => (pairUpInt rest).map ((k, v) :: ·)
  | _ => none

def parseNode (s : DState) (kind : String) (args : List String) : Option Node :=
  match kind, args with
  | "int", [i] => i.toInt?.map fun i => .leaf (.int i)
  | "flt", [b] => b.toNat?.map fun b => .leaf (.flt b)
  | "bool", [b] => some (.leaf (.bool (b == "1")))
  | "char", [c] => c.toNat?.map fun c => .leaf (.char c)
  | "str", [x] => some (.leaf (.str (cpsToString x)))
  | "str", [] => some (.leaf (.str ""))
  | "sym", [x] => some (.leaf (.sym (cpsToString x)))
  | "void", [] => some (.leaf .void)
  | "rat", [n, d] => do let n ← n.toInt?; let d ← d.toNat?; pure (.leaf (.rat n d))
  | "bytes", [x] => some (.leaf (.bytes (parseCps x)))
  | "bytes", [] => some (.leaf (.bytes []))
  | "list", xs =>
      -- `list e1 .. | store idx next`: the part after `|` is what the short cuts of the real list see
      let (es, sg) := xs.span (· ≠ "|")
      let sig : Option ListSig := match sg with
        | [_, a, b, c] => do let a ← a.toNat?; let b ← b.toNat?; let c ← c.toNat?; pure ⟨a, b, c⟩
        | _ => none
      (lookupAllNames s es).map (Node.list · sig)
  | "pair", [a, b] => do let a ← lookupName s a; let b ← lookupName s b; pure (.pair a b)
  | "vec", xs => (lookupAllNames s xs).map .vec
  | "mvec", xs => (lookupAllNames s xs).map .mvec
  | "struct", t :: xs => do let t ← t.toNat?; let xs ← lookupAllNames s xs; pure (.struct t xs)
  | "box", [a] => (lookupName s a).map .box
  | "map", xs => do let ids ← lookupAllNames s xs; let es ← pairUp ids; pure (.map es)
  | "set", xs => (lookupAllNames s xs).map .set
  | _, _ => none

def showB (b : Bool) : String := if b then "true" else "false"

/-- how the harness names a value it finds inside a real hash map / hash set: containers by object identity, LEAVES
    by kind and value (the first definition with that value; floats by bit pattern), every empty list as the first
    empty list (all empty lists are one object) -/
def canonId (g : Graph) (i : Nat) : Nat :=
  match g.node i with
  | .leaf l => (g.findIdx? fun n => n == Node.leaf l).getD i
  | .list [] _ => (g.findIdx? fun n => match n with | .list [] _ => true | _ => false).getD i
  | _ => i

def showSeq (xs : List Int) : String := " ".intercalate ("seq" :: xs.map toString)

def insertSorted (x : Int × Int) : List (Int × Int) → List (Int × Int)
  | [] => [x]
  | y :: ys => if x.1 ≤ y.1 then x :: y :: ys else y :: insertSorted x ys

def showMap (m : Coll.M Int Int) : String :=
  " ".intercalate ("map" :: (m.foldr insertSorted []).map fun e => s!"{e.1}:{e.2}")

def showSet (s : Coll.S Int) : String :=
  " ".intercalate ("set" :: ((s.map fun k => (k, (0 : Int))).foldr insertSorted []).map fun e => toString e.1)

def ints (xs : List String) : Option (List Int) := xs.mapM (·.toInt?)

def splitPairs : List Int → Option (List Int × List Int)
  | [] => some ([], [])
  | [k] => some ([k], [])          -- a key without a value: `hm_construct` raises
  | k :: v :: rest => (splitPairs rest).map fun (ks, vs) => (k :: ks, v :: vs)

def toChars (xs : List Int) : List Char := xs.map fun c => Char.ofNat c.toNat

/-- the ownership pattern of the two arguments of `hash-union` in the Steel program the check generates
    (`_let` / `_n` / `_c` …) as the flags of `hm_union`'s four branches (left unique?, right unique?).
    `Props.hash_union_left_biased`: the result does not depend on them. -/
def ownFlags (own : String) (regLeft : Bool) : Bool × Bool :=
  match own with
  | "n" | "ln" | "nl" => (false, false)
  | "c" => (true, true)
  | _ => if regLeft then (false, true) else (true, false)

/-- one protocol line = a short sequence of operations of `Op` (the answer of the last one is printed) -/
def collOps (reg op own : String) (a : List Int) : Option (List Op) :=
  match reg, op, a with
  | "cm", "new", xs => (splitPairs xs).map fun (ks, vs) => [.mNew ks vs]
  | "cm", "insert", [k, v] => some [.mInsert k v]
  | "cm", "insert2", [k, v, k2, v2] => some [.mInsert k v, .mInsert k2 v2]
  | "cm", "insrem", [k, v, k2] => some [.mInsert k v, .mRemove k2]
  | "cm", "union", xs => (splitPairs xs).map fun (ks, vs) => let f := ownFlags own true; [.mUnion true f.1 f.2 ks vs]
  | "cm", "unionr", xs => (splitPairs xs).map fun (ks, vs) => let f := ownFlags own false; [.mUnion false f.1 f.2 ks vs]
  | "cm", "uniontt", n :: xs => do
      let (lk, lv) ← splitPairs (xs.take n.toNat)
      let (rk, rv) ← splitPairs (xs.drop n.toNat)
      let f := ownFlags own true
      pure [.mNew lk lv, .mUnion true f.1 f.2 rk rv]
  | "cm", "remove", [k] => some [.mRemove k]
  | "cm", "ref", [k] => some [.mRef k]
  | "cm", "tryget", [k] => some [.mTryGet k]
  | "cm", "contains", [k] => some [.mContains k]
  | "cm", "len", [] => some [.mLen]
  | "cm", "keys", [] => some [.mKeys]
  | "cm", "values", [] => some [.mValues]
  | "cm", "clear", [] => some [.mClear]
  | "cs", "new", xs => some [.sNew xs]
  | "cs", "insert", [k] => some [.sInsert k]
  | "cs", "union", xs => some [.sUnion true xs]
  | "cs", "unionr", xs => some [.sUnion false xs]
  | "cs", "inter", xs => some [.sInter true xs]
  | "cs", "interr", xs => some [.sInter false xs]
  | "cs", "diff", xs => some [.sDiff true xs]
  | "cs", "diffr", xs => some [.sDiff false xs]
  | "cs", "contains", [k] => some [.sContains k]
  | "cs", "len", [] => some [.sLen]
  | "cs", "list", [] => some [.sToList]
  | "cs", "clear", [] => some [.sClear]
  | "cs", "subset", xs => some [.sSubset true xs]
  | "cs", "subsetr", xs => some [.sSubset false xs]
  | "cl", "new", xs => some [.lNew xs]
  | "cl", "len", [] => some [.lLen]
  | "cl", "ref", [i] => some [.lRef i]
  | "cl", "first", [] => some [.lFirst]
  | "cl", "last", [] => some [.lLast]
  | "cl", "rest", [] => some [.lRest]
  | "cl", "take", [n] => some [.lTake n]
  | "cl", "tail", [n] => some [.lTail n]
  | "cl", "drop", [n] => some [.lDrop n]
  | "cl", "append", xs => some [.lAppend [] [xs]]
  | "cl", "appendl", xs => some [.lAppend [xs] []]
  | "cl", "append2", [x, y] => some [.lAppend [] [[x]], .lAppend [] [[y]]]
  | "cl", "append3", n :: xs => some [.lAppend [xs.take n.toNat] [[], xs.drop n.toNat]]
  | "cl", "cons2", [x, y] => some [.lCons y, .lCons x]
  | "cl", "reverse", [] => some [.lReverse]
  | "cl", "cons", [x] => some [.lCons x]
  | "cl", "range", [lo, hi] => some [.lRange lo hi]
  | "cl", "range1", [hi] => some [.lRange 0 hi]
  | "cv", "new", xs => some [.vNew xs]
  | "cv", "len", [] => some [.vLen]
  | "cv", "ref", [i] => some [.vRef i]
  | "cv", "set", [i, x] => some [.vSet i x]
  | "cv", "push", [x] => some [.vPush x]
  | "cv", "append", xs => some [.vAppend [] [xs]]
  | "cv", "append3", n :: xs => some [.vAppend [xs.take n.toNat] [xs.drop n.toNat, []]]
  | "ci", "new", xs => some [.iNew xs]
  | "ci", "len", [] => some [.iLen]
  | "ci", "ref", [i] => some [.iRef i]
  | "ci", "push", [x] => some [.iPush x]
  | "ci", "set", [i, x] => some [.iSet (own == "u") i x]
  | "ci", "take", [n] => some [.iTake (own == "u") n]
  | "ci", "drop", [n] => some [.iDrop (own == "u") n]
  | "ci", "rest", [] => some [.iRest]
  | "ci", "append3", n :: xs => some [.iAppend [xs.take n.toNat] [xs.drop n.toNat, []]]
  | "cb", "new", xs => some [.bNew xs]
  | "cb", "len", [] => some [.bLen]
  | "cb", "ref", [i] => some [.bRef i]
  | "cb", "set", [i, x] => some [.bSet i x]
  | "cb", "push", [x] => some [.bPush x]
  | "cb", "append", xs => some [.bAppend [] [xs]]
  | "cb", "append3", n :: xs => some [.bAppend [xs.take n.toNat] [[], xs.drop n.toNat]]
  | "ct", "new", xs => some [.tNew (toChars xs)]
  | "ct", "len", [] => some [.tLen]
  | "ct", "ref", [i] => some [.tRef i]
  | "ct", "sub", [i, j] => some [.tSub i (some j)]
  | "ct", "sub1", [i] => some [.tSub i none]
  | "ct", "tolist", [] => some [.tToList none none]
  | "ct", "tolist", [i] => some [.tToList (some i) none]
  | "ct", "tolist", [i, j] => some [.tToList (some i) (some j)]
  | "ct", "append", xs => some [.tAppend [] [toChars xs]]
  | "ct", "append3", n :: xs => some [.tAppend [toChars (xs.take n.toNat)] [[], toChars (xs.drop n.toNat)]]
  | _, _, _ => none

/-- canonical text of an answer (what `checks/c11.py` derives from the real value); `op` tells how a number is read -/
def showAns (op : Op) (a : Ans) : String :=
  match a with
  | .err => "err"
  | .int i =>
      (match op with
       | .mRef _ | .lRef _ | .lFirst | .lLast | .vRef _ | .bRef _ | .iRef _ => s!"ok {i}"
       | .mTryGet _ => s!"some {i}"
       | _ => toString i)
  | .bool b => showB b
  | .none => "none"
  | .chr c => s!"ok {c.toNat}"
  | .seq xs => showSeq xs
  | .str cs => showSeq (cs.map fun c => (c.toNat : Int))
  | .bag xs => showSet xs
  | .map es => showMap es

def collLine (s : DState) (reg op0 : String) (args : List String) : Option (DState × String) := do
  let a ← ints args
  -- `union_n`, `union_let`, … : the same operation with another ownership pattern of the arguments in the
  -- Steel program (named and live / let-bound last use / temporary)
  let parts := op0.splitOn "_"
  let op := parts.headD op0
  let own := (parts.drop 1).headD ""
  let ops ← collOps reg op own a
  let step := fun (acc : St × St × String) (o : Op) =>
    let (p, t, _) := acc
    let rp := stepP p o
    let rs := stepS t o
    let sp := showAns o rp.2
    let ss := showAns o rs.2
    (rp.1, rs.1, if sp == ss then sp else sp ++ " !refine")
  let (p, t, out) := ops.foldl step (s.pst, s.sst, "")
  pure ({ s with pst := p, sst := t }, out)

def line (s : DState) (l : String) : DState × String :=
  let toks := (l.trimAscii.toString.splitOn " ").filter (· ≠ "")
  match toks with
  | [] => (s, "")
  | ["reset"] => ({ cfg := s.cfg }, "reset")
  | ["cfg", "legacy"] => ({ s with cfg := Cfg.legacy }, "cfg legacy")
  | ["cfg", "fixed"] => ({ s with cfg := Cfg.fixed }, "cfg fixed")
  | ["cfg", "k11j"] => ({ s with cfg := Cfg.k11j }, "cfg k11j")
  | ["cfg", "code"] => ({ s with cfg := codeCfg }, "cfg code")
  | ["def", name, "alias", other] =>
      -- the real value IS the list `other` (same head cell): the same node
      match lookupName s other with
      | some i => ({ s with names := (name, i) :: s.names }, s!"def {name}")
      | none => (s, s!"bad def {name}")
  | "def" :: name :: kind :: args =>
      match parseNode s kind args with
      | some n =>
          ({ s with names := (name, s.graph.length) :: s.names, graph := s.graph ++ [n], guards := none }, s!"def {name}")
      | none => (s, s!"bad def {name}")
  | ["eq", a, b] =>
      match lookupName s a, lookupName s b with
      | some a, some b =>
          let g := s.graph
          let gd := match s.guards with
            | some x => x
            | none => s!"wf={showB (wfB g)} nonan={showB (noNaNB g)} keys={showB (keysDistinctB g)} members={showB (membersDistinctB g)} sig={showB (listSigB g)}"
          ({ s with guards := some gd }, s!"eq impl={showB (eqImpl s.cfg g a b)} spec={showB (eqSpec g a b)} old={showB (eqImpl Cfg.legacy g a b)} {gd} shared={showB (!noSharingB g a b)}")
      | _, _ => (s, "bad name")
  | "mk" :: name :: kind :: args =>
      -- the model constructor over the graph as it was BEFORE the node was defined, against the members the
      -- real object has (order irrelevant)
      match lookupName s name, lookupAllNames s args with
      | some i, some ids =>
          let g0 := s.graph.take i
          let cn := canonId s.graph
          let sortN := fun (xs : List Nat) => (xs.map fun (k : Nat) => ((cn k : Int), (0 : Int))).foldr insertSorted []
          let same := match kind, s.graph.node i with
            | "set", .set xs =>
                (match mkSet s.cfg g0 ids with
                 | .set ys => sortN xs == sortN ys
                 | _ => false)
            | "map", .map es =>
                (match pairUp ids with
                 | some kvs =>
                     (match mkMap s.cfg g0 kvs with
                      | .map fs =>
                          (es.map fun (e : Nat × Nat) => ((cn e.1 : Int), (cn e.2 : Int))).foldr insertSorted []
                            == (fs.map fun (e : Nat × Nat) => ((cn e.1 : Int), (cn e.2 : Int))).foldr insertSorted []
                      | _ => false)
                 | none => false)
            | _, _ => false
          (s, s!"mk same={showB same}")
      | _, _ => (s, "bad name")
  | ["hq", a, b] =>
      match lookupName s a, lookupName s b with
      | some a, some b =>
          (s, s!"hq impl={showB (hashEq s.cfg s.graph a b)} old={showB (hashEq Cfg.legacy s.graph a b)}")
      | _, _ => (s, "bad name")
  | ["key", a, b] =>
      match lookupName s a, lookupName s b with
      | some a, some b =>
          (s, s!"key impl={showB (keyEqImpl s.cfg s.graph a b)} spec={showB (eqSpec s.graph a b)}")
      | _, _ => (s, "bad name")
  | "gm" :: op :: args =>
      -- a hash map keyed by values of the graph: `HashMap::insert/get/remove` with the key equality of the code
      let keq := keyEqImpl s.cfg s.graph
      match op, args with
      | "new", [] => ({ s with gm := [] }, "gm 0")
      | "insert", [k, v] =>
          match lookupName s k, v.toInt? with
          | some k, some v => let m := gmInsert keq s.gm k v; ({ s with gm := m }, s!"gm {m.length}")
          | _, _ => (s, "bad name")
      | "remove", [k] =>
          match lookupName s k with
          | some k => let m := gmRemove keq s.gm k; ({ s with gm := m }, s!"gm {m.length}")
          | none => (s, "bad name")
      | "ref", [k] =>
          match lookupName s k with
          | some k => (s, match gmGet keq s.gm k with | some v => s!"gm ok {v}" | none => "gm err")
          | none => (s, "bad name")
      | "contains", [k] =>
          match lookupName s k with
          | some k => (s, s!"gm {showB (gmContains keq s.gm k)}")
          | none => (s, "bad name")
      | "len", [] => (s, s!"gm {s.gm.length}")
      | o, kvs =>
          -- `(hash-union gm (hash K V ..))` / `unionr`: the literal on the left
          let rec pairs : List String → Option (List (Nat × Int))
            | [] => some []
            | k :: v :: rest => do
                let k ← lookupName s k
                let v ← v.toInt?
                let t ← pairs rest
                pure ((k, v) :: t)
            | _ => none
          match pairs kvs with
          | some es =>
              let lit := es.foldl (fun m e => gmInsert keq m e.1 e.2) []
              match o with
              | "union" => let m := gmUnion keq s.gm lit; ({ s with gm := m }, s!"gm {m.length}")
              | "unionr" => let m := gmUnion keq lit s.gm; ({ s with gm := m }, s!"gm {m.length}")
              | _ => (s, "bad command")
          | none => (s, "bad name")
  | "gs" :: op :: args =>
      let keq := keyEqImpl s.cfg s.graph
      match op, args with
      | "new", [] => ({ s with gs := [] }, "gs 0")
      | "insert", [k] =>
          match lookupName s k with
          | some k => let t := setInsertIds keq s.gs k; ({ s with gs := t }, s!"gs {t.length}")
          | none => (s, "bad name")
      | "contains", [k] =>
          match lookupName s k with
          | some k => (s, s!"gs {showB (s.gs.any (keq k))}")
          | none => (s, "bad name")
      | "len", [] => (s, s!"gs {s.gs.length}")
      | o, names =>
          -- the set algebra against a literal `(hashset K..)` built by the constructor; `..r`: the literal on the left
          match lookupAllNames s names with
          | some ids =>
              let lit := ids.foldl (setInsertIds keq) []
              let upd := fun (t : List Nat) => ({ s with gs := t }, s!"gs {t.length}")
              match o with
              | "union" => upd (gsUnion keq s.gs lit)
              | "unionr" => upd (gsUnion keq lit s.gs)
              | "inter" => upd (gsInter keq s.gs lit)
              | "interr" => upd (gsInter keq lit s.gs)
              | "diff" => upd (gsSymDiff keq s.gs lit)
              | "diffr" => upd (gsSymDiff keq lit s.gs)
              | "subset" => (s, s!"gs {showB (gsSubset keq s.gs lit)}")
              | "subsetr" => (s, s!"gs {showB (gsSubset keq lit s.gs)}")
              | _ => (s, "bad command")
          | none => (s, "bad name")
  | reg :: op :: args =>
      match collLine s reg op args with
      | some (s', out) => (s', out)
      | none => (s, "bad command")
  | _ => (s, "bad command")

partial def mainLoop (h : IO.FS.Stream) (out : IO.FS.Stream) (s : DState) : IO Unit := do
  let l ← h.getLine
  if l.isEmpty then
    pure ()
  else
    let t := l.trimAscii.toString
    if t == "" || t.startsWith "#" then
      mainLoop h out s
    else
      let (s', o) := line s t
      out.putStrLn o
      mainLoop h out s'

end SteelVerif.C11

def main (_args : List String) : IO Unit := do
  let stdin ← IO.getStdin
  let stdout ← IO.getStdout
  SteelVerif.C11.mainLoop stdin stdout {}
  stdout.flush
