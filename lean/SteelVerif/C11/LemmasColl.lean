/-
C11 helper lemmas, part 4: the collection model (association lists as finite maps, duplicate-free lists
as finite sets, lists as sequences) obeys the laws of the mathematical objects.
-/
import SteelVerif.C11.Model
namespace SteelVerif.C11.Coll

variable {κ ν α : Type} [DecidableEq κ]

/-! ## finite maps -/

theorem tryGet_cons (e : κ × ν) (m : M κ ν) (k : κ) :
    mTryGet (e :: m) k = if e.1 = k then some e.2 else mTryGet m k := by
  unfold mTryGet
  by_cases h : e.1 = k
  · simp [h]
  · have hb : (e.1 == k) = false := beq_eq_false_iff_ne.mpr h
    simp [h, hb]

theorem remove_cons (e : κ × ν) (m : M κ ν) (k : κ) :
    mRemove (e :: m) k = if e.1 = k then mRemove m k else e :: mRemove m k := by
  unfold mRemove
  simp only [List.filter_cons]
  by_cases h : e.1 = k <;> simp [h]

theorem tryGet_remove (m : M κ ν) (k k' : κ) :
    mTryGet (mRemove m k) k' = if k' = k then none else mTryGet m k' := by
  induction m with
  | nil => simp [mRemove, mTryGet]
  | cons e m ih =>
    rw [remove_cons]
    by_cases he : e.1 = k
    · simp only [he, if_true]
      rw [ih, tryGet_cons]
      by_cases h : k' = k
      · simp [h]
      · have : ¬ e.1 = k' := fun h' => h (h' ▸ he)
        simp [h, this]
    · simp only [he, if_false]
      rw [tryGet_cons, tryGet_cons, ih]
      by_cases h : k' = k
      · simp [h, he]
      · simp [h]

theorem tryGet_insert (m : M κ ν) (k k' : κ) (v : ν) :
    mTryGet (mInsert m k v) k' = if k' = k then some v else mTryGet m k' := by
  unfold mInsert
  rw [tryGet_cons, tryGet_remove]
  by_cases h : k' = k
  · simp [h]
  · have : ¬ k = k' := fun h' => h h'.symm
    simp [h, this]

theorem contains_cons (e : κ × ν) (m : M κ ν) (k : κ) :
    mContains (e :: m) k = (decide (e.1 = k) || mContains m k) := by
  unfold mContains
  simp only [List.any_cons]
  by_cases h : e.1 = k <;> simp [h]

theorem contains_iff_tryGet (m : M κ ν) (k : κ) : mContains m k = (mTryGet m k).isSome := by
  induction m with
  | nil => simp [mContains, mTryGet]
  | cons e m ih =>
    rw [contains_cons, tryGet_cons, ih]
    by_cases h : e.1 = k <;> simp [h]

theorem ref_err_iff (m : M κ ν) (k : κ) : mRef m k = .err ↔ mContains m k = false := by
  rw [contains_iff_tryGet]
  unfold mRef
  cases mTryGet m k <;> simp

theorem contains_insert (m : M κ ν) (k k' : κ) (v : ν) :
    mContains (mInsert m k v) k' = (decide (k' = k) || mContains m k') := by
  rw [contains_iff_tryGet, tryGet_insert, contains_iff_tryGet]
  by_cases h : k' = k <;> simp [h]

theorem contains_iff_mem (m : M κ ν) (k : κ) : mContains m k = true ↔ k ∈ m.map Prod.fst := by
  induction m with
  | nil => simp [mContains]
  | cons e m ih =>
    rw [contains_cons]
    simp only [Bool.or_eq_true, decide_eq_true_eq, List.map_cons, List.mem_cons, ih]
    constructor
    · rintro (h | h)
      · exact Or.inl h.symm
      · exact Or.inr h
    · rintro (h | h)
      · exact Or.inl h.symm
      · exact Or.inr h

theorem remove_of_not_contains (m : M κ ν) (k : κ) (h : mContains m k = false) : mRemove m k = m := by
  induction m with
  | nil => rfl
  | cons e m ih =>
    rw [contains_cons] at h
    simp only [Bool.or_eq_false_iff, decide_eq_false_iff_not] at h
    rw [remove_cons]
    simp [h.1, ih h.2]

theorem keys_remove (m : M κ ν) (k x : κ) :
    x ∈ (mRemove m k).map Prod.fst ↔ (x ∈ m.map Prod.fst ∧ x ≠ k) := by
  induction m with
  | nil => simp [mRemove]
  | cons e m ih =>
    rw [remove_cons]
    by_cases he : e.1 = k
    · simp only [he, if_true, ih, List.map_cons, List.mem_cons]
      constructor
      · rintro ⟨h1, h2⟩; exact ⟨Or.inr h1, h2⟩
      · rintro ⟨h1 | h1, h2⟩
        · first | exact absurd h1 h2 | exact absurd (h1.trans he) h2
        · exact ⟨h1, h2⟩
    · simp only [he, if_false, List.map_cons, List.mem_cons, ih]
      constructor
      · rintro (h | ⟨h1, h2⟩)
        · exact ⟨Or.inl h, fun h' => he (h ▸ h')⟩
        · exact ⟨Or.inr h1, h2⟩
      · rintro ⟨h1 | h1, h2⟩
        · exact Or.inl h1
        · exact Or.inr ⟨h1, h2⟩

theorem nodup_remove (m : M κ ν) (k : κ) (h : mNodup m) : mNodup (mRemove m k) := by
  induction m with
  | nil => simpa [mRemove] using h
  | cons e m ih =>
    unfold mNodup at h ih ⊢
    simp only [List.map_cons, List.nodup_cons] at h
    rw [remove_cons]
    by_cases he : e.1 = k
    · simp only [he, if_true]
      exact ih h.2
    · simp only [he, if_false, List.map_cons, List.nodup_cons]
      refine ⟨?_, ih h.2⟩
      intro hm
      exact h.1 ((keys_remove m k e.1).mp hm).1

theorem nodup_insert (m : M κ ν) (k : κ) (v : ν) (h : mNodup m) : mNodup (mInsert m k v) := by
  unfold mInsert mNodup
  simp only [List.map_cons, List.nodup_cons]
  refine ⟨?_, nodup_remove m k h⟩
  intro hm
  exact ((keys_remove m k k).mp hm).2 rfl

theorem length_remove (m : M κ ν) (k : κ) (h : mNodup m) :
    mLength (mRemove m k) = if mContains m k then mLength m - 1 else mLength m := by
  induction m with
  | nil => simp [mRemove, mLength, mContains]
  | cons e m ih =>
    unfold mNodup at h
    simp only [List.map_cons, List.nodup_cons] at h
    have ih' := ih h.2
    rw [remove_cons, contains_cons]
    unfold mLength at ih' ⊢
    by_cases he : e.1 = k
    · have hnot : mContains m k = false := by
        cases hc : mContains m k
        · rfl
        · exact absurd ((contains_iff_mem m k).mp hc) (he ▸ h.1)
      simp [he, remove_of_not_contains m k hnot]
    · simp only [he, if_false, decide_false, Bool.false_or, List.length_cons]
      rw [ih']
      cases hc : mContains m k
      · simp
      · have : 0 < m.length := by
          cases m with
          | nil => simp [mContains] at hc
          | cons _ _ => simp
        simp only [if_true]
        omega

theorem length_insert (m : M κ ν) (k : κ) (v : ν) (h : mNodup m) :
    mLength (mInsert m k v) = if mContains m k then mLength m else mLength m + 1 := by
  have hr := length_remove m k h
  unfold mInsert mLength at *
  simp only [List.length_cons]
  rw [hr]
  cases hc : mContains m k
  · simp
  · have : 0 < m.length := by
      cases m with
      | nil => simp [mContains] at hc
      | cons _ _ => simp
    simp only [if_true]
    omega

theorem nodup_foldl (kvs : List (κ × ν)) (acc : M κ ν) (h : mNodup acc) :
    mNodup (kvs.foldl (fun m e => mInsert m e.1 e.2) acc) := by
  induction kvs generalizing acc with
  | nil => exact h
  | cons e rest ih => exact ih _ (nodup_insert acc e.1 e.2 h)

theorem nodup_ofList (kvs : List (κ × ν)) : mNodup (mOfList kvs) :=
  nodup_foldl kvs [] (by simp [mNodup])

theorem tryGet_foldl (kvs : List (κ × ν)) (acc : M κ ν) (k : κ) :
    mTryGet (kvs.foldl (fun m e => mInsert m e.1 e.2) acc) k =
      match kvs.reverse.find? (fun e => e.1 == k) with
      | some e => some e.2
      | none => mTryGet acc k := by
  induction kvs generalizing acc with
  | nil => simp
  | cons e rest ih =>
    simp only [List.foldl_cons, List.reverse_cons, List.find?_append]
    rw [ih]
    cases hf : rest.reverse.find? (fun e => e.1 == k) with
    | some e' => simp
    | none =>
      simp only [Option.none_or, List.find?_cons]
      rw [tryGet_insert]
      by_cases h : e.1 = k
      · simp [h]
      · have h' : ¬ k = e.1 := fun x => h x.symm
        have hb : (e.1 == k) = false := beq_eq_false_iff_ne.mpr h
        simp [hb, h']

theorem tryGet_ofList (kvs : List (κ × ν)) (k : κ) :
    mTryGet (mOfList kvs) k = (kvs.reverse.find? fun e => e.1 == k).map Prod.snd := by
  unfold mOfList
  rw [tryGet_foldl]
  cases kvs.reverse.find? (fun e => e.1 == k) <;> simp [mTryGet]

theorem tryGet_append (a b : M κ ν) (k : κ) :
    mTryGet (a ++ b) k = match mTryGet a k with | some v => some v | none => mTryGet b k := by
  induction a with
  | nil => simp [mTryGet]
  | cons e a ih =>
    rw [List.cons_append, tryGet_cons, tryGet_cons, ih]
    by_cases h : e.1 = k <;> simp [h]

theorem tryGet_filter_not_left (l r : M κ ν) (k : κ) (h : mContains l k = false) :
    mTryGet (r.filter fun e => !(mContains l e.1)) k = mTryGet r k := by
  induction r with
  | nil => rfl
  | cons e r ih =>
    simp only [List.filter_cons]
    by_cases he : e.1 = k
    · have : mContains l e.1 = false := he ▸ h
      simp only [this, Bool.not_false, if_true]
      rw [tryGet_cons, tryGet_cons]
      simp [he]
    · cases hc : mContains l e.1
      · simp only [Bool.not_false, if_true]
        rw [tryGet_cons, tryGet_cons, ih]
      · simp only [Bool.not_true, Bool.false_eq_true, if_false]
        rw [tryGet_cons, ih]
        simp [he]

/-- `hash-union`: the left map wins on common keys -/
theorem tryGet_union (l r : M κ ν) (k : κ) :
    mTryGet (mUnion l r) k = match mTryGet l k with | some v => some v | none => mTryGet r k := by
  unfold mUnion
  rw [tryGet_append]
  cases hl : mTryGet l k with
  | some v => rfl
  | none =>
    have hc : mContains l k = false := by rw [contains_iff_tryGet, hl]; rfl
    simp only
    exact tryGet_filter_not_left l r k hc

/-! ## finite sets -/

theorem sInsert_of_mem (s : S κ) (k : κ) (h : k ∈ s) : sInsert s k = s := by
  unfold sInsert
  rw [if_pos (List.contains_iff_mem.mpr h)]

theorem sInsert_of_not_mem (s : S κ) (k : κ) (h : ¬ k ∈ s) : sInsert s k = k :: s := by
  unfold sInsert
  rw [if_neg (fun hc => h (List.contains_iff_mem.mp hc))]

theorem sContains_eq (s : S κ) (k : κ) : sContains s k = decide (k ∈ s) := by
  unfold sContains
  by_cases h : k ∈ s
  · simp [h]
  · simp [h]

theorem sContains_insert (s : S κ) (k k' : κ) :
    sContains (sInsert s k) k' = (decide (k' = k) || sContains s k') := by
  rw [sContains_eq, sContains_eq]
  by_cases hc : k ∈ s
  · rw [sInsert_of_mem s k hc]
    by_cases h : k' = k
    · subst h; simp [hc]
    · simp [h]
  · rw [sInsert_of_not_mem s k hc]
    by_cases h : k' = k <;> simp [h]

theorem sInsert_idem (s : S κ) (k : κ) : sInsert (sInsert s k) k = sInsert s k := by
  apply sInsert_of_mem
  by_cases hc : k ∈ s
  · rw [sInsert_of_mem s k hc]; exact hc
  · rw [sInsert_of_not_mem s k hc]; exact List.mem_cons_self ..

theorem sLength_insert (s : S κ) (k : κ) :
    sLength (sInsert s k) = if sContains s k then sLength s else sLength s + 1 := by
  rw [sContains_eq]
  unfold sLength
  by_cases hc : k ∈ s
  · rw [sInsert_of_mem s k hc]; simp [hc]
  · rw [sInsert_of_not_mem s k hc]; simp [hc]

theorem sContains_foldl (ks : List κ) (acc : S κ) (k : κ) :
    sContains (ks.foldl sInsert acc) k = (sContains acc k || decide (k ∈ ks)) := by
  induction ks generalizing acc with
  | nil => simp
  | cons x rest ih =>
    simp only [List.foldl_cons]
    rw [ih, sContains_insert]
    by_cases h : k = x
    · simp [h]
    · by_cases h2 : k ∈ rest <;> simp [h, h2]

theorem sContains_ofList (ks : List κ) (k : κ) : sContains (sOfList ks) k = ks.contains k := by
  unfold sOfList
  rw [sContains_foldl, sContains_eq]
  by_cases h : k ∈ ks <;> simp [h]

theorem sContains_union (s t : S κ) (k : κ) : sContains (sUnion s t) k = (sContains s k || sContains t k) := by
  simp only [sContains_eq, sUnion]
  by_cases h1 : k ∈ s <;> by_cases h2 : k ∈ t <;> simp [h1, h2, List.mem_append, List.mem_filter]

theorem sContains_inter (s t : S κ) (k : κ) : sContains (sInter s t) k = (sContains s k && sContains t k) := by
  simp only [sContains_eq, sInter]
  by_cases h1 : k ∈ s <;> by_cases h2 : k ∈ t <;> simp [h1, h2, List.mem_filter]

theorem sContains_symDiff (s t : S κ) (k : κ) :
    sContains (sSymDiff s t) k = (sContains s k != sContains t k) := by
  simp only [sContains_eq, sSymDiff]
  by_cases h1 : k ∈ s <;> by_cases h2 : k ∈ t <;> simp [h1, h2, List.mem_append, List.mem_filter]

theorem sNodup_insert (s : S κ) (k : κ) (h : s.Nodup) : (sInsert s k).Nodup := by
  by_cases hc : k ∈ s
  · rw [sInsert_of_mem s k hc]; exact h
  · rw [sInsert_of_not_mem s k hc]
    exact List.nodup_cons.mpr ⟨hc, h⟩

theorem sNodup_foldl (ks : List κ) (acc : S κ) (h : acc.Nodup) : (ks.foldl sInsert acc).Nodup := by
  induction ks generalizing acc with
  | nil => exact h
  | cons x rest ih => exact ih _ (sNodup_insert acc x h)

theorem sNodup_ofList (ks : List κ) : (sOfList ks).Nodup := sNodup_foldl ks [] List.nodup_nil

/-! ## sequences -/

theorem lRef_err_iff (l : List α) (i : Int) : lRef l i = .err ↔ (i < 0 ∨ (l.length : Int) ≤ i) := by
  unfold lRef
  by_cases h : i < 0
  · simp [h]
  · simp only [h, if_false, false_or]
    cases hg : l[i.toNat]? with
    | none =>
      have := List.getElem?_eq_none_iff.mp hg
      simp only [true_iff]
      omega
    | some v =>
      have := (List.getElem?_eq_some_iff.mp hg).1
      simp only [reduceCtorEq, false_iff]
      omega

theorem lRef_ok (l : List α) (n : Nat) (h : n < l.length) : lRef l (n : Int) = .ok l[n] := by
  unfold lRef
  have : ¬ ((n : Int) < 0) := by omega
  simp [this, List.getElem?_eq_getElem h]

theorem vSet_err_iff (v : List α) (i : Int) (x : α) :
    vSet v i x = .err ↔ (i < 0 ∨ (v.length : Int) ≤ i) := by
  unfold vSet
  by_cases h : i < 0
  · simp [h]
  · simp only [h, if_false, false_or]
    by_cases h2 : i.toNat < v.length
    · simp only [h2, if_true, reduceCtorEq, false_iff]; omega
    · simp only [h2, if_false, true_iff]; omega

theorem vSet_ok (v v' : List α) (i : Int) (x : α) (h : vSet v i x = .ok v') :
    0 ≤ i ∧ i.toNat < v.length ∧ v' = v.set i.toNat x := by
  unfold vSet at h
  by_cases h1 : i < 0
  · simp [h1] at h
  · by_cases h2 : i.toNat < v.length
    · simp only [h1, h2, if_false, if_true, Res.ok.injEq] at h
      exact ⟨by omega, h2, h.symm⟩
    · simp [h1, h2] at h

theorem vSet_length (v v' : List α) (i : Int) (x : α) (h : vSet v i x = .ok v') : v'.length = v.length := by
  obtain ⟨_, _, h3⟩ := vSet_ok v v' i x h
  simp [h3]

theorem vRef_vSet (v v' : List α) (i j : Int) (x : α) (h : vSet v i x = .ok v') :
    vRef v' j = if j = i then .ok x else vRef v j := by
  obtain ⟨h1, h2, h3⟩ := vSet_ok v v' i x h
  subst h3
  unfold vRef lRef
  by_cases hj : j < 0
  · have : ¬ j = i := by omega
    simp [hj, this]
  · simp only [hj, if_false, List.getElem?_set]
    by_cases hji : j = i
    · subst hji
      simp [h2]
    · have : ¬ i.toNat = j.toNat := by omega
      simp [hji, this]

theorem vPush_ref (v : List α) (x : α) :
    vRef (vPush v x) (v.length : Int) = .ok x ∧ (vPush v x).length = v.length + 1 := by
  unfold vRef lRef vPush
  have : ¬ ((v.length : Int) < 0) := by omega
  simp [this]

theorem take_tail (l : List α) (n : Int) :
    (lTail l n = .err ↔ (n < 0 ∨ (l.length : Int) < n)) ∧
    (∀ t h, lTail l n = .ok t → lTake l n = .ok h → h ++ t = l) ∧
    ((l.length : Int) ≤ n → lTake l n = .ok l) := by
  unfold lTail lTake
  by_cases h0 : n < 0
  · simp [h0]
    omega
  · simp only [h0, if_false, false_or]
    refine ⟨?_, ?_, ?_⟩
    · by_cases h1 : n.toNat > l.length
      · simp only [h1, if_true, true_iff]; omega
      · simp only [h1, if_false, reduceCtorEq, false_iff]; omega
    · intro t h ht hh
      by_cases h1 : n.toNat > l.length
      · simp [h1] at ht
      · simp only [h1, if_false, Res.ok.injEq] at ht
        simp only [Res.ok.injEq] at hh
        subst ht; subst hh
        exact List.take_append_drop _ _
    · intro hle
      have : l.length ≤ n.toNat := by omega
      simp [List.take_of_length_le this]

theorem strSub_spec (s : List Char) (i j : Int) :
    (strSub s i j = .err ↔ (i < 0 ∨ j < i ∨ (s.length : Int) < j)) ∧
    (∀ t, strSub s i j = .ok t → (t.length : Int) = j - i) := by
  unfold strSub
  by_cases hc : (decide (i < 0) || decide (j < i) || decide (j.toNat > s.length)) = true
  · simp only [hc, if_true, true_iff, reduceCtorEq, false_implies, implies_true, and_true]
    simp only [Bool.or_eq_true, decide_eq_true_eq] at hc
    omega
  · simp only [hc, if_false, reduceCtorEq, false_iff, Res.ok.injEq]
    simp only [Bool.or_eq_true, decide_eq_true_eq, not_or] at hc
    refine ⟨by omega, ?_⟩
    intro t ht
    subst ht
    simp only [List.length_take, List.length_drop]
    omega

theorem bytes_range (xs : List Int) (i x : Int) :
    (bMake xs = .err ↔ ∃ y ∈ xs, y < 0 ∨ 255 < y) ∧ ((x < 0 ∨ 255 < x) → bSet xs i x = .err) := by
  constructor
  · unfold bMake
    by_cases h : xs.all isByte = true
    · simp only [h, if_true, reduceCtorEq, false_iff]
      rw [List.all_eq_true] at h
      rintro ⟨y, hy, hb⟩
      have := h y hy
      simp only [isByte, Bool.and_eq_true, decide_eq_true_eq] at this
      omega
    · rw [if_neg h]
      simp only [true_iff]
      have hx : ∃ y ∈ xs, isByte y = false := by
        rw [List.all_eq_true] at h
        apply Classical.byContradiction
        intro hne
        apply h
        intro y hy
        cases hb : isByte y
        · exact absurd ⟨y, hy, hb⟩ hne
        · rfl
      obtain ⟨y, hy, hb⟩ := hx
      refine ⟨y, hy, ?_⟩
      simp only [isByte, Bool.and_eq_false_iff, decide_eq_false_iff_not] at hb
      omega
  · intro h
    unfold bSet
    have : isByte x = false := by
      simp only [isByte, Bool.and_eq_false_iff, decide_eq_false_iff_not]
      omega
    simp [this]

end SteelVerif.C11.Coll
