/-
C11 helper lemmas, part 5: on values without hash maps / hash sets the specification is symmetric and
transitive (with `spec_refl`: an equivalence relation).
-/
import SteelVerif.C11.LemmasSpec
namespace SteelVerif.C11

def isOrdered : Node → Bool
  | .leaf _ | .map _ | .set _ => false
  | _ => true

def isHashed : Node → Bool
  | .map _ | .set _ => true
  | _ => false

/-- no hash map / hash set node in the graph -/
def noHashedB (g : Graph) : Bool := g.all fun n => !isHashed n
def NoHashed (g : Graph) : Prop := noHashedB g = true
instance (g : Graph) : Decidable (NoHashed g) := inferInstanceAs (Decidable (_ = _))

/-- the kind of an ordered container as `equal?` sees it (the two vector kinds coincide) -/
def otag : Node → Nat
  | .leaf _ => 0
  | .list _ _ => 1
  | .pair _ _ => 2
  | .vec _ => 3
  | .mvec _ => 3
  | .box _ => 4
  | .map _ => 5
  | .set _ => 6
  | .struct t _ => 10 + t

theorem relBody_ordered (r : Nat → Nat → Bool) (n m : Node) (hn : isOrdered n = true) (hm : isOrdered m = true) :
    relBody specCfg r n m = (otag n == otag m && all2 r (children n) (children m)) := by
  cases n <;> cases m <;> simp [isOrdered] at hn hm <;>
    simp [relBody, otag, children, specCfg, all2] <;> try omega
  case struct.struct t xs u ys =>
    have : (10 + t == 10 + u) = (t == u) := by
      rw [Bool.eq_iff_iff]; simp only [beq_iff_eq]; omega
    rw [this]

theorem relBody_leaf_ordered (r : Nat → Nat → Bool) (x : Leaf) (m : Node) (hm : isOrdered m = true) :
    relBody specCfg r (.leaf x) m = false ∧ relBody specCfg r m (.leaf x) = false := by
  cases m <;> simp [isOrdered] at hm <;> simp [relBody]

theorem fEq_symm (a b : Nat) : fEq a b = fEq b a := by
  unfold fEq
  rw [Bool.eq_iff_iff]
  simp only [Bool.and_eq_true, Bool.not_eq_true', Bool.or_eq_true, beq_iff_eq]
  constructor <;> (rintro ⟨⟨h1, h2⟩, h3⟩; exact ⟨⟨h2, h1⟩, h3.imp Eq.symm And.symm⟩)

theorem leafEqSpec_symm (x y : Leaf) : leafEqSpec x y = leafEqSpec y x := by
  cases x <;> cases y <;> simp only [leafEqSpec] <;>
    first
      | exact fEq_symm _ _
      | (rw [Bool.eq_iff_iff]; simp only [beq_iff_eq]; exact eq_comm)

theorem fEq_trans (a b c : Nat) (h1 : fEq a b = true) (h2 : fEq b c = true) : fEq a c = true := by
  unfold fEq at *
  simp only [Bool.and_eq_true, Bool.not_eq_true', Bool.or_eq_true, beq_iff_eq] at *
  obtain ⟨⟨na, nb⟩, hab⟩ := h1
  obtain ⟨⟨_, nc⟩, hbc⟩ := h2
  refine ⟨⟨na, nc⟩, ?_⟩
  rcases hab with hab | hab
  · subst hab; exact hbc
  · rcases hbc with hbc | hbc
    · subst hbc; exact Or.inr hab
    · exact Or.inr ⟨hab.1, hbc.2⟩

theorem leafEqSpec_trans (x y z : Leaf) (h1 : leafEqSpec x y = true) (h2 : leafEqSpec y z = true) :
    leafEqSpec x z = true := by
  cases x <;> cases y <;> simp only [leafEqSpec, beq_iff_eq, reduceCtorEq] at h1 <;>
    cases z <;> simp only [leafEqSpec, beq_iff_eq, reduceCtorEq] at h2 ⊢ <;>
    first
      | exact fEq_trans _ _ _ h1 h2
      | exact h1.trans h2
      | exact absurd h1 (by simp)
      | exact absurd h2 (by simp)

theorem all2_symm {r : Nat → Nat → Bool} :
    ∀ (xs ys : List Nat), (∀ x ∈ xs, ∀ y ∈ ys, r x y = r y x) → all2 r xs ys = all2 r ys xs
  | [], [], _ => rfl
  | [], _ :: _, _ => rfl
  | _ :: _, [], _ => rfl
  | x :: xs, y :: ys, h => by
      simp only [all2]
      rw [h x (List.mem_cons_self ..) y (List.mem_cons_self ..),
        all2_symm xs ys (fun a ha b hb => h a (List.mem_cons_of_mem _ ha) b (List.mem_cons_of_mem _ hb))]

theorem all2_trans {r : Nat → Nat → Bool} :
    ∀ (xs ys zs : List Nat),
      (∀ x ∈ xs, ∀ y ∈ ys, ∀ z ∈ zs, r x y = true → r y z = true → r x z = true) →
      all2 r xs ys = true → all2 r ys zs = true → all2 r xs zs = true
  | [], [], [], _, _, _ => rfl
  | [], [], _ :: _, _, _, h2 => by simp [all2] at h2
  | [], _ :: _, _, _, h1, _ => by simp [all2] at h1
  | _ :: _, [], _, _, h1, _ => by simp [all2] at h1
  | _ :: _, _ :: _, [], _, _, h2 => by simp [all2] at h2
  | x :: xs, y :: ys, z :: zs, h, h1, h2 => by
      simp only [all2, Bool.and_eq_true] at h1 h2 ⊢
      exact ⟨h x (List.mem_cons_self ..) y (List.mem_cons_self ..) z (List.mem_cons_self ..) h1.1 h2.1,
        all2_trans xs ys zs (fun a ha b hb c hc =>
          h a (List.mem_cons_of_mem _ ha) b (List.mem_cons_of_mem _ hb) c (List.mem_cons_of_mem _ hc)) h1.2 h2.2⟩

theorem node_class {g : Graph} (hh : NoHashed g) (i : Nat) :
    (∃ x, g.node i = .leaf x) ∨ isOrdered (g.node i) = true := by
  by_cases hi : i < g.length
  · have h := hh
    unfold NoHashed noHashedB at h
    rw [List.all_eq_true] at h
    have := h _ (node_mem g hi)
    cases hn : g.node i <;> rw [hn] at this <;> simp [isHashed, isOrdered] at this ⊢
  · exact Or.inl ⟨.void, node_of_ge g (Nat.le_of_not_lt hi)⟩

theorem spec_symm {g : Graph} (hwf : WF g) (hh : NoHashed g) :
    ∀ a b, a < g.length → b < g.length → eqSpec g a b = eqSpec g b a := by
  intro a
  induction a using Nat.strongRecOn with
  | _ a ih =>
    intro b ha hb
    unfold eqSpec at ih ⊢
    rw [rel_unfold specCfg hwf ha, rel_unfold specCfg hwf hb]
    rcases node_class hh a with ⟨x, hx⟩ | hoa <;> rcases node_class hh b with ⟨y, hy⟩ | hob
    · rw [hx, hy]; exact leafEqSpec_symm x y
    · rw [hx]
      have := relBody_leaf_ordered (rel specCfg g) x (g.node b) hob
      rw [this.1, this.2]
    · rw [hy]
      have := relBody_leaf_ordered (rel specCfg g) y (g.node a) hoa
      rw [this.1, this.2]
    · rw [relBody_ordered _ _ _ hoa hob, relBody_ordered _ _ _ hob hoa]
      have ht : (otag (g.node a) == otag (g.node b)) = (otag (g.node b) == otag (g.node a)) := by
        rw [Bool.eq_iff_iff]; simp only [beq_iff_eq]; exact eq_comm
      rw [ht]
      congr 1
      apply all2_symm
      intro x hx y hy
      have hxa := children_lt hwf hx
      have hyb := children_lt hwf hy
      exact ih x hxa y (by omega) (by omega)

theorem spec_trans {g : Graph} (hwf : WF g) (hh : NoHashed g) :
    ∀ a b c, a < g.length → b < g.length →
      eqSpec g a b = true → eqSpec g b c = true → eqSpec g a c = true := by
  intro a
  induction a using Nat.strongRecOn with
  | _ a ih =>
    intro b c ha hb h1 h2
    unfold eqSpec at ih h1 h2 ⊢
    rw [rel_unfold specCfg hwf ha] at h1 ⊢
    rw [rel_unfold specCfg hwf hb] at h2
    rcases node_class hh a with ⟨x, hx⟩ | hoa <;> rcases node_class hh b with ⟨y, hy⟩ | hob <;>
      rcases node_class hh c with ⟨z, hz⟩ | hoc
    · rw [hx, hy] at h1; rw [hy, hz] at h2; rw [hx, hz]
      exact leafEqSpec_trans x y z h1 h2
    · rw [hy] at h2; rw [(relBody_leaf_ordered _ y _ hoc).1] at h2; exact absurd h2 (by simp)
    · rw [hx] at h1; rw [(relBody_leaf_ordered _ x _ hob).1] at h1; exact absurd h1 (by simp)
    · rw [hx] at h1; rw [(relBody_leaf_ordered _ x _ hob).1] at h1; exact absurd h1 (by simp)
    · rw [hy] at h1; rw [(relBody_leaf_ordered _ y _ hoa).2] at h1; exact absurd h1 (by simp)
    · rw [hy] at h1; rw [(relBody_leaf_ordered _ y _ hoa).2] at h1; exact absurd h1 (by simp)
    · rw [hz] at h2; rw [(relBody_leaf_ordered _ z _ hob).2] at h2; exact absurd h2 (by simp)
    · rw [relBody_ordered _ _ _ hoa hob] at h1
      rw [relBody_ordered _ _ _ hob hoc] at h2
      rw [relBody_ordered _ _ _ hoa hoc]
      simp only [Bool.and_eq_true, beq_iff_eq] at h1 h2 ⊢
      refine ⟨h1.1.trans h2.1, ?_⟩
      apply all2_trans _ _ _ _ h1.2 h2.2
      intro x hx y hy z _ hxy hyz
      have hxa := children_lt hwf hx
      have hyb := children_lt hwf hy
      exact ih x hxa y z (by omega) (by omega) hxy hyz

end SteelVerif.C11
