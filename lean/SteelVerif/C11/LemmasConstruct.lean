/-
C11 helper lemmas, part 7: the constructors ESTABLISH the guards.  A graph is built node by node
(`g ++ [n]`, the children of `n` defined earlier).  Relations between old nodes do not change when a node
is appended (`rel_ext`); `(hashset …)` / `(hash …)` insert key by key, replacing the stored entry that
answers the query, so the members / keys of the new node are pairwise different values
(`mkSet_guards`, `mkMap_guards`); every other constructor keeps the guards trivially (`other_guards`).
-/
import SteelVerif.C11.LemmasEquivHashed
import SteelVerif.C11.LemmasLoop
namespace SteelVerif.C11

/-! ## congruence restricted to the children of both nodes -/

theorem all2_congr2 {r r' : Nat → Nat → Bool} :
    ∀ (xs ys : List Nat), (∀ x ∈ xs, ∀ y ∈ ys, r x y = r' x y) → all2 r xs ys = all2 r' xs ys
  | [], [], _ => rfl
  | [], _ :: _, _ => rfl
  | _ :: _, [], _ => rfl
  | x :: xs, y :: ys, h => by
      simp only [all2]
      rw [h x (List.mem_cons_self ..) y (List.mem_cons_self ..),
        all2_congr2 xs ys (fun a ha b hb => h a (List.mem_cons_of_mem _ ha) b (List.mem_cons_of_mem _ hb))]

theorem find?_congr_mem {α : Type} {p q : α → Bool} :
    ∀ (l : List α), (∀ x ∈ l, p x = q x) → l.find? p = l.find? q
  | [], _ => rfl
  | x :: xs, h => by
      simp only [List.find?_cons]
      rw [h x (List.mem_cons_self ..), find?_congr_mem xs (fun z hz => h z (List.mem_cons_of_mem _ hz))]

theorem mapRel_congr2 {m : MapMode} {r r' : Nat → Nat → Bool} (es fs : List (Nat × Nat))
    (hk : ∀ e ∈ es, ∀ e' ∈ fs, r e.1 e'.1 = r' e.1 e'.1)
    (hv : ∀ e ∈ es, ∀ e' ∈ fs, r e.2 e'.2 = r' e.2 e'.2) :
    mapRel m r es fs = mapRel m r' es fs := by
  cases m
  · simp only [mapRel]
    congr 1
    apply all_congr_mem
    intro e he
    rw [find?_congr_mem fs (p := fun e' => r e.1 e'.1) (q := fun e' => r' e.1 e'.1)
      (fun e' he' => hk e he e' he')]
    cases hf : fs.find? (fun e' => r' e.1 e'.1) with
    | none => rfl
    | some e' => exact hv e he e' (List.mem_of_find?_eq_some hf)
  · simp only [mapRel]
    congr 1
    apply all_congr_mem
    intro e he
    apply any_congr_mem
    intro e' he'
    rw [hk e he e' he', hv e he e' he']
  · simp only [mapRel]
    have h1 : ∀ x ∈ es.map Prod.fst, ∀ y ∈ fs.map Prod.fst, r x y = r' x y := by
      intro x hx y hy
      obtain ⟨e, he, hex⟩ := List.mem_map.mp hx
      obtain ⟨e', he', hey⟩ := List.mem_map.mp hy
      rw [← hex, ← hey]
      exact hk e he e' he'
    have h2 : ∀ x ∈ es.map Prod.snd, ∀ y ∈ fs.map Prod.snd, r x y = r' x y := by
      intro x hx y hy
      obtain ⟨e, he, hex⟩ := List.mem_map.mp hx
      obtain ⟨e', he', hey⟩ := List.mem_map.mp hy
      rw [← hex, ← hey]
      exact hv e he e' he'
    rw [all2_congr2 _ _ h1, all2_congr2 _ _ h2]

theorem setRel_congr2 {m : MapMode} {r r' : Nat → Nat → Bool} (xs ys : List Nat)
    (h : ∀ x ∈ xs, ∀ y ∈ ys, r x y = r' x y) : setRel m r xs ys = setRel m r' xs ys := by
  have key : (xs.length == ys.length && xs.all fun x => ys.any (r x)) =
      (xs.length == ys.length && xs.all fun x => ys.any (r' x)) := by
    congr 1
    apply all_congr_mem
    intro x hx
    apply any_congr_mem
    intro y hy
    exact h x hx y hy
  cases m
  · simpa only [setRel] using key
  · simpa only [setRel] using key
  · simp only [setRel]
    exact all2_congr2 _ _ h

theorem relBody_congr2 (rc : RelCfg) {r r' : Nat → Nat → Bool} (n m : Node)
    (h : ∀ x ∈ children n, ∀ y ∈ children m, r x y = r' x y) : relBody rc r n m = relBody rc r' n m := by
  cases n <;> cases m <;> simp only [relBody, children] at h ⊢
  case list.list xs _ ys _ => exact all2_congr2 _ _ h
  case pair.pair a b c d => rw [h a (by simp) c (by simp), h b (by simp) d (by simp)]
  case vec.vec xs ys => exact all2_congr2 _ _ h
  case mvec.mvec xs ys => exact all2_congr2 _ _ h
  case vec.mvec xs ys => rw [all2_congr2 _ _ h]
  case mvec.vec xs ys => rw [all2_congr2 _ _ h]
  case struct.struct t xs u ys => rw [all2_congr2 _ _ h]
  case box.box a b => exact h a (by simp) b (by simp)
  case map.map es fs =>
    exact mapRel_congr2 es fs
      (fun e he e' he' => h e.1 (List.mem_append_left _ (List.mem_map_of_mem he))
        e'.1 (List.mem_append_left _ (List.mem_map_of_mem he')))
      (fun e he e' he' => h e.2 (List.mem_append_right _ (List.mem_map_of_mem he))
        e'.2 (List.mem_append_right _ (List.mem_map_of_mem he')))
  case set.set xs ys => exact setRel_congr2 xs ys h

/-! ## appending a node does not change the old part of the graph -/

theorem node_append_lt (g : Graph) (n : Node) {i : Nat} (hi : i < g.length) : (g ++ [n]).node i = g.node i := by
  unfold Graph.node
  rw [List.getD_eq_getElem?_getD, List.getD_eq_getElem?_getD, List.getElem?_append_left hi]

theorem node_append_len (g : Graph) (n : Node) : (g ++ [n]).node g.length = n := by
  unfold Graph.node
  simp [List.getD_eq_getElem?_getD]

theorem relF_ext (rc : RelCfg) {g : Graph} (hwf : WF g) (n : Node) :
    ∀ (f a b : Nat), a < g.length → b < g.length → relF rc (g ++ [n]) f a b = relF rc g f a b
  | 0, _, _, _, _ => rfl
  | f + 1, a, b, ha, hb => by
      simp only [relF]
      rw [node_append_lt g n ha, node_append_lt g n hb]
      apply relBody_congr2
      intro x hx y hy
      exact relF_ext rc hwf n f x y (Nat.lt_trans (children_lt hwf hx) ha) (Nat.lt_trans (children_lt hwf hy) hb)

/-- **extension stability**: relations between nodes of `g` are the same in `g ++ [n]` -/
theorem rel_ext (rc : RelCfg) {g : Graph} (hwf : WF g) (n : Node) {a b : Nat} (ha : a < g.length)
    (hb : b < g.length) : rel rc (g ++ [n]) a b = rel rc g a b := by
  unfold rel
  rw [relF_ext rc hwf n _ a b ha hb]
  have hl : (g ++ [n]).length = g.length + 1 := by simp
  rw [hl]
  exact relF_stable rc hwf a (g.length + 1) g.length (by omega) ha b

theorem eqSpec_ext {g : Graph} (hwf : WF g) (n : Node) {a b : Nat} (ha : a < g.length) (hb : b < g.length) :
    eqSpec (g ++ [n]) a b = eqSpec g a b := rel_ext specCfg hwf n ha hb

theorem mem_node {g : Graph} {nd : Node} (h : nd ∈ g) : ∃ i, i < g.length ∧ g.node i = nd :=
  by unfold Graph.node; exact mem_getD (.leaf .void) h

theorem getD_mem {α : Type} {l : List α} {i : Nat} (d : α) (hi : i < l.length) : l.getD i d ∈ l := by
  rw [List.getD_eq_getElem?_getD, List.getElem?_eq_getElem hi]
  exact List.getElem_mem hi

theorem pairwise_getD {α : Type} {R : α → α → Prop} (d : α) {l : List α} (h : l.Pairwise R)
    (hsym : ∀ a b, R a b → R b a) :
    ∀ i j, i < l.length → j < l.length → i ≠ j → R (l.getD i d) (l.getD j d) := by
  rw [List.pairwise_iff_getElem] at h
  intro i j hi hj hij
  simp only [List.getD_eq_getElem?_getD, List.getElem?_eq_getElem hi, List.getElem?_eq_getElem hj,
    Option.getD_some]
  rcases Nat.lt_or_gt_of_ne hij with h1 | h1
  · exact h i j hi hj h1
  · exact hsym _ _ (h j i hj hi h1)

/-! ## each guard is kept by an extension -/

theorem wf_ext {g : Graph} {n : Node} (hwf : WF g) (hc : ∀ j ∈ children n, j < g.length) : WF (g ++ [n]) := by
  unfold WF wfB
  rw [List.all_eq_true]
  intro i hi
  rw [List.mem_range] at hi
  rw [List.all_eq_true]
  intro j hj
  apply decide_eq_true
  by_cases h : i < g.length
  · rw [node_append_lt g n h] at hj
    exact children_lt hwf hj
  · have hl : (g ++ [n]).length = g.length + 1 := by simp
    have : i = g.length := by omega
    subst this
    rw [node_append_len] at hj
    exact hc j hj

theorem noNaN_ext {g : Graph} {n : Node} (hn : NoNaN g) (h : leafNoNaN n = true) : NoNaN (g ++ [n]) := by
  unfold NoNaN noNaNB at *
  simp [List.all_append, hn, h]

theorem sig_ext {g : Graph} {n : Node} (hsig : ListSigOK g) (hn : ∀ xs s, n = .list xs s → s = none) :
    ListSigOK (g ++ [n]) := by
  unfold ListSigOK listSigB at *
  rw [List.all_eq_true] at hsig ⊢
  intro n1 hn1
  rw [List.all_eq_true]
  intro n2 hn2
  rcases List.mem_append.mp hn1 with h1 | h1 <;> rcases List.mem_append.mp hn2 with h2 | h2
  · have := hsig n1 h1
    rw [List.all_eq_true] at this
    exact this n2 h2
  · rw [List.mem_singleton] at h2
    subst h2
    split
    · rename_i ys t
      exact absurd (hn ys (some t) rfl) (by simp)
    · rfl
  · rw [List.mem_singleton] at h1
    subst h1
    split
    · rename_i xs s ys t
      exact absurd (hn xs (some s) rfl) (by simp)
    · rfl
  · rw [List.mem_singleton] at h1
    subst h1
    split
    · rename_i xs s ys t
      exact absurd (hn xs (some s) rfl) (by simp)
    · rfl

theorem keysDistinct_ext {g : Graph} {n : Node} (hwf : WF g) (hk : KeysDistinct g)
    (hc : ∀ j ∈ children n, j < g.length)
    (hn : ∀ es, n = .map es → ∀ i j, i < es.length → j < es.length → i ≠ j →
      eqSpec g (es.getD i (0, 0)).1 (es.getD j (0, 0)).1 = false) : KeysDistinct (g ++ [n]) := by
  have key : ∀ (es : List (Nat × Nat)), (∀ e ∈ es, e.1 < g.length) →
      (∀ i j, i < es.length → j < es.length → i ≠ j →
        eqSpec g (es.getD i (0, 0)).1 (es.getD j (0, 0)).1 = false) →
      ((List.range es.length).all fun i => (List.range es.length).all fun j =>
          i == j || !eqSpec (g ++ [n]) (es.getD i (0, 0)).1 (es.getD j (0, 0)).1) = true := by
    intro es hlt hd
    simp only [List.all_eq_true, List.mem_range, Bool.or_eq_true, beq_iff_eq, Bool.not_eq_true']
    intro a ha b hb
    by_cases hab : a = b
    · exact Or.inl hab
    · right
      rw [eqSpec_ext hwf n (hlt _ (getD_mem _ ha)) (hlt _ (getD_mem _ hb))]
      exact hd a b ha hb hab
  unfold KeysDistinct keysDistinctB
  rw [List.all_append, Bool.and_eq_true]
  constructor
  · rw [List.all_eq_true]
    intro nd hnd
    obtain ⟨i, hi, hnode⟩ := mem_node hnd
    cases nd <;> try rfl
    case map es =>
      apply key es
      · intro e he
        have : e.1 ∈ children (g.node i) := by
          rw [hnode]
          exact List.mem_append_left _ (List.mem_map_of_mem he)
        exact Nat.lt_trans (children_lt hwf this) hi
      · exact keysDistinct_node hk hi hnode
  · simp only [List.all_cons, List.all_nil, Bool.and_true]
    cases n <;> try rfl
    case map es =>
      exact key es (fun e he => hc e.1 (List.mem_append_left _ (List.mem_map_of_mem he))) (hn es rfl)

theorem membersDistinct_ext {g : Graph} {n : Node} (hwf : WF g) (hm : MembersDistinct g)
    (hc : ∀ j ∈ children n, j < g.length)
    (hn : ∀ xs, n = .set xs → ∀ i j, i < xs.length → j < xs.length → i ≠ j →
      eqSpec g (xs.getD i 0) (xs.getD j 0) = false) : MembersDistinct (g ++ [n]) := by
  have key : ∀ (xs : List Nat), (∀ x ∈ xs, x < g.length) →
      (∀ i j, i < xs.length → j < xs.length → i ≠ j → eqSpec g (xs.getD i 0) (xs.getD j 0) = false) →
      ((List.range xs.length).all fun i => (List.range xs.length).all fun j =>
          i == j || !eqSpec (g ++ [n]) (xs.getD i 0) (xs.getD j 0)) = true := by
    intro xs hlt hd
    simp only [List.all_eq_true, List.mem_range, Bool.or_eq_true, beq_iff_eq, Bool.not_eq_true']
    intro a ha b hb
    by_cases hab : a = b
    · exact Or.inl hab
    · right
      rw [eqSpec_ext hwf n (hlt _ (getD_mem _ ha)) (hlt _ (getD_mem _ hb))]
      exact hd a b ha hb hab
  unfold MembersDistinct membersDistinctB
  rw [List.all_append, Bool.and_eq_true]
  constructor
  · rw [List.all_eq_true]
    intro nd hnd
    obtain ⟨i, hi, hnode⟩ := mem_node hnd
    cases nd <;> try rfl
    case set xs =>
      apply key xs
      · intro x hx
        have : x ∈ children (g.node i) := by
          rw [hnode]
          exact hx
        exact Nat.lt_trans (children_lt hwf this) hi
      · exact membersDistinct_node hm hi hnode
  · simp only [List.all_cons, List.all_nil, Bool.and_true]
    cases n <;> try rfl
    case set xs => exact key xs hc (hn xs rfl)

/-! ## the guards, and the constructors -/

structure Guards (g : Graph) : Prop where
  wf : WF g
  nonan : NoNaN g
  keys : KeysDistinct g
  members : MembersDistinct g
  sig : ListSigOK g

theorem guards_nil : Guards [] := ⟨by decide, by decide, by decide, by decide, by decide⟩

theorem guards_ext {g : Graph} {n : Node} (h : Guards g) (hc : ∀ j ∈ children n, j < g.length)
    (hnan : leafNoNaN n = true) (hsig : ∀ xs s, n = .list xs s → s = none)
    (hkeys : ∀ es, n = .map es → ∀ i j, i < es.length → j < es.length → i ≠ j →
      eqSpec g (es.getD i (0, 0)).1 (es.getD j (0, 0)).1 = false)
    (hmem : ∀ xs, n = .set xs → ∀ i j, i < xs.length → j < xs.length → i ≠ j →
      eqSpec g (xs.getD i 0) (xs.getD j 0) = false) : Guards (g ++ [n]) :=
  ⟨wf_ext h.wf hc, noNaN_ext h.nonan hnan, keysDistinct_ext h.wf h.keys hc hkeys,
    membersDistinct_ext h.wf h.members hc hmem, sig_ext h.sig hsig⟩

/-- `HashMap::get` / `HashSet::contains` of the fixed code decide equality of the unfoldings (the proofs of
    `eq_structural` and `keys_interchangeable`, for `Cfg.fixed`) -/
theorem keyEq_fixed_spec {g : Graph} (hwf : WF g) (hn : NoNaN g) (hkd : KeysDistinct g) (hsig : ListSigOK g)
    {k : Nat} (hk : k < g.length) (k' : Nat) : keyEqImpl Cfg.fixed g k k' = eqSpec g k k' := by
  have heq : eqImpl Cfg.fixed g k k' = eqSpec g k k' := by
    unfold eqImpl
    apply topEq_spec hwf hk
    have := loop_correct hwf hn hkd hsig (size g k + size g k') [(k, k')] [] []
      (by simpa using hk) (by simp) (by intro q hq; simp at hq) (by simp)
    simpa [specP] using this
  unfold keyEqImpl
  rw [heq]
  cases hs : eqSpec g k k'
  · simp
  · have : hashEq Cfg.fixed g k k' = true := relF_spec_hash g _ _ _ hs
    simp [this]

/-- invariant of the loop of `(hashset …)`: members are old nodes, pairwise different values -/
def SetInv (g : Graph) (xs : List Nat) : Prop :=
  (∀ x ∈ xs, x < g.length) ∧ xs.Pairwise (fun u v => eqSpec g u v = false ∧ eqSpec g v u = false)

theorem setInsert_inv {g : Graph} (h : Guards g) {xs : List Nat} {k : Nat} (hi : SetInv g xs)
    (hk : k < g.length) : SetInv g (setInsertIds (keyEqImpl Cfg.fixed g) xs k) := by
  unfold setInsertIds
  constructor
  · intro x hx
    rcases List.mem_append.mp hx with hx | hx
    · exact hi.1 x (List.mem_filter.mp hx).1
    · rw [List.mem_singleton.mp hx]
      exact hk
  · rw [List.pairwise_append]
    refine ⟨hi.2.filter _, List.pairwise_singleton _ _, ?_⟩
    intro a ha b hb
    rw [List.mem_singleton.mp hb]
    have ha' := List.mem_filter.mp ha
    have hf : eqSpec g k a = false := by
      have := ha'.2
      rw [keyEq_fixed_spec h.wf h.nonan h.keys h.sig hk] at this
      simpa using this
    have hal := hi.1 a ha'.1
    exact ⟨by rw [spec_symm_full h.wf h.keys h.members a k hal hk]; exact hf, hf⟩

theorem setFold_inv {g : Graph} (h : Guards g) :
    ∀ (ks xs : List Nat), SetInv g xs → (∀ k ∈ ks, k < g.length) →
      SetInv g (ks.foldl (setInsertIds (keyEqImpl Cfg.fixed g)) xs)
  | [], _, hi, _ => hi
  | k :: ks, xs, hi, hks => by
      simp only [List.foldl_cons]
      exact setFold_inv h ks _ (setInsert_inv h hi (hks k (List.mem_cons_self ..)))
        (fun z hz => hks z (List.mem_cons_of_mem _ hz))

/-- `(hashset k …)` -/
theorem mkSet_guards {g : Graph} (h : Guards g) (ks : List Nat) (hks : ∀ k ∈ ks, k < g.length) :
    Guards (g ++ [mkSet Cfg.fixed g ks]) := by
  have hinv := setFold_inv h ks [] ⟨fun x hx => (by cases hx), List.Pairwise.nil⟩ hks
  unfold mkSet
  apply guards_ext h
  · exact hinv.1
  · rfl
  · intro xs s hx; cases hx
  · intro es hx; cases hx
  · intro xs hx
    injection hx with hx
    subst hx
    intro i j hi hj hij
    exact (pairwise_getD 0 hinv.2 (fun a b hab => ⟨hab.2, hab.1⟩) i j hi hj hij).1

/-- invariant of the loop of `(hash …)`: keys and values are old nodes, keys pairwise different values -/
def MapInv (g : Graph) (es : List (Nat × Nat)) : Prop :=
  (∀ e ∈ es, e.1 < g.length ∧ e.2 < g.length) ∧
    es.Pairwise (fun e e' => eqSpec g e.1 e'.1 = false ∧ eqSpec g e'.1 e.1 = false)

theorem mapInsert_inv {g : Graph} (h : Guards g) {es : List (Nat × Nat)} {k v : Nat} (hi : MapInv g es)
    (hk : k < g.length) (hv : v < g.length) : MapInv g (mapInsertIds (keyEqImpl Cfg.fixed g) es k v) := by
  unfold mapInsertIds
  constructor
  · intro x hx
    rcases List.mem_append.mp hx with hx | hx
    · exact hi.1 x (List.mem_filter.mp hx).1
    · rw [List.mem_singleton.mp hx]
      exact ⟨hk, hv⟩
  · rw [List.pairwise_append]
    refine ⟨hi.2.filter _, List.pairwise_singleton _ _, ?_⟩
    intro a ha b hb
    rw [List.mem_singleton.mp hb]
    have ha' := List.mem_filter.mp ha
    have hf : eqSpec g k a.1 = false := by
      have := ha'.2
      rw [keyEq_fixed_spec h.wf h.nonan h.keys h.sig hk] at this
      simpa using this
    have hal := (hi.1 a ha'.1).1
    exact ⟨by rw [spec_symm_full h.wf h.keys h.members a.1 k hal hk]; exact hf, hf⟩

theorem mapFold_inv {g : Graph} (h : Guards g) :
    ∀ (kvs es : List (Nat × Nat)), MapInv g es → (∀ e ∈ kvs, e.1 < g.length ∧ e.2 < g.length) →
      MapInv g (kvs.foldl (fun es e => mapInsertIds (keyEqImpl Cfg.fixed g) es e.1 e.2) es)
  | [], _, hi, _ => hi
  | e :: kvs, es, hi, hks => by
      simp only [List.foldl_cons]
      have he := hks e (List.mem_cons_self ..)
      exact mapFold_inv h kvs _ (mapInsert_inv h hi he.1 he.2)
        (fun z hz => hks z (List.mem_cons_of_mem _ hz))

/-- `(hash k v …)` -/
theorem mkMap_guards {g : Graph} (h : Guards g) (kvs : List (Nat × Nat))
    (hks : ∀ e ∈ kvs, e.1 < g.length ∧ e.2 < g.length) : Guards (g ++ [mkMap Cfg.fixed g kvs]) := by
  have hinv := mapFold_inv h kvs [] ⟨fun x hx => (by cases hx), List.Pairwise.nil⟩ hks
  unfold mkMap
  apply guards_ext h
  · intro j hj
    rcases List.mem_append.mp hj with hj | hj
    · obtain ⟨e, he, hej⟩ := List.mem_map.mp hj
      rw [← hej]
      exact (hinv.1 e he).1
    · obtain ⟨e, he, hej⟩ := List.mem_map.mp hj
      rw [← hej]
      exact (hinv.1 e he).2
  · rfl
  · intro xs s hx; cases hx
  · intro es hx
    injection hx with hx
    subst hx
    intro i j hi hj hij
    exact (pairwise_getD (R := fun e e' : Nat × Nat => eqSpec g e.1 e'.1 = false ∧ eqSpec g e'.1 e.1 = false)
      (0, 0) hinv.2 (fun a b hab => ⟨hab.2, hab.1⟩) i j hi hj hij).1
  · intro xs hx; cases hx

/-- every other constructor: a node that is no hash map / hash set, has no NaN, children defined earlier;
    lists with `sig = none` -/
theorem other_guards {g : Graph} (h : Guards g) (n : Node) (hn : isHashed n = false) (hnan : leafNoNaN n = true)
    (hsig : ∀ xs s, n = .list xs s → s = none) (hc : ∀ j ∈ children n, j < g.length) : Guards (g ++ [n]) := by
  apply guards_ext h hc hnan hsig
  · intro es hx
    rw [hx] at hn
    simp [isHashed] at hn
  · intro xs hx
    rw [hx] at hn
    simp [isHashed] at hn

end SteelVerif.C11
