/-
C11 — model P of the Rust collection PRIMITIVES (`crates/steel-core/src/primitives/{lists,vectors,hashmaps,
hashsets,strings,bytevectors}.rs`, `scheme/stdlib.scm` for `drop`) and of the `imbl` set/map algorithms they
call (`steel-imbl-7.1.0/src/hash/{map,set}.rs`: `union`, `symmetric_difference`, `intersection`, `is_subset`).

Each function follows the code: the same conversions of the integer arguments (`usize` / `isize` / `u8`
parameters), the same case splits and the same order of the checks, the same loops.  The mathematical model S
is `Coll.*` of Model.lean (association lists as finite maps, duplicate-free lists as finite sets, `List`
sequences with `Int` indices, strings as `List Char` indexed by characters).  `stepP` / `stepS` run one
operation of the operation language `Op` on the two models; `LemmasPrim.lean` proves the refinement, the
property theorem is `Props.prim_refines`.

What is NOT modelled below the primitives: the HAMT of `imbl` (a hash map is a list of entries in an
unspecified order; `insert` replaces the entry with an equal key), the unrolled cells of `im-lists` (a list is
a sequence), the UTF-8 encoding itself (a string is a `List Char`; byte offsets are sums of `Char.utf8Size`).
-/
import SteelVerif.C11.Model
namespace SteelVerif.C11

namespace Coll
variable {α : Type}
/-! ### S for the operations that had no reference definition yet -/
/-- `(drop l n)`: defined exactly for `0 ≤ n ≤ length` -/
def lDrop (l : List α) (n : Int) : Res (List α) :=
  if n < 0 then .err else if n.toNat > l.length then .err else .ok (l.drop n.toNat)
/-- `(range lo hi)`: the integers `lo ≤ x < hi`; negative bounds are an error -/
def lRange (lo hi : Int) : Res (List Int) :=
  if lo < 0 ∨ hi < 0 then .err else .ok ((List.range (hi - lo).toNat).map fun (i : Nat) => lo + (i : Int))
/-- `(immutable-vector-take v n)`: at most `n`; `(immutable-vector-drop v n)`: at most `n` — no error beyond the length -/
def iTake (v : List α) (n : Int) : Res (List α) := if n < 0 then .err else .ok (v.take n.toNat)
def iDrop (v : List α) (n : Int) : Res (List α) := if n < 0 then .err else .ok (v.drop n.toNat)
/-- `(substring s i)` / `(string->list s i)`: to the end -/
def strFrom (s : List Char) (i : Int) : Res (List Char) :=
  if i < 0 || i.toNat > s.length then .err else .ok (s.drop i.toNat)
end Coll

namespace Prim

/-! ## argument conversion (`FromSteelVal` for the parameter types of `#[function]`) -/

/-- a `usize` parameter: a negative `IntV` is a conversion error -/
def asUsize (i : Int) : Option Nat := if i < 0 then none else some i.toNat
/-- a `u8` parameter -/
def asU8 (i : Int) : Option Int := if 0 ≤ i && i < 256 then some i else none

variable {α : Type}

/-! ## lists (`lists.rs`; `drop` is `scheme/stdlib.scm`) -/

/-- `list_ref(list, index: isize)`: `if index < 0 { stop! }`; `list.get(index as usize).ok_or(..)` -/
def listRef (l : List α) (index : Int) : Res α :=
  if index < 0 then .err
  else match l[index.toNat]? with
    | some v => .ok v
    | none => .err

/-- `list_tail(list, pos: usize)`: `l.tail(pos).ok_or(..)`; `tail` is `None` beyond the length -/
def listTail (l : List α) (pos : Int) : Res (List α) :=
  match asUsize pos with
  | none => .err
  | some p => if p ≤ l.length then .ok (l.drop p) else .err

/-- `take(list, n: isize)`: `if n < 0 { stop! } else { list.iter().take(n as usize).cloned().collect() }` -/
def take (l : List α) (n : Int) : Res (List α) :=
  if n < 0 then .err else .ok (l.take n.toNat)

/-- `last`: `list.len().checked_sub(1).and_then(|index| list.get(index)).cloned().ok_or(..)` -/
def last (l : List α) : Res α :=
  match l.length with
  | 0 => .err
  | n + 1 => match l[n]? with
    | some v => .ok v
    | none => .err

/-- `car` / `first` -/
def first (l : List α) : Res α := match l with | [] => .err | x :: _ => .ok x

/-- `cdr` / `rest`: `if l.is_empty() { stop! }`; `l.rest_mut()` -/
def rest (l : List α) : Res (List α) := if l.isEmpty then .err else .ok l.tail

/-- the `loop` of `(define (drop lst n) …)`: `(if (zero? n) lst (loop (cdr lst) (sub1 n)))` -/
def dropLoop : List α → Nat → Res (List α)
  | l, 0 => .ok l
  | l, n + 1 => match rest l with
    | .ok t => dropLoop t n
    | .err => .err

/-- `(drop lst n)`: `(if (< n 0) (error …) (loop lst n))` -/
def drop (l : List α) (n : Int) : Res (List α) := if n < 0 then .err else dropLoop l n.toNat

/-- `append` on lists only (the second branch of the primitive): `initial` = the first argument; for every
    further list `r`: `if initial.is_empty() { *initial = r.clone(); continue }`; `initial.append_mut(r)` -/
def append : List (List α) → List α
  | [] => []
  | first :: more => more.foldl (fun initial r => if initial.isEmpty then r else initial ++ r) first

/-- `(lower..upper).map(SteelVal::IntV)` -/
def rangeFrom (lo : Int) : Nat → List Int
  | 0 => []
  | n + 1 => lo :: rangeFrom (lo + 1) n

/-- `range`: `[IntV(upper)] => (0, upper)`, `[IntV(lower), IntV(upper)]`; `if lower < 0 || upper < 0 { stop! }` -/
def range (lower upper : Int) : Res (List Int) :=
  if lower < 0 || upper < 0 then .err else .ok (rangeFrom lower (upper - lower).toNat)

/-! ## vectors (`vectors.rs`) -/

/-- `vec_ref(vec, idx)`: `if *i < 0 { stop! }`; `if idx_usize >= guard.len() { stop! }`; `guard[idx_usize]` -/
def vectorRef (v : List α) (i : Int) : Res α :=
  if i < 0 then .err
  else if i.toNat ≥ v.length then .err
  else match v[i.toNat]? with
    | some x => .ok x
    | none => .err

/-- `mut_vec_set(vec, i: usize, value)`: `if let Some(v) = guard.get_mut(i) { *v = value } else { stop! }` -/
def vectorSet (v : List α) (i : Int) (x : α) : Res (List α) :=
  match asUsize i with
  | none => .err
  | some p => match v[p]? with
    | some _ => .ok (v.set p x)
    | none => .err

/-- `vector-push!` -/
def vectorPush (v : List α) (x : α) : List α := v ++ [x]

/-- `vector-append`: `let mut vector = Vec::new(); for arg in args { vector.extend(..) }` -/
def vectorAppend (args : List (List α)) : List α := args.foldl (fun acc a => acc ++ a) []

/-! ## immutable vectors (`vectors.rs`, `imbl::Vector`): every update has a branch for a uniquely owned vector
(`Gc::get_mut` succeeds: in place) and one for a shared vector (a copy) -/

/-- `vec_ref`, `VectorV` branch: `if idx_usize < v.len() { Ok(v[idx_usize].clone()) } else { stop! }` -/
def ivRef (v : List α) (i : Int) : Res α :=
  if i < 0 then .err
  else if i.toNat < v.length then (match v[i.toNat]? with | some x => .ok x | none => .err)
  else .err

/-- `immutable_vector_set(vector, index: usize, value)`: both branches check `index >= v.len()` first -/
def ivSet (unique : Bool) (v : List α) (index : Int) (x : α) : Res (List α) :=
  match asUsize index with
  | none => .err
  | some p =>
    if unique then (if p ≥ v.length then .err else .ok (v.set p x))
    else (if p ≥ v.length then .err else .ok (v.set p x))

/-- `immutable_vector_take(vector, count: usize)`: unique: `v.truncate(count)`; shared: `v.take(count.min(v.len()))` -/
def ivTake (unique : Bool) (v : List α) (count : Int) : Res (List α) :=
  match asUsize count with
  | none => .err
  | some c => if unique then .ok (v.take c) else .ok (v.take (min c v.length))

/-- `for _ in 0..count { v.pop_front(); }` (`pop_front` of an empty vector is `None`) -/
def popFrontLoop : List α → Nat → List α
  | v, 0 => v
  | v, n + 1 => popFrontLoop v.tail n

/-- `immutable_vector_drop(vector, count: usize)`: unique: the `pop_front` loop; shared: `v.skip(count)` -/
def ivDrop (unique : Bool) (v : List α) (count : Int) : Res (List α) :=
  match asUsize count with
  | none => .err
  | some c => if unique then .ok (popFrontLoop v c) else .ok (v.drop c)

/-- `immutable_vector_rest`: `v.pop_front()` in both branches -/
def ivRest (v : List α) : List α := v.tail

/-- `immutable_vector_append`: `let mut vector = Vector::new(); while let Some(vec) = rest.next() { vector.extend(..) }` -/
def ivAppend (args : List (List α)) : List α := args.foldl (fun acc a => acc ++ a) []

/-! ## byte vectors (`bytevectors.rs`) -/

/-- `bytes`: `args.iter().map(u8::from_steelval).collect::<Result<Vec<_>>>()` -/
def bytesNew : List Int → Res (List Int)
  | [] => .ok []
  | x :: xs => match asU8 x with
    | none => .err
    | some b => match bytesNew xs with
      | .ok bs => .ok (b :: bs)
      | .err => .err

/-- `bytes_ref(value, index: usize)`: `guard.get(index).ok_or(..)` -/
def bytesRef (v : List Int) (index : Int) : Res Int :=
  match asUsize index with
  | none => .err
  | some p => match v[p]? with
    | some b => .ok b
    | none => .err

/-- `bytes_set(value, index: usize, byte: u8)`: the arguments are converted in order, then
    `if index >= guard.len() { stop! }`; `guard[index] = byte` -/
def bytesSet (v : List Int) (index byte : Int) : Res (List Int) :=
  match asUsize index with
  | none => .err
  | some p => match asU8 byte with
    | none => .err
    | some b => if p ≥ v.length then .err else .ok (v.set p b)

/-- `bytes_push(value, byte: u8)` -/
def bytesPush (v : List Int) (byte : Int) : Res (List Int) :=
  match asU8 byte with
  | none => .err
  | some b => .ok (v ++ [b])

/-- `bytes_append`: `while let Some(bytes) = rest.next() { vector.extend(&*borrow) }` -/
def bytesAppend (args : List (List Int)) : List Int := args.foldl (fun acc a => acc ++ a) []

/-! ## strings (`strings.rs`): a `String` is UTF-8; the primitives take CHARACTER indices and turn them into byte
offsets with `char_indices()`.  A string is modelled as its characters; `byteLen` is `str::len()`. -/

/-- `s.len()`: length in bytes -/
def byteLen (s : List Char) : Nat := (s.map Char.utf8Size).sum

/-- `s.char_indices().map(|(offset, _)| offset).chain(once(s.len()))`, starting at byte offset `o` -/
def charOffsets (o : Nat) : List Char → List Nat
  | [] => [o]
  | c :: cs => o :: charOffsets (o + c.utf8Size) cs

/-- `value[start..end]` for byte offsets: the characters whose first byte lies in the range (the text starts at
    byte offset `o`) -/
def sliceBytes (o start stop : Nat) : List Char → List Char
  | [] => []
  | c :: cs =>
      if start ≤ o && o < stop then c :: sliceBytes (o + c.utf8Size) start stop cs
      else sliceBytes (o + c.utf8Size) start stop cs

/-- `fn bounds(s, i: Option<isize>, j: Option<isize>, name) -> Result<Range<usize>>`, check by check -/
def bounds (s : List Char) (i j : Option Int) : Res (Nat × Nat) :=
  let i := i.getD 0
  if i < 0 then .err                                        -- "bounds must be non-negative: left"
  else
    let i := i.toNat
    if i > byteLen s then .err                              -- `if i > s.len()` (the BYTE length)
    else
      let bad := match j with
        | some j => if j < 0 then true else decide (i > j.toNat)   -- "right" negative / "left bound must be <= right"
        | none => false
      if bad then .err
      else
        let offs := charOffsets 0 s
        match offs[i]? with                                 -- `char_offsets.nth(i)`
        | none => .err
        | some start =>
            match j with
            | none => .ok (start, byteLen s)                -- `start..s.len()`
            | some j =>
                -- `once(start).chain(char_offsets).nth(j - i)`: `char_offsets` has consumed `i + 1` offsets
                match (start :: offs.drop (i + 1))[j.toNat - i]? with
                | none => .err
                | some stop => .ok (start, stop)

/-- `substring(value, i: usize, rest: isize…)`: `value[bounds(value, Some(i), j)?]` -/
def substring (s : List Char) (i : Int) (j : Option Int) : Res (List Char) :=
  match asUsize i with
  | none => .err
  | some _ =>
    match bounds s (some i) j with
    | .ok (a, b) => .ok (sliceBytes 0 a b s)
    | .err => .err

/-- `string_to_list(value, rest: isize…)`: `value[bounds(value, i, j)?].chars()` -/
def stringToList (s : List Char) (i j : Option Int) : Res (List Char) :=
  match bounds s i j with
  | .ok (a, b) => .ok (sliceBytes 0 a b s)
  | .err => .err

/-- `string_ref(value, index: usize)`: `if index < value.len() { value.chars().nth(index) } else { None }` — the
    guard compares with the BYTE length -/
def stringRef (s : List Char) (index : Int) : Res Char :=
  match asUsize index with
  | none => .err
  | some p =>
    match (if p < byteLen s then s[p]? else none) with
    | some c => .ok c
    | none => .err

/-- `string_length`: `value.chars().count()` -/
def stringLength (s : List Char) : Nat := s.length

/-- `string_append`: `rest.try_fold("".to_string(), |accum, next| Ok(accum + next))` -/
def stringAppend (args : List (List Char)) : List Char := args.foldl (fun acc a => acc ++ a) []

/-! ## hash maps (`hashmaps.rs`, `imbl::HashMap`) -/

section Maps
variable {κ ν : Type} [DecidableEq κ]

/-- `HashMap::get` -/
def hmGet (m : List (κ × ν)) (k : κ) : Option ν := (m.find? fun e => e.1 == k).map Prod.snd
/-- `HashMap::insert`: the entry with an equal key is replaced (key and value), otherwise one is added -/
def hmInsert (m : List (κ × ν)) (k : κ) (v : ν) : List (κ × ν) := m.filter (fun e => !(e.1 == k)) ++ [(k, v)]
/-- `HashMap::remove` -/
def hmRemove (m : List (κ × ν)) (k : κ) : List (κ × ν) := m.filter fun e => !(e.1 == k)

/-- `hm_construct`: `loop { match (arg_iter.next(), arg_iter.next()) { (Some(key), Some(value)) => hm.insert(key, value),
    (None, None) => break, _ => stop!(ArityMismatch) } }` -/
def hmConstruct (hm : List (κ × ν)) : List κ → List ν → Option (List (κ × ν))
  | [], [] => some hm
  | k :: ks, v :: vs => hmConstruct (hmInsert hm k v) ks vs
  | _, _ => none

/-- `hash_ref`: `match map.get(key) { Some(value) => Ok(value.clone()), None => stop! }` -/
def hashRef (m : List (κ × ν)) (k : κ) : Res ν := match hmGet m k with | some v => .ok v | none => .err
/-- `hash_contains`: `map.contains_key(key)` -/
def hashContains (m : List (κ × ν)) (k : κ) : Bool := (hmGet m k).isSome

/-- `imbl::HashMap::union(self, other)`: the LARGER map is mutated; entries of the other one are inserted when
    the key is vacant, and also over an occupied key when the consumed map is `self` (`use_to_consume`) -/
def imblUnion (self other : List (κ × ν)) : List (κ × ν) :=
  if self.length ≥ other.length then
    -- `Entry::Occupied` and `!use_to_consume`: `_ => {}`; `Entry::Vacant(e) => e.insert(v)`
    other.foldl (fun toMutate e => if (hmGet toMutate e.1).isSome then toMutate else hmInsert toMutate e.1 e.2) self
  else
    -- `Entry::Occupied(mut e) if use_to_consume => e.insert(v)`; `Entry::Vacant(e) => e.insert(v)`
    self.foldl (fun toMutate e =>
      if (hmGet toMutate e.1).isSome then hmInsert toMutate e.1 e.2 else hmInsert toMutate e.1 e.2) other

/-- `hm_union(hml, hmr)`: one branch per `(Gc::get_mut(l), Gc::get_mut(r))` (is the map uniquely owned?); every
    branch computes `l.union(r)` and differs in WHERE the result is stored (in the left or in the right object) -/
def hmUnion (uniqueL uniqueR : Bool) (l r : List (κ × ν)) : List (κ × ν) :=
  match uniqueL, uniqueR with
  | false, false => imblUnion l r     -- `Gc::new(hml.union(hmr))`
  | false, true => imblUnion l r      -- `*r_map = l.unwrap().union(right_side_value)`; result = `hmr`
  | true, false => imblUnion l r      -- `*l_map = left_side_value.union(r.unwrap())`; result = `hml`
  | true, true => imblUnion l r       -- `*l_map = left_side_value.union(right_side_value)`; result = `hml`

/-! ## hash sets (`hashsets.rs`, `imbl::HashSet`) -/

/-- `HashSet::insert`: an equal member is replaced by the new object -/
def hsInsert (s : List κ) (k : κ) : List κ := s.filter (fun x => !(x == k)) ++ [k]
/-- `hs_construct`: `for key in args { hs.insert(key.clone()) }` -/
def hsConstruct (args : List κ) : List κ := args.foldl hsInsert []
/-- `imbl::HashSet::union`: the larger set is mutated, the members of the other one are inserted -/
def imblSetUnion (self other : List κ) : List κ :=
  if self.length ≥ other.length then other.foldl hsInsert self else self.foldl hsInsert other
/-- `imbl::HashSet::symmetric_difference`: `for value in other { if self.remove(&value).is_none() { self.insert(value) } }` -/
def imblSymDiff (self other : List κ) : List κ :=
  other.foldl (fun acc x => if acc.contains x then acc.filter (fun y => !(y == x)) else hsInsert acc x) self
/-- `imbl::HashSet::intersection`: `for value in other { if self.contains(&value) { out.insert(value) } }` -/
def imblInter (self other : List κ) : List κ :=
  other.foldl (fun out x => if self.contains x then hsInsert out x else out) []
/-- `imbl::HashSet::is_subset`: `self.iter().all(|a| o.contains(a))` -/
def imblSubset (self other : List κ) : Bool := self.all fun a => other.contains a

end Maps
end Prim

/-! ## The shape of the code that P transcribes

`translate/c11_prims.py` reads the bodies of the primitives on every run and writes what it finds as
`codePrim : PrimShape` (GenPrim.lean); `GenSound.code_prims_modelled` decides `codePrim = PrimShape.modelled`.  One field
per fact P relies on: e.g. `unionLeftRight = 4 ∧ unionSwapped = 0`: each of the four ownership branches of `hm_union`
calls `<left>.union(<right>)`; `lastIndexesFromLength`: `last` is `len.checked_sub(1).and_then(get)`;
`boundsChecksInOrder`: the ten steps of `fn bounds` occur in the order `Prim.bounds` has them. -/

structure PrimShape where
  unionBranches : Nat
  unionLeftRight : Nat
  unionSwapped : Nat
  constructInsertsPairwise : Bool
  hashRefErrsOnMissing : Bool
  tryGetFalseOnMissing : Bool
  hashInsertBothBranchesInsert : Bool
  hashRemoveBothBranchesRemove : Bool
  hashContainsIsContainsKey : Bool
  keysValuesIterate : Bool
  hashsetConstructInserts : Bool
  hashsetDifferenceSymmetric : Bool
  hashsetUnionLeftRight : Bool
  hashsetInterLeftRight : Bool
  hashsetSubsetLeftRight : Bool
  listRefNegThenGet : Bool
  listTailIsTail : Bool
  takeNegThenRebuild : Bool
  lastIndexesFromLength : Bool
  appendEmptyFirstSpecialCase : Bool
  rangeNegCheck : Bool
  restErrsOnEmpty : Bool
  reverseIsReverse : Bool
  dropIsCdrLoop : Bool
  vectorRefNegThenBound : Bool
  vectorSetGetMut : Bool
  vectorPushPushes : Bool
  vectorAppendExtends : Bool
  ivSetBoundCheckBothBranches : Bool
  ivTakeTruncateOrMin : Bool
  ivDropLoopOrSkip : Bool
  ivRestPopsFront : Bool
  ivPushPushesBack : Bool
  ivAppendExtends : Bool
  bytesNewConvertsU8 : Bool
  bytesRefGet : Bool
  bytesSetBoundCheck : Bool
  bytesPushU8 : Bool
  bytesAppendExtends : Bool
  stringRefGuardsByteLen : Bool
  boundsChecksInOrder : Bool
  substringUsesBounds : Bool
  stringToListUsesBounds : Bool
  stringLengthCountsChars : Bool
  stringAppendFolds : Bool
  deriving DecidableEq, Repr

/-- the shape `Prim.*` was transcribed from -/
def PrimShape.modelled : PrimShape :=
  { unionBranches := 4,
    unionLeftRight := 4,
    unionSwapped := 0,
    constructInsertsPairwise := true,
    hashRefErrsOnMissing := true,
    tryGetFalseOnMissing := true,
    hashInsertBothBranchesInsert := true,
    hashRemoveBothBranchesRemove := true,
    hashContainsIsContainsKey := true,
    keysValuesIterate := true,
    hashsetConstructInserts := true,
    hashsetDifferenceSymmetric := true,
    hashsetUnionLeftRight := true,
    hashsetInterLeftRight := true,
    hashsetSubsetLeftRight := true,
    listRefNegThenGet := true,
    listTailIsTail := true,
    takeNegThenRebuild := true,
    lastIndexesFromLength := true,
    appendEmptyFirstSpecialCase := true,
    rangeNegCheck := true,
    restErrsOnEmpty := true,
    reverseIsReverse := true,
    dropIsCdrLoop := true,
    vectorRefNegThenBound := true,
    vectorSetGetMut := true,
    vectorPushPushes := true,
    vectorAppendExtends := true,
    ivSetBoundCheckBothBranches := true,
    ivTakeTruncateOrMin := true,
    ivDropLoopOrSkip := true,
    ivRestPopsFront := true,
    ivPushPushesBack := true,
    ivAppendExtends := true,
    bytesNewConvertsU8 := true,
    bytesRefGet := true,
    bytesSetBoundCheck := true,
    bytesPushU8 := true,
    bytesAppendExtends := true,
    stringRefGuardsByteLen := true,
    boundsChecksInOrder := true,
    substringUsesBounds := true,
    stringToListUsesBounds := true,
    stringLengthCountsChars := true,
    stringAppendFolds := true }

/-! ## The operation language, and the two models run side by side

One state with six registers (hash map, hash set, list, mutable vector, byte vector, string), as in the
protocol of the driver; every operation acts on the register of its kind.  Keys, values and elements are
integers (element equality is the `eqSpec` half of the property); string elements are characters. -/

inductive Op
  -- hash maps
  | mNew (ks vs : List Int)            -- `(hash k v …)`; different lengths = a key without a value
  | mInsert (k v : Int) | mRemove (k : Int) | mRef (k : Int) | mTryGet (k : Int) | mContains (k : Int)
  | mLen | mKeys | mValues | mClear
  /-- `(hash-union cm (hash k v …))` (`regLeft`) or `(hash-union (hash k v …) cm)`, with the ownership of the two objects -/
  | mUnion (regLeft uniqueL uniqueR : Bool) (ks vs : List Int)
  -- hash sets
  | sNew (ks : List Int) | sInsert (k : Int) | sContains (k : Int) | sLen | sToList | sClear
  | sSubset (regLeft : Bool) (ks : List Int)
  | sUnion (regLeft : Bool) (ks : List Int) | sInter (regLeft : Bool) (ks : List Int) | sDiff (regLeft : Bool) (ks : List Int)
  -- lists
  | lNew (xs : List Int) | lLen | lRef (i : Int) | lFirst | lLast | lRest | lTake (n : Int) | lTail (n : Int)
  | lDrop (n : Int) | lAppend (before after : List (List Int)) | lReverse | lCons (x : Int) | lRange (lo hi : Int)
  -- mutable vectors
  | vNew (xs : List Int) | vLen | vRef (i : Int) | vSet (i x : Int) | vPush (x : Int) | vAppend (before after : List (List Int))
  -- immutable vectors (`unique`: the vector is uniquely owned, the primitive updates in place)
  | iNew (xs : List Int) | iLen | iRef (i : Int) | iPush (x : Int) | iSet (unique : Bool) (i x : Int)
  | iTake (unique : Bool) (n : Int) | iDrop (unique : Bool) (n : Int) | iRest | iAppend (before after : List (List Int))
  -- byte vectors
  | bNew (xs : List Int) | bLen | bRef (i : Int) | bSet (i x : Int) | bPush (x : Int) | bAppend (before after : List (List Int))
  -- strings
  | tNew (cs : List Char) | tLen | tRef (i : Int) | tSub (i : Int) (j : Option Int) | tToList (i j : Option Int)
  | tAppend (before after : List (List Char))
  deriving Repr

/-- what an operation answers -/
inductive Ans
  | err
  | int (i : Int)
  | bool (b : Bool)
  | none                         -- `hash-try-get` of a missing key (`#false`)
  | chr (c : Char)
  | seq (xs : List Int)          -- an ordered collection (the new content of the register, or a result)
  | str (cs : List Char)
  | bag (xs : List Int)          -- an UNORDERED collection (keys, values, members): equal up to permutation
  | map (es : List (Int × Int))  -- the content of the hash-map register: equal up to permutation
  deriving Repr, DecidableEq

structure St where
  cm : List (Int × Int) := []
  cs : List Int := []
  cl : List Int := []
  cv : List Int := []
  ci : List Int := []
  cb : List Int := []
  ct : List Char := []
  deriving Repr

def resInt : Res Int → Ans | .ok v => .int v | .err => .err

/-- the register keeps its value when the primitive raises -/
def updSeq (cur : List Int) (r : Res (List Int)) : List Int × Ans :=
  match r with | .ok v => (v, .seq v) | .err => (cur, .err)
def updStr (cur : List Char) (r : Res (List Char)) : List Char × Ans :=
  match r with | .ok v => (v, .str v) | .err => (cur, .err)

open Prim in
/-- **P**: one operation on the model of the primitives -/
def stepP (s : St) : Op → St × Ans
  | .mNew ks vs => match hmConstruct [] ks vs with
      | some m => ({ s with cm := m }, .map m)
      | none => (s, .err)
  | .mInsert k v => let m := hmInsert s.cm k v; ({ s with cm := m }, .map m)
  | .mRemove k => let m := hmRemove s.cm k; ({ s with cm := m }, .map m)
  | .mRef k => (s, resInt (hashRef s.cm k))
  | .mTryGet k => (s, match hmGet s.cm k with | some v => .int v | none => .none)
  | .mContains k => (s, .bool (hashContains s.cm k))
  | .mLen => (s, .int s.cm.length)
  | .mKeys => (s, .bag (s.cm.map Prod.fst))
  | .mValues => (s, .bag (s.cm.map Prod.snd))
  | .mClear => ({ s with cm := [] }, .map [])
  | .mUnion regLeft ul ur ks vs => match hmConstruct [] ks vs with
      | some o =>
          let m := if regLeft then hmUnion ul ur s.cm o else hmUnion ul ur o s.cm
          ({ s with cm := m }, .map m)
      | none => (s, .err)
  | .sNew ks => let t := hsConstruct ks; ({ s with cs := t }, .bag t)
  | .sInsert k => let t := hsInsert s.cs k; ({ s with cs := t }, .bag t)
  | .sContains k => (s, .bool (s.cs.contains k))
  | .sLen => (s, .int s.cs.length)
  | .sToList => (s, .bag s.cs)
  | .sClear => ({ s with cs := [] }, .bag [])
  | .sSubset regLeft ks =>
      (s, .bool (if regLeft then imblSubset s.cs (hsConstruct ks) else imblSubset (hsConstruct ks) s.cs))
  | .sUnion regLeft ks =>
      let t := if regLeft then imblSetUnion s.cs (hsConstruct ks) else imblSetUnion (hsConstruct ks) s.cs
      ({ s with cs := t }, .bag t)
  | .sInter regLeft ks =>
      let t := if regLeft then imblInter s.cs (hsConstruct ks) else imblInter (hsConstruct ks) s.cs
      ({ s with cs := t }, .bag t)
  | .sDiff regLeft ks =>
      let t := if regLeft then imblSymDiff s.cs (hsConstruct ks) else imblSymDiff (hsConstruct ks) s.cs
      ({ s with cs := t }, .bag t)
  | .lNew xs => ({ s with cl := xs }, .seq xs)
  | .lLen => (s, .int s.cl.length)
  | .lRef i => (s, resInt (listRef s.cl i))
  | .lFirst => (s, resInt (first s.cl))
  | .lLast => (s, resInt (last s.cl))
  | .lRest => let r := updSeq s.cl (rest s.cl); ({ s with cl := r.1 }, r.2)
  | .lTake n => let r := updSeq s.cl (take s.cl n); ({ s with cl := r.1 }, r.2)
  | .lTail n => let r := updSeq s.cl (listTail s.cl n); ({ s with cl := r.1 }, r.2)
  | .lDrop n => let r := updSeq s.cl (drop s.cl n); ({ s with cl := r.1 }, r.2)
  | .lAppend before after => let c := append (before ++ [s.cl] ++ after); ({ s with cl := c }, .seq c)
  | .lReverse => let c := s.cl.reverse; ({ s with cl := c }, .seq c)
  | .lCons x => let c := x :: s.cl; ({ s with cl := c }, .seq c)
  | .lRange lo hi => let r := updSeq s.cl (range lo hi); ({ s with cl := r.1 }, r.2)
  | .vNew xs => ({ s with cv := xs }, .seq xs)
  | .vLen => (s, .int s.cv.length)
  | .vRef i => (s, resInt (vectorRef s.cv i))
  | .vSet i x => let r := updSeq s.cv (vectorSet s.cv i x); ({ s with cv := r.1 }, r.2)
  | .vPush x => let c := vectorPush s.cv x; ({ s with cv := c }, .seq c)
  | .vAppend before after => let c := vectorAppend (before ++ [s.cv] ++ after); ({ s with cv := c }, .seq c)
  | .iNew xs => ({ s with ci := xs }, .seq xs)
  | .iLen => (s, .int s.ci.length)
  | .iRef i => (s, resInt (ivRef s.ci i))
  | .iPush x => let c := s.ci ++ [x]; ({ s with ci := c }, .seq c)
  | .iSet u i x => let r := updSeq s.ci (ivSet u s.ci i x); ({ s with ci := r.1 }, r.2)
  | .iTake u n => let r := updSeq s.ci (ivTake u s.ci n); ({ s with ci := r.1 }, r.2)
  | .iDrop u n => let r := updSeq s.ci (ivDrop u s.ci n); ({ s with ci := r.1 }, r.2)
  | .iRest => let c := ivRest s.ci; ({ s with ci := c }, .seq c)
  | .iAppend before after => let c := ivAppend (before ++ [s.ci] ++ after); ({ s with ci := c }, .seq c)
  | .bNew xs => let r := updSeq s.cb (bytesNew xs); ({ s with cb := r.1 }, r.2)
  | .bLen => (s, .int s.cb.length)
  | .bRef i => (s, resInt (bytesRef s.cb i))
  | .bSet i x => let r := updSeq s.cb (bytesSet s.cb i x); ({ s with cb := r.1 }, r.2)
  | .bPush x => let r := updSeq s.cb (bytesPush s.cb x); ({ s with cb := r.1 }, r.2)
  | .bAppend before after => let c := bytesAppend (before ++ [s.cb] ++ after); ({ s with cb := c }, .seq c)
  | .tNew cs => ({ s with ct := cs }, .str cs)
  | .tLen => (s, .int (stringLength s.ct))
  | .tRef i => (s, match stringRef s.ct i with | .ok c => .chr c | .err => .err)
  | .tSub i j => let r := updStr s.ct (substring s.ct i j); ({ s with ct := r.1 }, r.2)
  | .tToList i j => (s, match stringToList s.ct i j with | .ok cs => .str cs | .err => .err)
  | .tAppend before after => let c := stringAppend (before ++ [s.ct] ++ after); ({ s with ct := c }, .str c)

/-- `(hash k v …)` on the mathematical side: defined when every key has a value -/
def mkPairs {κ ν : Type} : List κ → List ν → Option (List (κ × ν))
  | [], [] => some []
  | k :: ks, v :: vs => (mkPairs ks vs).map ((k, v) :: ·)
  | _, _ => none

/-- `(substring s i [j])` on characters -/
def strRange (s : List Char) (i j : Option Int) : Res (List Char) :=
  match j with
  | some j => Coll.strSub s (i.getD 0) j
  | none => Coll.strFrom s (i.getD 0)

open Coll in
/-- **S**: the same operation on the finite map / finite set / sequence -/
def stepS (s : St) : Op → St × Ans
  | .mNew ks vs => match mkPairs ks vs with
      | some kvs => let m := mOfList kvs; ({ s with cm := m }, .map m)
      | none => (s, .err)
  | .mInsert k v => let m := mInsert s.cm k v; ({ s with cm := m }, .map m)
  | .mRemove k => let m := mRemove s.cm k; ({ s with cm := m }, .map m)
  | .mRef k => (s, resInt (mRef s.cm k))
  | .mTryGet k => (s, match mTryGet s.cm k with | some v => .int v | none => .none)
  | .mContains k => (s, .bool (mContains s.cm k))
  | .mLen => (s, .int (mLength s.cm))
  | .mKeys => (s, .bag (mKeys s.cm))
  | .mValues => (s, .bag (mValues s.cm))
  | .mClear => ({ s with cm := [] }, .map [])
  | .mUnion regLeft _ _ ks vs => match mkPairs ks vs with
      | some kvs =>
          let m := if regLeft then mUnion s.cm (mOfList kvs) else mUnion (mOfList kvs) s.cm
          ({ s with cm := m }, .map m)
      | none => (s, .err)
  | .sNew ks => let t := sOfList ks; ({ s with cs := t }, .bag t)
  | .sInsert k => let t := sInsert s.cs k; ({ s with cs := t }, .bag t)
  | .sContains k => (s, .bool (sContains s.cs k))
  | .sLen => (s, .int (sLength s.cs))
  | .sToList => (s, .bag s.cs)
  | .sClear => ({ s with cs := [] }, .bag [])
  | .sSubset regLeft ks => (s, .bool (if regLeft then sSubset s.cs (sOfList ks) else sSubset (sOfList ks) s.cs))
  | .sUnion regLeft ks =>
      let t := if regLeft then sUnion s.cs (sOfList ks) else sUnion (sOfList ks) s.cs
      ({ s with cs := t }, .bag t)
  | .sInter regLeft ks =>
      let t := if regLeft then sInter s.cs (sOfList ks) else sInter (sOfList ks) s.cs
      ({ s with cs := t }, .bag t)
  | .sDiff regLeft ks =>
      let t := if regLeft then sSymDiff s.cs (sOfList ks) else sSymDiff (sOfList ks) s.cs
      ({ s with cs := t }, .bag t)
  | .lNew xs => ({ s with cl := xs }, .seq xs)
  | .lLen => (s, .int s.cl.length)
  | .lRef i => (s, resInt (lRef s.cl i))
  | .lFirst => (s, resInt (lFirst s.cl))
  | .lLast => (s, resInt (lLast s.cl))
  | .lRest => let r := updSeq s.cl (lRest s.cl); ({ s with cl := r.1 }, r.2)
  | .lTake n => let r := updSeq s.cl (lTake s.cl n); ({ s with cl := r.1 }, r.2)
  | .lTail n => let r := updSeq s.cl (lTail s.cl n); ({ s with cl := r.1 }, r.2)
  | .lDrop n => let r := updSeq s.cl (lDrop s.cl n); ({ s with cl := r.1 }, r.2)
  | .lAppend before after => let c := (before ++ [s.cl] ++ after).flatten; ({ s with cl := c }, .seq c)
  | .lReverse => let c := s.cl.reverse; ({ s with cl := c }, .seq c)
  | .lCons x => let c := x :: s.cl; ({ s with cl := c }, .seq c)
  | .lRange lo hi => let r := updSeq s.cl (lRange lo hi); ({ s with cl := r.1 }, r.2)
  | .vNew xs => ({ s with cv := xs }, .seq xs)
  | .vLen => (s, .int s.cv.length)
  | .vRef i => (s, resInt (vRef s.cv i))
  | .vSet i x => let r := updSeq s.cv (vSet s.cv i x); ({ s with cv := r.1 }, r.2)
  | .vPush x => let c := vPush s.cv x; ({ s with cv := c }, .seq c)
  | .vAppend before after => let c := (before ++ [s.cv] ++ after).flatten; ({ s with cv := c }, .seq c)
  | .iNew xs => ({ s with ci := xs }, .seq xs)
  | .iLen => (s, .int s.ci.length)
  | .iRef i => (s, resInt (vRef s.ci i))
  | .iPush x => let c := vPush s.ci x; ({ s with ci := c }, .seq c)
  | .iSet _ i x => let r := updSeq s.ci (vSet s.ci i x); ({ s with ci := r.1 }, r.2)
  | .iTake _ n => let r := updSeq s.ci (iTake s.ci n); ({ s with ci := r.1 }, r.2)
  | .iDrop _ n => let r := updSeq s.ci (iDrop s.ci n); ({ s with ci := r.1 }, r.2)
  | .iRest => let c := s.ci.drop 1; ({ s with ci := c }, .seq c)
  | .iAppend before after => let c := (before ++ [s.ci] ++ after).flatten; ({ s with ci := c }, .seq c)
  | .bNew xs => let r := updSeq s.cb (bMake xs); ({ s with cb := r.1 }, r.2)
  | .bLen => (s, .int s.cb.length)
  | .bRef i => (s, resInt (vRef s.cb i))
  | .bSet i x => let r := updSeq s.cb (bSet s.cb i x); ({ s with cb := r.1 }, r.2)
  | .bPush x => let r := updSeq s.cb (if isByte x then .ok (vPush s.cb x) else .err); ({ s with cb := r.1 }, r.2)
  | .bAppend before after => let c := (before ++ [s.cb] ++ after).flatten; ({ s with cb := c }, .seq c)
  | .tNew cs => ({ s with ct := cs }, .str cs)
  | .tLen => (s, .int s.ct.length)
  | .tRef i => (s, match strRef s.ct i with | .ok c => .chr c | .err => .err)
  | .tSub i j => let r := updStr s.ct (strRange s.ct (some i) j); ({ s with ct := r.1 }, r.2)
  | .tToList i j => (s, match strRange s.ct i j with | .ok cs => .str cs | .err => .err)
  | .tAppend before after => let c := (before ++ [s.ct] ++ after).flatten; ({ s with ct := c }, .str c)

/-- run an operation sequence from the empty registers: the answers, in order -/
def runWith (step : St → Op → St × Ans) : St → List Op → List Ans
  | _, [] => []
  | s, op :: ops => let (s', o) := step s op; o :: runWith step s' ops

def runP (ops : List Op) : List Ans := runWith stepP {} ops
def runS (ops : List Op) : List Ans := runWith stepS {} ops

end SteelVerif.C11
