/-
C11 helper lemmas, part 1: well-formed graphs, `all2`, independence of the fuel (`rel`, `size`),
the unfolding equations, reflexivity of the specification, hash/equality coherence.
-/
import SteelVerif.C11.Model
namespace SteelVerif.C11

/-! ## well-formed graphs -/

theorem node_of_ge (g : Graph) {i : Nat} (h : g.length ≤ i) : g.node i = .leaf .void := by
  unfold Graph.node
  rw [List.getD_eq_getElem?_getD, List.getElem?_eq_none h]
  rfl

theorem node_mem (g : Graph) {i : Nat} (h : i < g.length) : g.node i ∈ g := by
  unfold Graph.node
  rw [List.getD_eq_getElem?_getD, List.getElem?_eq_getElem h]
  exact List.getElem_mem h

theorem children_lt {g : Graph} (hwf : WF g) {i j : Nat} (hj : j ∈ children (g.node i)) : j < i := by
  by_cases hi : i < g.length
  · have h := hwf
    unfold WF wfB at h
    rw [List.all_eq_true] at h
    have h1 := h i (List.mem_range.mpr hi)
    rw [List.all_eq_true] at h1
    exact of_decide_eq_true (h1 j hj)
  · rw [node_of_ge g (Nat.le_of_not_lt hi)] at hj
    simp [children] at hj

/-! ## `all2` -/

theorem all2_congr {r r' : Nat → Nat → Bool} :
    ∀ (xs ys : List Nat), (∀ x ∈ xs, ∀ y, r x y = r' x y) → all2 r xs ys = all2 r' xs ys
  | [], [], _ => rfl
  | [], _ :: _, _ => rfl
  | _ :: _, [], _ => rfl
  | x :: xs, y :: ys, h => by
      simp only [all2]
      rw [h x (List.mem_cons_self ..) y, all2_congr xs ys (fun z hz => h z (List.mem_cons_of_mem _ hz))]

theorem all2_length {r : Nat → Nat → Bool} :
    ∀ (xs ys : List Nat), all2 r xs ys = true → xs.length = ys.length
  | [], [], _ => rfl
  | [], _ :: _, h => by simp [all2] at h
  | _ :: _, [], h => by simp [all2] at h
  | x :: xs, y :: ys, h => by
      simp only [all2, Bool.and_eq_true] at h
      simp [all2_length xs ys h.2]

theorem all2_of_length_ne {r : Nat → Nat → Bool} {xs ys : List Nat} (h : xs.length ≠ ys.length) :
    all2 r xs ys = false := by
  cases hh : all2 r xs ys
  · rfl
  · exact absurd (all2_length xs ys hh) h

theorem all2_mono {r r' : Nat → Nat → Bool} (h : ∀ x y, r x y = true → r' x y = true) :
    ∀ (xs ys : List Nat), all2 r xs ys = true → all2 r' xs ys = true
  | [], [], _ => rfl
  | [], _ :: _, hh => by simp [all2] at hh
  | _ :: _, [], hh => by simp [all2] at hh
  | x :: xs, y :: ys, hh => by
      simp only [all2, Bool.and_eq_true] at hh ⊢
      exact ⟨h x y hh.1, all2_mono h xs ys hh.2⟩

theorem all2_refl {r : Nat → Nat → Bool} : ∀ (xs : List Nat), (∀ x ∈ xs, r x x = true) → all2 r xs xs = true
  | [], _ => rfl
  | x :: xs, h => by
      simp only [all2, Bool.and_eq_true]
      exact ⟨h x (List.mem_cons_self ..), all2_refl xs (fun z hz => h z (List.mem_cons_of_mem _ hz))⟩

theorem all2_eq_all_zip {r : Nat → Nat → Bool} :
    ∀ (xs ys : List Nat), xs.length = ys.length → all2 r xs ys = (xs.zip ys).all (fun p => r p.1 p.2)
  | [], [], _ => rfl
  | [], _ :: _, h => by simp at h
  | _ :: _, [], h => by simp at h
  | x :: xs, y :: ys, h => by
      simp only [all2, List.zip_cons_cons, List.all_cons]
      rw [all2_eq_all_zip xs ys (by simpa using h)]

/-! ## independence of the fuel -/

theorem all_congr_mem {α : Type} {p q : α → Bool} : ∀ (l : List α), (∀ x ∈ l, p x = q x) → l.all p = l.all q
  | [], _ => rfl
  | x :: xs, h => by
      simp only [List.all_cons]
      rw [h x (List.mem_cons_self ..), all_congr_mem xs (fun z hz => h z (List.mem_cons_of_mem _ hz))]

theorem any_congr_mem {α : Type} {p q : α → Bool} : ∀ (l : List α), (∀ x ∈ l, p x = q x) → l.any p = l.any q
  | [], _ => rfl
  | x :: xs, h => by
      simp only [List.any_cons]
      rw [h x (List.mem_cons_self ..), any_congr_mem xs (fun z hz => h z (List.mem_cons_of_mem _ hz))]

theorem mapRel_congr {m : MapMode} {r r' : Nat → Nat → Bool} (es fs : List (Nat × Nat))
    (h : ∀ x ∈ es.map Prod.fst ++ es.map Prod.snd, ∀ y, r x y = r' x y) :
    mapRel m r es fs = mapRel m r' es fs := by
  have hk : ∀ e ∈ es, ∀ y, r e.1 y = r' e.1 y := fun e he y =>
    h e.1 (List.mem_append_left _ (List.mem_map_of_mem he)) y
  have hv : ∀ e ∈ es, ∀ y, r e.2 y = r' e.2 y := fun e he y =>
    h e.2 (List.mem_append_right _ (List.mem_map_of_mem he)) y
  cases m
  · simp only [mapRel]
    congr 1
    apply all_congr_mem
    intro e he
    have : (fun e' : Nat × Nat => r e.1 e'.1) = (fun e' => r' e.1 e'.1) := by
      funext e'; exact hk e he e'.1
    rw [this]
    cases fs.find? (fun e' => r' e.1 e'.1) with
    | none => rfl
    | some e' => exact hv e he e'.2
  · simp only [mapRel]
    congr 1
    apply all_congr_mem
    intro e he
    apply any_congr_mem
    intro e' _
    rw [hk e he, hv e he]
  · simp only [mapRel]
    rw [all2_congr _ _ (fun x hx y => h x (List.mem_append_left _ hx) y),
        all2_congr _ _ (fun x hx y => h x (List.mem_append_right _ hx) y)]

theorem setRel_congr {m : MapMode} {r r' : Nat → Nat → Bool} (xs ys : List Nat)
    (h : ∀ x ∈ xs, ∀ y, r x y = r' x y) : setRel m r xs ys = setRel m r' xs ys := by
  have key : (xs.length == ys.length && xs.all fun x => ys.any (r x)) =
      (xs.length == ys.length && xs.all fun x => ys.any (r' x)) := by
    congr 1
    apply all_congr_mem
    intro x hx
    apply any_congr_mem
    intro y _
    exact h x hx y
  cases m
  · simpa only [setRel] using key
  · simpa only [setRel] using key
  · simp only [setRel]
    exact all2_congr _ _ h

theorem relBody_congr (rc : RelCfg) {r r' : Nat → Nat → Bool} (n m : Node)
    (h : ∀ x ∈ children n, ∀ y, r x y = r' x y) : relBody rc r n m = relBody rc r' n m := by
  cases n <;> cases m <;> simp only [relBody, children] at h ⊢
  case list.list xs _ ys _ => exact all2_congr _ _ h
  case pair.pair a b c d => rw [h a (by simp), h b (by simp)]
  case vec.vec xs ys => exact all2_congr _ _ h
  case mvec.mvec xs ys => exact all2_congr _ _ h
  case vec.mvec xs ys => rw [all2_congr _ _ h]
  case mvec.vec xs ys => rw [all2_congr _ _ h]
  case struct.struct t xs u ys => rw [all2_congr _ _ h]
  case box.box a b => exact h a (by simp) b
  case map.map es fs => exact mapRel_congr es fs h
  case set.set xs ys => exact setRel_congr xs ys h

theorem relF_stable (rc : RelCfg) {g : Graph} (hwf : WF g) :
    ∀ (a : Nat) (f f' : Nat), a < f → a < f' → ∀ b, relF rc g f a b = relF rc g f' a b := by
  intro a
  induction a using Nat.strongRecOn with
  | _ a ih =>
    intro f f' hf hf' b
    cases f with
    | zero => omega
    | succ f1 =>
      cases f' with
      | zero => omega
      | succ f2 =>
        simp only [relF]
        apply relBody_congr
        intro x hx y
        have hxa := children_lt hwf hx
        exact ih x hxa f1 f2 (by omega) (by omega) y

theorem rel_unfold (rc : RelCfg) {g : Graph} (hwf : WF g) {a : Nat} (ha : a < g.length) (b : Nat) :
    rel rc g a b = relBody rc (rel rc g) (g.node a) (g.node b) := by
  unfold rel
  obtain ⟨k, hk⟩ : ∃ k, g.length = k + 1 := ⟨g.length - 1, by omega⟩
  rw [hk]
  simp only [relF]
  apply relBody_congr
  intro x hx y
  have hxa := children_lt hwf hx
  exact relF_stable rc hwf x k (k + 1) (by omega) (by omega) y

theorem sum_map_congr {f f' : Nat → Nat} : ∀ (xs : List Nat), (∀ x ∈ xs, f x = f' x) →
    (xs.map f).sum = (xs.map f').sum
  | [], _ => rfl
  | x :: xs, h => by
      simp only [List.map_cons, List.sum_cons]
      rw [h x (List.mem_cons_self ..), sum_map_congr xs (fun z hz => h z (List.mem_cons_of_mem _ hz))]

theorem sizeF_stable {g : Graph} (hwf : WF g) :
    ∀ (a : Nat) (f f' : Nat), a < f → a < f' → sizeF g f a = sizeF g f' a := by
  intro a
  induction a using Nat.strongRecOn with
  | _ a ih =>
    intro f f' hf hf'
    cases f with
    | zero => omega
    | succ f1 =>
      cases f' with
      | zero => omega
      | succ f2 =>
        simp only [sizeF]
        congr 1
        apply sum_map_congr
        intro x hx
        have hxa := children_lt hwf hx
        exact ih x hxa f1 f2 (by omega) (by omega)

theorem size_unfold {g : Graph} (hwf : WF g) {a : Nat} (ha : a < g.length) :
    size g a = 1 + ((children (g.node a)).map (size g)).sum := by
  unfold size
  obtain ⟨k, hk⟩ : ∃ k, g.length = k + 1 := ⟨g.length - 1, by omega⟩
  rw [hk]
  simp only [sizeF]
  congr 1
  apply sum_map_congr
  intro x hx
  have hxa := children_lt hwf hx
  exact sizeF_stable hwf x k (k + 1) (by omega) (by omega)

theorem size_pos (g : Graph) (a : Nat) : 1 ≤ size g a := by
  unfold size
  cases g.length <;> simp [sizeF]

end SteelVerif.C11
