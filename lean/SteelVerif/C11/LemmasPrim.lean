/-
C11 helper lemmas, part 6: every function of the model P of the Rust primitives (`Prim.*`) computes what the
mathematical model S (`Coll.*`) computes — sequences (lists, vectors, byte vectors).
-/
import SteelVerif.C11.Prim
import SteelVerif.C11.LemmasColl
namespace SteelVerif.C11
open Coll

variable {α : Type}

/-! ## lists -/

theorem listRef_eq (l : List α) (i : Int) : Prim.listRef l i = lRef l i := rfl

theorem listTail_eq (l : List α) (n : Int) : Prim.listTail l n = lTail l n := by
  unfold Prim.listTail Prim.asUsize lTail
  by_cases h : n < 0
  · simp [h]
  · simp only [h, if_false]
    by_cases h2 : n.toNat ≤ l.length
    · simp [h2, Nat.not_lt.mpr h2]
    · simp [h2, Nat.lt_of_not_le h2]

theorem take_eq (l : List α) (n : Int) : Prim.take l n = lTake l n := rfl

theorem last_eq (l : List α) : Prim.last l = lLast l := by
  unfold Prim.last lLast
  rw [List.getLast?_eq_getElem?]
  cases h : l.length with
  | zero =>
    have : l = [] := List.eq_nil_of_length_eq_zero h
    subst this
    rfl
  | succ n => cases l[n]? <;> rfl

theorem first_eq (l : List α) : Prim.first l = lFirst l := by cases l <;> rfl

theorem rest_eq (l : List α) : Prim.rest l = lRest l := by cases l <;> rfl

theorem dropLoop_eq : ∀ (k : Nat) (l : List α),
    Prim.dropLoop l k = if k > l.length then .err else .ok (l.drop k)
  | 0, l => by simp [Prim.dropLoop]
  | k + 1, [] => by simp [Prim.dropLoop, Prim.rest]
  | k + 1, x :: t => by
      simp only [Prim.dropLoop, Prim.rest, List.isEmpty_cons, List.tail_cons, List.length_cons, List.drop_succ_cons,
        Bool.false_eq_true, if_false]
      rw [dropLoop_eq k t]
      by_cases h : k > t.length
      · simp [h]
      · simp [h]

theorem drop_eq (l : List α) (n : Int) : Prim.drop l n = lDrop l n := by
  unfold Prim.drop lDrop
  by_cases h : n < 0
  · simp [h]
  · simp only [h, if_false]
    exact dropLoop_eq _ _

theorem foldl_append_eq (more : List (List α)) :
    ∀ acc : List α, more.foldl (fun initial r => if initial.isEmpty then r else initial ++ r) acc = acc ++ more.flatten := by
  induction more with
  | nil => intro acc; simp
  | cons r rs ih =>
    intro acc
    simp only [List.foldl_cons, List.flatten_cons]
    rw [ih]
    cases acc with
    | nil => simp
    | cons a as => simp

/-- n-ary `append`: the special case for an empty first list does not change the result -/
theorem append_eq (xss : List (List α)) : Prim.append xss = xss.flatten := by
  cases xss with
  | nil => rfl
  | cons first more =>
    unfold Prim.append
    rw [List.flatten_cons]
    exact foldl_append_eq more first

theorem rangeFrom_eq : ∀ (n : Nat) (lo : Int),
    Prim.rangeFrom lo n = (List.range n).map fun (i : Nat) => lo + (i : Int)
  | 0, _ => rfl
  | n + 1, lo => by
      rw [List.range_succ_eq_map]
      simp only [Prim.rangeFrom, List.map_cons, List.map_map]
      rw [rangeFrom_eq n (lo + 1)]
      congr 1
      · simp
      · apply List.map_congr_left
        intro i _
        simp only [Function.comp]
        omega

theorem range_eq (lo hi : Int) : Prim.range lo hi = lRange lo hi := by
  unfold Prim.range lRange
  by_cases h : lo < 0 ∨ hi < 0
  · have : (decide (lo < 0) || decide (hi < 0)) = true := by simpa using h
    simp [h, this]
  · have : (decide (lo < 0) || decide (hi < 0)) = false := by
      rw [Bool.eq_false_iff]; simpa using h
    simp only [this, h, if_false]
    rw [rangeFrom_eq]
    simp

/-! ## vectors -/

theorem vectorRef_eq (v : List α) (i : Int) : Prim.vectorRef v i = vRef v i := by
  unfold Prim.vectorRef vRef lRef
  by_cases h : i < 0
  · simp [h]
  · simp only [h, if_false]
    by_cases h2 : i.toNat ≥ v.length
    · simp [h2, List.getElem?_eq_none h2]
    · simp only [h2, if_false]
      cases v[i.toNat]? <;> rfl

theorem vectorSet_eq (v : List α) (i : Int) (x : α) : Prim.vectorSet v i x = vSet v i x := by
  unfold Prim.vectorSet Prim.asUsize vSet
  by_cases h : i < 0
  · simp [h]
  · simp only [h, if_false]
    by_cases h2 : i.toNat < v.length
    · simp only [h2, if_true, List.getElem?_eq_getElem h2]
    · simp only [h2, if_false, List.getElem?_eq_none (Nat.le_of_not_lt h2)]

theorem foldl_extend_eq (args : List (List α)) :
    ∀ acc : List α, args.foldl (fun acc a => acc ++ a) acc = acc ++ args.flatten := by
  induction args with
  | nil => intro acc; simp
  | cons r rs ih => intro acc; simp [ih]

theorem vectorAppend_eq (args : List (List α)) : Prim.vectorAppend args = args.flatten := by
  simp [Prim.vectorAppend, foldl_extend_eq]

/-! ## immutable vectors: the in-place branch and the copying branch agree with each other and with S -/

theorem ivRef_eq (v : List α) (i : Int) : Prim.ivRef v i = vRef v i := by
  unfold Prim.ivRef vRef lRef
  by_cases h : i < 0
  · simp [h]
  · simp only [h, if_false]
    by_cases h2 : i.toNat < v.length
    · simp only [h2, if_true]
      cases v[i.toNat]? <;> rfl
    · simp [h2, List.getElem?_eq_none (Nat.le_of_not_lt h2)]

theorem ivSet_eq (u : Bool) (v : List α) (i : Int) (x : α) : Prim.ivSet u v i x = vSet v i x := by
  unfold Prim.ivSet Prim.asUsize vSet
  by_cases h : i < 0
  · simp [h]
  · simp only [h, if_false]
    by_cases h2 : i.toNat < v.length
    · cases u <;> simp [h2, Nat.not_le.mpr h2]
    · cases u <;> simp [h2, Nat.le_of_not_lt h2]

theorem ivTake_eq (u : Bool) (v : List α) (n : Int) : Prim.ivTake u v n = iTake v n := by
  unfold Prim.ivTake Prim.asUsize iTake
  by_cases h : n < 0
  · simp [h]
  · simp only [h, if_false]
    cases u
    · simp only [Bool.false_eq_true, if_false]
      congr 1
      by_cases hl : n.toNat ≤ v.length
      · rw [Nat.min_eq_left hl]
      · rw [Nat.min_eq_right (Nat.le_of_not_le hl), List.take_of_length_le (Nat.le_refl _),
          List.take_of_length_le (Nat.le_of_not_le hl)]
    · simp

theorem popFrontLoop_eq : ∀ (n : Nat) (v : List α), Prim.popFrontLoop v n = v.drop n
  | 0, v => by simp [Prim.popFrontLoop]
  | n + 1, [] => by simp [Prim.popFrontLoop, popFrontLoop_eq n]
  | n + 1, x :: t => by simp [Prim.popFrontLoop, popFrontLoop_eq n]

theorem ivDrop_eq (u : Bool) (v : List α) (n : Int) : Prim.ivDrop u v n = iDrop v n := by
  unfold Prim.ivDrop Prim.asUsize iDrop
  by_cases h : n < 0
  · simp [h]
  · cases u <;> simp [h, popFrontLoop_eq]

theorem ivRest_eq (v : List α) : Prim.ivRest v = v.drop 1 := by
  cases v <;> simp [Prim.ivRest]

theorem ivAppend_eq (args : List (List α)) : Prim.ivAppend args = args.flatten := by
  simp [Prim.ivAppend, foldl_extend_eq]

/-! ## byte vectors -/

theorem asU8_eq (x : Int) : Prim.asU8 x = if isByte x then some x else none := rfl

theorem bytesNew_eq : ∀ xs : List Int, Prim.bytesNew xs = bMake xs
  | [] => rfl
  | x :: xs => by
      simp only [Prim.bytesNew, asU8_eq, bytesNew_eq xs, bMake, List.all_cons]
      by_cases hx : isByte x = true
      · simp only [hx, if_true, Bool.true_and]
        by_cases hxs : xs.all isByte = true <;> simp [hxs]
      · simp [hx]

theorem bytesRef_eq (v : List Int) (i : Int) : Prim.bytesRef v i = vRef v i := by
  unfold Prim.bytesRef Prim.asUsize vRef lRef
  by_cases h : i < 0
  · simp [h]
  · simp only [h, if_false]
    cases v[i.toNat]? <;> rfl

theorem bytesSet_eq (v : List Int) (i x : Int) : Prim.bytesSet v i x = bSet v i x := by
  unfold Prim.bytesSet Prim.asUsize bSet vSet
  rw [asU8_eq]
  by_cases hx : isByte x = true
  · by_cases h : i < 0
    · simp [h, hx]
    · simp only [h, hx, if_false, if_true]
      by_cases h2 : i.toNat < v.length
      · simp [h2, Nat.not_le.mpr h2]
      · simp [h2, Nat.le_of_not_lt h2]
  · by_cases h : i < 0 <;> simp [h, hx]

theorem bytesPush_eq (v : List Int) (x : Int) :
    Prim.bytesPush v x = if isByte x then .ok (vPush v x) else .err := by
  unfold Prim.bytesPush
  rw [asU8_eq]
  by_cases hx : isByte x = true <;> simp [hx, vPush]

theorem bytesAppend_eq (args : List (List Int)) : Prim.bytesAppend args = args.flatten := by
  simp [Prim.bytesAppend, foldl_extend_eq]

end SteelVerif.C11
