/-
The tie between the theorems and the code: `codeCfg` is regenerated from /repo on every run
(`translate/c11_cfg.py`); this file checks that it is the configuration the theorems are about.
If the code regresses (visited keyed by single identities again, a missing arm, an order-dependent
hash …) `code_cfg_sound` stops checking.
-/
import SteelVerif.C11.Props
import SteelVerif.C11.GenCfg
import SteelVerif.C11.GenPrim
namespace SteelVerif.C11

/-- The configuration extracted from /repo is the one for which the property is proved. -/
theorem code_cfg_sound : codeCfg.sound = true := by decide

/-- `equal?` as the code currently implements it is structural. -/
theorem eq_structural_code : EqStructural codeCfg := eq_structural codeCfg code_cfg_sound

/-- The collection primitives of /repo still have the shape the model P (`Prim.lean`) transcribes: operand order of the
    four `hm_union` branches, `symmetric_difference` for `hashset-difference`, the order of the checks of `bounds`, … -/
theorem code_prims_modelled : codePrim = PrimShape.modelled := by decide

theorem hash_respects_eq_code : HashRespectsEq codeCfg := hash_respects_eq codeCfg code_cfg_sound

end SteelVerif.C11
