import SteelVerif.C11.Props
import SteelVerif.C11.GenCfg
namespace SteelVerif.C11

/-- The configuration extracted from /repo is the one for which the property is proved. -/
theorem code_cfg_sound : codeCfg.sound = true := by decide

end SteelVerif.C11
