/-
C11 helper lemmas, part 3: one arm of the worklist (`arm_spec`), the invariant of the loop
(`Closed`, `closed_all`) and the loop itself (`loop_correct`) — for the fixed configuration.
-/
import SteelVerif.C11.LemmasSpec
namespace SteelVerif.C11

/-! ## sums of sizes -/

theorem sum_map_le_of_sublist_append {f : Nat → Nat} (xs ys : List Nat) :
    (ys.map f).sum ≤ ((xs ++ ys).map f).sum := by
  simp [List.map_append, List.sum_append]

/-! ## `lookupAll` against the finite-map specification -/

theorem lookupAll_congr {k k' : Nat → Nat → Bool} (fs : List (Nat × Nat)) :
    ∀ (es : List (Nat × Nat)), (∀ e ∈ es, ∀ y, k e.1 y = k' e.1 y) → lookupAll k fs es = lookupAll k' fs es
  | [], _ => rfl
  | e :: es, h => by
      simp only [lookupAll]
      have : (fun e' : Nat × Nat => k e.1 e'.1) = (fun e' => k' e.1 e'.1) := by
        funext e'; exact h e (List.mem_cons_self ..) e'.1
      rw [this, lookupAll_congr fs es (fun z hz => h z (List.mem_cons_of_mem _ hz))]

/-- the per-entry test of `mapRel .lookup` -/
def entryOk (r : Nat → Nat → Bool) (fs : List (Nat × Nat)) (e : Nat × Nat) : Bool :=
  match fs.find? (fun e' => r e.1 e'.1) with
  | some e' => r e.2 e'.2
  | none => false

theorem lookupAll_none {r : Nat → Nat → Bool} (fs : List (Nat × Nat)) :
    ∀ (es : List (Nat × Nat)), lookupAll r fs es = none → es.all (entryOk r fs) = false
  | [], h => by simp [lookupAll] at h
  | e :: es, h => by
      simp only [lookupAll] at h
      simp only [List.all_cons, entryOk]
      cases hf : fs.find? (fun e' => r e.1 e'.1) with
      | none => simp
      | some e' =>
        rw [hf] at h
        cases hr : lookupAll r fs es with
        | none =>
          have := lookupAll_none fs es hr
          simp [this]
        | some p =>
          rw [hr] at h
          simp at h

theorem lookupAll_some {r : Nat → Nat → Bool} (fs : List (Nat × Nat)) :
    ∀ (es : List (Nat × Nat)) (pl pr : List Nat), lookupAll r fs es = some (pl, pr) →
      pl = es.map Prod.snd ∧ pl.length = pr.length ∧ all2 r pl pr = es.all (entryOk r fs)
  | [], pl, pr, h => by
      simp only [lookupAll, Option.some.injEq, Prod.mk.injEq] at h
      obtain ⟨h1, h2⟩ := h
      subst h1; subst h2
      simp [all2]
  | e :: es, pl, pr, h => by
      simp only [lookupAll] at h
      cases hf : fs.find? (fun e' => r e.1 e'.1) with
      | none => rw [hf] at h; simp at h
      | some e' =>
        rw [hf] at h
        cases hr : lookupAll r fs es with
        | none => rw [hr] at h; simp at h
        | some p =>
          obtain ⟨pl', pr'⟩ := p
          rw [hr] at h
          simp only [Option.some.injEq, Prod.mk.injEq] at h
          obtain ⟨h1, h2⟩ := h
          subst h1; subst h2
          obtain ⟨i1, i2, i3⟩ := lookupAll_some fs es pl' pr' hr
          refine ⟨by simp [i1], by simp [i2], ?_⟩
          simp only [all2, List.all_cons, entryOk, hf]
          rw [i3]

/-! ## what one arm delivers -/

inductive ArmOK (g : Graph) (l r : Nat) (vis : List Key) : Out → Prop
  | ret : eqSpec g l r = false → ArmOK g l r vis (.ret false)
  | expand (pl pr : List Nat) (vis' : List Key) :
      pl.length = pr.length → (∀ x ∈ pl, x < l) → (pl.map (size g)).sum + 1 ≤ size g l →
      eqSpec g l r = all2 (eqSpec g) pl pr → (∀ k ∈ vis', k = Key.two l r ∨ k ∈ vis) →
      ArmOK g l r vis (.cont pl pr vis')
  | skip : Key.two l r ∈ vis → ArmOK g l r vis (.cont [] [] vis)

theorem ArmOK.done {g : Graph} {l r : Nat} {vis vis' : List Key} (h : eqSpec g l r = true)
    (hv : ∀ k ∈ vis', k = Key.two l r ∨ k ∈ vis) : ArmOK g l r vis (.cont [] [] vis') :=
  ArmOK.expand [] [] vis' rfl (by simp) (by simpa using size_pos g l) (by simpa [all2] using h) hv

/-- the visited-set protocol of the fixed configuration around the body `X` of an arm -/
theorem armOK_visit {g : Graph} {l r : Nat} {vis : List Key} {X : List Key → Out}
    (hX : ∀ vis', (∀ k ∈ vis', k = Key.two l r ∨ k ∈ vis) → ArmOK g l r vis (X vis')) :
    ArmOK g l r vis
      (match visit Cfg.fixed vis l r with
       | (true, vis') => X vis'
       | (false, vis') => Out.cont [] [] vis') := by
  unfold visit
  simp only [Cfg.fixed, if_true]
  by_cases hv : vis.contains (Key.two l r) = true
  · simp only [hv, if_true]
    exact ArmOK.skip (by simpa using hv)
  · simp only [hv]
    apply hX
    intro k hk
    simp only [List.mem_cons] at hk
    exact hk

theorem lkey_fixed (g : Graph) (i : Nat) : lkey Cfg.fixed g i = i := by
  simp [lkey, Cfg.fixed]

/-- under the fixed configuration the short cut fires only for identical signatures -/
theorem sigSame_fixed {s t : Option ListSig} (h : sigSame Cfg.fixed s t = true) :
    ∃ a, s = some a ∧ t = some a := by
  cases s with
  | none => simp [sigSame] at h
  | some a =>
    cases t with
    | none => simp [sigSame] at h
    | some b =>
      simp only [sigSame, Cfg.fixed, Bool.not_true, Bool.false_or, Bool.and_eq_true, beq_iff_eq] at h
      refine ⟨a, rfl, ?_⟩
      cases a; cases b
      simp only [ListSig.mk.injEq, Option.some.injEq] at h ⊢
      exact ⟨h.1.1.symm, h.1.2.symm, h.2.symm⟩

theorem listSig_same_elems {g : Graph} (hs : ListSigOK g) {l r : Nat} {xs ys : List Nat} {a : ListSig}
    (hl : l < g.length) (hnl : g.node l = .list xs (some a)) (hnr : g.node r = .list ys (some a)) : xs = ys := by
  have hr : r < g.length := by
    apply Classical.byContradiction
    intro hge
    rw [node_of_ge g (Nat.le_of_not_lt hge)] at hnr
    exact absurd hnr (by simp)
  have h := hs
  unfold ListSigOK listSigB at h
  rw [List.all_eq_true] at h
  have h1 := h _ (node_mem g hl)
  rw [List.all_eq_true] at h1
  have h2 := h1 _ (node_mem g hr)
  rw [hnl, hnr] at h2
  simpa using h2

theorem sum_two (f : Nat → Nat) (a b : Nat) : ([a, b].map f).sum = f a + f b := by simp

/-- **One arm is right**: under the fixed configuration, and if the nested key comparison `keyEq`
    agrees with the specification on the keys of the left value, the arm either returns `false` and
    the two values are different, or skips a pair that has been expanded before, or pushes pairs
    whose equality is equivalent to the equality of the two values. -/
theorem arm_spec {g : Graph} (hwf : WF g) (hn : NoNaN g) (hkd : KeysDistinct g) (hsig : ListSigOK g)
    {l : Nat} (hl : l < g.length) (r : Nat) (vis : List Key) (keyEq : Nat → Nat → Bool)
    (hk : ∀ k ∈ children (g.node l), ∀ k', keyEq k k' = eqSpec g k k') :
    ArmOK g l r vis (arm Cfg.fixed g keyEq l r vis) := by
  have hspec : eqSpec g l r = relBody specCfg (eqSpec g) (g.node l) (g.node r) :=
    rel_unfold specCfg hwf hl r
  have hsize := size_unfold hwf hl
  have hlt : ∀ x ∈ children (g.node l), x < l := fun x hx => children_lt hwf hx
  have hrefl : l = r → eqSpec g l r = true := fun h => h ▸ spec_refl hwf hn hkd l hl
  have hkeep : ∀ k ∈ vis, k = Key.two l r ∨ k ∈ vis := fun k hk => Or.inr hk
  unfold arm
  cases hnl : g.node l <;> cases hnr : g.node r <;>
    simp only [hnl, hnr, relBody, children] at hspec hsize hlt hk ⊢ <;>
    try (exact ArmOK.ret hspec)
  case leaf.leaf x y =>
    rw [leafEqWork_fixed]
    cases hxy : leafEqSpec x y
    · simp only [Bool.false_eq_true, if_false]
      exact ArmOK.ret (by rw [hspec]; exact hxy)
    · simp only [if_true]
      exact ArmOK.done (by rw [hspec]; exact hxy) hkeep
  case list.list xs s ys t =>
    simp only [lkey_fixed]
    split
    · rename_i h
      apply ArmOK.done _ hkeep
      simp only [Bool.or_eq_true, beq_iff_eq, Bool.and_eq_true, List.isEmpty_iff] at h
      rcases h with (h | h) | ⟨h1, h2⟩
      · exact hrefl h
      · -- same storage, same index, same next node: the same elements
        obtain ⟨a, hs, ht⟩ := sigSame_fixed h
        subst hs; subst ht
        have hxy : xs = ys := listSig_same_elems hsig hl hnl hnr
        subst hxy
        rw [hspec]
        apply all2_refl
        intro x hx
        exact spec_refl hwf hn hkd x (Nat.lt_trans (hlt x hx) hl)
      · rw [hspec, h1, h2]; rfl
    · apply armOK_visit
      intro vis' hv
      split
      · rename_i h
        exact ArmOK.ret (by rw [hspec]; exact all2_of_length_ne (by simpa using h))
      · rename_i h
        have hno : Cfg.fixed.listInnerKindReject = false := rfl
        simp only [hno, Bool.false_and, Bool.false_eq_true, if_false]
        exact ArmOK.expand xs ys vis' (by simpa using h) hlt (by omega) hspec hv
  case pair.pair a b a' b' =>
    split
    · rename_i h
      exact ArmOK.done (hrefl (by simpa using h)) hkeep
    · apply armOK_visit
      intro vis' hv
      refine ArmOK.expand [a, b] [a', b'] vis' rfl hlt ?_ ?_ hv
      · omega
      · rw [hspec]; simp [all2]
  case vec.vec xs ys =>
    split
    · rename_i h
      exact ArmOK.ret (by rw [hspec]; exact all2_of_length_ne (by simpa using h))
    · rename_i h
      split
      · rename_i h2
        exact ArmOK.done (hrefl (by simpa using h2)) hkeep
      · have : Cfg.fixed.vecRevisitFalse = false := rfl
        simp only [this, Bool.false_eq_true, if_false]
        apply armOK_visit
        intro vis' hv
        exact ArmOK.expand xs ys vis' (by simpa using h) hlt (by omega) hspec hv
  case vec.mvec xs ys =>
    have : specCfg.mixVec = true := rfl
    simp only [this, Bool.true_and] at hspec
    split
    · rename_i h
      exact ArmOK.ret (by rw [hspec]; exact all2_of_length_ne (by simpa using h))
    · rename_i h
      exact ArmOK.expand xs ys vis (by simpa using h) hlt (by omega) hspec hkeep
  case mvec.vec xs ys =>
    have : specCfg.mixVec = true := rfl
    simp only [this, Bool.true_and] at hspec
    split
    · rename_i h
      exact ArmOK.ret (by rw [hspec]; exact all2_of_length_ne (by simpa using h))
    · rename_i h
      exact ArmOK.expand xs ys vis (by simpa using h) hlt (by omega) hspec hkeep
  case mvec.mvec xs ys =>
    split
    · rename_i h
      exact ArmOK.done (hrefl (by simpa using h)) hkeep
    · apply armOK_visit
      intro vis' hv
      split
      · rename_i h
        exact ArmOK.ret (by rw [hspec]; exact all2_of_length_ne (by simpa using h))
      · rename_i h
        exact ArmOK.expand xs ys vis' (by simpa using h) hlt (by omega) hspec hv
  case struct.struct t xs u ys =>
    split
    · rename_i h
      exact ArmOK.done (hrefl (by simpa using h)) hkeep
    · apply armOK_visit
      intro vis' hv
      split
      · rename_i h
        refine ArmOK.ret ?_
        rw [hspec]
        simp only [Bool.not_eq_true', Bool.and_eq_false_iff, beq_eq_false_iff_ne] at h
        rcases h with h | h
        · simp [h]
        · rw [all2_of_length_ne h]; simp
      · rename_i h
        simp only [Bool.not_eq_true', Bool.not_eq_false, Bool.and_eq_true, beq_iff_eq] at h
        refine ArmOK.expand xs ys vis' h.2 hlt (by omega) ?_ hv
        rw [hspec]; simp [h.1]
  case box.box a b =>
    split
    · rename_i h
      exact ArmOK.done (hrefl (by simpa using h)) hkeep
    · refine ArmOK.expand [a] [b] vis rfl hlt ?_ ?_ hkeep
      · simp at hsize ⊢; omega
      · rw [hspec]; simp [all2]
  case set.set xs ys =>
    have hmode : specCfg.mode = MapMode.lookup := rfl
    simp only [hmode, setRel] at hspec
    split
    · rename_i h
      exact ArmOK.done (hrefl (by simpa using h)) hkeep
    · apply armOK_visit
      intro vis' hv
      have hall : (xs.all fun x => ys.any (keyEq x)) = (xs.all fun x => ys.any (eqSpec g x)) := by
        apply all_congr_mem
        intro x hx
        apply any_congr_mem
        intro y _
        exact hk x hx y
      split
      · rename_i h
        refine ArmOK.ret ?_
        rw [hspec]
        have : (xs.length == ys.length) = false := by simpa using h
        simp [this]
      · rename_i h
        have hlen : (xs.length == ys.length) = true := by simpa using h
        rw [hall]
        split
        · rename_i h2
          exact ArmOK.done (by rw [hspec, hlen, h2]; rfl) hv
        · rename_i h2
          refine ArmOK.ret ?_
          rw [hspec]
          simp only [Bool.not_eq_true] at h2
          simp [h2]
  case map.map es fs =>
    have hmode : specCfg.mode = MapMode.lookup := rfl
    simp only [hmode, mapRel] at hspec
    split
    · rename_i h
      exact ArmOK.done (hrefl (by simpa using h)) hkeep
    · apply armOK_visit
      intro vis' hv
      split
      · rename_i h
        refine ArmOK.ret ?_
        rw [hspec]
        have : (es.length == fs.length) = false := by simpa using h
        simp [this]
      · rename_i h
        have hlen : (es.length == fs.length) = true := by simpa using h
        have hcongr : lookupAll keyEq fs es = lookupAll (eqSpec g) fs es :=
          lookupAll_congr fs es (fun e he y => hk e.1 (List.mem_append_left _ (List.mem_map_of_mem he)) y)
        rw [hcongr]
        have hspec : eqSpec g l r = (es.length == fs.length && es.all (entryOk (eqSpec g) fs)) := hspec
        cases hla : lookupAll (eqSpec g) fs es with
        | none =>
          refine ArmOK.ret ?_
          rw [hspec, lookupAll_none fs es hla]; simp
        | some p =>
          obtain ⟨pl, pr⟩ := p
          obtain ⟨h1, h2, h3⟩ := lookupAll_some fs es pl pr hla
          refine ArmOK.expand pl pr vis' h2 ?_ ?_ ?_ hv
          · intro x hx
            rw [h1] at hx
            exact hlt x (List.mem_append_right _ hx)
          · rw [h1]
            have := sum_map_le_of_sublist_append (f := size g) (es.map Prod.fst) (es.map Prod.snd)
            omega
          · rw [hspec, hlen, h3]; rfl

/-! ## the invariant of the loop -/

def specP (g : Graph) (p : Nat × Nat) : Bool := eqSpec g p.1 p.2

/-- `W` = the pairs that have been expanded (a superset of the visited set: arms without a visited
    check expand too).  Every expanded pair follows from the pairs it pushed (`cs`), and each of
    those is still on the stack, or expanded itself, or known to be equal. -/
def Closed (g : Graph) (ps W : List (Nat × Nat)) : Prop :=
  ∀ q ∈ W, ∃ cs : List (Nat × Nat),
    (∀ p ∈ cs, p.1 < q.1) ∧ ((∀ p ∈ cs, specP g p = true) → specP g q = true) ∧
    (∀ p ∈ cs, p ∈ ps ∨ p ∈ W ∨ specP g p = true)

/-- If everything on the stack is equal then everything expanded so far is equal (acyclicity: the left
    component decreases along `cs`). -/
theorem closed_all {g : Graph} {ps W : List (Nat × Nat)} (hc : Closed g ps W)
    (hps : ∀ p ∈ ps, specP g p = true) : ∀ q ∈ W, specP g q = true := by
  have key : ∀ n, ∀ q ∈ W, q.1 = n → specP g q = true := by
    intro n
    induction n using Nat.strongRecOn with
    | _ n ih =>
      intro q hq hn
      obtain ⟨cs, h1, h2, h3⟩ := hc q hq
      apply h2
      intro p hp
      rcases h3 p hp with h | h | h
      · exact hps p h
      · exact ih p.1 (hn ▸ h1 p hp) p h rfl
      · exact h
  exact fun q hq => key q.1 q hq rfl

theorem le_sum_of_mem {f : Nat → Nat} : ∀ (xs : List Nat) (x : Nat), x ∈ xs → f x ≤ (xs.map f).sum
  | [], _, h => by simp at h
  | y :: ys, x, h => by
      simp only [List.map_cons, List.sum_cons]
      rcases List.mem_cons.mp h with h | h
      · subst h; omega
      · have := le_sum_of_mem (f := f) ys x h; omega

theorem loop_nil (c : Cfg) (g : Graph) (f : Nat) (vis : List Key) : loop c g f [] [] vis = true := by
  cases f <;> simp [loop]

theorem topEq_spec {g : Graph} (hwf : WF g) {a : Nat} (ha : a < g.length) (b : Nat)
    (work : Nat → Nat → Bool) (hwork : work a b = eqSpec g a b) : topEq g work a b = eqSpec g a b := by
  unfold topEq
  split
  · rename_i x y h1 h2
    unfold eqSpec
    rw [rel_unfold specCfg hwf ha, h1, h2]
    rfl
  · exact hwork

/-- **The loop is right** (fixed configuration): with enough fuel it returns whether all pairs on the
    stack are equal — whatever has been visited, as long as the invariant `Closed` holds. -/
theorem loop_correct {g : Graph} (hwf : WF g) (hn : NoNaN g) (hkd : KeysDistinct g) (hsig : ListSigOK g) :
    ∀ (f : Nat) (ps : List (Nat × Nat)) (vis : List Key) (W : List (Nat × Nat)),
      (∀ p ∈ ps, p.1 < g.length) → (∀ l r, Key.two l r ∈ vis → (l, r) ∈ W) → Closed g ps W →
      (ps.map (fun p => size g p.1)).sum ≤ f →
      loop Cfg.fixed g f (ps.map Prod.fst) (ps.map Prod.snd) vis = ps.all (specP g) := by
  intro f
  induction f with
  | zero =>
    intro ps vis W _ _ _ hsum
    cases ps with
    | nil => simp [loop_nil]
    | cons p ps' =>
      simp only [List.map_cons, List.sum_cons] at hsum
      have := size_pos g p.1
      omega
  | succ f ih =>
    intro ps vis W hrange hvis hclosed hsum
    cases ps with
    | nil => simp [loop_nil]
    | cons p ps' =>
      obtain ⟨l, r⟩ := p
      have hl : l < g.length := hrange (l, r) (List.mem_cons_self ..)
      simp only [List.map_cons, List.sum_cons] at hsum
      have hsl := size_unfold hwf hl
      simp only [List.map_cons, loop, List.all_cons]
      -- the nested comparison of keys agrees with the specification
      have hk : ∀ k ∈ children (g.node l), ∀ k',
          (hashEq Cfg.fixed g k k' && topEq g (fun a b => loop Cfg.fixed g f [a] [b] []) k k') = eqSpec g k k' := by
        intro k hkm k'
        have hkl : k < l := children_lt hwf hkm
        have hklen : k < g.length := Nat.lt_trans hkl hl
        have hsz : size g k ≤ f := by
          have := le_sum_of_mem (f := size g) _ k hkm
          omega
        have hnested : loop Cfg.fixed g f [k] [k'] [] = eqSpec g k k' := by
          have := ih [(k, k')] [] [] (by simpa using hklen) (by simp) (by intro q hq; simp at hq)
            (by simpa using hsz)
          simpa [specP] using this
        rw [topEq_spec hwf hklen k' _ hnested]
        cases hs : eqSpec g k k'
        · simp
        · have : hashEq Cfg.fixed g k k' = true := relF_spec_hash g _ _ _ hs
          simp [this]
      have harm := arm_spec hwf hn hkd hsig hl r vis _ hk
      generalize arm Cfg.fixed g _ l r vis = out at harm
      cases harm with
      | ret hfalse => simp [specP, hfalse]
      | expand pl pr vis' h1 h2 h3 h4 h5 =>
        have e1 : ((pl.zip pr).reverse ++ ps').map Prod.fst = pl.reverse ++ ps'.map Prod.fst := by
          simp [List.map_append, List.map_reverse, List.map_fst_zip (Nat.le_of_eq h1)]
        have e2 : ((pl.zip pr).reverse ++ ps').map Prod.snd = pr.reverse ++ ps'.map Prod.snd := by
          simp [List.map_append, List.map_reverse, List.map_snd_zip (Nat.le_of_eq h1.symm)]
        have hmemzip : ∀ p ∈ pl.zip pr, p.1 ∈ pl := fun p hp => (List.of_mem_zip hp).1
        simp only
        rw [← e1, ← e2, ih ((pl.zip pr).reverse ++ ps') vis' ((l, r) :: W)]
        · simp only [List.all_append, List.all_reverse]
          congr 1
          show (pl.zip pr).all (specP g) = specP g (l, r)
          simp only [specP]
          rw [h4, all2_eq_all_zip _ _ h1]
          rfl
        · intro p hp
          rcases List.mem_append.mp hp with hp | hp
          · exact Nat.lt_trans (h2 _ (hmemzip p (List.mem_reverse.mp hp))) hl
          · exact hrange p (List.mem_cons_of_mem _ hp)
        · intro a b hab
          rcases h5 _ hab with h | h
          · simp only [Key.two.injEq] at h
            rw [h.1, h.2]
            exact List.mem_cons_self ..
          · exact List.mem_cons_of_mem _ (hvis a b h)
        · intro q hq
          rcases List.mem_cons.mp hq with hq | hq
          · subst hq
            refine ⟨pl.zip pr, fun p hp => h2 _ (hmemzip p hp), ?_, ?_⟩
            · intro hall
              simp only [specP]
              rw [h4, all2_eq_all_zip _ _ h1, List.all_eq_true]
              exact hall
            · intro p hp
              exact Or.inl (List.mem_append_left _ (List.mem_reverse.mpr hp))
          · obtain ⟨cs, c1, c2, c3⟩ := hclosed q hq
            refine ⟨cs, c1, c2, ?_⟩
            intro p hp
            rcases c3 p hp with h | h | h
            · rcases List.mem_cons.mp h with h | h
              · exact Or.inr (Or.inl (h ▸ List.mem_cons_self ..))
              · exact Or.inl (List.mem_append_right _ h)
            · exact Or.inr (Or.inl (List.mem_cons_of_mem _ h))
            · exact Or.inr (Or.inr h)
        · have hz : (((pl.zip pr).reverse ++ ps').map (fun p => size g p.1)).sum
              = (pl.map (size g)).sum + (ps'.map (fun p => size g p.1)).sum := by
            have : (pl.zip pr).map (fun p => size g p.1) = pl.map (size g) := by
              have hz1 : (pl.zip pr).map (fun p => size g p.1) = ((pl.zip pr).map Prod.fst).map (size g) := by
                rw [List.map_map]; rfl
              rw [hz1, List.map_fst_zip (Nat.le_of_eq h1)]
            simp [List.map_append, List.map_reverse, List.sum_append, List.sum_reverse, this]
          rw [hz]
          omega
      | skip hmem =>
        simp only [List.reverse_nil, List.nil_append]
        have hW : (l, r) ∈ W := hvis l r hmem
        have hclosed' : Closed g ps' W := by
          intro q hq
          obtain ⟨cs, c1, c2, c3⟩ := hclosed q hq
          refine ⟨cs, c1, c2, ?_⟩
          intro p hp
          rcases c3 p hp with h | h | h
          · rcases List.mem_cons.mp h with h | h
            · exact Or.inr (Or.inl (h ▸ hW))
            · exact Or.inl h
          · exact Or.inr (Or.inl h)
          · exact Or.inr (Or.inr h)
        rw [ih ps' vis W (fun p hp => hrange p (List.mem_cons_of_mem _ hp)) hvis hclosed'
          (by have := size_pos g l; omega)]
        cases hall : ps'.all (specP g)
        · simp
        · have := closed_all hclosed' (List.all_eq_true.mp hall) (l, r) hW
          simp only [specP] at this
          simp [specP, this]

end SteelVerif.C11
