/-
C11 helper lemmas, part 7: the model P of the hash-map / hash-set primitives (`Prim.hm*`, `Prim.hs*`,
`Prim.imbl*`: entry lists with replace-on-insert, `imbl`'s size-directed `union`, `symmetric_difference`,
`intersection`) refines the finite maps / finite sets of `Coll`.  The abstraction relations are extensional:
`MapRel p s` = both have every key once and the same lookup function; `SetRel p s` = both duplicate-free with the
same members.  Hence the two contents are permutations of each other (`MapRel.perm`, `SetRel.perm`).
-/
import SteelVerif.C11.Prim
import SteelVerif.C11.LemmasColl
namespace SteelVerif.C11
open Coll

section
variable {κ ν : Type} [DecidableEq κ]

/-! ## finite maps -/

theorem hmGet_eq (m : List (κ × ν)) (k : κ) : Prim.hmGet m k = mTryGet m k := rfl
theorem hmRemove_eq (m : List (κ × ν)) (k : κ) : Prim.hmRemove m k = mRemove m k := rfl
theorem hmInsert_def (m : List (κ × ν)) (k : κ) (v : ν) : Prim.hmInsert m k v = mRemove m k ++ [(k, v)] := rfl

theorem get_hmInsert (m : List (κ × ν)) (k k' : κ) (v : ν) :
    mTryGet (Prim.hmInsert m k v) k' = if k' = k then some v else mTryGet m k' := by
  rw [hmInsert_def, tryGet_append, tryGet_remove]
  by_cases h : k' = k
  · subst h
    simp [tryGet_cons]
  · have h' : ¬ k = k' := fun x => h x.symm
    simp only [h, if_false]
    cases mTryGet m k' with
    | some v' => rfl
    | none => simp [h', mTryGet]

theorem nodup_hmInsert (m : List (κ × ν)) (k : κ) (v : ν) (h : mNodup m) : mNodup (Prim.hmInsert m k v) := by
  rw [hmInsert_def]
  unfold mNodup
  rw [List.map_append, List.nodup_append]
  refine ⟨nodup_remove m k h, by simp, ?_⟩
  intro a ha b hb
  simp only [List.map_cons, List.map_nil, List.mem_singleton] at hb
  subst hb
  exact ((keys_remove m b a).mp ha).2

/-- P content and S content: every key once, same lookup -/
def MapRel (p s : List (κ × ν)) : Prop := mNodup p ∧ mNodup s ∧ ∀ k, mTryGet p k = mTryGet s k

theorem mapRel_nil : MapRel ([] : List (κ × ν)) [] := ⟨by simp [mNodup], by simp [mNodup], fun _ => rfl⟩

theorem mem_iff_tryGet : ∀ (m : List (κ × ν)), mNodup m → ∀ k v, (k, v) ∈ m ↔ mTryGet m k = some v
  | [], _, k, v => by simp [mTryGet]
  | e :: m, h, k, v => by
      unfold mNodup at h
      simp only [List.map_cons, List.nodup_cons] at h
      rw [tryGet_cons, List.mem_cons]
      by_cases he : e.1 = k
      · simp only [he, if_true]
        have hnot : (k, v) ∉ m := fun hm => h.1 (he ▸ List.mem_map_of_mem (f := Prod.fst) hm)
        constructor
        · rintro (h1 | h1)
          · rw [← h1]
          · exact absurd h1 hnot
        · intro h1
          left
          cases e with
          | mk a b =>
            simp only at he h1
            simp only [Option.some.injEq] at h1
            rw [he, h1]
      · simp only [he, if_false]
        rw [← mem_iff_tryGet m h.2 k v]
        constructor
        · rintro (h1 | h1)
          · exact absurd (by rw [← h1]) he
          · exact h1
        · exact Or.inr

theorem nodup_of_keys : ∀ (m : List (κ × ν)), mNodup m → m.Nodup
  | [], _ => List.nodup_nil
  | e :: m, h => by
      unfold mNodup at h
      simp only [List.map_cons, List.nodup_cons] at h
      rw [List.nodup_cons]
      exact ⟨fun hm => h.1 (List.mem_map_of_mem (f := Prod.fst) hm), nodup_of_keys m h.2⟩

/-- related contents are permutations of each other -/
theorem MapRel.perm {p s : List (κ × ν)} (h : MapRel p s) : p.Perm s := by
  rw [List.perm_ext_iff_of_nodup (nodup_of_keys p h.1) (nodup_of_keys s h.2.1)]
  intro ⟨k, v⟩
  rw [mem_iff_tryGet p h.1, mem_iff_tryGet s h.2.1, h.2.2 k]

theorem MapRel.insert {p s : List (κ × ν)} (h : MapRel p s) (k : κ) (v : ν) :
    MapRel (Prim.hmInsert p k v) (mInsert s k v) :=
  ⟨nodup_hmInsert p k v h.1, nodup_insert s k v h.2.1, fun k' => by rw [get_hmInsert, tryGet_insert, h.2.2]⟩

theorem MapRel.remove {p s : List (κ × ν)} (h : MapRel p s) (k : κ) :
    MapRel (Prim.hmRemove p k) (mRemove s k) :=
  ⟨nodup_remove p k h.1, nodup_remove s k h.2.1, fun k' => by
    rw [hmRemove_eq, tryGet_remove, tryGet_remove, h.2.2]⟩

theorem MapRel.contains {p s : List (κ × ν)} (h : MapRel p s) (k : κ) :
    Prim.hashContains p k = mContains s k := by
  unfold Prim.hashContains
  rw [hmGet_eq, contains_iff_tryGet, h.2.2]

theorem MapRel.ref {p s : List (κ × ν)} (h : MapRel p s) (k : κ) : Prim.hashRef p k = mRef s k := by
  unfold Prim.hashRef mRef
  rw [hmGet_eq, h.2.2]
  cases mTryGet s k <;> rfl

/-- the two folds of `imbl::HashMap::union` -/
theorem get_fold_vacant (k : κ) : ∀ (es acc : List (κ × ν)),
    mTryGet (es.foldl (fun toMutate e => if (Prim.hmGet toMutate e.1).isSome then toMutate else Prim.hmInsert toMutate e.1 e.2) acc) k
    = match mTryGet acc k with | some v => some v | none => mTryGet es k
  | [], acc => by
      simp only [List.foldl_nil]
      cases h : mTryGet acc k <;> rfl
  | e :: es, acc => by
      rw [List.foldl_cons, get_fold_vacant k es, tryGet_cons]
      rw [hmGet_eq]
      cases hg : mTryGet acc e.1 with
      | some w =>
        simp only [Option.isSome_some, if_true]
        by_cases he : e.1 = k
        · rw [← he, hg]
        · simp [he]
      | none =>
        simp only [Option.isSome_none, Bool.false_eq_true, if_false]
        rw [get_hmInsert]
        by_cases he : e.1 = k
        · have : k = e.1 := he.symm
          simp only [this, if_true]
          rw [hg]
        · have : ¬ k = e.1 := fun x => he x.symm
          simp [this, he]

theorem nodup_fold_vacant : ∀ (es acc : List (κ × ν)), mNodup acc →
    mNodup (es.foldl (fun toMutate e => if (Prim.hmGet toMutate e.1).isSome then toMutate else Prim.hmInsert toMutate e.1 e.2) acc)
  | [], _, h => h
  | e :: es, acc, h => by
      rw [List.foldl_cons]
      apply nodup_fold_vacant es
      cases Prim.hmGet acc e.1 with
      | some _ => simpa using h
      | none => simpa using nodup_hmInsert acc e.1 e.2 h

theorem fold_always_eq (es acc : List (κ × ν)) :
    es.foldl (fun toMutate e =>
      if (Prim.hmGet toMutate e.1).isSome then Prim.hmInsert toMutate e.1 e.2 else Prim.hmInsert toMutate e.1 e.2) acc
    = es.foldl (fun toMutate e => Prim.hmInsert toMutate e.1 e.2) acc := by
  congr 1
  funext toMutate e
  exact ite_self _

theorem get_fold_always (k : κ) : ∀ (es acc : List (κ × ν)), mNodup es →
    mTryGet (es.foldl (fun toMutate e => Prim.hmInsert toMutate e.1 e.2) acc) k
    = match mTryGet es k with | some v => some v | none => mTryGet acc k
  | [], acc, _ => by simp [mTryGet]
  | e :: es, acc, h => by
      unfold mNodup at h
      simp only [List.map_cons, List.nodup_cons] at h
      rw [List.foldl_cons, get_fold_always k es _ h.2, tryGet_cons]
      by_cases he : e.1 = k
      · have hnone : mTryGet es k = none := by
          cases hg : mTryGet es k with
          | none => rfl
          | some w =>
            have := (mem_iff_tryGet es h.2 k w).mpr hg
            exact absurd (he ▸ List.mem_map_of_mem (f := Prod.fst) this) h.1
        simp only [hnone, he, if_true]
        rw [get_hmInsert]
        simp [he]
      · simp only [he, if_false]
        cases mTryGet es k with
        | some w => rfl
        | none =>
          simp only
          rw [get_hmInsert]
          have : ¬ k = e.1 := fun x => he x.symm
          simp [this]

theorem nodup_fold_always : ∀ (es acc : List (κ × ν)), mNodup acc →
    mNodup (es.foldl (fun toMutate e => Prim.hmInsert toMutate e.1 e.2) acc)
  | [], _, h => h
  | e :: es, acc, h => by
      rw [List.foldl_cons]
      exact nodup_fold_always es _ (nodup_hmInsert acc e.1 e.2 h)

/-- `imbl`'s union is left-biased whichever of the two maps it decides to mutate -/
theorem get_imblUnion (l r : List (κ × ν)) (hl : mNodup l) (k : κ) :
    mTryGet (Prim.imblUnion l r) k = match mTryGet l k with | some v => some v | none => mTryGet r k := by
  unfold Prim.imblUnion
  by_cases h : l.length ≥ r.length
  · simp only [h, if_true]
    exact get_fold_vacant k r l
  · simp only [h, if_false]
    rw [fold_always_eq]
    exact get_fold_always k l r hl

theorem nodup_imblUnion (l r : List (κ × ν)) (hl : mNodup l) (hr : mNodup r) : mNodup (Prim.imblUnion l r) := by
  unfold Prim.imblUnion
  by_cases h : l.length ≥ r.length
  · simp only [h, if_true]
    exact nodup_fold_vacant r l hl
  · simp only [h, if_false]
    rw [fold_always_eq]
    exact nodup_fold_always l r hr

theorem hmUnion_eq (ul ur : Bool) (l r : List (κ × ν)) : Prim.hmUnion ul ur l r = Prim.imblUnion l r := by
  cases ul <;> cases ur <;> rfl

theorem nodup_mUnion (l r : M κ ν) (hl : mNodup l) (hr : mNodup r) : mNodup (mUnion l r) := by
  unfold mUnion mNodup
  rw [List.map_append, List.nodup_append]
  refine ⟨hl, List.Nodup.sublist (List.Sublist.map _ List.filter_sublist) hr, ?_⟩
  intro a ha b hb hab
  subst hab
  obtain ⟨e, he, rfl⟩ := List.mem_map.mp hb
  have hc := (List.mem_filter.mp he).2
  have : mContains l e.1 = true := (contains_iff_mem l e.1).mpr ha
  simp [this] at hc

/-- `hash-union` under every ownership pattern -/
theorem MapRel.union {pl sl pr sr : List (κ × ν)} (hl : MapRel pl sl) (hr : MapRel pr sr) (ul ur : Bool) :
    MapRel (Prim.hmUnion ul ur pl pr) (mUnion sl sr) := by
  rw [hmUnion_eq]
  refine ⟨nodup_imblUnion pl pr hl.1 hr.1, nodup_mUnion sl sr hl.2.1 hr.2.1, fun k => ?_⟩
  rw [get_imblUnion pl pr hl.1, tryGet_union, hl.2.2, hr.2.2]
  cases mTryGet sl k <;> rfl

/-- both undefined, or both defined and related -/
def OptRel {α β : Type} (R : α → β → Prop) : Option α → Option β → Prop
  | some a, some b => R a b
  | none, none => True
  | _, _ => False

/-- `(hash k v …)`: a key without a value is an error on both sides; otherwise the same finite map -/
theorem construct_rel : ∀ (ks : List κ) (vs : List ν) (p s : List (κ × ν)), MapRel p s →
    OptRel (fun p' kvs => MapRel p' (kvs.foldl (fun m e => mInsert m e.1 e.2) s))
      (Prim.hmConstruct p ks vs) (mkPairs ks vs)
  | [], [], p, s, h => by simpa [Prim.hmConstruct, mkPairs, OptRel] using h
  | [], _ :: _, p, s, h => by simp [Prim.hmConstruct, mkPairs, OptRel]
  | _ :: _, [], p, s, h => by simp [Prim.hmConstruct, mkPairs, OptRel]
  | k :: ks, v :: vs, p, s, h => by
      have := construct_rel ks vs _ _ (h.insert k v)
      simp only [Prim.hmConstruct, mkPairs]
      cases h1 : Prim.hmConstruct (Prim.hmInsert p k v) ks vs <;> cases h2 : mkPairs ks vs <;>
        simp only [h1, h2, Option.map_some, Option.map_none, List.foldl_cons, OptRel] at this ⊢ <;> exact this

/-! ## finite sets -/

/-- P content and S content: no duplicates, same members -/
def SetRel (p s : List κ) : Prop := p.Nodup ∧ s.Nodup ∧ ∀ k, k ∈ p ↔ k ∈ s

theorem setRel_nil : SetRel ([] : List κ) [] := ⟨List.nodup_nil, List.nodup_nil, fun _ => Iff.rfl⟩

theorem SetRel.perm {p s : List κ} (h : SetRel p s) : p.Perm s :=
  (List.perm_ext_iff_of_nodup h.1 h.2.1).mpr h.2.2

theorem SetRel.contains {p s : List κ} (h : SetRel p s) (k : κ) : p.contains k = sContains s k := by
  unfold sContains
  rw [Bool.eq_iff_iff, List.contains_iff_mem, List.contains_iff_mem]
  exact h.2.2 k

theorem mem_hsInsert (s : List κ) (k x : κ) : x ∈ Prim.hsInsert s k ↔ x ∈ s ∨ x = k := by
  unfold Prim.hsInsert
  simp only [List.mem_append, List.mem_filter, List.mem_singleton, Bool.not_eq_true', beq_eq_false_iff_ne, ne_eq]
  by_cases h : x = k <;> simp [h]

theorem nodup_filter {p : κ → Bool} {s : List κ} (h : s.Nodup) : (s.filter p).Nodup :=
  List.Nodup.sublist List.filter_sublist h

theorem nodup_hsInsert (s : List κ) (k : κ) (h : s.Nodup) : (Prim.hsInsert s k).Nodup := by
  unfold Prim.hsInsert
  rw [List.nodup_append]
  refine ⟨nodup_filter h, by simp, ?_⟩
  intro a ha b hb
  simp only [List.mem_singleton] at hb
  subst hb
  have := (List.mem_filter.mp ha).2
  simpa using this

theorem mem_sInsert (s : S κ) (k x : κ) : x ∈ sInsert s k ↔ x ∈ s ∨ x = k := by
  unfold sInsert
  split
  · rename_i h
    have hk : k ∈ s := List.contains_iff_mem.mp h
    constructor
    · exact Or.inl
    · rintro (h1 | h1)
      · exact h1
      · exact h1 ▸ hk
  · rw [List.mem_cons]
    exact Or.comm

theorem SetRel.insert {p s : List κ} (h : SetRel p s) (k : κ) : SetRel (Prim.hsInsert p k) (sInsert s k) :=
  ⟨nodup_hsInsert p k h.1, sNodup_insert s k h.2.1, fun x => by rw [mem_hsInsert, mem_sInsert, h.2.2]⟩

theorem mem_fold_hsInsert (x : κ) : ∀ (es acc : List κ), x ∈ es.foldl Prim.hsInsert acc ↔ x ∈ acc ∨ x ∈ es
  | [], acc => by simp
  | e :: es, acc => by
      rw [List.foldl_cons, mem_fold_hsInsert x es, mem_hsInsert, List.mem_cons]
      constructor
      · rintro ((h | h) | h)
        · exact Or.inl h
        · exact Or.inr (Or.inl h)
        · exact Or.inr (Or.inr h)
      · rintro (h | h | h)
        · exact Or.inl (Or.inl h)
        · exact Or.inl (Or.inr h)
        · exact Or.inr h

theorem nodup_fold_hsInsert : ∀ (es acc : List κ), acc.Nodup → (es.foldl Prim.hsInsert acc).Nodup
  | [], _, h => h
  | e :: es, acc, h => by
      rw [List.foldl_cons]
      exact nodup_fold_hsInsert es _ (nodup_hsInsert acc e h)

theorem mem_fold_sInsert (x : κ) : ∀ (es : List κ) (acc : S κ), x ∈ es.foldl sInsert acc ↔ x ∈ acc ∨ x ∈ es
  | [], acc => by simp
  | e :: es, acc => by
      rw [List.foldl_cons, mem_fold_sInsert x es, mem_sInsert, List.mem_cons]
      constructor
      · rintro ((h | h) | h)
        · exact Or.inl h
        · exact Or.inr (Or.inl h)
        · exact Or.inr (Or.inr h)
      · rintro (h | h | h)
        · exact Or.inl (Or.inl h)
        · exact Or.inl (Or.inr h)
        · exact Or.inr h

/-- `(hashset k …)` -/
theorem setRel_construct (ks : List κ) : SetRel (Prim.hsConstruct ks) (sOfList ks) :=
  ⟨nodup_fold_hsInsert ks [] List.nodup_nil, sNodup_ofList ks, fun x => by
    unfold Prim.hsConstruct sOfList
    rw [mem_fold_hsInsert, mem_fold_sInsert]⟩

theorem mem_imblSetUnion (a b : List κ) (x : κ) : x ∈ Prim.imblSetUnion a b ↔ x ∈ a ∨ x ∈ b := by
  unfold Prim.imblSetUnion
  by_cases h : a.length ≥ b.length
  · simp only [h, if_true, mem_fold_hsInsert]
  · simp only [h, if_false, mem_fold_hsInsert]
    exact Or.comm

theorem nodup_imblSetUnion (a b : List κ) (ha : a.Nodup) (hb : b.Nodup) : (Prim.imblSetUnion a b).Nodup := by
  unfold Prim.imblSetUnion
  by_cases h : a.length ≥ b.length
  · simp only [h, if_true]; exact nodup_fold_hsInsert b a ha
  · simp only [h, if_false]; exact nodup_fold_hsInsert a b hb

theorem mem_sUnion (s t : S κ) (x : κ) : x ∈ sUnion s t ↔ x ∈ s ∨ x ∈ t := by
  unfold sUnion
  simp only [List.mem_append, List.mem_filter, Bool.not_eq_true', ← Bool.not_eq_true, List.contains_iff_mem]
  by_cases h : x ∈ s <;> simp [h]

theorem nodup_sUnion (s t : S κ) (hs : s.Nodup) (ht : t.Nodup) : (sUnion s t).Nodup := by
  unfold sUnion
  rw [List.nodup_append]
  refine ⟨hs, nodup_filter ht, ?_⟩
  intro a ha b hb hab
  subst hab
  have := (List.mem_filter.mp hb).2
  have hc : s.contains a = true := List.contains_iff_mem.mpr ha
  rw [hc] at this
  exact absurd this (by decide)

theorem SetRel.union {p1 s1 p2 s2 : List κ} (h1 : SetRel p1 s1) (h2 : SetRel p2 s2) :
    SetRel (Prim.imblSetUnion p1 p2) (sUnion s1 s2) :=
  ⟨nodup_imblSetUnion p1 p2 h1.1 h2.1, nodup_sUnion s1 s2 h1.2.1 h2.2.1, fun x => by
    rw [mem_imblSetUnion, mem_sUnion, h1.2.2, h2.2.2]⟩

theorem mem_fold_inter (self : List κ) (x : κ) : ∀ (es out : List κ),
    x ∈ es.foldl (fun out y => if self.contains y then Prim.hsInsert out y else out) out ↔
      x ∈ out ∨ (x ∈ es ∧ x ∈ self)
  | [], out => by simp
  | e :: es, out => by
      rw [List.foldl_cons, mem_fold_inter self x es, List.mem_cons]
      by_cases he : self.contains e = true
      · simp only [he, if_true, mem_hsInsert]
        have hm : e ∈ self := List.contains_iff_mem.mp he
        constructor
        · rintro ((h | h) | h)
          · exact Or.inl h
          · exact Or.inr ⟨Or.inl h, h ▸ hm⟩
          · exact Or.inr ⟨Or.inr h.1, h.2⟩
        · rintro (h | ⟨h | h, h2⟩)
          · exact Or.inl (Or.inl h)
          · exact Or.inl (Or.inr h)
          · exact Or.inr ⟨h, h2⟩
      · simp only [he, if_false]
        have hm : e ∉ self := fun h => he (List.contains_iff_mem.mpr h)
        constructor
        · rintro (h | h)
          · exact Or.inl h
          · exact Or.inr ⟨Or.inr h.1, h.2⟩
        · rintro (h | ⟨h | h, h2⟩)
          · exact Or.inl h
          · exact absurd (h ▸ h2) hm
          · exact Or.inr ⟨h, h2⟩

theorem nodup_fold_inter (self : List κ) : ∀ (es out : List κ), out.Nodup →
    (es.foldl (fun out y => if self.contains y then Prim.hsInsert out y else out) out).Nodup
  | [], _, h => h
  | e :: es, out, h => by
      rw [List.foldl_cons]
      apply nodup_fold_inter self es
      by_cases he : self.contains e = true
      · simp only [he, if_true]; exact nodup_hsInsert out e h
      · simp only [he, if_false]; exact h

theorem SetRel.inter {p1 s1 p2 s2 : List κ} (h1 : SetRel p1 s1) (h2 : SetRel p2 s2) :
    SetRel (Prim.imblInter p1 p2) (sInter s1 s2) := by
  refine ⟨nodup_fold_inter p1 p2 [] List.nodup_nil, nodup_filter h1.2.1, fun x => ?_⟩
  unfold Prim.imblInter sInter
  rw [mem_fold_inter, List.mem_filter, List.contains_iff_mem, h1.2.2, h2.2.2]
  simp only [List.not_mem_nil, false_or]
  exact And.comm

theorem mem_symStep (acc : List κ) (x y : κ) :
    y ∈ (if acc.contains x then acc.filter (fun z => !(z == x)) else Prim.hsInsert acc x) ↔
      ((y ∈ acc ∧ y ≠ x) ∨ (y ∉ acc ∧ y = x)) := by
  by_cases hx : acc.contains x = true
  · have hm : x ∈ acc := List.contains_iff_mem.mp hx
    rw [if_pos hx, List.mem_filter]
    simp only [Bool.not_eq_true', beq_eq_false_iff_ne, ne_eq]
    constructor
    · exact Or.inl
    · rintro (h | ⟨h1, h2⟩)
      · exact h
      · exact absurd (h2 ▸ hm) h1
  · have hm : x ∉ acc := fun h => hx (List.contains_iff_mem.mpr h)
    rw [if_neg hx, mem_hsInsert]
    constructor
    · rintro (h | h)
      · exact Or.inl ⟨h, fun e => hm (e ▸ h)⟩
      · exact Or.inr ⟨h ▸ hm, h⟩
    · rintro (⟨h, _⟩ | ⟨_, h⟩)
      · exact Or.inl h
      · exact Or.inr h

theorem mem_fold_sym (y : κ) : ∀ (es acc : List κ), es.Nodup →
    (y ∈ es.foldl (fun acc x => if acc.contains x then acc.filter (fun z => !(z == x)) else Prim.hsInsert acc x) acc ↔
      ((y ∈ acc ∧ y ∉ es) ∨ (y ∉ acc ∧ y ∈ es)))
  | [], acc, _ => by simp
  | e :: es, acc, h => by
      rw [List.nodup_cons] at h
      rw [List.foldl_cons, mem_fold_sym y es _ h.2, mem_symStep, List.mem_cons]
      by_cases h2 : y = e
      · subst h2
        have h3 : y ∉ es := h.1
        by_cases h1 : y ∈ acc <;> simp [h1, h3]
      · by_cases h1 : y ∈ acc <;> by_cases h3 : y ∈ es <;> simp [h1, h2, h3]

theorem nodup_fold_sym : ∀ (es acc : List κ), acc.Nodup →
    (es.foldl (fun acc x => if acc.contains x then acc.filter (fun z => !(z == x)) else Prim.hsInsert acc x) acc).Nodup
  | [], _, h => h
  | e :: es, acc, h => by
      rw [List.foldl_cons]
      apply nodup_fold_sym es
      by_cases he : acc.contains e = true
      · simp only [he, if_true]; exact nodup_filter h
      · simp only [he, if_false]; exact nodup_hsInsert acc e h

theorem mem_sSymDiff (s t : S κ) (x : κ) : x ∈ sSymDiff s t ↔ ((x ∈ s ∧ x ∉ t) ∨ (x ∉ s ∧ x ∈ t)) := by
  unfold sSymDiff
  simp only [List.mem_append, List.mem_filter, Bool.not_eq_true', ← Bool.not_eq_true, List.contains_iff_mem]
  constructor
  · rintro (h | h)
    · exact Or.inl h
    · exact Or.inr ⟨h.2, h.1⟩
  · rintro (h | h)
    · exact Or.inl h
    · exact Or.inr ⟨h.2, h.1⟩

theorem nodup_sSymDiff (s t : S κ) (hs : s.Nodup) (ht : t.Nodup) : (sSymDiff s t).Nodup := by
  unfold sSymDiff
  rw [List.nodup_append]
  refine ⟨nodup_filter hs, nodup_filter ht, ?_⟩
  intro a ha b hb hab
  subst hab
  have h1 := (List.mem_filter.mp ha).1
  have h2 := (List.mem_filter.mp hb).2
  have hc : s.contains a = true := List.contains_iff_mem.mpr h1
  rw [hc] at h2
  exact absurd h2 (by decide)

/-- `hashset-difference` = `symmetric_difference` (feature `imbl`) -/
theorem SetRel.symDiff {p1 s1 p2 s2 : List κ} (h1 : SetRel p1 s1) (h2 : SetRel p2 s2) :
    SetRel (Prim.imblSymDiff p1 p2) (sSymDiff s1 s2) :=
  ⟨nodup_fold_sym p2 p1 h1.1, nodup_sSymDiff s1 s2 h1.2.1 h2.2.1, fun x => by
    unfold Prim.imblSymDiff
    rw [mem_fold_sym x p2 p1 h2.1, mem_sSymDiff, h1.2.2, h2.2.2]⟩

theorem SetRel.subset {p1 s1 p2 s2 : List κ} (h1 : SetRel p1 s1) (h2 : SetRel p2 s2) :
    Prim.imblSubset p1 p2 = sSubset s1 s2 := by
  unfold Prim.imblSubset sSubset
  rw [Bool.eq_iff_iff, List.all_eq_true, List.all_eq_true]
  simp only [List.contains_iff_mem]
  constructor
  · intro h x hx; exact (h2.2.2 x).mp (h x ((h1.2.2 x).mpr hx))
  · intro h x hx; exact (h2.2.2 x).mpr (h x ((h1.2.2 x).mp hx))

end
end SteelVerif.C11
