/-
C11 helper lemmas, part 2: the specification is reflexive on well-formed NaN-free graphs, and values
with equal unfoldings hash alike (for the fixed configuration).
-/
import SteelVerif.C11.Lemmas
namespace SteelVerif.C11

def NoNaN (g : Graph) : Prop := noNaNB g = true
def KeysDistinct (g : Graph) : Prop := keysDistinctB g = true
/-- lists with the same (storage, index, next) have the same elements -/
def ListSigOK (g : Graph) : Prop := listSigB g = true

instance (g : Graph) : Decidable (NoNaN g) := inferInstanceAs (Decidable (_ = _))
instance (g : Graph) : Decidable (KeysDistinct g) := inferInstanceAs (Decidable (_ = _))
instance (g : Graph) : Decidable (ListSigOK g) := inferInstanceAs (Decidable (_ = _))

/-! ## leaves -/

theorem fEq_self {b : Nat} (h : fIsNaN b = false) : fEq b b = true := by
  simp [fEq, h]

theorem leafEqSpec_refl (x : Leaf) (h : leafNoNaN (.leaf x) = true) : leafEqSpec x x = true := by
  cases x <;> simp [leafEqSpec]
  case flt b =>
    simp [leafNoNaN] at h
    exact fEq_self h

theorem leafEqSpec_hash (x y : Leaf) (h : leafEqSpec x y = true) : leafHash true x y = true := by
  cases x <;> cases y <;> simp_all [leafEqSpec, leafHash]
  case flt.flt a b =>
    simp only [fEq, Bool.and_eq_true, Bool.or_eq_true, Bool.not_eq_true', beq_iff_eq] at h
    rcases h with ⟨_, h⟩
    rcases h with h | h
    · exact Or.inl (Or.inr h)
    · exact Or.inr h

/-- under the fixed configuration the worklist compares leaves the way the specification does -/
theorem leafEqWork_fixed (x y : Leaf) : leafEqWork Cfg.fixed x y = leafEqSpec x y := by
  cases x <;> cases y <;> simp [leafEqWork, leafEqSpec, Cfg.fixed] <;>
    (rw [Bool.eq_iff_iff]; simp)

/-! ## reflexivity -/

theorem keysDistinct_node {g : Graph} (hk : KeysDistinct g) {i : Nat} (hi : i < g.length)
    {es : List (Nat × Nat)} (hn : g.node i = .map es) :
    ∀ a b : Nat, a < es.length → b < es.length → a ≠ b →
      eqSpec g (es.getD a (0, 0)).1 (es.getD b (0, 0)).1 = false := by
  intro a b ha hb hab
  have h := hk
  unfold KeysDistinct keysDistinctB at h
  rw [List.all_eq_true] at h
  have h1 := h _ (node_mem g hi)
  rw [hn] at h1
  simp only [List.all_eq_true, List.mem_range] at h1
  have h2 := h1 a ha b hb
  simp only [Bool.or_eq_true, beq_iff_eq, Bool.not_eq_true'] at h2
  rcases h2 with h2 | h2
  · exact absurd h2 hab
  · exact h2

theorem mem_getD {α : Type} {l : List α} {x : α} (d : α) (h : x ∈ l) : ∃ i, i < l.length ∧ l.getD i d = x := by
  obtain ⟨i, hi, hx⟩ := List.mem_iff_getElem.mp h
  refine ⟨i, hi, ?_⟩
  rw [List.getD_eq_getElem?_getD, List.getElem?_eq_getElem hi]
  exact hx

theorem spec_refl {g : Graph} (hwf : WF g) (hn : NoNaN g) (hk : KeysDistinct g) :
    ∀ a, a < g.length → eqSpec g a a = true := by
  intro a
  induction a using Nat.strongRecOn with
  | _ a ih =>
    intro ha
    unfold eqSpec
    rw [rel_unfold specCfg hwf ha]
    have hc : ∀ x ∈ children (g.node a), rel specCfg g x x = true := fun x hx =>
      ih x (children_lt hwf hx) (Nat.lt_trans (children_lt hwf hx) ha)
    have hleaf : leafNoNaN (g.node a) = true := by
      have h := hn
      unfold NoNaN noNaNB at h
      rw [List.all_eq_true] at h
      exact h _ (node_mem g ha)
    cases hnode : g.node a <;> rw [hnode] at hc hleaf <;> simp only [relBody, children] at hc ⊢
    case leaf x => exact leafEqSpec_refl x hleaf
    case list xs _ => exact all2_refl xs hc
    case pair x y => simp [hc x (by simp), hc y (by simp)]
    case vec xs => exact all2_refl xs hc
    case mvec xs => exact all2_refl xs hc
    case struct t xs => simp [all2_refl xs hc]
    case box x => exact hc x (by simp)
    case set xs =>
      have hmode : specCfg.mode = MapMode.lookup := rfl
      rw [hmode]
      simp only [setRel, beq_self_eq_true, Bool.true_and, List.all_eq_true, List.any_eq_true]
      intro x hx
      exact ⟨x, hx, hc x hx⟩
    case map es =>
      have hmode : specCfg.mode = MapMode.lookup := rfl
      rw [hmode]
      simp only [mapRel, beq_self_eq_true, Bool.true_and, List.all_eq_true]
      intro e he
      have hkey : rel specCfg g e.1 e.1 = true := hc e.1 (List.mem_append_left _ (List.mem_map_of_mem he))
      have hval : rel specCfg g e.2 e.2 = true := hc e.2 (List.mem_append_right _ (List.mem_map_of_mem he))
      cases hf : es.find? (fun e' => rel specCfg g e.1 e'.1) with
      | none =>
        rw [List.find?_eq_none] at hf
        exact absurd hkey (hf e he)
      | some e' =>
        have hp := List.find?_some hf
        have hm := List.mem_of_find?_eq_some hf
        obtain ⟨i, hi, hei⟩ := mem_getD (0, 0) he
        obtain ⟨j, hj, hej⟩ := mem_getD (0, 0) hm
        by_cases hij : i = j
        · subst hij
          rw [hei] at hej
          subst hej
          exact hval
        · have := keysDistinct_node hk ha hnode i j hi hj hij
          rw [hei, hej] at this
          unfold eqSpec at this
          simp only [this] at hp
          exact absurd hp (by simp)

/-! ## equal unfoldings hash alike -/

theorem relBody_spec_hash {r r' : Nat → Nat → Bool} (h : ∀ x y, r x y = true → r' x y = true)
    (n m : Node) (hb : relBody specCfg r n m = true) : relBody (hashCfg Cfg.fixed) r' n m = true := by
  cases n <;> cases m <;> simp only [relBody, specCfg, hashCfg, Cfg.fixed, if_true, Bool.true_and] at hb ⊢ <;>
    try exact hb
  case leaf.leaf x y => exact leafEqSpec_hash x y hb
  case list.list xs _ ys _ => exact all2_mono h _ _ hb
  case pair.pair a b c d =>
    simp only [Bool.and_eq_true] at hb ⊢
    exact ⟨h _ _ hb.1, h _ _ hb.2⟩
  case vec.vec xs ys => exact all2_mono h _ _ hb
  case mvec.mvec xs ys => exact all2_mono h _ _ hb
  case vec.mvec xs ys => exact all2_mono h _ _ hb
  case mvec.vec xs ys => exact all2_mono h _ _ hb
  case struct.struct t xs u ys =>
    simp only [Bool.and_eq_true] at hb ⊢
    exact ⟨hb.1, all2_mono h _ _ hb.2⟩
  case box.box a b => exact h _ _ hb
  case map.map es fs =>
    simp only [mapRel, Bool.and_eq_true, List.all_eq_true, List.any_eq_true] at hb ⊢
    refine ⟨hb.1, ?_⟩
    intro e he
    have h1 := hb.2 e he
    cases hf : fs.find? (fun e' => r e.1 e'.1) with
    | none => rw [hf] at h1; exact absurd h1 (by simp)
    | some e' =>
      rw [hf] at h1
      have hp : r e.1 e'.1 = true := List.find?_some (p := fun e' : Nat × Nat => r e.1 e'.1) hf
      exact ⟨e', List.mem_of_find?_eq_some hf, h _ _ hp, h _ _ h1⟩
  case set.set xs ys =>
    simp only [setRel, Bool.and_eq_true, List.all_eq_true, List.any_eq_true] at hb ⊢
    refine ⟨hb.1, ?_⟩
    intro x hx
    obtain ⟨y, hy, hxy⟩ := hb.2 x hx
    exact ⟨y, hy, h _ _ hxy⟩

theorem relF_spec_hash (g : Graph) :
    ∀ (f : Nat) (a b : Nat), relF specCfg g f a b = true → relF (hashCfg Cfg.fixed) g f a b = true
  | 0, _, _, h => by simp [relF] at h
  | f + 1, a, b, h => by
      simp only [relF] at h ⊢
      exact relBody_spec_hash (relF_spec_hash g f) _ _ h

end SteelVerif.C11
