/-
C11 helper lemmas, part 6: the specification is symmetric and transitive on ALL well-formed graphs, through
hash maps and hash sets, when the keys of every hash map and the members of every hash set are pairwise
different values (`KeysDistinct`, `MembersDistinct`).  The heart is a counting argument (`cover_symm`): a
relation-preserving map from a list of pairwise unrelated elements into a list that is not longer hits
every element of that list.
-/
import SteelVerif.C11.LemmasEquiv
namespace SteelVerif.C11

def MembersDistinct (g : Graph) : Prop := membersDistinctB g = true
instance (g : Graph) : Decidable (MembersDistinct g) := inferInstanceAs (Decidable (_ = _))

theorem membersDistinct_node {g : Graph} (hm : MembersDistinct g) {i : Nat} (hi : i < g.length)
    {xs : List Nat} (hn : g.node i = .set xs) :
    ∀ a b : Nat, a < xs.length → b < xs.length → a ≠ b →
      eqSpec g (xs.getD a 0) (xs.getD b 0) = false := by
  intro a b ha hb hab
  have h := hm
  unfold MembersDistinct membersDistinctB at h
  rw [List.all_eq_true] at h
  have h1 := h _ (node_mem g hi)
  rw [hn] at h1
  simp only [List.all_eq_true, List.mem_range] at h1
  have h2 := h1 a ha b hb
  simp only [Bool.or_eq_true, beq_iff_eq, Bool.not_eq_true'] at h2
  rcases h2 with h2 | h2
  · exact absurd h2 hab
  · exact h2

/-! ## lists: the counting argument -/

theorem pairwise_mem {α : Type} {R : α → α → Prop} :
    ∀ {l : List α}, l.Pairwise R → ∀ {a b : α}, a ∈ l → b ∈ l → a = b ∨ R a b ∨ R b a
  | [], _, _, _, ha, _ => by cases ha
  | x :: l, h, a, b, ha, hb => by
      rw [List.pairwise_cons] at h
      rcases List.mem_cons.mp ha with ha' | ha' <;> rcases List.mem_cons.mp hb with hb' | hb'
      · exact Or.inl (ha'.trans hb'.symm)
      · rw [ha']; exact Or.inr (Or.inl (h.1 _ hb'))
      · rw [hb']; exact Or.inr (Or.inr (h.1 _ ha'))
      · exact pairwise_mem h.2 ha' hb'

/-- **Counting**: `xs` pairwise unrelated, `ys` not longer than `xs`, every `x` related to some `y`: then
    every `y` is related to some `x` (`R` symmetric and transitive on the elements involved). -/
theorem cover_symm {α : Type} (P : α → Prop) (R : α → α → Bool)
    (hs : ∀ u v, P u → P v → R u v = R v u)
    (ht : ∀ u v w, P u → P v → P w → R u v = true → R v w = true → R u w = true) :
    ∀ (xs ys : List α), (∀ x ∈ xs, P x) → (∀ y ∈ ys, P y) → xs.Pairwise (fun u v => R u v = false) →
      ys.length ≤ xs.length → (∀ x ∈ xs, ∃ y ∈ ys, R x y = true) → ∀ y ∈ ys, ∃ x ∈ xs, R y x = true := by
  intro xs
  induction xs with
  | nil =>
    intro ys _ _ _ hl _ y hy
    have : ys = [] := List.eq_nil_of_length_eq_zero (by simpa using hl)
    subst this
    cases hy
  | cons x xs ih =>
    intro ys hPx hPy hd hl hcov y hy
    rw [List.pairwise_cons] at hd
    obtain ⟨y0, hy0, hxy0⟩ := hcov x (List.mem_cons_self ..)
    obtain ⟨l1, l2, hsplit⟩ := List.append_of_mem hy0
    subst hsplit
    have hPx0 : P x := hPx x (List.mem_cons_self ..)
    have hPy0 : P y0 := hPy y0 hy0
    have hcov' : ∀ x' ∈ xs, ∃ y ∈ l1 ++ l2, R x' y = true := by
      intro x' hx'
      obtain ⟨y', hy', hxy'⟩ := hcov x' (List.mem_cons_of_mem _ hx')
      have hPx' : P x' := hPx x' (List.mem_cons_of_mem _ hx')
      rcases List.mem_append.mp hy' with h | h
      · exact ⟨y', List.mem_append_left _ h, hxy'⟩
      · rcases List.mem_cons.mp h with h | h
        · exfalso
          rw [h] at hxy'
          have h1 : R y0 x' = true := by rw [hs y0 x' hPy0 hPx']; exact hxy'
          have h2 := ht x y0 x' hPx0 hPy0 hPx' hxy0 h1
          rw [hd.1 x' hx'] at h2
          cases h2
        · exact ⟨y', List.mem_append_right _ h, hxy'⟩
    have hl' : (l1 ++ l2).length ≤ xs.length := by
      simp only [List.length_append, List.length_cons] at hl ⊢
      omega
    have hPy' : ∀ z ∈ l1 ++ l2, P z := by
      intro z hz
      rcases List.mem_append.mp hz with h | h
      · exact hPy z (List.mem_append_left _ h)
      · exact hPy z (List.mem_append_right _ (List.mem_cons_of_mem _ h))
    have ih' := ih (l1 ++ l2) (fun z hz => hPx z (List.mem_cons_of_mem _ hz)) hPy' hd.2 hl' hcov'
    rcases List.mem_append.mp hy with h | h
    · obtain ⟨x', hx', hr⟩ := ih' y (List.mem_append_left _ h)
      exact ⟨x', List.mem_cons_of_mem _ hx', hr⟩
    · rcases List.mem_cons.mp h with h | h
      · refine ⟨x, List.mem_cons_self .., ?_⟩
        rw [h, hs y0 x hPy0 hPx0]
        exact hxy0
      · obtain ⟨x', hx', hr⟩ := ih' y (List.mem_append_right _ h)
        exact ⟨x', List.mem_cons_of_mem _ hx', hr⟩

/-! ## hash sets and hash maps, relative to a relation that is symmetric and transitive on the children -/

theorem setRel_iff (r : Nat → Nat → Bool) (xs ys : List Nat) :
    setRel .lookup r xs ys = true ↔ xs.length = ys.length ∧ ∀ x ∈ xs, ∃ y ∈ ys, r x y = true := by
  simp only [setRel, Bool.and_eq_true, beq_iff_eq, List.all_eq_true, List.any_eq_true]

theorem mapRel_cov (r : Nat → Nat → Bool) (es fs : List (Nat × Nat)) (h : mapRel .lookup r es fs = true) :
    es.length = fs.length ∧ ∀ e ∈ es, ∃ e' ∈ fs, r e.1 e'.1 = true ∧ r e.2 e'.2 = true := by
  simp only [mapRel, Bool.and_eq_true, beq_iff_eq, List.all_eq_true] at h
  refine ⟨h.1, fun e he => ?_⟩
  have h1 := h.2 e he
  cases hf : fs.find? (fun e' => r e.1 e'.1) with
  | none => rw [hf] at h1; exact absurd h1 (by simp)
  | some e' =>
    rw [hf] at h1
    have hp : r e.1 e'.1 = true := List.find?_some (p := fun e' : Nat × Nat => r e.1 e'.1) hf
    exact ⟨e', List.mem_of_find?_eq_some hf, hp, h1⟩

/-- under key-distinctness of `fs`, `find?` returns THE entry whose key is related -/
theorem mapRel_iff(P : Nat → Prop) (r : Nat → Nat → Bool)
    (hs : ∀ u v, P u → P v → r u v = r v u)
    (ht : ∀ u v w, P u → P v → P w → r u v = true → r v w = true → r u w = true)
    (es fs : List (Nat × Nat)) (hPe : ∀ e ∈ es, P e.1) (hPf : ∀ e ∈ fs, P e.1)
    (hd : fs.Pairwise (fun e e' => r e.1 e'.1 = false ∧ r e'.1 e.1 = false)) :
    mapRel .lookup r es fs = true ↔
      es.length = fs.length ∧ ∀ e ∈ es, ∃ e' ∈ fs, r e.1 e'.1 = true ∧ r e.2 e'.2 = true := by
  constructor
  · exact mapRel_cov r es fs
  · intro h
    simp only [mapRel, Bool.and_eq_true, beq_iff_eq, List.all_eq_true]
    refine ⟨h.1, fun e he => ?_⟩
    obtain ⟨e', he', hk', hv'⟩ := h.2 e he
    cases hf : fs.find? (fun e' => r e.1 e'.1) with
    | none =>
      rw [List.find?_eq_none] at hf
      exact absurd hk' (hf e' he')
    | some e'' =>
      have hp : r e.1 e''.1 = true := List.find?_some (p := fun e' : Nat × Nat => r e.1 e'.1) hf
      have he'' := List.mem_of_find?_eq_some hf
      have h1 : r e'.1 e.1 = true := by rw [hs e'.1 e.1 (hPf e' he') (hPe e he)]; exact hk'
      have h2 : r e'.1 e''.1 = true := ht e'.1 e.1 e''.1 (hPf e' he') (hPe e he) (hPf e'' he'') h1 hp
      rcases pairwise_mem hd he' he'' with h | h | h
      · rw [← h]; exact hv'
      · rw [h.1] at h2; cases h2
      · rw [h.2] at h2; cases h2

theorem mapCov_symm (P : Nat → Prop) (r : Nat → Nat → Bool)
    (hs : ∀ u v, P u → P v → r u v = r v u)
    (ht : ∀ u v w, P u → P v → P w → r u v = true → r v w = true → r u w = true)
    (es fs : List (Nat × Nat)) (hPe : ∀ e ∈ es, P e.1 ∧ P e.2) (hPf : ∀ e ∈ fs, P e.1 ∧ P e.2)
    (hd : es.Pairwise (fun e e' => r e.1 e'.1 = false ∧ r e'.1 e.1 = false))
    (hl : fs.length ≤ es.length)
    (hcov : ∀ e ∈ es, ∃ e' ∈ fs, r e.1 e'.1 = true ∧ r e.2 e'.2 = true) :
    ∀ e' ∈ fs, ∃ e ∈ es, r e'.1 e.1 = true ∧ r e'.2 e.2 = true := by
  have key := cover_symm (fun e : Nat × Nat => P e.1 ∧ P e.2) (fun e e' => r e.1 e'.1 && r e.2 e'.2)
    (fun u v hu hv => by
      show (r u.1 v.1 && r u.2 v.2) = (r v.1 u.1 && r v.2 u.2)
      rw [hs u.1 v.1 hu.1 hv.1, hs u.2 v.2 hu.2 hv.2])
    (fun u v w hu hv hw h1 h2 => by
      simp only [Bool.and_eq_true] at h1 h2 ⊢
      exact ⟨ht _ _ _ hu.1 hv.1 hw.1 h1.1 h2.1, ht _ _ _ hu.2 hv.2 hw.2 h1.2 h2.2⟩)
    es fs hPe hPf
    (hd.imp (fun h => by simp [h.1])) hl
    (fun e he => by
      obtain ⟨e', he', h1, h2⟩ := hcov e he
      exact ⟨e', he', by simp [h1, h2]⟩)
  intro e' he'
  obtain ⟨e, he, h⟩ := key e' he'
  simp only [Bool.and_eq_true] at h
  exact ⟨e, he, h.1, h.2⟩

/-! ## node classes -/

/-- leaf / ordered container / hash map / hash set -/
def ncls : Node → Nat
  | .leaf _ => 0
  | .map _ => 2
  | .set _ => 3
  | _ => 1

theorem relBody_cls (r : Nat → Nat → Bool) (n m : Node) (h : relBody specCfg r n m = true) :
    ncls n = ncls m := by
  cases n <;> cases m <;> first | rfl | (simp [relBody] at h)

theorem node_cases (n : Node) :
    (∃ x, n = .leaf x) ∨ isOrdered n = true ∨ (∃ es, n = .map es) ∨ (∃ xs, n = .set xs) := by
  cases n <;> simp [isOrdered]

theorem ncls_leaf {n : Node} (h : ncls n = 0) : ∃ x, n = .leaf x := by
  cases n <;> simp [ncls] at h ⊢

theorem ncls_ord {n : Node} (h : ncls n = 1) : isOrdered n = true := by
  cases n <;> simp [ncls, isOrdered] at h ⊢

theorem ncls_map {n : Node} (h : ncls n = 2) : ∃ es, n = .map es := by
  cases n <;> simp [ncls] at h ⊢

theorem ncls_set {n : Node} (h : ncls n = 3) : ∃ xs, n = .set xs := by
  cases n <;> simp [ncls] at h ⊢

theorem ncls_of_ord {n : Node} (h : isOrdered n = true) : ncls n = 1 := by
  cases n <;> simp [ncls, isOrdered] at h ⊢

/-- the keys of a hash map node / the members of a hash set node are pairwise unrelated -/
def NodeDistinct (r : Nat → Nat → Bool) : Node → Prop
  | .map es => es.Pairwise (fun e e' => r e.1 e'.1 = false ∧ r e'.1 e.1 = false)
  | .set xs => xs.Pairwise (fun u v => r u v = false ∧ r v u = false)
  | _ => True

theorem relBody_symm_imp (P : Nat → Prop) (r : Nat → Nat → Bool)
    (hs : ∀ u v, P u → P v → r u v = r v u)
    (ht : ∀ u v w, P u → P v → P w → r u v = true → r v w = true → r u w = true)
    (n m : Node) (hPn : ∀ x ∈ children n, P x) (hPm : ∀ x ∈ children m, P x)
    (hdn : NodeDistinct r n) (hdm : NodeDistinct r m)
    (h : relBody specCfg r n m = true) : relBody specCfg r m n = true := by
  have hc := relBody_cls r n m h
  rcases node_cases n with ⟨x, rfl⟩ | hon | ⟨es, rfl⟩ | ⟨xs, rfl⟩
  · obtain ⟨y, rfl⟩ := ncls_leaf hc.symm
    simp only [relBody, specCfg] at h ⊢
    rw [leafEqSpec_symm]
    exact h
  · have hom : isOrdered m = true := ncls_ord (by rw [← hc]; exact ncls_of_ord hon)
    rw [relBody_ordered _ _ _ hon hom] at h
    rw [relBody_ordered _ _ _ hom hon]
    simp only [Bool.and_eq_true, beq_iff_eq] at h ⊢
    refine ⟨h.1.symm, ?_⟩
    rw [all2_symm _ _ (fun x hx y hy => hs x y (hPm x hx) (hPn y hy))]
    exact h.2
  · obtain ⟨fs, rfl⟩ := ncls_map hc.symm
    change mapRel MapMode.lookup r es fs = true at h
    change mapRel MapMode.lookup r fs es = true
    have hPe : ∀ e ∈ es, P e.1 ∧ P e.2 := fun e he =>
      ⟨hPn e.1 (List.mem_append_left _ (List.mem_map_of_mem he)),
       hPn e.2 (List.mem_append_right _ (List.mem_map_of_mem he))⟩
    have hPf : ∀ e ∈ fs, P e.1 ∧ P e.2 := fun e he =>
      ⟨hPm e.1 (List.mem_append_left _ (List.mem_map_of_mem he)),
       hPm e.2 (List.mem_append_right _ (List.mem_map_of_mem he))⟩
    rw [mapRel_iff P r hs ht es fs (fun e he => (hPe e he).1) (fun e he => (hPf e he).1) hdm] at h
    rw [mapRel_iff P r hs ht fs es (fun e he => (hPf e he).1) (fun e he => (hPe e he).1) hdn]
    exact ⟨h.1.symm, mapCov_symm P r hs ht es fs hPe hPf hdn (by omega) h.2⟩
  · obtain ⟨ys, rfl⟩ := ncls_set hc.symm
    change setRel MapMode.lookup r xs ys = true at h
    change setRel MapMode.lookup r ys xs = true
    rw [setRel_iff] at h ⊢
    exact ⟨h.1.symm, cover_symm P r hs ht xs ys hPn hPm (hdn.imp (fun h => h.1)) (by omega) h.2⟩

theorem relBody_trans_imp (P : Nat → Prop) (r : Nat → Nat → Bool)
    (hs : ∀ u v, P u → P v → r u v = r v u)
    (ht : ∀ u v w, P u → P v → P w → r u v = true → r v w = true → r u w = true)
    (n m k : Node) (hPn : ∀ x ∈ children n, P x) (hPm : ∀ x ∈ children m, P x) (hPk : ∀ x ∈ children k, P x)
    (hdk : NodeDistinct r k)
    (h1 : relBody specCfg r n m = true) (h2 : relBody specCfg r m k = true) : relBody specCfg r n k = true := by
  have hc1 := relBody_cls r n m h1
  have hc2 := relBody_cls r m k h2
  rcases node_cases n with ⟨x, rfl⟩ | hon | ⟨es, rfl⟩ | ⟨xs, rfl⟩
  · obtain ⟨y, rfl⟩ := ncls_leaf hc1.symm
    obtain ⟨z, rfl⟩ := ncls_leaf hc2.symm
    simp only [relBody, specCfg] at h1 h2 ⊢
    exact leafEqSpec_trans x y z h1 h2
  · have hom : isOrdered m = true := ncls_ord (by rw [← hc1]; exact ncls_of_ord hon)
    have hok : isOrdered k = true := ncls_ord (by rw [← hc2]; exact ncls_of_ord hom)
    rw [relBody_ordered _ _ _ hon hom] at h1
    rw [relBody_ordered _ _ _ hom hok] at h2
    rw [relBody_ordered _ _ _ hon hok]
    simp only [Bool.and_eq_true, beq_iff_eq] at h1 h2 ⊢
    refine ⟨h1.1.trans h2.1, ?_⟩
    apply all2_trans _ _ _ _ h1.2 h2.2
    intro x hx y hy z hz hxy hyz
    exact ht x y z (hPn x hx) (hPm y hy) (hPk z hz) hxy hyz
  · obtain ⟨fs, rfl⟩ := ncls_map hc1.symm
    obtain ⟨ks, rfl⟩ := ncls_map hc2.symm
    change mapRel MapMode.lookup r es fs = true at h1
    change mapRel MapMode.lookup r fs ks = true at h2
    change mapRel MapMode.lookup r es ks = true
    have hPe : ∀ e ∈ es, P e.1 ∧ P e.2 := fun e he =>
      ⟨hPn e.1 (List.mem_append_left _ (List.mem_map_of_mem he)),
       hPn e.2 (List.mem_append_right _ (List.mem_map_of_mem he))⟩
    have hPf : ∀ e ∈ fs, P e.1 ∧ P e.2 := fun e he =>
      ⟨hPm e.1 (List.mem_append_left _ (List.mem_map_of_mem he)),
       hPm e.2 (List.mem_append_right _ (List.mem_map_of_mem he))⟩
    have hPks : ∀ e ∈ ks, P e.1 ∧ P e.2 := fun e he =>
      ⟨hPk e.1 (List.mem_append_left _ (List.mem_map_of_mem he)),
       hPk e.2 (List.mem_append_right _ (List.mem_map_of_mem he))⟩
    have h1' := mapRel_cov r es fs h1
    have h2' := mapRel_cov r fs ks h2
    rw [mapRel_iff P r hs ht es ks (fun e he => (hPe e he).1) (fun e he => (hPks e he).1) hdk]
    refine ⟨h1'.1.trans h2'.1, ?_⟩
    intro e he
    obtain ⟨e', he', hk1, hv1⟩ := h1'.2 e he
    obtain ⟨e'', he'', hk2, hv2⟩ := h2'.2 e' he'
    exact ⟨e'', he'', ht _ _ _ (hPe e he).1 (hPf e' he').1 (hPks e'' he'').1 hk1 hk2,
      ht _ _ _ (hPe e he).2 (hPf e' he').2 (hPks e'' he'').2 hv1 hv2⟩
  · obtain ⟨ys, rfl⟩ := ncls_set hc1.symm
    obtain ⟨zs, rfl⟩ := ncls_set hc2.symm
    change setRel MapMode.lookup r xs ys = true at h1
    change setRel MapMode.lookup r ys zs = true at h2
    change setRel MapMode.lookup r xs zs = true
    rw [setRel_iff] at h1 h2 ⊢
    refine ⟨h1.1.trans h2.1, ?_⟩
    intro x hx
    obtain ⟨y, hy, hxy⟩ := h1.2 x hx
    obtain ⟨z, hz, hyz⟩ := h2.2 y hy
    exact ⟨z, hz, ht x y z (hPn x hx) (hPm y hy) (hPk z hz) hxy hyz⟩

/-! ## the specification is an equivalence relation through hash maps and hash sets -/

theorem nodeDistinct_of_guards {g : Graph} (hk : KeysDistinct g) (hm : MembersDistinct g) {i : Nat}
    (hi : i < g.length) : NodeDistinct (rel specCfg g) (g.node i) := by
  cases hn : g.node i <;> simp only [NodeDistinct]
  case map es =>
    rw [List.pairwise_iff_getElem]
    intro a b ha hb hab
    have h1 := keysDistinct_node hk hi hn a b ha hb (by omega)
    have h2 := keysDistinct_node hk hi hn b a hb ha (by omega)
    unfold eqSpec at h1 h2
    simp only [List.getD_eq_getElem?_getD, List.getElem?_eq_getElem ha, List.getElem?_eq_getElem hb,
      Option.getD_some] at h1 h2
    exact ⟨h1, h2⟩
  case set xs =>
    rw [List.pairwise_iff_getElem]
    intro a b ha hb hab
    have h1 := membersDistinct_node hm hi hn a b ha hb (by omega)
    have h2 := membersDistinct_node hm hi hn b a hb ha (by omega)
    unfold eqSpec at h1 h2
    simp only [List.getD_eq_getElem?_getD, List.getElem?_eq_getElem ha, List.getElem?_eq_getElem hb,
      Option.getD_some] at h1 h2
    exact ⟨h1, h2⟩

/-- symmetry and transitivity together, for all nodes below `n` -/
theorem spec_equiv_aux {g : Graph} (hwf : WF g) (hk : KeysDistinct g) (hm : MembersDistinct g) :
    ∀ n, n ≤ g.length →
      (∀ a b, a < n → b < n → rel specCfg g a b = rel specCfg g b a) ∧
      (∀ a b c, a < n → b < n → c < n →
        rel specCfg g a b = true → rel specCfg g b c = true → rel specCfg g a c = true) := by
  intro n
  induction n with
  | zero =>
    intro _
    exact ⟨fun a b ha => absurd ha (Nat.not_lt_zero _), fun a b c ha => absurd ha (Nat.not_lt_zero _)⟩
  | succ n ih =>
    intro hn
    obtain ⟨ihs, iht⟩ := ih (by omega)
    have hP : ∀ a, a < n + 1 → ∀ x ∈ children (g.node a), x < n := fun a ha x hx => by
      have := children_lt hwf hx
      omega
    have imp : ∀ a b, a < n + 1 → b < n + 1 → rel specCfg g a b = true → rel specCfg g b a = true := by
      intro a b ha hb h
      rw [rel_unfold specCfg hwf (by omega : a < g.length)] at h
      rw [rel_unfold specCfg hwf (by omega : b < g.length)]
      exact relBody_symm_imp (fun x => x < n) (rel specCfg g) ihs iht _ _ (hP a ha) (hP b hb)
        (nodeDistinct_of_guards hk hm (by omega)) (nodeDistinct_of_guards hk hm (by omega)) h
    constructor
    · intro a b ha hb
      rw [Bool.eq_iff_iff]
      exact ⟨imp a b ha hb, imp b a hb ha⟩
    · intro a b c ha hb hc h1 h2
      rw [rel_unfold specCfg hwf (by omega : a < g.length)] at h1 ⊢
      rw [rel_unfold specCfg hwf (by omega : b < g.length)] at h2
      exact relBody_trans_imp (fun x => x < n) (rel specCfg g) ihs iht _ _ _ (hP a ha) (hP b hb) (hP c hc)
        (nodeDistinct_of_guards hk hm (by omega)) h1 h2

/-- **S is symmetric** on all well-formed graphs whose hash maps have pairwise different keys and whose hash
    sets have pairwise different members. -/
theorem spec_symm_full {g : Graph} (hwf : WF g) (hk : KeysDistinct g) (hm : MembersDistinct g) :
    ∀ a b, a < g.length → b < g.length → eqSpec g a b = eqSpec g b a := by
  intro a b ha hb
  unfold eqSpec
  exact (spec_equiv_aux hwf hk hm g.length (Nat.le_refl _)).1 a b ha hb

/-- **S is transitive** on the same graphs. -/
theorem spec_trans_full {g : Graph} (hwf : WF g) (hk : KeysDistinct g) (hm : MembersDistinct g) :
    ∀ a b c, a < g.length → b < g.length → c < g.length →
      eqSpec g a b = true → eqSpec g b c = true → eqSpec g a c = true := by
  intro a b c ha hb hc h1 h2
  unfold eqSpec at h1 h2 ⊢
  exact (spec_equiv_aux hwf hk hm g.length (Nat.le_refl _)).2 a b c ha hb hc h1 h2

end SteelVerif.C11
