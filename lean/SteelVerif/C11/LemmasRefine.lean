/-
C11 helper lemmas, part 9: one step of the model P of the primitives refines the same step of the mathematical
model S, for every operation of the operation language; hence so does every operation sequence.
-/
import SteelVerif.C11.LemmasPrim
import SteelVerif.C11.LemmasPrimHash
import SteelVerif.C11.LemmasPrimStr
namespace SteelVerif.C11
open Coll

/-- answers agree: unordered collections (keys, values, members, the content of a hash map) up to permutation,
    everything else literally -/
def AnsRel (a b : Ans) : Prop :=
  match a, b with
  | .bag xs, .bag ys => xs.Perm ys
  | .map es, .map fs => es.Perm fs
  | _, _ => a = b

theorem AnsRel.of_eq {a b : Ans} (h : a = b) : AnsRel a b := by
  subst h
  cases a <;> simp [AnsRel]

/-- the abstraction relation between the registers of P and of S -/
def StRel (p s : St) : Prop :=
  MapRel p.cm s.cm ∧ SetRel p.cs s.cs ∧ p.cl = s.cl ∧ p.cv = s.cv ∧ p.ci = s.ci ∧ p.cb = s.cb ∧ p.ct = s.ct

theorem stRel_init : StRel {} {} := ⟨mapRel_nil, setRel_nil, rfl, rfl, rfl, rfl, rfl⟩

theorem mOfList_eq (kvs : List (Int × Int)) : mOfList kvs = kvs.foldl (fun m e => mInsert m e.1 e.2) [] := rfl

/-- a literal `(hash k v …)` argument: the same on both sides -/
theorem literal_map (ks vs : List Int) :
    OptRel (fun p' kvs => MapRel p' (mOfList kvs)) (Prim.hmConstruct [] ks vs) (mkPairs ks vs) :=
  construct_rel ks vs [] [] mapRel_nil

theorem step_refines (p s : St) (h : StRel p s) (op : Op) :
    StRel (stepP p op).1 (stepS s op).1 ∧ AnsRel (stepP p op).2 (stepS s op).2 := by
  obtain ⟨pcm, pcs, pcl, pcv, pci, pcb, pct⟩ := p
  obtain ⟨scm, scs, scl, scv, sci, scb, sct⟩ := s
  obtain ⟨hm, hs, hl, hv, hi, hb, ht⟩ := h
  simp only at hm hs hl hv hi hb ht
  subst hl hv hi hb ht
  cases op with
  | mNew ks vs =>
    have := literal_map ks vs
    simp only [stepP, stepS]
    cases h1 : Prim.hmConstruct [] ks vs <;> cases h2 : mkPairs ks vs <;> simp only [h1, h2, OptRel] at this ⊢
    · exact ⟨⟨hm, hs, rfl, rfl, rfl, rfl, rfl⟩, AnsRel.of_eq rfl⟩
    · exact ⟨⟨this, hs, rfl, rfl, rfl, rfl, rfl⟩, this.perm⟩
  | mInsert k v => exact ⟨⟨hm.insert k v, hs, rfl, rfl, rfl, rfl, rfl⟩, (hm.insert k v).perm⟩
  | mRemove k => exact ⟨⟨hm.remove k, hs, rfl, rfl, rfl, rfl, rfl⟩, (hm.remove k).perm⟩
  | mRef k =>
    refine ⟨⟨hm, hs, rfl, rfl, rfl, rfl, rfl⟩, AnsRel.of_eq ?_⟩
    simp only [stepP, stepS, hm.ref k]
  | mTryGet k =>
    refine ⟨⟨hm, hs, rfl, rfl, rfl, rfl, rfl⟩, AnsRel.of_eq ?_⟩
    simp only [stepP, stepS, hmGet_eq, hm.2.2 k]
  | mContains k =>
    refine ⟨⟨hm, hs, rfl, rfl, rfl, rfl, rfl⟩, AnsRel.of_eq ?_⟩
    simp only [stepP, stepS, hm.contains k]
  | mLen =>
    refine ⟨⟨hm, hs, rfl, rfl, rfl, rfl, rfl⟩, AnsRel.of_eq ?_⟩
    simp only [stepP, stepS, mLength, hm.perm.length_eq]
  | mKeys => exact ⟨⟨hm, hs, rfl, rfl, rfl, rfl, rfl⟩, hm.perm.map Prod.fst⟩
  | mValues => exact ⟨⟨hm, hs, rfl, rfl, rfl, rfl, rfl⟩, hm.perm.map Prod.snd⟩
  | mClear => exact ⟨⟨mapRel_nil, hs, rfl, rfl, rfl, rfl, rfl⟩, List.Perm.refl _⟩
  | mUnion regLeft ul ur ks vs =>
    have := literal_map ks vs
    simp only [stepP, stepS]
    cases h1 : Prim.hmConstruct [] ks vs <;> cases h2 : mkPairs ks vs <;> simp only [h1, h2, OptRel] at this ⊢
    · exact ⟨⟨hm, hs, rfl, rfl, rfl, rfl, rfl⟩, AnsRel.of_eq rfl⟩
    · cases regLeft
      · exact ⟨⟨this.union hm ul ur, hs, rfl, rfl, rfl, rfl, rfl⟩, (this.union hm ul ur).perm⟩
      · exact ⟨⟨hm.union this ul ur, hs, rfl, rfl, rfl, rfl, rfl⟩, (hm.union this ul ur).perm⟩
  | sNew ks => exact ⟨⟨hm, setRel_construct ks, rfl, rfl, rfl, rfl, rfl⟩, (setRel_construct ks).perm⟩
  | sInsert k => exact ⟨⟨hm, hs.insert k, rfl, rfl, rfl, rfl, rfl⟩, (hs.insert k).perm⟩
  | sContains k =>
    refine ⟨⟨hm, hs, rfl, rfl, rfl, rfl, rfl⟩, AnsRel.of_eq ?_⟩
    simp only [stepP, stepS, hs.contains k]
  | sLen =>
    refine ⟨⟨hm, hs, rfl, rfl, rfl, rfl, rfl⟩, AnsRel.of_eq ?_⟩
    simp only [stepP, stepS, sLength, hs.perm.length_eq]
  | sToList => exact ⟨⟨hm, hs, rfl, rfl, rfl, rfl, rfl⟩, hs.perm⟩
  | sClear => exact ⟨⟨hm, setRel_nil, rfl, rfl, rfl, rfl, rfl⟩, List.Perm.refl _⟩
  | sSubset regLeft ks =>
    refine ⟨⟨hm, hs, rfl, rfl, rfl, rfl, rfl⟩, AnsRel.of_eq ?_⟩
    cases regLeft
    · simp only [stepP, stepS, Bool.false_eq_true, if_false, (setRel_construct ks).subset hs]
    · simp only [stepP, stepS, if_true, hs.subset (setRel_construct ks)]
  | sUnion regLeft ks =>
    cases regLeft
    · exact ⟨⟨hm, (setRel_construct ks).union hs, rfl, rfl, rfl, rfl, rfl⟩, ((setRel_construct ks).union hs).perm⟩
    · exact ⟨⟨hm, hs.union (setRel_construct ks), rfl, rfl, rfl, rfl, rfl⟩, (hs.union (setRel_construct ks)).perm⟩
  | sInter regLeft ks =>
    cases regLeft
    · exact ⟨⟨hm, (setRel_construct ks).inter hs, rfl, rfl, rfl, rfl, rfl⟩, ((setRel_construct ks).inter hs).perm⟩
    · exact ⟨⟨hm, hs.inter (setRel_construct ks), rfl, rfl, rfl, rfl, rfl⟩, (hs.inter (setRel_construct ks)).perm⟩
  | sDiff regLeft ks =>
    cases regLeft
    · exact ⟨⟨hm, (setRel_construct ks).symDiff hs, rfl, rfl, rfl, rfl, rfl⟩, ((setRel_construct ks).symDiff hs).perm⟩
    · exact ⟨⟨hm, hs.symDiff (setRel_construct ks), rfl, rfl, rfl, rfl, rfl⟩, (hs.symDiff (setRel_construct ks)).perm⟩
  | lNew xs => exact ⟨⟨hm, hs, rfl, rfl, rfl, rfl, rfl⟩, AnsRel.of_eq rfl⟩
  | lLen => exact ⟨⟨hm, hs, rfl, rfl, rfl, rfl, rfl⟩, AnsRel.of_eq rfl⟩
  | lRef i => exact ⟨⟨hm, hs, rfl, rfl, rfl, rfl, rfl⟩, AnsRel.of_eq rfl⟩
  | lFirst =>
    simp only [stepP, stepS, first_eq]
    exact ⟨⟨hm, hs, rfl, rfl, rfl, rfl, rfl⟩, AnsRel.of_eq rfl⟩
  | lLast =>
    simp only [stepP, stepS, last_eq]
    exact ⟨⟨hm, hs, rfl, rfl, rfl, rfl, rfl⟩, AnsRel.of_eq rfl⟩
  | lRest =>
    simp only [stepP, stepS, rest_eq]
    exact ⟨⟨hm, hs, rfl, rfl, rfl, rfl, rfl⟩, AnsRel.of_eq rfl⟩
  | lTake n => exact ⟨⟨hm, hs, rfl, rfl, rfl, rfl, rfl⟩, AnsRel.of_eq rfl⟩
  | lTail n =>
    simp only [stepP, stepS, listTail_eq]
    exact ⟨⟨hm, hs, rfl, rfl, rfl, rfl, rfl⟩, AnsRel.of_eq rfl⟩
  | lDrop n =>
    simp only [stepP, stepS, drop_eq]
    exact ⟨⟨hm, hs, rfl, rfl, rfl, rfl, rfl⟩, AnsRel.of_eq rfl⟩
  | lAppend before after =>
    simp only [stepP, stepS, append_eq]
    exact ⟨⟨hm, hs, rfl, rfl, rfl, rfl, rfl⟩, AnsRel.of_eq rfl⟩
  | lReverse => exact ⟨⟨hm, hs, rfl, rfl, rfl, rfl, rfl⟩, AnsRel.of_eq rfl⟩
  | lCons x => exact ⟨⟨hm, hs, rfl, rfl, rfl, rfl, rfl⟩, AnsRel.of_eq rfl⟩
  | lRange lo hi =>
    simp only [stepP, stepS, range_eq]
    exact ⟨⟨hm, hs, rfl, rfl, rfl, rfl, rfl⟩, AnsRel.of_eq rfl⟩
  | vNew xs => exact ⟨⟨hm, hs, rfl, rfl, rfl, rfl, rfl⟩, AnsRel.of_eq rfl⟩
  | vLen => exact ⟨⟨hm, hs, rfl, rfl, rfl, rfl, rfl⟩, AnsRel.of_eq rfl⟩
  | vRef i =>
    simp only [stepP, stepS, vectorRef_eq]
    exact ⟨⟨hm, hs, rfl, rfl, rfl, rfl, rfl⟩, AnsRel.of_eq rfl⟩
  | vSet i x =>
    simp only [stepP, stepS, vectorSet_eq]
    exact ⟨⟨hm, hs, rfl, rfl, rfl, rfl, rfl⟩, AnsRel.of_eq rfl⟩
  | vPush x => exact ⟨⟨hm, hs, rfl, rfl, rfl, rfl, rfl⟩, AnsRel.of_eq rfl⟩
  | vAppend before after =>
    simp only [stepP, stepS, vectorAppend_eq]
    exact ⟨⟨hm, hs, rfl, rfl, rfl, rfl, rfl⟩, AnsRel.of_eq rfl⟩
  | iNew xs => exact ⟨⟨hm, hs, rfl, rfl, rfl, rfl, rfl⟩, AnsRel.of_eq rfl⟩
  | iLen => exact ⟨⟨hm, hs, rfl, rfl, rfl, rfl, rfl⟩, AnsRel.of_eq rfl⟩
  | iRef i =>
    simp only [stepP, stepS, ivRef_eq]
    exact ⟨⟨hm, hs, rfl, rfl, rfl, rfl, rfl⟩, AnsRel.of_eq rfl⟩
  | iPush x => exact ⟨⟨hm, hs, rfl, rfl, rfl, rfl, rfl⟩, AnsRel.of_eq rfl⟩
  | iSet u i x =>
    simp only [stepP, stepS, ivSet_eq]
    exact ⟨⟨hm, hs, rfl, rfl, rfl, rfl, rfl⟩, AnsRel.of_eq rfl⟩
  | iTake u n =>
    simp only [stepP, stepS, ivTake_eq]
    exact ⟨⟨hm, hs, rfl, rfl, rfl, rfl, rfl⟩, AnsRel.of_eq rfl⟩
  | iDrop u n =>
    simp only [stepP, stepS, ivDrop_eq]
    exact ⟨⟨hm, hs, rfl, rfl, rfl, rfl, rfl⟩, AnsRel.of_eq rfl⟩
  | iRest =>
    simp only [stepP, stepS, ivRest_eq]
    exact ⟨⟨hm, hs, rfl, rfl, rfl, rfl, rfl⟩, AnsRel.of_eq rfl⟩
  | iAppend before after =>
    simp only [stepP, stepS, ivAppend_eq]
    exact ⟨⟨hm, hs, rfl, rfl, rfl, rfl, rfl⟩, AnsRel.of_eq rfl⟩
  | bNew xs =>
    simp only [stepP, stepS, bytesNew_eq]
    exact ⟨⟨hm, hs, rfl, rfl, rfl, rfl, rfl⟩, AnsRel.of_eq rfl⟩
  | bLen => exact ⟨⟨hm, hs, rfl, rfl, rfl, rfl, rfl⟩, AnsRel.of_eq rfl⟩
  | bRef i =>
    simp only [stepP, stepS, bytesRef_eq]
    exact ⟨⟨hm, hs, rfl, rfl, rfl, rfl, rfl⟩, AnsRel.of_eq rfl⟩
  | bSet i x =>
    simp only [stepP, stepS, bytesSet_eq]
    exact ⟨⟨hm, hs, rfl, rfl, rfl, rfl, rfl⟩, AnsRel.of_eq rfl⟩
  | bPush x =>
    simp only [stepP, stepS, bytesPush_eq]
    exact ⟨⟨hm, hs, rfl, rfl, rfl, rfl, rfl⟩, AnsRel.of_eq rfl⟩
  | bAppend before after =>
    simp only [stepP, stepS, bytesAppend_eq]
    exact ⟨⟨hm, hs, rfl, rfl, rfl, rfl, rfl⟩, AnsRel.of_eq rfl⟩
  | tNew cs => exact ⟨⟨hm, hs, rfl, rfl, rfl, rfl, rfl⟩, AnsRel.of_eq rfl⟩
  | tLen => exact ⟨⟨hm, hs, rfl, rfl, rfl, rfl, rfl⟩, AnsRel.of_eq rfl⟩
  | tRef i =>
    simp only [stepP, stepS, stringRef_eq]
    exact ⟨⟨hm, hs, rfl, rfl, rfl, rfl, rfl⟩, AnsRel.of_eq rfl⟩
  | tSub i j =>
    simp only [stepP, stepS, substring_eq]
    exact ⟨⟨hm, hs, rfl, rfl, rfl, rfl, rfl⟩, AnsRel.of_eq rfl⟩
  | tToList i j =>
    simp only [stepP, stepS, stringToList_eq]
    exact ⟨⟨hm, hs, rfl, rfl, rfl, rfl, rfl⟩, AnsRel.of_eq rfl⟩
  | tAppend before after =>
    simp only [stepP, stepS, stringAppend_eq]
    exact ⟨⟨hm, hs, rfl, rfl, rfl, rfl, rfl⟩, AnsRel.of_eq rfl⟩

/-- two answer sequences agree: same length, related position by position -/
inductive AnsSeqRel : List Ans → List Ans → Prop
  | nil : AnsSeqRel [] []
  | cons {a b : Ans} {as bs : List Ans} : AnsRel a b → AnsSeqRel as bs → AnsSeqRel (a :: as) (b :: bs)

theorem run_refines_from : ∀ (ops : List Op) (p s : St), StRel p s →
    AnsSeqRel (runWith stepP p ops) (runWith stepS s ops)
  | [], _, _, _ => AnsSeqRel.nil
  | op :: ops, p, s, h => by
      have hs := step_refines p s h op
      simp only [runWith]
      exact AnsSeqRel.cons hs.2 (run_refines_from ops _ _ hs.1)

end SteelVerif.C11
