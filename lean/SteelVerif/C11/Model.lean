/-
C11 — `equal?` is structural, hashing agrees with it, collections behave as their models.

Model M of `crates/steel-core/src/rvals/cycles.rs` (`RecursiveEqualityHandler`, `impl PartialEq for SteelVal`)
and of `impl Hash for SteelVal` (`rvals.rs`), plus the specification S.

* Values are *graphs*: a heap of nodes with identities (`Nat` = index into the node list), so that the
  same Rust object can be reachable several times (sharing).  A definition may only mention earlier
  ids (`WF`), hence graphs are acyclic.
* `loop`/`eqImpl` transcribe the worklist of `RecursiveEqualityHandler::visit`: two stacks (the
  "queues" are `Vec`s used with `push`/`pop`, i.e. LIFO), the `visited` set, the pointer-equality
  short cuts, one arm per value kind, the length checks.  Everything that differs between the
  revisions of the code that this check has seen is a field of `Cfg`; `GenCfg.lean` (regenerated from
  /repo by `translate/c11_cfg.py` on every run) says which configuration the code currently has.
* `eqSpec` is equality of the unfoldings (two values are equal iff they have the same shape and equal
  leaves, regardless of sharing), numbers compared the way `equal?` compares them: same
  representation and same value (`1` and `1.0` differ), floats by IEEE `==` (so `0.0 = -0.0` and a
  NaN differs from everything – documented semantics).
* `hashEq` is the kernel of `impl Hash for SteelVal`: `hashEq a b` iff the two values feed the hasher
  the same stream (64-bit collisions are not modelled).
* The last part of the file models the collection primitives on `List`s.
-/
namespace SteelVerif.C11

-- node identities are indices into the node list (plain `Nat`)

/-! ## Leaves -/

inductive Leaf
  | int (i : Int)              -- IntV / BigNum (normalised: a value has exactly one of the two forms)
  | flt (bits : Nat)           -- NumV, as its IEEE-754 binary64 bit pattern
  | bool (b : Bool)
  | char (c : Nat)
  | str (s : String)
  | sym (s : String)
  | void
  | rat (n : Int) (d : Nat)    -- Rational (fits i32/i32) / BigRational; lowest terms, d > 1
  | bytes (bs : List Nat)      -- ByteVector
  deriving DecidableEq, Repr, Inhabited

def fIsNaN (b : Nat) : Bool := (b / 2 ^ 52) % 2048 == 2047 && b % 2 ^ 52 != 0
def fIsZero (b : Nat) : Bool := b % 2 ^ 63 == 0
/-- IEEE-754 `==` on bit patterns. -/
def fEq (a b : Nat) : Bool := !fIsNaN a && !fIsNaN b && (a == b || (fIsZero a && fIsZero b))

/-- `Rational` holds `Ratio<i32>`; larger ones are `BigRational`. -/
def ratIsBig (n : Int) (d : Nat) : Bool := n.natAbs ≥ 2 ^ 31 || d ≥ 2 ^ 31

/-- S on leaves: same kind, same value (floats: IEEE `==`). -/
def leafEqSpec : Leaf → Leaf → Bool
  | .flt a, .flt b => fEq a b
  | x, y => x == y

/-! ## Configuration: everything that differs between the code revisions seen so far -/

structure Cfg where
  /-- `visited` holds (left identity, right identity) pairs.  `false`: the left and the right identity
      are inserted separately and the pair is skipped when either was present (defect D10/K11a). -/
  pairKeyed : Bool
  /-- the immutable-vector arm `return false`s when the pair is not to be visited (K11a). -/
  vecRevisitFalse : Bool
  /-- worklist arms that exist besides the ones of the first revision (K11b). -/
  armRational : Bool
  armBigRational : Bool
  armComplex : Bool
  armByteVector : Bool
  armBoxedFunction : Bool
  /-- the list short cut (`ptr_eq || storage_ptr_eq ..`) also requires equal `next` pointers: sharing the
      element storage and the index of the FIRST node says nothing about the rest of the list (K11j). -/
  listShortcutChecksNext : Bool
  /-- lists are keyed in `visited` by the pointer of their head node; `false`: by `identity_tuple()` =
      (element storage of the first node, index), which different lists share (K11j). -/
  listVisitedByHead : Bool
  /-- the loop of the list arm that pairs up the elements rejects the two lists when two elements have
      different enum discriminants, without queueing them (seeded defect m1): wrong, because `equal?`
      has cross-kind arms (mutable vs immutable vector). -/
  listInnerKindReject : Bool
  /-- `0.0` and `-0.0` hash alike (K11c). -/
  hashZeroUnified : Bool
  /-- hash maps / hash sets hash independently of their iteration order (K11d). -/
  hashUnordered : Bool
  /-- mutable and immutable vectors hash alike (K11e). -/
  hashVecUnified : Bool
  deriving DecidableEq, Repr

/-- The configuration for which the property holds. -/
def Cfg.fixed : Cfg :=
  { pairKeyed := true, vecRevisitFalse := false, armRational := true, armBigRational := true,
    armComplex := true, armByteVector := true, armBoxedFunction := true,
    listShortcutChecksNext := true, listVisitedByHead := true, listInnerKindReject := false,
    hashZeroUnified := true, hashUnordered := true, hashVecUnified := true }

/-- The code as it was when this check was written (before the fixes of K11a–K11e). -/
def Cfg.legacy : Cfg :=
  { pairKeyed := false, vecRevisitFalse := true, armRational := false, armBigRational := false,
    armComplex := false, armByteVector := false, armBoxedFunction := false,
    listShortcutChecksNext := false, listVisitedByHead := false, listInnerKindReject := false,
    hashZeroUnified := false, hashUnordered := false, hashVecUnified := false }

/-- The code after the fixes of K11a–K11i, before the one of K11j. -/
def Cfg.k11j : Cfg := { Cfg.fixed with listShortcutChecksNext := false, listVisitedByHead := false }

/-- The fixed code plus an "optimistic" discriminant check on list elements. -/
def Cfg.kindReject : Cfg := { Cfg.fixed with listInnerKindReject := true }

def Cfg.sound (c : Cfg) : Bool := c == Cfg.fixed

/-- Leaf comparison inside the worklist (`visit`): kinds without an arm fall into `(_, _) => false`. -/
def leafEqWork (c : Cfg) : Leaf → Leaf → Bool
  | .rat n d, .rat n' d' =>
      (if ratIsBig n d then c.armBigRational else c.armRational) && (n == n' && d == d')
  | .bytes a, .bytes b => c.armByteVector && a == b
  | x, y => leafEqSpec x y

/-! ## Value graphs -/

/-- What the list short cuts look at (im-lists unrolled list): the pointer of the element storage of the
    FIRST node, the index into it, and the pointer of the next node (0 = none). -/
structure ListSig where
  store : Nat
  idx : Nat
  next : Nat
  deriving DecidableEq, Repr, Inhabited

inductive Node
  | leaf (l : Leaf)
  /-- ListV.  The node id stands for the pointer of the head cell (`as_ptr_usize`); `sig` is what
      `storage_ptr_eq` / `next_ptr_as_usize` see (`none`: storage shared with no other list). -/
  | list (xs : List Nat) (sig : Option ListSig)
  | pair (a b : Nat)                     -- Pair (improper)
  | vec (xs : List Nat)                  -- VectorV (immutable)
  | mvec (xs : List Nat)                 -- MutableVector
  | struct (tag : Nat) (xs : List Nat)   -- CustomStruct; `tag` identifies the type descriptor
  | box (a : Nat)                        -- Boxed / HeapAllocated
  | map (es : List (Nat × Nat))           -- HashMapV, entries in the iteration order of the object
  | set (xs : List Nat)                  -- HashSetV, members in the iteration order of the object
  deriving DecidableEq, Repr, Inhabited

abbrev Graph := List Node

def Graph.node (g : Graph) (i : Nat) : Node := g.getD i (.leaf .void)

def children : Node → List Nat
  | .leaf _ => []
  | .list xs _ => xs
  | .pair a b => [a, b]
  | .vec xs => xs
  | .mvec xs => xs
  | .struct _ xs => xs
  | .box a => [a]
  | .map es => es.map Prod.fst ++ es.map Prod.snd
  | .set xs => xs

/-- Definitions only mention earlier ids: the graph is acyclic and every id is in range. -/
def wfB (g : Graph) : Bool :=
  (List.range g.length).all fun i => (children (g.node i)).all fun j => decide (j < i)

def WF (g : Graph) : Prop := wfB g = true

instance (g : Graph) : Decidable (WF g) := inferInstanceAs (Decidable (_ = _))

/-- Size of the unfolding (number of nodes of the tree). -/
def sizeF (g : Graph) : Nat → Nat → Nat
  | 0, _ => 1
  | f + 1, i => 1 + ((children (g.node i)).map (sizeF g f)).sum

def size (g : Graph) (i : Nat) : Nat := sizeF g g.length i

/-! ## Relations on unfoldings: the specification and the kernel of the hash function -/

/-- same length and pointwise related -/
def all2 (r : Nat → Nat → Bool) : List Nat → List Nat → Bool
  | [], [] => true
  | x :: xs, y :: ys => r x y && all2 r xs ys
  | _, _ => false

inductive MapMode
  | lookup    -- finite maps: same size, every left entry is found on the right with a related value
  | exists_   -- same size, every left entry has a related entry on the right
  | ordered   -- entries related position by position (an order-dependent hash)
  deriving DecidableEq, Repr

structure RelCfg where
  leaf : Leaf → Leaf → Bool
  mixVec : Bool
  mode : MapMode

def mapRel (m : MapMode) (r : Nat → Nat → Bool) (es fs : List (Nat × Nat)) : Bool :=
  match m with
  | .lookup => es.length == fs.length && es.all fun e =>
      match fs.find? (fun e' => r e.1 e'.1) with
      | some e' => r e.2 e'.2
      | none => false
  | .exists_ => es.length == fs.length && es.all fun e => fs.any fun e' => r e.1 e'.1 && r e.2 e'.2
  | .ordered => all2 r (es.map Prod.fst) (fs.map Prod.fst) && all2 r (es.map Prod.snd) (fs.map Prod.snd)

def setRel (m : MapMode) (r : Nat → Nat → Bool) (xs ys : List Nat) : Bool :=
  match m with
  | .ordered => all2 r xs ys
  | _ => xs.length == ys.length && xs.all fun x => ys.any (r x)

def relBody (rc : RelCfg) (r : Nat → Nat → Bool) : Node → Node → Bool
  | .leaf x, .leaf y => rc.leaf x y
  | .list xs _, .list ys _ => all2 r xs ys
  | .pair a b, .pair c d => r a c && r b d
  | .vec xs, .vec ys => all2 r xs ys
  | .mvec xs, .mvec ys => all2 r xs ys
  | .vec xs, .mvec ys => rc.mixVec && all2 r xs ys
  | .mvec xs, .vec ys => rc.mixVec && all2 r xs ys
  | .struct t xs, .struct u ys => t == u && all2 r xs ys
  | .box a, .box b => r a b
  | .map es, .map fs => mapRel rc.mode r es fs
  | .set xs, .set ys => setRel rc.mode r xs ys
  | _, _ => false

def relF (rc : RelCfg) (g : Graph) : Nat → Nat → Nat → Bool
  | 0 => fun _ _ => false
  | f + 1 => fun a b => relBody rc (relF rc g f) (g.node a) (g.node b)

def rel (rc : RelCfg) (g : Graph) (a b : Nat) : Bool := relF rc g g.length a b

/-- S: a mutable and an immutable vector with equal elements are equal; hash maps are finite maps. -/
def specCfg : RelCfg := { leaf := leafEqSpec, mixVec := true, mode := .lookup }

/-- **S** — equality of the unfoldings. -/
def eqSpec (g : Graph) (a b : Nat) : Bool := rel specCfg g a b

/-- Which leaves feed the hasher the same bytes.  `NumV` hashes its printed form: all NaNs print alike,
    every other float prints differently from every other one; `"0"` vs `"-0"` unless unified. -/
def leafHash (zeroUnified : Bool) : Leaf → Leaf → Bool
  | .flt a, .flt b => (fIsNaN a && fIsNaN b) || a == b || (zeroUnified && fIsZero a && fIsZero b)
  | x, y => x == y

def hashCfg (c : Cfg) : RelCfg :=
  { leaf := leafHash c.hashZeroUnified, mixVec := c.hashVecUnified,
    mode := if c.hashUnordered then .exists_ else .ordered }

/-- `hashEq c g a b`: `a` and `b` have the same hash (up to accidental collisions). -/
def hashEq (c : Cfg) (g : Graph) (a b : Nat) : Bool := rel (hashCfg c) g a b

/-! ## The worklist -/

inductive Key
  | one (x : Nat)       -- the identity of one value (legacy)
  | two (l r : Nat)     -- a (left, right) pair
  deriving DecidableEq, Repr

/-- `self.should_visit(..)` as it is called by the arms: returns (visit?, visited'). -/
def visit (c : Cfg) (vis : List Key) (l r : Nat) : Bool × List Key :=
  if c.pairKeyed then
    if vis.contains (.two l r) then (false, vis) else (true, .two l r :: vis)
  else
    -- `should_visit(l) && should_visit(r)`: `&&` short-circuits, so `r` is only inserted if `l` was new
    if vis.contains (.one l) then (false, vis)
    else if (Key.one l :: vis).contains (.one r) then (false, .one l :: vis)
    else (true, .one r :: .one l :: vis)

/-- `l.storage_ptr_eq(&r) [&& l.next_ptr_as_usize() == r.next_ptr_as_usize()]` -/
def sigSame (c : Cfg) : Option ListSig → Option ListSig → Bool
  | some s, some t =>
      s.store == t.store && s.idx == t.idx && (!c.listShortcutChecksNext || s.next == t.next)
  | _, _ => false

/-- the identity under which a list is entered into `visited`: the head cell (= node id), or – legacy –
    `identity_tuple()` = (storage, index), encoded as a number that is no node id -/
def lkey (c : Cfg) (g : Graph) (i : Nat) : Nat :=
  if c.listVisitedByHead then i
  else
    match g.node i with
    | .list _ (some s) => g.length + 1 + ((s.store + s.idx) * (s.store + s.idx + 1) / 2 + s.idx)
    | _ => i

/-- `core::mem::discriminant` of the `SteelVal` a node stands for -/
def disc : Node → Nat
  | .leaf (.int i) => if i.natAbs < 2 ^ 63 then 0 else 1       -- IntV / BigNum (isize range, up to one value)
  | .leaf (.flt _) => 2
  | .leaf (.bool _) => 3
  | .leaf (.char _) => 4
  | .leaf (.str _) => 5
  | .leaf (.sym _) => 6
  | .leaf .void => 7
  | .leaf (.rat n d) => if ratIsBig n d then 9 else 8
  | .leaf (.bytes _) => 10
  | .list _ _ => 11
  | .pair _ _ => 12
  | .vec _ => 13
  | .mvec _ => 14
  | .struct _ _ => 15
  | .box _ => 16
  | .map _ => 17
  | .set _ => 18

inductive Out
  | ret (b : Bool)                               -- `return b`
  | cont (pl pr : List Nat) (vis : List Key)      -- push `pl` left, `pr` right (in this order); `continue`
  deriving Repr

/-- `for (key, value) in l.iter() { if let Some(rv) = r.get(key) { push value / rv } else { return false } }` -/
def lookupAll (keyEq : Nat → Nat → Bool) (fs : List (Nat × Nat)) : List (Nat × Nat) → Option (List Nat × List Nat)
  | [] => some ([], [])
  | e :: es =>
      match fs.find? (fun e' => keyEq e.1 e'.1) with
      | none => none
      | some e' =>
          match lookupAll keyEq fs es with
          | none => none
          | some (pl, pr) => some (e.2 :: pl, e'.2 :: pr)

/-- One iteration of `visit`'s `loop` body after the two pops: the `match (left, right)`.
    `keyEq k k'` is what `HashMap::get`/`HashSet::contains` do with a stored key: same hash and `==`. -/
def arm (c : Cfg) (g : Graph) (keyEq : Nat → Nat → Bool) (l r : Nat) (vis : List Key) : Out :=
  match g.node l, g.node r with
  | .list xs s, .list ys t =>
      -- `l.ptr_eq(&r) || (l.storage_ptr_eq(&r) && next pointers equal)`; all empty lists are one object
      if l == r || sigSame c s t || (xs.isEmpty && ys.isEmpty) then .cont [] [] vis
      else
        match visit c vis (lkey c g l) (lkey c g r) with
        | (true, vis') =>
            if xs.length != ys.length then .ret false
            -- `for (lvalue, rvalue) in l.iter().zip(r.iter())`: every pair is queued (an element pair that the
            -- list short cut would skip is skipped here already: same outcome); a configuration that
            -- rejects on different discriminants returns here
            else if c.listInnerKindReject && (xs.zip ys).any (fun p => disc (g.node p.1) != disc (g.node p.2)) then
              .ret false
            else .cont xs ys vis'
        | (false, vis') => .cont [] [] vis'
  | .pair a b, .pair a' b' =>
      if l == r then .cont [] [] vis
      else
        match visit c vis l r with
        | (true, vis') => .cont [a, b] [a', b'] vis'
        | (false, vis') => .cont [] [] vis'
  | .leaf x, .leaf y => if leafEqWork c x y then .cont [] [] vis else .ret false
  | .vec xs, .vec ys =>
      if xs.length != ys.length then .ret false
      else if l == r then .cont [] [] vis
      else
        match visit c vis l r with
        | (true, vis') => .cont xs ys vis'
        | (false, vis') => if c.vecRevisitFalse then .ret false else .cont [] [] vis'
  | .vec xs, .mvec ys => if xs.length != ys.length then .ret false else .cont xs ys vis
  | .mvec xs, .vec ys => if xs.length != ys.length then .ret false else .cont xs ys vis
  | .map es, .map fs =>
      if l == r then .cont [] [] vis
      else
        match visit c vis l r with
        | (true, vis') =>
            if es.length != fs.length then .ret false
            else
              match lookupAll keyEq fs es with
              | none => .ret false
              | some (pl, pr) => .cont pl pr vis'
        | (false, vis') => .cont [] [] vis'
  | .set xs, .set ys =>
      if l == r then .cont [] [] vis
      else
        match visit c vis l r with
        | (true, vis') =>
            if xs.length != ys.length then .ret false
            else if xs.all (fun x => ys.any (keyEq x)) then .cont [] [] vis' else .ret false
        | (false, vis') => .cont [] [] vis'
  | .struct t xs, .struct u ys =>
      if l == r then .cont [] [] vis
      else
        match visit c vis l r with
        | (true, vis') =>
            -- `l.type_descriptor == r.type_descriptor && l.name() == r.name()`; a descriptor fixes the arity
            if !(t == u && xs.length == ys.length) then .ret false else .cont xs ys vis'
        | (false, vis') => .cont [] [] vis'
  | .box a, .box b => if l == r then .cont [] [] vis else .cont [a] [b] vis
  | .mvec xs, .mvec ys =>
      if l == r then .cont [] [] vis
      else
        match visit c vis l r with
        | (true, vis') => if xs.length != ys.length then .ret false else .cont xs ys vis'
        | (false, vis') => .cont [] [] vis'
  | _, _ => .ret false

/-- The fast path of `impl PartialEq for SteelVal` (same-kind leaves are compared directly);
    everything else goes to the worklist. -/
def topEq (g : Graph) (work : Nat → Nat → Bool) (a b : Nat) : Bool :=
  match g.node a, g.node b with
  | .leaf x, .leaf y => leafEqSpec x y
  | _, _ => work a b

/-- `RecursiveEqualityHandler::visit`.  `ls`/`rs` are the two stacks (head = top).  `none`-like
    outcomes: fuel exhausted ⇒ `false` (never happens with the fuel `eqImpl` supplies). -/
def loop (c : Cfg) (g : Graph) : Nat → List Nat → List Nat → List Key → Bool
  | _, [], [], _ => true                       -- (None, None) => return true
  | 0, _, _, _ => false
  | f + 1, l :: ls, r :: rs, vis =>
      -- a nested `==` (keys of hash maps / members of hash sets) finds the thread-local queues
      -- borrowed and runs on fresh queues with a fresh visited set
      let keyEq := fun k k' => hashEq c g k k' && topEq g (fun a b => loop c g f [a] [b] []) k k'
      match arm c g keyEq l r vis with
      | .ret b => b
      | .cont pl pr vis' => loop c g f (pl.reverse ++ ls) (pr.reverse ++ rs) vis'
  | _, _, _, _ => false                        -- (Some, None) | (None, Some) => return false

/-- **M** — `left == right` for `SteelVal`s, i.e. `equal?`. -/
def eqImpl (c : Cfg) (g : Graph) (a b : Nat) : Bool :=
  topEq g (fun a b => loop c g (size g a + size g b) [a] [b] []) a b

/-- `HashMap::get` / `contains` with a query key `k` against a stored key `k'`. -/
def keyEqImpl (c : Cfg) (g : Graph) (k k' : Nat) : Bool := hashEq c g k k' && eqImpl c g k k'

/-! ## Guards of the theorems -/

def leafNoNaN : Node → Bool
  | .leaf (.flt b) => !fIsNaN b
  | _ => true

/-- no NaN leaf (a NaN is not `equal?` to itself: documented semantics, outside the property). -/
def noNaNB (g : Graph) : Bool := g.all leafNoNaN

/-- the keys of every hash map node are pairwise different values (as in every real hash map). -/
def keysDistinctB (g : Graph) : Bool :=
  g.all fun n =>
    match n with
    | .map es =>
        (List.range es.length).all fun i => (List.range es.length).all fun j =>
          i == j || !eqSpec g (es.getD i (0, 0)).1 (es.getD j (0, 0)).1
    | _ => true

/-- the members of every hash set node are pairwise different values (as in every real hash set; what the
    constructors establish: `mkSet_guards`). -/
def membersDistinctB (g : Graph) : Bool :=
  g.all fun n =>
    match n with
    | .set xs =>
        (List.range xs.length).all fun i => (List.range xs.length).all fun j =>
          i == j || !eqSpec g (xs.getD i 0) (xs.getD j 0)
    | _ => true

/-! ## The constructors of hash sets and hash maps (`hs_construct`, `hm_construct`, `hashset-insert`, `hash-insert`)

`HashSet::insert` / `HashMap::insert` of `im`/`imbl`: the entry whose stored key answers the query (same hash
and `==`) is REPLACED by the new entry (key object included), otherwise the entry is added.  The order of the
entries is the iteration order of the real object and is irrelevant to every relation of this file except the
legacy order-dependent hash. -/

def setInsertIds (keyEq : Nat → Nat → Bool) (xs : List Nat) (k : Nat) : List Nat :=
  xs.filter (fun x => !keyEq k x) ++ [k]

def mapInsertIds (keyEq : Nat → Nat → Bool) (es : List (Nat × Nat)) (k v : Nat) : List (Nat × Nat) :=
  es.filter (fun e => !keyEq k e.1) ++ [(k, v)]

/-- `(hashset k1 k2 …)` over the values of `g`: `for key in args { hs.insert(key.clone()) }` -/
def mkSet (c : Cfg) (g : Graph) (ks : List Nat) : Node :=
  .set (ks.foldl (setInsertIds (keyEqImpl c g)) [])

/-- `(hash k1 v1 k2 v2 …)` over the values of `g`: `hm.insert(key, value)` pair by pair -/
def mkMap (c : Cfg) (g : Graph) (kvs : List (Nat × Nat)) : Node :=
  .map (kvs.foldl (fun es e => mapInsertIds (keyEqImpl c g) es e.1 e.2) [])

/-! ## Hash maps and hash sets KEYED BY VALUES of the graph (`hash-insert` / `hash-ref` / `hash-remove` /
`hash-contains?`, `hashset-insert` / `hashset-contains?` with keys that are themselves collections)

`keyEq q k` = "the query `q` finds the stored key `k`" (`keyEqImpl`: same hash and `==`).  The entries carry any
kind of value (`ν`); with `ν = Nat` `gmInsert` is `mapInsertIds`. -/

def gmGet {ν : Type} (keyEq : Nat → Nat → Bool) (es : List (Nat × ν)) (q : Nat) : Option ν :=
  (es.find? fun e => keyEq q e.1).map Prod.snd
def gmInsert {ν : Type} (keyEq : Nat → Nat → Bool) (es : List (Nat × ν)) (k : Nat) (v : ν) : List (Nat × ν) :=
  es.filter (fun e => !keyEq k e.1) ++ [(k, v)]
def gmRemove {ν : Type} (keyEq : Nat → Nat → Bool) (es : List (Nat × ν)) (k : Nat) : List (Nat × ν) :=
  es.filter fun e => !keyEq k e.1
def gmContains {ν : Type} (keyEq : Nat → Nat → Bool) (es : List (Nat × ν)) (q : Nat) : Bool :=
  (gmGet keyEq es q).isSome

/-- `imbl::HashMap::union(self, other)` on maps keyed by values: the LARGER map is mutated; the entries of the other one
    are inserted when the key is vacant, and also over an occupied key when the consumed map is `self` -/
def gmUnion {ν : Type} (keyEq : Nat → Nat → Bool) (self other : List (Nat × ν)) : List (Nat × ν) :=
  if self.length ≥ other.length then
    other.foldl (fun m e => if (gmGet keyEq m e.1).isSome then m else gmInsert keyEq m e.1 e.2) self
  else
    self.foldl (fun m e => if (gmGet keyEq m e.1).isSome then gmInsert keyEq m e.1 e.2 else gmInsert keyEq m e.1 e.2) other

/-! ### the set algebra of `imbl::HashSet` on members that are values of the graph (`hashset-union`,
`hashset-intersection`, `hashset-difference` = `symmetric_difference`, `hashset-subset?`) -/

/-- `HashSet::remove(&k)`: the stored member the query finds is removed -/
def gsRemove (keyEq : Nat → Nat → Bool) (xs : List Nat) (k : Nat) : List Nat := xs.filter fun x => !keyEq k x
/-- `HashSet::union`: the larger set is mutated, the members of the other one are inserted -/
def gsUnion (keyEq : Nat → Nat → Bool) (self other : List Nat) : List Nat :=
  if self.length ≥ other.length then other.foldl (setInsertIds keyEq) self else self.foldl (setInsertIds keyEq) other
/-- `HashSet::symmetric_difference`: `for value in other { if self.remove(&value).is_none() { self.insert(value) } }` -/
def gsSymDiff (keyEq : Nat → Nat → Bool) (self other : List Nat) : List Nat :=
  other.foldl (fun acc x => if acc.any (keyEq x) then gsRemove keyEq acc x else setInsertIds keyEq acc x) self
/-- `HashSet::intersection`: `for value in other { if self.contains(&value) { out.insert(value) } }` -/
def gsInter (keyEq : Nat → Nat → Bool) (self other : List Nat) : List Nat :=
  other.foldl (fun out x => if self.any (keyEq x) then setInsertIds keyEq out x else out) []
/-- `HashSet::is_subset`: `self.iter().all(|a| o.contains(a))` -/
def gsSubset (keyEq : Nat → Nat → Bool) (self other : List Nat) : Bool := self.all fun a => other.any (keyEq a)

/-- What is assumed about the identities of lists (it holds for im-lists): two lists whose first nodes
    have the same element storage, the same index AND the same next node have the same elements.  (The
    other assumption is built into the representation: a node id = a head cell has ONE definition.) -/
def listSigB (g : Graph) : Bool :=
  g.all fun n => g.all fun m =>
    match n, m with
    | .list xs (some s), .list ys (some t) => !(s == t) || xs == ys
    | _, _ => true

/-- Class predicate of finding K11a (python: `shared_twice`): the list of container nodes met when
    both values are traversed as trees, with repetitions. -/
def reachF (g : Graph) : Nat → Nat → List Nat
  | 0, _ => []
  | f + 1, i =>
      match g.node i with
      | .leaf _ => []
      | n => i :: (children n).flatMap (reachF g f)

def noSharingB (g : Graph) (a b : Nat) : Bool :=
  let xs := reachF g g.length a ++ reachF g g.length b
  xs.all fun x => xs.count x == 1

/-! ## Collections (the primitives of `primitives/{lists,vectors,hashmaps,hashsets,strings,bytevectors}.rs`)

Values of the collection model are plain data (`Int` keys/elements): the laws are about the
container operations, element equality is the `eqSpec`/`hashEq` part above. -/

inductive Res (α : Type)
  | ok (v : α)
  | err          -- the primitive raises (index out of bounds, key not found, type mismatch …)
  deriving DecidableEq, Repr

namespace Coll

/-! ### association lists as finite maps: `hash`, `hash-insert`, `hash-ref`, `hash-try-get`,
`hash-contains?`, `hash-remove`, `hash-length`, `hash-keys->list` (as a set) -/

abbrev M (κ ν : Type) := List (κ × ν)

variable {κ ν : Type} [DecidableEq κ]

def mRemove (m : M κ ν) (k : κ) : M κ ν := m.filter fun e => !(e.1 == k)
def mInsert (m : M κ ν) (k : κ) (v : ν) : M κ ν := (k, v) :: mRemove m k
def mTryGet (m : M κ ν) (k : κ) : Option ν := (m.find? fun e => e.1 == k).map Prod.snd
def mRef (m : M κ ν) (k : κ) : Res ν := match mTryGet m k with | some v => .ok v | none => .err
def mContains (m : M κ ν) (k : κ) : Bool := m.any fun e => e.1 == k
def mLength (m : M κ ν) : Nat := m.length
def mKeys (m : M κ ν) : List κ := m.map Prod.fst
def mValues (m : M κ ν) : List ν := m.map Prod.snd
/-- `(hash-union l r)`: for a key present in both the value of the LEFT map -/
def mUnion (l r : M κ ν) : M κ ν := l ++ r.filter fun e => !(mContains l e.1)
/-- `(hash k1 v1 k2 v2 …)`: later bindings win -/
def mOfList (kvs : List (κ × ν)) : M κ ν := kvs.foldl (fun m e => mInsert m e.1 e.2) []
/-- every key at most once (invariant of the representation) -/
def mNodup (m : M κ ν) : Prop := (m.map Prod.fst).Nodup

/-! ### duplicate-free lists as finite sets: `hashset`, `hashset-insert`, `hashset-contains?`,
`hashset-length`, `hashset-subset?`, `hashset-clear` -/

abbrev S (κ : Type) := List κ

def sInsert (s : S κ) (k : κ) : S κ := if s.contains k then s else k :: s
def sContains (s : S κ) (k : κ) : Bool := s.contains k
def sLength (s : S κ) : Nat := s.length
def sOfList (ks : List κ) : S κ := ks.foldl sInsert []
def sSubset (s t : S κ) : Bool := s.all t.contains
def sRemove (s : S κ) (k : κ) : S κ := s.filter fun x => !(x == k)
def sUnion (s t : S κ) : S κ := s ++ t.filter fun x => !(s.contains x)
def sInter (s t : S κ) : S κ := s.filter t.contains
/-- `hashset-difference` is documented (and implemented) as the symmetric difference -/
def sSymDiff (s t : S κ) : S κ := (s.filter fun x => !(t.contains x)) ++ t.filter fun x => !(s.contains x)

/-! ### lists: `length`, `list-ref`, `first`/`car`, `rest`/`cdr`, `cons`, `append`, `reverse`,
`take`, `list-tail`/`drop`, `last`, `range` -/

variable {α : Type}

/-- `(list-ref l i)`: negative or too large index ⇒ error -/
def lRef (l : List α) (i : Int) : Res α :=
  if i < 0 then .err else match l[i.toNat]? with | some v => .ok v | none => .err
def lFirst (l : List α) : Res α := match l with | x :: _ => .ok x | [] => .err
def lRest (l : List α) : Res (List α) := match l with | _ :: t => .ok t | [] => .err
def lLast (l : List α) : Res α := match l.getLast? with | some v => .ok v | none => .err
/-- `(take l n)`: takes at most `n` -/
def lTake (l : List α) (n : Int) : Res (List α) := if n < 0 then .err else .ok (l.take n.toNat)
/-- `(list-tail l n)`: `n` beyond the length ⇒ error -/
def lTail (l : List α) (n : Int) : Res (List α) :=
  if n < 0 then .err else if n.toNat > l.length then .err else .ok (l.drop n.toNat)

/-! ### vectors (`vector-ref`, `vector-set!`, `vector-length`, `vector-push!`, `vector-append`) and
byte vectors (`bytes-ref`, `bytes-set!`, `bytes-length`, `bytes-append`; elements are 0..255) -/

def vRef (v : List α) (i : Int) : Res α := lRef v i
def vSet (v : List α) (i : Int) (x : α) : Res (List α) :=
  if i < 0 then .err else if i.toNat < v.length then .ok (v.set i.toNat x) else .err
def vPush (v : List α) (x : α) : List α := v ++ [x]

def isByte (x : Int) : Bool := 0 ≤ x && x < 256
def bMake (xs : List Int) : Res (List Int) := if xs.all isByte then .ok xs else .err
def bSet (v : List Int) (i : Int) (x : Int) : Res (List Int) := if isByte x then vSet v i x else .err

/-! ### strings as `List Char`: `string-length`, `string-ref`, `substring`, `string-append`,
`string->list`, `list->string` (indices count characters) -/

def strRef (s : List Char) (i : Int) : Res Char := lRef s i
/-- `(substring s i j)`: requires `0 ≤ i ≤ j ≤ length` -/
def strSub (s : List Char) (i j : Int) : Res (List Char) :=
  if i < 0 || j < i || j.toNat > s.length then .err else .ok ((s.drop i.toNat).take (j.toNat - i.toNat))

end Coll

end SteelVerif.C11
