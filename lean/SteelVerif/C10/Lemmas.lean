/-
C10 — basic lemmas: machine ranges, the `IntoSteelVal` canonicalisation, reduced fractions.
-/
import SteelVerif.C10.Model
namespace SteelVerif.C10

/-- `r` is the mathematically exact answer `q`, in canonical form. -/
def Exact (r : Res Num) (q : Rat) : Prop := ∃ v, r = .ok v ∧ denote v = q ∧ Canonical v

theorem Exact.mk {v : Num} {q : Rat} (h1 : denote v = q) (h2 : Canonical v) : Exact (.ok v) q :=
  ⟨v, rfl, h1, h2⟩

/-! ## ranges -/

theorem fitsIsize_iff {n : Int} :
    fitsIsize n = true ↔ -9223372036854775808 ≤ n ∧ n ≤ 9223372036854775807 := by
  simp [fitsIsize]

theorem fitsIsize_false_iff {n : Int} :
    fitsIsize n = false ↔ n < -9223372036854775808 ∨ 9223372036854775807 < n := by
  simp [fitsIsize]; omega

theorem fitsI32_iff {n : Int} : fitsI32 n = true ↔ -2147483648 ≤ n ∧ n ≤ 2147483647 := by
  simp [fitsI32]

theorem fitsI32_false_iff {n : Int} : fitsI32 n = false ↔ n < -2147483648 ∨ 2147483647 < n := by
  simp [fitsI32]; omega

theorem fitsI32_fitsIsize {n : Int} (h : fitsI32 n = true) : fitsIsize n = true := by
  rw [fitsI32_iff] at h; rw [fitsIsize_iff]; omega

theorem chk64_eq_some {n r : Int} : chk64 n = some r ↔ fitsIsize n = true ∧ r = n := by
  unfold chk64; split
  · rename_i h; simp only [Option.some.injEq, h, true_and]; exact eq_comm
  · rename_i h; simp [h]

theorem chk64_eq_none {n : Int} : chk64 n = none ↔ fitsIsize n = false := by
  unfold chk64; split <;> simp_all

theorem chk32_eq_some {n r : Int} : chk32 n = some r ↔ fitsI32 n = true ∧ r = n := by
  unfold chk32; split
  · rename_i h; simp only [Option.some.injEq, h, true_and]; exact eq_comm
  · rename_i h; simp [h]

theorem chk32_eq_none {n : Int} : chk32 n = none ↔ fitsI32 n = false := by
  unfold chk32; split <;> simp_all

theorem isz_ok {n : Int} (h : fitsIsize n = true) : isz n = .ok n := by simp [isz, h]
theorem i32_ok {n : Int} (h : fitsI32 n = true) : i32 n = .ok n := by simp [i32, h]

@[simp] theorem Res.bind_ok {α β} (v : α) (f : α → Res β) : (Res.ok v >>= f) = f v := rfl
@[simp] theorem Res.bind_err {α β} (e : Err) (f : α → Res β) : ((Res.err e : Res α) >>= f) = .err e := rfl
@[simp] theorem Res.bind_panic {α β} (f : α → Res β) : ((Res.panic : Res α) >>= f) = .panic := rfl
@[simp] theorem Res.pure_eq {α} (v : α) : (pure v : Res α) = .ok v := rfl

/-! ## casts -/

theorem rat_div_one (q : Rat) : q / ((1 : Int) : Rat) = q := by
  have : ((1 : Int) : Rat) = 1 := rfl
  rw [this]; grind

theorem cast_ne_zero {d : Int} (h : d ≠ 0) : (d : Rat) ≠ 0 := by
  intro h'; exact h (Rat.intCast_eq_zero_iff.mp h')

/-- equal cross products ⇒ equal fractions. -/
theorem div_eq_div_of_cross {a b c d : Int} (hb : b ≠ 0) (hd : d ≠ 0) (h : a * d = c * b) :
    (a : Rat) / (b : Rat) = (c : Rat) / (d : Rat) := by
  have hb' := cast_ne_zero hb
  have hd' := cast_ne_zero hd
  have h' : (a : Rat) * (d : Rat) = (c : Rat) * (b : Rat) := by
    rw [← Rat.intCast_mul, ← Rat.intCast_mul, h]
  grind

theorem cross_of_div_eq_div {a b c d : Int} (hb : b ≠ 0) (hd : d ≠ 0)
    (h : (a : Rat) / (b : Rat) = (c : Rat) / (d : Rat)) : a * d = c * b := by
  have hb' := cast_ne_zero hb
  have hd' := cast_ne_zero hd
  have h' : (a : Rat) * (d : Rat) = (c : Rat) * (b : Rat) := by grind
  rw [← Rat.intCast_mul, ← Rat.intCast_mul] at h'
  exact Rat.intCast_inj.mp h'

/-- A fraction in lowest terms with a positive denominator is determined by its value. -/
theorem reduced_unique {a b c d : Int} (hb : 0 < b) (hd : 0 < d)
    (hab : Int.gcd a b = 1) (hcd : Int.gcd c d = 1) (h : a * d = c * b) : a = c ∧ b = d := by
  -- b ∣ a * d and gcd a b = 1 ⇒ b ∣ d ; symmetrically d ∣ b
  have hbd : b ∣ d := by
    have : b ∣ a * d := ⟨c, by rw [h, Int.mul_comm]⟩
    have h1 : b ∣ Int.gcd b a * d := Int.dvd_gcd_mul_iff_dvd_mul.mpr this
    rw [Int.gcd_comm, hab] at h1
    simpa using h1
  have hdb : d ∣ b := by
    have : d ∣ c * b := ⟨a, by rw [← h, Int.mul_comm]⟩
    have h1 : d ∣ Int.gcd d c * b := Int.dvd_gcd_mul_iff_dvd_mul.mpr this
    rw [Int.gcd_comm, hcd] at h1
    simpa using h1
  have hbd' : b = d := Int.dvd_antisymm (Int.le_of_lt hb) (Int.le_of_lt hd) hbd hdb
  subst hbd'
  refine ⟨?_, rfl⟩
  exact Int.eq_of_mul_eq_mul_right (Int.ne_of_gt hb) h

/-! ## `normInt` -/

theorem normInt_denote (n : Int) : denote (normInt n) = (n : Rat) := by
  unfold normInt; split <;> rfl

theorem normInt_canonical (n : Int) : Canonical (normInt n) := by
  unfold normInt; split <;> simp_all [Canonical]

theorem normInt_exact (n : Int) : Exact (.ok (normInt n)) (n : Rat) :=
  Exact.mk (normInt_denote n) (normInt_canonical n)

theorem normInt_isInt (n : Int) : (normInt n).isInt = true := by
  unfold normInt; split <;> rfl

theorem normInt_toQ (n : Int) : (normInt n).toQ = (n, 1) := by
  unfold normInt; split <;> rfl

/-! ## `bigNew`, `normBigRat`, `fromQ` -/

/-- `BigRational::new` produces the unique reduced representation of `n/d`. -/
theorem bigNew_spec {n d : Int} (hd : d ≠ 0) :
    ∃ n' d', bigNew n d = .ok (n', d') ∧ 0 < d' ∧ Int.gcd n' d' = 1 ∧ n' * d = n * d' := by
  have hgpos : 0 < Int.gcd n d := Int.gcd_pos_of_ne_zero_right n hd
  have hg : ((Int.gcd n d : Nat) : Int) ≠ 0 := by omega
  have hdn : ((Int.gcd n d : Nat) : Int) ∣ n := Int.gcd_dvd_left n d
  have hdd : ((Int.gcd n d : Nat) : Int) ∣ d := Int.gcd_dvd_right n d
  have hred : Int.gcd (n / (Int.gcd n d : Int)) (d / (Int.gcd n d : Int)) = 1 :=
    Int.gcd_ediv_gcd_ediv_gcd hgpos
  have hn : n / (Int.gcd n d : Int) * (Int.gcd n d : Int) = n := Int.ediv_mul_cancel hdn
  have hd2 : d / (Int.gcd n d : Int) * (Int.gcd n d : Int) = d := Int.ediv_mul_cancel hdd
  have hd'ne : d / (Int.gcd n d : Int) ≠ 0 := by
    intro h0; rw [h0] at hd2; simp at hd2; exact hd hd2.symm
  have hcross : n / (Int.gcd n d : Int) * d = n * (d / (Int.gcd n d : Int)) := by
    calc n / (Int.gcd n d : Int) * d
        = n / (Int.gcd n d : Int) * (d / (Int.gcd n d : Int) * (Int.gcd n d : Int)) := by rw [hd2]
      _ = (n / (Int.gcd n d : Int) * (Int.gcd n d : Int)) * (d / (Int.gcd n d : Int)) := by
            simp only [Int.mul_comm, Int.mul_left_comm]
      _ = n * (d / (Int.gcd n d : Int)) := by rw [hn]
  unfold bigNew
  simp only [hd, ↓reduceIte]
  by_cases hneg : d / (Int.gcd n d : Int) < 0
  · simp only [hneg, ↓reduceIte]
    refine ⟨_, _, rfl, by omega, ?_, ?_⟩
    · simpa using hred
    · rw [Int.neg_mul, Int.mul_neg, hcross]
  · simp only [hneg, ↓reduceIte]
    refine ⟨_, _, rfl, by omega, hred, hcross⟩

/-- `Ratio::<i32>::new` on an already reduced fraction with positive denominator is the identity. -/
theorem ratio32New_reduced {n d : Int} (hd : 0 < d) (hg : Int.gcd n d = 1)
    (hn : fitsI32 n = true) (hd32 : fitsI32 d = true) : ratio32New n d = .ok (n, d) := by
  rw [fitsI32_iff] at hn hd32
  unfold ratio32New
  have hd0 : d ≠ 0 := by omega
  simp only [hd0, ↓reduceIte]
  by_cases hn0 : n = 0
  · subst hn0
    simp only [↓reduceIte]
    have : d = 1 := by
      have : d.natAbs = 1 := by simpa using hg
      omega
    subst this; rfl
  · simp only [hn0, ↓reduceIte]
    by_cases hnd : n = d
    · subst hnd
      simp only [↓reduceIte]
      have : n = 1 := by
        have : n.natAbs = 1 := by simpa using hg
        omega
      subst this; rfl
    · simp only [hnd, ↓reduceIte]
      have hg32 : gcd32 n d = .ok 1 := by
        unfold gcd32 I32_MIN
        have : ¬((n = -2147483648 ∧ (d = 0 ∨ d = -2147483648)) ∨ (d = -2147483648 ∧ n = 0)) := by
          omega
        simp only [this, ↓reduceIte, hg]; rfl
      simp only [hg32, Res.bind_ok, Int.tdiv_one]
      have : ¬ d < 0 := by omega
      simp [this]

theorem denote_bigrat_or_rat32_canonical {n d : Int} (hd : 1 < d) (hg : Int.gcd n d = 1) :
    ∃ v, normBigRat (n, d) = .ok v ∧ denote v = (n : Rat) / (d : Rat) ∧ Canonical v ∧
      v.toQ = (n, d) ∧ v.isInt = false := by
  unfold normBigRat
  have hd1 : d ≠ 1 := by omega
  simp only [hd1, ↓reduceIte]
  by_cases hfit : (fitsI32 n && fitsI32 d) = true
  · simp only [hfit, ↓reduceIte]
    have hfn : fitsI32 n = true := by simp_all
    have hfd : fitsI32 d = true := by simp_all
    rw [ratio32New_reduced (by omega) hg hfn hfd]
    simp only [Res.bind_ok, Res.pure_eq, normR32, hd1, ↓reduceIte]
    exact ⟨_, rfl, rfl, ⟨hd, hg, hfn, hfd⟩, rfl, rfl⟩
  · simp only [hfit]
    have hf : (fitsI32 n && fitsI32 d) = false := by simpa using hfit
    exact ⟨_, rfl, rfl, ⟨hd, hg, hf⟩, rfl, rfl⟩

/-- `into_steelval` of a reduced `BigRational` is exact and canonical. -/
theorem normBigRat_exact {n d : Int} (hd : 0 < d) (hg : Int.gcd n d = 1) :
    Exact (normBigRat (n, d)) ((n : Rat) / (d : Rat)) := by
  by_cases h1 : d = 1
  · subst h1
    unfold normBigRat
    simp only [↓reduceIte]
    refine Exact.mk ?_ (normInt_canonical n)
    rw [normInt_denote, rat_div_one]
  · obtain ⟨v, hv, hden, hcan, _, _⟩ := denote_bigrat_or_rat32_canonical (by omega : 1 < d) hg
    exact ⟨v, hv, hden, hcan⟩

/-- `BigRational::new(n, d).into_steelval()`: the exact canonical value of `n/d`. -/
theorem fromQ_exact {n d : Int} (hd : d ≠ 0) : Exact (fromQ n d) ((n : Rat) / (d : Rat)) := by
  obtain ⟨n', d', hnew, hd', hg, hcross⟩ := bigNew_spec (n := n) hd
  unfold fromQ
  rw [hnew]
  simp only [Res.bind_ok]
  have := normBigRat_exact hd' hg
  rw [div_eq_div_of_cross (by omega) hd hcross] at this
  exact this

/-! ## canonical values are determined by what they denote -/

theorem denote_toQ (v : Num) : denote v = ((v.toQ.1 : Int) : Rat) / ((v.toQ.2 : Int) : Rat) := by
  cases v <;> simp only [denote, Num.toQ, rat_div_one]

theorem canonical_toQ {v : Num} (h : Canonical v) : 0 < v.toQ.2 ∧ Int.gcd v.toQ.1 v.toQ.2 = 1 := by
  cases v <;> simp_all [Canonical, Num.toQ] <;> omega

theorem canonical_isInt_iff {v : Num} (h : Canonical v) : v.isInt = true ↔ v.toQ.2 = 1 := by
  cases v <;> simp_all [Canonical, Num.toQ, Num.isInt] <;> omega

/-- **Coherence**: two canonical values denoting the same number are the same value
(so equal numbers print identically and `=`, `equal?` and hashing see one representation). -/
theorem canonical_unique {a b : Num} (ha : Canonical a) (hb : Canonical b)
    (h : denote a = denote b) : a = b := by
  obtain ⟨hpa, hga⟩ := canonical_toQ ha
  obtain ⟨hpb, hgb⟩ := canonical_toQ hb
  rw [denote_toQ a, denote_toQ b] at h
  have hc := cross_of_div_eq_div (by omega) (by omega) h
  obtain ⟨h1, h2⟩ := reduced_unique hpa hpb hga hgb hc
  cases a <;> cases b <;> simp_all [Canonical, Num.toQ] <;> omega

end SteelVerif.C10
