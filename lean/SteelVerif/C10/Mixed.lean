/-
C10 — mixed exact / inexact operations: WHICH operand is converted, by WHICH conversion, and the comparison of an
exact number with a double.

A double is its 64 bits (`Bits = Nat`, below 2^64).  The kernel knows nothing about IEEE arithmetic, so the four
operations are a parameter (`IEEE`): the model fixes how their ARGUMENTS are formed, which is what the Rust decides —
  numbers.rs `add_two` / `add_two_fallible` / `multiply_two`:
      `(NumV(x), IntV(y)) | (IntV(y), NumV(x)) => x ⊙ *y as f64`          `isize as f64`
      `(NumV(x), BigNum(y)) | …                => x ⊙ y.to_f64().unwrap()`  `BigInt::to_f64`
      `(NumV(x), Rational(y)) | …              => x ⊙ y.to_f64().unwrap()`  `Ratio<i32>::to_f64` (`ratio_to_f64`)
      `(NumV(x), BigRational(y)) | …           => x ⊙ y.to_f64().unwrap()`  `Ratio<BigInt>::to_f64` (`ratio_to_f64`)
  (the double is the LEFT argument of the IEEE operation whatever the order of the operands);
  `subtract_primitive [x, y]`: `[NumV, IntV(0)] ⇒ x`, otherwise `add_two(x, negate(y))` — an exact `y` is negated
      EXACTLY, then converted; a double `y` has its sign bit flipped;
  `divide_primitive [x, y]`: `multiply_two(x, recip(y))` — an exact `y` is inverted EXACTLY (`1/y`, division by an exact
      zero is the error), then converted and multiplied: TWO roundings (open finding K10e); a double `y` becomes
      `y.recip()` = `1.0 / y`, then `recip · (x as f64)`: two roundings again.  `viaReciprocal = false` is the
      one-division repair (`x / (y as f64)`, `(x as f64) / y`).
All four conversions round the exact value to the nearest double, ties to even, overflow to ±∞ (`roundQ`; for
`isize as f64` that is the language definition, for num-bigint / num-rational their documented contract).

Comparison (rvals.rs `cmp_exact_with_float`, used by `PartialOrd` and `number_equality`) needs no IEEE operation: every
finite double is a dyadic rational (`integer_decode`), and is compared as such.
-/
import SteelVerif.C10.Model
namespace SteelVerif.C10

abbrev Bits := Nat

/-! ## decoding a double -/

def fSign (b : Bits) : Nat := b / 2 ^ 63 % 2
def fExp (b : Bits) : Nat := b / 2 ^ 52 % 2048
def fMant (b : Bits) : Nat := b % 2 ^ 52

inductive FClass where
  | nan | posInf | negInf | finite
  deriving DecidableEq, Repr

def classify (b : Bits) : FClass :=
  if fExp b = 2047 then
    if fMant b ≠ 0 then .nan else if fSign b = 0 then .posInf else .negInf
  else .finite

/-- `f64::integer_decode` + `BigRational::from_float`: the value of a finite double as a fraction with a positive
denominator (`mantissa · 2^exponent`, exponent = biased − 1075; a subnormal has its fraction shifted left once). -/
def floatFraction (b : Bits) : Int × Int :=
  let mant : Int := if fExp b = 0 then (fMant b * 2 : Nat) else (fMant b + 2 ^ 52 : Nat)
  let smant : Int := if fSign b = 0 then mant else -mant
  if 1075 ≤ fExp b then (smant * (2 ^ (fExp b - 1075) : Nat), 1)
  else (smant, (2 ^ (1075 - fExp b) : Nat))

/-- specification side: the rational number a finite double is. -/
def floatValue (b : Bits) : Rat := ((floatFraction b).1 : Rat) / ((floatFraction b).2 : Rat)

/-! ## exact → double: round to nearest, ties to even -/

/-- nearest double to `n / d` (`n, d > 0`) as bits without the sign; `0x7ff0…0` (infinity) on overflow.
`e` is chosen so that `⌊n / (d·2^e)⌋` lies in `[2^52, 2^54)` (or `e = −1074` for a subnormal), one more step brings it
below `2^53`; then `bits = (e + 1074)·2^52 + q` covers normal, subnormal and the carry into the next binade alike. -/
def roundPos (n d : Nat) : Bits :=
  let e0 : Int := max (-1074) ((n.log2 : Int) - (d.log2 : Int) - 53)
  let q0 : Nat := if 0 ≤ e0 then n / (d * 2 ^ e0.toNat) else n * 2 ^ (-e0).toNat / d
  let e : Int := if 2 ^ 53 ≤ q0 then e0 + 1 else e0
  let num : Nat := if 0 ≤ e then n else n * 2 ^ (-e).toNat
  let den : Nat := if 0 ≤ e then d * 2 ^ e.toNat else d
  let q := num / den
  let r := num % den
  let q' := if 2 * r > den ∨ (2 * r = den ∧ q % 2 = 1) then q + 1 else q
  let bits := (e + 1074).toNat * 2 ^ 52 + q'
  if bits ≥ 0x7ff0000000000000 then 0x7ff0000000000000 else bits

/-- nearest double to the fraction `n / d`, `d > 0` (an exact zero becomes `+0.0`). -/
def roundQ (n d : Int) : Bits :=
  if n = 0 then 0
  else if 0 < n then roundPos n.toNat d.toNat
  else 2 ^ 63 + roundPos n.natAbs d.toNat

/-- specification side: round a rational. -/
def roundRat (q : Rat) : Bits := roundQ q.num q.den

/-- the four conversions of the code, by representation. -/
def isizeToF64 (n : Int) : Bits := roundQ n 1                 -- `*y as f64`
def bigIntToF64 (n : Int) : Bits := roundQ n 1                -- `BigInt::to_f64`
def ratio32ToF64 (n d : Int) : Bits := roundQ n d             -- `Ratio<i32>::to_f64`
def bigRatioToF64 (n d : Int) : Bits := roundQ n d            -- `Ratio<BigInt>::to_f64`

def toF64 : Num → Bits
  | .fix n => isizeToF64 n
  | .big n => bigIntToF64 n
  | .rat32 n d => ratio32ToF64 n d
  | .bigrat n d => bigRatioToF64 n d

/-! ## arithmetic: the IEEE operations are a parameter -/

structure IEEE where
  add : Bits → Bits → Bits
  mul : Bits → Bits → Bits
  div : Bits → Bits → Bits
  neg : Bits → Bits          -- sign flip
  one : Bits                 -- 1.0

/-- an operand of a mixed operation. -/
inductive Operand where
  | exact (x : Num)
  | flo (b : Bits)
  deriving DecidableEq, Repr

inductive MRes where
  | flo (b : Bits)           -- a double
  | err (e : Err)
  | panic
  | notMixed                 -- both operands exact / both doubles: not this file's business
  deriving DecidableEq, Repr

def liftNum (r : Res Num) (k : Num → MRes) : MRes :=
  match r with
  | .ok v => k v
  | .err e => .err e
  | .panic => .panic

/-- `add_two` on one double and one exact operand (either order). -/
def mixedAdd (F : IEEE) : Operand → Operand → MRes
  | .flo x, .exact y | .exact y, .flo x => .flo (F.add x (toF64 y))
  | _, _ => .notMixed

/-- `multiply_two`. -/
def mixedMul (F : IEEE) : Operand → Operand → MRes
  | .flo x, .exact y | .exact y, .flo x => .flo (F.mul x (toF64 y))
  | _, _ => .notMixed

/-- `subtract_primitive` with two operands. -/
def mixedSub (F : IEEE) : Operand → Operand → MRes
  | .flo x, .exact y =>
    if y = .fix 0 then .flo x                                           -- `[x @ NumV(_), IntV(0)] => x.clone()`
    else liftNum (negate y) (fun ny => .flo (F.add x (toF64 ny)))
  | .exact x, .flo y => .flo (F.add (F.neg y) (toF64 x))
  | _, _ => .notMixed

/-- `divide_primitive` with two operands; `viaReciprocal` = the code as it is (finding K10e). -/
def mixedDiv (F : IEEE) (cfg : Cfg) (viaReciprocal : Bool) : Operand → Operand → MRes
  | .flo x, .exact y =>
    if viaReciprocal then liftNum (recip cfg y) (fun ry => .flo (F.mul x (toF64 ry)))
    else if y = .fix 0 then .err .div0 else .flo (F.div x (toF64 y))
  | .exact x, .flo y =>
    if viaReciprocal then .flo (F.mul (F.div F.one y) (toF64 x))
    else .flo (F.div (toF64 x) y)
  | _, _ => .notMixed

/-! ## comparison -/

/-- `cmp_exact_with_float`. -/
def cmpExactWithFloat (x : Num) (b : Bits) : Option Ordering :=
  match classify b with
  | .nan => none
  | .posInf => some .lt
  | .negInf => some .gt
  | .finite =>
    let f := floatFraction b
    match x with
    | .fix n =>
      if n.natAbs ≤ 2 ^ 53 then
        -- `(*x as f64).partial_cmp(&float)`: the cast is exact in this range, and the order of two finite doubles is
        -- the order of their values
        some (compare (n * f.2) f.1)
      else some (compare (n * f.2) (f.1 * 1))
    | x => some (compare (x.toQ.1 * f.2) (f.1 * x.toQ.2))      -- `exact.cmp(&BigRational::from_float(float))`

/-- `partial_cmp` with the double on either side. -/
def mixedCmp : Operand → Operand → Option (Option Ordering)
  | .exact x, .flo b => some (cmpExactWithFloat x b)
  | .flo b, .exact x => some ((cmpExactWithFloat x b).map Ordering.swap)
  | _, _ => none

/-- `< > <= >=` (`ord_internal` / `lte_primitive` …: an undefined order is `false`) and `=` (`exact_float_equality`). -/
def ordHolds (op : String) (o : Option Ordering) : Bool :=
  match op, o with
  | "lt", some .lt => true
  | "gt", some .gt => true
  | "le", some .lt | "le", some .eq => true
  | "ge", some .gt | "ge", some .eq => true
  | "eq", some .eq => true
  | _, _ => false

/-- specification side: the order of two rationals. -/
def cmpRat (a b : Rat) : Ordering := if a < b then .lt else if a = b then .eq else .gt

end SteelVerif.C10
