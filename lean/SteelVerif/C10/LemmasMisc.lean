/-
C10 — `quotient`/`remainder`/`modulo` statements, `abs`, `numerator`, `denominator`, comparison,
`exact-integer-sqrt`, specialised immediate paths.
-/
import SteelVerif.C10.LemmasDiv
namespace SteelVerif.C10

/-! ## quotient / remainder / modulo -/

theorem quotient_spec {x y : Num} (hx : Canonical x) (hy : Canonical y)
    (hxi : x.isInt = true) (hyi : y.isInt = true) :
    (y = .fix 0 → quotient x y = .err .div0) ∧
    (y ≠ .fix 0 → quotient x y = .ok (normInt (Int.tdiv x.toInt y.toInt))) :=
  intDivOp_spec Int.tdiv (fun _ _ hl _ hr hmin => tdiv_fits hl hr hmin) hx hy hxi hyi

theorem remainder_spec {x y : Num} (hx : Canonical x) (hy : Canonical y)
    (hxi : x.isInt = true) (hyi : y.isInt = true) :
    (y = .fix 0 → remainder x y = .err .div0) ∧
    (y ≠ .fix 0 → remainder x y = .ok (normInt (Int.tmod x.toInt y.toInt))) :=
  intDivOp_spec Int.tmod (fun _ _ _ hr hr0 _ => tmod_fits hr hr0) hx hy hxi hyi

theorem modulo_spec {x y : Num} (hx : Canonical x) (hy : Canonical y)
    (hxi : x.isInt = true) (hyi : y.isInt = true) :
    (y = .fix 0 → modulo x y = .err .div0) ∧
    (y ≠ .fix 0 → modulo x y = .ok (normInt (Int.fmod x.toInt y.toInt))) :=
  intDivOp_spec Int.fmod (fun _ _ _ hr hr0 _ => fmod_fits hr hr0) hx hy hxi hyi

/-! ## abs -/

def ratAbs (q : Rat) : Rat := if q < 0 then -q else q

theorem ratAbs_cast (n : Int) : ratAbs (n : Rat) = ((n.natAbs : Int) : Rat) := by
  unfold ratAbs
  by_cases h : n < 0
  · have : (n : Rat) < 0 := by
      have := (Rat.intCast_lt_intCast (a := n) (b := 0)).mpr h
      simpa using this
    simp only [this, ↓reduceIte]
    rw [← Rat.intCast_neg]; congr 1; omega
  · have : ¬ (n : Rat) < 0 := by
      intro h'
      have := (Rat.intCast_lt_intCast (a := n) (b := 0)).mp (by simpa using h')
      omega
    simp only [this, ↓reduceIte]; congr 1; omega

theorem ratAbs_div {n d : Int} (hd : 0 < d) :
    ratAbs ((n : Rat) / (d : Rat)) = ((n.natAbs : Int) : Rat) / (d : Rat) := by
  have hdr : (0 : Rat) < (d : Rat) := by
    have := (Rat.intCast_lt_intCast (a := 0) (b := d)).mpr hd
    simpa using this
  unfold ratAbs
  have key : (n : Rat) / (d : Rat) < 0 ↔ n < 0 := by
    rw [Rat.div_lt_iff hdr, Rat.zero_mul]
    have := Rat.intCast_lt_intCast (a := n) (b := 0)
    simpa using this
  by_cases h : n < 0
  · simp only [key.mpr h, ↓reduceIte]
    have : ((n.natAbs : Int) : Rat) = -(n : Rat) := by
      rw [← Rat.intCast_neg]; congr 1; omega
    rw [this]
    have := Rat.ne_of_gt hdr
    grind
  · have : ¬ ((n : Rat) / (d : Rat) < 0) := fun h' => h (key.mp h')
    simp only [this, ↓reduceIte]
    congr 2; omega

/-- `abs` is exact — for the repaired code on every operand, for the pinned code on `AbsGuard`. -/
theorem absNum_exact (cfg : Cfg) {x : Num} (hx : Canonical x)
    (hg : cfg.absChecked = true ∨ AbsGuard x = true) :
    Exact (absNum cfg x) (ratAbs (denote x)) := by
  cases x with
  | fix i =>
    simp only [absNum, denote, ratAbs_cast]
    by_cases hc : cfg.absChecked = true
    · simp only [hc, ↓reduceIte]; exact normInt_exact _
    · simp only [hc, Bool.false_eq_true, ↓reduceIte]
      have hmin : i ≠ I64_MIN := by
        rcases hg with h | h
        · exact absurd h hc
        · simpa [AbsGuard] using h
      have hfit : fitsIsize (i.natAbs : Int) = true := by
        have : fitsIsize i = true := hx
        rw [fitsIsize_iff] at *
        unfold I64_MIN at hmin
        omega
      rw [isz_ok hfit]
      exact Exact.mk rfl hfit
  | big n =>
    simp only [absNum, denote, ratAbs_cast]
    exact normInt_exact _
  | rat32 n d =>
    obtain ⟨hd, hgcd, hn32, hd32⟩ := hx
    simp only [absNum, denote, ratAbs_div (by omega : 0 < d)]
    have hgcd' : Int.gcd (n.natAbs : Int) d = 1 := by
      rw [Int.gcd_eq_natAbs_gcd_natAbs] at *; simpa using hgcd
    by_cases hneg : n < 0
    · have e : (n.natAbs : Int) = -n := by omega
      simp only [hneg, ↓reduceIte]
      rw [e] at hgcd' ⊢
      by_cases hc : cfg.absChecked = true
      · simp only [hc, ↓reduceIte]
        cases h : chk32 (-n) with
        | none =>
          dsimp only
          rw [← e]; exact fromQ_exact (by omega)
        | some m =>
          obtain ⟨hm32, hm⟩ := chk32_eq_some.mp h
          subst hm
          exact normR32_exact (by omega) hgcd' hm32 hd32
      · simp only [hc, Bool.false_eq_true, ↓reduceIte]
        have hmin : n ≠ I32_MIN := by
          rcases hg with h | h
          · exact absurd h hc
          · simpa [AbsGuard] using h
        have hfit : fitsI32 (-n) = true := by
          rw [fitsI32_iff] at *
          unfold I32_MIN at hmin
          omega
        rw [i32_ok hfit]
        simp only [Res.bind_ok, Res.pure_eq]
        exact normR32_exact (by omega) hgcd' hfit hd32
    · simp only [hneg, ↓reduceIte]
      have e : (n.natAbs : Int) = n := by omega
      rw [e]
      exact normR32_exact (by omega) hgcd hn32 hd32
  | bigrat n d =>
    obtain ⟨hd, hgcd, _⟩ := hx
    simp only [absNum, denote, ratAbs_div (by omega : 0 < d)]
    have hgcd' : Int.gcd (n.natAbs : Int) d = 1 := by
      rw [Int.gcd_eq_natAbs_gcd_natAbs] at *; simpa using hgcd
    exact normBigRat_exact (by omega) hgcd'

/-! ## numerator / denominator -/

theorem denote_num_den {x : Num} (hx : Canonical x) :
    (denote x).num = x.toQ.1 ∧ ((denote x).den : Int) = x.toQ.2 := by
  obtain ⟨hpos, hg⟩ := canonical_toQ hx
  have hx2 := denote_toQ x
  generalize denote x = q at *
  have hq : q = (q.num : Rat) / ((q.den : Int) : Rat) := by
    conv => lhs; rw [← Rat.num_divInt_den q, Rat.divInt_eq_div]
  have hden : 0 < (q.den : Int) := by
    have := q.den_pos; omega
  have hred : Int.gcd q.num (q.den : Int) = 1 := by
    have := q.reduced
    rw [Int.gcd_eq_natAbs_gcd_natAbs]; simpa using this
  have h3 := hx2.symm.trans hq
  have hc := cross_of_div_eq_div (by omega) (by omega) h3
  have := reduced_unique hpos hden hg hred hc
  exact ⟨this.1.symm, this.2.symm⟩

theorem numerator_exact {x : Num} (hx : Canonical x) :
    Exact (numerator x) (((denote x).num : Int) : Rat) := by
  rw [(denote_num_den hx).1]
  cases x with
  | fix n => exact Exact.mk rfl hx
  | big n => exact Exact.mk rfl hx
  | rat32 n d => exact Exact.mk rfl (fitsI32_fitsIsize hx.2.2.1)
  | bigrat n d => exact normInt_exact n

theorem denominator_exact {x : Num} (hx : Canonical x) :
    Exact (denominator x) ((((denote x).den : Nat) : Int) : Rat) := by
  rw [(denote_num_den hx).2]
  cases x with
  | fix n => exact Exact.mk rfl (by decide)
  | big n => exact Exact.mk rfl (by decide)
  | rat32 n d => exact Exact.mk rfl (fitsI32_fitsIsize hx.2.2.2)
  | bigrat n d => exact normInt_exact d

/-! ## comparison -/

theorem numEq_iff_eq {x y : Num} : numEq x y = true ↔ x = y := by
  cases x <;> cases y <;> simp [numEq]

/-- `=` decides equality of the denoted numbers. -/
theorem numEq_correct {x y : Num} (hx : Canonical x) (hy : Canonical y) :
    numEq x y = true ↔ denote x = denote y := by
  rw [numEq_iff_eq]
  exact ⟨fun h => h ▸ rfl, canonical_unique hx hy⟩

theorem numCmp_eq_compare (x y : Num) :
    numCmp x y = compare (x.toQ.1 * y.toQ.2) (y.toQ.1 * x.toQ.2) := by
  cases x <;> cases y <;> simp [numCmp, Num.toQ]

theorem denote_lt_iff {x y : Num} (hx : Canonical x) (hy : Canonical y) :
    denote x < denote y ↔ x.toQ.1 * y.toQ.2 < y.toQ.1 * x.toQ.2 := by
  rw [Rat.lt_iff, (denote_num_den hx).1, (denote_num_den hy).1,
    (denote_num_den hx).2, (denote_num_den hy).2]

theorem numLt_correct {x y : Num} (hx : Canonical x) (hy : Canonical y) :
    numLt x y = true ↔ denote x < denote y := by
  rw [denote_lt_iff hx hy]
  simp [numLt, numCmp_eq_compare, Int.compare_eq_lt]

theorem numGt_correct {x y : Num} (hx : Canonical x) (hy : Canonical y) :
    numGt x y = true ↔ denote y < denote x := by
  rw [denote_lt_iff hy hx]
  simp [numGt, numCmp_eq_compare, Int.compare_eq_gt]

theorem numLe_correct {x y : Num} (hx : Canonical x) (hy : Canonical y) :
    numLe x y = true ↔ denote x ≤ denote y := by
  rw [← Rat.not_lt, denote_lt_iff hy hx]
  simp [numLe, numCmp_eq_compare, Int.compare_eq_gt]

theorem numGe_correct {x y : Num} (hx : Canonical x) (hy : Canonical y) :
    numGe x y = true ↔ denote y ≤ denote x := by
  rw [← Rat.not_lt, denote_lt_iff hx hy]
  simp [numGe, numCmp_eq_compare, Int.compare_eq_lt]

end SteelVerif.C10
