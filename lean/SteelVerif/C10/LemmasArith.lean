/-
C10 — `Ratio<i32>` checked arithmetic computes the exact value when it does not give up, and
`add_two`, `negate`, `subtract`, `multiply_two` are exact on all canonical operands.
-/
import SteelVerif.C10.Lemmas
namespace SteelVerif.C10

/-! ## integer helpers -/

theorem tdiv_of_mul_left {g x : Int} (hg : g ≠ 0) : Int.tdiv (g * x) g = x := by
  rw [Int.tdiv_eq_ediv_of_dvd ⟨x, rfl⟩]; exact Int.mul_ediv_cancel_left x hg

theorem fitsI32_of_mul {g x : Int} (hg : 0 < g) (h : fitsI32 (g * x) = true) : fitsI32 x = true := by
  rw [fitsI32_iff] at *
  have e : g * x = x + (g - 1) * x := by rw [Int.sub_mul]; omega
  rcases Int.le_total 0 x with hx | hx
  · have : 0 ≤ (g - 1) * x := Int.mul_nonneg (by omega) hx
    omega
  · have : (g - 1) * x ≤ 0 := Int.mul_nonpos_of_nonneg_of_nonpos (by omega) hx
    omega

/-- the gcd of two integers, not both zero, with its cofactors. -/
theorem gcd_cofactors (a b : Int) (h : a ≠ 0 ∨ b ≠ 0) :
    ∃ a' b' : Int, 0 < (Int.gcd a b : Int) ∧ a = (Int.gcd a b : Int) * a' ∧
      b = (Int.gcd a b : Int) * b' ∧ Int.gcd a' b' = 1 := by
  have hpos : 0 < Int.gcd a b := Int.gcd_pos_iff.mpr h
  obtain ⟨a', ha⟩ := Int.gcd_dvd_left a b
  obtain ⟨b', hb⟩ := Int.gcd_dvd_right a b
  refine ⟨a', b', by omega, ha, hb, ?_⟩
  have h1 : Int.gcd a b = Int.gcd ((Int.gcd a b : Int) * a') ((Int.gcd a b : Int) * b') := by
    rw [← ha, ← hb]
  rw [Int.gcd_mul_left] at h1
  simp only [Int.natAbs_natCast] at h1
  have : Int.gcd a b * 1 = Int.gcd a b * Int.gcd a' b' := by omega
  exact (Nat.eq_of_mul_eq_mul_left hpos this).symm

/-! ## `Ratio::<i32>::new` -/

theorem gcd32_ok_of_pos_right {n d : Int} (hd : 0 < d) : gcd32 n d = .ok (Int.gcd n d) := by
  unfold gcd32 I32_MIN
  have : ¬((n = -2147483648 ∧ (d = 0 ∨ d = -2147483648)) ∨ (d = -2147483648 ∧ n = 0)) := by omega
  simp only [this, ↓reduceIte]

theorem gcd32_ok_of_pos_left {n d : Int} (hn : 0 < n) : gcd32 n d = .ok (Int.gcd n d) := by
  unfold gcd32 I32_MIN
  have : ¬((n = -2147483648 ∧ (d = 0 ∨ d = -2147483648)) ∨ (d = -2147483648 ∧ n = 0)) := by omega
  simp only [this, ↓reduceIte]

/-- `Ratio::<i32>::new(n, d)` with a positive denominator: the reduced fraction, still in range. -/
theorem ratio32New_pos {n d : Int} (hd : 0 < d) (hn32 : fitsI32 n = true) (hd32 : fitsI32 d = true) :
    ∃ n' d', ratio32New n d = .ok (n', d') ∧ 0 < d' ∧ Int.gcd n' d' = 1 ∧ n' * d = n * d' ∧
      fitsI32 n' = true ∧ fitsI32 d' = true := by
  unfold ratio32New
  have hd0 : d ≠ 0 := by omega
  simp only [hd0, ↓reduceIte]
  by_cases hn0 : n = 0
  · subst hn0
    exact ⟨0, 1, by simp, by omega, by simp, by simp, by decide, by decide⟩
  · simp only [hn0, ↓reduceIte]
    by_cases hnd : n = d
    · subst hnd
      exact ⟨1, 1, by simp, by omega, by simp, by simp, by decide, by decide⟩
    · simp only [hnd, ↓reduceIte, gcd32_ok_of_pos_right hd, Res.bind_ok]
      obtain ⟨n', d', hg, hn, hdd, hred⟩ := gcd_cofactors n d (Or.inr hd0)
      have hg0 : (Int.gcd n d : Int) ≠ 0 := by omega
      have e1 : Int.tdiv n (Int.gcd n d : Int) = n' := by
        conv => lhs; lhs; rw [hn]
        exact tdiv_of_mul_left hg0
      have e2 : Int.tdiv d (Int.gcd n d : Int) = d' := by
        conv => lhs; lhs; rw [hdd]
        exact tdiv_of_mul_left hg0
      rw [e1, e2]
      have hd'pos : 0 < d' := by
        rcases Int.lt_trichotomy d' 0 with h | h | h
        · have : (Int.gcd n d : Int) * d' < 0 := Int.mul_neg_of_pos_of_neg hg h
          omega
        · subst h; simp at hdd; omega
        · exact h
      have : ¬ d' < 0 := by omega
      simp only [this, ↓reduceIte, Res.pure_eq]
      refine ⟨n', d', rfl, hd'pos, hred, ?_, ?_, ?_⟩
      · conv => lhs; rw [hdd]
        conv => rhs; rw [hn]
        simp only [Int.mul_comm, Int.mul_left_comm]
      · rw [hn] at hn32; exact fitsI32_of_mul hg hn32
      · rw [hdd] at hd32; exact fitsI32_of_mul hg hd32

/-- `Rational32::into_steelval` of a reduced in-range fraction. -/
theorem normR32_exact {n d : Int} (hd : 0 < d) (hg : Int.gcd n d = 1)
    (hn32 : fitsI32 n = true) (hd32 : fitsI32 d = true) :
    Exact (.ok (normR32 (n, d))) ((n : Rat) / (d : Rat)) := by
  unfold normR32
  by_cases h1 : d = 1
  · subst h1
    simp only [↓reduceIte]
    refine Exact.mk ?_ (fitsI32_fitsIsize hn32)
    show (n : Rat) = (n : Rat) / ((1 : Int) : Rat)
    rw [rat_div_one]
  · simp only [h1, ↓reduceIte]
    exact Exact.mk rfl ⟨by omega, hg, hn32, hd32⟩

/-- `Ratio::<i32>::new(n, d).into_steelval()` with `d > 0`. -/
theorem ratio32New_norm_exact {n d : Int} (hd : 0 < d) (hn32 : fitsI32 n = true)
    (hd32 : fitsI32 d = true) :
    ∃ r, ratio32New n d = .ok r ∧ Exact (.ok (normR32 r)) ((n : Rat) / (d : Rat)) := by
  obtain ⟨n', d', hnew, hd', hg, hcross, h1, h2⟩ := ratio32New_pos hd hn32 hd32
  refine ⟨(n', d'), hnew, ?_⟩
  have := normR32_exact hd' hg h1 h2
  rwa [div_eq_div_of_cross (by omega) (by omega) hcross] at this

/-- `Rational32::new(y, 1)` for an `i32` integer. -/
theorem ratio32New_int {y : Int} (hy : fitsI32 y = true) : ratio32New y 1 = .ok (y, 1) := by
  obtain ⟨n', d', hnew, hd', hg, hcross, _, _⟩ := ratio32New_pos (n := y) (d := 1) (by omega) hy (by decide)
  have hdvd : d' ∣ n' * 1 := ⟨y, by rw [hcross, Int.mul_comm]⟩
  have : d' = 1 := by
    have h1 : d' ∣ Int.gcd d' n' * 1 := Int.dvd_gcd_mul_iff_dvd_mul.mpr hdvd
    rw [Int.gcd_comm, hg] at h1
    have : d' ∣ 1 := by simpa using h1
    have := Int.eq_one_of_dvd_one (by omega) this
    exact this
  subst this
  rw [hnew]; simp at hcross; rw [hcross]

/-! ## checked addition / subtraction -/

theorem rat_addsub_lcm {a c g b' d' : Rat} (hg : g ≠ 0) (hb : b' ≠ 0) (hd : d' ≠ 0) (sub : Bool) :
    (if sub then d' * a - b' * c else d' * a + b' * c) / (b' * (g * d')) =
      if sub then a / (g * b') - c / (g * d') else a / (g * b') + c / (g * d') := by
  cases sub <;> simp <;> grind

/-- `checked_add` / `checked_sub` either gives up or returns the exact reduced result. -/
theorem ratio32CheckedAddSub_spec (sub : Bool) {a b c d : Int} (hb : 0 < b) (hd : 0 < d) :
    ratio32CheckedAddSub sub a b c d = .ok none ∨
    ∃ r, ratio32CheckedAddSub sub a b c d = .ok (some r) ∧
      Exact (.ok (normR32 r))
        (if sub then (a : Rat) / (b : Rat) - (c : Rat) / (d : Rat)
         else (a : Rat) / (b : Rat) + (c : Rat) / (d : Rat)) := by
  unfold ratio32CheckedAddSub
  simp only [gcd32_ok_of_pos_right hd, Res.bind_ok]
  obtain ⟨b', d', hg, hbb, hdd, _⟩ := gcd_cofactors b d (Or.inl (by omega))
  generalize (Int.gcd b d : Int) = g at *
  have hg0 : g ≠ 0 := by omega
  have hb'pos : 0 < b' := by
    rcases Int.lt_trichotomy b' 0 with h | h | h
    · have : g * b' < 0 := Int.mul_neg_of_pos_of_neg hg h
      omega
    · subst h; simp at hbb; omega
    · exact h
  have hd'pos : 0 < d' := by
    rcases Int.lt_trichotomy d' 0 with h | h | h
    · have : g * d' < 0 := Int.mul_neg_of_pos_of_neg hg h
      omega
    · subst h; simp at hdd; omega
    · exact h
  have e1 : Int.tdiv b g = b' := by
    conv => lhs; lhs; rw [hbb]
    exact tdiv_of_mul_left hg0
  rw [e1]
  cases h1 : chk32 (b' * d) with
  | none => left; rfl
  | some lcm =>
    obtain ⟨hl32, hl⟩ := chk32_eq_some.mp h1
    subst hl
    dsimp only
    have hlpos : 0 < b' * d := Int.mul_pos hb'pos hd
    have e2 : Int.tdiv (b' * d) b = d' := by
      have : b' * d = b * d' := by
        rw [hdd]; conv => rhs; rw [hbb]
        simp only [Int.mul_comm, Int.mul_left_comm]
      rw [this]; exact tdiv_of_mul_left (by omega)
    have e3 : Int.tdiv (b' * d) d = b' := by
      rw [Int.mul_comm]; exact tdiv_of_mul_left (by omega)
    simp only [e2, e3]
    cases h2 : chk32 (d' * a) with
    | none => left; rfl
    | some ln =>
      obtain ⟨_, hln⟩ := chk32_eq_some.mp h2
      subst hln
      dsimp only
      cases h3 : chk32 (b' * c) with
      | none => left; rfl
      | some rn =>
        obtain ⟨_, hrn⟩ := chk32_eq_some.mp h3
        subst hrn
        dsimp only
        cases h4 : chk32 (if sub = true then d' * a - b' * c else d' * a + b' * c) with
        | none => left; rfl
        | some s =>
          obtain ⟨hs32, hs⟩ := chk32_eq_some.mp h4
          subst hs
          dsimp only
          right
          obtain ⟨r, hr, hex⟩ := ratio32New_norm_exact hlpos hs32 hl32
          refine ⟨r, by simp [hr], ?_⟩
          have key : (((if sub = true then d' * a - b' * c else d' * a + b' * c : Int) : Rat)) / ((b' * d : Int) : Rat)
              = if sub = true then (a : Rat) / (b : Rat) - (c : Rat) / (d : Rat)
                else (a : Rat) / (b : Rat) + (c : Rat) / (d : Rat) := by
            have hgr : (g : Rat) ≠ 0 := cast_ne_zero hg0
            have hbr : (b' : Rat) ≠ 0 := cast_ne_zero (by omega)
            have hdr : (d' : Rat) ≠ 0 := cast_ne_zero (by omega)
            have := rat_addsub_lcm (a := (a : Rat)) (c := (c : Rat)) hgr hbr hdr sub
            conv => rhs; rw [hbb, hdd]
            conv => lhs; rhs; rw [hdd]
            cases sub <;>
              simp only [Rat.intCast_mul, Rat.intCast_add, Rat.intCast_sub, Bool.false_eq_true,
                ↓reduceIte] at this ⊢ <;> exact this
          rw [key] at hex
          exact hex

/-! ## checked multiplication -/

theorem ratio32CheckedMul_spec {a b c d : Int} (hb : 0 < b) (hd : 0 < d) :
    ratio32CheckedMul a b c d = .ok none ∨
    ∃ r, ratio32CheckedMul a b c d = .ok (some r) ∧
      Exact (.ok (normR32 r)) ((a : Rat) / (b : Rat) * ((c : Rat) / (d : Rat))) := by
  unfold ratio32CheckedMul
  simp only [gcd32_ok_of_pos_right hd, gcd32_ok_of_pos_left hb, Res.bind_ok]
  obtain ⟨a', d', hg1, haa, hdd, _⟩ := gcd_cofactors a d (Or.inr (by omega))
  obtain ⟨b', c', hg2, hbb, hcc, _⟩ := gcd_cofactors b c (Or.inl (by omega))
  generalize (Int.gcd a d : Int) = g1 at *
  generalize (Int.gcd b c : Int) = g2 at *
  have hg10 : g1 ≠ 0 := by omega
  have hg20 : g2 ≠ 0 := by omega
  have hb'pos : 0 < b' := by
    rcases Int.lt_trichotomy b' 0 with h | h | h
    · have : g2 * b' < 0 := Int.mul_neg_of_pos_of_neg hg2 h
      omega
    · subst h; simp at hbb; omega
    · exact h
  have hd'pos : 0 < d' := by
    rcases Int.lt_trichotomy d' 0 with h | h | h
    · have : g1 * d' < 0 := Int.mul_neg_of_pos_of_neg hg1 h
      omega
    · subst h; simp at hdd; omega
    · exact h
  have e1 : Int.tdiv a g1 = a' := by
    conv => lhs; lhs; rw [haa]
    exact tdiv_of_mul_left hg10
  have e2 : Int.tdiv d g1 = d' := by
    conv => lhs; lhs; rw [hdd]
    exact tdiv_of_mul_left hg10
  have e3 : Int.tdiv b g2 = b' := by
    conv => lhs; lhs; rw [hbb]
    exact tdiv_of_mul_left hg20
  have e4 : Int.tdiv c g2 = c' := by
    conv => lhs; lhs; rw [hcc]
    exact tdiv_of_mul_left hg20
  rw [e1, e2, e3, e4]
  cases h1 : chk32 (a' * c') with
  | none => left; rfl
  | some n =>
    obtain ⟨hn32, hn⟩ := chk32_eq_some.mp h1
    subst hn
    dsimp only
    cases h2 : chk32 (b' * d') with
    | none => left; rfl
    | some m =>
      obtain ⟨hm32, hm⟩ := chk32_eq_some.mp h2
      subst hm
      dsimp only
      right
      have hmpos : 0 < b' * d' := Int.mul_pos hb'pos hd'pos
      obtain ⟨r, hr, hex⟩ := ratio32New_norm_exact hmpos hn32 hm32
      refine ⟨r, by simp [hr], ?_⟩
      have key : ((a' * c' : Int) : Rat) / ((b' * d' : Int) : Rat)
          = (a : Rat) / (b : Rat) * ((c : Rat) / (d : Rat)) := by
        have h1r : (g1 : Rat) ≠ 0 := cast_ne_zero hg10
        have h2r : (g2 : Rat) ≠ 0 := cast_ne_zero hg20
        have hbr : (b' : Rat) ≠ 0 := cast_ne_zero (by omega)
        have hdr : (d' : Rat) ≠ 0 := cast_ne_zero (by omega)
        conv => rhs; rw [haa, hbb, hcc, hdd]
        simp only [Rat.intCast_mul]
        grind
      rw [key] at hex
      exact hex

end SteelVerif.C10
