/-
C10 — property theorems: exact arithmetic is exact and the numeric tower is coherent.

`denote : Num → Rat` is the number a value stands for (specification side, Lean's `Rat`);
`Canonical` is the canonical form the property demands; `Exact r q` says: the operation returned
normally, its value denotes exactly `q`, and it is canonical.  Every theorem quantifies over ALL
canonical operands — there is no bound on magnitudes.
-/
import SteelVerif.C10.LemmasOps
namespace SteelVerif.C10

/-! ## canonicalisation -/

/-- `BigInt::into_steelval` is exact and canonical for every integer. -/
theorem normalize_int_exact (n : Int) : Exact (.ok (normInt n)) (n : Rat) := normInt_exact n

/-- `BigRational::new(n, d).into_steelval()` is exact and canonical for every fraction. -/
theorem normalize_ratio_exact {n d : Int} (hd : d ≠ 0) : Exact (fromQ n d) ((n : Rat) / (d : Rat)) :=
  fromQ_exact hd

example : fromQ 6 (-4) = .ok (.rat32 (-3) 2) := by decide
example : fromQ 18446744073709551616 2 = .ok (.big 9223372036854775808) := by decide
example : fromQ 4294967296 6 = .ok (.bigrat 2147483648 3) := by decide

/-- **Coherence.** Canonical values that denote the same number are the same value. -/
theorem canonical_representation_unique {a b : Num} (ha : Canonical a) (hb : Canonical b)
    (h : denote a = denote b) : a = b := canonical_unique ha hb h

example : Canonical (.rat32 (-7) 3) ∧ ¬ Canonical (.rat32 (-14) 6) ∧ ¬ Canonical (.rat32 1 (-27)) := by decide

/-! ## + - * -/

theorem add_exact {a b : Num} (ha : Canonical a) (hb : Canonical b) :
    Exact (addTwo a b) (denote a + denote b) := addTwo_exact ha hb

theorem neg_exact {a : Num} (ha : Canonical a) : Exact (negate a) (-(denote a)) := negate_exact ha

theorem sub_exact {a b : Num} (ha : Canonical a) (hb : Canonical b) :
    Exact (subTwo a b) (denote a - denote b) := subTwo_exact ha hb

theorem mul_exact {a b : Num} (ha : Canonical a) (hb : Canonical b) :
    Exact (mulTwo a b) (denote a * denote b) := mulTwo_exact ha hb

-- non-vacuity: promotion, demotion and the checked/overflowing paths are all exercised
example : addTwo (.fix 9223372036854775807) (.fix 1) = .ok (.big 9223372036854775808) := by decide
example : addTwo (.big 9223372036854775808) (.fix (-1)) = .ok (.fix 9223372036854775807) := by decide
example : addTwo (.rat32 2147483647 2) (.rat32 2147483647 3) = .ok (.bigrat 10737418235 6) := by decide
example : addTwo (.fix 12) (.rat32 (-7) 3) = .ok (.rat32 29 3) := by decide
example : subTwo (.rat32 1 2) (.rat32 1 2) = .ok (.fix 0) := by decide
example : mulTwo (.rat32 1 2) (.bigrat 1000000000000000000000000000000 3)
    = .ok (.bigrat 500000000000000000000000000000 3) := by decide
example : mulTwo (.fix 4294967296) (.fix 4294967296) = .ok (.big 18446744073709551616) := by decide

end SteelVerif.C10
