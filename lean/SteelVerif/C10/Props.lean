/-
C10 — property theorems: exact arithmetic is exact and the numeric tower is coherent.

`denote : Num → Rat` is the number a value stands for (specification side, Lean's `Rat`);
`Canonical` is the canonical form the property demands; `Exact r q` says: the operation returned
normally, its value denotes exactly `q`, and it is canonical.  Every theorem quantifies over ALL
canonical operands — there is no bound on magnitudes.

Where the code at the pinned commit is defective the family has three members:
  `<op>_exact`            the full statement, for the repaired code (`cfg.<flag> = true`);
  `<op>_exact_partial`    the code as it is, under a decidable guard on the operands;
  `<op>_pinned_counterexample`  a `decide`d witness outside the guard (replayed on the real engine).
`Gen.cfg` (regenerated from the Rust source) says which of the two the current tree is.
-/
import SteelVerif.C10.LemmasExpt
import SteelVerif.C10.Arms
import SteelVerif.C10.LemmasShapes
import SteelVerif.C10.LemmasMixed
namespace SteelVerif.C10

/-! ## canonicalisation (`IntoSteelVal`) -/

/-- `BigInt::into_steelval` is exact and canonical for every integer. -/
theorem normalize_int_exact (n : Int) : Exact (.ok (normInt n)) (n : Rat) := normInt_exact n

/-- `BigRational::new(n, d).into_steelval()` is exact and canonical for every fraction. -/
theorem normalize_ratio_exact {n d : Int} (hd : d ≠ 0) : Exact (fromQ n d) ((n : Rat) / (d : Rat)) :=
  fromQ_exact hd

/-- Non-vacuity (theorems applied): an integer beyond 64 bits, a fraction with a negative denominator. -/
example : Exact (.ok (normInt 9223372036854775808)) ((9223372036854775808 : Int) : Rat) :=
  normalize_int_exact _
example : normInt 9223372036854775808 = .big 9223372036854775808 ∧ normInt (-5) = .fix (-5) := by decide
example : Exact (fromQ 6 (-4)) (((6 : Int) : Rat) / ((-4 : Int) : Rat)) := normalize_ratio_exact (by decide)
example : fromQ 6 (-4) = .ok (.rat32 (-3) 2) := by decide
example : fromQ 18446744073709551616 2 = .ok (.big 9223372036854775808) := by decide
example : fromQ 4294967296 6 = .ok (.bigrat 2147483648 3) := by decide

/-- **Coherence.** Canonical values that denote the same number are the same value. -/
theorem canonical_representation_unique {a b : Num} (ha : Canonical a) (hb : Canonical b)
    (h : denote a = denote b) : a = b := canonical_unique ha hb h

/-- Non-vacuity: whatever canonical `b` denotes −7/3 IS `rat32 (-7) 3`; and the hypothesis `Canonical` is needed
(−14/6 denotes the same number and is a different value). -/
example (b : Num) (hb : Canonical b) (h : denote (.rat32 (-7) 3) = denote b) : Num.rat32 (-7) 3 = b :=
  canonical_representation_unique (by decide) hb h
example : denote (.rat32 (-14) 6) = denote (.rat32 (-7) 3) ∧ Num.rat32 (-14) 6 ≠ .rat32 (-7) 3 :=
  ⟨by simp only [denote]; grind, by decide⟩
example : Canonical (.rat32 (-7) 3) ∧ ¬ Canonical (.rat32 (-14) 6) ∧ ¬ Canonical (.rat32 1 (-27))
    ∧ ¬ Canonical (.big 5) ∧ ¬ Canonical (.bigrat 1 2) := by decide

/-! ## + - * -/

theorem add_exact {a b : Num} (ha : Canonical a) (hb : Canonical b) :
    Exact (addTwo a b) (denote a + denote b) := addTwo_exact ha hb

theorem neg_exact {a : Num} (ha : Canonical a) : Exact (negate a) (-(denote a)) := negate_exact ha

theorem sub_exact {a b : Num} (ha : Canonical a) (hb : Canonical b) :
    Exact (subTwo a b) (denote a - denote b) := subTwo_exact ha hb

theorem mul_exact {a b : Num} (ha : Canonical a) (hb : Canonical b) :
    Exact (mulTwo a b) (denote a * denote b) := mulTwo_exact ha hb

/-- Non-vacuity (theorems applied to concrete canonical operands across representations). -/
example : Exact (addTwo (.rat32 2147483647 2) (.big 9223372036854775808))
    (denote (.rat32 2147483647 2) + denote (.big 9223372036854775808)) := add_exact (by decide) (by decide)
example : Exact (negate (.fix (-9223372036854775808))) (-(denote (.fix (-9223372036854775808)))) :=
  neg_exact (by decide)
example : Exact (subTwo (.rat32 1 2) (.bigrat 1000000000000000000000000000000 3))
    (denote (.rat32 1 2) - denote (.bigrat 1000000000000000000000000000000 3)) :=
  sub_exact (by decide) (by decide)
example : Exact (mulTwo (.rat32 1 2) (.bigrat 1000000000000000000000000000000 3))
    (denote (.rat32 1 2) * denote (.bigrat 1000000000000000000000000000000 3)) :=
  mul_exact (by decide) (by decide)

/-- **Variadic `+` and `*`** (`add_primitive` / `multiply_primitive` fold `add_two` / `multiply_two` over the
operands from the left): the fold over ANY list of canonical operands is exact and canonical — every
intermediate result is canonical again, so promotions and demotions compose. -/
theorem add_chain_exact : ∀ (xs : List Num) (a : Num), Canonical a → (∀ x ∈ xs, Canonical x) →
    Exact (xs.foldlM (fun acc x => addTwo acc x) a) (xs.foldl (fun q x => q + denote x) (denote a))
  | [], a, ha, _ => Exact.mk rfl ha
  | x :: xs, a, ha, hxs => by
      obtain ⟨v, hv, hden, hcan⟩ := add_exact ha (hxs x (by simp))
      have ih := add_chain_exact xs v hcan (fun y hy => hxs y (by simp [hy]))
      simp only [List.foldlM_cons, List.foldl_cons]
      rw [hden] at ih
      have : (addTwo a x >>= fun acc => xs.foldlM (fun acc x => addTwo acc x) acc)
          = xs.foldlM (fun acc x => addTwo acc x) v := by rw [hv]; rfl
      rw [this]; exact ih

theorem mul_chain_exact : ∀ (xs : List Num) (a : Num), Canonical a → (∀ x ∈ xs, Canonical x) →
    Exact (xs.foldlM (fun acc x => mulTwo acc x) a) (xs.foldl (fun q x => q * denote x) (denote a))
  | [], a, ha, _ => Exact.mk rfl ha
  | x :: xs, a, ha, hxs => by
      obtain ⟨v, hv, hden, hcan⟩ := mul_exact ha (hxs x (by simp))
      have ih := mul_chain_exact xs v hcan (fun y hy => hxs y (by simp [hy]))
      simp only [List.foldlM_cons, List.foldl_cons]
      rw [hden] at ih
      have : (mulTwo a x >>= fun acc => xs.foldlM (fun acc x => mulTwo acc x) acc)
          = xs.foldlM (fun acc x => mulTwo acc x) v := by rw [hv]; rfl
      rw [this]; exact ih

/-- Non-vacuity: `(+ (2^63-1) 1 -1 1/2)` goes fixnum → bignum → fixnum → ratio. -/
example : [Num.fix 1, .fix (-1), .rat32 1 2].foldlM (fun acc x => addTwo acc x) (.fix 9223372036854775807)
    = .ok (.bigrat 18446744073709551615 2) := by decide
example : Exact ([Num.fix 1, .fix (-1), .rat32 1 2].foldlM (fun acc x => addTwo acc x) (.fix 9223372036854775807))
    ([Num.fix 1, .fix (-1), .rat32 1 2].foldl (fun q x => q + denote x) (denote (.fix 9223372036854775807))) :=
  add_chain_exact _ _ (by decide) (by decide)
example : Exact ([Num.fix 4294967296, .rat32 1 2].foldlM (fun acc x => mulTwo acc x) (.fix 4294967296))
    ([Num.fix 4294967296, .rat32 1 2].foldl (fun q x => q * denote x) (denote (.fix 4294967296))) :=
  mul_chain_exact _ _ (by decide) (by decide)

-- non-vacuity: promotion, demotion and the checked/overflowing paths are all exercised
example : addTwo (.fix 9223372036854775807) (.fix 1) = .ok (.big 9223372036854775808) := by decide
example : addTwo (.big 9223372036854775808) (.fix (-1)) = .ok (.fix 9223372036854775807) := by decide
example : addTwo (.rat32 2147483647 2) (.rat32 2147483647 3) = .ok (.bigrat 10737418235 6) := by decide
example : addTwo (.fix 12) (.rat32 (-7) 3) = .ok (.rat32 29 3) := by decide
example : negate (.fix (-9223372036854775808)) = .ok (.big 9223372036854775808) := by decide
example : negate (.rat32 (-2147483648) 3) = .ok (.bigrat 2147483648 3) := by decide
example : subTwo (.rat32 1 2) (.rat32 1 2) = .ok (.fix 0) := by decide
example : mulTwo (.rat32 1 2) (.bigrat 1000000000000000000000000000000 3)
    = .ok (.bigrat 500000000000000000000000000000 3) := by decide
example : mulTwo (.fix 4294967296) (.fix 4294967296) = .ok (.big 18446744073709551616) := by decide

/-! ## `/` -/

/-- division by a non-zero number is exact (repaired reciprocal). -/
theorem div_exact (cfg : Cfg) (hc : cfg.recipChecked = true) {a b : Num} (ha : Canonical a)
    (hb : Canonical b) (hne : denote b ≠ 0) : Exact (divTwo cfg a b) (denote a / denote b) :=
  divTwo_exact cfg ha hb (fun h => hne (by rw [h]; rfl)) (Or.inl hc)

/-- the code as it is: exact unless the divisor is `i32::MIN` or a 32-bit ratio with that numerator. -/
theorem div_exact_partial (cfg : Cfg) {a b : Num} (ha : Canonical a) (hb : Canonical b)
    (hne : denote b ≠ 0) (hg : RecipGuard b = true) : Exact (divTwo cfg a b) (denote a / denote b) :=
  divTwo_exact cfg ha hb (fun h => hne (by rw [h]; rfl)) (Or.inr hg)

theorem div_pinned_counterexample :
    divTwo Cfg.pinned (.fix 1) (.fix (-2147483648)) = .panic ∧
    divTwo Cfg.pinned (.fix 5) (.rat32 (-2147483648) 3) = .panic ∧
    RecipGuard (.fix (-2147483648)) = false ∧ RecipGuard (.rat32 (-2147483648) 3) = false := by decide

/-- division by zero is an error, and the only canonical zero is `0`. -/
theorem div_by_zero (cfg : Cfg) (a : Num) {b : Num} (hb : Canonical b) (h0 : denote b = 0) :
    divTwo cfg a b = .err .div0 := by
  rw [canonical_zero hb h0]; exact divTwo_zero cfg a

/-- a canonical value that `=` distinguishes from `0` does not denote `0` (used to discharge `denote b ≠ 0` on
concrete operands: `Rat` division does not reduce under `decide`). -/
theorem denote_ne_zero_of_numEq {a : Num} (ha : Canonical a) (h : numEq a (.fix 0) = false) : denote a ≠ 0 := by
  intro h0
  have h1 : denote a = denote (.fix 0) := by rw [h0]; simp [denote]
  rw [(numEq_correct ha (by decide)).2 h1] at h; cases h

/-- unary `/` (`(/ x)`, the `recip` closure alone): exact for every non-zero canonical operand (pinned code:
inside `RecipGuard`). -/
theorem unary_div_exact (cfg : Cfg) {x : Num} (hx : Canonical x) (hne : denote x ≠ 0)
    (hg : cfg.recipChecked = true ∨ RecipGuard x = true) : Exact (recip cfg x) (denote x)⁻¹ :=
  recip_exact cfg hx (fun h => hne (by rw [h]; rfl)) hg

/-- Non-vacuity (theorems applied): the repaired code on the divisor that breaks the pinned code; the pinned
code inside its guard; a ratio divisor; division by the canonical zero. -/
example : Exact (divTwo Cfg.repaired (.fix 1) (.fix (-2147483648)))
    (denote (.fix 1) / denote (.fix (-2147483648))) := div_exact _ rfl (by decide) (by decide) (by decide)
example : Exact (divTwo Cfg.pinned (.fix 7) (.fix (-14))) (denote (.fix 7) / denote (.fix (-14))) :=
  div_exact_partial _ (by decide) (by decide) (by decide) (by decide)
example : Exact (divTwo Cfg.pinned (.big 18446744073709551616) (.rat32 (-2) 3))
    (denote (.big 18446744073709551616) / denote (.rat32 (-2) 3)) :=
  div_exact_partial _ (by decide) (by decide) (denote_ne_zero_of_numEq (by decide) rfl) (by decide)
example : Exact (recip Cfg.repaired (.rat32 (-2147483648) 3)) (denote (.rat32 (-2147483648) 3))⁻¹ :=
  unary_div_exact _ (by decide) (denote_ne_zero_of_numEq (by decide) rfl) (Or.inl rfl)
example : divTwo Cfg.pinned (.rat32 1 2) (.fix 0) = .err .div0 := div_by_zero _ _ (by decide) (by decide)
example : divTwo Cfg.pinned (.fix 7) (.fix (-14)) = .ok (.rat32 (-1) 2) := by decide
example : divTwo Cfg.repaired (.fix 1) (.fix (-2147483648)) = .ok (.bigrat (-1) 2147483648) := by decide
example : divTwo Cfg.pinned (.big 18446744073709551616) (.fix 2) = .ok (.big 9223372036854775808) := by decide
example : divTwo Cfg.pinned (.rat32 1 2) (.fix 0) = .err .div0 := by decide

/-! ## quotient, remainder, modulo (integer operands) -/

theorem quotient_exact {a b : Num} (ha : Canonical a) (hb : Canonical b) (hai : a.isInt = true)
    (hbi : b.isInt = true) (hne : b ≠ .fix 0) :
    Exact (quotient a b) ((Int.tdiv a.toInt b.toInt : Int) : Rat) := by
  rw [(quotient_spec ha hb hai hbi).2 hne]; exact normInt_exact _

theorem remainder_exact {a b : Num} (ha : Canonical a) (hb : Canonical b) (hai : a.isInt = true)
    (hbi : b.isInt = true) (hne : b ≠ .fix 0) :
    Exact (remainder a b) ((Int.tmod a.toInt b.toInt : Int) : Rat) := by
  rw [(remainder_spec ha hb hai hbi).2 hne]; exact normInt_exact _

theorem modulo_exact {a b : Num} (ha : Canonical a) (hb : Canonical b) (hai : a.isInt = true)
    (hbi : b.isInt = true) (hne : b ≠ .fix 0) :
    Exact (modulo a b) ((Int.fmod a.toInt b.toInt : Int) : Rat) := by
  rw [(modulo_spec ha hb hai hbi).2 hne]; exact normInt_exact _

theorem integer_division_by_zero {a : Num} (ha : Canonical a) (hai : a.isInt = true) :
    quotient a (.fix 0) = .err .div0 ∧ remainder a (.fix 0) = .err .div0 ∧
      modulo a (.fix 0) = .err .div0 :=
  ⟨(quotient_spec ha (by decide) hai rfl).1 rfl, (remainder_spec ha (by decide) hai rfl).1 rfl,
   (modulo_spec ha (by decide) hai rfl).1 rfl⟩

/-- Non-vacuity (theorems applied): the one fixnum pair whose quotient leaves the fixnums; bignum operands with
negative signs (where `tmod` and `fmod` differ); a bignum divided by zero. -/
example : Exact (quotient (.fix (-9223372036854775808)) (.fix (-1)))
    ((Int.tdiv (-9223372036854775808) (-1) : Int) : Rat) :=
  quotient_exact (by decide) (by decide) rfl rfl (by decide)
example : Exact (remainder (.big (-100000000000000000000)) (.fix 7))
    ((Int.tmod (-100000000000000000000) 7 : Int) : Rat) :=
  remainder_exact (by decide) (by decide) rfl rfl (by decide)
example : Exact (modulo (.big 100000000000000000000) (.fix (-7)))
    ((Int.fmod 100000000000000000000 (-7) : Int) : Rat) :=
  modulo_exact (by decide) (by decide) rfl rfl (by decide)
example : quotient (.big 100000000000000000000) (.fix 0) = .err .div0 :=
  (integer_division_by_zero (a := .big 100000000000000000000) (by decide) rfl).1
example : quotient (.fix (-9223372036854775808)) (.fix (-1)) = .ok (.big 9223372036854775808) := by decide
example : modulo (.fix (-7)) (.fix 2) = .ok (.fix 1) := by decide
example : remainder (.big (-100000000000000000000)) (.fix 7) = .ok (.fix (-2)) := by decide
example : modulo (.big 100000000000000000000) (.fix (-7)) = .ok (.fix (-5)) := by decide

/-! ## abs -/

theorem abs_exact (cfg : Cfg) (hc : cfg.absChecked = true) {a : Num} (ha : Canonical a) :
    Exact (absNum cfg a) (ratAbs (denote a)) := absNum_exact cfg ha (Or.inl hc)

theorem abs_exact_partial (cfg : Cfg) {a : Num} (ha : Canonical a) (hg : AbsGuard a = true) :
    Exact (absNum cfg a) (ratAbs (denote a)) := absNum_exact cfg ha (Or.inr hg)

theorem abs_pinned_counterexample :
    absNum Cfg.pinned (.fix (-9223372036854775808)) = .panic ∧
    absNum Cfg.pinned (.rat32 (-2147483648) 3) = .panic ∧
    AbsGuard (.fix (-9223372036854775808)) = false ∧ AbsGuard (.rat32 (-2147483648) 3) = false := by
  decide

/-- Non-vacuity (theorems applied). -/
example : Exact (absNum Cfg.repaired (.fix (-9223372036854775808))) (ratAbs (denote (.fix (-9223372036854775808)))) :=
  abs_exact _ rfl (by decide)
example : Exact (absNum Cfg.pinned (.rat32 (-7) 3)) (ratAbs (denote (.rat32 (-7) 3))) :=
  abs_exact_partial _ (by decide) (by decide)
example : absNum Cfg.repaired (.fix (-9223372036854775808)) = .ok (.big 9223372036854775808) := by decide
example : absNum Cfg.repaired (.rat32 (-2147483648) 3) = .ok (.bigrat 2147483648 3) := by decide
example : absNum Cfg.pinned (.rat32 (-7) 3) = .ok (.rat32 7 3) := by decide

/-! ## numerator, denominator -/

theorem numerator_is_exact {a : Num} (ha : Canonical a) :
    Exact (numerator a) (((denote a).num : Int) : Rat) := numerator_exact ha

theorem denominator_is_exact {a : Num} (ha : Canonical a) :
    Exact (denominator a) ((((denote a).den : Nat) : Int) : Rat) := denominator_exact ha

/-- Non-vacuity (theorems applied): a big ratio whose denominator is a fixnum. -/
example : Exact (numerator (.bigrat (-1000000000000000000000000000000) 3))
    (((denote (.bigrat (-1000000000000000000000000000000) 3)).num : Int) : Rat) :=
  numerator_is_exact (by decide)
example : Exact (denominator (.bigrat (-1000000000000000000000000000000) 3))
    ((((denote (.bigrat (-1000000000000000000000000000000) 3)).den : Nat) : Int) : Rat) :=
  denominator_is_exact (by decide)
example : numerator (.rat32 (-3) 2) = .ok (.fix (-3)) ∧ denominator (.rat32 (-3) 2) = .ok (.fix 2) := by
  decide

/-! ## gcd, lcm (integer operands) -/

theorem gcd_exact (cfg : Cfg) (hc : cfg.absChecked = true) (a b : Int) :
    Exact (gcdNum cfg (normInt a) (normInt b)) ((Int.gcd a b : Int) : Rat) := by
  rw [gcdNum_spec cfg a b (Or.inl hc)]; exact normInt_exact _

theorem gcd_exact_partial (cfg : Cfg) (a b : Int) (hg : (Int.gcd a b : Int) ≠ 9223372036854775808) :
    Exact (gcdNum cfg (normInt a) (normInt b)) ((Int.gcd a b : Int) : Rat) := by
  rw [gcdNum_spec cfg a b (Or.inr hg)]; exact normInt_exact _

theorem lcm_exact (cfg : Cfg) (hc : cfg.absChecked = true) (a b : Int) :
    Exact (lcmNum cfg (normInt a) (normInt b)) ((Int.lcm a b : Int) : Rat) := by
  rw [lcmNum_spec cfg a b (Or.inl hc)]; exact normInt_exact _

theorem lcm_exact_partial (cfg : Cfg) (a b : Int)
    (hg : (Int.gcd a b : Int) ≠ 9223372036854775808 ∧ (Int.lcm a b : Int) ≠ 9223372036854775808) :
    Exact (lcmNum cfg (normInt a) (normInt b)) ((Int.lcm a b : Int) : Rat) := by
  rw [lcmNum_spec cfg a b (Or.inr hg)]; exact normInt_exact _

/-- every canonical integer operand is `normInt` of its value, so the statements above cover all. -/
theorem integer_operand_is_normInt {x : Num} (hc : Canonical x) (h : x.isInt = true) :
    x = normInt x.toInt := canonical_int_eq_normInt hc h

theorem gcd_pinned_counterexample :
    gcdNum Cfg.pinned (.fix (-9223372036854775808)) (.fix 0) = .panic ∧
    lcmNum Cfg.pinned (.fix (-9223372036854775808)) (.fix 1) = .panic := by decide

/-- Non-vacuity (theorems applied): the operand that breaks the pinned `abs`, bignum operands, mixed signs. -/
example : Exact (gcdNum Cfg.repaired (normInt 0) (normInt (-9223372036854775808)))
    ((Int.gcd 0 (-9223372036854775808) : Int) : Rat) := gcd_exact _ rfl _ _
example : Exact (gcdNum Cfg.pinned (normInt 100000000000000000000) (normInt 30))
    ((Int.gcd 100000000000000000000 30 : Int) : Rat) := gcd_exact_partial _ _ _ (by decide)
example : Exact (lcmNum Cfg.repaired (normInt 4) (normInt (-6))) ((Int.lcm 4 (-6) : Int) : Rat) :=
  lcm_exact _ rfl _ _
example : Exact (lcmNum Cfg.pinned (normInt 100000000000000000000) (normInt (-6)))
    ((Int.lcm 100000000000000000000 (-6) : Int) : Rat) := lcm_exact_partial _ _ _ (by decide)
example : Num.big 100000000000000000000 = normInt (Num.big 100000000000000000000).toInt :=
  integer_operand_is_normInt (by decide) rfl
example : gcdNum Cfg.pinned (.fix 12) (.fix 18) = .ok (.fix 6) := by decide
example : gcdNum Cfg.pinned (.big 100000000000000000000) (.fix 30) = .ok (.fix 10) := by decide
example : lcmNum Cfg.pinned (.fix 4) (.fix (-6)) = .ok (.fix 12) := by decide
example : gcdNum Cfg.repaired (.fix 0) (.fix (-9223372036854775808)) = .ok (.big 9223372036854775808) := by
  decide

/-! ## expt with an exact exponent -/

/-- integer base, non-negative exponent (every configuration): the exact power. -/
theorem expt_int_exact (cfg : Cfg) (l : Int) {r : Int} (hr : 0 ≤ r) :
    Exact (expt cfg (normInt l) (.fix r)) (((l : Rat)) ^ r.toNat) := by
  rw [expt_int_nonneg cfg l hr, ← Rat.intCast_pow]; exact normInt_exact _

/-- ratio base, non-negative exponent, repaired code. -/
theorem expt_ratio_exact (cfg : Cfg) (hc : cfg.exptChecked = true) {a : Num} (ha : Canonical a)
    (hk : a.isInt = false) {r : Int} (hr : 0 ≤ r) (hr32 : fitsI32 r = true) :
    Exact (expt cfg a (.fix r)) (denote a ^ r.toNat) := by
  cases a with
  | fix n => simp [Num.isInt] at hk
  | big n => simp [Num.isInt] at hk
  | rat32 n d => exact expt_rat32_nonneg_checked cfg hc ha hr hr32
  | bigrat n d =>
    by_cases h0 : r = 0
    · subst h0
      simp only [expt, ↓reduceIte, Int.toNat_zero, Rat.pow_zero]
      exact Exact.mk rfl (by decide)
    · exact expt_bigrat_pos cfg ha (by omega)

/-- ratio base, the code as it is: exact while `Ratio<i32>::pow` stays inside `i32`; big ratios always. -/
theorem expt_ratio_exact_partial (cfg : Cfg) {a : Num} (ha : Canonical a)
    (hk : a.isInt = false) {r : Int} (hr : 0 ≤ r) (hr32 : fitsI32 r = true)
    (hg : RatPowGuard a.toQ.1 a.toQ.2 r = true) :
    Exact (expt cfg a (.fix r)) (denote a ^ r.toNat) := by
  cases a with
  | fix n => simp [Num.isInt] at hk
  | big n => simp [Num.isInt] at hk
  | rat32 n d => exact expt_rat32_nonneg_partial cfg ha hr hr32 hg
  | bigrat n d =>
    by_cases h0 : r = 0
    · subst h0
      simp only [expt, ↓reduceIte, Int.toNat_zero, Rat.pow_zero]
      exact Exact.mk rfl (by decide)
    · exact expt_bigrat_pos cfg ha (by omega)

/-- negative exponent, repaired code: `a ^ (-k) = 1 / a ^ k`, canonical (positive denominator). -/
theorem expt_negative_exact (cfg : Cfg) (hc : cfg.exptChecked = true) {l : Int} (hl : l ≠ 0)
    {r : Int} (hr : r < 0) :
    Exact (expt cfg (normInt l) (.fix r)) (((l : Rat) ^ r.natAbs)⁻¹) :=
  expt_int_neg_checked cfg hc hl hr

theorem expt_negative_exact_partial (cfg : Cfg) {l : Int} (hl : 0 < l) {r : Int} (hr : r < 0) :
    Exact (expt cfg (normInt l) (.fix r)) (((l : Rat) ^ r.natAbs)⁻¹) :=
  expt_int_neg_partial cfg hl hr

theorem expt_ratio_negative_exact (cfg : Cfg) (hc : cfg.exptChecked = true) {a : Num}
    (ha : Canonical a) (hk : a.isInt = false) {r : Int} (hr : r < 0) (hr32 : fitsI32 r = true) :
    Exact (expt cfg a (.fix r)) ((denote a ^ r.natAbs)⁻¹) := by
  cases a with
  | fix n => simp [Num.isInt] at hk
  | big n => simp [Num.isInt] at hk
  | rat32 n d => exact expt_rat32_neg_checked cfg hc ha hr hr32
  | bigrat n d => exact expt_bigrat_neg cfg ha hr

/-- ratio base, negative exponent, the code as it is (inside the `Ratio<i32>::pow` guard). -/
theorem expt_ratio_negative_exact_partial (cfg : Cfg) {a : Num}
    (ha : Canonical a) (hk : a.isInt = false) {r : Int} (hr : r < 0) (hr32 : fitsI32 r = true)
    (hg : RatPowGuard a.toQ.1 a.toQ.2 r = true) :
    Exact (expt cfg a (.fix r)) ((denote a ^ r.natAbs)⁻¹) := by
  cases a with
  | fix n => simp [Num.isInt] at hk
  | big n => simp [Num.isInt] at hk
  | rat32 n d => exact expt_rat32_neg_partial cfg ha hr hr32 hg
  | bigrat n d => exact expt_bigrat_neg cfg ha hr

/-- `0` to a positive bignum power is `0` (repaired code; the pinned code reports an error). -/
theorem expt_zero_to_big (cfg : Cfg) (hc : cfg.exptChecked = true) {r : Int} (hr : 0 < r) :
    expt cfg (.fix 0) (.big r) = .ok (.fix 0) := expt_zero_big_checked cfg hc hr

theorem expt_zero_to_negative (cfg : Cfg) {r : Int} (hr : r < 0) :
    expt cfg (.fix 0) (.fix r) = .err .expt0 := expt_zero_neg cfg hr

theorem expt_pinned_counterexample :
    expt Cfg.pinned (.rat32 1 2) (.fix 31) = .panic ∧
    expt Cfg.pinned (.fix (-3)) (.fix (-3)) = .ok (.rat32 1 (-27)) ∧ ¬ Canonical (.rat32 1 (-27)) ∧
    expt Cfg.pinned (.fix (-2)) (.fix (-41)) = .ok (.bigrat 1 (-2199023255552)) ∧
    expt Cfg.pinned (.fix 0) (.big 100000000000000000000) = .err .expt0 ∧
    RatPowGuard 1 2 31 = false := by decide

/-- Non-vacuity (theorems applied): each member of the family on operands that leave the small representations. -/
example : Exact (expt Cfg.pinned (normInt 2) (.fix 64)) (((2 : Int) : Rat) ^ (64 : Int).toNat) :=
  expt_int_exact _ 2 (by decide)
example : Exact (expt Cfg.pinned (normInt (-100000000000000000000)) (.fix 3))
    (((-100000000000000000000 : Int) : Rat) ^ (3 : Int).toNat) := expt_int_exact _ _ (by decide)
example : Exact (expt Cfg.repaired (.rat32 1 2) (.fix 31)) (denote (.rat32 1 2) ^ (31 : Int).toNat) :=
  expt_ratio_exact _ rfl (by decide) rfl (by decide) (by decide)
example : Exact (expt Cfg.pinned (.rat32 2 3) (.fix 5)) (denote (.rat32 2 3) ^ (5 : Int).toNat) :=
  expt_ratio_exact_partial _ (by decide) rfl (by decide) (by decide) (by decide)
example : Exact (expt Cfg.repaired (normInt (-3)) (.fix (-3))) ((((-3 : Int) : Rat) ^ (-3 : Int).natAbs)⁻¹) :=
  expt_negative_exact _ rfl (by decide) (by decide)
example : Exact (expt Cfg.pinned (normInt 2) (.fix (-40))) ((((2 : Int) : Rat) ^ (-40 : Int).natAbs)⁻¹) :=
  expt_negative_exact_partial _ (by decide) (by decide)
example : Exact (expt Cfg.repaired (.bigrat 1000000000000000000000000000000 3) (.fix (-2)))
    ((denote (.bigrat 1000000000000000000000000000000 3) ^ (-2 : Int).natAbs)⁻¹) :=
  expt_ratio_negative_exact _ rfl (by decide) rfl (by decide) (by decide)
example : Exact (expt Cfg.pinned (.rat32 (-2) 3) (.fix (-3))) ((denote (.rat32 (-2) 3) ^ (-3 : Int).natAbs)⁻¹) :=
  expt_ratio_negative_exact_partial _ (by decide) rfl (by decide) (by decide) (by decide)
example : expt Cfg.repaired (.fix 0) (.big 100000000000000000000) = .ok (.fix 0) :=
  expt_zero_to_big _ rfl (by decide)
example : expt Cfg.pinned (.fix 0) (.fix (-1)) = .err .expt0 := expt_zero_to_negative _ (by decide)
example : expt Cfg.pinned (.fix 2) (.fix 64) = .ok (.big 18446744073709551616) := by decide
example : expt Cfg.pinned (.fix 2) (.fix (-40)) = .ok (.bigrat 1 1099511627776) := by decide
example : expt Cfg.repaired (.rat32 1 2) (.fix 31) = .ok (.bigrat 1 2147483648) := by decide
example : expt Cfg.repaired (.fix (-3)) (.fix (-3)) = .ok (.rat32 (-1) 27) := by decide
example : expt Cfg.pinned (.rat32 2 3) (.fix (-2)) = .ok (.rat32 9 4) := by decide
example : expt Cfg.repaired (.fix 0) (.big 100000000000000000000) = .ok (.fix 0) := by decide

/-! ## exact-integer-sqrt -/

/-- for every non-negative integer `n`: the two results are `s` and `n − s²` with `s² ≤ n < (s+1)²`,
both canonical. -/
theorem exact_integer_sqrt_spec (n : Int) (hn : 0 ≤ n) :
    ∃ s : Int, exactIntegerSqrt (normInt n) = .ok (normInt s, normInt (n - s * s)) ∧
      0 ≤ s ∧ s * s ≤ n ∧ n < (s + 1) * (s + 1) := by
  obtain ⟨h1, h2, h3⟩ := exactIntegerSqrt_spec n hn
  exact ⟨_, h1, by omega, h2, h3⟩

example : ∃ s : Int, exactIntegerSqrt (.fix 17) = .ok (normInt s, normInt (17 - s * s)) ∧
    0 ≤ s ∧ s * s ≤ 17 ∧ 17 < (s + 1) * (s + 1) := exact_integer_sqrt_spec 17 (by decide)
/-- … and on a bignum (10^40 + 1: root 10^20, remainder 1). -/
example : ∃ s : Int, exactIntegerSqrt (normInt 10000000000000000000000000000000000000001)
      = .ok (normInt s, normInt (10000000000000000000000000000000000000001 - s * s)) ∧
    0 ≤ s ∧ s * s ≤ 10000000000000000000000000000000000000001 ∧
    10000000000000000000000000000000000000001 < (s + 1) * (s + 1) := exact_integer_sqrt_spec _ (by decide)
example : exactIntegerSqrt (.fix (-1)) = .err .type := by decide

/-! ## comparison -/

theorem eq_consistent {a b : Num} (ha : Canonical a) (hb : Canonical b) :
    numEq a b = true ↔ denote a = denote b := numEq_correct ha hb

theorem lt_consistent {a b : Num} (ha : Canonical a) (hb : Canonical b) :
    numLt a b = true ↔ denote a < denote b := numLt_correct ha hb

theorem gt_consistent {a b : Num} (ha : Canonical a) (hb : Canonical b) :
    numGt a b = true ↔ denote b < denote a := numGt_correct ha hb

theorem le_consistent {a b : Num} (ha : Canonical a) (hb : Canonical b) :
    numLe a b = true ↔ denote a ≤ denote b := numLe_correct ha hb

theorem ge_consistent {a b : Num} (ha : Canonical a) (hb : Canonical b) :
    numGe a b = true ↔ denote b ≤ denote a := numGe_correct ha hb

/-- Non-vacuity (theorems applied, both directions, across representations). -/
example : denote (.rat32 1 3) < denote (.rat32 1 2) := (lt_consistent (by decide) (by decide)).1 (by decide)
example : ¬ denote (.big 9223372036854775808) ≤ denote (.fix 5) := fun h =>
  absurd ((le_consistent (by decide) (by decide)).2 h) (by decide)
example : denote (.fix 7) ≤ denote (.bigrat 100000000000000000000 3) :=
  (ge_consistent (by decide) (by decide)).1 (by decide)
example : denote (.fix 5) < denote (.big 9223372036854775808) :=
  (gt_consistent (a := .big 9223372036854775808) (by decide) (by decide)).1 (by decide)
example : denote (.rat32 1 2) ≠ denote (.fix 1) := fun h =>
  absurd ((eq_consistent (by decide) (by decide)).2 h) (by decide)
example : numLt (.rat32 1 3) (.rat32 1 2) = true ∧ numLe (.big 9223372036854775808) (.fix 5) = false
    ∧ numEq (.fix 5) (.fix 5) = true ∧ numGe (.bigrat 100000000000000000000 3) (.fix 7) = true := by
  decide

/-! ## the shape of the call does not matter -/

theorem sub_immediate_is_sub {l : Num} (hl : Canonical l) {r : Int} (hr : fitsIsize r = true) :
    subImmediate l r = subTwo l (.fix r) := subImmediate_eq hl hr

theorem add_immediate_is_add {l : Num} (hl : Canonical l) {r : Int} (hr : fitsIsize r = true) :
    addImmediate l r = addTwo l (.fix r) := addImmediate_eq hl hr

/-- True BY DEFINITION of the model (`LTEIMMEDIATE` is written in the Rust as `l <= IntV(r)`, and the model
transcribes that); the content is `lte_immediate_consistent` below plus the correspondence. -/
theorem lte_immediate_is_le (l : Num) (r : Int) : lteImmediate l r = numLe l (.fix r) := rfl

/-- the fused compare(-and-branch) with an immediate decides the order of the denoted values. -/
theorem lte_immediate_consistent {l : Num} (hl : Canonical l) {r : Int} (hr : fitsIsize r = true) :
    lteImmediate l r = true ↔ denote l ≤ (r : Rat) :=
  le_consistent hl (b := .fix r) hr

/-- Non-vacuity (theorems applied): fixnum at the boundary (the fast path leaves the fixnums), and a
non-fixnum local (the fall-back to the generic operation). -/
example : subImmediate (.fix (-9223372036854775808)) 1 = subTwo (.fix (-9223372036854775808)) (.fix 1) :=
  sub_immediate_is_sub (by decide) (by decide)
example : addImmediate (.fix 9223372036854775807) 1 = addTwo (.fix 9223372036854775807) (.fix 1) :=
  add_immediate_is_add (by decide) (by decide)
example : addImmediate (.rat32 1 2) 1 = addTwo (.rat32 1 2) (.fix 1) :=
  add_immediate_is_add (by decide) (by decide)
example : lteImmediate (.big 9223372036854775808) 5 = false ∧ lteImmediate (.rat32 9 2) 5 = true := by decide
example : denote (.rat32 9 2) ≤ ((5 : Int) : Rat) := (lte_immediate_consistent (by decide) (by decide)).1 (by decide)

example : subImmediate (.fix (-9223372036854775808)) 1 = .ok (.big (-9223372036854775809)) := by decide

/-! ## every pair of exact kinds has a computing match arm in the Rust source (regenerated tables) -/

open Gen in
/-- A `decide` over the regenerated tables: finite (4 × 4 kinds per operation), exhaustive over the kinds —
it is the whole claim about the TABLE, and says nothing about what the bodies of the arms compute. -/
theorem rust_arms_complete :
    computes2 arms_add_two allKinds allKinds = true ∧
    computes2 arms_add_two_fallible allKinds allKinds = true ∧
    computes2 arms_multiply_two allKinds allKinds = true ∧
    computes2 arms_partial_cmp allKinds allKinds = true ∧
    equalityArms arms_number_equality = true ∧
    computes2 arms_truncate_quotient intKinds intKinds = true ∧
    computes2 arms_truncate_remainder intKinds intKinds = true ∧
    computes2 arms_floor_remainder intKinds intKinds = true ∧
    computes2 arms_expt allKinds [.fix] = true ∧
    computes1 arms_negate allKinds = true ∧
    computes1 arms_abs allKinds = true ∧
    computes1 arms_numerator allKinds = true ∧
    computes1 arms_denominator allKinds = true ∧
    computes1 arms_recip allKinds = true := by decide

-- non-vacuity: the check notices a deleted arm (this is the table of `multiply_two` before f0377ee5)
example : Gen.computes2
    [⟨.IntV, .IntV, false, .compute⟩, ⟨.Rational, .Rational, false, .compute⟩,
     ⟨.BigRational, .Rational, false, .compute⟩, ⟨.Any, .Any, false, .error⟩]
    [.rat32] [.bigrat] = false := by decide

/-! ## number ↔ string -/

/-- **`string->number (number->string x radix) radix = x`** for every canonical exact number of any magnitude and every
radix the two primitives accept (2..16).  `numberToString` follows `format_number` (strings.rs); `stringToNumber`
is C12's model of `parse_number` (imported) followed by `real_literal_to_steelval`. -/
theorem number_string_roundtrip {r : Nat} (h2 : 2 ≤ r) (h16 : r ≤ 16) {x : Num} (hx : Canonical x) :
    stringToNumber (some r) (numberToString r x) = .ok (some x) := roundtrip_radix h2 h16 hx

/-- the same through the primitives' argument handling: no radix argument on either side (decimal), or the same
radix argument 2..16 on both sides. -/
theorem number_string_roundtrip_prim {x : Num} (hx : Canonical x) (radix : Option Int)
    (hr : ∀ r, radix = some r → 2 ≤ r ∧ r ≤ 16) :
    ∃ t, numberToStringPrim radix x = .ok t ∧ stringToNumberPrim radix t = .ok (some x) := by
  cases radix with
  | none => exact ⟨_, rfl, roundtrip_radix (r := 10) (by omega) (by omega) hx⟩
  | some r =>
    obtain ⟨h2, h16⟩ := hr r rfl
    have hn : ¬ (r < 2 ∨ r > 16) := by omega
    refine ⟨numberToString r.toNat x, by simp [numberToStringPrim, hn], ?_⟩
    simp only [stringToNumberPrim, hn, ↓reduceIte]
    exact roundtrip_radix (by omega) (by omega) hx

/-- the literal a value is written back as (constant folder, `quote`) reads back as the same value. -/
theorem literal_roundtrip {x : Num} (hx : Canonical x) : litToNum (numToLit x) = .ok x := litToNum_numToLit hx

/-- reading never produces a non-canonical value: a ratio literal with a positive denominator becomes the canonical
value of the fraction (either configuration of the zero-denominator guard). -/
theorem literal_canonicalC (c : Bool) (n : Int) {d : Int} (hd : 0 < d) : ∃ v, litToNumC c (.rat n d) = .ok v ∧ Canonical v ∧
    denote v = (n : Rat) / (d : Rat) := by
  have hd0 : d ≠ 0 := by omega
  have hdb : (d == 0) = false := by simp [hd0]
  simp only [litToNumC]
  by_cases hs : (fitsIsize n && fitsIsize d) = true
  · simp only [hs, ↓reduceIte, hd0]
    by_cases hf : (fitsI32 n && fitsI32 d) = true
    · simp only [hf, ↓reduceIte]
      have hfn : fitsI32 n = true := by simp_all
      have hfd : fitsI32 d = true := by simp_all
      obtain ⟨r, hr, v, hv, hden, hcan⟩ := ratio32New_norm_exact hd hfn hfd
      refine ⟨v, ?_, hcan, hden⟩
      rw [hr]; simp only [Res.bind_ok, Res.pure_eq]; exact hv
    · simp only [hf]
      obtain ⟨v, hv, hden, hcan⟩ := fromQ_exact (n := n) hd0
      exact ⟨v, hv, hcan, hden⟩
  · simp only [hs, hdb, Bool.and_false, Bool.false_eq_true, ↓reduceIte]
    obtain ⟨v, hv, hden, hcan⟩ := fromQ_exact (n := n) hd0
    exact ⟨v, hv, hcan, hden⟩

theorem literal_canonical (n : Int) {d : Int} (hd : 0 < d) : ∃ v, litToNum (.rat n d) = .ok v ∧ Canonical v ∧
    denote v = (n : Rat) / (d : Rat) := literal_canonicalC _ n hd

/-- **The repaired conversion never panics**: a ratio literal as the parser produces it (the denominator text is unsigned,
so `0 ≤ d`) becomes a value or the division-by-zero error; and `string->number` filters a zero denominator into `#f`
before that (`stringToNumberC true`, see the counterexample theorem below for both behaviours side by side). -/
theorem literal_conversion_total (n : Int) {d : Int} (hd : 0 ≤ d) : litToNumC true (.rat n d) ≠ .panic := by
  by_cases h0 : d = 0
  · subst h0
    simp only [litToNumC]
    split <;> simp
  · obtain ⟨v, hv, _, _⟩ := literal_canonicalC true n (d := d) (by omega)
    rw [hv]; simp

/-- **The code as pinned violates totality here**: `string->number` on a ratio text whose numerator does not fit a
fixnum and whose denominator is zero reaches `BigRational::new(_, 0)`, which panics (`parse_number` is called
without `try_parse_number`'s zero-denominator validation, and `real_literal_to_steelval` checks only the
`(Small, Small)` case).  Replayed on the real engine: findings/C10-K10g.txt.  The repaired code answers `#f`. -/
theorem string_to_number_zero_denominator_counterexample :
    litToNumC false (.rat 100000000000000000000 0) = .panic ∧ litToNumC false (.rat 1 0) = .err .div0 ∧
    litToNumC true (.rat 100000000000000000000 0) = .err .div0 ∧
    stringToNumberC true none ['1', '/', '0'] = .ok none := by decide

/-- Non-vacuity (theorems applied): the most negative fixnum in binary, a big ratio in hexadecimal (with `e` digits —
an exponent marker below radix 15), radix 15, decimal. -/
example : stringToNumber (some 2) (numberToString 2 (.fix (-9223372036854775808))) = .ok (some (.fix (-9223372036854775808))) :=
  number_string_roundtrip (by decide) (by decide) (by decide)
example : stringToNumber (some 16) (numberToString 16 (.bigrat (-1000000000000000000000000000014) 239)) =
    .ok (some (.bigrat (-1000000000000000000000000000014) 239)) :=
  number_string_roundtrip (by decide) (by decide) (by decide)
example : numberToString 16 (.rat32 (-485) 7) = ['-', '1', 'e', '5', '/', '7'] := by decide
example : numberToString 15 (.fix 14) = ['e'] := by decide
example : stringToNumber (some 15) ['e'] = .ok (some (.fix 14)) :=
  number_string_roundtrip (r := 15) (x := .fix 14) (by decide) (by decide) (by decide)
example : ∃ t, numberToStringPrim none (.big 9223372036854775808) = .ok t ∧
    stringToNumberPrim none t = .ok (some (.big 9223372036854775808)) :=
  number_string_roundtrip_prim (by decide) none (by intro r h; cases h)

/-! ## variadic `+ - * /` -/

/-- `(+ x₁ … xₙ)`, any n ≥ 0 (`add_primitive`). -/
theorem add_variadic_exact (xs : List Num) (h : ∀ x ∈ xs, Canonical x) : Exact (addPrim xs) (sumQ xs) :=
  addPrim_exact xs h

/-- `(* x₁ … xₙ)`, any n ≥ 0. -/
theorem mul_variadic_exact (xs : List Num) (h : ∀ x ∈ xs, Canonical x) : Exact (mulPrim xs) (prodQ xs) :=
  mulPrim_exact xs h

/-- `(- x y₁ … yₙ)`, n ≥ 1 = `x − (y₁ + … + yₙ)`; `(- x)` is `neg_exact`. -/
theorem sub_variadic_exact {x : Num} {ys : List Num} (hx : Canonical x) (hys : ∀ y ∈ ys, Canonical y)
    (hne : ys ≠ []) : Exact (subPrim (x :: ys)) (denote x - sumQ ys) := subPrim_exact hx hys hne

/-- `(/ x y₁ … yₙ)`, n ≥ 1, no divisor zero = `x / (y₁ · … · yₙ)` (repaired reciprocal). -/
theorem div_variadic_exact (cfg : Cfg) (hcfg : cfg.recipChecked = true) {x : Num} {ys : List Num}
    (hx : Canonical x) (hys : ∀ y ∈ ys, Canonical y) (hne : ys ≠ []) (h0 : prodQ ys ≠ 0) :
    Exact (divPrim cfg (x :: ys)) (denote x / prodQ ys) := divPrim_exact cfg hx hys hne h0 (Or.inl hcfg)

/-- the code as it is: exact while the PRODUCT of the divisors is not `i32::MIN` / a 32-bit ratio with that numerator. -/
theorem div_variadic_exact_partial (cfg : Cfg) {x : Num} {ys : List Num}
    (hx : Canonical x) (hys : ∀ y ∈ ys, Canonical y) (hne : ys ≠ []) (h0 : prodQ ys ≠ 0)
    (hg : ∀ d, mulPrim ys = .ok d → RecipGuard d = true) :
    Exact (divPrim cfg (x :: ys)) (denote x / prodQ ys) := divPrim_exact cfg hx hys hne h0 (Or.inr hg)

theorem div_variadic_pinned_counterexample :
    divPrim Cfg.pinned [.fix 1, .fix 65536, .fix (-32768)] = .panic := by decide

theorem div_variadic_by_zero (cfg : Cfg) (x : Num) {ys : List Num} (hys : ∀ y ∈ ys, Canonical y)
    (hne : ys ≠ []) (h0 : prodQ ys = 0) : divPrim cfg (x :: ys) = .err .div0 := divPrim_zero cfg x hys hne h0

/-- the two-operand models of the sections above are the two-operand instances. -/
theorem sub_two_is_variadic (x y : Num) : subPrim [x, y] = subTwo x y := by
  simp only [subPrim, addPrim, subTwo]; rfl
theorem div_two_is_variadic (cfg : Cfg) (x y : Num) : divPrim cfg [x, y] = divTwo cfg x y := rfl

/-- Non-vacuity (theorems applied): fixnum → bignum → ratio → back, through each fold. -/
example : Exact (subPrim [.fix (-9223372036854775808), .fix 1, .rat32 1 2, .big 9223372036854775808])
    (denote (.fix (-9223372036854775808)) - sumQ [.fix 1, .rat32 1 2, .big 9223372036854775808]) :=
  sub_variadic_exact (by decide) (by decide) (by decide)
example : subPrim [.fix (-9223372036854775808), .fix 1, .rat32 1 2, .big 9223372036854775808]
    = .ok (.bigrat (-36893488147419103235) 2) := by decide
example : Exact (divPrim Cfg.repaired [.fix 1, .fix 65536, .fix (-32768)])
    (denote (.fix 1) / prodQ [.fix 65536, .fix (-32768)]) :=
  div_variadic_exact _ rfl (by decide) (by decide) (by decide)
    (by rw [show prodQ [Num.fix 65536, .fix (-32768)] = denote (.fix (-2147483648)) from by
          simp only [prodQ, List.foldl, denote]; rw [← Rat.intCast_mul]; rfl]
        exact denote_ne_zero_of_numEq (by decide) rfl)
example : divPrim Cfg.repaired [.fix 1, .fix 65536, .fix (-32768)] = .ok (.bigrat (-1) 2147483648) := by decide
example : divPrim Cfg.repaired [.fix 6, .fix 4, .rat32 3 2] = .ok (.fix 1) := by decide
example : divPrim Cfg.repaired [.fix 6, .fix 4, .fix 0, .fix 5] = .err .div0 := by decide
example : addPrim [] = .ok (.fix 0) ∧ mulPrim [] = .ok (.fix 1) ∧ subPrim [] = .err .arity := by decide

/-! ## every specialised op code computes what the generic primitive computes -/

/-- **Shape independence.**  For every arithmetic / comparison op code of the interpreter (`ADD SUB MUL DIV BINOPADD
BINOPADDTAIL NUMEQUAL LTE LT GT GTE ADDREGISTER SUBREGISTER LTEREGISTER SUBREGISTER1 ADDIMMEDIATE SUBIMMEDIATE
LTEIMMEDIATE LTEIMMEDIATEIF`) and every operand list the compiler can emit it with, the op code's arm computes what
the function REGISTERED under the primitive's name computes on the corresponding argument list (so: what a generic
call, `apply`, a first-class use compute).  Content beyond transcription: `BINOPADD` (`add_two_fallible` vs the
variadic `add_primitive`), the order op codes (`windows(2).all` vs the short-circuit loop of `ord_internal`),
`SUBIMMEDIATE` (inline fixnum path with its own promotion), `SUBREGISTER1`, `LTEIMMEDIATE(IF)`. -/
theorem shape_independent (cfg : Cfg) (op : Op) (args gargs : List Num)
    (h : op.genericArgs args = some gargs) (hc : ∀ x ∈ args, Canonical x) :
    runOp cfg op args = generic cfg op.sym gargs := shape_independent_all cfg op args gargs h hc

/-- the registered order primitives (`ord_internal`) and the op codes' (`windows(2).all`) agree on every operand list. -/
theorem order_primitives_agree (p : Num → Num → Bool) (xs : List Num) : ordInternal p xs = cmpPrim p xs :=
  ordInternal_eq_cmpPrim p xs

/-- **The tables the statements above are about are the tables of the Rust source** (regenerated by
translate/c10_ops.py on every run): which functions each op code's arm of the dispatch loop reaches and where its
operands come from; which function is registered under each primitive name; and every emission rule of the compiler
(`inline_num_operations`, `specialize_immediate`, `should_specialize_call`) replaces a call of `σ` only by an op code
that `shape_independent` relates to `σ`. -/
theorem op_tables_as_modelled :
    Gen.opDispatch = Op.all.map (fun o => (o.name, o.reaches.1, o.reaches.2.name)) ∧
    Gen.registered = [Sym.plus, .minus, .star, .slash, .numEq, .le, .lt, .gt, .ge].map
      (fun s => (s.name, (registeredFn s).name)) ∧
    emissionSound Gen.emission = true := by decide

/-- Non-vacuity (theorem applied): the fixnum boundary through `SUBIMMEDIATE`, a ratio through `BINOPADD`, a chain
through `LTE`, and the negative control of the emission check. -/
example : runOp Cfg.repaired .SUBIMMEDIATE [.fix (-9223372036854775808), .fix 1]
    = generic Cfg.repaired .minus [.fix (-9223372036854775808), .fix 1] :=
  shape_independent _ _ _ _ (by decide) (by decide)
example : runOp Cfg.repaired .BINOPADD [.rat32 1 2, .big 9223372036854775808]
    = generic Cfg.repaired .plus [.rat32 1 2, .big 9223372036854775808] :=
  shape_independent _ _ _ _ (by decide) (by decide)
example : runOp Cfg.repaired .LTE [.fix 1, .rat32 3 2, .big 9223372036854775808, .fix 5]
    = generic Cfg.repaired .le [.fix 1, .rat32 3 2, .big 9223372036854775808, .fix 5] :=
  shape_independent _ _ _ _ (by decide) (by decide)
example : runOp Cfg.repaired .LTE [.fix 1, .rat32 3 2, .big 9223372036854775808, .fix 5] = .ok (.bool false) := by decide
example : runOp Cfg.repaired .SUBIMMEDIATE [.fix (-9223372036854775808), .fix 1]
    = .ok (.num (.big (-9223372036854775809))) := by decide
example : emissionSound [("-", "ADDIMMEDIATE", "eq2", false, true)] = false := by decide

/-! ## the constant folder -/

/-- **Folding a call is calling.**  `(op c₁ … cₙ)` with constant operands is replaced at compile time by the literal
of the registered function's result; the value the program then computes is the value of the call (an error result
keeps the call for run time).  Needs only that the function's result is canonical — which the `_exact` theorems give. -/
theorem fold_is_call (cfg : Cfg) (f : Fn) (args : List Num)
    (hcan : ∀ v, callFn cfg f args = .ok (.num v) → Canonical v) :
    constFold cfg f args = callFn cfg f args := constFold_eq_call cfg f args hcan

theorem fold_add_is_call (cfg : Cfg) (xs : List Num) (h : ∀ x ∈ xs, Canonical x) :
    constFold cfg .add_primitive xs = generic cfg .plus xs := by
  apply fold_is_call
  intro v hv
  obtain ⟨w, hw, _, hcan⟩ := add_variadic_exact xs h
  simp only [callFn, hw, Res.map] at hv
  injection hv with hv; injection hv with hv; subst hv; exact hcan

theorem fold_mul_is_call (cfg : Cfg) (xs : List Num) (h : ∀ x ∈ xs, Canonical x) :
    constFold cfg .multiply_primitive xs = generic cfg .star xs := by
  apply fold_is_call
  intro v hv
  obtain ⟨w, hw, _, hcan⟩ := mul_variadic_exact xs h
  simp only [callFn, hw, Res.map] at hv
  injection hv with hv; injection hv with hv; subst hv; exact hcan

theorem fold_sub_is_call (cfg : Cfg) {x : Num} {ys : List Num} (hx : Canonical x) (hys : ∀ y ∈ ys, Canonical y)
    (hne : ys ≠ []) : constFold cfg .subtract_primitive (x :: ys) = generic cfg .minus (x :: ys) := by
  apply fold_is_call
  intro v hv
  obtain ⟨w, hw, _, hcan⟩ := sub_variadic_exact hx hys hne
  simp only [callFn, hw, Res.map] at hv
  injection hv with hv; injection hv with hv; subst hv; exact hcan

/-- a folded result that is NOT canonical would be observable: the literal reads back as the canonical value
(this is how a missing demotion in a primitive shows up as a difference between the `fold` and the `call` shape). -/
example : readBack (.big 5) = .ok (.fix 5) ∧ readBack (.bigrat 4 2) = .ok (.fix 2) := by decide
/-- Non-vacuity (theorems applied). -/
example : constFold Cfg.repaired .add_primitive [.fix 9223372036854775807, .fix 1, .rat32 1 2]
    = generic Cfg.repaired .plus [.fix 9223372036854775807, .fix 1, .rat32 1 2] :=
  fold_add_is_call _ _ (by decide)
example : constFold Cfg.repaired .divide_primitive [.fix 1, .fix 0] = .err .div0 := by decide

/-! ## `expt` with a bignum exponent -/

theorem neg_one_pow_parity : ∀ n : Nat, (-1 : Int) ^ n = if n % 2 = 0 then 1 else -1
  | 0 => by simp
  | n + 1 => by
    rw [Int.pow_succ, neg_one_pow_parity n]
    by_cases h : n % 2 = 0
    · have : (n + 1) % 2 ≠ 0 := by omega
      simp [h, this]
    · have : (n + 1) % 2 = 0 := by omega
      simp [h, this]

/-- bases `1` and `-1` with ANY bignum exponent (positive or negative): the exact power (`l^(−k) = l^k` for these). -/
theorem expt_unit_base_big_exponent (cfg : Cfg) {l : Int} (hl : l = 1 ∨ l = -1) (r : Int) :
    Exact (expt cfg (.fix l) (.big r)) (((l ^ r.natAbs : Int)) : Rat) := by
  have e1 : fromQ 1 1 = .ok (.fix 1) := by decide
  have e2 : fromQ 1 (-1) = .ok (.fix (-1)) := by decide
  rcases hl with h | h <;> subst h
  · simp only [expt, Int.one_pow]
    by_cases h0 : 0 ≤ r
    · simp [h0]; exact Exact.mk rfl (by decide)
    · simp [h0, e1]; exact Exact.mk rfl (by decide)
  · simp only [expt, neg_one_pow_parity]
    by_cases hp : r.natAbs % 2 = 0 <;> by_cases h0 : 0 ≤ r
    · simp [hp, h0]; exact Exact.mk rfl (by decide)
    · simp [hp, h0, e1]; exact Exact.mk rfl (by decide)
    · simp [hp, h0]; exact Exact.mk rfl (by decide)
    · simp [hp, h0, e2]; exact Exact.mk rfl (by decide)

/-- every other non-zero integer base with a bignum exponent (|exponent| ≥ 2^63): the exact result has more than 2^63
bits and cannot be represented; the code starts `BigInt::pow` and cannot finish (num-bigint panics "memory overflow"
at 2^128, below that the process exhausts memory).  The model says so instead of inventing a value. -/
theorem expt_big_exponent_unrepresentable (cfg : Cfg) {l : Int} (h0 : l ≠ 0) (h1 : l ≠ 1) (h2 : l ≠ -1) (r : Int) :
    expt cfg (.fix l) (.big r) = .err .resource ∧ ∀ b e, expt cfg (.big b) (.big e) = .err .resource := by
  constructor
  · simp [expt, h0, h1, h2]
  · intro b e; rfl

/-- an exact NON-integer exponent, and a ratio base with a bignum exponent: the code answers with a double
(`to_f64().powf(..)`); the exact tower says nothing (the correspondence compares the bit pattern with C `pow`). -/
theorem expt_ratio_exponent_inexact (cfg : Cfg) (a : Num) (n d : Int) :
    expt cfg a (.rat32 n d) = .err .inexact ∧ expt cfg a (.bigrat n d) = .err .inexact := by
  cases a <;> exact ⟨rfl, rfl⟩

/-- Non-vacuity (theorems applied). -/
example : Exact (expt Cfg.repaired (.fix (-1)) (.big (-9223372036854775809)))
    ((((-1 : Int) ^ (-9223372036854775809 : Int).natAbs : Int)) : Rat) :=
  expt_unit_base_big_exponent _ (Or.inr rfl) _
example : expt Cfg.repaired (.fix (-1)) (.big (-9223372036854775809)) = .ok (.fix (-1)) := by decide
example : expt Cfg.repaired (.fix 1) (.big 100000000000000000000) = .ok (.fix 1) := by decide
example : expt Cfg.repaired (.fix 2) (.big 100000000000000000000) = .err .resource :=
  (expt_big_exponent_unrepresentable _ (by decide) (by decide) (by decide) _).1

/-! ## mixed exact / inexact operations -/

/-- **Only the exact operand is converted, once, by rounding its exact value.**  Whatever the IEEE operations are
(`F` is arbitrary: the kernel has no floating point), for a double `x` (its 64 bits) and a canonical exact `y` of any
representation and magnitude:
  `x + y`, `y + x`  =  `F.add x (roundRat y)`             `x * y`, `y * x`  =  `F.mul x (roundRat y)`
  `x − y`           =  `F.add x (roundRat (−y))`  (the negation is EXACT, then one rounding); `x − 0` is `x` itself
  `y − x`           =  `F.add (F.neg x) (roundRat y)`
the double's bits reach the IEEE operation unchanged (or through the sign flip), and every one of the four conversions of
the code (`isize as f64`, `BigInt::to_f64`, `Ratio<i32>::to_f64`, `Ratio<BigInt>::to_f64`) is `roundRat ∘ denote`. -/
theorem mixed_converts_exact_operand_only (F : IEEE) (x : Bits) {y : Num} (hy : Canonical y) :
    toF64 y = roundRat (denote y) ∧
    mixedAdd F (.flo x) (.exact y) = .flo (F.add x (roundRat (denote y))) ∧
    mixedAdd F (.exact y) (.flo x) = .flo (F.add x (roundRat (denote y))) ∧
    mixedMul F (.flo x) (.exact y) = .flo (F.mul x (roundRat (denote y))) ∧
    mixedMul F (.exact y) (.flo x) = .flo (F.mul x (roundRat (denote y))) ∧
    mixedSub F (.exact y) (.flo x) = .flo (F.add (F.neg x) (roundRat (denote y))) ∧
    (y ≠ .fix 0 → mixedSub F (.flo x) (.exact y) = .flo (F.add x (roundRat (-(denote y))))) ∧
    mixedSub F (.flo x) (.exact (.fix 0)) = .flo x := by
  have h := toF64_eq_roundRat hy
  refine ⟨h, ?_, ?_, ?_, ?_, ?_, ?_, by simp [mixedSub]⟩
  · simp [mixedAdd, h]
  · simp [mixedAdd, h]
  · simp [mixedMul, h]
  · simp [mixedMul, h]
  · simp [mixedSub, h]
  · intro hne
    obtain ⟨v, hv, hden, hcan⟩ := negate_exact hy
    have hv' := toF64_eq_roundRat hcan
    rw [hden] at hv'
    simp [mixedSub, hne, liftNum, hv, hv']

/-- **Division (the code as it is, finding K10e): the exact operand is inverted exactly, rounded, and MULTIPLIED** —
`x / y = F.mul x (roundRat (1/y))`, `y / x = F.mul (F.div 1.0 x) (roundRat y)`: two roundings where IEEE division
has one.  `viaReciprocal = false` is the one-division form.  Division by an exact zero is the error either way. -/
theorem mixed_division_shape (F : IEEE) (cfg : Cfg) (hc : cfg.recipChecked = true) (x : Bits) {y : Num}
    (hy : Canonical y) :
    (denote y ≠ 0 → mixedDiv F cfg true (.flo x) (.exact y) = .flo (F.mul x (roundRat (denote y)⁻¹))) ∧
    mixedDiv F cfg true (.exact y) (.flo x) = .flo (F.mul (F.div F.one x) (roundRat (denote y))) ∧
    (denote y ≠ 0 → mixedDiv F cfg false (.flo x) (.exact y) = .flo (F.div x (roundRat (denote y)))) ∧
    mixedDiv F cfg false (.exact y) (.flo x) = .flo (F.div (roundRat (denote y)) x) ∧
    mixedDiv F cfg true (.flo x) (.exact (.fix 0)) = .err .div0 ∧
    mixedDiv F cfg false (.flo x) (.exact (.fix 0)) = .err .div0 := by
  have h := toF64_eq_roundRat hy
  refine ⟨?_, by simp [mixedDiv, h], ?_, by simp [mixedDiv, h], ?_, by simp [mixedDiv]⟩
  · intro hne
    obtain ⟨v, hv, hden, hcan⟩ := unary_div_exact cfg hy hne (Or.inl hc)
    have hv' := toF64_eq_roundRat hcan
    rw [hden] at hv'
    simp [mixedDiv, liftNum, hv, hv']
  · intro hne
    have : y ≠ .fix 0 := by intro h0; apply hne; rw [h0]; simp [denote]
    simp [mixedDiv, this, h]
  · simp [mixedDiv, liftNum, recip, chk32, fitsI32]

/-- **Comparison of an exact number with a finite double is the comparison of the two rationals** — for every canonical
exact `x` (fixnum on either side of the 2^53 fast-path guard, bignum, ratio, big ratio) and every finite double `b`
(normal, subnormal, ±0), `floatValue b` being the dyadic rational the 64 bits denote. -/
theorem cmp_exact_with_float_correct {x : Num} (hx : Canonical x) {b : Bits} (hb : classify b = .finite) :
    cmpExactWithFloat x b = some (cmpRat (denote x) (floatValue b)) := cmpExactWithFloat_finite hx hb

/-- NaN is unordered, +∞ is above and −∞ below every exact number. -/
theorem cmp_exact_with_float_special (x : Num) (b : Bits) :
    (classify b = .nan → cmpExactWithFloat x b = none) ∧
    (classify b = .posInf → cmpExactWithFloat x b = some .lt) ∧
    (classify b = .negInf → cmpExactWithFloat x b = some .gt) := by
  refine ⟨?_, ?_, ?_⟩ <;> intro h <;> simp [cmpExactWithFloat, h]

/-- `< > <= >= =` between an exact number and a finite double decide the order of the exact values; with a NaN every
one of them is false. -/
theorem mixed_order_consistent {x : Num} (hx : Canonical x) {b : Bits} (hb : classify b = .finite) :
    (ordHolds "lt" (cmpExactWithFloat x b) = true ↔ denote x < floatValue b) ∧
    (ordHolds "eq" (cmpExactWithFloat x b) = true ↔ denote x = floatValue b) ∧
    (ordHolds "le" (cmpExactWithFloat x b) = true ↔ (denote x < floatValue b ∨ denote x = floatValue b)) := by
  rw [cmp_exact_with_float_correct hx hb]
  unfold cmpRat
  by_cases h1 : denote x < floatValue b
  · have hne : denote x ≠ floatValue b := fun h => by rw [h] at h1; exact Rat.lt_irrefl h1
    simp [h1, hne, ordHolds]
  · by_cases h2 : denote x = floatValue b
    · simp [h1, h2, ordHolds]
    · simp [h1, h2, ordHolds]

theorem mixed_nan_all_false (x : Num) {b : Bits} (hb : classify b = .nan) (op : String) :
    ordHolds op (cmpExactWithFloat x b) = false := by
  rw [(cmp_exact_with_float_special x b).1 hb]
  unfold ordHolds; split <;> simp_all

/-- **The tables of the Rust source** (translate/c10_ops.py): every mixed arm of `add_two`, `add_two_fallible`,
`multiply_two` is `x ⊙ conv(y)` with the double on the left and the conversion the model names; division goes through
the reciprocal (K10e open) ; `cmp_exact_with_float` answers `None / Less / Greater` for NaN / +∞ / −∞ and its fixnum
fast path is guarded by `|x| ≤ 2^53` — the guard the model has (a wider guard makes the cast inexact: seeded changes
C10-m1, C10-n1). -/
theorem mixed_tables_as_modelled :
    Gen.mixedConversions =
      (["add_two", "add_two_fallible", "multiply_two"].flatMap fun f =>
        [(f, "IntV", "as_f64"), (f, "BigNum", "to_f64"), (f, "Rational", "to_f64"), (f, "BigRational", "to_f64")]) ∧
    Gen.cmpSpecial = [("nan", "None"), ("posInf", "Less"), ("negInf", "Greater")] ∧
    Gen.cmpFastPathBits = 53 := by decide

/-- Non-vacuity.  Bits: 2^53 = 0x4340000000000000, 2^63 = 0x43e0000000000000, 0.1 = 0x3fb999999999999a. -/
example : cmpExactWithFloat (.fix 9007199254740993) 0x4340000000000000 = some .gt := by decide
example : cmpExactWithFloat (.fix 9223372036854775807) 0x43e0000000000000 = some .lt := by decide
example : cmpExactWithFloat (.big 9223372036854775808) 0x43e0000000000000 = some .eq := by decide
set_option maxRecDepth 16384 in
example : cmpExactWithFloat (.rat32 1 10) 0x3fb999999999999a = some .lt := by decide       -- 0.1 is above 1/10
set_option maxRecDepth 16384 in
example : cmpExactWithFloat (.fix 0) 0x8000000000000000 = some .eq := by decide            -- −0.0
set_option maxRecDepth 16384 in
example : cmpExactWithFloat (.fix 0) 1 = some .lt ∧ classify 1 = .finite := by decide      -- the least subnormal
example : classify 0x7ff8000000000000 = .nan ∧ classify 0x7ff0000000000000 = .posInf
    ∧ classify 0xfff0000000000000 = .negInf := by decide
example : cmpExactWithFloat (.fix 9007199254740993) 0x4340000000000000
    = some (cmpRat (denote (.fix 9007199254740993)) (floatValue 0x4340000000000000)) :=
  cmp_exact_with_float_correct (by decide) (by decide)
example : roundQ 9007199254740993 1 = 0x4340000000000000 ∧ roundQ 9007199254740995 1 = 0x4340000000000002 := by decide
example : roundQ 1 3 = 0x3fd5555555555555 ∧ roundQ 1 10 = 0x3fb999999999999a ∧ roundQ (-1) 1 = 0xbff0000000000000 := by
  decide
example : roundQ 9223372036854775807 1 = 0x43e0000000000000 := by decide
set_option maxRecDepth 16384 in
example : roundQ (10 ^ 400) 1 = 0x7ff0000000000000 ∧ roundQ 1 (10 ^ 400) = 0 ∧ roundQ 1 (2 ^ 1074) = 1 := by decide

/-! ## Clauses of the property not carried by a theorem -/

/-
What the theorems say, read together: for ALL canonical exact operands (fixnum, bignum, 32-bit ratio, big ratio;
no bound on magnitude) the model's `+ - * /` with ANY number of operands, unary `-` and `/`,
`quotient remainder modulo abs gcd lcm numerator denominator exact-integer-sqrt`, `expt` with a fixnum exponent and
with a bignum exponent on the bases 0, ±1, and `= < > <= >=` return the exact value in canonical form / decide the
exact order; division by zero (also of a product of divisors) is an error; `string->number (number->string x r) r = x`
for every radix 2..16 (the text → literal half being C12's model of the lexer's number parser, imported); every
arithmetic / comparison op code of the interpreter computes, on every operand list the compiler can emit it with,
what the function registered under the primitive's name computes (`shape_independent`, with the op-code → function,
name → function and emission tables regenerated from vm.rs / program.rs / code_gen.rs and decided equal to the
model's: `op_tables_as_modelled`); folding a constant call at compile time yields the value of the call
(`fold_is_call`).  Where the pinned code was defective the full statement is under the hypothesis
`cfg.<flag> = true`; WHICH configuration the current tree is, is decided by the translator's flag
(`Gen.cfg`, regenerated), not by a theorem of this file.

NOT carried by any theorem (covered only by the differential correspondence of checks/c10.py):

 * **`string->number` is total on every text**: FALSE for the code as pinned (`string_to_number_zero_denominator_counterexample`,
   finding K10g; `Gen.s2nChecked`, regenerated, says which code the tree has); for the repaired code only the
   literal → value step is proved panic-free (`literal_conversion_total`), not the parser on arbitrary text; on texts that `number->string` does not produce (upper-case digits, `+`, leading zeros, radix
   prefixes, malformed texts) the model is compared with the real primitive on a generated family, no theorem.
   `BigInt::from_str_radix` accepts `_` between digits (`"1_0"` reads as 10): not in C12's parser model.
 * **Mixed exact/inexact operations FOLLOW IEEE DOUBLE ARITHMETIC**: the kernel has no floating point.  Proved: which
   operand is converted, that it is converted once by rounding its exact value, that the double's bits reach the operation
   unchanged (`mixed_converts_exact_operand_only`, for an arbitrary `IEEE` structure), the shape of `/` (`mixed_division_shape`:
   through the reciprocal, two roundings — finding K10e stays open), and the comparisons completely
   (`cmp_exact_with_float_correct`, `_special`, `mixed_order_consistent`, `mixed_nan_all_false`).  NOT proved: that
   `roundQ` is round-to-nearest-even (it is DEFINED as the algorithm; compared with the real conversions through
   `exact->inexact` and with CPython), that `isize as f64` / `BigInt::to_f64` / `ratio_to_f64` are correctly rounded, and
   anything about the results of `F.add`/`F.mul`/`F.div` (the driver runs the model with the machine's operations and the
   bits are compared with the real engine: correspondence).  With the double on the LEFT of a comparison the result is the
   swapped ordering (`mixedCmp`, by definition; no theorem states `(cmpRat a b).swap = cmpRat b a`).
   `expt` with an exact non-integer exponent, or a ratio base with a bignum exponent, returns a double
   (`expt_ratio_exponent_inexact` states only THAT; the bits are compared with C `pow`).
 * **The native-code (Cranelift) versions** of the operators: only `SUBIMMEDIATE`/`ADDIMMEDIATE`'s helpers are
   modelled (`sub_immediate_is_sub`, `add_immediate_is_add`); the others are exercised by the loop / map / module
   shapes of the correspondence.  That the COMPILER emits an op code only under the rule the table lists is the
   translator's reading of `inline_num_operations` etc., not a semantics of the compiler (C01/C02).
 * **`expt`** with a bignum exponent on a base other than 0, ±1: the exact result cannot exist in memory; the model
   answers `.err .resource` (`expt_big_exponent_unrepresentable`) and the real code is never run on it.  With a
   32-bit-ratio base and an exponent outside `i32`: `.err .unmodelled`.
 * **`quotient`/`remainder`/`modulo`/`gcd`/`lcm` on integral values that are not exact integers**, `floor`,
   `round`, `truncate`, `exact->inexact`, `inexact->exact`, `square`, `sqrt` of exact squares,
   `exact-integer-sqrt` of a non-canonical argument: not covered.
 * **That the Rust match arms compute what the model's arms compute**: `rust_arms_complete` checks that an arm
   EXISTS for every pair of kinds; `num-bigint`/`Ratio<BigInt>` arithmetic is taken as exact by assumption;
   `radix_fmt::small` / `to_str_radix` / `from_str_radix` are taken to be positional notation.
 * **Overflow behaviour of a release build** (wrapping instead of panicking) is represented as `.panic`.
-/

end SteelVerif.C10
