/-
C10 — property theorems: exact arithmetic is exact and the numeric tower is coherent.

`denote : Num → Rat` is the number a value stands for (specification side, Lean's `Rat`);
`Canonical` is the canonical form the property demands; `Exact r q` says: the operation returned
normally, its value denotes exactly `q`, and it is canonical.  Every theorem quantifies over ALL
canonical operands — there is no bound on magnitudes.

Where the code at the pinned commit is defective the family has three members:
  `<op>_exact`            the full statement, for the repaired code (`cfg.<flag> = true`);
  `<op>_exact_partial`    the code as it is, under a decidable guard on the operands;
  `<op>_pinned_counterexample`  a `decide`d witness outside the guard (replayed on the real engine).
`Gen.cfg` (regenerated from the Rust source) says which of the two the current tree is.
-/
import SteelVerif.C10.LemmasExpt
import SteelVerif.C10.Arms
namespace SteelVerif.C10

/-! ## canonicalisation (`IntoSteelVal`) -/

/-- `BigInt::into_steelval` is exact and canonical for every integer. -/
theorem normalize_int_exact (n : Int) : Exact (.ok (normInt n)) (n : Rat) := normInt_exact n

/-- `BigRational::new(n, d).into_steelval()` is exact and canonical for every fraction. -/
theorem normalize_ratio_exact {n d : Int} (hd : d ≠ 0) : Exact (fromQ n d) ((n : Rat) / (d : Rat)) :=
  fromQ_exact hd

example : fromQ 6 (-4) = .ok (.rat32 (-3) 2) := by decide
example : fromQ 18446744073709551616 2 = .ok (.big 9223372036854775808) := by decide
example : fromQ 4294967296 6 = .ok (.bigrat 2147483648 3) := by decide

/-- **Coherence.** Canonical values that denote the same number are the same value. -/
theorem canonical_representation_unique {a b : Num} (ha : Canonical a) (hb : Canonical b)
    (h : denote a = denote b) : a = b := canonical_unique ha hb h

example : Canonical (.rat32 (-7) 3) ∧ ¬ Canonical (.rat32 (-14) 6) ∧ ¬ Canonical (.rat32 1 (-27))
    ∧ ¬ Canonical (.big 5) ∧ ¬ Canonical (.bigrat 1 2) := by decide

/-! ## + - * -/

theorem add_exact {a b : Num} (ha : Canonical a) (hb : Canonical b) :
    Exact (addTwo a b) (denote a + denote b) := addTwo_exact ha hb

theorem neg_exact {a : Num} (ha : Canonical a) : Exact (negate a) (-(denote a)) := negate_exact ha

theorem sub_exact {a b : Num} (ha : Canonical a) (hb : Canonical b) :
    Exact (subTwo a b) (denote a - denote b) := subTwo_exact ha hb

theorem mul_exact {a b : Num} (ha : Canonical a) (hb : Canonical b) :
    Exact (mulTwo a b) (denote a * denote b) := mulTwo_exact ha hb

-- non-vacuity: promotion, demotion and the checked/overflowing paths are all exercised
example : addTwo (.fix 9223372036854775807) (.fix 1) = .ok (.big 9223372036854775808) := by decide
example : addTwo (.big 9223372036854775808) (.fix (-1)) = .ok (.fix 9223372036854775807) := by decide
example : addTwo (.rat32 2147483647 2) (.rat32 2147483647 3) = .ok (.bigrat 10737418235 6) := by decide
example : addTwo (.fix 12) (.rat32 (-7) 3) = .ok (.rat32 29 3) := by decide
example : negate (.fix (-9223372036854775808)) = .ok (.big 9223372036854775808) := by decide
example : negate (.rat32 (-2147483648) 3) = .ok (.bigrat 2147483648 3) := by decide
example : subTwo (.rat32 1 2) (.rat32 1 2) = .ok (.fix 0) := by decide
example : mulTwo (.rat32 1 2) (.bigrat 1000000000000000000000000000000 3)
    = .ok (.bigrat 500000000000000000000000000000 3) := by decide
example : mulTwo (.fix 4294967296) (.fix 4294967296) = .ok (.big 18446744073709551616) := by decide

/-! ## `/` -/

/-- division by a non-zero number is exact (repaired reciprocal). -/
theorem div_exact (cfg : Cfg) (hc : cfg.recipChecked = true) {a b : Num} (ha : Canonical a)
    (hb : Canonical b) (hne : denote b ≠ 0) : Exact (divTwo cfg a b) (denote a / denote b) :=
  divTwo_exact cfg ha hb (fun h => hne (by rw [h]; rfl)) (Or.inl hc)

/-- the code as it is: exact unless the divisor is `i32::MIN` or a 32-bit ratio with that numerator. -/
theorem div_exact_partial (cfg : Cfg) {a b : Num} (ha : Canonical a) (hb : Canonical b)
    (hne : denote b ≠ 0) (hg : RecipGuard b = true) : Exact (divTwo cfg a b) (denote a / denote b) :=
  divTwo_exact cfg ha hb (fun h => hne (by rw [h]; rfl)) (Or.inr hg)

theorem div_pinned_counterexample :
    divTwo Cfg.pinned (.fix 1) (.fix (-2147483648)) = .panic ∧
    divTwo Cfg.pinned (.fix 5) (.rat32 (-2147483648) 3) = .panic ∧
    RecipGuard (.fix (-2147483648)) = false ∧ RecipGuard (.rat32 (-2147483648) 3) = false := by decide

/-- division by zero is an error, and the only canonical zero is `0`. -/
theorem div_by_zero (cfg : Cfg) (a : Num) {b : Num} (hb : Canonical b) (h0 : denote b = 0) :
    divTwo cfg a b = .err .div0 := by
  rw [canonical_zero hb h0]; exact divTwo_zero cfg a

example : divTwo Cfg.pinned (.fix 7) (.fix (-14)) = .ok (.rat32 (-1) 2) := by decide
example : divTwo Cfg.repaired (.fix 1) (.fix (-2147483648)) = .ok (.bigrat (-1) 2147483648) := by decide
example : divTwo Cfg.pinned (.big 18446744073709551616) (.fix 2) = .ok (.big 9223372036854775808) := by decide
example : divTwo Cfg.pinned (.rat32 1 2) (.fix 0) = .err .div0 := by decide

/-! ## quotient, remainder, modulo (integer operands) -/

theorem quotient_exact {a b : Num} (ha : Canonical a) (hb : Canonical b) (hai : a.isInt = true)
    (hbi : b.isInt = true) (hne : b ≠ .fix 0) :
    Exact (quotient a b) ((Int.tdiv a.toInt b.toInt : Int) : Rat) := by
  rw [(quotient_spec ha hb hai hbi).2 hne]; exact normInt_exact _

theorem remainder_exact {a b : Num} (ha : Canonical a) (hb : Canonical b) (hai : a.isInt = true)
    (hbi : b.isInt = true) (hne : b ≠ .fix 0) :
    Exact (remainder a b) ((Int.tmod a.toInt b.toInt : Int) : Rat) := by
  rw [(remainder_spec ha hb hai hbi).2 hne]; exact normInt_exact _

theorem modulo_exact {a b : Num} (ha : Canonical a) (hb : Canonical b) (hai : a.isInt = true)
    (hbi : b.isInt = true) (hne : b ≠ .fix 0) :
    Exact (modulo a b) ((Int.fmod a.toInt b.toInt : Int) : Rat) := by
  rw [(modulo_spec ha hb hai hbi).2 hne]; exact normInt_exact _

theorem integer_division_by_zero {a : Num} (ha : Canonical a) (hai : a.isInt = true) :
    quotient a (.fix 0) = .err .div0 ∧ remainder a (.fix 0) = .err .div0 ∧
      modulo a (.fix 0) = .err .div0 :=
  ⟨(quotient_spec ha (by decide) hai rfl).1 rfl, (remainder_spec ha (by decide) hai rfl).1 rfl,
   (modulo_spec ha (by decide) hai rfl).1 rfl⟩

example : quotient (.fix (-9223372036854775808)) (.fix (-1)) = .ok (.big 9223372036854775808) := by decide
example : modulo (.fix (-7)) (.fix 2) = .ok (.fix 1) := by decide
example : remainder (.big (-100000000000000000000)) (.fix 7) = .ok (.fix (-2)) := by decide
example : modulo (.big 100000000000000000000) (.fix (-7)) = .ok (.fix (-5)) := by decide

/-! ## abs -/

theorem abs_exact (cfg : Cfg) (hc : cfg.absChecked = true) {a : Num} (ha : Canonical a) :
    Exact (absNum cfg a) (ratAbs (denote a)) := absNum_exact cfg ha (Or.inl hc)

theorem abs_exact_partial (cfg : Cfg) {a : Num} (ha : Canonical a) (hg : AbsGuard a = true) :
    Exact (absNum cfg a) (ratAbs (denote a)) := absNum_exact cfg ha (Or.inr hg)

theorem abs_pinned_counterexample :
    absNum Cfg.pinned (.fix (-9223372036854775808)) = .panic ∧
    absNum Cfg.pinned (.rat32 (-2147483648) 3) = .panic ∧
    AbsGuard (.fix (-9223372036854775808)) = false ∧ AbsGuard (.rat32 (-2147483648) 3) = false := by
  decide

example : absNum Cfg.repaired (.fix (-9223372036854775808)) = .ok (.big 9223372036854775808) := by decide
example : absNum Cfg.repaired (.rat32 (-2147483648) 3) = .ok (.bigrat 2147483648 3) := by decide
example : absNum Cfg.pinned (.rat32 (-7) 3) = .ok (.rat32 7 3) := by decide

/-! ## numerator, denominator -/

theorem numerator_is_exact {a : Num} (ha : Canonical a) :
    Exact (numerator a) (((denote a).num : Int) : Rat) := numerator_exact ha

theorem denominator_is_exact {a : Num} (ha : Canonical a) :
    Exact (denominator a) ((((denote a).den : Nat) : Int) : Rat) := denominator_exact ha

example : numerator (.rat32 (-3) 2) = .ok (.fix (-3)) ∧ denominator (.rat32 (-3) 2) = .ok (.fix 2) := by
  decide

/-! ## gcd, lcm (integer operands) -/

theorem gcd_exact (cfg : Cfg) (hc : cfg.absChecked = true) (a b : Int) :
    Exact (gcdNum cfg (normInt a) (normInt b)) ((Int.gcd a b : Int) : Rat) := by
  rw [gcdNum_spec cfg a b (Or.inl hc)]; exact normInt_exact _

theorem gcd_exact_partial (cfg : Cfg) (a b : Int) (hg : (Int.gcd a b : Int) ≠ 9223372036854775808) :
    Exact (gcdNum cfg (normInt a) (normInt b)) ((Int.gcd a b : Int) : Rat) := by
  rw [gcdNum_spec cfg a b (Or.inr hg)]; exact normInt_exact _

theorem lcm_exact (cfg : Cfg) (hc : cfg.absChecked = true) (a b : Int) :
    Exact (lcmNum cfg (normInt a) (normInt b)) ((Int.lcm a b : Int) : Rat) := by
  rw [lcmNum_spec cfg a b (Or.inl hc)]; exact normInt_exact _

theorem lcm_exact_partial (cfg : Cfg) (a b : Int)
    (hg : (Int.gcd a b : Int) ≠ 9223372036854775808 ∧ (Int.lcm a b : Int) ≠ 9223372036854775808) :
    Exact (lcmNum cfg (normInt a) (normInt b)) ((Int.lcm a b : Int) : Rat) := by
  rw [lcmNum_spec cfg a b (Or.inr hg)]; exact normInt_exact _

/-- every canonical integer operand is `normInt` of its value, so the statements above cover all. -/
theorem integer_operand_is_normInt {x : Num} (hc : Canonical x) (h : x.isInt = true) :
    x = normInt x.toInt := canonical_int_eq_normInt hc h

theorem gcd_pinned_counterexample :
    gcdNum Cfg.pinned (.fix (-9223372036854775808)) (.fix 0) = .panic ∧
    lcmNum Cfg.pinned (.fix (-9223372036854775808)) (.fix 1) = .panic := by decide

example : gcdNum Cfg.pinned (.fix 12) (.fix 18) = .ok (.fix 6) := by decide
example : gcdNum Cfg.pinned (.big 100000000000000000000) (.fix 30) = .ok (.fix 10) := by decide
example : lcmNum Cfg.pinned (.fix 4) (.fix (-6)) = .ok (.fix 12) := by decide
example : gcdNum Cfg.repaired (.fix 0) (.fix (-9223372036854775808)) = .ok (.big 9223372036854775808) := by
  decide

/-! ## expt with an exact exponent -/

/-- integer base, non-negative exponent (every configuration): the exact power. -/
theorem expt_int_exact (cfg : Cfg) (l : Int) {r : Int} (hr : 0 ≤ r) :
    Exact (expt cfg (normInt l) (.fix r)) (((l : Rat)) ^ r.toNat) := by
  rw [expt_int_nonneg cfg l hr, ← Rat.intCast_pow]; exact normInt_exact _

/-- ratio base, non-negative exponent, repaired code. -/
theorem expt_ratio_exact (cfg : Cfg) (hc : cfg.exptChecked = true) {a : Num} (ha : Canonical a)
    (hk : a.isInt = false) {r : Int} (hr : 0 ≤ r) (hr32 : fitsI32 r = true) :
    Exact (expt cfg a (.fix r)) (denote a ^ r.toNat) := by
  cases a with
  | fix n => simp [Num.isInt] at hk
  | big n => simp [Num.isInt] at hk
  | rat32 n d => exact expt_rat32_nonneg_checked cfg hc ha hr hr32
  | bigrat n d =>
    by_cases h0 : r = 0
    · subst h0
      simp only [expt, ↓reduceIte, Int.toNat_zero, Rat.pow_zero]
      exact Exact.mk rfl (by decide)
    · exact expt_bigrat_pos cfg ha (by omega)

/-- ratio base, the code as it is: exact while `Ratio<i32>::pow` stays inside `i32`; big ratios always. -/
theorem expt_ratio_exact_partial (cfg : Cfg) {a : Num} (ha : Canonical a)
    (hk : a.isInt = false) {r : Int} (hr : 0 ≤ r) (hr32 : fitsI32 r = true)
    (hg : RatPowGuard a.toQ.1 a.toQ.2 r = true) :
    Exact (expt cfg a (.fix r)) (denote a ^ r.toNat) := by
  cases a with
  | fix n => simp [Num.isInt] at hk
  | big n => simp [Num.isInt] at hk
  | rat32 n d => exact expt_rat32_nonneg_partial cfg ha hr hr32 hg
  | bigrat n d =>
    by_cases h0 : r = 0
    · subst h0
      simp only [expt, ↓reduceIte, Int.toNat_zero, Rat.pow_zero]
      exact Exact.mk rfl (by decide)
    · exact expt_bigrat_pos cfg ha (by omega)

/-- negative exponent, repaired code: `a ^ (-k) = 1 / a ^ k`, canonical (positive denominator). -/
theorem expt_negative_exact (cfg : Cfg) (hc : cfg.exptChecked = true) {l : Int} (hl : l ≠ 0)
    {r : Int} (hr : r < 0) :
    Exact (expt cfg (normInt l) (.fix r)) (((l : Rat) ^ r.natAbs)⁻¹) :=
  expt_int_neg_checked cfg hc hl hr

theorem expt_negative_exact_partial (cfg : Cfg) {l : Int} (hl : 0 < l) {r : Int} (hr : r < 0) :
    Exact (expt cfg (normInt l) (.fix r)) (((l : Rat) ^ r.natAbs)⁻¹) :=
  expt_int_neg_partial cfg hl hr

theorem expt_ratio_negative_exact (cfg : Cfg) (hc : cfg.exptChecked = true) {a : Num}
    (ha : Canonical a) (hk : a.isInt = false) {r : Int} (hr : r < 0) (hr32 : fitsI32 r = true) :
    Exact (expt cfg a (.fix r)) ((denote a ^ r.natAbs)⁻¹) := by
  cases a with
  | fix n => simp [Num.isInt] at hk
  | big n => simp [Num.isInt] at hk
  | rat32 n d => exact expt_rat32_neg_checked cfg hc ha hr hr32
  | bigrat n d => exact expt_bigrat_neg cfg ha hr

/-- ratio base, negative exponent, the code as it is (inside the `Ratio<i32>::pow` guard). -/
theorem expt_ratio_negative_exact_partial (cfg : Cfg) {a : Num}
    (ha : Canonical a) (hk : a.isInt = false) {r : Int} (hr : r < 0) (hr32 : fitsI32 r = true)
    (hg : RatPowGuard a.toQ.1 a.toQ.2 r = true) :
    Exact (expt cfg a (.fix r)) ((denote a ^ r.natAbs)⁻¹) := by
  cases a with
  | fix n => simp [Num.isInt] at hk
  | big n => simp [Num.isInt] at hk
  | rat32 n d => exact expt_rat32_neg_partial cfg ha hr hr32 hg
  | bigrat n d => exact expt_bigrat_neg cfg ha hr

/-- `0` to a positive bignum power is `0` (repaired code; the pinned code reports an error). -/
theorem expt_zero_to_big (cfg : Cfg) (hc : cfg.exptChecked = true) {r : Int} (hr : 0 < r) :
    expt cfg (.fix 0) (.big r) = .ok (.fix 0) := expt_zero_big_checked cfg hc hr

theorem expt_zero_to_negative (cfg : Cfg) {r : Int} (hr : r < 0) :
    expt cfg (.fix 0) (.fix r) = .err .expt0 := expt_zero_neg cfg hr

theorem expt_pinned_counterexample :
    expt Cfg.pinned (.rat32 1 2) (.fix 31) = .panic ∧
    expt Cfg.pinned (.fix (-3)) (.fix (-3)) = .ok (.rat32 1 (-27)) ∧ ¬ Canonical (.rat32 1 (-27)) ∧
    expt Cfg.pinned (.fix (-2)) (.fix (-41)) = .ok (.bigrat 1 (-2199023255552)) ∧
    expt Cfg.pinned (.fix 0) (.big 100000000000000000000) = .err .expt0 ∧
    RatPowGuard 1 2 31 = false := by decide

example : expt Cfg.pinned (.fix 2) (.fix 64) = .ok (.big 18446744073709551616) := by decide
example : expt Cfg.pinned (.fix 2) (.fix (-40)) = .ok (.bigrat 1 1099511627776) := by decide
example : expt Cfg.repaired (.rat32 1 2) (.fix 31) = .ok (.bigrat 1 2147483648) := by decide
example : expt Cfg.repaired (.fix (-3)) (.fix (-3)) = .ok (.rat32 (-1) 27) := by decide
example : expt Cfg.pinned (.rat32 2 3) (.fix (-2)) = .ok (.rat32 9 4) := by decide
example : expt Cfg.repaired (.fix 0) (.big 100000000000000000000) = .ok (.fix 0) := by decide

/-! ## exact-integer-sqrt -/

/-- for every non-negative integer `n`: the two results are `s` and `n − s²` with `s² ≤ n < (s+1)²`,
both canonical. -/
theorem exact_integer_sqrt_spec (n : Int) (hn : 0 ≤ n) :
    ∃ s : Int, exactIntegerSqrt (normInt n) = .ok (normInt s, normInt (n - s * s)) ∧
      0 ≤ s ∧ s * s ≤ n ∧ n < (s + 1) * (s + 1) := by
  obtain ⟨h1, h2, h3⟩ := exactIntegerSqrt_spec n hn
  exact ⟨_, h1, by omega, h2, h3⟩

example : ∃ s : Int, exactIntegerSqrt (.fix 17) = .ok (normInt s, normInt (17 - s * s)) ∧
    0 ≤ s ∧ s * s ≤ 17 ∧ 17 < (s + 1) * (s + 1) := exact_integer_sqrt_spec 17 (by decide)
example : exactIntegerSqrt (.fix (-1)) = .err .type := by decide

/-! ## comparison -/

theorem eq_consistent {a b : Num} (ha : Canonical a) (hb : Canonical b) :
    numEq a b = true ↔ denote a = denote b := numEq_correct ha hb

theorem lt_consistent {a b : Num} (ha : Canonical a) (hb : Canonical b) :
    numLt a b = true ↔ denote a < denote b := numLt_correct ha hb

theorem gt_consistent {a b : Num} (ha : Canonical a) (hb : Canonical b) :
    numGt a b = true ↔ denote b < denote a := numGt_correct ha hb

theorem le_consistent {a b : Num} (ha : Canonical a) (hb : Canonical b) :
    numLe a b = true ↔ denote a ≤ denote b := numLe_correct ha hb

theorem ge_consistent {a b : Num} (ha : Canonical a) (hb : Canonical b) :
    numGe a b = true ↔ denote b ≤ denote a := numGe_correct ha hb

example : numLt (.rat32 1 3) (.rat32 1 2) = true ∧ numLe (.big 9223372036854775808) (.fix 5) = false
    ∧ numEq (.fix 5) (.fix 5) = true ∧ numGe (.bigrat 100000000000000000000 3) (.fix 7) = true := by
  decide

/-! ## the shape of the call does not matter -/

theorem sub_immediate_is_sub {l : Num} (hl : Canonical l) {r : Int} (hr : fitsIsize r = true) :
    subImmediate l r = subTwo l (.fix r) := subImmediate_eq hl hr

theorem add_immediate_is_add {l : Num} (hl : Canonical l) {r : Int} (hr : fitsIsize r = true) :
    addImmediate l r = addTwo l (.fix r) := addImmediate_eq hl hr

theorem lte_immediate_is_le (l : Num) (r : Int) : lteImmediate l r = numLe l (.fix r) := rfl

example : subImmediate (.fix (-9223372036854775808)) 1 = .ok (.big (-9223372036854775809)) := by decide

/-! ## every pair of exact kinds has a computing match arm in the Rust source (regenerated tables) -/

open Gen in
theorem rust_arms_complete :
    computes2 arms_add_two allKinds allKinds = true ∧
    computes2 arms_add_two_fallible allKinds allKinds = true ∧
    computes2 arms_multiply_two allKinds allKinds = true ∧
    computes2 arms_partial_cmp allKinds allKinds = true ∧
    equalityArms arms_number_equality = true ∧
    computes2 arms_truncate_quotient intKinds intKinds = true ∧
    computes2 arms_truncate_remainder intKinds intKinds = true ∧
    computes2 arms_floor_remainder intKinds intKinds = true ∧
    computes2 arms_expt allKinds [.fix] = true ∧
    computes1 arms_negate allKinds = true ∧
    computes1 arms_abs allKinds = true ∧
    computes1 arms_numerator allKinds = true ∧
    computes1 arms_denominator allKinds = true ∧
    computes1 arms_recip allKinds = true := by decide

-- non-vacuity: the check notices a deleted arm (this is the table of `multiply_two` before f0377ee5)
example : Gen.computes2
    [⟨.IntV, .IntV, false, .compute⟩, ⟨.Rational, .Rational, false, .compute⟩,
     ⟨.BigRational, .Rational, false, .compute⟩, ⟨.Any, .Any, false, .error⟩]
    [.rat32] [.bigrat] = false := by decide

end SteelVerif.C10
