/-
C10 — the match-arm tables extracted from the Rust source (GenArms.lean, regenerated on every run)
cover every pair of exact value kinds with a computing arm.  A deleted arm (the defect D2 was a
missing `(Rational, BigRational)` arm in `multiply_two`) makes the corresponding lemma fail.
-/
import SteelVerif.C10.GenArms
namespace SteelVerif.C10.Gen

def PK.matchesKind : PK → Kind → Bool
  | .Any, _ => true
  | .IntV, .fix => true
  | .BigNum, .big => true
  | .Rational, .rat32 => true
  | .BigRational, .bigrat => true
  | _, _ => false

/-- the body class of the first unconditional arm that matches the pair of kinds. -/
def firstArm2 (arms : List Arm2) (k1 k2 : Kind) : Option Body :=
  (arms.find? (fun a => !a.conditional && a.l.matchesKind k1 && a.r.matchesKind k2)).map (·.body)

def firstArm1 (arms : List Arm1) (k : Kind) : Option Body :=
  (arms.find? (fun a => !a.conditional && a.k.matchesKind k)).map (·.body)

def allKinds : List Kind := [.fix, .big, .rat32, .bigrat]
def intKinds : List Kind := [.fix, .big]

/-- every pair of the given kinds reaches a computing arm. -/
def computes2 (arms : List Arm2) (ks1 ks2 : List Kind) : Bool :=
  ks1.all (fun k1 => ks2.all (fun k2 => firstArm2 arms k1 k2 == some .compute))

def computes1 (arms : List Arm1) (ks : List Kind) : Bool :=
  ks.all (fun k => firstArm1 arms k == some .compute)

/-- `=`: equal kinds are compared structurally, different exact kinds answer `false` (never an error). -/
def equalityArms (arms : List Arm2) : Bool :=
  allKinds.all (fun k1 => allKinds.all (fun k2 =>
    if k1 = k2 then firstArm2 arms k1 k2 == some .compute
    else firstArm2 arms k1 k2 == some .retFalse))

end SteelVerif.C10.Gen
