/-
C10 — model of the call shapes: the variadic primitives, the functions registered under the primitive names,
the interpreter's specialised op codes, and the compile-time constant folder.

  variadic primitives   numbers.rs `add_primitive`, `subtract_primitive`, `multiply_primitive(_impl)`, `divide_primitive`
  order primitives      steel_vm/primitives.rs: the REGISTERED `< > <= >=` are `ord_internal` (a short-circuit loop
                        over adjacent operands); the op codes `LTE LT GT GTE LTEREGISTER` call `lte_primitive` … =
                        `args.windows(2).all(..)` — two different pieces of code
  op codes              steel_vm/vm.rs dispatch loop (table regenerated into GenOps.lean)
  constant folder       steel_vm/const_evaluation.rs `eval_function` + `handle_output`: calls the registered function
                        pointer on the operand values; an error keeps the call for run time; a fixnum result becomes
                        a literal atom, any other exact result a quoted literal (`TryFrom<&SteelVal> for ExprKind`),
                        which the compiler turns into a value again with `real_literal_to_steelval`
-/
import SteelVerif.C10.NumStr
import SteelVerif.C10.GenOps
namespace SteelVerif.C10

inductive Val where
  | num (n : Num)
  | bool (b : Bool)
  deriving DecidableEq, Repr

def Res.map {α β} (f : α → β) : Res α → Res β
  | .ok v => .ok (f v)
  | .err e => .err e
  | .panic => .panic

/-! ## variadic primitives -/

/-- `add_primitive` / `add_primitive_no_check`. -/
def addPrim : List Num → Res Num
  | [] => .ok (.fix 0)
  | [x] => .ok x
  | x :: y :: zs => do
    let r ← addTwo x y
    zs.foldlM (fun acc z => addTwo acc z) r

/-- `multiply_primitive_impl`. -/
def mulPrim : List Num → Res Num
  | [] => .ok (.fix 1)
  | [x] => .ok x
  | x :: y :: zs => do
    let r ← mulTwo x y
    zs.foldlM (fun acc z => mulTwo acc z) r

/-- `subtract_primitive`: `[x] ⇒ negate(x)`, `[x, ys..] ⇒ add_two(x, negate(add_primitive_no_check(ys)))`
(the `[NumV, IntV(0)]` arm concerns a flonum first operand only). -/
def subPrim : List Num → Res Num
  | [] => .err .arity
  | [x] => negate x
  | x :: ys => do
    let s ← addPrim ys
    let n ← negate s
    addTwo x n

/-- `divide_primitive`: `[x] ⇒ recip(x)`, `[x, y] ⇒ multiply_two(x, recip(y))`,
`[x, ys..] ⇒ multiply_two(x, recip(multiply_primitive_impl(ys)))`. -/
def divPrim (cfg : Cfg) : List Num → Res Num
  | [] => .err .arity
  | [x] => recip cfg x
  | [x, y] => do
    let r ← recip cfg y
    mulTwo x r
  | x :: ys => do
    let d ← mulPrim ys
    let r ← recip cfg d
    mulTwo x r

/-! ## order primitives -/

/-- `args.windows(2).all(p)` — `lte_primitive`, `lt_primitive`, `gt_primitive`, `gte_primitive` (exact operands always
have a `partial_cmp`). -/
def windowsAll (p : Num → Num → Bool) : List Num → Bool
  | a :: b :: rest => p a b && windowsAll p (b :: rest)
  | _ => true

def cmpPrim (p : Num → Num → Bool) (args : List Num) : Res Bool :=
  if args.isEmpty then .err .arity else .ok (windowsAll p args)

/-- the loop of `ord_internal`: compare `left` with the next operand, stop at the first failure. -/
def ordLoop (p : Num → Num → Bool) : Num → List Num → Bool
  | _, [] => true
  | left, r :: rs => if !p left r then false else ordLoop p r rs

/-- `ord_internal` (every exact number is `real?`). -/
def ordInternal (p : Num → Num → Bool) : List Num → Res Bool
  | [] => .err .arity
  | [_] => .ok true
  | x :: rest => .ok (ordLoop p x rest)

/-! ## the Rust functions the op codes and the primitive names lead to -/

inductive Fn where
  | add_primitive | subtract_primitive | multiply_primitive | divide_primitive | add_two_fallible
  | number_equality | lte_primitive | lt_primitive | gt_primitive | gte_primitive
  | less_than_equal | less_than | greater_than | greater_than_equal
  deriving DecidableEq, Repr

def Fn.name : Fn → String
  | .add_primitive => "add_primitive" | .subtract_primitive => "subtract_primitive"
  | .multiply_primitive => "multiply_primitive" | .divide_primitive => "divide_primitive"
  | .add_two_fallible => "add_two_fallible" | .number_equality => "number_equality"
  | .lte_primitive => "lte_primitive" | .lt_primitive => "lt_primitive" | .gt_primitive => "gt_primitive"
  | .gte_primitive => "gte_primitive" | .less_than_equal => "less_than_equal" | .less_than => "less_than"
  | .greater_than => "greater_than" | .greater_than_equal => "greater_than_equal"

def callFn (cfg : Cfg) : Fn → List Num → Res Val
  | .add_primitive, xs => (addPrim xs).map .num
  | .subtract_primitive, xs => (subPrim xs).map .num
  | .multiply_primitive, xs => (mulPrim xs).map .num
  | .divide_primitive, xs => (divPrim cfg xs).map .num
  | .add_two_fallible, [x, y] => (addTwo x y).map .num
  | .add_two_fallible, _ => .err .arity
  | .number_equality, [x, y] => .ok (.bool (numEq x y))
  | .number_equality, _ => .err .arity
  | .lte_primitive, xs => (cmpPrim numLe xs).map .bool
  | .lt_primitive, xs => (cmpPrim numLt xs).map .bool
  | .gt_primitive, xs => (cmpPrim numGt xs).map .bool
  | .gte_primitive, xs => (cmpPrim numGe xs).map .bool
  | .less_than_equal, xs => (ordInternal numLe xs).map .bool
  | .less_than, xs => (ordInternal numLt xs).map .bool
  | .greater_than, xs => (ordInternal numGt xs).map .bool
  | .greater_than_equal, xs => (ordInternal numGe xs).map .bool

/-- the primitive names of the source program. -/
inductive Sym where
  | plus | minus | star | slash | numEq | le | lt | gt | ge
  deriving DecidableEq, Repr

def Sym.name : Sym → String
  | .plus => "+" | .minus => "-" | .star => "*" | .slash => "/" | .numEq => "="
  | .le => "<=" | .lt => "<" | .gt => ">" | .ge => ">="

/-- the function registered under the name (`#[steel_derive::native(name = ..)]`): what a generic call, `apply`,
a first-class use and the constant folder reach. -/
def registeredFn : Sym → Fn
  | .plus => .add_primitive | .minus => .subtract_primitive | .star => .multiply_primitive
  | .slash => .divide_primitive | .numEq => .number_equality
  | .le => .less_than_equal | .lt => .less_than | .gt => .greater_than | .ge => .greater_than_equal

def generic (cfg : Cfg) (s : Sym) (args : List Num) : Res Val := callFn cfg (registeredFn s) args

/-! ## op codes -/

inductive Op where
  | ADD | SUB | MUL | DIV | BINOPADD | BINOPADDTAIL | NUMEQUAL | LTE | LT | GT | GTE
  | ADDREGISTER | SUBREGISTER | LTEREGISTER | SUBREGISTER1 | ADDIMMEDIATE | SUBIMMEDIATE
  | LTEIMMEDIATE | LTEIMMEDIATEIF
  deriving DecidableEq, Repr

def Op.all : List Op :=
  [.ADD, .SUB, .MUL, .DIV, .BINOPADD, .BINOPADDTAIL, .NUMEQUAL, .LTE, .LT, .GT, .GTE, .ADDREGISTER, .SUBREGISTER,
   .LTEREGISTER, .SUBREGISTER1, .ADDIMMEDIATE, .SUBIMMEDIATE, .LTEIMMEDIATE, .LTEIMMEDIATEIF]

def Op.name : Op → String
  | .ADD => "ADD" | .SUB => "SUB" | .MUL => "MUL" | .DIV => "DIV" | .BINOPADD => "BINOPADD"
  | .BINOPADDTAIL => "BINOPADDTAIL" | .NUMEQUAL => "NUMEQUAL" | .LTE => "LTE" | .LT => "LT" | .GT => "GT"
  | .GTE => "GTE" | .ADDREGISTER => "ADDREGISTER" | .SUBREGISTER => "SUBREGISTER" | .LTEREGISTER => "LTEREGISTER"
  | .SUBREGISTER1 => "SUBREGISTER1" | .ADDIMMEDIATE => "ADDIMMEDIATE" | .SUBIMMEDIATE => "SUBIMMEDIATE"
  | .LTEIMMEDIATE => "LTEIMMEDIATE" | .LTEIMMEDIATEIF => "LTEIMMEDIATEIF"

/-- where the operands of the op code come from: the top `k` stack slots; a local and a constant-table entry; a local and
the instruction payload (`usize as isize`, a `u24`); a local and the literal `1`. -/
inductive Operands where
  | stack | constant | immediate | int1
  deriving DecidableEq, Repr

def Operands.name : Operands → String
  | .stack => "stack" | .constant => "constant" | .immediate => "immediate" | .int1 => "int1"

/-- what the arm of the dispatch loop reaches (the names as the translator reports them: `checked_sub` is the inline
fixnum path of `SUBIMMEDIATE`, `partial_le` the `<=` of `PartialOrd for SteelVal`). -/
def Op.reaches : Op → List String × Operands
  | .ADD => (["add_primitive"], .stack) | .SUB => (["subtract_primitive"], .stack)
  | .MUL => (["multiply_primitive"], .stack) | .DIV => (["divide_primitive"], .stack)
  | .BINOPADD => (["add_two_fallible"], .stack) | .BINOPADDTAIL => (["add_two_fallible"], .stack)
  | .NUMEQUAL => (["number_equality"], .stack)
  | .LTE => (["lte_primitive"], .stack) | .LT => (["lt_primitive"], .stack)
  | .GT => (["gt_primitive"], .stack) | .GTE => (["gte_primitive"], .stack)
  | .ADDREGISTER => (["add_primitive"], .constant) | .SUBREGISTER => (["subtract_primitive"], .constant)
  | .LTEREGISTER => (["lte_primitive"], .constant)
  | .SUBREGISTER1 => (["subtract_primitive"], .int1)
  | .ADDIMMEDIATE => (["add_primitive"], .immediate)
  | .SUBIMMEDIATE => (["checked_sub", "subtract_primitive"], .immediate)
  | .LTEIMMEDIATE => (["partial_le"], .immediate) | .LTEIMMEDIATEIF => (["partial_le"], .immediate)

/-- the interpreter's arm for the op code, on its operands (for `SUBREGISTER1` the single local). -/
def runOp (cfg : Cfg) : Op → List Num → Res Val
  | .ADD, xs | .ADDREGISTER, xs | .ADDIMMEDIATE, xs => callFn cfg .add_primitive xs
  | .SUB, xs | .SUBREGISTER, xs => callFn cfg .subtract_primitive xs
  | .MUL, xs => callFn cfg .multiply_primitive xs
  | .DIV, xs => callFn cfg .divide_primitive xs
  | .BINOPADD, xs | .BINOPADDTAIL, xs => callFn cfg .add_two_fallible xs
  | .NUMEQUAL, xs => callFn cfg .number_equality xs
  | .LTE, xs | .LTEREGISTER, xs => callFn cfg .lte_primitive xs
  | .LT, xs => callFn cfg .lt_primitive xs
  | .GT, xs => callFn cfg .gt_primitive xs
  | .GTE, xs => callFn cfg .gte_primitive xs
  | .SUBREGISTER1, [l] => callFn cfg .subtract_primitive [l, .fix 1]
  | .SUBREGISTER1, _ => .err .arity
  | .SUBIMMEDIATE, [l, .fix r] => (subImmediate l r).map .num
  | .SUBIMMEDIATE, _ => .err .arity
  | .LTEIMMEDIATE, [l, .fix r] | .LTEIMMEDIATEIF, [l, .fix r] => .ok (.bool (lteImmediate l r))
  | .LTEIMMEDIATE, _ | .LTEIMMEDIATEIF, _ => .err .arity

/-- the primitive whose call the op code stands for. -/
def Op.sym : Op → Sym
  | .ADD | .BINOPADD | .BINOPADDTAIL | .ADDREGISTER | .ADDIMMEDIATE => .plus
  | .SUB | .SUBREGISTER | .SUBREGISTER1 | .SUBIMMEDIATE => .minus
  | .MUL => .star | .DIV => .slash | .NUMEQUAL => .numEq
  | .LTE | .LTEREGISTER | .LTEIMMEDIATE | .LTEIMMEDIATEIF => .le
  | .LT => .lt | .GT => .gt | .GTE => .ge

/-- the argument list of the generic call an op code with these operands stands for (`none`: the compiler never
emits the op code with such operands). -/
def Op.genericArgs : Op → List Num → Option (List Num)
  | .ADD, xs | .SUB, xs | .MUL, xs | .DIV, xs | .LTE, xs | .LT, xs | .GT, xs | .GTE, xs =>
    if xs.isEmpty then none else some xs                     -- `payload_size > 0`
  | .BINOPADD, [x, y] | .BINOPADDTAIL, [x, y] | .NUMEQUAL, [x, y] => some [x, y]
  | .ADDREGISTER, [l, c] | .SUBREGISTER, [l, c] | .LTEREGISTER, [l, c] => some [l, c]
  | .SUBREGISTER1, [l] => some [l, .fix 1]
  | .ADDIMMEDIATE, [l, .fix r] | .SUBIMMEDIATE, [l, .fix r] | .LTEIMMEDIATE, [l, .fix r]
  | .LTEIMMEDIATEIF, [l, .fix r] => if 0 ≤ r ∧ r < 16777216 then some [l, .fix r] else none
  | _, _ => none

/-! ## the tables of GenOps.lean against this transcription -/

def symOfName (n : String) : Option Sym :=
  [Sym.plus, .minus, .star, .slash, .numEq, .le, .lt, .gt, .ge].find? (fun s => s.name == n)

def opOfName (n : String) : Option Op := Op.all.find? (fun o => o.name == n)

/-- every emission rule of the compiler replaces a call of `σ` by an op code that stands for `σ`, with an arity
condition under which `genericArgs` is defined. -/
def emissionSound (rules : List (String × String × String × Bool × Bool)) : Bool :=
  rules.all (fun r =>
    match symOfName r.1, opOfName r.2.1 with
    | some s, some o =>
      o.sym == s &&
      (match o with
       | .ADD | .SUB | .MUL | .DIV | .LTE | .LT | .GT | .GTE => r.2.2.1 == "pos" || r.2.2.1 == "eq2"
       | _ => r.2.2.1 == "eq2")
    | _, _ => false)

/-! ## the constant folder -/

/-- `ConstantEvaluator::eval_function` + `handle_output` on a call of a registered function with constant exact
operands: the value the compiled program computes for the expression. -/
def constFold (cfg : Cfg) (f : Fn) (args : List Num) : Res Val :=
  match callFn cfg f args with
  | .ok (.num v) => (readBack v).map .num      -- literal atom / quoted literal, compiled back to a value
  | .ok (.bool b) => .ok (.bool b)
  | .err _ => callFn cfg f args                -- the call is kept and evaluated at run time
  | .panic => .panic

end SteelVerif.C10
