/-
C10 — `add_two`, `negate`, `subtract`, `multiply_two` are exact on all canonical operands.
-/
import SteelVerif.C10.LemmasArith
namespace SteelVerif.C10

theorem Exact.congr {r : Res Num} {q q' : Rat} (h : Exact r q) (e : q = q') : Exact r q' := e ▸ h

theorem fromQ_add {p1 p2 q1 q2 : Int} (h2 : p2 ≠ 0) (h4 : q2 ≠ 0) :
    Exact (fromQ (p1 * q2 + q1 * p2) (p2 * q2))
      ((p1 : Rat) / (p2 : Rat) + (q1 : Rat) / (q2 : Rat)) := by
  refine (fromQ_exact (Int.mul_ne_zero h2 h4)).congr ?_
  have := cast_ne_zero h2
  have := cast_ne_zero h4
  simp only [Rat.intCast_mul, Rat.intCast_add]
  grind

theorem fromQ_mul {p1 p2 q1 q2 : Int} (h2 : p2 ≠ 0) (h4 : q2 ≠ 0) :
    Exact (fromQ (p1 * q1) (p2 * q2))
      ((p1 : Rat) / (p2 : Rat) * ((q1 : Rat) / (q2 : Rat))) := by
  refine (fromQ_exact (Int.mul_ne_zero h2 h4)).congr ?_
  have := cast_ne_zero h2
  have := cast_ne_zero h4
  simp only [Rat.intCast_mul]
  grind

theorem canonical_den_ne_zero {v : Num} (h : Canonical v) : v.toQ.2 ≠ 0 := by
  have := (canonical_toQ h).1; omega

/-- addition of an `i32`-range integer to a 32-bit ratio (both orders share this code). -/
theorem add_rat32_fix_exact {a b y : Int} (h : Canonical (.rat32 a b)) :
    Exact
      (match chk32 y with
        | some y32 => do
          let yr ← ratio32New y32 1
          match ← ratio32CheckedAddSub false a b yr.1 yr.2 with
          | some r => pure (normR32 r)
          | none => fromQ (a + y32 * b) b
        | none => fromQ (a + y * b) b)
      ((a : Rat) / (b : Rat) + (y : Rat)) := by
  obtain ⟨hb, _, _, _⟩ := h
  have hb0 : b ≠ 0 := by omega
  have hbr := cast_ne_zero hb0
  have big : Exact (fromQ (a + y * b) b) ((a : Rat) / (b : Rat) + (y : Rat)) := by
    refine (fromQ_exact hb0).congr ?_
    simp only [Rat.intCast_mul, Rat.intCast_add]
    grind
  cases hy : chk32 y with
  | none => exact big
  | some y32 =>
    obtain ⟨hy32, hyy⟩ := chk32_eq_some.mp hy
    subst hyy
    simp only [ratio32New_int hy32, Res.bind_ok]
    rcases ratio32CheckedAddSub_spec false (a := a) (c := y32) (b := b) (d := 1) (by omega) (by omega) with h0 | ⟨r, hr, hex⟩
    · simp only [h0, Res.bind_ok]; exact big
    · simp only [hr, Res.bind_ok, Res.pure_eq]
      refine hex.congr ?_
      simp only [Bool.false_eq_true, ↓reduceIte, rat_div_one]

theorem addTwo_exact {x y : Num} (hx : Canonical x) (hy : Canonical y) :
    Exact (addTwo x y) (denote x + denote y) := by
  cases x with
  | fix a =>
    cases y with
    | fix b =>
      simp only [addTwo, denote]
      cases h : chk64 (a + b) with
      | none => exact (normInt_exact (a + b)).congr (Rat.intCast_add a b)
      | some r =>
        obtain ⟨hf, hr⟩ := chk64_eq_some.mp h
        subst hr
        exact Exact.mk (Rat.intCast_add a b) hf
    | big b => exact (normInt_exact (b + a)).congr (by simp only [Rat.intCast_add, denote]; grind)
    | rat32 c d =>
      have := add_rat32_fix_exact (y := a) hy
      simp only [addTwo, denote]
      exact this.congr (by grind)
    | bigrat c d =>
      simp only [addTwo, denote, Num.toQ]
      have hd := canonical_den_ne_zero hy
      simp only [Num.toQ] at hd
      exact (fromQ_add (p1 := a) (p2 := 1) (by omega) hd).congr (by rw [rat_div_one])
  | big a =>
    cases y with
    | fix b => exact (normInt_exact (a + b)).congr (Rat.intCast_add a b)
    | big b => exact (normInt_exact (a + b)).congr (Rat.intCast_add a b)
    | rat32 c d =>
      simp only [addTwo, denote, Num.toQ]
      have hd := canonical_den_ne_zero hy
      simp only [Num.toQ] at hd
      exact (fromQ_add (p1 := a) (p2 := 1) (by omega) hd).congr (by rw [rat_div_one])
    | bigrat c d =>
      simp only [addTwo, denote, Num.toQ]
      have hd := canonical_den_ne_zero hy
      simp only [Num.toQ] at hd
      exact (fromQ_add (p1 := a) (p2 := 1) (by omega) hd).congr (by rw [rat_div_one])
  | rat32 a b =>
    have hb := canonical_den_ne_zero hx
    simp only [Num.toQ] at hb
    cases y with
    | fix c =>
      have := add_rat32_fix_exact (y := c) hx
      simp only [addTwo, denote]
      exact this
    | big c =>
      simp only [addTwo, denote, Num.toQ]
      exact (fromQ_add (q1 := c) (q2 := 1) hb (by omega)).congr (by rw [rat_div_one])
    | rat32 c d =>
      have hd := canonical_den_ne_zero hy
      simp only [Num.toQ] at hd
      obtain ⟨hb1, _, _, _⟩ := hx
      obtain ⟨hd1, _, _, _⟩ := hy
      simp only [addTwo, denote]
      rcases ratio32CheckedAddSub_spec false (a := a) (c := c) (b := b) (d := d) (by omega) (by omega) with h0 | ⟨r, hr, hex⟩
      · simp only [h0, Res.bind_ok]; exact fromQ_add hb hd
      · simp only [hr, Res.bind_ok, Res.pure_eq]
        exact hex.congr (by simp)
    | bigrat c d =>
      have hd := canonical_den_ne_zero hy
      simp only [Num.toQ] at hd
      simp only [addTwo, denote, Num.toQ]
      exact fromQ_add hb hd
  | bigrat a b =>
    have hb := canonical_den_ne_zero hx
    have hd := canonical_den_ne_zero hy
    simp only [Num.toQ] at hb
    cases y <;> simp only [addTwo, denote, Num.toQ] at hd ⊢
    · exact (fromQ_add (q2 := 1) hb (by omega)).congr (by rw [rat_div_one])
    · exact (fromQ_add (q2 := 1) hb (by omega)).congr (by rw [rat_div_one])
    · exact fromQ_add hb hd
    · exact fromQ_add hb hd

theorem negate_exact {x : Num} (hx : Canonical x) : Exact (negate x) (-(denote x)) := by
  cases x with
  | fix a =>
    simp only [negate, denote]
    cases h : chk64 (-a) with
    | none => exact (normInt_exact (-a)).congr (Rat.intCast_neg a)
    | some r =>
      obtain ⟨hf, hr⟩ := chk64_eq_some.mp h
      subst hr
      exact Exact.mk (Rat.intCast_neg a) hf
  | big a => exact (normInt_exact (-a)).congr (Rat.intCast_neg a)
  | rat32 n d =>
    obtain ⟨hd, _, hn32, hd32⟩ := hx
    have hd0 : d ≠ 0 := by omega
    have hdr := cast_ne_zero hd0
    simp only [negate, denote]
    cases h : chk32 (0 - n) with
    | none =>
      dsimp only
      refine (fromQ_exact hd0).congr ?_
      simp only [Rat.intCast_neg]; grind
    | some m =>
      obtain ⟨hm32, hm⟩ := chk32_eq_some.mp h
      subst hm
      dsimp only
      obtain ⟨r, hr, hex⟩ := ratio32New_norm_exact (n := 0 - n) (by omega : 0 < d) hm32 hd32
      simp only [hr, Res.bind_ok, Res.pure_eq]
      refine hex.congr ?_
      simp only [Int.zero_sub, Rat.intCast_neg]; grind
  | bigrat n d =>
    obtain ⟨hd, _, _⟩ := hx
    have hd0 : d ≠ 0 := by omega
    have hdr := cast_ne_zero hd0
    simp only [negate, denote]
    refine (fromQ_exact hd0).congr ?_
    simp only [Rat.intCast_neg]; grind

theorem subTwo_exact {x y : Num} (hx : Canonical x) (hy : Canonical y) :
    Exact (subTwo x y) (denote x - denote y) := by
  obtain ⟨ny, hny, hden, hcan⟩ := negate_exact hy
  unfold subTwo
  simp only [hny, Res.bind_ok]
  refine (addTwo_exact hx hcan).congr ?_
  rw [hden]; grind

/-- multiplication of a 32-bit ratio by an integer (both orders share this code). -/
theorem mul_rat32_fix_exact {a b x : Int} (h : Canonical (.rat32 a b)) :
    Exact
      (match chk32 x with
        | some x32 => do
          let xr ← ratio32New x32 1
          match ← ratio32CheckedMul a b xr.1 xr.2 with
          | some r => pure (normR32 r)
          | none => fromQ (a * x32) b
        | none => fromQ (a * x) b)
      ((a : Rat) / (b : Rat) * (x : Rat)) := by
  obtain ⟨hb, _, _, _⟩ := h
  have hb0 : b ≠ 0 := by omega
  have hbr := cast_ne_zero hb0
  have big : Exact (fromQ (a * x) b) ((a : Rat) / (b : Rat) * (x : Rat)) := by
    refine (fromQ_exact hb0).congr ?_
    simp only [Rat.intCast_mul]
    grind
  cases hx : chk32 x with
  | none => exact big
  | some x32 =>
    obtain ⟨hx32, hxx⟩ := chk32_eq_some.mp hx
    subst hxx
    simp only [ratio32New_int hx32, Res.bind_ok]
    rcases ratio32CheckedMul_spec (a := a) (c := x32) (b := b) (d := 1) (by omega) (by omega) with h0 | ⟨r, hr, hex⟩
    · simp only [h0, Res.bind_ok]; exact big
    · simp only [hr, Res.bind_ok, Res.pure_eq]
      refine hex.congr ?_
      simp only [rat_div_one]

theorem mulTwo_exact {x y : Num} (hx : Canonical x) (hy : Canonical y) :
    Exact (mulTwo x y) (denote x * denote y) := by
  cases x with
  | fix a =>
    cases y with
    | fix b =>
      simp only [mulTwo, denote]
      cases h : chk64 (a * b) with
      | none => exact (normInt_exact (a * b)).congr (Rat.intCast_mul a b)
      | some r =>
        obtain ⟨hf, hr⟩ := chk64_eq_some.mp h
        subst hr
        exact Exact.mk (Rat.intCast_mul a b) hf
    | big b => exact (normInt_exact (a * b)).congr (Rat.intCast_mul a b)
    | rat32 c d =>
      have := mul_rat32_fix_exact (x := a) hy
      simp only [mulTwo, denote]
      exact this.congr (by grind)
    | bigrat c d =>
      simp only [mulTwo, denote, Num.toQ]
      have hd := canonical_den_ne_zero hy
      simp only [Num.toQ] at hd
      exact (fromQ_mul (p1 := a) (p2 := 1) (by omega) hd).congr (by rw [rat_div_one])
  | big a =>
    cases y with
    | fix b => exact (normInt_exact (b * a)).congr (by simp only [Rat.intCast_mul, denote]; grind)
    | big b => exact (normInt_exact (a * b)).congr (Rat.intCast_mul a b)
    | rat32 c d =>
      simp only [mulTwo, denote, Num.toQ]
      have hd := canonical_den_ne_zero hy
      simp only [Num.toQ] at hd
      exact (fromQ_mul (p1 := a) (p2 := 1) (by omega) hd).congr (by rw [rat_div_one])
    | bigrat c d =>
      simp only [mulTwo, denote, Num.toQ]
      have hd := canonical_den_ne_zero hy
      simp only [Num.toQ] at hd
      exact (fromQ_mul (p1 := a) (p2 := 1) (by omega) hd).congr (by rw [rat_div_one])
  | rat32 a b =>
    have hb := canonical_den_ne_zero hx
    simp only [Num.toQ] at hb
    cases y with
    | fix c =>
      have := mul_rat32_fix_exact (x := c) hx
      simp only [mulTwo, denote]
      exact this
    | big c =>
      simp only [mulTwo, denote, Num.toQ]
      exact (fromQ_mul (q1 := c) (q2 := 1) hb (by omega)).congr (by rw [rat_div_one])
    | rat32 c d =>
      have hd := canonical_den_ne_zero hy
      simp only [Num.toQ] at hd
      obtain ⟨hb1, _, _, _⟩ := hx
      obtain ⟨hd1, _, _, _⟩ := hy
      simp only [mulTwo, denote]
      rcases ratio32CheckedMul_spec (a := a) (c := c) (b := b) (d := d) (by omega) (by omega) with h0 | ⟨r, hr, hex⟩
      · simp only [h0, Res.bind_ok]; exact fromQ_mul hb hd
      · simp only [hr, Res.bind_ok, Res.pure_eq]
        exact hex
    | bigrat c d =>
      have hd := canonical_den_ne_zero hy
      simp only [Num.toQ] at hd
      simp only [mulTwo, denote, Num.toQ]
      exact fromQ_mul hb hd
  | bigrat a b =>
    have hb := canonical_den_ne_zero hx
    have hd := canonical_den_ne_zero hy
    simp only [Num.toQ] at hb
    cases y <;> simp only [mulTwo, denote, Num.toQ] at hd ⊢
    · exact (fromQ_mul (q2 := 1) hb (by omega)).congr (by rw [rat_div_one])
    · exact (fromQ_mul (q2 := 1) hb (by omega)).congr (by rw [rat_div_one])
    · exact fromQ_mul hb hd
    · exact fromQ_mul hb hd

end SteelVerif.C10
