/-
C10 — `string->number (number->string x radix) radix = x` for every canonical exact number and every radix 2..16.
The text → literal half reuses C12's model of `parse_number` (`SteelVerif.C12.parseNumberBody`) and its digit
lemmas (`parseDigits_natDigits`).
-/
import SteelVerif.C10.NumStr
import SteelVerif.C10.LemmasDiv
namespace SteelVerif.C10
open SteelVerif.C12

/-! ## the digit characters -/

theorem hexDigitLower_facts : ∀ k, k < 16 →
    hexDigitLower k ≠ '+' ∧ hexDigitLower k ≠ '-' ∧ hexDigitLower k ≠ '/' ∧ hexDigitLower k ≠ '.' ∧
    hexDigitLower k ≠ '@' ∧ hexDigitLower k ≠ '#' ∧ hexDigitLower k ≠ 'i' ∧ hexDigitLower k ≠ 'E' ∧
    (hexDigitLower k = 'e' → k = 14) := by decide

/-- a character none of `parse_number`'s scans reacts to, in radix `r` (an `e` is an exponent marker below
radix 15 only). -/
def Quiet (r : Nat) (c : Char) : Prop :=
  c ≠ '+' ∧ c ≠ '-' ∧ c ≠ '/' ∧ c ≠ '.' ∧ c ≠ '@' ∧ c ≠ '#' ∧ c ≠ 'i' ∧ c ≠ 'E' ∧ (c = 'e' → 15 ≤ r)

abbrev dg (r n : Nat) : Text := natDigits r hexDigitLower n

theorem dg_quiet {r : Nat} (h2 : 2 ≤ r) (h16 : r ≤ 16) (n : Nat) : ∀ c ∈ dg r n, Quiet r c := by
  intro c hc
  obtain ⟨k, hk, rfl⟩ := natDigits_mem r _ (by omega) n c hc
  obtain ⟨a1, a2, a3, a4, a5, a6, a7, a8, a9⟩ := hexDigitLower_facts k (by omega)
  exact ⟨a1, a2, a3, a4, a5, a6, a7, a8, fun h => by have := a9 h; omega⟩

theorem dg_ne_nil (r n : Nat) : dg r n ≠ [] := natDigits_ne_nil _ _ _

theorem digOK_le {r : Nat} (h16 : r ≤ 16) : DigOK r hexDigitLower :=
  fun k hk => digOK_hexLower k (by omega)

theorem parse_dg {r : Nat} (h2 : 2 ≤ r) (h16 : r ≤ 16) (n : Nat) : parseDigits r 0 (dg r n) = some n :=
  parseDigits_natDigits r _ h2 (digOK_le h16) n

/-! ## the scans over quiet text -/

private theorem scanReal_minus (radix : Nat) (w : Text) (i : Nat) (st : RealScan) :
    scanReal radix i st ('-' :: w) = scanReal radix (i + 1) st w := by
  simp [scanReal]

private theorem scanReal_slash (radix : Nat) (w : Text) (i : Nat) :
    scanReal radix i {} ('/' :: w) = scanReal radix (i + 1) { frac := some i } w := by
  simp [scanReal]

private theorem signIdxs_minus (w : Text) (i : Nat) :
    signIdxs false i [] ('-' :: w) = signIdxs false (i + 1) [i] w := by
  simp [signIdxs]

theorem scanReal_quiet (r : Nat) (w rest : Text) (hw : ∀ c ∈ w, Quiet r c) : ∀ i st,
    scanReal r i st (w ++ rest) = scanReal r (i + w.length) st rest := by
  induction w with
  | nil => intro i st; simp
  | cons c cs ih =>
    intro i st
    obtain ⟨_, _, q3, q4, _, _, _, q8, q9⟩ := hw c (by simp)
    have h1 : ((c == 'e' || c == 'E') && decide (r < 15)) = false := by
      by_cases hce : c = 'e'
      · have := q9 hce
        simp only [Bool.and_eq_false_iff, decide_eq_false_iff_not]
        right; omega
      · simp [hce, q8]
    have h2 : (c == '/') = false := by simp [q3]
    have h3 : (c == '.') = false := by simp [q4]
    simp only [List.cons_append, scanReal, h1, h2, h3, Bool.false_eq_true, if_false]
    rw [ih (fun x hx => hw x (by simp [hx]))]
    have : i + 1 + cs.length = i + (c :: cs).length := by simp only [List.length_cons]; omega
    rw [this]

theorem signIdxs_signfree (w : Text) (hw : ∀ c ∈ w, c ≠ '+' ∧ c ≠ '-') : ∀ b i acc,
    signIdxs b i acc w = some acc.reverse := by
  induction w with
  | nil => intro b i acc; cases b <;> simp [signIdxs]
  | cons c cs ih =>
    intro b i acc
    have ih' := ih (fun x hx => hw x (by simp [hx]))
    cases b with
    | true => simp only [signIdxs]; exact ih' _ _ _
    | false =>
      obtain ⟨p1, p2⟩ := hw c (by simp)
      have h1 : (c == '+' || c == '-') = false := by simp [p1, p2]
      simp only [signIdxs, h1, Bool.false_eq_true, if_false]
      split <;> exact ih' _ _ _

theorem specialReal_noDot (s : Text) (h : ∀ c ∈ s, c ≠ '.') : specialReal s = none := by
  have e : ∀ t : Text, '.' ∈ t → (s == t) = false := by
    intro t ht
    apply beq_false_of_ne
    intro hs; subst hs; exact h '.' ht rfl
  unfold specialReal
  rw [e _ (by decide), e _ (by decide), e _ (by decide), e _ (by decide)]
  rfl

theorem contains_at_false (s : Text) (h : ∀ c ∈ s, c ≠ '@') : s.contains '@' = false := by
  induction s with
  | nil => rfl
  | cons c cs ih =>
    have h1 := h c (by simp)
    have := ih (fun x hx => h x (by simp [hx]))
    simp at this ⊢
    exact ⟨fun hh => h1 hh.symm, this⟩

theorem getLast_ne_i (s : Text) (h : ∀ c ∈ s, c ≠ 'i') : s.getLast? ≠ some 'i' := by
  intro hl
  exact h 'i' (List.mem_of_getLast? hl) rfl

/-- `parse_number`'s body on a text without `@ . i` whose only sign (if any) is the first character. -/
theorem parseNumberBody_plain (r : Nat) (s : Text) (lit : RealLit)
    (ha : ∀ c ∈ s, c ≠ '@' ∧ c ≠ 'i' ∧ c ≠ '.')
    (hs : signIdxs false 0 [] s = some [] ∨ signIdxs false 0 [] s = some [0])
    (hp : parseRealPlain r s = some lit) : parseNumberBody r s = some (.real lit) := by
  have hat := contains_at_false s (fun c hc => (ha c hc).1)
  have hcl : classifyPart s = .real s := by
    unfold classifyPart
    split
    · rename_i h; exact absurd h (getLast_ne_i s (fun c hc => (ha c hc).2.1))
    · rfl
  have hsp : splitComplex s = some [.real s] := by
    unfold splitComplex
    rcases hs with h | h <;> rw [h] <;> simp [hcl]
  have hpr : parseReal r s = some lit := by
    unfold parseReal; rw [specialReal_noDot s (fun c hc => (ha c hc).2.2)]; exact hp
  unfold parseNumberBody
  simp only [hat, Bool.false_eq_true, if_false, hsp, hpr]
  rfl

theorem radixOf_noHash (d : Nat) (c : Char) (cs : Text) (h : c ≠ '#') : radixOf d (c :: cs) = (c :: cs, d) := by
  unfold radixOf
  split <;> first | rfl | (rename_i heq; injection heq with a _; exact absurd a h)

/-- the selection of the radix restated here coincides with C12's for the default radix. -/
theorem radixOf_ten (s : Text) : radixOf 10 s = radixPrefix s := by
  unfold radixOf radixPrefix
  split <;> (split <;> simp_all)

/-! ## integers -/

theorem parseIntRadix_dg {r : Nat} (h2 : 2 ≤ r) (h16 : r ≤ 16) (n : Nat) :
    parseIntRadix r (dg r n) = some (Int.ofNat n) := by
  have hp := parse_dg h2 h16 n
  have hq := dg_quiet h2 h16 n
  cases hw : dg r n with
  | nil => exact absurd hw (dg_ne_nil r n)
  | cons c cs =>
    rw [hw] at hp hq
    obtain ⟨p1, p2, _⟩ := hq c (by simp)
    apply parseIntRadix_of_strict
    unfold parseIntStrict
    split
    · rename_i heq; cases heq
    · rename_i heq; injection heq with a b; exact absurd a p1
    · rename_i heq; injection heq with a b; exact absurd a p2
    · simp [hp]

theorem parseIntRadix_neg_dg {r : Nat} (h2 : 2 ≤ r) (h16 : r ≤ 16) (n : Nat) :
    parseIntRadix r ('-' :: dg r n) = some (- Int.ofNat n) := by
  have hp := parse_dg h2 h16 n
  have hne := dg_ne_nil r n
  apply parseIntRadix_of_strict
  unfold parseIntStrict
  split
  · rename_i heq; cases heq
  · rename_i heq; injection heq with a b; simp at a
  · rename_i cs heq
    injection heq with a b
    subst b
    cases hw : dg r n with
    | nil => exact absurd hw hne
    | cons c cs => rw [hw] at hp; simp [hp]
  · rename_i h1 h2' h3; exact absurd rfl (h3 (dg r n))

/-- shape of a written integer: optional `-`, then the digits of the magnitude. -/
theorem writeIntRadix_shape (r : Nat) (i : Int) :
    ∃ n : Nat, (writeIntRadix r i = dg r n ∧ i = Int.ofNat n) ∨
               (writeIntRadix r i = '-' :: dg r n ∧ i = - Int.ofNat n) := by
  cases i with
  | ofNat n => exact ⟨n, Or.inl ⟨rfl, rfl⟩⟩
  | negSucc n => exact ⟨n + 1, Or.inr ⟨rfl, rfl⟩⟩

theorem parseIntRadix_writeIntRadix {r : Nat} (h2 : 2 ≤ r) (h16 : r ≤ 16) (i : Int) :
    parseIntRadix r (writeIntRadix r i) = some i := by
  obtain ⟨n, h | h⟩ := writeIntRadix_shape r i
  · rw [h.1, h.2]; exact parseIntRadix_dg h2 h16 n
  · rw [h.1, h.2]; exact parseIntRadix_neg_dg h2 h16 n

/-- facts about the text of a written integer followed by quiet text. -/
structure SignedQuiet (r : Nat) (s : Text) : Prop where
  chars : ∀ c ∈ s, c ≠ '@' ∧ c ≠ 'i' ∧ c ≠ '.'
  signs : signIdxs false 0 [] s = some [] ∨ signIdxs false 0 [] s = some [0]
  first : ∃ c tl, s = c :: tl ∧ c ≠ '#'

/-- `-`? followed by a non-empty text whose characters are quiet except for `/`. -/
theorem signedQuiet_of {r : Nat} (neg : Bool) (w : Text) (hne : w ≠ [])
    (hw : ∀ c ∈ w, c = '/' ∨ Quiet r c) : SignedQuiet r (if neg then '-' :: w else w) := by
  have hchars : ∀ c ∈ w, c ≠ '@' ∧ c ≠ 'i' ∧ c ≠ '.' ∧ c ≠ '+' ∧ c ≠ '-' ∧ c ≠ '#' := by
    intro c hc
    rcases hw c hc with h | h
    · subst h; decide
    · exact ⟨h.2.2.2.2.1, h.2.2.2.2.2.2.1, h.2.2.2.1, h.1, h.2.1, h.2.2.2.2.2.1⟩
  have hsf := signIdxs_signfree w (fun c hc => ⟨(hchars c hc).2.2.2.1, (hchars c hc).2.2.2.2.1⟩)
  cases neg with
  | false =>
    simp only [Bool.false_eq_true, if_false]
    refine ⟨fun c hc => ⟨(hchars c hc).1, (hchars c hc).2.1, (hchars c hc).2.2.1⟩, Or.inl ?_, ?_⟩
    · rw [hsf]; rfl
    · cases w with
      | nil => exact absurd rfl hne
      | cons c cs => exact ⟨c, cs, rfl, (hchars c (by simp)).2.2.2.2.2⟩
  | true =>
    simp only [if_true]
    refine ⟨?_, Or.inr ?_, ⟨'-', w, rfl, by decide⟩⟩
    · intro c hc
      rcases List.mem_cons.mp hc with h | h
      · subst h; decide
      · exact ⟨(hchars c h).1, (hchars c h).2.1, (hchars c h).2.2.1⟩
    · rw [signIdxs_minus, hsf]; rfl

theorem writeIntRadix_as_signed (r : Nat) (i : Int) :
    ∃ (neg : Bool) (n : Nat), writeIntRadix r i = (if neg then '-' :: dg r n else dg r n) := by
  obtain ⟨n, h | h⟩ := writeIntRadix_shape r i
  · exact ⟨false, n, by simp [h.1]⟩
  · exact ⟨true, n, by simp [h.1]⟩

/-- the parser's scan over a written integer leaves the state alone. -/
theorem scanReal_writeIntRadix {r : Nat} (h2 : 2 ≤ r) (h16 : r ≤ 16) (i : Int) (rest : Text) (st : RealScan) :
    scanReal r 0 st (writeIntRadix r i ++ rest) = scanReal r (writeIntRadix r i).length st rest := by
  obtain ⟨n, h | h⟩ := writeIntRadix_shape r i
  · rw [h.1, scanReal_quiet r _ _ (dg_quiet h2 h16 n)]; simp
  · rw [h.1, List.cons_append, scanReal_minus, scanReal_quiet r _ _ (dg_quiet h2 h16 n)]
    simp only [List.length_cons]
    congr 1; omega

theorem stringToNumberC_of {r : Nat} (c : Bool) (s : Text) (hq : SignedQuiet r s) (lit : RealLit)
    (hp : parseRealPlain r s = some lit) (hz : zeroDen lit = false) :
    stringToNumberC c (some r) s = (match litToNumC c lit with
      | .ok v => .ok (some v) | .err e => .err e | .panic => .panic) := by
  obtain ⟨ch, tl, hs, hc⟩ := hq.first
  unfold stringToNumberC
  have : radixOf ((some r).getD 10) s = (s, r) := by rw [hs]; exact radixOf_noHash _ ch tl hc
  simp only [this, parseNumberBody_plain r s lit hq.chars hq.signs hp, hz, Bool.and_false, Bool.false_eq_true, if_false]
  rfl

theorem parseRealPlain_int {r : Nat} (h2 : 2 ≤ r) (h16 : r ≤ 16) (i : Int) :
    parseRealPlain r (writeIntRadix r i) = some (.int i) := by
  unfold parseRealPlain
  have hs : scanReal r 0 {} (writeIntRadix r i) = {} := by
    have := scanReal_writeIntRadix h2 h16 i [] {}
    simpa [scanReal] using this
  rw [hs]
  simp [parseIntRadix_writeIntRadix h2 h16]

theorem parseRealPlain_rat {r : Nat} (h2 : 2 ≤ r) (h16 : r ≤ 16) (n : Int) (d : Nat) :
    parseRealPlain r (writeIntRadix r n ++ '/' :: dg r d) = some (.rat n (d : Int)) := by
  unfold parseRealPlain
  have hs : scanReal r 0 {} (writeIntRadix r n ++ '/' :: dg r d) = { frac := some (writeIntRadix r n).length } := by
    rw [scanReal_writeIntRadix h2 h16, scanReal_slash]
    have := scanReal_quiet r (dg r d) [] (dg_quiet h2 h16 d) ((writeIntRadix r n).length + 1)
      { frac := some (writeIntRadix r n).length }
    simpa [scanReal] using this
  rw [hs]
  have ht : (writeIntRadix r n ++ '/' :: dg r d).take (writeIntRadix r n).length = writeIntRadix r n := by simp
  have hdr : (writeIntRadix r n ++ '/' :: dg r d).drop ((writeIntRadix r n).length + 1) = dg r d := by
    rw [← List.drop_drop]; simp
  simp only [Bool.false_eq_true, if_false, Bool.or_self]
  have hsign : ((dg r d).head? == some '+' || (dg r d).head? == some '-') = false := by
    cases hh : dg r d with
    | nil => exact absurd hh (dg_ne_nil r d)
    | cons c cs =>
      obtain ⟨p1, p2, _⟩ := dg_quiet h2 h16 d c (by rw [hh]; simp)
      simp [p1, p2]
  rw [ht, hdr, hsign]
  simp only [Bool.false_eq_true, if_false]
  rw [parseIntRadix_writeIntRadix h2 h16, parseIntRadix_dg h2 h16]
  rfl

theorem signedQuiet_int {r : Nat} (h2 : 2 ≤ r) (h16 : r ≤ 16) (i : Int) : SignedQuiet r (writeIntRadix r i) := by
  obtain ⟨neg, n, h⟩ := writeIntRadix_as_signed r i
  rw [h]
  exact signedQuiet_of neg _ (dg_ne_nil r n) (fun c hc => Or.inr (dg_quiet h2 h16 n c hc))

theorem signedQuiet_rat {r : Nat} (h2 : 2 ≤ r) (h16 : r ≤ 16) (n : Int) (d : Nat) :
    SignedQuiet r (writeIntRadix r n ++ '/' :: dg r d) := by
  obtain ⟨neg, m, h⟩ := writeIntRadix_as_signed r n
  have : writeIntRadix r n ++ '/' :: dg r d = (if neg then '-' :: (dg r m ++ '/' :: dg r d) else dg r m ++ '/' :: dg r d) := by
    rw [h]; cases neg <;> simp
  rw [this]
  refine signedQuiet_of neg _ (by simp) ?_
  intro c hc
  rcases List.mem_append.mp hc with h | h
  · exact Or.inr (dg_quiet h2 h16 m c h)
  · rcases List.mem_cons.mp h with h | h
    · exact Or.inl h
    · exact Or.inr (dg_quiet h2 h16 d c h)

/-! ## literals → values -/

theorem fromQ_reduced {n d : Int} (hd : 1 < d) (hg : Int.gcd n d = 1)
    (hf : (fitsI32 n && fitsI32 d) = false) : fromQ n d = .ok (.bigrat n d) := by
  have hd0 : d ≠ 0 := by omega
  have hd1 : d ≠ 1 := by omega
  have hneg : ¬ d < 0 := by omega
  unfold fromQ bigNew
  simp only [hd0, ↓reduceIte, hg, Int.natCast_one, Int.ediv_one, hneg, Res.bind_ok]
  unfold normBigRat
  simp only [hd1, ↓reduceIte, hf, Bool.false_eq_true]

/-- `real_literal_to_steelval` of the literal that stands for a canonical value is that value. -/
theorem litToNumC_numToLit (c : Bool) {x : Num} (hx : Canonical x) : litToNumC c (numToLit x) = .ok x := by
  cases x with
  | fix n =>
    have : fitsIsize n = true := hx
    simp [litToNumC, numToLit, normInt, this]
  | big n =>
    have : fitsIsize n = false := hx
    simp [litToNumC, numToLit, normInt, this]
  | rat32 n d =>
    obtain ⟨hd, hg, hn32, hd32⟩ := hx
    have hd0 : d ≠ 0 := by omega
    have hd1 : d ≠ 1 := by omega
    simp only [litToNumC, numToLit, fitsI32_fitsIsize hn32, fitsI32_fitsIsize hd32, Bool.and_self, ↓reduceIte, hd0,
      hn32, hd32, ratio32New_reduced (by omega) hg hn32 hd32, Res.bind_ok, Res.pure_eq, normR32, hd1]
  | bigrat n d =>
    obtain ⟨hd, hg, hf⟩ := hx
    have hd0 : d ≠ 0 := by omega
    have hdb : (d == 0) = false := by simp [hd0]
    simp only [litToNumC, numToLit]
    split
    · simp only [hd0, ↓reduceIte, hf, Bool.false_eq_true]
      exact fromQ_reduced hd hg hf
    · simp only [hdb, Bool.and_false, Bool.false_eq_true, ↓reduceIte]
      exact fromQ_reduced hd hg hf

theorem litToNum_numToLit {x : Num} (hx : Canonical x) : litToNum (numToLit x) = .ok x :=
  litToNumC_numToLit _ hx

/-- a folded result written back as a literal and compiled again is the same value. -/
theorem readBack_canonical {x : Num} (hx : Canonical x) : readBack x = .ok x := by
  cases x with
  | bigrat n d => exact fromQ_reduced hx.1 hx.2.1 hx.2.2
  | fix n => exact litToNum_numToLit hx
  | big n => exact litToNum_numToLit hx
  | rat32 n d => exact litToNum_numToLit hx

/-! ## the round trip -/

theorem roundtrip_radixC (c : Bool) {r : Nat} (h2 : 2 ≤ r) (h16 : r ≤ 16) {x : Num} (hx : Canonical x) :
    stringToNumberC c (some r) (numberToString r x) = .ok (some x) := by
  have hlit := litToNumC_numToLit c hx
  cases x with
  | fix n =>
    rw [show numberToString r (.fix n) = writeIntRadix r n from rfl,
      stringToNumberC_of c _ (signedQuiet_int h2 h16 n) _ (parseRealPlain_int h2 h16 n) rfl]
    simp only [numToLit] at hlit; rw [hlit]
  | big n =>
    rw [show numberToString r (.big n) = writeIntRadix r n from rfl,
      stringToNumberC_of c _ (signedQuiet_int h2 h16 n) _ (parseRealPlain_int h2 h16 n) rfl]
    simp only [numToLit] at hlit; rw [hlit]
  | rat32 n d =>
    have hd : 0 ≤ d := by have := hx.1; omega
    have hd1 := hx.1
    obtain ⟨m, rfl⟩ := Int.eq_ofNat_of_zero_le hd
    have hz : zeroDen (.rat n (m : Int)) = false := by simp [zeroDen]; omega
    rw [show numberToString r (.rat32 n (m : Int)) = writeIntRadix r n ++ '/' :: dg r m from rfl,
      stringToNumberC_of c _ (signedQuiet_rat h2 h16 n m) _ (parseRealPlain_rat h2 h16 n m) hz]
    simp only [numToLit] at hlit; rw [hlit]
  | bigrat n d =>
    have hd : 0 ≤ d := by have := hx.1; omega
    have hd1 := hx.1
    obtain ⟨m, rfl⟩ := Int.eq_ofNat_of_zero_le hd
    have hz : zeroDen (.rat n (m : Int)) = false := by simp [zeroDen]; omega
    rw [show numberToString r (.bigrat n (m : Int)) = writeIntRadix r n ++ '/' :: dg r m from rfl,
      stringToNumberC_of c _ (signedQuiet_rat h2 h16 n m) _ (parseRealPlain_rat h2 h16 n m) hz]
    simp only [numToLit] at hlit; rw [hlit]

theorem roundtrip_radix {r : Nat} (h2 : 2 ≤ r) (h16 : r ≤ 16) {x : Num} (hx : Canonical x) :
    stringToNumber (some r) (numberToString r x) = .ok (some x) := roundtrip_radixC _ h2 h16 hx

end SteelVerif.C10
