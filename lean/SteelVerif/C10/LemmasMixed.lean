/-
C10 — lemmas about the mixed exact / inexact model.
-/
import SteelVerif.C10.Mixed
import SteelVerif.C10.LemmasMisc
namespace SteelVerif.C10

/-! ## fractions over `Rat` by cross multiplication -/

theorem intCast_ne_zero' {q : Int} (hq : 0 < q) : (q : Rat) ≠ 0 := by
  intro h
  have : (0 : Rat) < (q : Rat) := Rat.intCast_pos.2 hq
  rw [h] at this
  exact absurd this (by decide)

theorem div_mul_mul_cross {p q d : Int} (hq : 0 < q) :
    (p : Rat) / (q : Rat) * (d : Rat) * (q : Rat) = ((p * d : Int) : Rat) := by
  rw [Rat.mul_assoc, Rat.mul_comm (d : Rat), ← Rat.mul_assoc, Rat.div_mul_cancel (intCast_ne_zero' hq),
    Rat.intCast_mul]

theorem div_lt_div_cross {p q n d : Int} (hq : 0 < q) (hd : 0 < d) :
    (p : Rat) / (q : Rat) < (n : Rat) / (d : Rat) ↔ p * d < n * q := by
  have hq' : (0 : Rat) < (q : Rat) := Rat.intCast_pos.2 hq
  have hd' : (0 : Rat) < (d : Rat) := Rat.intCast_pos.2 hd
  rw [Rat.lt_div_iff hd', ← Rat.mul_lt_mul_right hq', div_mul_mul_cross hq, ← Rat.intCast_mul,
    Rat.intCast_lt_intCast]

theorem div_eq_div_cross {p q n d : Int} (hq : 0 < q) (hd : 0 < d) :
    (p : Rat) / (q : Rat) = (n : Rat) / (d : Rat) ↔ p * d = n * q := by
  constructor
  · intro h; exact cross_of_div_eq_div (by omega) (by omega) h
  · intro h; exact div_eq_div_of_cross (by omega) (by omega) h

/-- the three-way comparison of two cross products is the order of the two fractions. -/
theorem compare_cross {p q n d : Int} (hq : 0 < q) (hd : 0 < d) :
    compare (p * d) (n * q) = cmpRat ((p : Rat) / (q : Rat)) ((n : Rat) / (d : Rat)) := by
  unfold cmpRat
  by_cases h1 : p * d < n * q
  · rw [if_pos ((div_lt_div_cross hq hd).2 h1)]; exact Int.compare_eq_lt.2 h1
  · rw [if_neg (fun h => h1 ((div_lt_div_cross hq hd).1 h))]
    by_cases h2 : p * d = n * q
    · rw [if_pos ((div_eq_div_cross hq hd).2 h2)]; exact Int.compare_eq_eq.2 h2
    · rw [if_neg (fun h => h2 ((div_eq_div_cross hq hd).1 h))]
      exact Int.compare_eq_gt.2 (by omega)

/-! ## the fraction of a finite double -/

theorem floatFraction_den_pos (b : Bits) : 0 < (floatFraction b).2 := by
  unfold floatFraction
  simp only
  split
  · show (0 : Int) < 1; omega
  · have : 0 < 2 ^ (1075 - fExp b) := Nat.pow_pos (by decide)
    show (0 : Int) < ((2 ^ (1075 - fExp b) : Nat) : Int)
    omega

/-! ## conversion -/

/-- every conversion of the code is "round the exact value to the nearest double". -/
theorem toF64_eq_roundRat {x : Num} (hx : Canonical x) : toF64 x = roundRat (denote x) := by
  obtain ⟨h1, h2⟩ := denote_num_den hx
  unfold roundRat
  rw [h1, h2]
  cases x <;> rfl

/-! ## comparison -/

theorem cmpExactWithFloat_finite {x : Num} (hx : Canonical x) {b : Bits} (hb : classify b = .finite) :
    cmpExactWithFloat x b = some (cmpRat (denote x) (floatValue b)) := by
  have hd := floatFraction_den_pos b
  have hq := (canonical_toQ hx).1
  have key : compare (x.toQ.1 * (floatFraction b).2) ((floatFraction b).1 * x.toQ.2)
      = cmpRat (denote x) (floatValue b) := by
    rw [denote_toQ x]; exact compare_cross hq hd
  unfold cmpExactWithFloat
  rw [hb]
  cases x with
  | fix n =>
    simp only [Num.toQ, Int.mul_one] at key
    simp only [Int.mul_one]
    split <;> rw [key]
  | big n => exact congrArg some key
  | rat32 n d => exact congrArg some key
  | bigrat n d => exact congrArg some key

end SteelVerif.C10
