import SteelVerif.C10.Props
open SteelVerif.C10
#print axioms normalize_int_exact
#print axioms normalize_ratio_exact
#print axioms canonical_representation_unique
#print axioms add_exact
#print axioms neg_exact
#print axioms sub_exact
#print axioms mul_exact
