/-
C10 — lemmas about the call shapes: variadic folds are exact, every op code computes what the generic primitive
computes, the constant folder computes what the call computes.
-/
import SteelVerif.C10.Shapes
import SteelVerif.C10.LemmasStr
import SteelVerif.C10.LemmasGcd
namespace SteelVerif.C10

/-! ## order primitives: the short-circuit loop of `ord_internal` = `windows(2).all` -/

theorem ordLoop_eq_windowsAll (p : Num → Num → Bool) : ∀ (rest : List Num) (x : Num),
    ordLoop p x rest = windowsAll p (x :: rest)
  | [], x => by simp [ordLoop, windowsAll]
  | r :: rs, x => by
    simp only [ordLoop, windowsAll]
    rw [ordLoop_eq_windowsAll p rs r]
    cases p x r <;> simp

theorem ordInternal_eq_cmpPrim (p : Num → Num → Bool) (xs : List Num) : ordInternal p xs = cmpPrim p xs := by
  match xs with
  | [] => rfl
  | [x] => simp [ordInternal, cmpPrim, windowsAll]
  | x :: y :: rest =>
    simp only [ordInternal, cmpPrim, List.isEmpty_cons, Bool.false_eq_true, if_false]
    rw [ordLoop_eq_windowsAll]

/-! ## folds -/

theorem foldlM_exact (op : Num → Num → Res Num) (sop : Rat → Rat → Rat)
    (hop : ∀ {a b : Num}, Canonical a → Canonical b → Exact (op a b) (sop (denote a) (denote b))) :
    ∀ (xs : List Num) (a : Num), Canonical a → (∀ x ∈ xs, Canonical x) →
    Exact (xs.foldlM (fun acc x => op acc x) a) (xs.foldl (fun q x => sop q (denote x)) (denote a))
  | [], a, ha, _ => Exact.mk rfl ha
  | x :: xs, a, ha, hxs => by
      obtain ⟨v, hv, hden, hcan⟩ := hop ha (hxs x (by simp))
      have ih := foldlM_exact op sop hop xs v hcan (fun y hy => hxs y (by simp [hy]))
      simp only [List.foldlM_cons, List.foldl_cons]
      rw [hden] at ih
      have : (op a x >>= fun acc => xs.foldlM (fun acc x => op acc x) acc)
          = xs.foldlM (fun acc x => op acc x) v := by rw [hv]; rfl
      rw [this]; exact ih

/-- the sum / product of the denoted values, shaped like the code's fold. -/
def sumQ : List Num → Rat
  | [] => 0
  | x :: xs => xs.foldl (fun q y => q + denote y) (denote x)

def prodQ : List Num → Rat
  | [] => 1
  | x :: xs => xs.foldl (fun q y => q * denote y) (denote x)

theorem addPrim_exact : ∀ (xs : List Num), (∀ x ∈ xs, Canonical x) → Exact (addPrim xs) (sumQ xs)
  | [], _ => Exact.mk (by simp [denote, sumQ]) (by decide)
  | [x], h => Exact.mk (by simp [sumQ]) (h x (by simp))
  | x :: y :: zs, h => by
    obtain ⟨v, hv, hden, hcan⟩ := addTwo_exact (h x (by simp)) (h y (by simp))
    have := foldlM_exact addTwo (· + ·) (fun ha hb => addTwo_exact ha hb) zs v hcan
      (fun z hz => h z (by simp [hz]))
    simp only [addPrim, hv, sumQ, List.foldl_cons]
    rw [hden] at this
    exact this

theorem mulPrim_exact : ∀ (xs : List Num), (∀ x ∈ xs, Canonical x) → Exact (mulPrim xs) (prodQ xs)
  | [], _ => Exact.mk (by simp [denote, prodQ]) (by decide)
  | [x], h => Exact.mk (by simp [prodQ]) (h x (by simp))
  | x :: y :: zs, h => by
    obtain ⟨v, hv, hden, hcan⟩ := mulTwo_exact (h x (by simp)) (h y (by simp))
    have := foldlM_exact mulTwo (· * ·) (fun ha hb => mulTwo_exact ha hb) zs v hcan
      (fun z hz => h z (by simp [hz]))
    simp only [mulPrim, hv, prodQ, List.foldl_cons]
    rw [hden] at this
    exact this

/-- `(- x y₁ … yₙ)`, n ≥ 1: `x − (y₁ + … + yₙ)`, exact and canonical. -/
theorem subPrim_exact {x : Num} {ys : List Num} (hx : Canonical x) (hys : ∀ y ∈ ys, Canonical y)
    (hne : ys ≠ []) : Exact (subPrim (x :: ys)) (denote x - sumQ ys) := by
  obtain ⟨s, hs, hsden, hscan⟩ := addPrim_exact ys hys
  obtain ⟨n, hn, hnden, hncan⟩ := negate_exact hscan
  have h := addTwo_exact hx hncan
  cases ys with
  | nil => exact absurd rfl hne
  | cons y ys =>
    simp only [subPrim, hs, Res.bind_ok, hn]
    rw [hnden, hsden] at h
    have e : denote x + -sumQ (y :: ys) = denote x - sumQ (y :: ys) := by
      rw [Rat.sub_eq_add_neg]
    rw [← e]; exact h

theorem divPrim_cons (cfg : Cfg) (x : Num) : ∀ ys : List Num, ys ≠ [] →
    divPrim cfg (x :: ys) = (mulPrim ys >>= fun d => divTwo cfg x d)
  | [], h => absurd rfl h
  | [_], _ => rfl
  | _ :: _ :: _, _ => rfl

/-- `(/ x y₁ … yₙ)`, n ≥ 1, none of the divisors zero: `x / (y₁ · … · yₙ)`, exact and canonical
(repaired reciprocal, or the product inside `RecipGuard`). -/
theorem divPrim_exact (cfg : Cfg) {x : Num} {ys : List Num} (hx : Canonical x) (hys : ∀ y ∈ ys, Canonical y)
    (hne : ys ≠ []) (h0 : prodQ ys ≠ 0)
    (hg : cfg.recipChecked = true ∨ ∀ d, mulPrim ys = .ok d → RecipGuard d = true) :
    Exact (divPrim cfg (x :: ys)) (denote x / prodQ ys) := by
  obtain ⟨d, hd, hdden, hdcan⟩ := mulPrim_exact ys hys
  have hdne : d ≠ .fix 0 := by
    intro h; rw [h] at hdden; apply h0; rw [← hdden]; simp [denote]
  have hg' : cfg.recipChecked = true ∨ RecipGuard d = true := hg.imp id (fun h => h d hd)
  have := divTwo_exact cfg hx hdcan hdne hg'
  rw [hdden] at this
  rw [divPrim_cons cfg x ys hne, hd, Res.bind_ok]
  exact this

/-- a zero among the divisors: the product is the canonical zero and the division is an error. -/
theorem divPrim_zero (cfg : Cfg) (x : Num) {ys : List Num} (hys : ∀ y ∈ ys, Canonical y)
    (hne : ys ≠ []) (h0 : prodQ ys = 0) : divPrim cfg (x :: ys) = .err .div0 := by
  obtain ⟨d, hd, hdden, hdcan⟩ := mulPrim_exact ys hys
  have hz : d = .fix 0 := canonical_zero hdcan (by rw [hdden, h0])
  subst hz
  rw [divPrim_cons cfg x ys hne, hd, Res.bind_ok]
  exact divTwo_zero cfg x

/-! ## every op code computes what the generic primitive computes -/

theorem shape_independent_all (cfg : Cfg) (op : Op) (args gargs : List Num)
    (h : op.genericArgs args = some gargs) (hc : ∀ x ∈ args, Canonical x) :
    runOp cfg op args = generic cfg op.sym gargs := by
  cases op
  case ADD | SUB | MUL | DIV =>
    simp only [Op.genericArgs] at h
    split at h <;> simp_all [runOp, generic, registeredFn, Op.sym]
  case LTE | LT | GT | GTE =>
    simp only [Op.genericArgs] at h
    split at h
    · cases h
    · injection h with h; subst h
      simp only [runOp, generic, registeredFn, Op.sym, callFn, ordInternal_eq_cmpPrim]
  case BINOPADD | BINOPADDTAIL =>
    match args, h with
    | [x, y], h =>
      simp only [Op.genericArgs, Option.some.injEq] at h; subst h
      simp [runOp, generic, registeredFn, Op.sym, callFn, addPrim]
      cases addTwo x y <;> rfl
  case NUMEQUAL =>
    match args, h with
    | [x, y], h =>
      simp only [Op.genericArgs, Option.some.injEq] at h; subst h
      rfl
  case ADDREGISTER | SUBREGISTER =>
    match args, h with
    | [x, y], h =>
      simp only [Op.genericArgs, Option.some.injEq] at h; subst h
      rfl
  case LTEREGISTER =>
    match args, h with
    | [x, y], h =>
      simp only [Op.genericArgs, Option.some.injEq] at h; subst h
      simp only [runOp, generic, registeredFn, Op.sym, callFn, ordInternal_eq_cmpPrim]
  case SUBREGISTER1 =>
    match args, h with
    | [l], h =>
      simp only [Op.genericArgs, Option.some.injEq] at h; subst h
      rfl
  case ADDIMMEDIATE =>
    match args, h with
    | [l, .fix r], h =>
      simp only [Op.genericArgs] at h
      split at h
      · injection h with h; subst h; rfl
      · cases h
  case SUBIMMEDIATE =>
    match args, h with
    | [l, .fix r], h =>
      simp only [Op.genericArgs] at h
      split at h
      · rename_i hr
        injection h with h; subst h
        have hl : Canonical l := hc l (by simp)
        have hfr : fitsIsize r = true := by
          unfold fitsIsize; simp only [decide_eq_true_eq]; omega
        simp only [runOp, generic, registeredFn, Op.sym, callFn, subImmediate_eq hl hfr, subPrim, addPrim, subTwo]
        rfl
      · cases h
  case LTEIMMEDIATE | LTEIMMEDIATEIF =>
    match args, h with
    | [l, .fix r], h =>
      simp only [Op.genericArgs] at h
      split at h
      · injection h with h; subst h
        simp [runOp, generic, registeredFn, Op.sym, callFn, ordInternal, ordLoop, lteImmediate, Res.map]
      · cases h

/-! ## the constant folder -/

theorem constFold_eq_call (cfg : Cfg) (f : Fn) (args : List Num)
    (hcan : ∀ v, callFn cfg f args = .ok (.num v) → Canonical v) :
    constFold cfg f args = callFn cfg f args := by
  unfold constFold
  cases h : callFn cfg f args with
  | ok v =>
    cases v with
    | num n => simp only [readBack_canonical (hcan n h), Res.map]
    | bool b => rfl
  | err e => simp
  | panic => rfl

end SteelVerif.C10
