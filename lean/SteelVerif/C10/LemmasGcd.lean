/-
C10 — `gcd` and `lcm` (the Scheme definitions of scheme/stdlib.scm over the model's primitives),
`exact-integer-sqrt`, and the specialised immediate-operand paths.
-/
import SteelVerif.C10.LemmasMisc
namespace SteelVerif.C10

/-- an exact canonical integer result is `into_steelval` of that integer. -/
theorem exact_int_eq {r : Res Num} {k : Int} (h : Exact r (k : Rat)) : r = .ok (normInt k) := by
  obtain ⟨v, hv, hden, hcan⟩ := h
  rw [hv]; congr 1
  exact canonical_unique hcan (normInt_canonical k) (by rw [hden, normInt_denote])

theorem normInt_toInt (n : Int) : (normInt n).toInt = n := by
  simp [Num.toInt, normInt_toQ]

theorem normInt_eq_zero_iff (n : Int) : normInt n = .fix 0 ↔ n = 0 := by
  constructor
  · intro h
    have := congrArg Num.toInt h
    rw [normInt_toInt] at this
    exact this
  · intro h; subst h; rfl

theorem absGuard_normInt {a : Int} (h : a ≠ I64_MIN) : AbsGuard (normInt a) = true := by
  unfold normInt; split <;> simp [AbsGuard, h]

theorem recipGuard_normInt {a : Int} (h : a ≠ I32_MIN) : RecipGuard (normInt a) = true := by
  unfold normInt; split <;> simp [RecipGuard, h]

theorem absNum_normInt (cfg : Cfg) {a : Int} (hg : cfg.absChecked = true ∨ a ≠ I64_MIN) :
    absNum cfg (normInt a) = .ok (normInt (a.natAbs : Int)) := by
  have := absNum_exact cfg (normInt_canonical a)
    (hg.elim Or.inl (fun h => Or.inr (absGuard_normInt h)))
  rw [normInt_denote, ratAbs_cast] at this
  exact exact_int_eq this

theorem gcd_fmod (a b : Int) : Int.gcd b (Int.fmod a b) = Int.gcd a b := by
  rw [Int.fmod_def]
  have : a - b * a.fdiv b = a + b * (-(a.fdiv b)) := by
    rw [Int.mul_neg]; omega
  rw [this, Int.gcd_add_mul_left_right, Int.gcd_comm]

/-- Euclid's algorithm over `modulo` and `abs` computes the gcd (the pinned `abs` needs the
result to be different from 2^63). -/
theorem gcdFuel_spec (cfg : Cfg) : ∀ (fuel : Nat) (a b : Int), b.natAbs < fuel →
    (cfg.absChecked = true ∨ (Int.gcd a b : Int) ≠ 9223372036854775808) →
    gcdFuel cfg fuel (normInt a) (normInt b) = .ok (normInt (Int.gcd a b : Int)) := by
  intro fuel
  induction fuel with
  | zero => intro a b h; omega
  | succ f ih =>
    intro a b hlt hg
    unfold gcdFuel
    by_cases hb : b = 0
    · subst hb
      have : numEq (normInt 0) (.fix 0) = true := by rw [numEq_iff_eq]; rfl
      simp only [this, ↓reduceIte]
      rw [Int.gcd_zero] at hg ⊢
      apply absNum_normInt
      rcases hg with h | h
      · exact Or.inl h
      · right; unfold I64_MIN; omega
    · have : numEq (normInt b) (.fix 0) = false := by
        cases h : numEq (normInt b) (.fix 0)
        · rfl
        · rw [numEq_iff_eq, normInt_eq_zero_iff] at h; exact absurd h hb
      simp only [this, Bool.false_eq_true, ↓reduceIte]
      have hm := (modulo_spec (normInt_canonical a) (normInt_canonical b) (normInt_isInt a)
        (normInt_isInt b)).2 (by rw [Ne, normInt_eq_zero_iff]; exact hb)
      rw [normInt_toInt, normInt_toInt] at hm
      rw [hm]
      simp only [Res.bind_ok]
      have hlt' : (Int.fmod a b).natAbs < f := by
        have := natAbs_fmod_lt a hb; omega
      have := ih b (Int.fmod a b) hlt' (by rw [gcd_fmod]; exact hg)
      rw [gcd_fmod] at this
      exact this

theorem gcdNum_spec (cfg : Cfg) (a b : Int)
    (hg : cfg.absChecked = true ∨ (Int.gcd a b : Int) ≠ 9223372036854775808) :
    gcdNum cfg (normInt a) (normInt b) = .ok (normInt (Int.gcd a b : Int)) := by
  unfold gcdNum
  rw [normInt_toQ]
  exact gcdFuel_spec cfg _ a b (by simp) hg

theorem isZero_normInt (a : Int) : isZero (normInt a) = decide (a = 0) := by
  by_cases h : a = 0
  · subst h; rfl
  · simp only [h, decide_false]
    unfold normInt
    split
    · unfold isZero; split
      · rename_i heq; injection heq with h'; exact absurd h' h
      · rfl
    · rfl

theorem floorNum_normInt (k : Int) : floorNum (normInt k) = .ok (normInt k) := by
  unfold normInt; split <;> rfl

theorem lcm_natAbs {a b : Int} (ha : a ≠ 0) :
    ((b * (a / (Int.gcd a b : Int))).natAbs : Int) = (Int.lcm a b : Int) := by
  obtain ⟨a', b', hg, haa, hbb, _⟩ := gcd_cofactors a b (Or.inl ha)
  have hg0 : (Int.gcd a b : Int) ≠ 0 := by omega
  have e1 : a / (Int.gcd a b : Int) = a' := by
    conv => lhs; lhs; rw [haa]
    exact Int.mul_ediv_cancel_left a' hg0
  rw [e1]
  have h1 := Int.gcd_mul_lcm a b
  have h2 : (Int.gcd a b) * (b * a').natAbs = a.natAbs * b.natAbs := by
    have : a.natAbs = (Int.gcd a b) * a'.natAbs := by
      conv => lhs; rw [haa]
      rw [Int.natAbs_mul]; simp
    rw [this, Int.natAbs_mul]
    simp only [Nat.mul_comm, Nat.mul_left_comm]
  have hpos : 0 < Int.gcd a b := by omega
  have := Nat.eq_of_mul_eq_mul_left hpos (h2.trans h1.symm)
  omega

/-- the Scheme `lcm` computes the least common multiple. -/
theorem lcmNum_spec (cfg : Cfg) (a b : Int)
    (hg : cfg.absChecked = true ∨ ((Int.gcd a b : Int) ≠ 9223372036854775808 ∧
      (Int.lcm a b : Int) ≠ 9223372036854775808)) :
    lcmNum cfg (normInt a) (normInt b) = .ok (normInt (Int.lcm a b : Int)) := by
  unfold lcmNum
  rw [isZero_normInt, isZero_normInt]
  by_cases ha : a = 0
  · subst ha; simp; rfl
  by_cases hb : b = 0
  · subst hb; simp; rfl
  simp only [ha, hb, decide_false, Bool.or_self, Bool.false_eq_true, ↓reduceIte]
  rw [gcdNum_spec cfg a b (hg.elim Or.inl (fun h => Or.inr h.1))]
  simp only [Res.bind_ok]
  have hgpos : 0 < (Int.gcd a b : Int) := by
    have := Int.gcd_pos_of_ne_zero_left b ha; omega
  -- a / g
  have hdiv : divTwo cfg (normInt a) (normInt (Int.gcd a b : Int))
      = .ok (normInt (a / (Int.gcd a b : Int))) := by
    have hne : normInt (Int.gcd a b : Int) ≠ .fix 0 := by
      rw [Ne, normInt_eq_zero_iff]; omega
    have := divTwo_exact cfg (normInt_canonical a) (normInt_canonical (Int.gcd a b : Int)) hne
      (Or.inr (recipGuard_normInt (by unfold I32_MIN; omega)))
    rw [normInt_denote, normInt_denote] at this
    apply exact_int_eq
    refine this.congr ?_
    obtain ⟨k, hk⟩ := Int.gcd_dvd_left a b
    have hg0 : (Int.gcd a b : Int) ≠ 0 := by omega
    have hgr := cast_ne_zero hg0
    have e : a / (Int.gcd a b : Int) = k := by
      conv => lhs; lhs; rw [hk]
      exact Int.mul_ediv_cancel_left k hg0
    rw [e]
    conv => lhs; lhs; rw [hk]
    rw [Rat.intCast_mul]
    grind
  rw [hdiv]
  simp only [Res.bind_ok, floorNum_normInt]
  have hmul : mulTwo (normInt b) (normInt (a / (Int.gcd a b : Int)))
      = .ok (normInt (b * (a / (Int.gcd a b : Int)))) := by
    have := mulTwo_exact (normInt_canonical b) (normInt_canonical (a / (Int.gcd a b : Int)))
    rw [normInt_denote, normInt_denote, ← Rat.intCast_mul] at this
    exact exact_int_eq this
  rw [hmul]
  simp only [Res.bind_ok]
  rw [← lcm_natAbs ha]
  apply absNum_normInt
  rcases hg with h | h
  · exact Or.inl h
  · right
    intro hmin
    have := lcm_natAbs (a := a) (b := b) ha
    rw [hmin] at this
    unfold I64_MIN at this
    have h2 := h.2
    omega

/-! ## exact-integer-sqrt -/

theorem exactIntegerSqrt_spec (n : Int) (hn : 0 ≤ n) :
    exactIntegerSqrt (normInt n) =
        .ok (normInt (Nat.sqrt n.toNat : Nat), normInt (n - (Nat.sqrt n.toNat : Nat) * (Nat.sqrt n.toNat : Nat))) ∧
      ((Nat.sqrt n.toNat : Nat) : Int) * (Nat.sqrt n.toNat : Nat) ≤ n ∧
      n < ((Nat.sqrt n.toNat : Nat) + 1) * ((Nat.sqrt n.toNat : Nat) + 1) := by
  have h1 := Nat.sqrt_le n.toNat
  have h2 := Nat.lt_succ_sqrt n.toNat
  generalize ht : Nat.sqrt n.toNat = t at *
  have hle : (t : Int) * (t : Int) ≤ n := by
    have : ((t * t : Nat) : Int) ≤ (n.toNat : Int) := by exact_mod_cast h1
    rw [Int.natCast_mul] at this
    omega
  have hlt : n < ((t : Int) + 1) * ((t : Int) + 1) := by
    have : ((n.toNat : Nat) : Int) < ((Nat.succ t * Nat.succ t : Nat) : Int) := by exact_mod_cast h2
    rw [Int.natCast_mul] at this
    simp only [Nat.succ_eq_add_one, Int.natCast_add, Int.natCast_one] at this
    omega
  refine ⟨?_, hle, hlt⟩
  have hsle : (t : Int) ≤ (t : Int) * (t : Int) := by
    by_cases h : (t : Int) < 1
    · have : (t : Int) = 0 := by omega
      rw [this]; omega
    · have : 1 * (t : Int) ≤ (t : Int) * (t : Int) :=
        Int.mul_le_mul_of_nonneg_right (by omega) (by omega)
      omega
  unfold normInt
  by_cases hf : fitsIsize n = true
  · simp only [hf, ↓reduceIte, exactIntegerSqrt, hn, ht]
    rw [fitsIsize_iff] at hf
    have f1 : fitsIsize ((t : Int) * (t : Int)) = true := by rw [fitsIsize_iff]; omega
    have f2 : fitsIsize (n - (t : Int) * (t : Int)) = true := by rw [fitsIsize_iff]; omega
    have f3 : fitsIsize (t : Int) = true := by rw [fitsIsize_iff]; omega
    rw [isz_ok f1]
    simp only [Res.bind_ok]
    rw [isz_ok f2]
    simp only [Res.bind_ok, Res.pure_eq, f3, f2, ↓reduceIte]
  · simp only [hf, Bool.false_eq_true, ↓reduceIte, exactIntegerSqrt, hn, ht]
    rfl

/-! ## specialised immediate-operand paths -/

theorem subImmediate_eq {l : Num} (hl : Canonical l) {r : Int} (hr : fitsIsize r = true) :
    subImmediate l r = subTwo l (.fix r) := by
  cases l with
  | fix a =>
    have h2 : subTwo (.fix a) (.fix r) = .ok (normInt (a - r)) := by
      have := subTwo_exact hl (show Canonical (.fix r) from hr)
      simp only [denote, ← Rat.intCast_sub] at this
      exact exact_int_eq this
    rw [h2]
    unfold subImmediate
    cases h : chk64 (a - r) with
    | none =>
      simp only [h]
      rw [chk64_eq_none] at h
      simp [normInt, h]
    | some v =>
      simp only [h]
      obtain ⟨hf, hv⟩ := chk64_eq_some.mp h
      subst hv
      simp [normInt, hf]
  | big a => rfl
  | rat32 a b => rfl
  | bigrat a b => rfl

theorem addImmediate_eq {l : Num} (hl : Canonical l) {r : Int} (hr : fitsIsize r = true) :
    addImmediate l r = addTwo l (.fix r) := by
  cases l with
  | fix a =>
    have h2 : addTwo (.fix a) (.fix r) = .ok (normInt (a + r)) := by
      have := addTwo_exact hl (show Canonical (.fix r) from hr)
      simp only [denote, ← Rat.intCast_add] at this
      exact exact_int_eq this
    rw [h2]
    unfold addImmediate
    cases h : chk64 (a + r) with
    | none =>
      simp only [h]
      rw [chk64_eq_none] at h
      simp [normInt, h]
    | some v =>
      simp only [h]
      obtain ⟨hf, hv⟩ := chk64_eq_some.mp h
      subst hv
      simp [normInt, hf]
  | big a => rfl
  | rat32 a b => rfl
  | bigrat a b => rfl

end SteelVerif.C10
