/-
C10 — reciprocal and `/`, integer division (`quotient`, `remainder`, `modulo`), `abs`,
`numerator`, `denominator`.
-/
import SteelVerif.C10.LemmasOps
namespace SteelVerif.C10

/-! ## guards of the `_partial` theorems (the inputs on which the pinned code is defective) -/

/-- operands on which the unchecked reciprocal does not negate `i32::MIN`. -/
def RecipGuard : Num → Bool
  | .fix n => n != I32_MIN
  | .rat32 n _ => n != I32_MIN
  | _ => true

/-- operands on which the unchecked `abs` does not negate the most negative value. -/
def AbsGuard : Num → Bool
  | .fix n => n != I64_MIN
  | .rat32 n _ => n != I32_MIN
  | _ => true

/-! ## the integer value of an integer operand -/

def Num.toInt (x : Num) : Int := x.toQ.1

theorem denote_of_isInt {x : Num} (h : x.isInt = true) : denote x = (x.toInt : Rat) := by
  cases x <;> simp_all [Num.isInt, denote, Num.toInt, Num.toQ]

theorem canonical_int_eq_normInt {x : Num} (hc : Canonical x) (h : x.isInt = true) :
    x = normInt x.toInt := by
  apply canonical_unique hc (normInt_canonical _)
  rw [normInt_denote, denote_of_isInt h]

theorem canonical_zero {x : Num} (hc : Canonical x) (h : denote x = 0) : x = .fix 0 := by
  apply canonical_unique hc (by decide)
  rw [h]; rfl

theorem denote_ne_zero_of_ne {x : Num} (hc : Canonical x) (h : x ≠ .fix 0) : denote x ≠ 0 :=
  fun h0 => h (canonical_zero hc h0)

/-! ## reciprocal -/

theorem neg_one_cast : ((-1 : Int) : Rat) = ((1 : Int) : Rat) / ((-1 : Int) : Rat) := by
  have h1 : ((-1 : Int) : Rat) = -1 := rfl
  have h2 : ((1 : Int) : Rat) = 1 := rfl
  rw [h1, h2]; grind

/-- `Rational32::new(1, m)` for a non-zero `m` other than `i32::MIN`. -/
theorem ratio32New_one {m : Int} (h0 : m ≠ 0) (hmin : m ≠ I32_MIN) (h32 : fitsI32 m = true) :
    ∃ r, ratio32New 1 m = .ok r ∧ Exact (.ok (normR32 r)) ((1 : Int) / (m : Rat)) := by
  rw [fitsI32_iff] at h32
  unfold I32_MIN at hmin
  unfold ratio32New
  simp only [h0, ↓reduceIte, (by decide : (1 : Int) ≠ 0)]
  by_cases h1 : (1 : Int) = m
  · subst h1
    simp only [↓reduceIte]
    exact ⟨(1, 1), rfl, Exact.mk (by simp only [normR32, denote, ↓reduceIte, rat_div_one]) (by decide)⟩
  · simp only [h1, ↓reduceIte]
    have hg : gcd32 1 m = .ok 1 := by
      unfold gcd32 I32_MIN
      have : ¬(((1 : Int) = -2147483648 ∧ (m = 0 ∨ m = -2147483648)) ∨ (m = -2147483648 ∧ (1 : Int) = 0)) := by
        omega
      simp only [this, ↓reduceIte]
      simp
    simp only [hg, Res.bind_ok, Int.tdiv_one]
    have hmr : (m : Rat) ≠ 0 := cast_ne_zero h0
    by_cases hneg : m < 0
    · simp only [hneg, ↓reduceIte]
      rw [i32_ok (by decide), i32_ok (by rw [fitsI32_iff]; omega)]
      simp only [Res.bind_ok, Res.pure_eq]
      refine ⟨_, rfl, ?_⟩
      unfold normR32
      by_cases hm1 : 0 - m = 1
      · simp only [hm1, ↓reduceIte]
        have : m = -1 := by omega
        subst this
        exact Exact.mk (by simp only [denote]; exact neg_one_cast) (by decide)
      · simp only [hm1, ↓reduceIte]
        refine Exact.mk ?_ ⟨by omega, by simp, by decide, by rw [fitsI32_iff]; omega⟩
        simp only [denote, Int.zero_sub, Rat.intCast_neg]
        grind
    · simp only [hneg, ↓reduceIte, Res.pure_eq]
      refine ⟨_, rfl, ?_⟩
      unfold normR32
      have hm1 : m ≠ 1 := fun h => h1 h.symm
      simp only [hm1, ↓reduceIte]
      exact Exact.mk rfl ⟨by omega, by simp, by decide, by rw [fitsI32_iff]; omega⟩

theorem inv_eq_one_div (q : Rat) : q⁻¹ = ((1 : Int) : Rat) / q := by
  rw [Rat.div_def]; have : ((1 : Int) : Rat) = 1 := rfl
  rw [this]; grind

theorem inv_div_cast {n d : Int} (hn : n ≠ 0) (hd : d ≠ 0) :
    ((n : Rat) / (d : Rat))⁻¹ = (d : Rat) / (n : Rat) := by
  have := cast_ne_zero hn
  have := cast_ne_zero hd
  grind

theorem neg_div_neg_cast (n d : Int) (hn : n ≠ 0) :
    ((-d : Int) : Rat) / ((-n : Int) : Rat) = (d : Rat) / (n : Rat) := by
  have := cast_ne_zero hn
  simp only [Rat.intCast_neg]
  grind

/-- The reciprocal inside `/` is exact — for the repaired code on every non-zero operand, for the
pinned code on every non-zero operand satisfying `RecipGuard`. -/
theorem recip_exact (cfg : Cfg) {x : Num} (hx : Canonical x) (hne : x ≠ .fix 0)
    (hg : cfg.recipChecked = true ∨ RecipGuard x = true) :
    Exact (recip cfg x) (denote x)⁻¹ := by
  cases x with
  | fix n =>
    have hn0 : n ≠ 0 := fun h => hne (by rw [h])
    simp only [recip, denote]
    rw [inv_eq_one_div]
    cases hc : chk32 n with
    | none => exact fromQ_exact hn0
    | some m =>
      obtain ⟨h32, hm⟩ := chk32_eq_some.mp hc
      subst hm
      simp only [hn0, ↓reduceIte]
      by_cases hmin : m = I32_MIN
      · rcases hg with hg | hg
        · simp only [hg, hmin, beq_self_eq_true, Bool.and_self, ↓reduceIte]
          rw [← hmin]; exact fromQ_exact hn0
        · simp [RecipGuard, hmin] at hg
      · have : (m == I32_MIN) = false := by simpa using hmin
        simp only [this, Bool.and_false, Bool.false_eq_true, ↓reduceIte]
        obtain ⟨r, hr, hex⟩ := ratio32New_one hn0 hmin h32
        simp only [hr, Res.bind_ok, Res.pure_eq]
        exact hex
  | big n =>
    have hn0 : n ≠ 0 := by
      intro h; subst h; simp [Canonical, fitsIsize] at hx
    simp only [recip, denote]
    rw [inv_eq_one_div]
    exact fromQ_exact hn0
  | rat32 n d =>
    obtain ⟨hd, hgcd, hn32, hd32⟩ := hx
    have hn0 : n ≠ 0 := by
      intro h; subst h
      have : d.natAbs = 1 := by simpa using hgcd
      omega
    have hd0 : d ≠ 0 := by omega
    simp only [recip, denote]
    rw [inv_div_cast hn0 hd0]
    have hgcd' : Int.gcd d n = 1 := by rw [Int.gcd_comm]; exact hgcd
    rw [fitsI32_iff] at hn32 hd32
    by_cases hmin : n = I32_MIN
    · rcases hg with hg | hg
      · simp only [hg, hmin, beq_self_eq_true, Bool.and_self, ↓reduceIte]
        rw [← hmin]; exact fromQ_exact hn0
      · simp [RecipGuard, hmin] at hg
    · have : (n == I32_MIN) = false := by simpa using hmin
      simp only [this, Bool.and_false, Bool.false_eq_true, ↓reduceIte]
      unfold I32_MIN at hmin
      unfold ratio32Recip
      simp only [hn0, ↓reduceIte]
      by_cases hpos : 0 < n
      · simp only [hpos, ↓reduceIte, Res.bind_ok, Res.pure_eq]
        exact normR32_exact hpos hgcd' (by rw [fitsI32_iff]; omega) (by rw [fitsI32_iff]; omega)
      · simp only [hpos, ↓reduceIte]
        rw [i32_ok (by rw [fitsI32_iff]; omega), i32_ok (by rw [fitsI32_iff]; omega)]
        simp only [Res.bind_ok, Res.pure_eq, Int.zero_sub]
        have := normR32_exact (n := -d) (d := -n) (by omega) (by simpa using hgcd')
          (by rw [fitsI32_iff]; omega) (by rw [fitsI32_iff]; omega)
        rwa [neg_div_neg_cast n d hn0] at this
  | bigrat n d =>
    obtain ⟨hd, hgcd, _⟩ := hx
    have hn0 : n ≠ 0 := by
      intro h; subst h
      have : d.natAbs = 1 := by simpa using hgcd
      omega
    have hd0 : d ≠ 0 := by omega
    simp only [recip, denote]
    rw [inv_div_cast hn0 hd0]
    have hgcd' : Int.gcd d n = 1 := by rw [Int.gcd_comm]; exact hgcd
    simp only [hn0, ↓reduceIte]
    by_cases hpos : 0 < n
    · simp only [hpos, ↓reduceIte]
      exact normBigRat_exact hpos hgcd'
    · simp only [hpos, ↓reduceIte]
      have := normBigRat_exact (n := -d) (d := -n) (by omega) (by simpa using hgcd')
      rwa [neg_div_neg_cast n d hn0] at this

/-- `/` is exact whenever the divisor is not zero (pinned code: and satisfies `RecipGuard`). -/
theorem divTwo_exact (cfg : Cfg) {x y : Num} (hx : Canonical x) (hy : Canonical y)
    (hne : y ≠ .fix 0) (hg : cfg.recipChecked = true ∨ RecipGuard y = true) :
    Exact (divTwo cfg x y) (denote x / denote y) := by
  obtain ⟨r, hr, hden, hcan⟩ := recip_exact cfg hy hne hg
  unfold divTwo
  simp only [hr, Res.bind_ok]
  refine (mulTwo_exact hx hcan).congr ?_
  rw [hden, Rat.div_def]

theorem divTwo_zero (cfg : Cfg) (x : Num) : divTwo cfg x (.fix 0) = .err .div0 := by
  simp [divTwo, recip, chk32, fitsI32]

/-! ## quotient, remainder, modulo -/

theorem tdiv_fits {l r : Int} (hl : fitsIsize l = true) (hr : r ≠ 0)
    (hmin : ¬(l = I64_MIN ∧ r = -1)) : fitsIsize (Int.tdiv l r) = true := by
  rw [fitsIsize_iff] at *
  unfold I64_MIN at hmin
  have h1 := Int.natAbs_tdiv l r
  have h2 : (l.natAbs).div (r.natAbs) = l.natAbs / r.natAbs := rfl
  rw [h2] at h1
  by_cases hr1 : r.natAbs = 1
  · rw [hr1, Nat.div_one] at h1
    rcases Int.natAbs_eq r with h | h <;> rw [hr1] at h
    · subst h; simp at *; omega
    · have : r = -1 := by omega
      subst this
      have : l.tdiv (-1) = -l := by simp
      omega
  · have hr2 : 2 ≤ r.natAbs := by omega
    have : l.natAbs / r.natAbs ≤ l.natAbs / 2 := Nat.div_le_div_left hr2 (by omega)
    omega

theorem tmod_fits {l r : Int} (hr32 : fitsIsize r = true) (hr : r ≠ 0) :
    fitsIsize (Int.tmod l r) = true := by
  rw [fitsIsize_iff] at *
  have h1 := Int.natAbs_tmod l r
  have : l.natAbs % r.natAbs < r.natAbs := Nat.mod_lt _ (by omega)
  omega

theorem fmod_bounds (l : Int) {r : Int} (hr : r ≠ 0) :
    (0 < r → 0 ≤ Int.fmod l r ∧ Int.fmod l r < r) ∧ (r < 0 → r < Int.fmod l r ∧ Int.fmod l r ≤ 0) := by
  have h1 := Int.emod_nonneg l hr
  have h2 := Int.emod_lt l hr
  rw [Int.fmod_eq_emod]
  constructor
  · intro hpos
    have : (0 ≤ r ∨ r ∣ l) := Or.inl (by omega)
    simp only [this, ↓reduceIte]; omega
  · intro hneg
    by_cases hd : r ∣ l
    · simp only [hd, or_true, ↓reduceIte]
      have := Int.emod_eq_zero_of_dvd hd
      omega
    · have : ¬(0 ≤ r ∨ r ∣ l) := by
        intro h; rcases h with h | h
        · omega
        · exact hd h
      simp only [this, ↓reduceIte]
      have hne : l % r ≠ 0 := fun h => hd (Int.dvd_of_emod_eq_zero h)
      omega

theorem fmod_fits {l r : Int} (hr32 : fitsIsize r = true) (hr : r ≠ 0) :
    fitsIsize (Int.fmod l r) = true := by
  rw [fitsIsize_iff] at *
  have := fmod_bounds l hr
  omega

theorem natAbs_fmod_lt (l : Int) {r : Int} (hr : r ≠ 0) : (Int.fmod l r).natAbs < r.natAbs := by
  have := fmod_bounds l hr
  omega

theorem intDivOp_fix_fix (f : Int → Int → Int) (l r : Int) (hr0 : r ≠ 0) :
    intDivOp f (.fix l) (.fix r) =
      if l = I64_MIN ∧ r = -1 then .ok (normInt (f l r))
      else (do let v ← isz (f l r); pure (.fix v)) := by
  unfold intDivOp
  split <;> simp_all

theorem intDivOp_big_fix (f : Int → Int → Int) (l r : Int) (hr0 : r ≠ 0) :
    intDivOp f (.big l) (.fix r) = .ok (normInt (f l r)) := by
  unfold intDivOp
  split <;> simp_all

theorem intDivOp_fix_zero (f : Int → Int → Int) (l : Int) :
    intDivOp f (.fix l) (.fix 0) = .err .div0 := by
  unfold intDivOp
  split <;> simp_all

theorem intDivOp_big_zero (f : Int → Int → Int) (l : Int) :
    intDivOp f (.big l) (.fix 0) = .err .div0 := by
  unfold intDivOp
  split <;> simp_all

theorem intDivOp_fix_big (f : Int → Int → Int) (l r : Int) :
    intDivOp f (.fix l) (.big r) = .ok (normInt (f l r)) := by
  unfold intDivOp
  split <;> simp_all

theorem intDivOp_big_big (f : Int → Int → Int) (l r : Int) :
    intDivOp f (.big l) (.big r) = .ok (normInt (f l r)) := by
  unfold intDivOp
  split <;> simp_all

/-- The three integer-division primitives return `into_steelval` of the exact big-integer result,
and "division by zero" exactly for a zero divisor. -/
theorem intDivOp_spec (f : Int → Int → Int)
    (hf : ∀ l r, fitsIsize l = true → fitsIsize r = true → r ≠ 0 → ¬(l = I64_MIN ∧ r = -1) →
      fitsIsize (f l r) = true)
    {x y : Num} (hx : Canonical x) (hy : Canonical y) (hxi : x.isInt = true) (hyi : y.isInt = true) :
    (y = .fix 0 → intDivOp f x y = .err .div0) ∧
    (y ≠ .fix 0 → intDivOp f x y = .ok (normInt (f x.toInt y.toInt))) := by
  cases x <;> cases y <;> simp [Num.isInt] at hxi hyi
  · rename_i l r
    constructor
    · intro h; injection h with h; subst h; exact intDivOp_fix_zero f l
    · intro hne
      have hr0 : r ≠ 0 := fun h => hne (by rw [h])
      rw [intDivOp_fix_fix f l r hr0]
      by_cases hmin : l = I64_MIN ∧ r = -1
      · simp only [hmin, and_self, ↓reduceIte, Num.toInt, Num.toQ]
      · simp only [hmin, ↓reduceIte, Num.toInt, Num.toQ]
        have := hf l r hx hy hr0 hmin
        rw [isz_ok this]
        simp only [Res.bind_ok, Res.pure_eq, normInt, this, ↓reduceIte]
  · rename_i l r
    constructor
    · intro h; injection h
    · intro _; rw [intDivOp_fix_big]; rfl
  · rename_i l r
    constructor
    · intro h; injection h with h; subst h; exact intDivOp_big_zero f l
    · intro hne
      have hr0 : r ≠ 0 := fun h => hne (by rw [h])
      rw [intDivOp_big_fix f l r hr0]; rfl
  · rename_i l r
    constructor
    · intro h; injection h
    · intro _; rw [intDivOp_big_big]; rfl

end SteelVerif.C10
