/-
C10 driver: evaluates the requests the Rust harness `c10` is given, on the model M (configured by
the flags extracted from the Rust source, `Gen.cfg`) and, independently, on the specification S
(`Rat` arithmetic).  One line per request: `<model result>\t<spec result>`.

  request   : `op A [B]`      operands: decimal integer or `n/d`
  results   : `5`, `-7/3`, `#true`, `(4 1)`, `err:div0`, `err:type`, `err:expt0`, `panic`,
              `unmodelled` (model only), `undef` (spec only: the property does not say)
  `c10driver --cfg pinned|repaired` overrides the configuration (used by the negative checks).

  further requests (model functions of NumStr.lean / Shapes.lean):
    `tostrr A R`, `roundtripr A R`   number->string / string->number with radix R
    `s2n TEXT [R]`                   string->number on an arbitrary text (no blanks)
    `addn|subn|muln|divn A B C ...`  the variadic primitives on 0..n operands (the generic call AND every op code
                                     that stands for it must agree: the model line is `generic`, `op:<NAME>` checks
                                     `runOp` of every op code applicable to the operand list against it)
    `len|ltn|gtn|gen A B C ...`      the order primitives on 1..n operands
-/
import SteelVerif.C10.Model
import SteelVerif.C10.GenArms
import SteelVerif.C10.Shapes
import SteelVerif.C10.Mixed
namespace SteelVerif.C10

def parseInt? (s : String) : Option Int :=
  if s.startsWith "-" then (s.drop 1).toNat?.map (fun n => -(n : Int))
  else if s.startsWith "+" then (s.drop 1).toNat?.map (fun n => (n : Int))
  else s.toNat?.map (fun n => (n : Int))

/-- an operand, as numerator/denominator (denominator 1 for integers). -/
def parseOperand (s : String) : Option (Int × Int) :=
  match s.splitOn "/" with
  | [n] => (parseInt? n).map (fun n => (n, 1))
  | [n, d] =>
    match parseInt? n, parseInt? d with
    | some n, some d => if d = 0 then none else some (n, d)
    | _, _ => none
  | _ => none

/-- the value the reader produces for a literal: canonical. -/
def operandNum (p : Int × Int) : Option Num :=
  match fromQ p.1 p.2 with
  | .ok v => some v
  | _ => none

def operandRat (p : Int × Int) : Rat := (p.1 : Rat) / (p.2 : Rat)

def showErr : Err → String
  | .div0 => "err:div0" | .type => "err:type" | .expt0 => "err:expt0" | .unmodelled => "unmodelled"
  | .arity => "err:arity" | .resource => "resource" | .inexact => "inexact"

def showRes {α} (f : α → String) : Res α → String
  | .ok v => f v
  | .err e => showErr e
  | .panic => "panic"

def showBool (b : Bool) : String := if b then "#true" else "#false"

def showRat (q : Rat) : String := if q.den = 1 then toString q.num else s!"{q.num}/{q.den}"

def expLimit : Nat := 4096

/-- Model. -/
def runModel (cfg : Cfg) (op : String) (args : List Num) : String :=
  match op, args with
  | "add", [a, b] => showRes Num.show (addTwo a b)
  | "sub", [a, b] => showRes Num.show (subTwo a b)
  | "mul", [a, b] => showRes Num.show (mulTwo a b)
  | "div", [a, b] => showRes Num.show (divTwo cfg a b)
  | "quotient", [a, b] => showRes Num.show (quotient a b)
  | "remainder", [a, b] => showRes Num.show (remainder a b)
  | "modulo", [a, b] => showRes Num.show (modulo a b)
  | "gcd", [a, b] => if a.isInt && b.isInt then showRes Num.show (gcdNum cfg a b) else "unmodelled"
  | "lcm", [a, b] => if a.isInt && b.isInt then showRes Num.show (lcmNum cfg a b) else "unmodelled"
  | "expt", [a, b] =>
    match b with
    | .fix e => if e.natAbs ≤ expLimit then showRes Num.show (expt cfg a b) else "unmodelled"
    | .big _ => showRes Num.show (expt cfg a b)
    | _ => showRes Num.show (expt cfg a b)
  | "eq", [a, b] => showBool (numEq a b)
  | "lt", [a, b] => showBool (numLt a b)
  | "gt", [a, b] => showBool (numGt a b)
  | "le", [a, b] => showBool (numLe a b)
  | "ge", [a, b] => showBool (numGe a b)
  | "neg", [a] => showRes Num.show (negate a)
  | "recip", [a] => showRes Num.show (recip cfg a)
  | "abs", [a] => showRes Num.show (absNum cfg a)
  | "numerator", [a] => showRes Num.show (numerator a)
  | "denominator", [a] => showRes Num.show (denominator a)
  | "isqrt", [a] => showRes (fun p => s!"({p.1.show} {p.2.show})") (exactIntegerSqrt a)
  | "id", [a] => a.show
  | "roundtrip", [a] => a.show
  | "tostr", [a] => "\"" ++ a.show ++ "\""
  -- specialised paths, reachable when the right operand is a small non-negative literal
  | "tostrr", [a, .fix r] => showRes (fun t => "\"" ++ String.ofList t ++ "\"") (numberToStringPrim (some r) a)
  | "roundtripr", [a, .fix r] =>
    (match numberToStringPrim (some r) a with
     | .ok t => showRes (fun o => match o with | none => "#false" | some v => v.show) (stringToNumberPrim (some r) t)
     | .err e => showErr e
     | .panic => "panic")
  | "subimm", [a, .fix r] => showRes Num.show (subImmediate a r)
  | "addimm", [a, .fix r] => showRes Num.show (addImmediate a r)
  | "lteimm", [a, .fix r] => showBool (lteImmediate a r)
  | _, _ => "bad"

/-- Specification: exact rational arithmetic, printed in canonical form. -/
def runSpec (op : String) (args : List Rat) : String :=
  let isInt (q : Rat) : Bool := q.den = 1
  match op, args with
  | "add", [a, b] | "addimm", [a, b] => showRat (a + b)
  | "sub", [a, b] | "subimm", [a, b] => showRat (a - b)
  | "mul", [a, b] => showRat (a * b)
  | "div", [a, b] => if b = 0 then "err:div0" else showRat (a / b)
  | "quotient", [a, b] =>
    if isInt a && isInt b then (if b = 0 then "err:div0" else toString (Int.tdiv a.num b.num)) else "undef"
  | "remainder", [a, b] =>
    if isInt a && isInt b then (if b = 0 then "err:div0" else toString (Int.tmod a.num b.num)) else "undef"
  | "modulo", [a, b] =>
    if isInt a && isInt b then (if b = 0 then "err:div0" else toString (Int.fmod a.num b.num)) else "undef"
  | "gcd", [a, b] => if isInt a && isInt b then toString (Int.gcd a.num b.num) else "undef"
  | "lcm", [a, b] => if isInt a && isInt b then toString (Int.lcm a.num b.num) else "undef"
  | "expt", [a, b] =>
    if isInt b then
      if a = 0 && b.num < 0 then "err:expt0"
      else if a = 0 then (if b.num = 0 then "1" else "0")
      else if a = 1 then "1"
      else if a = -1 then (if b.num.natAbs % 2 = 0 then "1" else "-1")
      else if b.num.natAbs ≤ expLimit then showRat (a ^ b.num)
      else "undef"
    else "undef"
  | "eq", [a, b] => showBool (a == b)
  | "lt", [a, b] => showBool (decide (a < b))
  | "gt", [a, b] => showBool (decide (b < a))
  | "le", [a, b] | "lteimm", [a, b] => showBool (decide (a ≤ b))
  | "ge", [a, b] => showBool (decide (b ≤ a))
  | "neg", [a] => showRat (-a)
  | "recip", [a] => if a = 0 then "err:div0" else showRat a⁻¹
  | "abs", [a] => showRat (if a < 0 then -a else a)
  | "numerator", [a] => toString a.num
  | "denominator", [a] => toString a.den
  | "isqrt", [a] =>
    if isInt a && 0 ≤ a.num then
      let s := Nat.sqrt a.num.toNat
      s!"({s} {a.num.toNat - s * s})"
    else "undef"
  | "id", [a] | "roundtrip", [a] => showRat a
  | "roundtripr", [a, r] => if 2 ≤ r ∧ r ≤ 16 ∧ r.den = 1 then showRat a else "undef"
  | "tostrr", [a, r] =>
    if 2 ≤ r ∧ r ≤ 16 ∧ r.den = 1 then
      let b := r.num.toNat
      let int (n : Int) : String := (if n < 0 then "-" else "") ++ String.ofList (Nat.toDigits b n.natAbs)
      "\"" ++ (if a.den = 1 then int a.num else int a.num ++ "/" ++ int a.den) ++ "\""
    else "undef"
  | "tostr", [a] => "\"" ++ showRat a ++ "\""
  | _, _ => "bad"

def showVal : Val → String
  | .num n => n.show
  | .bool b => showBool b

/-- variadic requests: the generic call, and every op code that stands for the primitive and accepts this operand list
must agree with it (`!op:<NAME>=<result>` is appended for an op code that does not). -/
def runVariadic (cfg : Cfg) (sym : Sym) (args : List Num) : String :=
  let g := generic cfg sym args
  let base := showRes showVal g
  let bad := Op.all.filterMap (fun o =>
    if o.sym == sym then
      let opArgs := match o, args with
        | .SUBREGISTER1, [l, .fix 1] => some [l]
        | .SUBREGISTER1, _ => none
        | _, xs => some xs
      match opArgs with
      | none => none
      | some oa =>
        match o.genericArgs oa with
        | some ga => if ga == args && runOp cfg o oa != g then some s!"!op:{o.name}={showRes showVal (runOp cfg o oa)}" else none
        | none => none
    else none)
  let fold := match sym with
    | .plus | .minus | .star | .slash =>
      if constFold cfg (registeredFn sym) args != g then s!"!fold={showRes showVal (constFold cfg (registeredFn sym) args)}" else ""
    | _ => ""
  base ++ String.join bad ++ fold

def specVariadic (sym : Sym) (args : List Rat) : String :=
  let rec chain (p : Rat → Rat → Bool) : List Rat → Bool
    | a :: b :: rest => p a b && chain p (b :: rest)
    | _ => true
  match sym, args with
  | .plus, xs => showRat (xs.foldl (· + ·) 0)
  | .star, xs => showRat (xs.foldl (· * ·) 1)
  | .minus, [] => "err:arity"
  | .minus, [x] => showRat (-x)
  | .minus, x :: ys => showRat (x - ys.foldl (· + ·) 0)
  | .slash, [] => "err:arity"
  | .slash, [x] => if x = 0 then "err:div0" else showRat x⁻¹
  | .slash, x :: ys => if ys.foldl (· * ·) 1 = 0 then "err:div0" else showRat (x / ys.foldl (· * ·) 1)
  | _, [] => "err:arity"
  | .le, xs => showBool (chain (fun a b => decide (a ≤ b)) xs)
  | .lt, xs => showBool (chain (fun a b => decide (a < b)) xs)
  | .gt, xs => showBool (chain (fun a b => decide (b < a)) xs)
  | .ge, xs => showBool (chain (fun a b => decide (b ≤ a)) xs)
  | .numEq, [a, b] => showBool (a == b)
  | .numEq, _ => "undef"

def variadicSym : String → Option Sym
  | "addn" => some .plus | "subn" => some .minus | "muln" => some .star | "divn" => some .slash
  | "len" => some .le | "ltn" => some .lt | "gtn" => some .gt | "gen" => some .ge | "eqn" => some .numEq
  | _ => none

def handleS2n (rest : List String) : String :=
  match rest with
  | [t] => showRes (fun o => match o with | none => "#false" | some v => v.show) (stringToNumberPrim none t.toList) ++ "\tundef"
  | [t, r] =>
    match parseInt? r with
    | some r => showRes (fun o => match o with | none => "#false" | some v => v.show) (stringToNumberPrim (some r) t.toList) ++ "\tundef"
    | none => "bad\tbad"
  | _ => "bad\tbad"

/-! mixed exact / inexact requests: an operand `f:<16 hex digits>` is a double.  The model functions of Mixed.lean are
run with the IEEE operations of the machine (Lean's compiled `Float`): only here do they get a meaning. -/

def hexVal (c : Char) : Option Nat :=
  if '0' ≤ c && c ≤ '9' then some (c.toNat - '0'.toNat)
  else if 'a' ≤ c && c ≤ 'f' then some (c.toNat - 'a'.toNat + 10)
  else none

def parseBits (s : String) : Option Nat :=
  if s.startsWith "f:" then
    let ds := (s.drop 2).toString.toList
    if ds.length = 16 then ds.foldlM (fun acc c => (hexVal c).map (fun d => acc * 16 + d)) 0 else none
  else none

def hostIEEE : IEEE where
  add a b := (Float.ofBits a.toUInt64 + Float.ofBits b.toUInt64).toBits.toNat
  mul a b := (Float.ofBits a.toUInt64 * Float.ofBits b.toUInt64).toBits.toNat
  div a b := (Float.ofBits a.toUInt64 / Float.ofBits b.toUInt64).toBits.toNat
  neg a := (-(Float.ofBits a.toUInt64)).toBits.toNat
  one := 0x3ff0000000000000

def hex16 (n : Nat) : String :=
  let ds := (Nat.toDigits 16 n)
  String.ofList (List.replicate (16 - ds.length) '0' ++ ds)

def showMRes : MRes → String
  | .flo b => if classify b == .nan then "f:nan" else "f:" ++ hex16 b
  | .err e => showErr e
  | .panic => "panic"
  | .notMixed => "bad"

def parseMixedOperand (s : String) : Option Operand :=
  match parseBits s with
  | some b => some (.flo b)
  | none => if s.startsWith "f:" then none else (parseOperand s >>= operandNum).map .exact

def handleMixed (cfg : Cfg) (viaRecip : Bool) (op : String) (a b : Operand) : String :=
  match op with
  | "add" => showMRes (mixedAdd hostIEEE a b)
  | "sub" => showMRes (mixedSub hostIEEE a b)
  | "mul" => showMRes (mixedMul hostIEEE a b)
  | "div" => showMRes (mixedDiv hostIEEE cfg viaRecip a b)
  | "eq" | "lt" | "gt" | "le" | "ge" =>
    match mixedCmp a b with
    | some o => showBool (ordHolds op o)
    | none => "bad"
  | "tof64" => match a with | .exact x => "f:" ++ hex16 (toF64 x) | _ => "bad"
  | _ => "bad"

def handleNumeric (cfg : Cfg) (op : String) (rest : List String) : String :=
  match rest.mapM parseOperand with
  | none => "bad\tbad"
  | some ps =>
    match ps.mapM operandNum with
    | none => "bad\tbad"
    | some nums =>
      match variadicSym op with
      | some sym => runVariadic cfg sym nums ++ "\t" ++ specVariadic sym (ps.map operandRat)
      | none => runModel cfg op nums ++ "\t" ++ runSpec op (ps.map operandRat)

def handle (cfg : Cfg) (line : String) : String :=
  let toks := (line.trimAscii.toString.splitOn " ").filter (· ≠ "")
  match toks with
  | [] => ""
  | "s2n" :: rest => handleS2n rest
  | "tof64" :: [a] =>
    (match parseMixedOperand a with
     | some x => handleMixed cfg Gen.divViaReciprocal "tof64" x x ++ "\tundef"
     | none => "bad\tbad")
  | [op, a, b] =>
    if a.startsWith "f:" || b.startsWith "f:" then
      match parseMixedOperand a, parseMixedOperand b with
      | some x, some y =>
        -- second column: the same request with the one-division form of `/` (what IEEE division gives)
        handleMixed cfg Gen.divViaReciprocal op x y ++ "\t" ++ handleMixed cfg false op x y
      | _, _ => "bad\tbad"
    else handleNumeric cfg op [a, b]
  | op :: rest => handleNumeric cfg op rest

partial def loop (cfg : Cfg) (h : IO.FS.Stream) (out : IO.FS.Stream) : IO Unit := do
  let line ← h.getLine
  if line.isEmpty then return ()
  let l := line.trimAscii.toString
  if l.isEmpty || l.startsWith "#" then
    loop cfg h out
  else
    out.putStrLn (handle cfg l)
    loop cfg h out

end SteelVerif.C10

open SteelVerif.C10 in
def main (args : List String) : IO Unit := do
  let cfg : Cfg :=
    match args with
    | ["--cfg", "pinned"] => Cfg.pinned
    | ["--cfg", "repaired"] => Cfg.repaired
    | _ => Gen.cfg
  match args with
  | ["--show-cfg"] =>
    IO.println s!"absChecked={Gen.cfg.absChecked} recipChecked={Gen.cfg.recipChecked} exptChecked={Gen.cfg.exptChecked}"
  | _ =>
    let stdin ← IO.getStdin
    let stdout ← IO.getStdout
    loop cfg stdin stdout
    stdout.flush
