/-
C10 — `expt` with an exact integer exponent.
-/
import SteelVerif.C10.LemmasGcd
namespace SteelVerif.C10

theorem rat_pow_ne_zero {b : Rat} (hb : b ≠ 0) : ∀ k : Nat, b ^ k ≠ 0 := by
  intro k
  induction k with
  | zero => rw [Rat.pow_zero]; decide
  | succ k ih =>
    rw [Rat.pow_succ]
    intro h
    rcases Rat.mul_eq_zero.mp h with h | h
    · exact ih h
    · exact hb h

theorem rat_div_pow (a : Rat) {b : Rat} (hb : b ≠ 0) : ∀ k : Nat, (a / b) ^ k = a ^ k / b ^ k := by
  intro k
  induction k with
  | zero => simp only [Rat.pow_zero]; grind
  | succ k ih =>
    rw [Rat.pow_succ, Rat.pow_succ, Rat.pow_succ, ih]
    have := rat_pow_ne_zero hb k
    grind

theorem int_pow_ne_zero {n : Int} (hn : n ≠ 0) (k : Nat) : n ^ k ≠ 0 := by
  induction k with
  | zero => simp
  | succ k ih => rw [Int.pow_succ]; exact Int.mul_ne_zero ih hn

theorem int_pow_pos {n : Int} (hn : 0 < n) (k : Nat) : 0 < n ^ k := Int.pow_pos hn

theorem gcd_pow_pow {n d : Int} (h : Int.gcd n d = 1) (k : Nat) : Int.gcd (n ^ k) (d ^ k) = 1 := by
  rw [Int.gcd_eq_natAbs_gcd_natAbs] at *
  rw [Int.natAbs_pow, Int.natAbs_pow]
  exact Nat.Coprime.pow k k h

/-- `denote` of a power of a fraction. -/
theorem cast_pow_div {n d : Int} (hd : d ≠ 0) (k : Nat) :
    ((n ^ k : Int) : Rat) / ((d ^ k : Int) : Rat) = ((n : Rat) / (d : Rat)) ^ k := by
  rw [Rat.intCast_pow, Rat.intCast_pow, rat_div_pow _ (cast_ne_zero hd)]

theorem canonical_num_ne_zero {n d : Int} (hd : 1 < d) (hg : Int.gcd n d = 1) : n ≠ 0 := by
  intro h; subst h
  have : d.natAbs = 1 := by simpa using hg
  omega

/-! ## non-negative exponents -/

theorem checkedPow64_spec (l r : Int) (v : Int) (h : checkedPow64 l r = some v) :
    0 ≤ r ∧ v = l ^ r.toNat ∧ fitsIsize v = true := by
  unfold checkedPow64 at h
  split at h
  · rename_i hr
    obtain ⟨hf, hv⟩ := chk64_eq_some.mp h
    exact ⟨hr.1, hv, hv ▸ hf⟩
  · simp at h

/-- integer base, non-negative exponent: the exact power, canonical. -/
theorem expt_int_nonneg (cfg : Cfg) (l : Int) {r : Int} (hr : 0 ≤ r) :
    expt cfg (normInt l) (.fix r) = .ok (normInt (l ^ r.toNat)) := by
  unfold normInt
  by_cases hf : fitsIsize l = true
  · simp only [hf, ↓reduceIte, expt, hr]
    cases h : checkedPow64 l r with
    | none => rfl
    | some v =>
      obtain ⟨_, hv, hfv⟩ := checkedPow64_spec l r v h
      subst hv
      simp only [hfv, ↓reduceIte]
  · simp only [hf, Bool.false_eq_true, ↓reduceIte, expt]
    by_cases h0 : r = 0
    · subst h0; simp; rfl
    · have : ¬ r < 0 := by omega
      simp only [h0, ↓reduceIte, this]
      rfl

/-- big-ratio base, positive exponent. -/
theorem expt_bigrat_pos (cfg : Cfg) {n d : Int} (hx : Canonical (.bigrat n d)) {r : Int} (hr : 0 < r) :
    Exact (expt cfg (.bigrat n d) (.fix r)) (denote (.bigrat n d) ^ r.toNat) := by
  obtain ⟨hd, hg, _⟩ := hx
  have h0 : r ≠ 0 := by omega
  simp only [expt, h0, ↓reduceIte, hr, denote]
  rw [← cast_pow_div (by omega : d ≠ 0)]
  exact normBigRat_exact (int_pow_pos (by omega) _) (gcd_pow_pow hg _)

/-- 32-bit-ratio base with the repaired `expt`, non-negative exponent. -/
theorem expt_rat32_nonneg_checked (cfg : Cfg) (hc : cfg.exptChecked = true) {n d : Int}
    (hx : Canonical (.rat32 n d)) {r : Int} (hr : 0 ≤ r) (hr32 : fitsI32 r = true) :
    Exact (expt cfg (.rat32 n d) (.fix r)) (denote (.rat32 n d) ^ r.toNat) := by
  obtain ⟨hd, _, _, _⟩ := hx
  have : chk32 r = some r := by simp [chk32, hr32]
  simp only [expt, this, hc, ↓reduceIte, hr, denote]
  rw [← cast_pow_div (by omega : d ≠ 0)]
  exact fromQ_exact (int_pow_ne_zero (by omega) _)

/-- guard of the `_partial` statement for `Ratio<i32>::pow`: both powers stay inside `i32`
(and the numerator power is not `i32::MIN` when the exponent is negative). -/
def RatPowGuard (n d e : Int) : Bool :=
  fitsI32 (n ^ e.natAbs) && fitsI32 (d ^ e.natAbs) && (decide (0 ≤ e) || n ^ e.natAbs != I32_MIN)

/-- 32-bit-ratio base with the pinned `Ratio<i32>::pow`, non-negative exponent, inside the guard. -/
theorem expt_rat32_nonneg_partial (cfg : Cfg) {n d : Int}
    (hx : Canonical (.rat32 n d)) {r : Int} (hr : 0 ≤ r) (hr32 : fitsI32 r = true)
    (hg : RatPowGuard n d r = true) :
    Exact (expt cfg (.rat32 n d) (.fix r)) (denote (.rat32 n d) ^ r.toNat) := by
  by_cases hc : cfg.exptChecked = true
  · exact expt_rat32_nonneg_checked cfg hc hx hr hr32
  obtain ⟨hd, hgcd, _, _⟩ := hx
  have hchk : chk32 r = some r := by simp [chk32, hr32]
  simp only [RatPowGuard, Bool.and_eq_true] at hg
  obtain ⟨⟨hfn, hfd⟩, _⟩ := hg
  have hk : r.natAbs = r.toNat := by omega
  rw [hk] at hfn hfd
  simp only [expt, hchk, hc, Bool.false_eq_true, ↓reduceIte, denote]
  rw [← cast_pow_div (by omega : d ≠ 0)]
  unfold ratio32Pow
  by_cases h0 : r = 0
  · subst h0
    simp only [↓reduceIte, Res.bind_ok, Res.pure_eq]
    exact Exact.mk (by simp [normR32, denote]; grind) (by decide)
  · have hneg : ¬ r < 0 := by omega
    simp only [h0, ↓reduceIte, hk, i32_ok hfn, i32_ok hfd, Res.bind_ok, hneg, Res.pure_eq]
    exact normR32_exact (int_pow_pos (by omega) _) (gcd_pow_pow hgcd _) hfn hfd

/-! ## negative exponents (`a ^ (-k) = 1 / a ^ k`) -/

theorem one_div_pow_cast (l : Int) (k : Nat) :
    ((1 : Int) : Rat) / ((l ^ k : Int) : Rat) = ((l : Rat) ^ k)⁻¹ := by
  rw [Rat.intCast_pow, inv_eq_one_div]

/-- integer base, negative exponent, repaired `expt`. -/
theorem expt_int_neg_checked (cfg : Cfg) (hc : cfg.exptChecked = true) {l : Int} (hl : l ≠ 0)
    {r : Int} (hr : r < 0) :
    Exact (expt cfg (normInt l) (.fix r)) (((l : Rat) ^ r.natAbs)⁻¹) := by
  have hnr : ¬ 0 ≤ r := by omega
  have hr0 : r ≠ 0 := by omega
  rw [← one_div_pow_cast l]
  unfold normInt
  by_cases hf : fitsIsize l = true
  · simp only [hf, ↓reduceIte, expt, hnr, hl, hc]
    exact fromQ_exact (int_pow_ne_zero hl _)
  · simp only [hf, Bool.false_eq_true, ↓reduceIte, expt, hr0, hr, hc]
    exact fromQ_exact (int_pow_ne_zero hl _)

/-- integer base, negative exponent, pinned code: exact for positive bases. -/
theorem expt_int_neg_partial (cfg : Cfg) {l : Int} (hl : 0 < l) {r : Int} (hr : r < 0) :
    Exact (expt cfg (normInt l) (.fix r)) (((l : Rat) ^ r.natAbs)⁻¹) := by
  by_cases hc : cfg.exptChecked = true
  · exact expt_int_neg_checked cfg hc (by omega) hr
  have hnr : ¬ 0 ≤ r := by omega
  have hr0 : r ≠ 0 := by omega
  have hl0 : l ≠ 0 := by omega
  rw [← one_div_pow_cast l]
  have hpos := int_pow_pos hl r.natAbs
  have hg1 : Int.gcd 1 (l ^ r.natAbs) = 1 := by simp
  unfold normInt
  by_cases hf : fitsIsize l = true
  · simp only [hf, ↓reduceIte, expt, hnr, hl0, hc, Bool.false_eq_true]
    cases h : (checkedPow64 l (-r)).bind chk32 with
    | none => exact normBigRat_exact hpos hg1
    | some v =>
      dsimp only
      rw [Option.bind_eq_some_iff] at h
      obtain ⟨w, hw, hv⟩ := h
      obtain ⟨_, hw2, _⟩ := checkedPow64_spec l (-r) w hw
      obtain ⟨hv32, hvw⟩ := chk32_eq_some.mp hv
      have hk : (-r).toNat = r.natAbs := by omega
      rw [hk] at hw2
      subst hvw; subst hw2
      exact normR32_exact hpos hg1 (by decide) hv32
  · simp only [hf, Bool.false_eq_true, ↓reduceIte, expt, hr0, hr, hc]
    exact normBigRat_exact hpos hg1

/-- big-ratio base, negative exponent (exact for every configuration). -/
theorem expt_bigrat_neg (cfg : Cfg) {n d : Int} (hx : Canonical (.bigrat n d)) {r : Int} (hr : r < 0) :
    Exact (expt cfg (.bigrat n d) (.fix r)) ((denote (.bigrat n d) ^ r.natAbs)⁻¹) := by
  obtain ⟨hd, hg, _⟩ := hx
  have hn0 := canonical_num_ne_zero hd hg
  have hd0 : d ≠ 0 := by omega
  have h0 : r ≠ 0 := by omega
  have hnpos : ¬ 0 < r := by omega
  simp only [expt, h0, ↓reduceIte, hnpos, hn0, denote]
  rw [← cast_pow_div hd0, inv_div_cast (int_pow_ne_zero hn0 _) (int_pow_ne_zero hd0 _)]
  have hg' : Int.gcd (d ^ r.natAbs) (n ^ r.natAbs) = 1 := by
    rw [Int.gcd_comm]; exact gcd_pow_pow hg _
  by_cases hpos : 0 < n ^ r.natAbs
  · simp only [hpos, ↓reduceIte]
    exact normBigRat_exact hpos hg'
  · simp only [hpos, ↓reduceIte]
    have hne := int_pow_ne_zero hn0 r.natAbs
    have := normBigRat_exact (n := -(d ^ r.natAbs)) (d := -(n ^ r.natAbs)) (by omega) (by simpa using hg')
    rwa [neg_div_neg_cast _ _ hne] at this

/-- 32-bit-ratio base, negative exponent, repaired `expt`. -/
theorem expt_rat32_neg_checked (cfg : Cfg) (hc : cfg.exptChecked = true) {n d : Int}
    (hx : Canonical (.rat32 n d)) {r : Int} (hr : r < 0) (hr32 : fitsI32 r = true) :
    Exact (expt cfg (.rat32 n d) (.fix r)) ((denote (.rat32 n d) ^ r.natAbs)⁻¹) := by
  obtain ⟨hd, hg, _, _⟩ := hx
  have hn0 := canonical_num_ne_zero hd hg
  have hd0 : d ≠ 0 := by omega
  have : chk32 r = some r := by simp [chk32, hr32]
  have hnr : ¬ 0 ≤ r := by omega
  simp only [expt, this, hc, ↓reduceIte, hnr, denote]
  rw [← cast_pow_div hd0, inv_div_cast (int_pow_ne_zero hn0 _) (int_pow_ne_zero hd0 _)]
  exact fromQ_exact (int_pow_ne_zero hn0 _)

/-- `0` to a negative power is the error "0 cannot be raised to a negative power". -/
theorem expt_zero_neg (cfg : Cfg) {r : Int} (hr : r < 0) :
    expt cfg (.fix 0) (.fix r) = .err .expt0 := by
  have hnr : ¬ 0 ≤ r := by omega
  simp [expt, hnr]

/-- 32-bit-ratio base, negative exponent, pinned `Ratio<i32>::pow` + `into_recip`, inside the guard. -/
theorem expt_rat32_neg_partial (cfg : Cfg) {n d : Int}
    (hx : Canonical (.rat32 n d)) {r : Int} (hr : r < 0) (hr32 : fitsI32 r = true)
    (hg : RatPowGuard n d r = true) :
    Exact (expt cfg (.rat32 n d) (.fix r)) ((denote (.rat32 n d) ^ r.natAbs)⁻¹) := by
  by_cases hc : cfg.exptChecked = true
  · exact expt_rat32_neg_checked cfg hc hx hr hr32
  obtain ⟨hd, hgcd, _, _⟩ := hx
  have hn0 := canonical_num_ne_zero hd hgcd
  have hd0 : d ≠ 0 := by omega
  have hchk : chk32 r = some r := by simp [chk32, hr32]
  have hnr : ¬ 0 ≤ r := by omega
  have hr0 : r ≠ 0 := by omega
  simp only [RatPowGuard, Bool.and_eq_true, Bool.or_eq_true, decide_eq_true_eq, hnr, false_or,
    bne_iff_ne, ne_eq] at hg
  obtain ⟨⟨hfn, hfd⟩, hmin⟩ := hg
  have hk1 : 1 ≤ r.natAbs := by omega
  -- the powers form a canonical 32-bit ratio; the rest is the reciprocal of `/`
  have hdk : 1 < d ^ r.natAbs := by
    have h2 : d ^ 0 < d ^ r.natAbs := Int.pow_lt_pow_of_lt hd (by omega)
    rwa [Int.pow_zero] at h2
  have hcan : Canonical (.rat32 (n ^ r.natAbs) (d ^ r.natAbs)) :=
    ⟨hdk, gcd_pow_pow hgcd _, hfn, hfd⟩
  have hrec := recip_exact Cfg.pinned hcan (by simp) (Or.inr (by simpa [RecipGuard] using hmin))
  have hb : (cfg.exptChecked) = false := by simpa using hc
  simp only [expt, hchk, hb, Bool.false_eq_true, ↓reduceIte, denote, ratio32Pow, hr0, i32_ok hfn,
    i32_ok hfd, Res.bind_ok, hr]
  simp only [recip, Cfg.pinned, Bool.false_and, Bool.false_eq_true, ↓reduceIte, denote] at hrec
  rw [← cast_pow_div hd0]
  exact hrec

/-- `0` to a positive bignum power is `0` in the repaired code. -/
theorem expt_zero_big_checked (cfg : Cfg) (hc : cfg.exptChecked = true) {r : Int} (hr : 0 < r) :
    expt cfg (.fix 0) (.big r) = .ok (.fix 0) := by
  simp [expt, hc, hr]

end SteelVerif.C10
