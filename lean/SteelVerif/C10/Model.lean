/-
C10 — model M of Steel's exact numeric tower and the specification S it is compared with.

M follows `crates/steel-core/src/primitives/numbers.rs` (`add_two`, `multiply_two`, `negate`,
`divide_primitive`/`recip`, `truncate_quotient`, `truncate_remainder`, `floor_remainder`, `abs`,
`expt`, `exact_integer_sqrt`, `numerator`, `denominator`), `rvals.rs` (`number_equality`,
`PartialOrd`), `primitives.rs` (the `IntoSteelVal` canonicalisation of `isize`, `BigInt`,
`Rational32`, `BigRational`), the specialised VM paths of `steel_vm/vm.rs` / `vm/jit.rs`
(`SUBIMMEDIATE`, `ADDIMMEDIATE`) and the Scheme definitions of `gcd`/`lcm` in `scheme/stdlib.scm`.

Representations (`SteelVal`): `fix` = `IntV(isize)` (64 bit), `big` = `BigNum(BigInt)`,
`rat32` = `Rational(Ratio<i32>)`, `bigrat` = `BigRational(Ratio<BigInt>)`.

What is modelled and what is taken by specification
* `num-bigint` / `Ratio<BigInt>` arithmetic is exact (`Int` here); `BigRational::new` reduces.
* machine arithmetic is modelled with its range: `checked_*` returns `none` out of range, an
  unchecked `+ - * neg abs pow` out of range is `Res.panic` (the harness is built with overflow
  checks, as `cargo build`/`cargo test` are; a release build wraps instead — same inputs, wrong value).
* `Ratio<i32>::{new, checked_add, checked_mul, recip, abs, pow, floor}` follow num-rational 0.4.2
  step by step; `i32::gcd` is its specification plus its one panic (`|i32::MIN|`).

`Cfg` selects, for the three places where the code at the pinned commit is defective, between the
code as it is (`false`) and the repaired code of `.build/C10/proposed-*.diff` (`true`); the value
for the current tree is regenerated from the Rust source into `GenArms.lean` on every run.
-/
namespace SteelVerif.C10

/-! ## Outcomes -/

inductive Err where
  | div0        -- "division by zero"
  | type        -- TypeMismatch
  | expt0       -- "expt: 0 cannot be raised to a negative power"
  | unmodelled  -- operand combination outside the model
  | arity       -- ArityMismatch
  | resource    -- the code starts a computation whose result cannot exist in memory (`BigInt::pow` with an
                -- exponent ≥ 2^63 on a base other than 0, ±1): num-bigint panics ("memory overflow") or the
                -- process runs out of memory
  | inexact     -- the result is a double (computed through `f64::powf`): outside the exact tower
  deriving DecidableEq, Repr

inductive Res (α : Type) where
  | ok (v : α)
  | err (e : Err)
  | panic
  deriving DecidableEq, Repr

namespace Res
@[inline] def bind {α β} (x : Res α) (f : α → Res β) : Res β :=
  match x with
  | .ok v => f v
  | .err e => .err e
  | .panic => .panic
instance : Monad Res where
  pure := .ok
  bind := Res.bind
end Res

/-! ## Machine integers -/

def I64_MIN : Int := -9223372036854775808
def I64_MAX : Int := 9223372036854775807
def I32_MIN : Int := -2147483648
def I32_MAX : Int := 2147483647
def U32_MAX : Int := 4294967295

def fitsIsize (n : Int) : Bool := decide (-9223372036854775808 ≤ n ∧ n ≤ 9223372036854775807)
def fitsI32 (n : Int) : Bool := decide (-2147483648 ≤ n ∧ n ≤ 2147483647)

/-- `isize::checked_*` / `BigInt::to_isize` / `isize::try_from`. -/
def chk64 (n : Int) : Option Int := if fitsIsize n then some n else none
/-- `i32::checked_*` / `i32::try_from` / `BigInt::to_i32`. -/
def chk32 (n : Int) : Option Int := if fitsI32 n then some n else none
/-- an unchecked `isize` operation whose mathematical result is `n`. -/
def isz (n : Int) : Res Int := if fitsIsize n then .ok n else .panic
/-- an unchecked `i32` operation whose mathematical result is `n`. -/
def i32 (n : Int) : Res Int := if fitsI32 n then .ok n else .panic

/-! ## Values -/

inductive Num where
  | fix (n : Int)
  | big (n : Int)
  | rat32 (n d : Int)
  | bigrat (n d : Int)
  deriving DecidableEq, Repr

inductive Kind where
  | fix | big | rat32 | bigrat
  deriving DecidableEq, Repr

def Num.kind : Num → Kind
  | .fix _ => .fix | .big _ => .big | .rat32 _ _ => .rat32 | .bigrat _ _ => .bigrat

/-- numerator and denominator as the code reads them (`numer()`, `denom()`; 1 for integers). -/
def Num.toQ : Num → Int × Int
  | .fix n => (n, 1)
  | .big n => (n, 1)
  | .rat32 n d => (n, d)
  | .bigrat n d => (n, d)

def Num.isInt : Num → Bool
  | .fix _ => true | .big _ => true | _ => false

/-- Steel's `Display` of a number. -/
def Num.show : Num → String
  | .fix n => toString n
  | .big n => toString n
  | .rat32 n d => s!"{n}/{d}"
  | .bigrat n d => s!"{n}/{d}"

/-- The canonical form demanded by the property: integers are fixnums exactly when they fit,
rationals are in lowest terms with a denominator > 1 and are 32-bit exactly when both parts fit. -/
def Canonical : Num → Prop
  | .fix n => fitsIsize n = true
  | .big n => fitsIsize n = false
  | .rat32 n d => 1 < d ∧ Int.gcd n d = 1 ∧ fitsI32 n = true ∧ fitsI32 d = true
  | .bigrat n d => 1 < d ∧ Int.gcd n d = 1 ∧ (fitsI32 n && fitsI32 d) = false

instance : DecidablePred Canonical := fun x => by
  cases x <;> simp only [Canonical] <;> exact inferInstance

/-! ## Specification side: the value denoted -/

def denote : Num → Rat
  | .fix n => (n : Rat)
  | .big n => (n : Rat)
  | .rat32 n d => (n : Rat) / (d : Rat)
  | .bigrat n d => (n : Rat) / (d : Rat)

/-! ## `IntoSteelVal` canonicalisation -/

/-- `BigInt::into_steelval`: `to_isize()` ⇒ `IntV`, otherwise `BigNum`. -/
def normInt (n : Int) : Num := if fitsIsize n then .fix n else .big n

/-- `Rational32::into_steelval`: `is_integer()` (denominator 1) ⇒ `IntV(numer)`. -/
def normR32 (r : Int × Int) : Num := if r.2 = 1 then .fix r.1 else .rat32 r.1 r.2

/-- `i32::gcd` of num-integer: the gcd, except that `|i32::MIN|` does not exist. -/
def gcd32 (m n : Int) : Res Int :=
  if (m = I32_MIN ∧ (n = 0 ∨ n = I32_MIN)) ∨ (n = I32_MIN ∧ m = 0) then .panic
  else .ok (Int.gcd m n)

/-- `Ratio::<i32>::new(n, d)` = `new_raw` + `reduce()`. -/
def ratio32New (n d : Int) : Res (Int × Int) :=
  if d = 0 then .panic
  else if n = 0 then .ok (0, 1)
  else if n = d then .ok (1, 1)
  else do
    let g ← gcd32 n d
    let n' := Int.tdiv n g
    let d' := Int.tdiv d g
    if d' < 0 then do
      let n'' ← i32 (0 - n')
      let d'' ← i32 (0 - d')
      pure (n'', d'')
    else pure (n', d')

/-- `Ratio::<BigInt>::new(n, d)`: lowest terms, positive denominator; panics on `d = 0`. -/
def bigNew (n d : Int) : Res (Int × Int) :=
  if d = 0 then .panic
  else
    let g : Int := Int.gcd n d
    let n' := n / g
    let d' := d / g
    if d' < 0 then .ok (-n', -d') else .ok (n', d')

/-- `BigRational::into_steelval` (applied to whatever numerator/denominator the value holds). -/
def normBigRat (r : Int × Int) : Res Num :=
  if r.2 = 1 then .ok (normInt r.1)
  else if fitsI32 r.1 && fitsI32 r.2 then do
    let q ← ratio32New r.1 r.2
    pure (normR32 q)
  else .ok (.bigrat r.1 r.2)

/-- `BigRational::new(n, d).into_steelval()` — every arbitrary-precision rational result. -/
def fromQ (n d : Int) : Res Num := do
  let r ← bigNew n d
  normBigRat r

/-! ## `Ratio<i32>` checked arithmetic (num-rational 0.4.2) -/

/-- `checked_add`/`checked_sub` (`sub = true`): `a/b ± c/d` through the lcm of the denominators. -/
def ratio32CheckedAddSub (sub : Bool) (a b c d : Int) : Res (Option (Int × Int)) := do
  let g ← gcd32 b d
  match chk32 (Int.tdiv b g * d) with
  | none => pure none
  | some lcm =>
    match chk32 (Int.tdiv lcm b * a) with
    | none => pure none
    | some ln =>
      match chk32 (Int.tdiv lcm d * c) with
      | none => pure none
      | some rn =>
        match chk32 (if sub then ln - rn else ln + rn) with
        | none => pure none
        | some s => do
          let r ← ratio32New s lcm
          pure (some r)

/-- `checked_mul`: cross-cancel, then two checked products, then `Ratio::new`. -/
def ratio32CheckedMul (a b c d : Int) : Res (Option (Int × Int)) := do
  let gad ← gcd32 a d
  let gbc ← gcd32 b c
  match chk32 (Int.tdiv a gad * Int.tdiv c gbc) with
  | none => pure none
  | some n =>
    match chk32 (Int.tdiv b gbc * Int.tdiv d gad) with
    | none => pure none
    | some m => do
      let r ← ratio32New n m
      pure (some r)

/-! ## Configuration: the code as it is vs. the proposed repairs -/

structure Cfg where
  /-- `abs` uses `checked_abs` / falls back to `BigInt`/`BigRational` (false: `i.abs()`, `-numer`). -/
  absChecked : Bool
  /-- the reciprocal inside `/` avoids negating `i32::MIN` (false: `Rational32::new(1, n)`, `r.recip()`). -/
  recipChecked : Bool
  /-- `expt` with a rational base or a negative exponent goes through `BigRational::new`
      (false: `Ratio<i32>::pow`, `new_raw(1, val)`, and `0^bignum` is always an error). -/
  exptChecked : Bool
  deriving DecidableEq, Repr

def Cfg.pinned : Cfg := ⟨false, false, false⟩
def Cfg.repaired : Cfg := ⟨true, true, true⟩

/-! ## Addition, negation, subtraction, multiplication -/

/-- `add_two` (and `add_two_fallible`, which has the same arms). -/
def addTwo (x y : Num) : Res Num :=
  match x, y with
  | .fix a, .fix b =>
    match chk64 (a + b) with
    | some r => .ok (.fix r)
    | none => .ok (normInt (a + b))
  | .rat32 a b, .rat32 c d => do
    match ← ratio32CheckedAddSub false a b c d with
    | some r => pure (normR32 r)
    | none => fromQ (a * d + c * b) (b * d)
  | .rat32 a b, .fix y | .fix y, .rat32 a b =>
    match chk32 y with
    | some y32 => do
      let yr ← ratio32New y32 1
      match ← ratio32CheckedAddSub false a b yr.1 yr.2 with
      | some r => pure (normR32 r)
      | none => fromQ (a + y32 * b) b
    | none => fromQ (a + y * b) b
  | .big a, .big b | .big a, .fix b | .fix b, .big a => .ok (normInt (a + b))
  | x, y =>
    -- (Rational, BigNum), (BigRational, anything) and their mirrors: `BigRational` arithmetic
    let p := x.toQ
    let q := y.toQ
    fromQ (p.1 * q.2 + q.1 * p.2) (p.2 * q.2)

/-- `negate`. -/
def negate (x : Num) : Res Num :=
  match x with
  | .fix a =>
    match chk64 (-a) with
    | some r => .ok (.fix r)
    | none => .ok (normInt (-a))
  | .rat32 n d =>
    match chk32 (0 - n) with
    | some m => do
      let r ← ratio32New m d
      pure (normR32 r)
    | none => fromQ (-n) d
  | .bigrat n d => fromQ (-n) d
  | .big a => .ok (normInt (-a))

/-- `subtract_primitive` with two arguments: `add_two(x, negate(y))`. -/
def subTwo (x y : Num) : Res Num := do
  let ny ← negate y
  addTwo x ny

/-- `multiply_two`. -/
def mulTwo (x y : Num) : Res Num :=
  match x, y with
  | .fix a, .fix b =>
    match chk64 (a * b) with
    | some r => .ok (.fix r)
    | none => .ok (normInt (a * b))
  | .fix a, .big b | .big b, .fix a | .big a, .big b => .ok (normInt (a * b))
  | .fix x, .rat32 a b | .rat32 a b, .fix x =>
    match chk32 x with
    | some x32 => do
      let xr ← ratio32New x32 1
      match ← ratio32CheckedMul a b xr.1 xr.2 with
      | some r => pure (normR32 r)
      | none => fromQ (a * x32) b
    | none => fromQ (a * x) b
  | .rat32 a b, .rat32 c d => do
    match ← ratio32CheckedMul a b c d with
    | some r => pure (normR32 r)
    | none => fromQ (a * c) (b * d)
  | x, y =>
    let p := x.toQ
    let q := y.toQ
    fromQ (p.1 * q.1) (p.2 * q.2)

/-! ## Division -/

/-- `Ratio::<i32>::recip` (`into_recip`). -/
def ratio32Recip (n d : Int) : Res (Int × Int) :=
  if n = 0 then .panic
  else if 0 < n then .ok (d, n)
  else do
    let a ← i32 (0 - d)
    let b ← i32 (0 - n)
    pure (a, b)

/-- the `recip` closure of `divide_primitive`. -/
def recip (cfg : Cfg) (x : Num) : Res Num :=
  match x with
  | .fix n =>
    match chk32 n with
    | some m =>
      if m = 0 then .err .div0
      else if cfg.recipChecked && m == I32_MIN then fromQ 1 n
      else do
        let r ← ratio32New 1 m
        pure (normR32 r)
    | none => fromQ 1 n
  | .rat32 n d =>
    if cfg.recipChecked && n == I32_MIN then fromQ d n
    else do
      let r ← ratio32Recip n d
      pure (normR32 r)
  | .bigrat n d =>
    -- `Ratio::<BigInt>::recip`: swap, keep the denominator positive (exact)
    if n = 0 then .panic
    else if 0 < n then normBigRat (d, n) else normBigRat (-d, -n)
  | .big n => fromQ 1 n

/-- `divide_primitive` with two arguments: `multiply_two(x, recip(y))`. -/
def divTwo (cfg : Cfg) (x y : Num) : Res Num := do
  let r ← recip cfg y
  mulTwo x r

/-! ## Integer division -/

/-- the shared arm structure of `truncate_quotient`, `truncate_remainder`, `floor_remainder`:
`f` is the exact big-integer operation, which is also what the `isize` operation computes
away from `isize::MIN / -1` (that pair has its own arm going through `BigInt`). -/
def intDivOp (f : Int → Int → Int) (x y : Num) : Res Num :=
  match x, y with
  | .fix _, .fix 0 | .big _, .fix 0 => .err .div0
  | .fix l, .fix r =>
    if l = I64_MIN ∧ r = -1 then .ok (normInt (f l r))
    else do
      let v ← isz (f l r)
      pure (.fix v)
  | .big l, .fix r | .fix l, .big r | .big l, .big r => .ok (normInt (f l r))
  | _, _ => .err .type

def quotient (x y : Num) : Res Num := intDivOp Int.tdiv x y
def remainder (x y : Num) : Res Num := intDivOp Int.tmod x y
def modulo (x y : Num) : Res Num := intDivOp Int.fmod x y

/-! ## abs, numerator, denominator, floor -/

def absNum (cfg : Cfg) (x : Num) : Res Num :=
  match x with
  | .fix i =>
    if cfg.absChecked then .ok (normInt (Int.natAbs i))
    else do
      let v ← isz (Int.natAbs i)
      pure (.fix v)
  | .rat32 n d =>
    if n < 0 then
      if cfg.absChecked then
        match chk32 (-n) with
        | some m => .ok (normR32 (m, d))
        | none => fromQ (Int.natAbs n) d
      else do
        let m ← i32 (-n)
        pure (normR32 (m, d))
    else .ok (normR32 (n, d))
  | .bigrat n d => normBigRat (Int.natAbs n, d)
  | .big n => .ok (normInt (Int.natAbs n))

def numerator (x : Num) : Res Num :=
  match x with
  | .fix n => .ok (.fix n)
  | .rat32 n _ => .ok (.fix n)
  | .big n => .ok (.big n)
  | .bigrat n _ => .ok (normInt n)

def denominator (x : Num) : Res Num :=
  match x with
  | .fix _ | .big _ => .ok (.fix 1)
  | .rat32 _ d => .ok (.fix d)
  | .bigrat _ d => .ok (normInt d)

/-- `floor` on exact numbers (used by the Scheme definition of `lcm`). -/
def floorNum (x : Num) : Res Num :=
  match x with
  | .fix n => .ok (.fix n)
  | .big n => .ok (.big n)
  | .rat32 n d =>
    if n < 0 then do
      let a ← i32 (n - d)
      let b ← i32 (a + 1)
      pure (.fix (Int.tdiv b d))
    else .ok (.fix (Int.tdiv n d))
  | .bigrat n d => .ok (normInt (n / d))

/-! ## Comparison -/

/-- `number_equality` (`=`): same representation ⇒ structural, different ⇒ `false`. -/
def numEq (x y : Num) : Bool :=
  match x, y with
  | .fix a, .fix b => a == b
  | .big a, .big b => a == b
  | .rat32 a b, .rat32 c d => a == c && b == d
  | .bigrat a b, .bigrat c d => a == c && b == d
  | _, _ => false

/-- `PartialOrd for SteelVal` on exact numbers: every arm promotes both sides to a common exact
type (`isize`, `BigInt`, `Rational64`, `BigRational`) and compares there. -/
def numCmp (x y : Num) : Ordering :=
  match x, y with
  | .fix a, .fix b | .big a, .big b | .fix a, .big b | .big a, .fix b => compare a b
  | x, y =>
    let p := x.toQ
    let q := y.toQ
    compare (p.1 * q.2) (q.1 * p.2)

def numLt (x y : Num) : Bool := numCmp x y == .lt
def numGt (x y : Num) : Bool := numCmp x y == .gt
def numLe (x y : Num) : Bool := numCmp x y != .gt
def numGe (x y : Num) : Bool := numCmp x y != .lt

/-! ## gcd, lcm (scheme/stdlib.scm) -/

/-- `(define (gcd a b) (cond [(= b 0) (abs a)] [else (gcd b (modulo a b))]))`; the recursion is
bounded by `fuel` (one more than `|b|` always suffices). -/
def gcdFuel (cfg : Cfg) : Nat → Num → Num → Res Num
  | 0, _, _ => .err .unmodelled
  | fuel + 1, a, b =>
    if numEq b (.fix 0) then absNum cfg a
    else do
      let m ← modulo a b
      gcdFuel cfg fuel b m

def gcdNum (cfg : Cfg) (a b : Num) : Res Num :=
  gcdFuel cfg ((b.toQ.1).natAbs + 2) a b

/-- `zero?` -/
def isZero (x : Num) : Bool := match x with | .fix 0 => true | _ => false

/-- `(define (lcm a b) (if (or (zero? a) (zero? b)) 0 (abs (* b (floor (/ a (gcd a b)))))))` -/
def lcmNum (cfg : Cfg) (a b : Num) : Res Num :=
  if isZero a || isZero b then .ok (.fix 0)
  else do
    let g ← gcdNum cfg a b
    let q ← divTwo cfg a g
    let f ← floorNum q
    let p ← mulTwo b f
    absNum cfg p

/-! ## expt with an exact exponent -/

/-- `isize::checked_pow` through `u32::try_from(r)`: defined exactly when the power fits. -/
def checkedPow64 (l r : Int) : Option Int :=
  if 0 ≤ r ∧ r ≤ U32_MAX then chk64 (l ^ r.toNat) else none

/-- `Ratio::<i32>::pow(e : i32)`: `i32::pow` on both parts, then `into_recip` for `e < 0`. -/
def ratio32Pow (n d e : Int) : Res (Int × Int) :=
  if e = 0 then .ok (1, 1)
  else do
    let k := e.natAbs
    let pn ← i32 (n ^ k)
    let pd ← i32 (d ^ k)
    if e < 0 then ratio32Recip pn pd else pure (pn, pd)

def expt (cfg : Cfg) (x y : Num) : Res Num :=
  match x, y with
  | .fix l, .fix r =>
    if 0 ≤ r then
      match checkedPow64 l r with
      | some v => .ok (.fix v)
      | none => .ok (normInt (l ^ r.toNat))
    else if l = 0 then .err .expt0
    else if cfg.exptChecked then fromQ 1 (l ^ r.natAbs)
    else
      match (checkedPow64 l (-r)).bind chk32 with
      | some v => .ok (normR32 (1, v))
      | none => normBigRat (1, l ^ r.natAbs)
  | .fix l, .big r =>
    if l = 0 then
      if cfg.exptChecked && decide (0 < r) then .ok (.fix 0) else .err .expt0
    else
      -- `BigInt::from(l).pow(r.magnitude())`: num-bigint answers at once for the bases ±1 (`is_one()` on the
      -- magnitude, the sign by the parity of the exponent); any other base with an exponent ≥ 2^63 cannot finish
      let p : Option Int :=
        if l = 1 then some 1
        else if l = -1 then some (if r.natAbs % 2 = 0 then 1 else -1)
        else none
      match p with
      | none => .err .resource
      | some e => if 0 ≤ r then .ok (normInt e) else fromQ 1 e
  -- `(BigNum, BigNum)`: the same computation; a bignum base is never ±1
  | .big _, .big _ => .err .resource
  -- an exact non-integer exponent, or a ratio base with a bignum exponent: `to_f64().powf(..)`, a double
  | .fix _, .rat32 _ _ | .fix _, .bigrat _ _ | .big _, .rat32 _ _ | .big _, .bigrat _ _
  | .rat32 _ _, .rat32 _ _ | .rat32 _ _, .bigrat _ _ | .rat32 _ _, .big _
  | .bigrat _ _, .rat32 _ _ | .bigrat _ _, .bigrat _ _ | .bigrat _ _, .big _ => .err .inexact
  | .rat32 n d, .fix r =>
    match chk32 r with
    | some e =>
      if cfg.exptChecked then
        if 0 ≤ e then fromQ (n ^ e.toNat) (d ^ e.toNat) else fromQ (d ^ e.natAbs) (n ^ e.natAbs)
      else do
        let p ← ratio32Pow n d e
        pure (normR32 p)
    | none => .err .unmodelled
  | .bigrat n d, .fix r =>
    -- `Ratio::<BigInt>::pow`: exact; negative exponents swap and keep the denominator positive
    if r = 0 then .ok (.fix 1)
    else if 0 < r then normBigRat (n ^ r.toNat, d ^ r.toNat)
    else if n = 0 then .panic
    else if 0 < n ^ r.natAbs then normBigRat (d ^ r.natAbs, n ^ r.natAbs)
    else normBigRat (-(d ^ r.natAbs), -(n ^ r.natAbs))
  | .big l, .fix r =>
    if r = 0 then .ok (.fix 1)
    else if r < 0 then
      if cfg.exptChecked then fromQ 1 (l ^ r.natAbs) else normBigRat (1, l ^ r.natAbs)
    else .ok (normInt (l ^ r.toNat))

/-! ## exact-integer-sqrt -/

/-- `exact_integer_sqrt`: `Roots::sqrt` (floor of the square root) and the remainder. -/
def exactIntegerSqrt (x : Num) : Res (Num × Num) :=
  match x with
  | .fix n =>
    if 0 ≤ n then
      let s : Int := Nat.sqrt n.toNat
      do
        let sq ← isz (s * s)
        let rem ← isz (n - sq)
        pure (.fix s, .fix rem)
    else .err .type
  | .big n =>
    if 0 ≤ n then
      let s : Int := Nat.sqrt n.toNat
      .ok (normInt s, normInt (n - s * s))
    else .err .type
  | _ => .err .type

/-! ## Specialised VM paths (selected by the shape of the call) -/

/-- `SUBIMMEDIATE` (vm.rs) / `subimmediate_impl`, `extern_c_sub_two_int` (jit.rs): local − literal. -/
def subImmediate (l : Num) (r : Int) : Res Num :=
  match l with
  | .fix a =>
    match chk64 (a - r) with
    | some v => .ok (.fix v)
    | none => .ok (.big (a - r))
  | other => subTwo other (.fix r)

/-- `addimmediate_handler_impl` (jit.rs): local + literal. (`ADDIMMEDIATE` in vm.rs calls `add_primitive`.) -/
def addImmediate (l : Num) (r : Int) : Res Num :=
  match l with
  | .fix a =>
    match chk64 (a + r) with
    | some v => .ok (.fix v)
    | none => .ok (.big (a + r))
  | other => addTwo other (.fix r)

/-- `LTEIMMEDIATE` / `LTEIMMEDIATEIF`: `l.clone() <= SteelVal::IntV(r)`. -/
def lteImmediate (l : Num) (r : Int) : Bool := numLe l (.fix r)

end SteelVerif.C10
