/-
C10 — model of `number->string` / `string->number` on exact numbers.

`number->string`  crates/steel-core/src/primitives/strings.rs `number_to_string` → `number_to_string_impl`
                  → `format_number`: radix `None`/`Some(10)` ⇒ `Display` of `isize` / `BigInt`
                  (decimal, leading `-`), any other radix 2..16 ⇒ `radix_fmt::small` (the digits of
                  `unsigned_abs` by repeated division, least significant first, `-`, reversed) /
                  `BigInt::to_str_radix` — both: `-`? then the digits `0-9a-f`, most significant first;
                  a ratio is `numerator '/' denominator`.
`string->number`  `string_to_number` → `steel_parser::lexer::parse_number(s, radix)` (NOT
                  `try_parse_number`: no zero-denominator validation) → `Option<NumberLiteral>::into_steelval`
                  = `#f` for `None`, `real_literal_to_steelval` (parser.rs) for a real literal.

The text → literal half is C12's model of the lexer's number parser (`SteelVerif.C12.parseNumberBody`,
imported, not duplicated); only the selection of the radix (`parse_number`'s first `match`, with the
caller's default instead of 10) is restated here, and proved to coincide with C12's for the default 10.
-/
import SteelVerif.C10.Model
import SteelVerif.C10.GenOps
import SteelVerif.C12.Lemmas
namespace SteelVerif.C10
open SteelVerif.C12 (Text natDigits hexDigitLower RealLit NumLit parseNumberBody radixPrefix zeroDen)

/-! ## number → text -/

/-- `Display` (radix 10) / `radix_fmt::small` / `BigInt::to_str_radix`: sign, then the digits of the
magnitude, most significant first, lower case. -/
def writeIntRadix (radix : Nat) (i : Int) : Text :=
  match i with
  | .ofNat n => natDigits radix hexDigitLower n
  | .negSucc n => '-' :: natDigits radix hexDigitLower (n + 1)

/-- `format_number` on the four exact representations. -/
def numberToString (radix : Nat) : Num → Text
  | .fix n => writeIntRadix radix n
  | .big n => writeIntRadix radix n
  | .rat32 n d => writeIntRadix radix n ++ '/' :: writeIntRadix radix d
  | .bigrat n d => writeIntRadix radix n ++ '/' :: writeIntRadix radix d

/-- `number_to_string`: the optional radix argument must lie in 2..16 (`ContractViolation` otherwise);
no argument and `10` both select `Display`. -/
def numberToStringPrim (radix : Option Int) (x : Num) : Res Text :=
  match radix with
  | none => .ok (numberToString 10 x)
  | some r => if r < 2 ∨ r > 16 then .err .type else .ok (numberToString r.toNat x)

/-! ## text → number -/

/-- the first `match` of `parse_number(s, radix)`: a `#x #d #o #b` prefix (either case) overrides the
caller's radix, which defaults to 10. -/
def radixOf (dflt : Nat) : Text → Text × Nat
  | '#' :: 'x' :: r => (r, 16) | '#' :: 'X' :: r => (r, 16)
  | '#' :: 'd' :: r => (r, 10) | '#' :: 'D' :: r => (r, 10)
  | '#' :: 'o' :: r => (r, 8) | '#' :: 'O' :: r => (r, 8)
  | '#' :: 'b' :: r => (r, 2) | '#' :: 'B' :: r => (r, 2)
  | r => (r, dflt)

/-- `real_literal_to_steelval`.  `IntLiteral::from_str_radix` yields `Small` exactly when the value fits
an `isize`; `(Small, Small)` with both parts in `i32` goes through `Rational32::new`, with a zero
denominator it is the `BadSyntax` "division by zero" error; every other combination goes through
`BigRational::new` — which panics on a zero denominator (a `Big` numerator over `0`) unless the guard of the
repaired code (`checked`) reports the same error first. -/
def litToNumC (checked : Bool) : RealLit → Res Num
  | .int i => .ok (normInt i)
  | .rat n d =>
    if fitsIsize n && fitsIsize d then
      if d = 0 then .err .div0
      else if fitsI32 n && fitsI32 d then do
        let r ← ratio32New n d
        pure (normR32 r)
      else fromQ n d
    else if checked && d == 0 then .err .div0
    else fromQ n d
  | _ => .err .unmodelled            -- inexact literals: outside the exact tower

/-- the current tree (`Gen.s2nChecked`, regenerated from strings.rs / parser.rs). -/
def litToNum : RealLit → Res Num := litToNumC Gen.s2nChecked

/-- `string_to_number` (`none` = `#f`).  `checked`: the repaired code filters a literal with a zero denominator
(`has_zero_denominator`) into `#f` before converting it. -/
def stringToNumberC (checked : Bool) (radix : Option Nat) (s : Text) : Res (Option Num) :=
  let p := radixOf (radix.getD 10) s
  match parseNumberBody p.2 p.1 with
  | none => .ok none
  | some (.real lit) =>
    if checked && zeroDen lit then .ok none
    else
      match litToNumC checked lit with
      | .ok v => .ok (some v)
      | .err e => .err e
      | .panic => .panic
  | some (.complex a b) => if checked && (zeroDen a || zeroDen b) then .ok none else .err .unmodelled
  | some (.polar a b) => if checked && (zeroDen a || zeroDen b) then .ok none else .err .unmodelled

def stringToNumber (radix : Option Nat) (s : Text) : Res (Option Num) := stringToNumberC Gen.s2nChecked radix s

/-- `string_to_number` with its argument check (`radix` must lie in 2..16). -/
def stringToNumberPrim (radix : Option Int) (s : Text) : Res (Option Num) :=
  match radix with
  | none => stringToNumber none s
  | some r => if r < 2 ∨ r > 16 then .err .type else stringToNumber (some r.toNat) s

/-! ## values ↔ literals (the constant folder writes a folded result back as a literal) -/

/-- `TryFrom<&SteelVal> for ExprKind` on exact numbers (parser/ast.rs): the literal that stands for a
folded value — `IntV → Int(Small)`, `BigNum → Int(Big)`, `Rational → Rational(Small, Small)`,
`BigRational → Rational(Big, Big)`.  (C12's `RealLit` keeps the value only; `Small`/`Big` is recovered by
`litToNum` from the magnitude, as `from_str_radix` does.  For `BigRational` the code's literal is
`(Big, Big)` whatever the magnitudes, which `litToNumBig` follows.) -/
def numToLit : Num → RealLit
  | .fix n => .int n
  | .big n => .int n
  | .rat32 n d => .rat n d
  | .bigrat n d => .rat n d

/-- `real_literal_to_steelval` on the literal of a `BigRational` (`(Big, Big)`: always `BigRational::new`). -/
def litToNumBig (n d : Int) : Res Num := fromQ n d

/-- a folded value as the compiled program sees it again. -/
def readBack (v : Num) : Res Num :=
  match v with
  | .bigrat n d => litToNumBig n d
  | v => litToNum (numToLit v)

end SteelVerif.C10
