/-
C14 — model M of Steel's module system (`crates/steel-core/src/compiler/modules.rs`,
`compiler/passes/mangle.rs`, `compiler/compiler.rs::compile_raw_program`,
`steel_vm/engine.rs::raw_program_to_executable`) and its specification S.

§1  `mangle`           the textual name mangling `"##mm" ++ id ++ "__%#__" ++ name`
                        (`MANGLER_PREFIX`, `MANGLER_SEPARATOR`, `CompiledModule::new`, `NameMangler::visit_atom`).
§2  require specs       `(only-in spec id … (from to) …)`, `(prefix-in p spec)`, a path; the code flattens a
                        spec into one `RequireObject {path, idents_to_import, prefix}`
                        (`parse_require_object_inner`) — `Spec.flatten` — and generates one
                        `(define <prefix><alias|name> (%proto-hash-get% __module-<T> 'name))` per provided
                        name that passes the filter (`compile_main`, `to_top_level_module`) — `Req.importsM`.
                        S composes the modifiers instead (`Spec.importsS`).
§3  module graphs       a list of modules in dependency order: module `k` is the `k`-th element and may only
                        require modules with a smaller index (every acyclic graph has such a numbering).
§4  S                   one environment per module; export / import as operations on association lists.
§5  instantiation       the compiled-module table, the file-metadata table, their two *different* roll-backs,
                        depth-first compilation of dependencies (`ModuleBuilder::compile`) and the list of
                        module bodies emitted into the program.
§6  M                   the flat global table keyed by (mangled) names, module bodies writing into it.
§7  whole runs + guard  `runM` / `runS`, and the decidable guard (`graphGuard`, `reqGuard`, `specOK`) of the refinement
                        theorem M = S on whole requests (`Props.lean` §5).
Separate files: `Contract.lean` (what `contracts.scm` does at a `contract/out` boundary, and its S), `Prune.lean`
(unused-import pruning), `Macros.lean` (macros provided by modules); `GenConsts.lean` / `GenTables.lean` are regenerated
from /repo by `translate/c14_constants.py` / `translate/c14_tables.py`.

Everything is executable (the driver runs it) and imports nothing outside core.
-/
namespace SteelVerif.C14

abbrev Name := List Char

/-! ## 1. Name mangling -/

/-- `MANGLER_PREFIX = "##mm"` -/
def manglerPrefix : List Char := ['#', '#', 'm', 'm']
/-- `MANGLER_SEPARATOR = "__%#__"` -/
def manglerSeparator : List Char := ['_', '_', '%', '#', '_', '_']

def digitChar : Nat → Char
  | 0 => '0' | 1 => '1' | 2 => '2' | 3 => '3' | 4 => '4'
  | 5 => '5' | 6 => '6' | 7 => '7' | 8 => '8' | _ => '9'

def decFuel : Nat → Nat → List Char
  | 0, _ => []
  | f + 1, n => if n < 10 then [digitChar n] else decFuel f (n / 10) ++ [digitChar (n % 10)]

/-- Decimal rendering of the module id (`usize::to_string` of the interned path id). -/
def dec (n : Nat) : List Char := decFuel (n + 1) n

/-- `CompiledModule::prefix()`. -/
def modulePrefix (id : Nat) : List Char := manglerPrefix ++ (dec id ++ manglerSeparator)

/-- `NameMangler::visit_atom`: `prefix + name`. -/
def mangle (id : Nat) (n : Name) : List Char := modulePrefix id ++ n

/-- A source identifier, as far as C14 needs it: the reader never produces an identifier that begins
with `##` from plain (unescaped) text. -/
def SourceIdent (s : Name) : Prop := ¬ (['#', '#'] <+: s)

instance (s : Name) : Decidable (SourceIdent s) := by unfold SourceIdent; exact inferInstance

/-! ## 2. Require specifications -/

inductive Spec where
  | path (m : Nat)
  | onlyIn (s : Spec) (ids : List (Name × Option Name))
  | prefixIn (p : Name) (s : Spec)
deriving Repr, Inhabited

/-- `RequireObject`: the flat form the code works with (`prefix = None` is `[]`). -/
structure Req where
  target : Nat
  idents : List (Name × Option Name)
  pfx : Name
deriving Repr, Inhabited, DecidableEq

/-- `parse_require_object_inner` with the builder state as accumulator: `prefix-in` appends its prefix
to the prefix collected so far and then descends; `only-in` descends first and then pushes its ids. -/
def Spec.flattenInto : Spec → List (Name × Option Name) → Name → Req
  | .path m, ids, p => ⟨m, ids, p⟩
  | .onlyIn s ids', ids, p =>
      let r := s.flattenInto ids p
      { r with idents := r.idents ++ ids' }
  | .prefixIn q s, ids, p => s.flattenInto ids (p ++ q)

def Spec.flatten (s : Spec) : Req := s.flattenInto [] []

def Spec.target : Spec → Nat
  | .path m => m
  | .onlyIn s _ => s.target
  | .prefixIn _ s => s.target

/-- `explicit_requires` is a `HashMap` filled by `insert` in list order: the last entry for a key wins. -/
def lookupLast (ids : List (Name × Option Name)) (n : Name) : Option (Option Name) :=
  ids.reverse.lookup n

/-- The name under which provided name `n` is bound by the flat require `r`, if it passes the filter:
`explicit_requires.is_empty() || contains_key(n)`, then the alias if there is one, then the prefix. -/
def Req.rename (r : Req) (n : Name) : Option Name :=
  if r.idents.isEmpty then some (r.pfx ++ n)
  else match lookupLast r.idents n with
    | none => none
    | some alias => some (r.pfx ++ alias.getD n)

/-- What the code binds for a flat require, given what the target module provides (in `provide` order):
triples (bound name, provided name, payload). -/
def Req.importsM {β : Type} (r : Req) (ex : List (Name × β)) : List (Name × Name × β) :=
  ex.filterMap fun e => (r.rename e.1).map fun v => (v, e.1, e.2)

/-- `mapM` in `Option`, spelled out. -/
def mapOpt {α β : Type} (f : α → Option β) : List α → Option (List β)
  | [] => some []
  | a :: l =>
    match f a, mapOpt f l with
    | some b, some bs => some (b :: bs)
    | _, _ => none

/-- S: modifiers compose.  `none` = the spec is ill-formed (an `only-in` names an identifier that the
inner spec does not make available). -/
def Spec.importsS {β : Type} (ex : Nat → List (Name × β)) : Spec → Option (List (Name × β))
  | .path m => some (ex m)
  | .prefixIn p s => (s.importsS ex).map fun l => l.map fun e => (p ++ e.1, e.2)
  | .onlyIn s ids =>
      match s.importsS ex with
      | none => none
      | some inner => mapOpt (fun ia => (inner.lookup ia.1).map fun b => (ia.2.getD ia.1, b)) ids

/-- The fragment on which flattening and composing agree: any number of `prefix-in` around at most one
`only-in` that sits directly on the path, lists at least one identifier, lists no identifier twice and
only identifiers the module provides (once). -/
def Spec.canonical (provs : Nat → List Name) : Spec → Bool
  | .path _ => true
  | .prefixIn _ s => s.canonical provs
  | .onlyIn (.path m) ids =>
      !ids.isEmpty && (ids.map (·.1)).Nodup && ids.all (fun ia => (provs m).contains ia.1) &&
        (provs m).Nodup
  | .onlyIn _ _ => false

/-! ## 3. Module graphs -/

structure Provide where
  name : Name
  contract : Bool            -- `(contract/out name c)` instead of a plain identifier
deriving Repr, Inhabited, DecidableEq

structure Module where
  defs : List Name           -- top-level defines of the module body
  provs : List Provide
  reqs : List Spec
  views : List Name := []    -- names the module's probe reports (filled by the driver's `elab`)
deriving Repr, Inhabited

/-- Modules in dependency order; the id of a module is its index. -/
abbrev Graph := List Module

def Graph.mod (g : Graph) (k : Nat) : Module := g.getD k ⟨[], [], [], []⟩

def Graph.provNames (g : Graph) (k : Nat) : List Name := (g.mod k).provs.map (·.name)

def Graph.targets (g : Graph) (k : Nat) : List Nat := (g.mod k).reqs.map (·.target)

/-- Acyclic, in dependency order: module `k` requires only modules `< k`. -/
def Graph.wfFrom (base : Nat) : List Module → Bool
  | [] => true
  | m :: rest => m.reqs.all (fun s => s.target < base) && Graph.wfFrom (base + 1) rest

def Graph.wf (g : Graph) : Bool := Graph.wfFrom 0 g

/-- What module `k` sees of the modules it requires, computed the way the code does (flatten each
spec, filter and rename the target's `provide` list, apply the concatenated prefix):
bound name ↦ (required module, provided name).  Later entries shadow earlier ones. -/
def visible (g : Graph) (k : Nat) : List (Name × (Nat × Name)) :=
  ((g.mod k).reqs.map Spec.flatten).flatMap fun r =>
    (r.importsM ((g.provNames r.target).map fun n => (n, ()))).map fun i => (i.1, (r.target, i.2.1))

/-! ## 4. S — per-module environments -/

inductive Origin where
  | mod (k : Nat)
  | top (i : Nat)
deriving Repr, Inhabited, DecidableEq

/-- What a name is bound to: the definition it came from, and whether a contract was attached on the
way (at the boundary of the defining module). -/
structure Val where
  origin : Origin
  name : Name
  contracted : Bool
deriving Repr, Inhabited, DecidableEq

abbrev Env := List (Name × Val)        -- first match wins (later definitions are consed in front)

/-- Bind the entries of `l` in order (the last one wins). -/
def Env.bindAll (env : Env) (l : List (Name × Val)) : Env := l.reverse ++ env

structure SMod where
  env : Env                  -- what the module body sees
  exports : List (Name × Val)
  ok : Bool                  -- all its require specs are well-formed
deriving Repr, Inhabited

def sExports (ms : List SMod) (k : Nat) : List (Name × Val) := (ms.getD k ⟨[], [], true⟩).exports

/-- Environment and exports of module `k`, given those of the modules before it. -/
def sStep (ex : Nat → List (Name × Val)) (acc : Env × Bool) (s : Spec) : Env × Bool :=
  match s.importsS ex with
  | some l => (acc.1.bindAll l, acc.2)
  | none => (acc.1, false)

def sModule (ms : List SMod) (k : Nat) (m : Module) : SMod :=
  let (imp, ok) := m.reqs.foldl (sStep (sExports ms)) ([], true)
  let env := imp.bindAll (m.defs.map fun d => (d, ⟨.mod k, d, false⟩))
  let exports := m.provs.filterMap fun p =>
    (env.lookup p.name).map fun v => (p.name, { v with contracted := v.contracted || p.contract })
  ⟨env, exports, ok⟩

def sBuildFrom (ms : List SMod) : List Module → List SMod
  | [] => ms
  | m :: rest => sBuildFrom (ms ++ [sModule ms ms.length m]) rest

/-- S of a whole graph: one `SMod` per module. -/
def sBuild (g : Graph) : List SMod := sBuildFrom [] g

/-! ## 5. The instantiation machine -/

inductive Mode where
  | ok
  | failCompile      -- an error raised inside `compile_raw_program_impl` (e.g. a macro that does not match)
  | failBuild        -- a free identifier, detected when the program is built (`raw_program_to_executable`)
  | failRuntime      -- an error raised by the last expression of the program, after everything else ran
deriving Repr, Inhabited, DecidableEq

/-- The state `ModuleBuilder::compile` threads through one compilation. -/
structure VS where
  compiled : List Nat        -- keys of `ModuleManager.compiled_modules`
  fmeta : List Nat           -- keys of `ModuleManager.file_metadata`
  emitted : List Nat         -- module bodies appended to the program, in order
deriving Repr, Inhabited, DecidableEq

/-- `ModuleBuilder::compile` for one required path `k` (files do not change on disk):
skip it when its metadata is known *and* it is in the table; otherwise record the metadata
(`parse_from_path`), compile its own requires depth-first, and call `compile_module` — which inserts
it into the table with `emitted = true` and appends its body to the program — when it provides
something or is not in the table. -/
def visit (g : Graph) : Nat → Nat → VS → VS
  | 0, _, st => st
  | fuel + 1, k, st =>
    if k ∈ st.fmeta ∧ k ∈ st.compiled then st
    else
      let st1 := { st with fmeta := k :: st.fmeta }
      let st2 := (g.targets k).foldl (fun s t => visit g fuel t s) st1
      if (g.mod k).provs ≠ [] ∨ k ∉ st2.compiled then
        { st2 with compiled := k :: st2.compiled, emitted := st2.emitted ++ [k] }
      else st2

def visitAll (g : Graph) (ts : List Nat) (st : VS) : VS :=
  ts.foldl (fun s t => visit g g.length t s) st

/-- The import defines the code generates for the requires `specs`, decided on the static `provide`
lists of the targets: (target, bound name, provided name, provided through `contract/out`). -/
def staticImports (g : Graph) (specs : List Spec) : List (Nat × Name × Name × Bool) :=
  (specs.map Spec.flatten).flatMap fun r =>
    (r.importsM ((g.mod r.target).provs.map fun p => (p.name, p.contract))).map fun i => (r.target, i)

/-- The `__module-<T>` tables the main program refers to: one `(%proto-hash-get% __module-<T> …)` per
import define (they are ordinary top-level defines and are never removed). -/
def hashRefs (g : Graph) (specs : List Spec) : List Nat :=
  (staticImports g specs).map (·.1)

/-- The `__module-<T>` tables the body of module `k` refers to.  Its import defines carry mangled names
(`##mm…`), and `remove_unused_globals_with_prefix` deletes those that nothing in the compilation unit
uses; a `contract/out` import that is defined under an unmangled name (see `mGlobals`) stays. -/
def modRefsGo (defs used : List Name) (unmangled : Nat × Name × Name × Bool → Bool) :
    List (Nat × Name × Name × Bool) → List Nat
  | [] => []
  | i :: rest =>
      -- a use of a name counts for the last define of that name in the unit: an import that the
      -- module's own define, or a later import, shadows is unused
      let shadowed := defs.contains i.2.1 || rest.any (fun j => j.2.1 == i.2.1 && !unmangled j)
      if unmangled i || (used.contains i.2.1 && !shadowed) then
        i.1 :: modRefsGo defs used unmangled rest
      else modRefsGo defs used unmangled rest

def modRefs (g : Graph) (k : Nat) : List Nat :=
  let m := g.mod k
  let imps := staticImports g m.reqs
  let globals := m.defs ++ imps.map fun i => if i.2.2.2 then i.2.2.1 else i.2.1
  let used := m.views ++ m.provs.map (·.name)
  modRefsGo m.defs used (fun i => i.2.2.2 && !globals.contains i.2.1) imps

def missingBefore (g : Graph) (inst : List Nat) : List Nat → List Nat → Bool
  | _, [] => false
  | before, k :: rest =>
      (modRefs g k).any (fun t => t ∉ inst ∧ t ∉ before) || missingBefore g inst (before ++ [k]) rest

/-- Is some `__module-<T>` referenced by the program (by the main program's imports or by an emitted
module's imports) neither defined already nor defined by a module body emitted before the reference? -/
def missingHash (g : Graph) (inst : List Nat) (emitted : List Nat) (specs : List Spec) : Bool :=
  missingBefore g inst [] emitted || (hashRefs g specs).any (fun t => t ∉ inst ∧ t ∉ emitted)

structure IM where
  compiled : List Nat := []
  fmeta : List Nat := []
  inst : List Nat := []      -- module bodies evaluated so far, in order (with multiplicity)
deriving Repr, Inhabited, DecidableEq

def IM.count (st : IM) (k : Nat) : Nat := st.inst.count k

inductive Status where
  | ok | errSyntax | errFreeId | errRuntime | errRequire | undetermined
deriving Repr, Inhabited, DecidableEq

/-- One evaluation request on the engine, as far as module instantiation is concerned.
`extraFree` = the program references some other identifier that is not defined.
`rollbackBoth = true` is the code as it is (since commit d10f8017): both failure paths restore the
module table and the metadata.  `rollbackBoth = false` is the code before that commit: a failure inside
`compile_raw_program` restored the module table but kept the metadata, a failure in
`raw_program_to_executable` restored the metadata but kept the table. -/
def evalRequestI (rollbackBoth : Bool) (g : Graph) (st : IM) (specs : List Spec) (mode : Mode)
    (extraFree : Bool := false) : IM × Status × List Nat :=
  let v := visitAll g (specs.map Spec.target) ⟨st.compiled, st.fmeta, []⟩
  if mode = .failCompile then
    ({ st with compiled := st.compiled, fmeta := if rollbackBoth then st.fmeta else v.fmeta },
      .errSyntax, [])
  else if mode = .failBuild ∨ extraFree ∨ missingHash g st.inst v.emitted specs then
    ({ st with compiled := if rollbackBoth then st.compiled else v.compiled, fmeta := st.fmeta },
      .errFreeId, [])
  else
    (⟨v.compiled, v.fmeta, st.inst ++ v.emitted⟩,
      if mode = .failRuntime then .errRuntime else .ok, v.emitted)

structure Request where
  specs : List Spec
  defs : List Name := []
  mode : Mode := .ok
  obs : List Name := []
  uses : List Name := []     -- identifiers the program itself refers to (its last expression but one)
deriving Repr, Inhabited

def runRequestsI (rollbackBoth : Bool) (g : Graph) : IM → List Request → IM
  | st, [] => st
  | st, r :: rest => runRequestsI rollbackBoth g (evalRequestI rollbackBoth g st r.specs r.mode).1 rest

/-- S for instantiation: the modules a request needs (transitively). -/
def depsFuel (g : Graph) : Nat → Nat → List Nat
  | 0, _ => []
  | fuel + 1, k => k :: (g.targets k).flatMap (depsFuel g fuel)

def Graph.deps (g : Graph) (k : Nat) : List Nat := depsFuel g g.length k

def Request.needs (g : Graph) (r : Request) : List Nat := (r.specs.map Spec.target).flatMap g.deps

/-- S: a request that fails before running has no effect; any other request instantiates what it needs
and has not been instantiated yet. -/
def sInst (g : Graph) : List Nat → List Request → List Nat
  | inst, [] => inst
  | inst, r :: rest =>
    if r.mode = .failCompile ∨ r.mode = .failBuild then sInst g inst rest
    else sInst g (inst ++ ((r.needs g).eraseDups.filter (· ∉ inst))) rest

/-! ## 6. M — the flat global table -/

/-- An entry of a module's `%proto-hash%`: provided name, value, and whether the `provide` form was a
`contract/out` (the two forms take different code paths in `to_top_level_module`). -/
structure Export where
  name : Name
  val : Val
  cform : Bool
deriving Repr, Inhabited, DecidableEq

/-- Variants of the mechanism.  The defaults are the code as it is: both failure paths restore the
module table *and* the metadata (commit d10f8017), `contract/out` imports are mangled under their
bound name (commit 1587f6f5), require modifiers are flattened.  `rollback := false` and
`contractImports := false` are the two repaired defects (kept as regression witnesses, corpus d01–d04);
`compose := true` is what the specification asks of the modifiers (open finding K14c). -/
structure Fix where
  rollback : Bool := true           -- both failure paths restore module table *and* metadata
  contractImports : Bool := true    -- a `contract/out` import is mangled under its bound name
  compose : Bool := false           -- require modifiers are composed instead of flattened
deriving Repr, Inhabited, DecidableEq

structure MState where
  tbl : List (Name × Val) := []               -- global symbol table (symbol map + values)
  hashes : List (Nat × List Export) := []     -- the `__module-<prefix k>` tables that exist
  globs : List (Nat × List Name) := []        -- the mangler's `globals` of every module that ran
  leaks : List (Nat × List Name) := []        -- unmangled global names a module body defined
  rex : List (Nat × List Name) := []          -- unmangled global names a module body *read* (re-exports)
  views : List (Nat × List (Name × Option Val)) := []   -- what each module body's references resolved to
  im : IM := {}
  nreq : Nat := 0
deriving Repr, Inhabited

def hashPairs (hashes : List (Nat × List Export)) (t : Nat) : List (Name × Export) :=
  ((hashes.lookup t).getD []).map fun e => (e.name, e)

/-- The imports (bound name, hash entry) of a module / program with requires `specs`, read from the
hashes that exist, in definition order.  `none`: composing the modifiers found an ill-formed spec. -/
def mStepC (hashes : List (Nat × List Export)) (acc : Option (List (Name × Export))) (s : Spec) :
    Option (List (Name × Export)) :=
  match acc, s.importsS (hashPairs hashes) with
  | some l, some l' => some (l ++ l')
  | _, _ => none

def mImports (compose : Bool) (hashes : List (Nat × List Export)) (specs : List Spec) :
    Option (List (Name × Export)) :=
  if compose then specs.foldl (mStepC hashes) (some [])
  else
    some ((specs.map Spec.flatten).flatMap fun r =>
      (r.importsM (hashPairs hashes r.target)).map fun i => (i.1, i.2.2))

/-- The set `globals` handed to the `NameMangler` of module `m`: its own defines (`collect_globals`),
the *bound* name of every plain import, and the *provided* (raw) name of every `contract/out` import
(the bound name once repaired). -/
def mGlobals (fixC : Bool) (m : Module) (imps : List (Name × Export)) : List Name :=
  m.defs ++ imps.map fun i => if i.2.cform && !fixC then i.2.name else i.1

def keyOf (k : Nat) (globals : List Name) (v : Name) : Name :=
  if v ∈ globals then mangle k v else v

/-- Evaluate the body of module `k`: import defines, own defines, then the `%proto-hash%` of provides. -/
def runModule (fix : Fix) (g : Graph) (st : MState) (k : Nat) : Option MState :=
  let m := g.mod k
  match mImports fix.compose st.hashes m.reqs with
  | none => none
  | some imps =>
    let globals := mGlobals fix.contractImports m imps
    -- plain imports are defined as `prefix + bound name` outright; `contract/out` imports as the bound
    -- name, which the mangler rewrites only if it is in `globals`
    let tbl1 := imps.foldl (fun t i =>
        ((if i.2.cform then keyOf k globals i.1 else mangle k i.1), i.2.val) :: t) st.tbl
    let tbl2 := m.defs.foldl (fun t d => (mangle k d, ⟨.mod k, d, false⟩) :: t) tbl1
    let hash := m.provs.filterMap fun p =>
      (tbl2.lookup (keyOf k globals p.name)).map fun v =>
        (⟨p.name, { v with contracted := v.contracted || p.contract }, p.contract⟩ : Export)
    let leaks := imps.filterMap fun i => if i.2.cform && !globals.contains i.1 then some i.1 else none
    let rex := (m.provs.map (·.name)).filter fun n => !globals.contains n
    some { st with tbl := tbl2, hashes := (k, hash) :: st.hashes, globs := (k, globals) :: st.globs,
                   leaks := (k, leaks) :: st.leaks, rex := (k, rex) :: st.rex }

/-- What module `k`'s probe reports. -/
def mView (st : MState) (k : Nat) : List (Name × Option Val) := (st.views.lookup k).getD []

def runModules (fix : Fix) (g : Graph) : MState → List Nat → Option MState
  | st, [] => some st
  | st, k :: rest =>
    match runModule fix g st k with
    | none => none
    | some st' => runModules fix g st' rest

/-- The references of module `k`'s body (its probe closure), resolved against table `tbl`: every name
is looked up the way the mangled body does. -/
def resolveView (g : Graph) (st : MState) (tbl : List (Name × Val)) (k : Nat) : List (Name × Option Val) :=
  let globals := (st.globs.lookup k).getD []
  (g.mod k).views.map fun v => (v, tbl.lookup (keyOf k globals v))

/-- Within one program every reference to a global name is bound to the slot of the *last* define of
that name in the program (the symbol map is filled before code is generated).  A module body that
reads an unmangled global (a re-exported name that leaked) which a later part of the same program
defines again reads an unset slot: the program aborts half-way.  The model does not follow the engine
through that; it reports the request as `undetermined`. -/
def clashes (st : MState) (emitted : List Nat) (mainNames : List Name) : Bool :=
  let rec go : List Nat → Bool
    | [] => false
    | k :: rest =>
        let later := rest.flatMap (fun j => (st.leaks.lookup j).getD []) ++ mainNames
        ((st.rex.lookup k).getD []).any (fun n => later.contains n) || go rest
  go emitted

/-- One request on the flat machine. -/
def evalRequestM (fix : Fix) (g : Graph) (st : MState) (r : Request) : MState × Status :=
  let (im0, status0, emitted0) := evalRequestI fix.rollback g st.im r.specs r.mode
  let nreq := st.nreq + 1
  if status0 = .errSyntax ∨ status0 = .errFreeId then ({ st with im := im0, nreq := nreq }, status0)
  else
    -- would the program compile?  Run it on a scratch copy (all defines are unconditional and at top
    -- level, so "defined when the program is built" = "defined when it runs").
    match runModules fix g st emitted0 with
    | none => ({ st with nreq := nreq }, .errRequire)
    | some scratch =>
      match mImports fix.compose scratch.hashes r.specs with
      | none => ({ st with nreq := nreq }, .errRequire)
      | some imps =>
        let tbl1 := imps.foldl (fun t i => (i.1, i.2.val) :: t) scratch.tbl
        let tbl2 := r.defs.foldl (fun t d => (d, ⟨.top st.nreq, d, false⟩) :: t) tbl1
        let views := emitted0.map fun k => (k, resolveView g scratch tbl2 k)
        if !((views.all fun kv => kv.2.all (·.2.isSome)) && r.uses.all fun n => (tbl2.lookup n).isSome) then
          -- a module body, or the program itself, refers to an unbound name: free identifier, found when the
          -- program is built (before anything of it runs) and rolled back as a build failure — here whether the
          -- request fails is an OUTPUT of the machine
          let (im1, status1, _) := evalRequestI fix.rollback g st.im r.specs r.mode true
          ({ st with im := im1, nreq := nreq }, status1)
        else if clashes scratch emitted0 (imps.map (·.1) ++ r.defs) then
          ({ st with nreq := nreq }, .undetermined)
        else
          ({ scratch with tbl := tbl2, views := views ++ scratch.views, im := im0, nreq := nreq }, status0)

/-! ## S for whole requests -/

structure SState where
  top : Env := []
  inst : List Nat := []
  nreq : Nat := 0
deriving Repr, Inhabited

def sBindStep (ex : Nat → List (Name × Val)) (acc : Option Env) (s : Spec) : Option Env :=
  match acc, s.importsS ex with
  | some e, some l => some (e.bindAll l)
  | _, _ => none

def evalRequestS (g : Graph) (ms : List SMod) (st : SState) (r : Request) : SState × Status :=
  let nreq := st.nreq + 1
  if r.mode = .failCompile then ({ st with nreq := nreq }, .errSyntax)
  else if r.mode = .failBuild then ({ st with nreq := nreq }, .errFreeId)
  else
    let needs := (r.needs g).eraseDups
    let imported := r.specs.foldl (sBindStep (sExports ms)) (some st.top)
    match imported, needs.all (fun k => (ms.getD k ⟨[], [], true⟩).ok) with
    | some env, true =>
      let env := env.bindAll (r.defs.map fun d => (d, ⟨.top st.nreq, d, false⟩))
      -- the program refers to a name that is not bound: rejected before anything runs
      if !(r.uses.all fun n => (env.lookup n).isSome) then ({ st with nreq := nreq }, .errFreeId)
      else
        (⟨env, st.inst ++ needs.filter (· ∉ st.inst), nreq⟩,
          if r.mode = .failRuntime then .errRuntime else .ok)
    | _, _ => ({ st with nreq := nreq }, .errRequire)

def sView (g : Graph) (ms : List SMod) (k : Nat) : List (Name × Option Val) :=
  (g.mod k).views.map fun v => (v, (ms.getD k ⟨[], [], true⟩).env.lookup v)

/-! ## 7. Whole runs, and the guard of the refinement theorem (`Props.lean` §5)

`graphGuard` / `reqGuard` are the decidable conditions under which the flat machine M (the code as it is)
and the per-module environments S agree on whole requests: every require spec is in the fragment on which
flattening and composing the modifiers bind the same names to the same definitions *in any order of
binding* (`canonical2`; outside it: open finding K14c), every module refers (provides, probe) only to
names that are bound in it (a name that is not is looked up in the global namespace of whatever program
is running — not a module-system matter), and the requiring program binds only identifiers the reader
produces from plain text (outside: open finding K14d). -/

def runM (fix : Fix) (g : Graph) : MState → List Request → MState × List Status
  | st, [] => (st, [])
  | st, r :: rest =>
    let (st', s) := evalRequestM fix g st r
    let (st'', ss) := runM fix g st' rest
    (st'', s :: ss)

def runS (g : Graph) (ms : List SMod) : SState → List Request → SState × List Status
  | st, [] => (st, [])
  | st, r :: rest =>
    let (st', s) := evalRequestS g ms st r
    let (st'', ss) := runS g ms st' rest
    (st'', s :: ss)

/-- The environment of module `k` under S. -/
def senv (ms : List SMod) (k : Nat) : Env := (ms.getD k ⟨[], [], true⟩).env

/-- The names module `m` exports under S. -/
def expNames (ms : List SMod) (m : Nat) : List Name := (sExports ms m).map (·.1)

/-- `canonical`, and the names an `only-in` binds are pairwise different (two identifiers renamed to one
name: the code binds the one that comes later in the `provide` list, S the one that comes later in the
`only-in`). -/
def Spec.canonical2 (provs : Nat → List Name) : Spec → Bool
  | .path _ => true
  | .prefixIn _ s => s.canonical2 provs
  | .onlyIn (.path m) ids =>
      (Spec.onlyIn (.path m) ids).canonical provs && (ids.map fun ia => ia.2.getD ia.1).Nodup
  | .onlyIn _ _ => false

/-- Everything the requires `specs` bind under S, in binding order (ill-formed specs bind nothing). -/
def sImports (ex : Nat → List (Name × Val)) (specs : List Spec) : List (Name × Val) :=
  specs.flatMap fun s => (s.importsS ex).getD []

/-- The condition on a require spec: with the modifiers flattened (the code, `compose = false`) the fragment on
which flattening and composing agree; with the modifiers composed (`Fix.compose`) just well-formedness under S. -/
def specOK (compose : Bool) (ms : List SMod) (s : Spec) : Bool :=
  if compose then (s.importsS (sExports ms)).isSome else s.canonical2 (expNames ms)

def modGuard (compose : Bool) (g : Graph) (ms : List SMod) (k : Nat) : Bool :=
  let m := g.mod k
  m.reqs.all (fun s => specOK compose ms s) &&
    (m.provs.map (·.name) ++ m.views).all fun n => ((senv ms k).lookup n).isSome

def graphGuard (compose : Bool) (g : Graph) : Bool :=
  g.wf && (List.range g.length).all (modGuard compose g (sBuild g))

def reqGuard (compose : Bool) (g : Graph) (ms : List SMod) (r : Request) : Bool :=
  r.specs.all (fun s => decide (s.target < g.length) && specOK compose ms s) &&
    ((sImports (sExports ms) r.specs).map (·.1) ++ r.defs ++ r.uses).all fun n => decide (SourceIdent n)

end SteelVerif.C14
