/-
C14 — lemmas about the flat global table: which keys a module body and a requiring program write.
-/
import SteelVerif.C14.LemmasInst
namespace SteelVerif.C14

theorem lookup_foldl_cons {α : Type} (key : Name) (f : α → Name × Val) :
    ∀ (l : List α) (t : List (Name × Val)), (∀ a ∈ l, (f a).1 ≠ key) →
      (l.foldl (fun t a => f a :: t) t).lookup key = t.lookup key := by
  intro l
  induction l with
  | nil => intro t _; rfl
  | cons a l ih =>
    intro t h
    simp only [List.foldl_cons]
    rw [ih _ (fun x hx => h x (by simp [hx]))]
    have hne := h a (by simp)
    have : (key == (f a).1) = false := by simpa using fun e => hne e.symm
    rw [show f a = ((f a).1, (f a).2) from rfl, List.lookup_cons, this]

/-- The keys of the global table that the body of module `k` defines, given its imports. -/
def moduleWrites (fixC : Bool) (k : Nat) (m : Module) (imps : List (Name × Export)) : List Name :=
  let globals := mGlobals fixC m imps
  (imps.map fun i => if i.2.cform then keyOf k globals i.1 else mangle k i.1) ++ m.defs.map (mangle k)

theorem runModule_tbl (fix : Fix) (g : Graph) (st st' : MState) (k : Nat)
    (h : runModule fix g st k = some st') :
    ∃ imps, mImports fix.compose st.hashes (g.mod k).reqs = some imps ∧
      ∀ key, key ∉ moduleWrites fix.contractImports k (g.mod k) imps →
        st'.tbl.lookup key = st.tbl.lookup key := by
  unfold runModule at h
  simp only at h
  cases hi : mImports fix.compose st.hashes (g.mod k).reqs with
  | none => simp [hi] at h
  | some imps =>
    simp only [hi, Option.some.injEq] at h
    refine ⟨imps, rfl, ?_⟩
    intro key hkey
    subst h
    simp only
    simp only [moduleWrites, List.mem_append, List.mem_map, not_or, not_exists, not_and] at hkey
    rw [lookup_foldl_cons key (fun d => (mangle k d, (⟨.mod k, d, false⟩ : Val)))]
    · rw [lookup_foldl_cons key (fun i : Name × Export =>
          ((if i.2.cform then keyOf k (mGlobals fix.contractImports (g.mod k) imps) i.1 else mangle k i.1),
            i.2.val))]
      intro i hi' e
      exact hkey.1 i hi' e
    · intro d hd e
      exact hkey.2 d hd e

/-- With `contract/out` imports mangled under their bound name (the code since 1587f6f5) every key a
module body defines is one of its own mangled names. -/
theorem moduleWrites_mangled (k : Nat) (m : Module) (imps : List (Name × Export)) :
    ∀ key ∈ moduleWrites true k m imps, ∃ n, key = mangle k n := by
  intro key hkey
  simp only [moduleWrites, List.mem_append, List.mem_map] at hkey
  rcases hkey with ⟨i, hi, rfl⟩ | ⟨d, _, rfl⟩
  · split
    · refine ⟨i.1, ?_⟩
      unfold keyOf
      rw [if_pos]
      simp only [mGlobals, List.mem_append, List.mem_map]
      exact Or.inr ⟨i, hi, by simp⟩
    · exact ⟨i.1, rfl⟩
  · exact ⟨d, rfl⟩

theorem lookup_foldl_cons_mem {α : Type} (key : Name) (f : α → Name × Val) (v : Val) :
    ∀ (l : List α) (t : List (Name × Val)), (∃ a ∈ l, (f a).1 = key) →
      (∀ a ∈ l, (f a).1 = key → (f a).2 = v) →
      (l.foldl (fun t a => f a :: t) t).lookup key = some v := by
  intro l
  induction l with
  | nil => intro t h; simp at h
  | cons a l ih =>
    intro t hex hall
    simp only [List.foldl_cons]
    by_cases h : ∃ a' ∈ l, (f a').1 = key
    · exact ih _ h (fun x hx => hall x (by simp [hx]))
    · have ha : (f a).1 = key := by
        obtain ⟨x, hx, hk⟩ := hex
        rcases List.mem_cons.mp hx with e | e
        · subst e; exact hk
        · exact absurd ⟨x, e, hk⟩ h
      rw [lookup_foldl_cons key f l _ (fun x hx e => h ⟨x, hx, e⟩)]
      rw [show f a = ((f a).1, (f a).2) from rfl, List.lookup_cons, ha]
      simp [hall a (by simp) ha]

/-- Inside the module a definition is the definition itself: no contract is attached. -/
theorem runModule_own_defs (fix : Fix) (g : Graph) (st st' : MState) (k : Nat)
    (h : runModule fix g st k = some st') :
    ∀ d ∈ (g.mod k).defs, st'.tbl.lookup (mangle k d) = some ⟨.mod k, d, false⟩ := by
  intro d hd
  unfold runModule at h
  simp only at h
  cases hi : mImports fix.compose st.hashes (g.mod k).reqs with
  | none => simp [hi] at h
  | some imps =>
    simp only [hi, Option.some.injEq] at h
    subst h
    simp only
    apply lookup_foldl_cons_mem (mangle k d) (fun d' => (mangle k d', (⟨.mod k, d', false⟩ : Val)))
    · exact ⟨d, hd, rfl⟩
    · intro d' _ e
      have := (mangle_inj e).2
      subst this
      rfl

theorem lookup_cons_self {β : Type} (k : Nat) (v : β) (l : List (Nat × β)) :
    List.lookup k ((k, v) :: l) = some v := by
  simp [List.lookup_cons]

/-- What the module hands out: an entry per `provide`, and every `contract/out` entry carries the contract. -/
theorem runModule_hash (fix : Fix) (g : Graph) (st st' : MState) (k : Nat)
    (h : runModule fix g st k = some st') :
    ∃ hash, st'.hashes.lookup k = some hash ∧
      ∀ e ∈ hash, ∃ p ∈ (g.mod k).provs, p.name = e.name ∧ e.cform = p.contract ∧
        (p.contract = true → e.val.contracted = true) := by
  unfold runModule at h
  simp only at h
  cases hi : mImports fix.compose st.hashes (g.mod k).reqs with
  | none => simp [hi] at h
  | some imps =>
    simp only [hi, Option.some.injEq] at h
    subst h
    simp only
    refine ⟨_, lookup_cons_self k _ _, ?_⟩
    intro e he
    rw [List.mem_filterMap] at he
    obtain ⟨p, hp, hv⟩ := he
    obtain ⟨v, _, rfl⟩ := Option.map_eq_some_iff.mp hv
    exact ⟨p, hp, rfl, rfl, fun hc => by simp [hc]⟩

end SteelVerif.C14
