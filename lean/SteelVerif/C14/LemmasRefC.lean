/-
C14 — lemmas for the whole-request refinement, part C: one evaluation request on the flat machine M against
the same request on the per-module environments S (simulation relation `Rel`), and whole runs.
-/
import SteelVerif.C14.LemmasRefB
namespace SteelVerif.C14

/-- The simulation relation between the flat machine and S. -/
structure Rel (g : Graph) (ms : List SMod) (M : MState) (S : SState) : Prop where
  kinv : KInv g M.im
  inst : ∀ k, k ∈ M.im.inst ↔ k ∈ S.inst
  nreq : M.nreq = S.nreq
  top : ∀ n, SourceIdent n → M.tbl.lookup n = S.top.lookup n
  mods : ∀ k ∈ M.im.inst, ModOK ms M k
  views : ∀ k ∈ M.im.inst, M.views.lookup k = some (sView g ms k)
  rex : ∀ e ∈ M.rex, e.2 = []
  leaks : ∀ e ∈ M.leaks, e.2 = []

theorem ModOK.of_eq {ms : List SMod} {st st' : MState} {k : Nat} (hg : st'.globs = st.globs)
    (hh : st'.hashes = st.hashes) (ht : ∀ n, st'.tbl.lookup (mangle k n) = st.tbl.lookup (mangle k n))
    (h : ModOK ms st k) : ModOK ms st' k :=
  ⟨by rw [hg]; exact h.globs, fun n hn => by rw [ht n]; exact h.tbl n hn, by rw [hh]; exact h.hash⟩

theorem mangle_ne_src (i : Nat) (n s : Name) (hs : SourceIdent s) : mangle i n ≠ s := by
  intro e
  exact hs (e ▸ mangle_hashhash i n)

theorem specOK_some {c : Bool} {ms : List SMod} {s : Spec} (h : specOK c ms s = true) :
    ∃ l, s.importsS (sExports ms) = some l := by
  cases c with
  | true => simp only [specOK, if_true] at h; exact Option.isSome_iff_exists.mp h
  | false =>
    have h' : s.canonical2 (expNames ms) = true := by simpa [specOK] using h
    obtain ⟨l, hl, _⟩ := bind_same (sExports ms) s h'
    exact ⟨l, hl⟩

theorem guard_all {c : Bool} {g : Graph} (hg : graphGuard c g = true) :
    g.wf = true ∧ ∀ k, modGuard c g (sBuild g) k = true := by
  simp only [graphGuard, Bool.and_eq_true, List.all_eq_true, List.mem_range] at hg
  refine ⟨hg.1, fun k => ?_⟩
  by_cases hk : k < g.length
  · exact hg.2 k hk
  · have : g.mod k = ⟨[], [], [], []⟩ := by
      simp [Graph.mod, List.getD_eq_getElem?_getD, List.getElem?_eq_none (by omega : g.length ≤ k)]
    simp [modGuard, this]

/-! ## the instantiation machine on a request that is not made to fail -/

theorem evalRequestI_run {g : Graph} (hwf : g.wf = true) (st : IM) (specs : List Spec) (mode : Mode)
    (hm : mode = .ok ∨ mode = .failRuntime) (hlt : ∀ s ∈ specs, s.target < g.length) (h : KInv g st) :
    ∃ v : VS, evalRequestI true g st specs mode false =
        (⟨v.compiled, v.fmeta, st.inst ++ v.emitted⟩,
          (if mode = .failRuntime then .errRuntime else .ok), v.emitted) ∧
      Ordered g st.inst [] v.emitted ∧ (∀ x ∈ v.emitted, x ∉ st.inst) ∧
      (∀ x ∈ v.emitted, x ∈ (specs.map Spec.target).flatMap g.deps) := by
  have hv0 : VInv g st.inst ⟨st.compiled, st.fmeta, []⟩ :=
    ⟨fun x hx => (h.im x (h.ci x hx)).1, fun x hx => Or.inl (h.ci x hx), by simp,
      fun x hx => (h.im x hx).2, fun x hx t ht => (h.im t (h.cl x (h.ci x hx) t ht)).2, by simp, by simp,
      trivial⟩
  obtain ⟨hv, hts⟩ := visitAll_vinv hwf st.inst (specs.map Spec.target) _ hv0
    (fun t ht => by obtain ⟨s, hs, rfl⟩ := List.mem_map.mp ht; exact hlt s hs)
  have hmiss : missingHash g st.inst
      (visitAll g (specs.map Spec.target) ⟨st.compiled, st.fmeta, []⟩).emitted specs = false := by
    unfold missingHash
    rw [missingBefore_false g st.inst _ [] hv.ord, Bool.false_or, List.any_eq_false]
    intro t ht
    have := hv.ce t (hts t (hashRefs_sub g specs t ht))
    simp only [decide_eq_true_eq]
    rcases this with e | e
    · exact fun hh => hh.1 e
    · exact fun hh => hh.2 e
  refine ⟨visitAll g (specs.map Spec.target) ⟨st.compiled, st.fmeta, []⟩, ?_, hv.ord, hv.dj, ?_⟩
  · rw [evalRequestI_eq]
    simp only [hmiss]
    rcases hm with rfl | rfl <;> simp
  · intro x hx
    have := foldl_emitted_sub g g.length (visit_emitted_sub g g.length) (specs.map Spec.target)
      ⟨st.compiled, st.fmeta, []⟩ x hx
    simpa [Graph.deps] using this

/-! ## views and clashes -/

theorem resolveView_eq {g : Graph} (ms : List SMod) (scratch : MState) (tbl2 : List (Name × Val)) (k : Nat)
    (hok : ModOK ms scratch k)
    (hclosed : ∀ n ∈ (g.mod k).views, ((senv ms k).lookup n).isSome = true)
    (htbl : ∀ n, tbl2.lookup (mangle k n) = scratch.tbl.lookup (mangle k n)) :
    resolveView g scratch tbl2 k = sView g ms k := by
  obtain ⟨G, hG, hGm⟩ := hok.globs
  unfold resolveView sView
  simp only [hG, Option.getD_some]
  apply List.map_congr_left
  intro v hv
  have hs := hclosed v hv
  simp only [keyOf, (hGm v).mpr hs, if_true, htbl, hok.tbl v hs]
  rfl

theorem sView_all_some {g : Graph} (ms : List SMod) (k : Nat)
    (hclosed : ∀ n ∈ (g.mod k).views, ((senv ms k).lookup n).isSome = true) :
    (sView g ms k).all (·.2.isSome) = true := by
  simp only [sView, List.all_eq_true, List.mem_map]
  rintro _ ⟨v, hv, rfl⟩
  exact hclosed v hv

theorem lookup_mem_nat {β : Type} : ∀ (l : List (Nat × β)) (k : Nat) (v : β), l.lookup k = some v → (k, v) ∈ l := by
  intro l
  induction l with
  | nil => intro k v h; simp at h
  | cons x xs ih =>
    intro k v h
    obtain ⟨k', v'⟩ := x
    rw [List.lookup_cons] at h
    by_cases e : k = k'
    · subst e; simp at h; subst h; simp
    · have : (k == k') = false := by simpa using e
      simp only [this] at h
      exact List.mem_cons_of_mem _ (ih k v h)

theorem clashes_false (st : MState) (hrex : ∀ e ∈ st.rex, e.2 = []) (em : List Nat) (names : List Name) :
    clashes st em names = false := by
  unfold clashes
  induction em with
  | nil => rfl
  | cons k rest ih =>
    unfold clashes.go
    rw [ih, Bool.or_false]
    cases hl : st.rex.lookup k with
    | none => simp
    | some l =>
      have := hrex _ (lookup_mem_nat st.rex k l hl)
      simp only at this
      subst this
      simp

theorem lookup_map_self {β : Type} (f : Nat → β) : ∀ (l : List Nat) (k : Nat), k ∈ l →
    (l.map fun k => (k, f k)).lookup k = some (f k) := by
  intro l
  induction l with
  | nil => intro k h; simp at h
  | cons x xs ih =>
    intro k h
    simp only [List.map_cons, List.lookup_cons]
    by_cases e : k = x
    · subst e; simp
    · have : (k == x) = false := by simpa using e
      simp only [this]
      exact ih k ((List.mem_cons.mp h).resolve_left e)

theorem lookup_map_none {β : Type} (f : Nat → β) : ∀ (l : List Nat) (k : Nat), k ∉ l →
    (l.map fun k => (k, f k)).lookup k = none := by
  intro l
  induction l with
  | nil => intro k _; rfl
  | cons x xs ih =>
    intro k h
    simp only [List.mem_cons, not_or] at h
    simp only [List.map_cons, List.lookup_cons]
    have : (k == x) = false := by simpa using h.1
    simp only [this]
    exact ih k h.2

theorem all_congr_mem {α : Type} (f f' : α → Bool) : ∀ (l : List α), (∀ a ∈ l, f a = f' a) → l.all f = l.all f' := by
  intro l
  induction l with
  | nil => intro _; rfl
  | cons a l ih =>
    intro h
    simp only [List.all_cons, h a (by simp), ih fun x hx => h x (by simp [hx])]

/-! ## one request -/

theorem evalRequest_refines {g : Graph} (fix : Fix) (hfixr : fix.rollback = true)
    (hfixci : fix.contractImports = true) (hg : graphGuard fix.compose g = true) (M : MState) (S : SState)
    (r : Request) (hr : reqGuard fix.compose g (sBuild g) r = true) (hrel : Rel g (sBuild g) M S) :
    (evalRequestM fix g M r).2 = (evalRequestS g (sBuild g) S r).2 ∧
    Rel g (sBuild g) (evalRequestM fix g M r).1 (evalRequestS g (sBuild g) S r).1 := by
  obtain ⟨hwf, hG⟩ := guard_all hg
  simp only [reqGuard, Bool.and_eq_true, List.all_eq_true, decide_eq_true_eq, List.mem_append] at hr
  obtain ⟨hspecs, hsrc⟩ := hr
  have hlt : ∀ s ∈ r.specs, s.target < g.length := fun s hs => (hspecs s hs).1
  have hcan : ∀ s ∈ r.specs, specOK fix.compose (sBuild g) s = true := fun s hs => (hspecs s hs).2
  by_cases hfc : r.mode = .failCompile
  · have hI : evalRequestI true g M.im r.specs .failCompile = (M.im, .errSyntax, []) := by
      rw [evalRequestI_eq]; simp
    unfold evalRequestM evalRequestS
    simp only [hfc, hfixr, hI]
    simp only [true_or, if_true]
    exact ⟨trivial, hrel.kinv, hrel.inst, by simp [hrel.nreq], hrel.top,
      fun k hk => ModOK.of_eq (st := M) rfl rfl (fun _ => rfl) (hrel.mods k hk), hrel.views, hrel.rex,
      hrel.leaks⟩
  by_cases hfb : r.mode = .failBuild
  · have hI : evalRequestI true g M.im r.specs .failBuild = (M.im, .errFreeId, []) := by
      rw [evalRequestI_eq]; simp
    unfold evalRequestM evalRequestS
    simp only [hfb, hfixr, hI]
    simp only [or_true, if_true, reduceCtorEq, if_false]
    exact ⟨trivial, hrel.kinv, hrel.inst, by simp [hrel.nreq], hrel.top,
      fun k hk => ModOK.of_eq (st := M) rfl rfl (fun _ => rfl) (hrel.mods k hk), hrel.views, hrel.rex,
      hrel.leaks⟩
  have hm : r.mode = .ok ∨ r.mode = .failRuntime := by
    cases hmode : r.mode <;> simp_all
  -- the instantiation machine
  obtain ⟨v, hI, hord, hdj, hneeds⟩ := evalRequestI_run hwf M.im r.specs r.mode hm hlt hrel.kinv
  have hk := evalRequestI_kinv hwf true M.im r.specs r.mode (Or.inl rfl) hlt hrel.kinv
  rw [hI] at hk
  obtain ⟨hkinv', htg⟩ := hk
  have htg := (htg hm).1
  simp only at hkinv' htg
  -- the module bodies
  obtain ⟨scratch, hrun, hok, hf⟩ := runModules_ok hwf fix hfixci M.im.inst hG v.emitted [] M hord
    (fun x hx => hrel.mods x (hx.resolve_right (by simp)))
  have hok' : ∀ x ∈ M.im.inst ++ v.emitted, ModOK (sBuild g) scratch x := by
    intro x hx
    rcases List.mem_append.mp hx with e | e
    · exact hok x (Or.inl e)
    · exact hok x (Or.inr (Or.inr e))
  -- the program's imports
  obtain ⟨imps, himps, hrev, hall⟩ := imports_agree fix.compose (sBuild g) scratch.hashes r.specs
    (fun s hs => (hok' s.target (htg s hs)).hash) hcan
  have hkeys : ∀ i ∈ imps, SourceIdent i.1 := by
    intro i hi
    apply hsrc i.1
    refine Or.inl (Or.inl ((hrev.keys i.1).mp ?_))
    simp only [List.map_map]
    exact List.mem_map.mpr ⟨i, hi, rfl⟩
  have htbl2 : ∀ k n, (r.defs.foldl (fun t d => (d, (⟨.top M.nreq, d, false⟩ : Val)) :: t)
      (imps.foldl (fun t i => (i.1, i.2.val) :: t) scratch.tbl)).lookup (mangle k n) =
      scratch.tbl.lookup (mangle k n) := by
    intro k n
    rw [lookup_foldl_cons (mangle k n) (fun d => (d, (⟨.top M.nreq, d, false⟩ : Val))),
      lookup_foldl_cons (mangle k n) (fun i : Name × Export => (i.1, i.2.val))]
    · intro i hi e
      exact mangle_ne_src k n i.1 (hkeys i hi) e.symm
    · intro d hd e
      exact mangle_ne_src k n d (hsrc d (Or.inl (Or.inr hd))) e.symm
  have hclosedV : ∀ k, ∀ n ∈ (g.mod k).views, ((senv (sBuild g) k).lookup n).isSome = true := by
    intro k n hn
    have := hG k
    simp only [modGuard, Bool.and_eq_true, List.all_eq_true, List.mem_append] at this
    exact this.2 n (Or.inr hn)
  have hviews : ∀ tbl2 : List (Name × Val),
      (∀ k n, tbl2.lookup (mangle k n) = scratch.tbl.lookup (mangle k n)) →
      v.emitted.map (fun k => (k, resolveView g scratch tbl2 k)) =
        v.emitted.map (fun k => (k, sView g (sBuild g) k)) := by
    intro tbl2 ht
    apply List.map_congr_left
    intro k hk
    rw [resolveView_eq (sBuild g) scratch tbl2 k (hok' k (List.mem_append_right _ hk)) (hclosedV k) (ht k)]
  -- S
  have hallok : ((r.needs g).eraseDups.all fun k => ((sBuild g).getD k ⟨[], [], true⟩).ok) = true := by
    rw [List.all_eq_true]
    intro k _
    have hmg := hG k
    simp only [modGuard, Bool.and_eq_true, List.all_eq_true] at hmg
    have hall' : ∀ s ∈ (g.mod k).reqs, ∃ l, s.importsS (sExports (sBuild g)) = some l :=
      fun s hs => specOK_some (hmg.1 s hs)
    exact (senv_eq hwf k hall').2.2
  -- what the program binds: the same for every source identifier
  have htop : ∀ n, SourceIdent n →
      (r.defs.foldl (fun t d => (d, (⟨.top M.nreq, d, false⟩ : Val)) :: t)
        (imps.foldl (fun t i => (i.1, i.2.val) :: t) scratch.tbl)).lookup n =
      (Env.bindAll ((sImports (sExports (sBuild g)) r.specs).reverse ++ S.top)
        (r.defs.map fun d => (d, (⟨.top S.nreq, d, false⟩ : Val)))).lookup n := by
    intro n hn
    simp only [foldl_cons_eq, Env.bindAll, List.lookup_append]
    have h1 : ((imps.map fun i => (i.1, i.2.val)).reverse).lookup n =
        (sImports (sExports (sBuild g)) r.specs).reverse.lookup n := hrev n
    have h2 : scratch.tbl.lookup n = S.top.lookup n := by
      rw [hf.tbl n (fun k _ n' e => mangle_ne_src k n' n hn e.symm)]
      exact hrel.top n hn
    rw [h1, h2, hrel.nreq]
  have hU : (r.uses.all fun n =>
        ((r.defs.foldl (fun t d => (d, (⟨.top M.nreq, d, false⟩ : Val)) :: t)
          (imps.foldl (fun t i => (i.1, i.2.val) :: t) scratch.tbl)).lookup n).isSome) =
      (r.uses.all fun n =>
        ((Env.bindAll ((sImports (sExports (sBuild g)) r.specs).reverse ++ S.top)
          (r.defs.map fun d => (d, (⟨.top S.nreq, d, false⟩ : Val)))).lookup n).isSome) := by
    apply all_congr_mem
    intro n hn
    rw [htop n (hsrc n (Or.inr hn))]
  have hS : evalRequestS g (sBuild g) S r =
      if !(r.uses.all fun n =>
        ((Env.bindAll ((sImports (sExports (sBuild g)) r.specs).reverse ++ S.top)
          (r.defs.map fun d => (d, (⟨.top S.nreq, d, false⟩ : Val)))).lookup n).isSome) then
        ({ S with nreq := S.nreq + 1 }, .errFreeId)
      else
      (⟨Env.bindAll ((sImports (sExports (sBuild g)) r.specs).reverse ++ S.top)
          (r.defs.map fun d => (d, (⟨.top S.nreq, d, false⟩ : Val))),
        S.inst ++ (r.needs g).eraseDups.filter (· ∉ S.inst), S.nreq + 1⟩,
        if r.mode = .failRuntime then .errRuntime else .ok) := by
    unfold evalRequestS
    simp only [hfc, hfb, if_false, sFoldReq (sExports (sBuild g)) r.specs S.top hall, hallok]
  obtain ⟨st0, hst0, hne1, hne2⟩ : ∃ st0, (if r.mode = .failRuntime then Status.errRuntime else Status.ok) = st0 ∧
      st0 ≠ .errSyntax ∧ st0 ≠ .errFreeId := by
    rcases hm with e | e <;> simp [e]
  have hIx : evalRequestI true g M.im r.specs r.mode true = (M.im, .errFreeId, []) := by
    rw [evalRequestI_eq]; simp [hfc]
  rw [hst0] at hI hS
  rw [hS]
  -- M
  have hvall : ((v.emitted.map fun k => (k, sView g (sBuild g) k)).all fun kv => kv.2.all (·.2.isSome)) = true := by
    simp only [List.all_eq_true, List.mem_map]
    rintro _ ⟨k, _, rfl⟩
    exact List.all_eq_true.mp (sView_all_some (sBuild g) k (hclosedV k))
  unfold evalRequestM
  simp only [hfixr, hI, hrun, himps]
  rw [hviews _ htbl2, hU]
  by_cases hu' : (r.uses.all fun n =>
        ((Env.bindAll ((sImports (sExports (sBuild g)) r.specs).reverse ++ S.top)
          (r.defs.map fun d => (d, (⟨.top S.nreq, d, false⟩ : Val)))).lookup n).isSome) = false
  · -- the program refers to an unbound name: both reject it, nothing changes
    simp only [hne1, hne2, or_self, if_false, hvall, hu', Bool.and_false, Bool.not_false, if_true, hIx]
    exact ⟨trivial, hrel.kinv, hrel.inst, by simp [hrel.nreq], hrel.top,
      fun k hk => ModOK.of_eq (st := M) rfl rfl (fun _ => rfl) (hrel.mods k hk), hrel.views, hrel.rex,
      hrel.leaks⟩
  have hu : (r.uses.all fun n =>
        ((Env.bindAll ((sImports (sExports (sBuild g)) r.specs).reverse ++ S.top)
          (r.defs.map fun d => (d, (⟨.top S.nreq, d, false⟩ : Val)))).lookup n).isSome) = true := by
    simpa using hu'
  simp only [hne1, hne2, or_self, if_false, hvall, hu, Bool.and_self, Bool.not_true, Bool.false_eq_true,
    clashes_false scratch (hf.rex hrel.rex)]
  refine ⟨trivial, hkinv', ?_, by simp [hrel.nreq], ?_, ?_, ?_, hf.rex hrel.rex, hf.leaks hrel.leaks⟩
  · -- inst
    intro k
    simp only [List.mem_append, List.mem_filter, List.mem_eraseDups, decide_eq_true_eq]
    constructor
    · rintro (e | e)
      · exact Or.inl ((hrel.inst k).mp e)
      · exact Or.inr ⟨hneeds k e, fun hS' => hdj k e ((hrel.inst k).mpr hS')⟩
    · rintro (e | ⟨e, _⟩)
      · exact Or.inl ((hrel.inst k).mpr e)
      · simp only [Request.needs, List.mem_flatMap, List.mem_map] at e
        obtain ⟨t, ⟨s, hs, rfl⟩, hkd⟩ := e
        exact List.mem_append.mp
          (deps_closed g _ hkinv'.cl g.length s.target (htg s hs) k hkd)
  · -- top
    exact htop
  · -- mods
    intro k hk
    exact ModOK.of_eq (st := scratch) rfl rfl (htbl2 k) (hok' k hk)
  · -- views
    intro k hk
    simp only [List.lookup_append]
    rcases List.mem_append.mp hk with e | e
    · have hne : k ∉ v.emitted := fun h' => hdj k h' e
      rw [lookup_map_none _ _ _ hne, hf.views]
      simpa using hrel.views k e
    · rw [lookup_map_self _ _ _ e]
      rfl

/-! ## whole runs -/

theorem rel_init (g : Graph) (ms : List SMod) : Rel g ms {} {} :=
  ⟨kinv_init g, by simp, rfl, fun _ _ => rfl, by simp, by simp, by simp, by simp⟩

theorem run_refines {g : Graph} (fix : Fix) (hfixr : fix.rollback = true) (hfixci : fix.contractImports = true)
    (hg : graphGuard fix.compose g = true) : ∀ (reqs : List Request) (M : MState) (S : SState),
    (∀ r ∈ reqs, reqGuard fix.compose g (sBuild g) r = true) → Rel g (sBuild g) M S →
    (runM fix g M reqs).2 = (runS g (sBuild g) S reqs).2 ∧
      Rel g (sBuild g) (runM fix g M reqs).1 (runS g (sBuild g) S reqs).1 := by
  intro reqs
  induction reqs with
  | nil => intro M S _ h; exact ⟨rfl, h⟩
  | cons r rest ih =>
    intro M S hr h
    have step := evalRequest_refines fix hfixr hfixci hg M S r (hr r (by simp)) h
    cases h1 : evalRequestM fix g M r with
    | mk M1 s1 =>
      cases h2 : evalRequestS g (sBuild g) S r with
      | mk S1 t1 =>
        rw [h1, h2] at step
        have hrec := ih M1 S1 (fun x hx => hr x (by simp [hx])) step.2
        cases h3 : runM fix g M1 rest with
        | mk M2 ss =>
          cases h4 : runS g (sBuild g) S1 rest with
          | mk S2 ts =>
            rw [h3, h4] at hrec
            simp only [runM, runS, h1, h2, h3, h4]
            simp only at step hrec
            exact ⟨by rw [step.1, hrec.1], hrec.2⟩

end SteelVerif.C14
