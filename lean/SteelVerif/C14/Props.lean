/-
C14 — property theorems: modules expose exactly what they provide and are instantiated once.

Models: `Model.lean` (§1–§5, §8), `Contract.lean` (§6), `Prune.lean` (§7), `Macros.lean` (§9).  All theorems quantify over every module id / name, every require spec (any nesting
of `only-in` / `prefix-in`), every acyclic module graph (modules listed in dependency order) and every
sequence of evaluation requests, failing ones included; nothing is bounded.
-/
import SteelVerif.C14.LemmasRefC
import SteelVerif.C14.GenConsts
import SteelVerif.C14.LemmasContract
import SteelVerif.C14.Prune
import SteelVerif.C14.Macros
namespace SteelVerif.C14

/-! ## 0. What the model takes from the source (regenerated from /repo on every run) -/

/-- The strings `mangle` is built from are the code's `MANGLER_PREFIX` / `MANGLER_SEPARATOR`, the
module prefix is `prefix ++ id ++ separator` and is prepended by the mangler, and the key of a file
module — what "the same module" means for the compiled-module table, the metadata and the mangling id —
is its canonical path (`try_canonicalize` = `fs::canonicalize`, applied to every require path and every
module name).  The model identifies a module by its number `k` on exactly that ground: all spellings of
a path to one file are one module. -/
theorem model_constants_match_source :
    Gen.manglerPrefix = manglerPrefix ∧ Gen.manglerSeparator = manglerSeparator ∧
    Gen.prefixIsPrefixIdSeparator = true ∧ Gen.keyIsCanonicalPath = true := by decide

/-! ## 1. Name mangling -/

/-- **The mangled name determines the module and the name** — for all ids and all names, including
names that contain digits, `_`, or the separator itself (the digit run after `##mm` is maximal because
the separator starts with `_`). -/
theorem mangle_injective {i j : Nat} {n m : Name} : mangle i n = mangle j m → i = j ∧ n = m :=
  mangle_inj

/-- A mangled name begins with `##`; so it is none of the identifiers that do not (`SourceIdent`: the
reader rejects a bare identifier that begins with `##` — checked on the real reader by the harness;
it does *not* hold for `|…|`-escaped identifiers, finding K14d). -/
theorem mangle_not_user_writable (i : Nat) (n s : Name) (hs : SourceIdent s) : mangle i n ≠ s := by
  intro e
  exact hs (e ▸ mangle_hashhash i n)

/-- Private (and all other) names of different modules never collide, whatever the names are; nor do
two names of one module. -/
theorem privates_disjoint {i j : Nat} (n m : Name) (h : i ≠ j) : mangle i n ≠ mangle j m :=
  fun e => h (mangle_inj e).1

theorem privates_distinct (i : Nat) {n m : Name} (h : n ≠ m) : mangle i n ≠ mangle i m :=
  fun e => h (mangle_inj e).2

/-- Non-vacuity / tie to the code's constants: module 5358, private `p`. -/
example : mangle 5358 ['p'] = "##mm5358__%#__p".toList := by decide
example : SourceIdent ['q', '.', 'f'] := by decide
/-- K14d: the escaped identifier `|##mm1__%#__p|` denotes a name outside `SourceIdent`. -/
example : ¬ SourceIdent (mangle 1 ['p']) := by decide

/-! ## 2. Require modifiers -/

/-- `parse_require_object_inner`: the flat form of any spec is its path, all `only-in` entries (inner
lists first) and all prefixes concatenated outermost first. -/
theorem flatten_is (s : Spec) : s.flatten = ⟨s.target, s.ids, s.prefixes⟩ := flatten_eq s

theorem prefixes_concatenate_outer_first (p q : Name) (s : Spec) :
    (Spec.prefixIn p (Spec.prefixIn q s)).flatten.pfx = p ++ (q ++ s.flatten.pfx) := by
  simp [flatten_eq, Spec.prefixes]

/-- **A name is bound in the requirer iff the module provides a name that survives the filter, and it
is bound under prefix ++ (alias or name).**  For every spec and every provide list. -/
theorem visible_iff_provided {β : Type} (s : Spec) (ex : List (Name × β)) (v : Name) :
    (∃ n b, (v, n, b) ∈ s.flatten.importsM ex) ↔
      ∃ n b, (n, b) ∈ ex ∧
        ((s.ids = [] ∧ v = s.prefixes ++ n) ∨
         (s.ids ≠ [] ∧ ∃ a, lookupLast s.ids n = some a ∧ v = s.prefixes ++ a.getD n)) := by
  simp only [mem_importsM, rename_eq_some, flatten_eq]

/-- The same, on a module graph: module `k` sees `v` as the name `n` of module `t` iff one of its
requires targets `t`, `t` provides `n`, and `n` survives that require's modifiers under the name `v`. -/
theorem visible_iff_provided_graph (g : Graph) (k t : Nat) (v n : Name) :
    (v, (t, n)) ∈ visible g k ↔
      ∃ s ∈ (g.mod k).reqs, s.target = t ∧ n ∈ g.provNames t ∧
        ((s.ids = [] ∧ v = s.prefixes ++ n) ∨
         (s.ids ≠ [] ∧ ∃ a, lookupLast s.ids n = some a ∧ v = s.prefixes ++ a.getD n)) := by
  unfold visible
  simp only [List.mem_flatMap, List.mem_map]
  constructor
  · rintro ⟨r, ⟨s, hs, rfl⟩, ⟨v', n', u⟩, hmem, he⟩
    simp only [Prod.mk.injEq] at he
    obtain ⟨rfl, rfl, rfl⟩ := he
    rw [mem_importsM, rename_eq_some] at hmem
    obtain ⟨hp, hr⟩ := hmem
    refine ⟨s, hs, by simp [flatten_eq], ?_, by simpa [flatten_eq] using hr⟩
    obtain ⟨x, hx, hxe⟩ := List.mem_map.mp hp
    simp only [Prod.mk.injEq] at hxe
    rw [← hxe.1]; simpa [flatten_eq] using hx
  · rintro ⟨s, hs, rfl, hn, hr⟩
    refine ⟨s.flatten, ⟨s, hs, rfl⟩, (v, n, ()), ?_, by simp [flatten_eq]⟩
    rw [mem_importsM, rename_eq_some]
    refine ⟨List.mem_map.mpr ⟨n, by simpa [flatten_eq] using hn, rfl⟩, by simpa [flatten_eq] using hr⟩

/-- Non-vacuity of `visible_iff_provided_graph`: module 2 requires module 0 under a prefix with an `only-in`
that renames, and module 1 plainly; module 0's private `p` and unlisted `y` are not visible. -/
example :
    let g : Graph :=
      [⟨[['x'], ['y'], ['p']], [⟨['x'], false⟩, ⟨['y'], true⟩], [], []⟩,
       ⟨[['x']], [⟨['x'], false⟩], [], []⟩,
       ⟨[], [], [.prefixIn ['a', '.'] (.onlyIn (.path 0) [(['x'], some ['z'])]), .path 1], []⟩]
    visible g 2 = [(['a', '.', 'z'], (0, ['x'])), (['x'], (1, ['x']))] := by decide

/-- The binding refers to the provided definition it was generated from (`(%proto-hash-get% … 'n)`). -/
theorem import_refers_to_provided {β : Type} (r : Req) (ex : List (Name × β)) (v n : Name) (b : β) :
    (v, n, b) ∈ r.importsM ex → (n, b) ∈ ex := fun h => ((mem_importsM r ex v n b).mp h).1

/-- A provided name that an `only-in` does not list is not bound (using it is a free identifier:
`tests/failure/require_only_in_missing_identifier.scm`). -/
theorem only_in_missing_is_error {β : Type} (s : Spec) (ex : List (Name × β)) (n : Name)
    (hne : s.ids ≠ []) (hn : n ∉ s.ids.map (·.1)) : ∀ v b, (v, n, b) ∉ s.flatten.importsM ex := by
  intro v b h
  rw [mem_importsM, rename_eq_some, flatten_eq] at h
  rcases h.2 with ⟨he, _⟩ | ⟨_, a, ha, _⟩
  · exact hne he
  · rw [lookupLast_none _ _ hn] at ha
    exact absurd ha (by simp)

/-- Non-vacuity of `only_in_missing_is_error`: `(only-in "m0" x)` with `m0` providing `x`, `y`: `y` is not
bound under any name (while `x` is). -/
example : ∀ v b, (v, ['y'], b) ∉ (Spec.onlyIn (.path 0) [(['x'], none)]).flatten.importsM [(['x'], 1), (['y'], 2)] :=
  only_in_missing_is_error _ _ _ (by decide) (by decide)

example : (Spec.onlyIn (.path 0) [(['x'], none)]).flatten.importsM [(['x'], 1), (['y'], 2)]
    = [(['x'], ['x'], 1)] := by decide

/-- S: an `only-in` that names an identifier the inner spec does not offer is ill-formed … -/
theorem only_in_unknown_is_error_S {β : Type} (ex : Nat → List (Name × β)) (s : Spec)
    (ids : List (Name × Option Name)) (inner : List (Name × β)) (hs : s.importsS ex = some inner)
    (h : ∃ ia ∈ ids, inner.lookup ia.1 = none) : (Spec.onlyIn s ids).importsS ex = none := by
  obtain ⟨ia, hia, hl⟩ := h
  simp only [Spec.importsS, hs]
  exact mapOpt_none _ _ ⟨ia, hia, by simp [hl]⟩

/-- … while the code ignores it (part of finding K14c): `(only-in "m0" nope x)`. -/
theorem only_in_unknown_ignored_M :
    (Spec.onlyIn (.path 0) [(['n', 'o', 'p', 'e'], none), (['x'], none)]).flatten.importsM [(['x'], ())]
      = [(['x'], ['x'], ())] ∧
    (Spec.onlyIn (.path 0) [(['n', 'o', 'p', 'e'], none), (['x'], none)]).importsS
      (fun _ => [(['x'], ())]) = none := by decide

/-- **Flattening = composing** on the documented forms (`prefix-in`s around at most one `only-in` that
sits on the path and lists distinct provided identifiers): the same names are bound to the same
provided definitions. -/
theorem flat_agrees_with_composition {β : Type} (ex : Nat → List (Name × β)) (s : Spec)
    (hc : s.canonical (fun m => (ex m).map (·.1)) = true) (v : Name) (b : β) :
    (∃ n, (v, n, b) ∈ s.flatten.importsM (ex s.target)) ↔ ∃ l, s.importsS ex = some l ∧ (v, b) ∈ l :=
  flat_eq_compositional ex s hc v b

/-- Non-vacuity of `flat_agrees_with_composition`: two prefixes around an `only-in` with a renaming is in the
fragment; both sides bind `b-q.x ↦ 1` and `b-q.ff ↦ 3`. -/
example :
    let ex : Nat → List (Name × Nat) := fun _ => [(['x'], 1), (['y'], 2), (['f'], 3)]
    let s : Spec := .prefixIn ['b', '-'] (.prefixIn ['q', '.'] (.onlyIn (.path 0) [(['x'], none), (['f'], some ['f', 'f'])]))
    s.canonical (fun m => (ex m).map (·.1)) = true ∧
    s.importsS ex = some [(['b', '-', 'q', '.', 'x'], 1), (['b', '-', 'q', '.', 'f', 'f'], 3)] := by decide

example : ∃ l, (Spec.prefixIn ['q', '.'] (.onlyIn (.path 0) [(['f'], some ['g'])])).importsS
      (fun _ => [(['x'], 1), (['f'], 3)]) = some l ∧ ((['q', '.', 'g'], 3) ∈ l) :=
  (flat_agrees_with_composition (fun _ => [(['x'], 1), (['f'], 3)]) _ (by decide) ['q', '.', 'g'] 3).mp
    ⟨['f'], by decide⟩

/-- Outside that fragment they differ (open finding K14c).  With `m0` providing `x`, `y`:
`(only-in (prefix-in a. "m0") x)` binds `a.x` (S: ill-formed), `(only-in "m0")` binds everything
(S: nothing), `(only-in (only-in "m0" x y) x)` binds `x` and `y` (S: `x`). -/
theorem flat_differs_from_composition :
    let ex : Nat → List (Name × Unit) := fun _ => [(['x'], ()), (['y'], ())]
    let bound := fun (s : Spec) => (s.flatten.importsM (ex 0)).map (·.1)
    let boundS := fun (s : Spec) => (s.importsS ex).map (·.map (·.1))
    bound (.onlyIn (.prefixIn ['a', '.'] (.path 0)) [(['x'], none)]) = [['a', '.', 'x']] ∧
    boundS (.onlyIn (.prefixIn ['a', '.'] (.path 0)) [(['x'], none)]) = none ∧
    bound (.onlyIn (.path 0) []) = [['x'], ['y']] ∧
    boundS (.onlyIn (.path 0) []) = some [] ∧
    bound (.onlyIn (.onlyIn (.path 0) [(['x'], none), (['y'], none)]) [(['x'], none)]) = [['x'], ['y']] ∧
    boundS (.onlyIn (.onlyIn (.path 0) [(['x'], none), (['y'], none)]) [(['x'], none)]) = some [['x']] := by
  decide

/-- Non-vacuity: `(prefix-in b- (prefix-in q. (only-in "m0" x (f ff))))` binds `b-q.x`, `b-q.ff`. -/
example :
    ((Spec.prefixIn ['b', '-'] (.prefixIn ['q', '.'] (.onlyIn (.path 0) [(['x'], none), (['f'], some ['f', 'f'])]))).flatten.importsM
      [(['x'], 1), (['y'], 2), (['f'], 3)]) =
    [(['b', '-', 'q', '.', 'x'], ['x'], 1), (['b', '-', 'q', '.', 'f', 'f'], ['f'], 3)] := by decide

/-! ## 3. Instantiation -/

/-- **Every module body is evaluated at most once per engine, and exactly once as soon as a request
that is not made to fail needs it (transitively)** — for every acyclic graph and every sequence of
requests, whichever of them fail at compile time, at build time or at run time.  (`runRequestsI true`
is the code since commit d10f8017: both failure paths restore the module table and the metadata.) -/
theorem instantiated_once (g : Graph) (hwf : g.wf = true) (reqs : List Request)
    (hreq : ∀ r ∈ reqs, r.wfIn g) :
    let st := runRequestsI true g {} reqs
    (∀ k, st.count k ≤ 1) ∧
    (∀ r ∈ reqs, (r.mode = .ok ∨ r.mode = .failRuntime) → ∀ k ∈ r.needs g, st.count k = 1) := by
  intro st
  have hk := run_kinv hwf true reqs {} hreq (Or.inl rfl) (kinv_init g)
  refine ⟨fun k => count_le_one_of_nodup hk.nd k, ?_⟩
  intro r hr hm k hkn
  exact count_eq_one_of_nodup hk.nd (run_needs hwf true reqs {} hreq (Or.inl rfl) (kinv_init g) r hr hm k hkn)

/-- … and nothing else is ever evaluated: a body that ran is needed by a request that got as far as
running (for every graph, acyclic or not, and either roll-back). -/
theorem instantiated_only_if_needed (b : Bool) (g : Graph) (reqs : List Request) (k : Nat)
    (h : 0 < (runRequestsI b g {} reqs).count k) :
    ∃ r ∈ reqs, (r.mode = .ok ∨ r.mode = .failRuntime) ∧ k ∈ r.needs g := by
  have hk : k ∈ (runRequestsI b g {} reqs).inst := List.count_pos_iff.mp h
  rcases run_inst_sub b g reqs {} k hk with e | e
  · simp at e
  · exact e

/-- A program that is not made to fail is never rejected because of what failed before it. -/
theorem good_request_runs (g : Graph) (hwf : g.wf = true) (reqs : List Request)
    (hreq : ∀ r ∈ reqs, r.wfIn g) (r : Request) (hr : r.wfIn g) (hm : r.mode = .ok) :
    (evalRequestI true g (runRequestsI true g {} reqs) r.specs r.mode).2.1 = .ok := by
  have hk := run_kinv hwf true reqs {} hreq (Or.inl rfl) (kinv_init g)
  have := (evalRequestI_kinv hwf true _ r.specs r.mode (Or.inl rfl) hr hk).2 (Or.inl hm)
  simpa [hm] using this.2

/-- The code before d10f8017 (`rollbackBoth = false`), kept as a regression witness: *at most once*
held for every request sequence … -/
theorem instantiated_at_most_once_legacy (g : Graph) (hwf : g.wf = true) (reqs : List Request) :
    ∀ k, (runRequestsI false g {} reqs).count k ≤ 1 := by
  intro k
  have hj := run_jinv hwf false reqs {} ⟨by simp, by simp⟩
  exact count_le_one_of_nodup hj.nd k

/-- … *exactly once* held as long as no request failed when its program was built … -/
theorem instantiated_once_legacy_partial (g : Graph) (hwf : g.wf = true) (reqs : List Request)
    (hreq : ∀ r ∈ reqs, r.wfIn g) (hG : ∀ r ∈ reqs, r.mode ≠ .failBuild) :
    ∀ r ∈ reqs, (r.mode = .ok ∨ r.mode = .failRuntime) →
      ∀ k ∈ r.needs g, (runRequestsI false g {} reqs).count k = 1 := by
  intro r hr hm k hkn
  have hk := run_kinv hwf false reqs {} hreq (Or.inr hG) (kinv_init g)
  exact count_eq_one_of_nodup hk.nd (run_needs hwf false reqs {} hreq (Or.inr hG) (kinv_init g) r hr hm k hkn)

/-- … and failed otherwise (finding K14a, corpus d02): a module without provides, a request that has a
free identifier, then a good request: the body is never evaluated (and the repaired machine does). -/
theorem instantiated_once_legacy_fails :
    let g : Graph := [⟨[['x']], [], [], []⟩]
    let reqs : List Request := [{ specs := [.path 0], mode := .failBuild }, { specs := [.path 0] }]
    g.wf = true ∧ (runRequestsI false g {} reqs).count 0 = 0 ∧ (runRequestsI true g {} reqs).count 0 = 1 := by
  decide

/-- Non-vacuity: a diamond `3 → {1, 2} → 0`; a failing request, the diamond's top, then its parts again
in another order: every body exactly once. -/
theorem example_diamond :
    let m := fun (reqs : List Spec) => (⟨[['x']], [⟨['x'], false⟩], reqs, []⟩ : Module)
    let g : Graph := [m [], m [.path 0], m [.prefixIn ['a', '.'] (.path 0)], m [.path 1, .path 2]]
    let reqs : List Request := [{ specs := [.path 2], mode := .failBuild }, { specs := [.path 3] },
      { specs := [.path 1, .path 0], mode := .failCompile }, { specs := [.path 0, .path 2] }]
    g.wf = true ∧ (runRequestsI true g {} reqs).inst = [0, 1, 2, 3] := by
  decide

/-- The diamond of `example_diamond`, named, for the non-vacuity examples below. -/
def diamond : Graph :=
  let m := fun (reqs : List Spec) => (⟨[['x']], [⟨['x'], false⟩], reqs, []⟩ : Module)
  [m [], m [.path 0], m [.prefixIn ['a', '.'] (.path 0)], m [.path 1, .path 2]]

def diamondReqs : List Request :=
  [{ specs := [.path 2], mode := .failBuild }, { specs := [.path 3] },
   { specs := [.path 1, .path 0], mode := .failCompile }, { specs := [.path 0, .path 2] },
   { specs := [.path 3, .path 3], mode := .failRuntime }]

theorem diamondReqs_wf : ∀ r ∈ diamondReqs, r.wfIn diamond := by
  intro r hr
  simp only [diamondReqs, List.mem_cons, List.mem_nil_iff, or_false] at hr
  rcases hr with rfl | rfl | rfl | rfl | rfl <;> (intro s hs; revert s hs; decide)

/-- Non-vacuity of `instantiated_once`, `instantiated_only_if_needed`, `good_request_runs`: all hypotheses hold
on the diamond with a sequence of five requests of all four modes; the second request (mode `ok`) needs all
four modules. -/
example : (∀ k, (runRequestsI true diamond {} diamondReqs).count k ≤ 1) ∧
    (runRequestsI true diamond {} diamondReqs).count 0 = 1 ∧
    (runRequestsI true diamond {} diamondReqs).count 3 = 1 := by
  obtain ⟨h1, h2⟩ := instantiated_once diamond (by decide) diamondReqs diamondReqs_wf
  refine ⟨h1, ?_, ?_⟩
  · exact h2 { specs := [.path 3] } (by simp [diamondReqs]) (Or.inl rfl) 0 (by decide)
  · exact h2 { specs := [.path 3] } (by simp [diamondReqs]) (Or.inl rfl) 3 (by decide)

example : ∃ r ∈ diamondReqs, (r.mode = .ok ∨ r.mode = .failRuntime) ∧ 2 ∈ r.needs diamond :=
  instantiated_only_if_needed true diamond diamondReqs 2 (by decide)

example : (evalRequestI true diamond (runRequestsI true diamond {} diamondReqs) [.path 3, .path 1] .ok).2.1
    = .ok :=
  good_request_runs diamond (by decide) diamondReqs diamondReqs_wf { specs := [.path 3, .path 1] }
    (by intro s hs; revert s hs; decide) rfl

/-- Non-vacuity of the legacy statements: without a `failBuild` request the old roll-back instantiates exactly
once as well. -/
example : (runRequestsI false diamond {} [{ specs := [.path 1], mode := .failCompile }, { specs := [.path 3] }]).inst
    = [0, 1, 2, 3] := by decide

/-! ## 4. Isolation in the global table -/

/-- **A module body defines only its own mangled names** (the code since 1587f6f5), so it changes
neither a name of another module — even one spelled the same — nor any global a program can write. -/
theorem module_isolation (g : Graph) (st st' : MState) (k : Nat) (fix : Fix)
    (hfix : fix.contractImports = true) (h : runModule fix g st k = some st') :
    (∀ j n, j ≠ k → st'.tbl.lookup (mangle j n) = st.tbl.lookup (mangle j n)) ∧
    (∀ s, SourceIdent s → st'.tbl.lookup s = st.tbl.lookup s) := by
  obtain ⟨imps, _, hkeep⟩ := runModule_tbl fix g st st' k h
  rw [hfix] at hkeep
  constructor
  · intro j n hj
    apply hkeep
    intro hmem
    obtain ⟨n', e⟩ := moduleWrites_mangled k (g.mod k) imps _ hmem
    exact hj (mangle_inj e).1
  · intro s hs
    apply hkeep
    intro hmem
    obtain ⟨n', e⟩ := moduleWrites_mangled k (g.mod k) imps _ hmem
    exact mangle_not_user_writable k n' s hs e.symm

/-- Non-vacuity of `module_isolation`: module 1 defines its own `f` and `p` and imports module 0's
`contract/out` `f` under a prefix, into a table that already holds module 0's `f`, `p` and a program's `q.f`:
those three keys are unchanged (and module 1's own keys are new). -/
def isoGraph : Graph :=
  [⟨[['f'], ['p']], [⟨['f'], true⟩], [], []⟩, ⟨[['f'], ['p']], [⟨['f'], false⟩], [.prefixIn ['q', '.'] (.path 0)], []⟩]

def isoState : Option MState :=
  (runModule {} isoGraph {} 0).map fun st => { st with tbl := (['q', '.', 'f'], ⟨.top 0, ['q', '.', 'f'], false⟩) :: st.tbl }

example : (isoState.bind fun st => (runModule {} isoGraph st 1).map fun st' =>
      (st'.tbl.lookup (mangle 0 ['f']) == st.tbl.lookup (mangle 0 ['f']) &&
       st'.tbl.lookup (mangle 0 ['p']) == st.tbl.lookup (mangle 0 ['p']) &&
       (st.tbl.lookup (mangle 0 ['p'])).isSome &&
       st'.tbl.lookup ['q', '.', 'f'] == st.tbl.lookup ['q', '.', 'f'] &&
       (st.tbl.lookup ['q', '.', 'f']).isSome &&
       (st'.tbl.lookup (mangle 1 ['q', '.', 'f'])).isSome && (st.tbl.lookup (mangle 1 ['q', '.', 'f'])).isNone))
    = some true := by decide

example (st st' : MState) (h : runModule {} isoGraph st 1 = some st') :
    st'.tbl.lookup (mangle 0 ['p']) = st.tbl.lookup (mangle 0 ['p']) ∧
    st'.tbl.lookup ['q', '.', 'f'] = st.tbl.lookup ['q', '.', 'f'] :=
  ⟨(module_isolation isoGraph st st' 1 {} rfl h).1 0 ['p'] (by decide),
   (module_isolation isoGraph st st' 1 {} rfl h).2 _ (by decide)⟩

/-- **The requiring program's own definitions and imports do not touch any module's names**: binding
source identifiers leaves every mangled key as it was. -/
theorem program_isolation (tbl : List (Name × Val)) (binds : List (Name × Val))
    (hsrc : ∀ b ∈ binds, SourceIdent b.1) (j : Nat) (n : Name) :
    (binds.foldl (fun t b => b :: t) tbl).lookup (mangle j n) = tbl.lookup (mangle j n) := by
  apply lookup_foldl_cons (mangle j n) (fun b : Name × Val => b)
  intro b hb e
  exact mangle_not_user_writable j n b.1 (hsrc b hb) e.symm

/-- **Contracts are attached at the module boundary only**: inside the module a definition is bound
to the bare definition; what the module hands out for a `(contract/out name c)` provide carries the
contract (and a plain provide hands out whatever the name is bound to). -/
theorem contract_at_boundary_only (g : Graph) (st st' : MState) (k : Nat) (fix : Fix)
    (h : runModule fix g st k = some st') :
    (∀ d ∈ (g.mod k).defs, st'.tbl.lookup (mangle k d) = some ⟨.mod k, d, false⟩) ∧
    (∃ hash, st'.hashes.lookup k = some hash ∧
      ∀ e ∈ hash, ∃ p ∈ (g.mod k).provs, p.name = e.name ∧ e.cform = p.contract ∧
        (p.contract = true → e.val.contracted = true)) :=
  ⟨runModule_own_defs fix g st st' k h, runModule_hash fix g st st' k h⟩

/-- Non-vacuity of `program_isolation`: a program that defines `p` and imports `q.f` on top of module 0. -/
example : ((isoState.map (·.tbl)).map fun tbl =>
      ([(['p'], (⟨.top 1, ['p'], false⟩ : Val)), (['q', '.', 'f'], ⟨.mod 0, ['f'], true⟩)].foldl
        (fun t b => b :: t) tbl).lookup (mangle 0 ['p']) == tbl.lookup (mangle 0 ['p']) &&
      (tbl.lookup (mangle 0 ['p'])).isSome) = some true := by decide

/-- **… and every provided definition of the module IS handed out, with the contract exactly when the provide
form is `contract/out`** (`contract_at_boundary_only` alone would hold for an empty table): for every
`provide` of a name the module defines, the module's table has the entry for it, bound to the module's own
definition, contracted iff `contract/out`. -/
theorem provided_def_exported (fix : Fix) (g : Graph) (st st' : MState) (k : Nat)
    (h : runModule fix g st k = some st') (p : Provide) (hp : p ∈ (g.mod k).provs)
    (hd : p.name ∈ (g.mod k).defs) :
    ∃ hash, st'.hashes.lookup k = some hash ∧
      (⟨p.name, ⟨.mod k, p.name, p.contract⟩, p.contract⟩ : Export) ∈ hash := by
  unfold runModule at h
  simp only at h
  cases hi : mImports fix.compose st.hashes (g.mod k).reqs with
  | none => simp [hi] at h
  | some imps =>
    simp only [hi, Option.some.injEq] at h
    subst h
    simp only
    refine ⟨_, lookup_cons_self k _ _, ?_⟩
    rw [List.mem_filterMap]
    refine ⟨p, hp, ?_⟩
    have hk : keyOf k (mGlobals fix.contractImports (g.mod k) imps) p.name = mangle k p.name := by
      simp [keyOf, mGlobals, hd]
    rw [hk]
    have hl : ∀ tbl1 : List (Name × Val),
        ((g.mod k).defs.foldl (fun t d => (mangle k d, (⟨.mod k, d, false⟩ : Val)) :: t) tbl1).lookup
          (mangle k p.name) = some ⟨.mod k, p.name, false⟩ := by
      intro tbl1
      apply lookup_foldl_cons_mem (mangle k p.name) (fun d' => (mangle k d', (⟨.mod k, d', false⟩ : Val)))
      · exact ⟨p.name, hd, rfl⟩
      · intro d' _ e
        have := (mangle_inj e).2
        subst this
        rfl
    rw [hl]
    simp

/-- Non-vacuity: `m0` provides `f` through `contract/out`; its own `f` is bare, the exported one is not. -/
example :
    let g : Graph := [⟨[['f']], [⟨['f'], true⟩], [], []⟩]
    (runModule {} g {} 0).map (fun st =>
      (st.tbl.lookup (mangle 0 ['f']), (st.hashes.lookup 0).map (·.map (·.val.contracted)))) =
    some (some ⟨.mod 0, ['f'], false⟩, some [true]) := by decide

/-- Before 1587f6f5 (regression witness, finding K14b, corpus d03): a `contract/out` import under a
prefix was defined as the *global* `q.f`. -/
theorem module_isolation_legacy_fails :
    let g : Graph := [⟨[['f']], [⟨['f'], true⟩], [], []⟩, ⟨[], [], [.prefixIn ['q', '.'] (.path 0)], []⟩]
    let run := fun (fix : Fix) =>
      ((runModule fix g {} 0).bind fun st => runModule fix g st 1).map fun st =>
        (st.tbl.lookup ['q', '.', 'f']).isSome
    run { contractImports := false } = some true ∧ run {} = some false := by
  decide

/-! ## 5. Whole requests: the flat machine refines the per-module environments -/

/-- What the two machines are compared on — what the driver prints and the harness observes on the real
engine: the binding of every identifier a program can write, how often each module body ran, and what the
names inside each instantiated module body resolve to. -/
structure Agree (g : Graph) (ms : List SMod) (M : MState) (S : SState) : Prop where
  obs : ∀ n, SourceIdent n → M.tbl.lookup n = S.top.lookup n
  count : ∀ k, M.im.count k = if k ∈ S.inst then 1 else 0
  view : ∀ k ∈ S.inst, mView M k = sView g ms k

/-- The flat machine (variant `fix`) and S give the same status for every request of `reqs`, evaluated in
order on one engine, and agree on everything observable afterwards. -/
def RefinesOn (fix : Fix) (g : Graph) (reqs : List Request) : Prop :=
  (runM fix g {} reqs).2 = (runS g (sBuild g) {} reqs).2 ∧
    Agree g (sBuild g) (runM fix g {} reqs).1 (runS g (sBuild g) {} reqs).1

/-- The refinement for every variant of the mechanism that rolls both tables back and mangles contract imports
(the code as it is, and the code with the modifiers composed): the guard on the require specs is `specOK fix.compose`. -/
theorem whole_request_refinement_gen (fix : Fix) (hfr : fix.rollback = true) (hfc : fix.contractImports = true)
    (g : Graph) (reqs : List Request) (hg : graphGuard fix.compose g = true)
    (hr : ∀ r ∈ reqs, reqGuard fix.compose g (sBuild g) r = true) : RefinesOn fix g reqs := by
  obtain ⟨hs, hrel⟩ := run_refines fix hfr hfc hg reqs {} {} hr (rel_init g (sBuild g))
  refine ⟨hs, hrel.top, ?_, ?_⟩
  · intro k
    unfold IM.count
    rw [List.Nodup.count hrel.kinv.nd]
    by_cases hk : k ∈ (runM fix g {} reqs).1.im.inst
    · simp [hk, (hrel.inst k).mp hk]
    · have hk' : k ∉ (runS g (sBuild g) {} reqs).1.inst := fun h => hk ((hrel.inst k).mpr h)
      simp [hk, hk']
  · intro k hk
    unfold mView
    rw [hrel.views k ((hrel.inst k).mpr hk)]
    rfl

/-- **M ⊑ S on whole requests** (the code as it is, `fix = {}`): for every acyclic module graph, every
sequence of evaluation requests and every pattern of failing requests (macro mismatch, free identifier,
runtime error), as long as the require specs are in the fragment on which flattening and composing agree
(`canonical2`; outside: K14c), every module refers only to names bound in it, and the programs bind only
identifiers that can be written in plain text (outside: K14d) — the real mechanism (mangled keys in one global
table, `__module-…` tables, flattened requires, compiled-module table with roll-back, depth-first
instantiation) yields, request by request, the status S yields, and afterwards binds every source identifier
as S does, has evaluated exactly the module bodies S says are instantiated, each exactly once, and every read
inside a module body resolves to what the module's own environment under S holds: its own definition if it
has one (whatever other modules or the program call theirs), otherwise the import that was bound last.
Since every prefix of a request sequence is a request sequence, this holds after every request. -/
theorem whole_request_refinement_partial (g : Graph) (reqs : List Request) (hg : graphGuard false g = true)
    (hr : ∀ r ∈ reqs, reqGuard false g (sBuild g) r = true) : RefinesOn {} g reqs :=
  whole_request_refinement_gen {} rfl rfl g reqs hg hr

/-- **… and the modifiers are the only point in which the mechanism and S part** (inside the other two guards):
the same machine with the require modifiers COMPOSED instead of flattened (`Fix.compose`, what repairing K14c
would give) equals S for EVERY nesting of `only-in` / `prefix-in` / renaming that is well-formed under S — no
restriction to a fragment. -/
theorem whole_request_refinement_composed (g : Graph) (reqs : List Request) (hg : graphGuard true g = true)
    (hr : ∀ r ∈ reqs, reqGuard true g (sBuild g) r = true) : RefinesOn { compose := true } g reqs :=
  whole_request_refinement_gen { compose := true } rfl rfl g reqs hg hr

/-- Non-vacuity of `whole_request_refinement_composed`: the three nestings on which the code and S differ
(`flat_differs_from_composition`) are inside its guard, and the composed machine gives S's answers on them. -/
example :
    let g : Graph := [⟨[['x'], ['y']], [⟨['x'], false⟩, ⟨['y'], false⟩], [], []⟩]
    let reqs : List Request :=
      [{ specs := [.onlyIn (.prefixIn ['a', '.'] (.path 0)) [(['a', '.', 'x'], none)]] },
       { specs := [.onlyIn (.path 0) []] },
       { specs := [.onlyIn (.onlyIn (.path 0) [(['x'], none), (['y'], none)]) [(['x'], some ['z'])]] }]
    graphGuard true g = true ∧ (∀ r ∈ reqs, reqGuard true g (sBuild g) r = true) ∧
    (runM { compose := true } g {} reqs).2 = [.ok, .ok, .ok] ∧
    ((runM { compose := true } g {} reqs).1.tbl.lookup ['a', '.', 'x'],
     (runM { compose := true } g {} reqs).1.tbl.lookup ['z'],
     (runM { compose := true } g {} reqs).1.tbl.lookup ['y']) =
      (some ⟨.mod 0, ['x'], false⟩, some ⟨.mod 0, ['x'], false⟩, none) := by
  refine ⟨by decide, ?_, by decide, by decide⟩
  intro r hr
  simp only [List.mem_cons, List.mem_nil_iff, or_false] at hr
  rcases hr with rfl | rfl | rfl <;> decide

/-- The full statement — no guard on the require specs — is false for the code as it is (open finding K14c):
`m0` provides `x`; the program `(require (only-in (prefix-in a. "m0") x))` runs on the flat machine (which
binds `a.x`) and is ill-formed under S. -/
theorem whole_request_refinement_fails :
    let g : Graph := [⟨[['x']], [⟨['x'], false⟩], [], []⟩]
    let reqs : List Request := [{ specs := [.onlyIn (.prefixIn ['a', '.'] (.path 0)) [(['x'], none)]] }]
    g.wf = true ∧ (runM {} g {} reqs).2 = [.ok] ∧ (runS g (sBuild g) {} reqs).2 = [.errRequire] := by
  decide

/-- The guard on the identifiers a program binds is needed as well (open finding K14d): a program that
requires `m0` and defines the (escaped) identifier `##mm0__%#__x` changes what `x` means INSIDE `m0`. -/
theorem whole_request_refinement_fails_escaped :
    let g : Graph := [⟨[['x']], [⟨['x'], false⟩], [], [['x']]⟩]
    let reqs : List Request := [{ specs := [.path 0], defs := [mangle 0 ['x']] }]
    graphGuard false g = true ∧
    mView (runM {} g {} reqs).1 0 = [(['x'], some ⟨.top 0, mangle 0 ['x'], false⟩)] ∧
    sView g (sBuild g) 0 = [(['x'], some ⟨.mod 0, ['x'], false⟩)] := by
  decide

/-- Non-vacuity of `whole_request_refinement_partial`, and "which binding wins": `m0` and `m1` both define and
provide `x` and a private `p`; `m1` also provides `f` under a contract; `m2` defines its own `p`, requires
`m0` under a prefix and `m1` through an `only-in` that renames `x` to `p` (shadowed by `m2`'s own `p`) and
re-exports `a.x`.  The programs: one that fails to compile, one that requires `m2` and `m1` (both bind …) and
defines its own `x`, one that fails at run time. -/
def clashGraph : Graph :=
  [⟨[['x'], ['p']], [⟨['x'], false⟩], [], [['x'], ['p']]⟩,
   ⟨[['x'], ['p'], ['f']], [⟨['x'], false⟩, ⟨['f'], true⟩], [], [['x'], ['p'], ['f']]⟩,
   ⟨[['p']], [⟨['a', '.', 'x'], false⟩, ⟨['p'], false⟩],
     [.prefixIn ['a', '.'] (.path 0), .onlyIn (.path 1) [(['x'], some ['p']), (['f'], none)]],
     [['p'], ['a', '.', 'x'], ['f']]⟩]

def clashReqs : List Request :=
  [{ specs := [.path 2], mode := .failCompile },
   { specs := [.path 2, .prefixIn ['a', '.'] (.path 1)], defs := [['x']] },
   { specs := [.path 0], mode := .failRuntime }]

theorem clash_in_guard : graphGuard false clashGraph = true ∧
    ∀ r ∈ clashReqs, reqGuard false clashGraph (sBuild clashGraph) r = true := by
  refine ⟨by decide, ?_⟩
  intro r hr
  simp only [clashReqs, List.mem_cons, List.mem_nil_iff, or_false] at hr
  rcases hr with rfl | rfl | rfl <;> decide

example : RefinesOn {} clashGraph clashReqs :=
  whole_request_refinement_partial clashGraph clashReqs clash_in_guard.1 clash_in_guard.2

/-- … and what S (hence, by the theorem, the flat machine) says on it: inside `m2`, `p` is `m2`'s own `p` (not
the `x` of `m1` imported under that name), `a.x` is `m0`'s `x`, `f` is `m1`'s contracted `f`; at top level
`a.x` was bound twice — the later require (`m1`'s `x`) wins —, `p` is `m2`'s, and `x`, which the second program
defined itself, was bound again by the third program's require of `m0` (which ran, although its last expression
failed). -/
example :
    sView clashGraph (sBuild clashGraph) 2 =
      [(['p'], some ⟨.mod 2, ['p'], false⟩), (['a', '.', 'x'], some ⟨.mod 0, ['x'], false⟩),
       (['f'], some ⟨.mod 1, ['f'], true⟩)] ∧
    (runS clashGraph (sBuild clashGraph) {} clashReqs).2 = [.errSyntax, .ok, .errRuntime] ∧
    ((runS clashGraph (sBuild clashGraph) {} clashReqs).1.top.lookup ['a', '.', 'x'],
     (runS clashGraph (sBuild clashGraph) {} clashReqs).1.top.lookup ['p'],
     (runS clashGraph (sBuild clashGraph) {} clashReqs).1.top.lookup ['x'],
     (runS clashGraph (sBuild clashGraph) {} clashReqs).1.inst) =
      (some ⟨.mod 1, ['x'], false⟩, some ⟨.mod 2, ['p'], false⟩, some ⟨.mod 0, ['x'], false⟩, [2, 0, 1]) := by
  decide

/-- Whether a request fails is an OUTPUT of both machines where the module system decides it: a program that refers
(`uses`) to a private name of a module it requires, to a name an `only-in` did not list, or to the unprefixed name
under a `prefix-in`, is rejected with a free identifier by M and by S alike (and leaves no trace: the module it
required is instantiated by the next program, once); a program that refers to what it imported runs.  These
requests are inside the guard, so `whole_request_refinement_partial` covers them. -/
theorem free_identifier_is_decided_by_the_machines :
    let g : Graph := [⟨[['x'], ['y'], ['p']], [⟨['x'], false⟩, ⟨['y'], false⟩], [], [['x']]⟩]
    let reqs : List Request :=
      [{ specs := [.path 0], uses := [['p']] },
       { specs := [.onlyIn (.path 0) [(['x'], none)]], uses := [['x'], ['y']] },
       { specs := [.prefixIn ['a', '.'] (.path 0)], uses := [['a', '.', 'x'], ['x']] },
       { specs := [.prefixIn ['a', '.'] (.path 0)], uses := [['a', '.', 'x'], ['a', '.', 'y']] }]
    graphGuard false g = true ∧ (∀ r ∈ reqs, reqGuard false g (sBuild g) r = true) ∧
    (runM {} g {} reqs).2 = [.errFreeId, .errFreeId, .errFreeId, .ok] ∧
    (runS g (sBuild g) {} reqs).2 = [.errFreeId, .errFreeId, .errFreeId, .ok] ∧
    (runM {} g {} reqs).1.im.inst = [0] := by
  refine ⟨by decide, ?_, by decide, by decide, by decide⟩
  intro r hr
  simp only [List.mem_cons, List.mem_nil_iff, or_false] at hr
  rcases hr with rfl | rfl | rfl | rfl <;> decide

/-- **Which binding wins inside a module (S, hence M in the guard): the module's own definition**, whatever
it imports under the same name. -/
theorem own_definition_shadows_imports {c : Bool} {g : Graph} (hg : graphGuard c g = true) (k : Nat) (d : Name)
    (hd : d ∈ (g.mod k).defs) : (senv (sBuild g) k).lookup d = some ⟨.mod k, d, false⟩ := by
  obtain ⟨hwf, hG⟩ := guard_all hg
  have hmg := hG k
  simp only [modGuard, Bool.and_eq_true, List.all_eq_true] at hmg
  have hall : ∀ s ∈ (g.mod k).reqs, ∃ l, s.importsS (sExports (sBuild g)) = some l :=
    fun s hs => specOK_some (hmg.1 s hs)
  rw [(senv_eq hwf k hall).1, List.reverse_append, List.lookup_append, ← List.map_reverse]
  have : ((g.mod k).defs.reverse.map fun d => (d, (⟨.mod k, d, false⟩ : Val))).lookup d =
      some ⟨.mod k, d, false⟩ := by
    have hm : d ∈ (g.mod k).defs.reverse := List.mem_reverse.mpr hd
    generalize (g.mod k).defs.reverse = l at hm
    induction l with
    | nil => simp at hm
    | cons a l ih =>
      simp only [List.map_cons, List.lookup_cons]
      by_cases e : d = a
      · subst e; simp
      · have : (d == a) = false := by simpa using e
        simp only [this]
        exact ih ((List.mem_cons.mp hm).resolve_left e)
  rw [this]
  rfl

/-- … and the flat machine agrees: after any request sequence in the guard, a module body that ran reads its
own definition under every name it defines (corollary of the refinement; `views` lists the names read). -/
theorem module_reads_own_definition (g : Graph) (reqs : List Request) (hg : graphGuard false g = true)
    (hr : ∀ r ∈ reqs, reqGuard false g (sBuild g) r = true) (k : Nat)
    (hk : k ∈ (runS g (sBuild g) {} reqs).1.inst) (d : Name) (hd : d ∈ (g.mod k).defs)
    (hv : d ∈ (g.mod k).views) :
    (d, some ⟨.mod k, d, false⟩) ∈ mView (runM {} g {} reqs).1 k := by
  rw [(whole_request_refinement_partial g reqs hg hr).2.view k hk]
  unfold sView
  refine List.mem_map.mpr ⟨d, hv, ?_⟩
  have := own_definition_shadows_imports hg k d hd
  unfold senv at this
  rw [this]

/-! ## 6. Contracts are checked at the module boundary, exactly there -/

section Contracts
open Contract

/-- What the contract model takes from `contracts.scm` (regenerated on every run): `bind/c` serves every arity by
a path that passes the parameters on in order (arities 0–3 specialised, everything else through
`verify-preconditions-test`), each path tests parameter `i` against pre-condition `i` for every `i`, left to
right, applies the function to the TESTED values (a function-valued argument is thereby replaced by its wrapped
version) and sends the result through `check-output`; a flat contract applies its predicate to the value, a
function contract wraps the value with `bind/c`. -/
theorem contract_table_matches_source :
    tableOK Gen.contractPaths Gen.generalValidatesAllInOrder = true ∧
    Gen.flatAppliesPredicate = true ∧ Gen.functionContractWraps = true := by decide

/-- **M = S for a call through a `contract/out` export**, for every contract of order ≤ 2 with any number of
parameters, every function body (whatever callbacks it calls, how often, and with what), every argument list and
every interpretation of the predicates: the mechanism of `contracts.scm` performs exactly the checks of S — each
first-order argument against the predicate of its position when it crosses into the module, left to right,
before the body runs; each argument and the result of every call the module makes of a callback that crossed
under a function contract, when they cross; the result when it crosses out — in the same order, with the same
outcome (value, or the violation of the first check that fails). -/
theorem contract_checked_at_boundary (holds : Nat → Nat → Bool) (c : FnC) (body : Prog) (args : List AVal) :
    callM holds c body args = callS holds c body args :=
  bind2_eq (pathSem_ok contract_table_matches_source.1) holds c body args

/-- **… and only there**: a call from inside the module (the name is bound to the bare definition there —
`contract_at_boundary_only`) with arguments that did not cross a boundary performs no check at all. -/
theorem contract_not_checked_inside (body : Prog) (args : List AVal) (h : ∀ a ∈ args, a.Raw) :
    (callInside body args).trace = [] := run_raw args h body

/-- **Exactly once, in order, before the body**: when every argument satisfies the predicate of its position,
the checks of a call from outside are: one per first-order argument (`crossings`, left to right), then whatever
the body's calls of its (wrapped) callbacks check, then the result. -/
theorem contract_call_ok (holds : Nat → Nat → Bool) (c : FnC) (body : Prog) (args : List AVal)
    (hk : kindOK c.doms args = true) (hh : ∀ ch ∈ crossings c.doms args, holds ch.p ch.v = true) (r : Nat)
    (hr : (run (crossed holds c.doms args) body).res = .ok r) :
    callM holds c body args =
      ⟨crossings c.doms args ++ (run (crossed holds c.doms args) body).trace ++ [⟨c.rng, r⟩],
        if holds c.rng r then .ok r else .violation c.rng r⟩ := by
  rw [contract_checked_at_boundary]
  unfold callS
  simp [kindOK_length _ _ hk, validateAll_ok holds c.doms args hk hh, hr]

/-- **A violating argument is rejected at the boundary**: the first first-order argument that fails its
predicate stops the call — the checks performed are the ones up to it, the body does not run (no callback is
called), the result is that violation. -/
theorem contract_violation_stops_at_boundary (holds : Nat → Nat → Bool) (c : FnC) (body : Prog)
    (args : List AVal) (hk : kindOK c.doms args = true) (pre post : Trace) (ch : Check)
    (hc : crossings c.doms args = pre ++ ch :: post) (hpre : ∀ x ∈ pre, holds x.p x.v = true)
    (hch : holds ch.p ch.v = false) :
    callM holds c body args = ⟨pre ++ [ch], .violation ch.p ch.v⟩ := by
  rw [contract_checked_at_boundary]
  unfold callS
  simp [kindOK_length _ _ hk, validateAll_viol holds c.doms args pre post ch hk hc hpre hch]

/-- Non-vacuity, and the shapes of the harness (`contract_text`, `obs_expr`): a function of four parameters whose
first is a callback under `(->/c int? int?)`; the good call checks the three integers, then — when the body
calls the callback with `1` — the `1` going out and the `1` coming back, then the result: `c14-int?` is
evaluated 5 times; the same call from inside the module evaluates it 0 times; a non-integer in the last position
is rejected after 3 evaluations and the callback is never called; a callback that returns a non-integer is caught
when its result crosses. -/
example : callM holdsStd (contractH 4) bodyH (argsH 4) =
    ⟨[⟨0, 1⟩, ⟨0, 2⟩, ⟨0, 3⟩, ⟨0, 1⟩, ⟨0, 1⟩, ⟨1, 7⟩], .ok 7⟩ := by decide +kernel
example : (callInside bodyH (argsH 4)).trace = [] := by decide +kernel
example : callM holdsStd (contractH 4) bodyH [.fn (rawCb fun as => as.headD 0), .val 1, .val 2, .val 1000] =
    ⟨[⟨0, 1⟩, ⟨0, 2⟩, ⟨0, 1000⟩], .violation 0 1000⟩ := by decide +kernel
example : callM holdsStd (contractH 4) bodyH [.fn (rawCb fun _ => 1000), .val 1, .val 2, .val 3] =
    ⟨[⟨0, 1⟩, ⟨0, 2⟩, ⟨0, 3⟩, ⟨0, 1⟩, ⟨0, 1000⟩], .violation 0 1000⟩ := by decide +kernel
example : (List.range 7).map (predictedChecks true true true) = (List.range 7).map (predictedChecks false true true) ∧
    predictedChecks true true true 2 = 3 ∧ predictedChecks true true true 6 = 7 ∧
    predictedChecks true true false 1 = 1 ∧ predictedChecks true false true 4 = 0 := by decide +kernel

/-- What the obligation on the table excludes (the seeded change C14-m3): a general path that applies the
function to the RAW arguments lets a violating callback through. -/
example :
    let sem : Nat → PathSem := fun n => ⟨idTests n, false, true⟩
    bind2 sem holdsStd (contractH 4) (fun as => run as bodyH) [.fn (rawCb fun _ => 1000), .val 1, .val 2, .val 3] =
      ⟨[⟨0, 1⟩, ⟨0, 2⟩, ⟨0, 3⟩, ⟨1, 7⟩], .ok 7⟩ := by decide +kernel

end Contracts

/-! ## 7. Unused-import pruning never drops a used import -/

/-- What the pruning model takes from `analysis.rs` / `compiler.rs` (regenerated on every run): every removal
of a define sits under all four conditions — the name starts with the prefix, `usage_count == 0`, the body is a
generated `(%module-get% …)` / `(%proto-hash-get% …)`, and no macro mentions the name —, and every caller passes
`MANGLER_PREFIX`. -/
theorem prune_sites_match_source :
    Gen.pruneDefineSites ≠ [] ∧
    Gen.pruneDefineSites.all (fun s => s.prefixed && s.unused && s.importBody && s.macroKeep) = true ∧
    Gen.pruneCallersPassManglerPrefix = true := by decide

/-- **A define that is used is never pruned**, whatever else is in the unit. -/
theorem prune_keeps_used (ds : List TopDefine) (d : TopDefine) (hd : d ∈ ds) (hu : 0 < d.uses) :
    d ∈ prune Gen.pruneDefineSites manglerPrefix ds := by
  unfold prune
  rw [List.mem_filter]
  refine ⟨hd, ?_⟩
  simp only [Bool.not_eq_true', List.any_eq_false]
  intro s hs
  have hall := prune_sites_match_source.2.1
  rw [List.all_eq_true] at hall
  have := hall s hs
  simp only [Bool.and_eq_true] at this
  have hne : (d.uses == 0) = false := by simpa using Nat.pos_iff_ne_zero.mp hu
  simp [siteRemoves, this.1.1.2, hne]

/-- **Only unused generated imports are pruned**: what is removed has a mangled-prefix name, no use, an
import body, and is mentioned by no macro; in particular no define a program can write is ever removed. -/
theorem prune_removes_only_unused_imports (ds : List TopDefine) (d : TopDefine) (hd : d ∈ ds)
    (hr : d ∉ prune Gen.pruneDefineSites manglerPrefix ds) :
    manglerPrefix.isPrefixOf d.name = true ∧ d.uses = 0 ∧ d.importBody = true ∧ d.inMacro = false := by
  unfold prune at hr
  rw [List.mem_filter] at hr
  have hex : (Gen.pruneDefineSites.any fun s => siteRemoves s manglerPrefix d) = true := by
    cases h : (Gen.pruneDefineSites.any fun s => siteRemoves s manglerPrefix d) with
    | true => rfl
    | false => exact absurd ⟨hd, by simp [h]⟩ hr
  rw [List.any_eq_true] at hex
  obtain ⟨s, hs, hrm⟩ := hex
  have hall := prune_sites_match_source.2.1
  rw [List.all_eq_true] at hall
  have := hall s hs
  simp only [Bool.and_eq_true] at this
  obtain ⟨⟨⟨a, b⟩, c⟩, e⟩ := this
  have hrm' : ((manglerPrefix.isPrefixOf d.name = true ∧ d.uses = 0) ∧ d.importBody = true) ∧ d.inMacro = false := by
    simpa [siteRemoves, a, b, c, e] using hrm
  exact ⟨hrm'.1.1.1, hrm'.1.1.2, hrm'.1.2, hrm'.2⟩

theorem prune_keeps_user_defines (ds : List TopDefine) (d : TopDefine) (hd : d ∈ ds) (hs : SourceIdent d.name) :
    d ∈ prune Gen.pruneDefineSites manglerPrefix ds := by
  by_cases h : d ∈ prune Gen.pruneDefineSites manglerPrefix ds
  · exact h
  · exfalso
    have hp := (prune_removes_only_unused_imports ds d hd h).1
    rw [List.isPrefixOf_iff_prefix] at hp
    obtain ⟨t, ht⟩ := hp
    exact hs ⟨['m', 'm'] ++ t, by rw [← ht]; rfl⟩

/-- Non-vacuity: a unit with a used import, an unused import, an unused import that a macro mentions, an unused
private define and a program's own unused define: exactly the unused import goes. -/
example :
    let u : List TopDefine :=
      [⟨mangle 3 ['a'], 2, true, false⟩, ⟨mangle 3 ['b'], 0, true, false⟩, ⟨mangle 3 ['c'], 0, true, true⟩,
       ⟨mangle 3 ['p'], 0, false, false⟩, ⟨['q'], 0, true, false⟩]
    (prune Gen.pruneDefineSites manglerPrefix u).map (·.name) =
      [mangle 3 ['a'], mangle 3 ['c'], mangle 3 ['p'], ['q']] := by decide

/-! ## 8. The require forms that exist -/

/-- `parse_require_object_inner` accepts a string literal and exactly the list forms `only-in`, `prefix-in` and
`for-syntax` (the latter with a string literal only); every other list — `rename-in`, `except-in`, … — is a
syntax error.  Renaming exists only as the `(from to)` entries of `only-in` (`Spec.onlyIn`). -/
theorem require_forms_match_source :
    Gen.requireForms = ["only-in", "prefix-in", "for-syntax"] ∧ Gen.requireOtherListIsError = true ∧
    Gen.forSyntaxTakesStringOnly = true := by decide

/-! ## 9. Macros provided by modules -/

theorem lookup_filter_ne (k k' : Name) (h : k' ≠ k) : ∀ (l : List (Name × Val)),
    (l.filter fun e => e.1 != k).lookup k' = l.lookup k' := by
  intro l
  induction l with
  | nil => rfl
  | cons e l ih =>
    obtain ⟨a, v⟩ := e
    by_cases ha : a = k
    · subst ha
      have : (k' == a) = false := by simpa using h
      simp [List.lookup_cons, this, ih]
    · have hne : (a != k) = true := by simpa using ha
      simp only [List.filter_cons, hne, if_true, List.lookup_cons, ih]

theorem lookup_minsert (l : List (Name × Val)) (k k' : Name) (v : Val) :
    (minsert l k v).lookup k' = if k' = k then some v else l.lookup k' := by
  unfold minsert
  rw [List.lookup_append]
  by_cases h : k' = k
  · subst h
    have : (l.filter fun e => e.1 != k').lookup k' = none := by
      apply lookup_none_of_not_mem_keys
      intro hm
      obtain ⟨e, he, hk⟩ := List.mem_map.mp hm
      have := (List.mem_filter.mp he).2
      simp [hk] at this
    simp [this, List.lookup_cons]
  · have hb : (k' == k) = false := by simpa using h
    rw [lookup_filter_ne k k' h]
    cases l.lookup k' <;> simp [h, List.lookup_cons, hb]

theorem lookup_foldl_minsert (t : Nat) : ∀ (L : List Name) (acc : List (Name × Val)) (n : Name),
    (L.foldl (fun a m => minsert a m ⟨.mod t, m, false⟩) acc).lookup n =
      if n ∈ L then some ⟨.mod t, n, false⟩ else acc.lookup n := by
  intro L
  induction L with
  | nil => intro acc n; simp
  | cons m L ih =>
    intro acc n
    simp only [List.foldl_cons, ih, lookup_minsert, List.mem_cons]
    by_cases h1 : n ∈ L
    · simp [h1]
    · by_cases h2 : n = m
      · subst h2; simp [h1]
      · simp [h1, h2]

/-- What the macro model takes from the source (regenerated on every run): the two repairs of this check are in
place — `find_in_scope_macros` applies `only-in` / `prefix-in` to every provided macro (0fe3fa8e), the macro
environment is rolled back with the module table (3bef0920) — and `compile_main` takes its roll-back snapshots
before anything in it can fail, so that a rejected evaluation restores the state at its own start (the models treat
every evaluation that is rejected before it runs — reader error, error in a macro definition, expansion error, free
identifier — as having no effect: `evalRequestI`, `macStep`). -/
theorem rollback_and_macro_repairs_in_source :
    Gen.snapshotBeforeAnythingCanFail = true ∧ Gen.macroEnvRolledBack = true ∧
    Gen.macroModifiersApplied = true ∧ ({} : MacFix) = ⟨false, true, true, false⟩ := by decide

/-- **A require without modifiers brings exactly the provided macros of the module into scope, under their own
names, bound to the module's macros** — for every module (however its macros are provided: as identifiers or
through `for-syntax`; private macros are not among them), before and after the repairs. -/
theorem macro_scope_plain (fix : MacFix) (hc : fix.ownFirst = false) (g : Graph) (mg : MacGraph) (t : Nat)
    (n : Name) :
    (macScopeM fix g mg ⟨t, [], []⟩).lookup n = (providedMacros false g mg t).lookup n ∧
    ((providedMacros false g mg t).lookup n =
      if n ∈ ((mg.mod t).fsProv ++ (mg.mod t).plainProv).filter (fun m => (effMacs false g mg t).contains m)
      then some ⟨.mod t, n, false⟩ else none) := by
  have hp : ∀ m, (providedMacros false g mg t).lookup m =
      if m ∈ ((mg.mod t).fsProv ++ (mg.mod t).plainProv).filter (fun m => (effMacs false g mg t).contains m)
      then some ⟨.mod t, m, false⟩ else none := by
    intro m
    unfold providedMacros
    simp only [lookup_foldl_minsert]
    rfl
  refine ⟨?_, hp n⟩
  unfold macScopeM
  simp only [hc, List.isEmpty_nil, Bool.not_true, Bool.false_eq_true, if_false, ne_eq, not_true_eq_false,
    Bool.and_false, lookup_foldl_minsert]
  split
  · rename_i hmem
    have : n ∈ ((mg.mod t).fsProv ++ (mg.mod t).plainProv).filter
        (fun m => (effMacs false g mg t).contains m) := by
      rw [List.mem_filter] at hmem ⊢
      exact ⟨List.mem_append_right _ hmem.1, hmem.2⟩
    rw [hp, if_pos this]
  · rfl

/-- K14e, fixed by 0fe3fa8e (regression witness, corpus d06): `m0` provides `mq` through `for-syntax` and `mr` as
an identifier.  Before: `(prefix-in a. "m0")` bound `mq` and `a.mr`, `(only-in "m0" mr)` bound `mq` as well.  The
code as it is binds `a.mq`, `a.mr` resp. `mr` only — what S says. -/
theorem macro_modifiers_repaired :
    let mg : MacGraph := [{ macs := [['m', 'q'], ['m', 'r']], fsProv := [['m', 'q']], plainProv := [['m', 'r']] }]
    let g : Graph := [⟨[], [], [], []⟩]
    let keys := fun (fix : MacFix) (s : Spec) => (macScope fix g mg s).map (·.1)
    keys { modifiers := false } (.prefixIn ['a', '.'] (.path 0)) = [['m', 'q'], ['a', '.', 'm', 'r']] ∧
    keys {} (.prefixIn ['a', '.'] (.path 0)) = [['a', '.', 'm', 'r'], ['a', '.', 'm', 'q']] ∧
    keys { modifiers := false } (.onlyIn (.path 0) [(['m', 'r'], none)]) = [['m', 'q'], ['m', 'r']] ∧
    keys {} (.onlyIn (.path 0) [(['m', 'r'], none)]) = [['m', 'r']] ∧
    keys {} (.prefixIn ['a', '.'] (.onlyIn (.path 0) [(['m', 'q'], some ['m', 'z'])])) = [['a', '.', 'm', 'z']] := by
  decide

/-- An identifier listed twice in one `only-in` (outside `canonical2`, K14c): `(only-in "m0" (mr mm) mr)` binds
`mm` only — the second entry finds `mr` already moved — while for VALUES the last entry wins (`mr`) and S binds
both.  The model follows the code; the difference is part of the open finding K14c. -/
theorem macro_duplicate_identifier :
    let mg : MacGraph := [{ macs := [['m', 'r']], fsProv := [['m', 'r']] }]
    let g : Graph := [⟨[], [], [], []⟩]
    let s : Spec := .onlyIn (.path 0) [(['m', 'r'], some ['m', 'm']), (['m', 'r'], none)]
    (macScope {} g mg s).map (·.1) = [['m', 'm']] ∧
    (macScope { compose := true } g mg s).map (·.1) = [['m', 'm'], ['m', 'r']] ∧
    s.flatten.rename ['m', 'r'] = some ['m', 'r'] := by decide

/-- K14f, fixed by 3bef0920 (regression witness, corpus d07): a request that fails to compile used to leave the
macros of its requires in the engine's macro environment; the code as it is leaves nothing. -/
theorem macro_rollback_repaired :
    let mg : MacGraph := [{ macs := [['m', 'q']], fsProv := [['m', 'q']] }]
    let g : Graph := [⟨[], [], [], []⟩]
    (macStep { rollback := false } g mg [] [.path 0] .errSyntax).map (·.1) = [['m', 'q']] ∧
    macStep {} g mg [] [.path 0] .errSyntax = [] ∧ macStep {} g mg [] [.path 0] .errFreeId = [] ∧
    (macStep {} g mg [] [.path 0] .ok).map (·.1) = [['m', 'q']] ∧
    (macStep {} g mg [] [.path 0] .errRuntime).map (·.1) = [['m', 'q']] := by decide

/-- Open finding K14g: inside a module that defines its own macro `mq` and requires a module that provides a macro
`mq`, `mq` denotes the imported one (for values the module's own definition wins:
`own_definition_shadows_imports`); and a macro of the module that a plainly required module also provides as an
identifier is removed from the module altogether (it is not even exported).  With the repair the own macro wins. -/
theorem macro_own_displaced :
    let mg : MacGraph := [{ macs := [['m', 'q']], plainProv := [['m', 'q']] },
                          { macs := [['m', 'q']], fsProv := [['m', 'q']] }]
    let g : Graph := [⟨[], [], [], []⟩, ⟨[], [], [.path 0], []⟩]
    macViewM {} g mg 1 ['m', 'q'] = some ⟨.mod 0, ['m', 'q'], false⟩ ∧
    providedMacros false g mg 1 = [] ∧
    macViewM { ownFirst := true } g mg 1 ['m', 'q'] = some ⟨.mod 1, ['m', 'q'], false⟩ ∧
    (providedMacros true g mg 1).map (·.1) = [['m', 'q']] := by decide

/-! ## Clauses of the property not carried by a theorem

* "Code that requires a module can refer to exactly the names the module provides … and to nothing else of it", "private
  definitions … never interfere", reads inside module bodies, which binding wins on a clash: now carried, for VALUES, by
  `whole_request_refinement_partial` (M = S on whole requests: status, every source identifier's binding, every read inside
  every instantiated module, instantiation counts) with `own_definition_shadows_imports` / `module_reads_own_definition` —
  INSIDE the decidable guard `graphGuard` / `reqGuard`.  Outside it: require specs off the fragment `canonical2` (the code
  flattens, S composes: `whole_request_refinement_fails`, open finding K14c; the machine with the modifiers composed —
  `Fix.compose`, the driver's variant `m` — equals S on ALL specs that are well-formed under S:
  `whole_request_refinement_composed`; that it also answers `err:require` exactly when S does is compared by the driver only);
  identifiers written as `|##mm…|` (`whole_request_refinement_fails_escaped`, K14d); modules that refer to a name that is
  not bound in them (it is looked up in the global namespace of whatever program is running — values AND macros, see the
  harness experiments in the report; the model reports some of these as `undetermined`).
* Require forms: `rename-in` / `except-in` / `for-syntax` around a spec do not exist (`require_forms_match_source`, corpus
  t06).  `(require (for-syntax "m"))` is accepted and, on the real engine, behaves like `(require "m")` (values and macros are
  both bound); it is not a constructor of `Spec` and is not generated.
* MACROS provided by modules (`(provide m)`, `(provide (for-syntax m))`): modelled as a separate layer (`Macros.lean`:
  `macScopeM` = `find_in_scope_macros`, `macStep` = the engine's macro environment, `macViewM` = the overlays of a module
  compilation) that is not part of `evalRequestM`, hence not of the refinement theorem (its guard excludes modules with
  macros).  Proved: `macro_scope_plain` (a require without modifiers binds exactly the provided macros).  The code violates
  the property here in three ways, all open findings with witnesses by `decide` and generated cases on the real engine:
  K14g (`macro_own_displaced`); K14e and K14f were fixed in /repo (0fe3fa8e, 3bef0920: `macro_modifiers_repaired`,
  `macro_rollback_repaired`, `rollback_and_macro_repairs_in_source`).  NOT modelled: what a
  macro expands to (C13), module bodies in which several names share one top-level expression — there a required module's
  complete macro map, private macros included, is applied to the whole expression once one of its provided macros fired
  (candidate finding K14h, findings/C14-K14h.raw; the harness probes every name in an expression of its own) —,
  `define-syntax` in the requiring program, `defmacro` / kernel macros, re-export of an imported macro.
* "A module's body is evaluated exactly once per engine": `instantiated_once` and the `count` clause of the refinement.
  Whether a request fails is an OUTPUT of the machines where the module system decides it (a program or a module body that
  refers to an unbound name: `free_identifier_is_decided_by_the_machines`, `uses` / `views`); the failing FORM a generated
  program ends with (`Mode`: unreadable text / malformed macro definition / macro mismatch = rejected before anything is
  evaluated, undefined marker = rejected when built, `(error …)` = fails after everything ran) is still an input, and "every
  way of being rejected before evaluation has no effect" rests on `rollback_and_macro_repairs_in_source` (the snapshots of
  `compile_main` are taken before anything in it can fail) plus the generated failing evaluations of every kind directly
  before / after the first require of a module (corpus t08).  That files do not change on disk between requests, and module
  bodies whose evaluation itself raises an error half-way (they run once, every later require fails), are outside every theorem.
* "values attached with contracts are checked at the module boundary only": now carried by `contract_checked_at_boundary`
  (M = S for every call through an export, table regenerated from contracts.scm), `contract_not_checked_inside`,
  `contract_call_ok`, `contract_violation_stops_at_boundary`, with `contract_at_boundary_only` / `provided_def_exported` for
  where the wrapper is attached — for contracts of order ≤ 2 over first-order values.  Not modelled: the blame labels and the
  `parents` chain of `FunctionContract`, contracts in RANGE position that are function contracts, `define/contract`, the
  combinators (`listof`, `and/c`, …; a flat contract is an opaque predicate), an export that passes through two
  `contract/out` boundaries (`Val.contracted` is one flag, the generators re-export without a second contract), arity errors
  of the specialised paths (a native arity error there, `Res.arity` here).  The number of predicate evaluations per call is
  compared with the real engine (`#n` in the observations).
* Unused-import pruning: `prune_keeps_used`, `prune_removes_only_unused_imports`, `prune_keeps_user_defines` are about the
  removal sites read from `remove_unused_globals_with_prefix`; `usage_count` (the semantic analysis) and "mentioned by a macro"
  are INPUTS of the model.  `modRefs` (which `__module-…` tables a module body still refers to after pruning) is a separate,
  older model used only to name regressions of the roll-back repair.
* Cyclic requires (rejected by the code), `(require-builtin …)`, dylibs, cogs search paths, `STEEL_HOME`.
`only_in_unknown_ignored_M`, `flat_differs_from_composition`, `instantiated_once_legacy_fails`,
`module_isolation_legacy_fails`, `example_diamond`, `whole_request_refinement_fails(_escaped)`, `clash_in_guard`,
`macro_modifiers_repaired`, `macro_duplicate_identifier`, `macro_rollback_repaired`, `macro_own_displaced` are concrete witnesses / tests (by `decide`). -/

end SteelVerif.C14
