import SteelVerif.C14.Model
namespace SteelVerif.C14
theorem stub_true : True := trivial
end SteelVerif.C14
