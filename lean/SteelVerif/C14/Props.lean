/-
C14 — property theorems: modules expose exactly what they provide and are instantiated once.

Model: `Model.lean`.  All theorems quantify over every module id / name, every require spec (any nesting
of `only-in` / `prefix-in`), every acyclic module graph (modules listed in dependency order) and every
sequence of evaluation requests, failing ones included; nothing is bounded.
-/
import SteelVerif.C14.LemmasTbl
import SteelVerif.C14.GenConsts
namespace SteelVerif.C14

/-! ## 0. What the model takes from the source (regenerated from /repo on every run) -/

/-- The strings `mangle` is built from are the code's `MANGLER_PREFIX` / `MANGLER_SEPARATOR`, the
module prefix is `prefix ++ id ++ separator` and is prepended by the mangler, and the key of a file
module — what "the same module" means for the compiled-module table, the metadata and the mangling id —
is its canonical path (`try_canonicalize` = `fs::canonicalize`, applied to every require path and every
module name).  The model identifies a module by its number `k` on exactly that ground: all spellings of
a path to one file are one module. -/
theorem model_constants_match_source :
    Gen.manglerPrefix = manglerPrefix ∧ Gen.manglerSeparator = manglerSeparator ∧
    Gen.prefixIsPrefixIdSeparator = true ∧ Gen.keyIsCanonicalPath = true := by decide

/-! ## 1. Name mangling -/

/-- **The mangled name determines the module and the name** — for all ids and all names, including
names that contain digits, `_`, or the separator itself (the digit run after `##mm` is maximal because
the separator starts with `_`). -/
theorem mangle_injective {i j : Nat} {n m : Name} : mangle i n = mangle j m → i = j ∧ n = m :=
  mangle_inj

/-- A mangled name begins with `##`; so it is none of the identifiers that do not (`SourceIdent`: the
reader rejects a bare identifier that begins with `##` — checked on the real reader by the harness;
it does *not* hold for `|…|`-escaped identifiers, finding K14d). -/
theorem mangle_not_user_writable (i : Nat) (n s : Name) (hs : SourceIdent s) : mangle i n ≠ s := by
  intro e
  exact hs (e ▸ mangle_hashhash i n)

/-- Private (and all other) names of different modules never collide, whatever the names are; nor do
two names of one module. -/
theorem privates_disjoint {i j : Nat} (n m : Name) (h : i ≠ j) : mangle i n ≠ mangle j m :=
  fun e => h (mangle_inj e).1

theorem privates_distinct (i : Nat) {n m : Name} (h : n ≠ m) : mangle i n ≠ mangle i m :=
  fun e => h (mangle_inj e).2

/-- Non-vacuity / tie to the code's constants: module 5358, private `p`. -/
example : mangle 5358 ['p'] = "##mm5358__%#__p".toList := by decide
example : SourceIdent ['q', '.', 'f'] := by decide
/-- K14d: the escaped identifier `|##mm1__%#__p|` denotes a name outside `SourceIdent`. -/
example : ¬ SourceIdent (mangle 1 ['p']) := by decide

/-! ## 2. Require modifiers -/

/-- `parse_require_object_inner`: the flat form of any spec is its path, all `only-in` entries (inner
lists first) and all prefixes concatenated outermost first. -/
theorem flatten_is (s : Spec) : s.flatten = ⟨s.target, s.ids, s.prefixes⟩ := flatten_eq s

theorem prefixes_concatenate_outer_first (p q : Name) (s : Spec) :
    (Spec.prefixIn p (Spec.prefixIn q s)).flatten.pfx = p ++ (q ++ s.flatten.pfx) := by
  simp [flatten_eq, Spec.prefixes]

/-- **A name is bound in the requirer iff the module provides a name that survives the filter, and it
is bound under prefix ++ (alias or name).**  For every spec and every provide list. -/
theorem visible_iff_provided {β : Type} (s : Spec) (ex : List (Name × β)) (v : Name) :
    (∃ n b, (v, n, b) ∈ s.flatten.importsM ex) ↔
      ∃ n b, (n, b) ∈ ex ∧
        ((s.ids = [] ∧ v = s.prefixes ++ n) ∨
         (s.ids ≠ [] ∧ ∃ a, lookupLast s.ids n = some a ∧ v = s.prefixes ++ a.getD n)) := by
  simp only [mem_importsM, rename_eq_some, flatten_eq]

/-- The same, on a module graph: module `k` sees `v` as the name `n` of module `t` iff one of its
requires targets `t`, `t` provides `n`, and `n` survives that require's modifiers under the name `v`. -/
theorem visible_iff_provided_graph (g : Graph) (k t : Nat) (v n : Name) :
    (v, (t, n)) ∈ visible g k ↔
      ∃ s ∈ (g.mod k).reqs, s.target = t ∧ n ∈ g.provNames t ∧
        ((s.ids = [] ∧ v = s.prefixes ++ n) ∨
         (s.ids ≠ [] ∧ ∃ a, lookupLast s.ids n = some a ∧ v = s.prefixes ++ a.getD n)) := by
  unfold visible
  simp only [List.mem_flatMap, List.mem_map]
  constructor
  · rintro ⟨r, ⟨s, hs, rfl⟩, ⟨v', n', u⟩, hmem, he⟩
    simp only [Prod.mk.injEq] at he
    obtain ⟨rfl, rfl, rfl⟩ := he
    rw [mem_importsM, rename_eq_some] at hmem
    obtain ⟨hp, hr⟩ := hmem
    refine ⟨s, hs, by simp [flatten_eq], ?_, by simpa [flatten_eq] using hr⟩
    obtain ⟨x, hx, hxe⟩ := List.mem_map.mp hp
    simp only [Prod.mk.injEq] at hxe
    rw [← hxe.1]; simpa [flatten_eq] using hx
  · rintro ⟨s, hs, rfl, hn, hr⟩
    refine ⟨s.flatten, ⟨s, hs, rfl⟩, (v, n, ()), ?_, by simp [flatten_eq]⟩
    rw [mem_importsM, rename_eq_some]
    refine ⟨List.mem_map.mpr ⟨n, by simpa [flatten_eq] using hn, rfl⟩, by simpa [flatten_eq] using hr⟩

/-- The binding refers to the provided definition it was generated from (`(%proto-hash-get% … 'n)`). -/
theorem import_refers_to_provided {β : Type} (r : Req) (ex : List (Name × β)) (v n : Name) (b : β) :
    (v, n, b) ∈ r.importsM ex → (n, b) ∈ ex := fun h => ((mem_importsM r ex v n b).mp h).1

/-- A provided name that an `only-in` does not list is not bound (using it is a free identifier:
`tests/failure/require_only_in_missing_identifier.scm`). -/
theorem only_in_missing_is_error {β : Type} (s : Spec) (ex : List (Name × β)) (n : Name)
    (hne : s.ids ≠ []) (hn : n ∉ s.ids.map (·.1)) : ∀ v b, (v, n, b) ∉ s.flatten.importsM ex := by
  intro v b h
  rw [mem_importsM, rename_eq_some, flatten_eq] at h
  rcases h.2 with ⟨he, _⟩ | ⟨_, a, ha, _⟩
  · exact hne he
  · rw [lookupLast_none _ _ hn] at ha
    exact absurd ha (by simp)

/-- S: an `only-in` that names an identifier the inner spec does not offer is ill-formed … -/
theorem only_in_unknown_is_error_S {β : Type} (ex : Nat → List (Name × β)) (s : Spec)
    (ids : List (Name × Option Name)) (inner : List (Name × β)) (hs : s.importsS ex = some inner)
    (h : ∃ ia ∈ ids, inner.lookup ia.1 = none) : (Spec.onlyIn s ids).importsS ex = none := by
  obtain ⟨ia, hia, hl⟩ := h
  simp only [Spec.importsS, hs]
  exact mapOpt_none _ _ ⟨ia, hia, by simp [hl]⟩

/-- … while the code ignores it (part of finding K14c): `(only-in "m0" nope x)`. -/
theorem only_in_unknown_ignored_M :
    (Spec.onlyIn (.path 0) [(['n', 'o', 'p', 'e'], none), (['x'], none)]).flatten.importsM [(['x'], ())]
      = [(['x'], ['x'], ())] ∧
    (Spec.onlyIn (.path 0) [(['n', 'o', 'p', 'e'], none), (['x'], none)]).importsS
      (fun _ => [(['x'], ())]) = none := by decide

/-- **Flattening = composing** on the documented forms (`prefix-in`s around at most one `only-in` that
sits on the path and lists distinct provided identifiers): the same names are bound to the same
provided definitions. -/
theorem flat_agrees_with_composition {β : Type} (ex : Nat → List (Name × β)) (s : Spec)
    (hc : s.canonical (fun m => (ex m).map (·.1)) = true) (v : Name) (b : β) :
    (∃ n, (v, n, b) ∈ s.flatten.importsM (ex s.target)) ↔ ∃ l, s.importsS ex = some l ∧ (v, b) ∈ l :=
  flat_eq_compositional ex s hc v b

/-- Outside that fragment they differ (open finding K14c).  With `m0` providing `x`, `y`:
`(only-in (prefix-in a. "m0") x)` binds `a.x` (S: ill-formed), `(only-in "m0")` binds everything
(S: nothing), `(only-in (only-in "m0" x y) x)` binds `x` and `y` (S: `x`). -/
theorem flat_differs_from_composition :
    let ex : Nat → List (Name × Unit) := fun _ => [(['x'], ()), (['y'], ())]
    let bound := fun (s : Spec) => (s.flatten.importsM (ex 0)).map (·.1)
    let boundS := fun (s : Spec) => (s.importsS ex).map (·.map (·.1))
    bound (.onlyIn (.prefixIn ['a', '.'] (.path 0)) [(['x'], none)]) = [['a', '.', 'x']] ∧
    boundS (.onlyIn (.prefixIn ['a', '.'] (.path 0)) [(['x'], none)]) = none ∧
    bound (.onlyIn (.path 0) []) = [['x'], ['y']] ∧
    boundS (.onlyIn (.path 0) []) = some [] ∧
    bound (.onlyIn (.onlyIn (.path 0) [(['x'], none), (['y'], none)]) [(['x'], none)]) = [['x'], ['y']] ∧
    boundS (.onlyIn (.onlyIn (.path 0) [(['x'], none), (['y'], none)]) [(['x'], none)]) = some [['x']] := by
  decide

/-- Non-vacuity: `(prefix-in b- (prefix-in q. (only-in "m0" x (f ff))))` binds `b-q.x`, `b-q.ff`. -/
example :
    ((Spec.prefixIn ['b', '-'] (.prefixIn ['q', '.'] (.onlyIn (.path 0) [(['x'], none), (['f'], some ['f', 'f'])]))).flatten.importsM
      [(['x'], 1), (['y'], 2), (['f'], 3)]) =
    [(['b', '-', 'q', '.', 'x'], ['x'], 1), (['b', '-', 'q', '.', 'f', 'f'], ['f'], 3)] := by decide

/-! ## 3. Instantiation -/

/-- **Every module body is evaluated at most once per engine, and exactly once as soon as a request
that is not made to fail needs it (transitively)** — for every acyclic graph and every sequence of
requests, whichever of them fail at compile time, at build time or at run time.  (`runRequestsI true`
is the code since commit d10f8017: both failure paths restore the module table and the metadata.) -/
theorem instantiated_once (g : Graph) (hwf : g.wf = true) (reqs : List Request)
    (hreq : ∀ r ∈ reqs, r.wfIn g) :
    let st := runRequestsI true g {} reqs
    (∀ k, st.count k ≤ 1) ∧
    (∀ r ∈ reqs, (r.mode = .ok ∨ r.mode = .failRuntime) → ∀ k ∈ r.needs g, st.count k = 1) := by
  intro st
  have hk := run_kinv hwf true reqs {} hreq (Or.inl rfl) (kinv_init g)
  refine ⟨fun k => count_le_one_of_nodup hk.nd k, ?_⟩
  intro r hr hm k hkn
  exact count_eq_one_of_nodup hk.nd (run_needs hwf true reqs {} hreq (Or.inl rfl) (kinv_init g) r hr hm k hkn)

/-- … and nothing else is ever evaluated: a body that ran is needed by a request that got as far as
running (for every graph, acyclic or not, and either roll-back). -/
theorem instantiated_only_if_needed (b : Bool) (g : Graph) (reqs : List Request) (k : Nat)
    (h : 0 < (runRequestsI b g {} reqs).count k) :
    ∃ r ∈ reqs, (r.mode = .ok ∨ r.mode = .failRuntime) ∧ k ∈ r.needs g := by
  have hk : k ∈ (runRequestsI b g {} reqs).inst := List.count_pos_iff.mp h
  rcases run_inst_sub b g reqs {} k hk with e | e
  · simp at e
  · exact e

/-- A program that is not made to fail is never rejected because of what failed before it. -/
theorem good_request_runs (g : Graph) (hwf : g.wf = true) (reqs : List Request)
    (hreq : ∀ r ∈ reqs, r.wfIn g) (r : Request) (hr : r.wfIn g) (hm : r.mode = .ok) :
    (evalRequestI true g (runRequestsI true g {} reqs) r.specs r.mode).2.1 = .ok := by
  have hk := run_kinv hwf true reqs {} hreq (Or.inl rfl) (kinv_init g)
  have := (evalRequestI_kinv hwf true _ r.specs r.mode (Or.inl rfl) hr hk).2 (Or.inl hm)
  simpa [hm] using this.2

/-- The code before d10f8017 (`rollbackBoth = false`), kept as a regression witness: *at most once*
held for every request sequence … -/
theorem instantiated_at_most_once_legacy (g : Graph) (hwf : g.wf = true) (reqs : List Request) :
    ∀ k, (runRequestsI false g {} reqs).count k ≤ 1 := by
  intro k
  have hj := run_jinv hwf false reqs {} ⟨by simp, by simp⟩
  exact count_le_one_of_nodup hj.nd k

/-- … *exactly once* held as long as no request failed when its program was built … -/
theorem instantiated_once_legacy_partial (g : Graph) (hwf : g.wf = true) (reqs : List Request)
    (hreq : ∀ r ∈ reqs, r.wfIn g) (hG : ∀ r ∈ reqs, r.mode ≠ .failBuild) :
    ∀ r ∈ reqs, (r.mode = .ok ∨ r.mode = .failRuntime) →
      ∀ k ∈ r.needs g, (runRequestsI false g {} reqs).count k = 1 := by
  intro r hr hm k hkn
  have hk := run_kinv hwf false reqs {} hreq (Or.inr hG) (kinv_init g)
  exact count_eq_one_of_nodup hk.nd (run_needs hwf false reqs {} hreq (Or.inr hG) (kinv_init g) r hr hm k hkn)

/-- … and failed otherwise (finding K14a, corpus d02): a module without provides, a request that has a
free identifier, then a good request: the body is never evaluated (and the repaired machine does). -/
theorem instantiated_once_legacy_fails :
    let g : Graph := [⟨[['x']], [], [], []⟩]
    let reqs : List Request := [{ specs := [.path 0], mode := .failBuild }, { specs := [.path 0] }]
    g.wf = true ∧ (runRequestsI false g {} reqs).count 0 = 0 ∧ (runRequestsI true g {} reqs).count 0 = 1 := by
  decide

/-- Non-vacuity: a diamond `3 → {1, 2} → 0`; a failing request, the diamond's top, then its parts again
in another order: every body exactly once. -/
theorem example_diamond :
    let m := fun (reqs : List Spec) => (⟨[['x']], [⟨['x'], false⟩], reqs, []⟩ : Module)
    let g : Graph := [m [], m [.path 0], m [.prefixIn ['a', '.'] (.path 0)], m [.path 1, .path 2]]
    let reqs : List Request := [{ specs := [.path 2], mode := .failBuild }, { specs := [.path 3] },
      { specs := [.path 1, .path 0], mode := .failCompile }, { specs := [.path 0, .path 2] }]
    g.wf = true ∧ (runRequestsI true g {} reqs).inst = [0, 1, 2, 3] := by
  decide

/-! ## 4. Isolation in the global table -/

/-- **A module body defines only its own mangled names** (the code since 1587f6f5), so it changes
neither a name of another module — even one spelled the same — nor any global a program can write. -/
theorem module_isolation (g : Graph) (st st' : MState) (k : Nat) (fix : Fix)
    (hfix : fix.contractImports = true) (h : runModule fix g st k = some st') :
    (∀ j n, j ≠ k → st'.tbl.lookup (mangle j n) = st.tbl.lookup (mangle j n)) ∧
    (∀ s, SourceIdent s → st'.tbl.lookup s = st.tbl.lookup s) := by
  obtain ⟨imps, _, hkeep⟩ := runModule_tbl fix g st st' k h
  rw [hfix] at hkeep
  constructor
  · intro j n hj
    apply hkeep
    intro hmem
    obtain ⟨n', e⟩ := moduleWrites_mangled k (g.mod k) imps _ hmem
    exact hj (mangle_inj e).1
  · intro s hs
    apply hkeep
    intro hmem
    obtain ⟨n', e⟩ := moduleWrites_mangled k (g.mod k) imps _ hmem
    exact mangle_not_user_writable k n' s hs e.symm

/-- **The requiring program's own definitions and imports do not touch any module's names**: binding
source identifiers leaves every mangled key as it was. -/
theorem program_isolation (tbl : List (Name × Val)) (binds : List (Name × Val))
    (hsrc : ∀ b ∈ binds, SourceIdent b.1) (j : Nat) (n : Name) :
    (binds.foldl (fun t b => b :: t) tbl).lookup (mangle j n) = tbl.lookup (mangle j n) := by
  apply lookup_foldl_cons (mangle j n) (fun b : Name × Val => b)
  intro b hb e
  exact mangle_not_user_writable j n b.1 (hsrc b hb) e.symm

/-- **Contracts are attached at the module boundary only**: inside the module a definition is bound
to the bare definition; what the module hands out for a `(contract/out name c)` provide carries the
contract (and a plain provide hands out whatever the name is bound to). -/
theorem contract_at_boundary_only (g : Graph) (st st' : MState) (k : Nat) (fix : Fix)
    (h : runModule fix g st k = some st') :
    (∀ d ∈ (g.mod k).defs, st'.tbl.lookup (mangle k d) = some ⟨.mod k, d, false⟩) ∧
    (∃ hash, st'.hashes.lookup k = some hash ∧
      ∀ e ∈ hash, ∃ p ∈ (g.mod k).provs, p.name = e.name ∧ e.cform = p.contract ∧
        (p.contract = true → e.val.contracted = true)) :=
  ⟨runModule_own_defs fix g st st' k h, runModule_hash fix g st st' k h⟩

/-- Non-vacuity: `m0` provides `f` through `contract/out`; its own `f` is bare, the exported one is not. -/
example :
    let g : Graph := [⟨[['f']], [⟨['f'], true⟩], [], []⟩]
    (runModule {} g {} 0).map (fun st =>
      (st.tbl.lookup (mangle 0 ['f']), (st.hashes.lookup 0).map (·.map (·.val.contracted)))) =
    some (some ⟨.mod 0, ['f'], false⟩, some [true]) := by decide

/-- Before 1587f6f5 (regression witness, finding K14b, corpus d03): a `contract/out` import under a
prefix was defined as the *global* `q.f`. -/
theorem module_isolation_legacy_fails :
    let g : Graph := [⟨[['f']], [⟨['f'], true⟩], [], []⟩, ⟨[], [], [.prefixIn ['q', '.'] (.path 0)], []⟩]
    let run := fun (fix : Fix) =>
      ((runModule fix g {} 0).bind fun st => runModule fix g st 1).map fun st =>
        (st.tbl.lookup ['q', '.', 'f']).isSome
    run { contractImports := false } = some true ∧ run {} = some false := by
  decide

end SteelVerif.C14
