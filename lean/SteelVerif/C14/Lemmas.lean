/-
C14 — lemmas about name mangling and require specifications.
-/
import SteelVerif.C14.Model
namespace SteelVerif.C14

/-! ## decimal rendering -/

def digitVal (c : Char) : Nat := c.toNat - 48

def decVal (l : List Char) : Nat := l.foldl (fun a c => a * 10 + digitVal c) 0

theorem digitVal_digitChar : ∀ d, d < 10 → digitVal (digitChar d) = d := by
  intro d h
  match d, h with
  | 0, _ => rfl | 1, _ => rfl | 2, _ => rfl | 3, _ => rfl | 4, _ => rfl
  | 5, _ => rfl | 6, _ => rfl | 7, _ => rfl | 8, _ => rfl | 9, _ => rfl
  | n + 10, h => omega

theorem digitChar_isDigit (d : Nat) : (digitChar d).isDigit = true := by
  unfold digitChar
  split <;> decide

theorem decVal_append (l : List Char) (c : Char) : decVal (l ++ [c]) = decVal l * 10 + digitVal c := by
  simp [decVal, List.foldl_append]

theorem decVal_decFuel : ∀ f n, n < f → decVal (decFuel f n) = n := by
  intro f
  induction f with
  | zero => intro n h; omega
  | succ f ih =>
    intro n h
    unfold decFuel
    split
    · rename_i h10
      simp [decVal, digitVal_digitChar n h10]
    · rename_i h10
      rw [decVal_append, ih (n / 10) (by omega), digitVal_digitChar _ (by omega)]
      omega

theorem decVal_dec (n : Nat) : decVal (dec n) = n := decVal_decFuel (n + 1) n (by omega)

theorem dec_injective {i j : Nat} (h : dec i = dec j) : i = j := by
  have := congrArg decVal h
  rwa [decVal_dec, decVal_dec] at this

theorem decFuel_digits : ∀ f n, ∀ c ∈ decFuel f n, c.isDigit = true := by
  intro f
  induction f with
  | zero => intro n c h; simp [decFuel] at h
  | succ f ih =>
    intro n c h
    unfold decFuel at h
    split at h
    · simp at h; subst h; exact digitChar_isDigit _
    · simp at h
      rcases h with h | h
      · exact ih _ c h
      · subst h; exact digitChar_isDigit _

theorem dec_digits (n : Nat) : ∀ c ∈ dec n, c.isDigit = true := decFuel_digits _ _

/-- Two strings "digits ++ (non-digit :: rest)" are equal only if the digit runs and the rests are. -/
theorem digits_split : ∀ (l1 l2 : List Char) (c1 c2 : Char) (t1 t2 : List Char),
    (∀ c ∈ l1, c.isDigit = true) → (∀ c ∈ l2, c.isDigit = true) →
    c1.isDigit = false → c2.isDigit = false →
    l1 ++ c1 :: t1 = l2 ++ c2 :: t2 → l1 = l2 ∧ c1 :: t1 = c2 :: t2 := by
  intro l1
  induction l1 with
  | nil =>
    intro l2 c1 c2 t1 t2 _ h2 hc1 _ h
    cases l2 with
    | nil => exact ⟨rfl, by simpa using h⟩
    | cons b l2 =>
      simp at h
      have := h2 b (by simp)
      rw [← h.1] at this
      simp [this] at hc1
  | cons a l1 ih =>
    intro l2 c1 c2 t1 t2 h1 h2 hc1 hc2 h
    cases l2 with
    | nil =>
      simp at h
      have := h1 a (by simp)
      rw [h.1] at this
      simp [this] at hc2
    | cons b l2 =>
      simp at h
      obtain ⟨hab, ht⟩ := h
      have := ih l2 c1 c2 t1 t2 (fun c hc => h1 c (by simp [hc])) (fun c hc => h2 c (by simp [hc])) hc1 hc2 ht
      exact ⟨by rw [hab, this.1], this.2⟩

theorem mangle_eq (i : Nat) (n : Name) :
    mangle i n = '#' :: '#' :: 'm' :: 'm' :: (dec i ++ '_' :: ('_' :: '%' :: '#' :: '_' :: '_' :: n)) := by
  simp [mangle, modulePrefix, manglerPrefix, manglerSeparator]

theorem mangle_inj {i j : Nat} {n m : Name} (h : mangle i n = mangle j m) : i = j ∧ n = m := by
  rw [mangle_eq, mangle_eq] at h
  simp only [List.cons.injEq, true_and] at h
  have := digits_split (dec i) (dec j) '_' '_' _ _ (dec_digits i) (dec_digits j) (by decide) (by decide) h
  refine ⟨dec_injective this.1, ?_⟩
  simpa using this.2

theorem mangle_hashhash (i : Nat) (n : Name) : ['#', '#'] <+: mangle i n := by
  rw [mangle_eq]
  exact ⟨_, rfl⟩

end SteelVerif.C14
