/-
C14 — macros provided by modules: a model M of which macros a `require` brings into scope
(`compiler/modules.rs::find_in_scope_macros`), where they stay (`compile_main`: `global_macro_map.extend`, never
rolled back), and which macro a use inside a module body denotes (`ModuleBuilder::compile…`: the macros of the
required modules are overlays that are searched BEFORE the module's own macros, first require first).
For S a macro is a definition like any other (the driver merges `macs` into `defs` and the macro provides into
`provs` and runs the S of `Model.lean`).

`MacFix`: the points in which the code deviates / deviated from S, switchable; the defaults are the code as it is,
read from the source by the translator.
Imports nothing outside core.
-/
import SteelVerif.C14.Model
import SteelVerif.C14.GenTables
namespace SteelVerif.C14

/-- The macro part of a module: `(define-syntax m …)`, `(provide m)` of a macro, `(provide (for-syntax m))`. -/
structure MacMod where
  macs : List Name := []
  plainProv : List Name := []
  fsProv : List Name := []
  views : List Name := []      -- macro names the module's probe uses
deriving Repr, Inhabited

/-- Variants of the mechanism.  The defaults are the code as it is, READ FROM THE SOURCE by
`translate/c14_tables.py`: `modifiers` = `find_in_scope_macros` keeps only the macros an identifier list names and
prefixes the `for-syntax` provides too (commit 0fe3fa8e, finding K14e), `rollback` = the macro environment is
restored when a program fails to compile / build (commit 3bef0920, finding K14f).  `ownFirst` is what S asks where
the code still deviates (open finding K14g); `compose` goes with `Fix.compose` (K14c). -/
structure MacFix where
  compose : Bool := false
  modifiers : Bool := Gen.macroModifiersApplied
  rollback : Bool := Gen.macroEnvRolledBack
  ownFirst : Bool := false     -- K14g repaired: inside a module its own macro wins over an imported one
deriving Repr, Inhabited, DecidableEq

abbrev MacGraph := List MacMod

def MacGraph.mod (mg : MacGraph) (k : Nat) : MacMod := mg.getD k {}

/-- `HashMap::insert` / `remove` on an association list with unique keys. -/
def minsert (l : List (Name × Val)) (k : Name) (v : Val) : List (Name × Val) :=
  (l.filter fun e => e.1 != k) ++ [(k, v)]
def mremove (l : List (Name × Val)) (k : Name) : List (Name × Val) := l.filter fun e => e.1 != k

/-- The module's `macro_map` after its requires were processed: for every require WITHOUT an identifier list,
every identifier the required module provides (`(provide x)`, `(contract/out x c)` — not `(for-syntax x)`) is
REMOVED from the module's own macros (`macro_map.remove(ident)` in the require loop of the module compilation). -/
def effMacs (ownFirst : Bool) (g : Graph) (mg : MacGraph) (k : Nat) : List Name :=
  if ownFirst then (mg.mod k).macs
  else (mg.mod k).macs.filter fun n =>
    !((g.mod k).reqs.any fun s =>
        s.flatten.idents.isEmpty &&
          (((g.mod s.target).provs.map (·.name)) ++ (mg.mod s.target).plainProv).contains n)

/-- The macros module `t` provides (only its own macros can be provided): `provides_for_syntax` chained with the
plain provides, filtered by `module.macro_map`. -/
def providedMacros (ownFirst : Bool) (g : Graph) (mg : MacGraph) (t : Nat) : List (Name × Val) :=
  let d := mg.mod t
  ((d.fsProv ++ d.plainProv).filter fun n => (effMacs ownFirst g mg t).contains n).foldl
    (fun acc n => minsert acc n ⟨.mod t, n, false⟩) []

/-- `find_in_scope_macros`: the macros the flat require `r` brings into scope.  Start from all provided macros;
with an identifier list, re-insert every listed one under alias / prefix (recording the names inserted: `listed`)
and — since 0fe3fa8e — keep only those; without one, prefix the macros provided as plain identifiers and — since
0fe3fa8e — the ones provided through `for-syntax`. -/
def macScopeM (fix : MacFix) (g : Graph) (mg : MacGraph) (r : Req) : List (Name × Val) :=
  let d := mg.mod r.target
  let macs := effMacs fix.ownFirst g mg r.target
  let init := providedMacros fix.ownFirst g mg r.target
  if !r.idents.isEmpty then
    let res := r.idents.foldl (fun (st : List (Name × Val) × List Name) ia =>
      let acc := st.1
      match ia.2 with
      | none =>
        if !(acc.map (·.1)).contains ia.1 then st
        else if macs.contains ia.1 then
          if r.pfx ≠ [] then
            (minsert (mremove acc ia.1) (r.pfx ++ ia.1) ⟨.mod r.target, ia.1, false⟩, (r.pfx ++ ia.1) :: st.2)
          else (minsert acc ia.1 ⟨.mod r.target, ia.1, false⟩, ia.1 :: st.2)
        else st
      | some to =>
        if macs.contains ia.1 then
          if !(acc.map (·.1)).contains ia.1 then st
          else (minsert (mremove acc ia.1) (r.pfx ++ to) ⟨.mod r.target, ia.1, false⟩, (r.pfx ++ to) :: st.2)
        else st) (init, [])
    if fix.modifiers then res.1.filter fun e => res.2.contains e.1 else res.1
  else
    let plain := (d.plainProv.filter fun n => macs.contains n).foldl (fun acc n =>
      if r.pfx ≠ [] then mremove (minsert acc (r.pfx ++ n) ⟨.mod r.target, n, false⟩) n
      else minsert acc n ⟨.mod r.target, n, false⟩) init
    if fix.modifiers && !r.pfx.isEmpty then
      d.fsProv.foldl (fun acc n =>
        match acc.lookup n with
        | some v => minsert (mremove acc n) (r.pfx ++ n) v
        | none => acc) plain
    else plain

/-- The macro names a spec makes available when the modifiers are composed. -/
def macNamesS (mg : MacGraph) : Spec → List Name
  | .path m => (mg.mod m).fsProv ++ (mg.mod m).plainProv
  | .prefixIn p s => (macNamesS mg s).map (p ++ ·)
  | .onlyIn s ids => ids.filterMap fun ia => if (macNamesS mg s).contains ia.1 then some (ia.2.getD ia.1) else none

/-- A spec with the `only-in` entries that name macros (`mac = true`) / that do not (`mac = false`). -/
def Spec.part (mg : MacGraph) (mac : Bool) : Spec → Spec
  | .path m => .path m
  | .prefixIn p s => .prefixIn p (s.part mg mac)
  | .onlyIn s ids => .onlyIn (s.part mg mac) (ids.filter fun ia => (macNamesS mg s).contains ia.1 == mac)

/-- The macros a require spec brings into scope: the code as it is, or (both repairs) what S asks. -/
def macScope (fix : MacFix) (g : Graph) (mg : MacGraph) (s : Spec) : List (Name × Val) :=
  if fix.compose then
    ((s.part mg true).importsS (providedMacros fix.ownFirst g mg)).getD []
  else macScopeM fix g mg s.flatten

/-- What the requires of a program add to the engine's macro environment (`extend`: later entries replace). -/
def macImports (fix : MacFix) (g : Graph) (mg : MacGraph) (specs : List Spec) : List (Name × Val) :=
  specs.foldl (fun env s => (macScope fix g mg s).foldl (fun e b => minsert e b.1 b.2) env) []

/-- The engine's macro environment after a request with status `status` that got as far as expanding its
requires (`expanded` = the requires were processed: everything except a failure inside a required module). -/
def macStep (fix : MacFix) (g : Graph) (mg : MacGraph) (env : List (Name × Val)) (specs : List Spec)
    (status : Status) :
    List (Name × Val) :=
  let failed := status = .errSyntax ∨ status = .errFreeId ∨ status = .errRequire
  if failed ∧ fix.rollback then env
  else if status = .errRequire then env
  else (macImports fix g mg specs).foldl (fun e b => minsert e b.1 b.2) env

/-- The macro a use of `n` inside the body of module `k` denotes: the overlays of its requires, first require
first, then its own macros. -/
def macViewM (fix : MacFix) (g : Graph) (mg : MacGraph) (k : Nat) (n : Name) : Option Val :=
  let own : Option Val := if (effMacs fix.ownFirst g mg k).contains n then some ⟨.mod k, n, false⟩ else none
  let scopes := (g.mod k).reqs.map fun s => macScope fix g mg s
  if fix.ownFirst then
    match own with
    | some v => some v
    | none => (scopes.reverse.findSome? fun sc => sc.lookup n)      -- like values: the last require wins
  else
    match scopes.findSome? fun sc => sc.lookup n with
    | some v => some v
    | none => own

/-- The graph S runs on: a macro is a definition, a macro provide is a provide. -/
def mergeMacros (g : Graph) (mg : MacGraph) : Graph :=
  (List.range g.length).map fun k =>
    let m := g.mod k
    let d := mg.mod k
    { m with defs := m.defs ++ d.macs,
             provs := m.provs ++ (d.fsProv ++ d.plainProv).map fun n => ⟨n, false⟩,
             views := m.views ++ d.views }

/-- The graph the value layer of the flat machine runs on when the modifiers are composed (`Fix.compose`): an
`only-in` entry that names a macro is the macro layer's business. -/
def valueGraph (g : Graph) (mg : MacGraph) : Graph :=
  g.map fun m => { m with reqs := m.reqs.map fun s => s.part mg false }

end SteelVerif.C14
