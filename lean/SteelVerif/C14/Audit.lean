import SteelVerif.C14.Props
open SteelVerif.C14
#print axioms model_constants_match_source
#print axioms mangle_injective
#print axioms mangle_not_user_writable
#print axioms privates_disjoint
#print axioms privates_distinct
#print axioms flatten_is
#print axioms prefixes_concatenate_outer_first
#print axioms visible_iff_provided
#print axioms visible_iff_provided_graph
#print axioms import_refers_to_provided
#print axioms only_in_missing_is_error
#print axioms only_in_unknown_is_error_S
#print axioms only_in_unknown_ignored_M
#print axioms flat_agrees_with_composition
#print axioms flat_differs_from_composition
#print axioms instantiated_once
#print axioms instantiated_only_if_needed
#print axioms good_request_runs
#print axioms instantiated_at_most_once_legacy
#print axioms instantiated_once_legacy_partial
#print axioms instantiated_once_legacy_fails
#print axioms example_diamond
#print axioms module_isolation
#print axioms program_isolation
#print axioms contract_at_boundary_only
#print axioms module_isolation_legacy_fails
