import SteelVerif.C14.Props
open SteelVerif.C14
#print axioms stub_true
