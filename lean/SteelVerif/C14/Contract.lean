/-
C14 — contracts at the module boundary: a model M of what `contracts.scm` does when a value provided through
`(contract/out name c)` is used (`bind/c`, the dispatch on the arity, `apply-contracted-function*`,
`apply-function-contract*`, `test-arg`, `check-output`), parameterised by the table that
`translate/c14_tables.py` regenerates from the current `contracts.scm` (`GenTables.lean`), and its specification
S: every first-order value that crosses the boundary in a position with a flat contract is checked exactly once,
when it crosses, in the order of crossing; a function that crosses in a position with a function contract is
wrapped, so that the values that cross when IT is called are checked then; nothing else is checked.

Contracts of order ≤ 2 (what `contract/out` is used with here: first-order predicates, and functions taking
first-order values and callbacks over first-order values); first-order values are numbers; predicates are numbered.
Imports nothing outside core except the generated table.
-/
import SteelVerif.C14.GenTables
namespace SteelVerif.C14.Contract

/-- One application of a flat contract: predicate `p` applied to value `v`. -/
structure Check where
  p : Nat
  v : Nat
deriving Repr, DecidableEq

abbrev Trace := List Check

inductive Res where
  | ok (v : Nat)
  | violation (p v : Nat)      -- a flat contract failed
  | arity                      -- wrong number of arguments
  | stuck                      -- the path refers to a parameter / pre-condition that does not exist, or a
                               -- first-order value met a function contract (or the other way round)
deriving Repr, DecidableEq

structure Out where
  trace : Trace
  res : Res
deriving Repr, DecidableEq

/-- A callable first-order function together with the checks a call of it performs. -/
abbrev Cb := List Nat → Out

def rawCb (f : List Nat → Nat) : Cb := fun as => ⟨[], .ok (f as)⟩

/-- An argument of an exported function: a first-order value or a callback. -/
inductive AVal where
  | val (v : Nat)
  | fn (c : Cb)

/-- A contract in a domain position. -/
inductive Pos where
  | flat (p : Nat)
  | fn (doms : List Nat) (rng : Nat)        -- `(->/c p… r)` over flat contracts
deriving Repr, DecidableEq

/-- `(->/c d… r)` attached by `contract/out`. -/
structure FnC where
  doms : List Pos
  rng : Nat
deriving Repr, DecidableEq

/-- The body of an exported function, contract-free: it may call its callback parameters and returns a value. -/
inductive Prog where
  | ret (v : Nat)
  | call (i : Nat) (args : List Nat) (k : Nat → Prog)

def run (as : List AVal) : Prog → Out
  | .ret v => ⟨[], .ok v⟩
  | .call i args k =>
    match as[i]? with
    | some (.fn c) =>
      let o := c args
      match o.res with
      | .ok r => let o' := run as (k r); ⟨o.trace ++ o'.trace, o'.res⟩
      | e => ⟨o.trace, e⟩
    | _ => ⟨[], .stuck⟩

/-! ## the mechanism -/

/-- `test-arg` on a flat contract / `check-output` on a flat range: apply the predicate. -/
def checkFlat (holds : Nat → Nat → Bool) (p v : Nat) : Trace × Except Res Nat :=
  ([⟨p, v⟩], if holds p v then .ok v else .error (.violation p v))

/-- The arguments of `(function (test-arg …) (test-arg …) …)`, evaluated left to right: each entry of the
path's `tests` names a pre-condition and a parameter. -/
def validateSeq {γ α β : Type} (test : γ → α → Trace × Except Res β) (pre : List γ) (args : List α) :
    List (Nat × Nat × Nat) → Trace × Except Res (List β)
  | [] => ([], .ok [])
  | (pi, ai, _) :: rest =>
    match pre[pi]?, args[ai]? with
    | some c, some a =>
      match test c a with
      | (t, .ok b) =>
        match validateSeq test pre args rest with
        | (t', .ok bs) => (t ++ t', .ok (b :: bs))
        | (t', .error e) => (t ++ t', .error e)
      | (t, .error e) => (t, .error e)
    | _, _ => ([], .error .stuck)

/-- What one row of the table means for a call. -/
structure PathSem where
  tests : List (Nat × Nat × Nat)
  validated : Bool        -- the function is applied to the values `test-arg` returned
  outChecked : Bool       -- the result goes through `check-output`
deriving Repr, DecidableEq

/-- `bind/c`'s dispatch: the row for the arity, else the general row. -/
def pathSem (paths : List Gen.ContractPath) (generalAll : Bool) (n : Nat) : PathSem :=
  let row := match paths.find? (fun r => r.arity == some n) with
    | some r => some r
    | none => paths.find? (fun r => r.arity == none)
  match row with
  | none => ⟨[], false, false⟩
  | some r =>
    if !(r.lambdaPassesParams && r.forwardOk) then ⟨[], false, false⟩
    else
      ⟨if r.general then (if generalAll then (List.range n).map fun i => (i, i, i) else []) else r.tests,
        r.appliedToValidated, r.outputChecked⟩

/-- `bind/c` of a first-order function contract around `c`. -/
def bind1 (sem : Nat → PathSem) (holds : Nat → Nat → Bool) (doms : List Nat) (rng : Nat) (c : Cb) : Cb :=
  fun args =>
    if args.length ≠ doms.length then ⟨[], .arity⟩
    else
      let ps := sem doms.length
      match validateSeq (checkFlat holds) doms args ps.tests with
      | (t, .error e) => ⟨t, e⟩
      | (t, .ok vs) =>
        let o := c (if ps.validated then vs else args)
        match o.res with
        | .ok r =>
          if ps.outChecked then ⟨t ++ o.trace ++ [⟨rng, r⟩], if holds rng r then .ok r else .violation rng r⟩
          else ⟨t ++ o.trace, .ok r⟩
        | e => ⟨t ++ o.trace, e⟩

/-- `test-arg` on any domain position: a flat contract checks the value, a function contract wraps it. -/
def testArg (sem : Nat → PathSem) (holds : Nat → Nat → Bool) : Pos → AVal → Trace × Except Res AVal
  | .flat p, .val v =>
    match checkFlat holds p v with
    | (t, .ok v) => (t, .ok (.val v))
    | (t, .error e) => (t, .error e)
  | .fn ds r, .fn c => ([], .ok (.fn (bind1 sem holds ds r c)))
  | _, _ => ([], .error .stuck)

/-- `bind/c` of the contract of a `contract/out` around the function `body`: what a call from outside does. -/
def bind2 (sem : Nat → PathSem) (holds : Nat → Nat → Bool) (c : FnC) (body : List AVal → Out) : List AVal → Out :=
  fun args =>
    if args.length ≠ c.doms.length then ⟨[], .arity⟩
    else
      let ps := sem c.doms.length
      match validateSeq (testArg sem holds) c.doms args ps.tests with
      | (t, .error e) => ⟨t, e⟩
      | (t, .ok vs) =>
        let o := body (if ps.validated then vs else args)
        match o.res with
        | .ok r =>
          if ps.outChecked then ⟨t ++ o.trace ++ [⟨c.rng, r⟩], if holds c.rng r then .ok r else .violation c.rng r⟩
          else ⟨t ++ o.trace, .ok r⟩
        | e => ⟨t ++ o.trace, e⟩

/-- M: a call from outside the module of a name provided through `(contract/out name c)`. -/
def callM (holds : Nat → Nat → Bool) (c : FnC) (body : Prog) (args : List AVal) : Out :=
  bind2 (pathSem Gen.contractPaths Gen.generalValidatesAllInOrder) holds c (fun as => run as body) args

/-- A call from inside the module: the name is bound to the definition itself. -/
def callInside (body : Prog) (args : List AVal) : Out := run args body

/-! ## the specification -/

/-- Every crossing, left to right. -/
def validateAll {γ α β : Type} (test : γ → α → Trace × Except Res β) : List γ → List α → Trace × Except Res (List β)
  | c :: cs, a :: as =>
    match test c a with
    | (t, .ok b) =>
      match validateAll test cs as with
      | (t', .ok bs) => (t ++ t', .ok (b :: bs))
      | (t', .error e) => (t ++ t', .error e)
    | (t, .error e) => (t, .error e)
  | [], [] => ([], .ok [])
  | _, _ => ([], .error .stuck)

/-- S for a callback that crossed into the module under `(->/c p… r)`: when the module calls it, the arguments
cross outwards and the result crosses inwards. -/
def wrapS1 (holds : Nat → Nat → Bool) (doms : List Nat) (rng : Nat) (c : Cb) : Cb :=
  fun args =>
    if args.length ≠ doms.length then ⟨[], .arity⟩
    else
      match validateAll (checkFlat holds) doms args with
      | (t, .error e) => ⟨t, e⟩
      | (t, .ok vs) =>
        let o := c vs
        match o.res with
        | .ok r => ⟨t ++ o.trace ++ [⟨rng, r⟩], if holds rng r then .ok r else .violation rng r⟩
        | e => ⟨t ++ o.trace, e⟩

def crossS (holds : Nat → Nat → Bool) : Pos → AVal → Trace × Except Res AVal
  | .flat p, .val v =>
    match checkFlat holds p v with
    | (t, .ok v) => (t, .ok (.val v))
    | (t, .error e) => (t, .error e)
  | .fn ds r, .fn c => ([], .ok (.fn (wrapS1 holds ds r c)))
  | _, _ => ([], .error .stuck)

/-- S: a call from outside: the arguments cross inwards, the body runs on what crossed, the result crosses
outwards. -/
def callS (holds : Nat → Nat → Bool) (c : FnC) (body : Prog) (args : List AVal) : Out :=
  if args.length ≠ c.doms.length then ⟨[], .arity⟩
  else
    match validateAll (crossS holds) c.doms args with
    | (t, .error e) => ⟨t, e⟩
    | (t, .ok vs) =>
      let o := run vs body
      match o.res with
      | .ok r => ⟨t ++ o.trace ++ [⟨c.rng, r⟩], if holds c.rng r then .ok r else .violation c.rng r⟩
      | e => ⟨t ++ o.trace, e⟩

/-! ## the shapes the harness generates (`harness/src/bin/c14.rs`: `contract_text`, `define_text`, `obs_expr`) -/

/-- predicate 0 = `c14-int?` (counted by the harness), predicate 1 = `any/c`. -/
def holdsStd (p v : Nat) : Bool := p == 1 || v < 1000      -- numbers ≥ 1000 stand for non-integers

/-- `(->/c c14-int? any/c)` -/
def contractF : FnC := ⟨[.flat 0], 1⟩
/-- `(->/c (->/c c14-int? c14-int?) c14-int? … any/c)` with `n` parameters -/
def contractH (n : Nat) : FnC := ⟨.fn [0] 0 :: List.replicate (n - 1) (.flat 0), 1⟩
/-- `(define (f n) tag)` -/
def bodyF : Prog := .ret 7
/-- `(define (h cb a…) (cb 1) tag)` -/
def bodyH : Prog := .call 0 [1] fun _ => .ret 7
/-- the good call of `obs_expr`: `(f 0)` / `(h (lambda (x) x) 1 2 …)` -/
def argsF : List AVal := [.val 0]
def argsH (n : Nat) : List AVal := .fn (rawCb fun as => as.headD 0) :: (List.range (n - 1)).map fun i => .val (i + 1)

def countP0 (t : Trace) : Nat := (t.filter fun c => c.p == 0).length

/-- Number of evaluations of `c14-int?` during the good call of a provided function with `n` parameters
(`hof` = the first parameter is a callback), through the contract (`contracted`) or not; by M or by S. -/
def predictedChecks (useM : Bool) (contracted hof : Bool) (n : Nat) : Nat :=
  let c := if hof then contractH n else contractF
  let body := if hof then bodyH else bodyF
  let args := if hof then argsH n else argsF
  if !contracted then countP0 (callInside body args).trace
  else if useM then countP0 (callM holdsStd c body args).trace
  else countP0 (callS holdsStd c body args).trace

end SteelVerif.C14.Contract
