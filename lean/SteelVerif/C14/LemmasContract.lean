/-
C14 — lemmas about the contract mechanism (`Contract.lean`): a path that tests every parameter against its own
pre-condition, in order, is the left-to-right crossing of S; the table read from `contracts.scm` is such a path
for every arity.
-/
import SteelVerif.C14.Contract
namespace SteelVerif.C14.Contract

def idTests (n : Nat) : List (Nat × Nat × Nat) := (List.range n).map fun i => (i, i, i)

theorem validateSeq_range' {γ α β : Type} (test : γ → α → Trace × Except Res β) (pre : List γ) (args : List α) :
    ∀ (m k : Nat), pre.length = k + m → args.length = k + m →
      validateSeq test pre args ((List.range' k m).map fun i => (i, i, i)) =
        validateAll test (pre.drop k) (args.drop k) := by
  intro m
  induction m with
  | zero =>
    intro k hp ha
    have h1 : pre.drop k = [] := List.drop_eq_nil_of_le (by omega)
    have h2 : args.drop k = [] := List.drop_eq_nil_of_le (by omega)
    simp [List.range', validateSeq, h1, h2, validateAll]
  | succ m ih =>
    intro k hp ha
    have hk1 : k < pre.length := by omega
    have hk2 : k < args.length := by omega
    rw [List.drop_eq_getElem_cons hk1, List.drop_eq_getElem_cons hk2]
    simp only [List.range', List.map_cons, validateSeq, List.getElem?_eq_getElem hk1,
      List.getElem?_eq_getElem hk2, validateAll]
    rw [ih (k + 1) (by omega) (by omega)]

theorem validateSeq_id {γ α β : Type} (test : γ → α → Trace × Except Res β) (pre : List γ) (args : List α)
    (h : args.length = pre.length) :
    validateSeq test pre args (idTests pre.length) = validateAll test pre args := by
  have := validateSeq_range' test pre args pre.length 0 (by omega) (by omega)
  simpa [idTests, List.range_eq_range'] using this

/-- The obligation on the table: every arity is served by a path that passes the parameters on, tests parameter
`i` against pre-condition `i` (blame position `i`) for every `i` in order, applies the function to the tested
values and checks the result. -/
def tableOK (paths : List Gen.ContractPath) (generalAll : Bool) : Bool :=
  (List.range 4).all (fun n => pathSem paths generalAll n == ⟨idTests n, true, true⟩) &&
  paths.all (fun r => match r.arity with | some k => decide (k < 4) | none => true) &&
  (match paths.find? (fun r => r.arity == none) with
   | some r => r.lambdaPassesParams && r.forwardOk && r.general && r.appliedToValidated && r.outputChecked &&
       generalAll
   | none => false)

theorem pathSem_ok {paths : List Gen.ContractPath} {ga : Bool} (h : tableOK paths ga = true) (n : Nat) :
    pathSem paths ga n = ⟨idTests n, true, true⟩ := by
  simp only [tableOK, Bool.and_eq_true, List.all_eq_true, List.mem_range, beq_iff_eq] at h
  obtain ⟨⟨h1, h2⟩, h3⟩ := h
  by_cases hn : n < 4
  · exact h1 n hn
  · have hnone : paths.find? (fun r => r.arity == some n) = none := by
      rw [List.find?_eq_none]
      intro r hr
      have := h2 r hr
      cases ha : r.arity with
      | none => simp
      | some k =>
        rw [ha] at this
        simp only [decide_eq_true_eq] at this
        simp only [beq_iff_eq, Option.some.injEq]
        omega
    unfold pathSem
    simp only [hnone]
    cases hf : paths.find? (fun r => r.arity == none) with
    | none => rw [hf] at h3; simp at h3
    | some r =>
      rw [hf] at h3
      simp only [Bool.and_eq_true] at h3
      obtain ⟨⟨⟨⟨⟨a, b⟩, c⟩, d⟩, e⟩, f⟩ := h3
      simp [a, b, c, d, e, f, idTests]

theorem bind1_eq {sem : Nat → PathSem} (hsem : ∀ n, sem n = ⟨idTests n, true, true⟩) (holds : Nat → Nat → Bool)
    (doms : List Nat) (rng : Nat) (c : Cb) : bind1 sem holds doms rng c = wrapS1 holds doms rng c := by
  funext args
  unfold bind1 wrapS1
  by_cases hl : args.length = doms.length
  · simp only [hl, ne_eq, not_true_eq_false, if_false, hsem, validateSeq_id _ _ _ hl, if_true]
  · simp [hl]

theorem testArg_eq {sem : Nat → PathSem} (hsem : ∀ n, sem n = ⟨idTests n, true, true⟩) (holds : Nat → Nat → Bool)
    (p : Pos) (a : AVal) : testArg sem holds p a = crossS holds p a := by
  cases p <;> cases a <;> simp [testArg, crossS, bind1_eq hsem]

theorem bind2_eq {sem : Nat → PathSem} (hsem : ∀ n, sem n = ⟨idTests n, true, true⟩) (holds : Nat → Nat → Bool)
    (c : FnC) (body : Prog) (args : List AVal) :
    bind2 sem holds c (fun as => run as body) args = callS holds c body args := by
  unfold bind2 callS
  have ht : testArg sem holds = crossS holds := by funext p a; exact testArg_eq hsem holds p a
  by_cases hl : args.length = c.doms.length
  · simp only [hl, ne_eq, not_true_eq_false, if_false, hsem, ht, validateSeq_id _ _ _ hl, if_true]
  · simp [hl]

/-! ## S: what is checked, and when -/

def AVal.Raw : AVal → Prop
  | .val _ => True
  | .fn c => ∃ f, c = rawCb f

theorem run_raw (as : List AVal) (h : ∀ a ∈ as, a.Raw) : ∀ (body : Prog), (run as body).trace = [] := by
  intro body
  induction body with
  | ret v => rfl
  | call i args k ih =>
    unfold run
    cases hi : as[i]? with
    | none => rfl
    | some a =>
      cases a with
      | val v => rfl
      | fn c =>
        obtain ⟨f, rfl⟩ : ∃ f, c = rawCb f := h (.fn c) (List.mem_of_getElem? hi)
        simp [rawCb, ih]

/-- The first-order values that cross inwards at a call, with the predicates of their positions. -/
def crossings : List Pos → List AVal → Trace
  | .flat p :: ps, .val v :: as => ⟨p, v⟩ :: crossings ps as
  | _ :: ps, _ :: as => crossings ps as
  | _, _ => []

/-- What the body receives when nothing is rejected. -/
def crossed (holds : Nat → Nat → Bool) : List Pos → List AVal → List AVal
  | .flat _ :: ps, .val v :: as => .val v :: crossed holds ps as
  | .fn ds r :: ps, .fn c :: as => .fn (wrapS1 holds ds r c) :: crossed holds ps as
  | _, _ => []

/-- Argument kinds match the contract (a number where a predicate is, a function where a function contract is). -/
def kindOK : List Pos → List AVal → Bool
  | .flat _ :: ps, .val _ :: as => kindOK ps as
  | .fn _ _ :: ps, .fn _ :: as => kindOK ps as
  | [], [] => true
  | _, _ => false

theorem validateAll_ok (holds : Nat → Nat → Bool) : ∀ (ps : List Pos) (as : List AVal), kindOK ps as = true →
    (∀ ch ∈ crossings ps as, holds ch.p ch.v = true) →
    validateAll (crossS holds) ps as = (crossings ps as, .ok (crossed holds ps as)) := by
  intro ps
  induction ps with
  | nil => intro as hk _; cases as <;> simp_all [kindOK, validateAll, crossings, crossed]
  | cons p ps ih =>
    intro as hk hh
    cases as with
    | nil => cases p <;> simp [kindOK] at hk
    | cons a as =>
      cases p with
      | flat q =>
        cases a with
        | fn c => simp [kindOK] at hk
        | val v =>
          have hq : holds q v = true := hh ⟨q, v⟩ (by simp [crossings])
          have := ih as (by simpa [kindOK] using hk) (fun ch hch => hh ch (by simp [crossings, hch]))
          simp [validateAll, crossS, checkFlat, hq, this, crossings, crossed]
      | fn ds r =>
        cases a with
        | val v => simp [kindOK] at hk
        | fn c =>
          have := ih as (by simpa [kindOK] using hk) (fun ch hch => hh ch (by simpa [crossings] using hch))
          simp [validateAll, crossS, this, crossings, crossed]

theorem validateAll_viol (holds : Nat → Nat → Bool) : ∀ (ps : List Pos) (as : List AVal) (pre post : Trace)
    (ch : Check), kindOK ps as = true → crossings ps as = pre ++ ch :: post →
    (∀ x ∈ pre, holds x.p x.v = true) → holds ch.p ch.v = false →
    validateAll (crossS holds) ps as = (pre ++ [ch], .error (.violation ch.p ch.v)) := by
  intro ps
  induction ps with
  | nil => intro as pre post ch _ hc; cases as <;> simp [crossings] at hc
  | cons p ps ih =>
    intro as pre post ch hk hc hpre hch
    cases as with
    | nil => cases p <;> simp [kindOK] at hk
    | cons a as =>
      cases p with
      | flat q =>
        cases a with
        | fn c => simp [kindOK] at hk
        | val v =>
          simp only [crossings] at hc
          cases pre with
          | nil =>
            simp only [List.nil_append, List.cons.injEq] at hc
            obtain ⟨rfl, _⟩ := hc
            simp [validateAll, crossS, checkFlat, hch]
          | cons x pre =>
            simp only [List.cons_append, List.cons.injEq] at hc
            obtain ⟨rfl, hc⟩ := hc
            have hq : holds q v = true := hpre ⟨q, v⟩ (by simp)
            have := ih as pre post ch (by simpa [kindOK] using hk) hc (fun y hy => hpre y (by simp [hy])) hch
            simp [validateAll, crossS, checkFlat, hq, this]
      | fn ds r =>
        cases a with
        | val v => simp [kindOK] at hk
        | fn c =>
          simp only [crossings] at hc
          have := ih as pre post ch (by simpa [kindOK] using hk) hc hpre hch
          simp [validateAll, crossS, this]

theorem kindOK_length : ∀ (ps : List Pos) (as : List AVal), kindOK ps as = true → as.length = ps.length := by
  intro ps
  induction ps with
  | nil => intro as h; cases as <;> simp_all [kindOK]
  | cons p ps ih =>
    intro as h
    cases as with
    | nil => cases p <;> simp [kindOK] at h
    | cons a as =>
      cases p <;> cases a <;> simp [kindOK] at h
      · simp [ih as h]
      · simp [ih as h]

end SteelVerif.C14.Contract
