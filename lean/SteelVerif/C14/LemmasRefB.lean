/-
C14 — lemmas for the whole-request refinement, part B: one module body on the flat machine establishes the
per-module invariant `ModOK` (its mangled keys hold what S's environment of the module holds, its table of
provides is S's export list) and leaves everything else alone (`Frame`).
-/
import SteelVerif.C14.LemmasRefA
namespace SteelVerif.C14

/-- Module `k` on the flat machine is what S says it is. -/
structure ModOK (ms : List SMod) (st : MState) (k : Nat) : Prop where
  globs : ∃ G, st.globs.lookup k = some G ∧ ∀ n, n ∈ G ↔ ((senv ms k).lookup n).isSome = true
  tbl : ∀ n, ((senv ms k).lookup n).isSome = true → st.tbl.lookup (mangle k n) = (senv ms k).lookup n
  hash : ∃ h, st.hashes.lookup k = some h ∧ h.map (fun e => (e.name, e.val)) = sExports ms k

/-- What running the bodies of the modules `ks` leaves alone. -/
structure Frame (ks : List Nat) (st st' : MState) : Prop where
  tbl : ∀ key, (∀ k ∈ ks, ∀ n, key ≠ mangle k n) → st'.tbl.lookup key = st.tbl.lookup key
  globs : ∀ j, j ∉ ks → st'.globs.lookup j = st.globs.lookup j
  hashes : ∀ j, j ∉ ks → st'.hashes.lookup j = st.hashes.lookup j
  views : st'.views = st.views
  im : st'.im = st.im
  nreq : st'.nreq = st.nreq
  rex : (∀ e ∈ st.rex, e.2 = []) → ∀ e ∈ st'.rex, e.2 = []
  leaks : (∀ e ∈ st.leaks, e.2 = []) → ∀ e ∈ st'.leaks, e.2 = []

theorem Frame.refl (st : MState) : Frame [] st st :=
  ⟨fun _ _ => rfl, fun _ _ => rfl, fun _ _ => rfl, rfl, rfl, rfl, fun h => h, fun h => h⟩

theorem Frame.trans {k : Nat} {ks : List Nat} {a b c : MState} (h1 : Frame [k] a b) (h2 : Frame ks b c) :
    Frame (k :: ks) a c := by
  refine ⟨?_, ?_, ?_, h2.views.trans h1.views, h2.im.trans h1.im, h2.nreq.trans h1.nreq,
    fun h => h2.rex (h1.rex h), fun h => h2.leaks (h1.leaks h)⟩
  · intro key hk
    rw [h2.tbl key (fun j hj => hk j (by simp [hj])), h1.tbl key (fun j hj => hk j (by simp at hj; simp [hj]))]
  · intro j hj
    simp only [List.mem_cons, not_or] at hj
    rw [h2.globs j hj.2, h1.globs j (by simp [hj.1])]
  · intro j hj
    simp only [List.mem_cons, not_or] at hj
    rw [h2.hashes j hj.2, h1.hashes j (by simp [hj.1])]

theorem ModOK.frame {ms : List SMod} {ks : List Nat} {st st' : MState} {j : Nat} (hf : Frame ks st st')
    (hj : j ∉ ks) (h : ModOK ms st j) : ModOK ms st' j := by
  refine ⟨?_, ?_, ?_⟩
  · rw [hf.globs j hj]; exact h.globs
  · intro n hn
    rw [hf.tbl (mangle j n) (fun k hk n' e => hj ((mangle_inj e).1 ▸ hk))]
    exact h.tbl n hn
  · rw [hf.hashes j hj]; exact h.hash

/-! ## the import list of the flat machine against S's -/

theorem mImports_false (hashes : List (Nat × List Export)) (specs : List Spec) :
    mImports false hashes specs =
      some (specs.flatMap fun s => s.flatten.bind (hashPairs hashes s.flatten.target)) := by
  simp only [mImports, Bool.false_eq_true, if_false, List.flatMap_map, Req.bind]

theorem spec_agree (ms : List SMod) (hashes : List (Nat × List Export)) (s : Spec)
    (hT : ∃ h, hashes.lookup s.target = some h ∧ h.map (fun e => (e.name, e.val)) = sExports ms s.target)
    (hC : s.canonical2 (expNames ms) = true) :
    ∃ l, s.importsS (sExports ms) = some l ∧
      RevEq ((s.flatten.bind (hashPairs hashes s.flatten.target)).map fun i => (i.1, i.2.val)) l := by
  obtain ⟨l, hl, hs⟩ := bind_same (sExports ms) s hC
  refine ⟨l, hl, ?_⟩
  obtain ⟨h, hh, hmap⟩ := hT
  have ht : s.flatten.target = s.target := by rw [flatten_eq]
  have : (s.flatten.bind (hashPairs hashes s.flatten.target)).map (fun i => (i.1, i.2.val)) =
      s.flatten.bind (sExports ms s.target) := by
    rw [bind_map Export.val, ht]
    congr 1
    simp only [hashPairs, hh, Option.getD_some, List.map_map]
    rw [← hmap]
    rfl
  rw [this]
  exact hs.revEq

theorem imports_agree_flat (ms : List SMod) (hashes : List (Nat × List Export)) (specs : List Spec)
    (hT : ∀ s ∈ specs, ∃ h, hashes.lookup s.target = some h ∧
      h.map (fun e => (e.name, e.val)) = sExports ms s.target)
    (hC : ∀ s ∈ specs, s.canonical2 (expNames ms) = true) :
    ∃ imps, mImports false hashes specs = some imps ∧
      RevEq (imps.map fun i => (i.1, i.2.val)) (sImports (sExports ms) specs) ∧
      ∀ s ∈ specs, ∃ l, s.importsS (sExports ms) = some l := by
  refine ⟨_, mImports_false hashes specs, ?_, fun s hs => ?_⟩
  · rw [List.map_flatMap]
    unfold sImports
    apply RevEq.flatMap
    intro s hs
    obtain ⟨l, hl, hr⟩ := spec_agree ms hashes s (hT s hs) (hC s hs)
    rw [hl]
    exact hr
  · obtain ⟨l, hl, _⟩ := spec_agree ms hashes s (hT s hs) (hC s hs)
    exact ⟨l, hl⟩

/-- With the modifiers composed the flat machine reads the same lists as S, entry by entry. -/
theorem spec_agree_compose (ms : List SMod) (hashes : List (Nat × List Export)) (s : Spec)
    (hT : ∃ h, hashes.lookup s.target = some h ∧ h.map (fun e => (e.name, e.val)) = sExports ms s.target)
    (l : List (Name × Val)) (hl : s.importsS (sExports ms) = some l) :
    ∃ L, s.importsS (hashPairs hashes) = some L ∧ L.map (fun i => (i.1, i.2.val)) = l := by
  obtain ⟨h, hh, hmap⟩ := hT
  have hnat := importsS_map Export.val (hashPairs hashes) s
  have hcongr : s.importsS (fun m => (hashPairs hashes m).map fun e => (e.1, e.2.val)) =
      s.importsS (sExports ms) := by
    apply importsS_congr
    simp only [hashPairs, hh, Option.getD_some, List.map_map]
    rw [← hmap]
    rfl
  rw [hcongr, hl] at hnat
  cases hL : s.importsS (hashPairs hashes) with
  | none => rw [hL] at hnat; simp at hnat
  | some L =>
    rw [hL] at hnat
    simp only [Option.map_some, Option.some.injEq] at hnat
    exact ⟨L, rfl, hnat.symm⟩

theorem imports_agree_compose (ms : List SMod) (hashes : List (Nat × List Export)) :
    ∀ (specs : List Spec) (acc : List (Name × Export)),
    (∀ s ∈ specs, ∃ h, hashes.lookup s.target = some h ∧
      h.map (fun e => (e.name, e.val)) = sExports ms s.target) →
    (∀ s ∈ specs, ∃ l, s.importsS (sExports ms) = some l) →
    ∃ imps, specs.foldl (mStepC hashes) (some acc) = some (acc ++ imps) ∧
      imps.map (fun i => (i.1, i.2.val)) = sImports (sExports ms) specs := by
  intro specs
  induction specs with
  | nil => intro acc _ _; exact ⟨[], by simp, by simp [sImports]⟩
  | cons s specs ih =>
    intro acc hT hS
    obtain ⟨l, hl⟩ := hS s (by simp)
    obtain ⟨L, hL, hLl⟩ := spec_agree_compose ms hashes s (hT s (by simp)) l hl
    obtain ⟨imps, hfold, hmap⟩ := ih (acc ++ L) (fun x hx => hT x (by simp [hx])) (fun x hx => hS x (by simp [hx]))
    refine ⟨L ++ imps, ?_, ?_⟩
    · simp only [List.foldl_cons, mStepC, hL]
      rw [hfold, List.append_assoc]
    · simp only [List.map_append, hLl, hmap, sImports, List.flatMap_cons, hl, Option.getD_some]

theorem imports_agree (compose : Bool) (ms : List SMod) (hashes : List (Nat × List Export)) (specs : List Spec)
    (hT : ∀ s ∈ specs, ∃ h, hashes.lookup s.target = some h ∧
      h.map (fun e => (e.name, e.val)) = sExports ms s.target)
    (hC : ∀ s ∈ specs, specOK compose ms s = true) :
    ∃ imps, mImports compose hashes specs = some imps ∧
      RevEq (imps.map fun i => (i.1, i.2.val)) (sImports (sExports ms) specs) ∧
      ∀ s ∈ specs, ∃ l, s.importsS (sExports ms) = some l := by
  cases compose with
  | false => exact imports_agree_flat ms hashes specs hT (fun s hs => by simpa [specOK] using hC s hs)
  | true =>
    have hS : ∀ s ∈ specs, ∃ l, s.importsS (sExports ms) = some l := by
      intro s hs
      have := hC s hs
      simp only [specOK, if_true] at this
      exact Option.isSome_iff_exists.mp this
    obtain ⟨imps, hfold, hmap⟩ := imports_agree_compose ms hashes specs [] hT hS
    refine ⟨imps, by simpa [mImports] using hfold, ?_, hS⟩
    rw [hmap]
    exact RevEq.refl _

/-! ## S's module in normal form -/

theorem senv_eq {g : Graph} (hwf : g.wf = true) (k : Nat)
    (hall : ∀ s ∈ (g.mod k).reqs, ∃ l, s.importsS (sExports (sBuild g)) = some l) :
    senv (sBuild g) k =
      (sImports (sExports (sBuild g)) (g.mod k).reqs ++
        (g.mod k).defs.map fun d => (d, (⟨.mod k, d, false⟩ : Val))).reverse ∧
    sExports (sBuild g) k = (g.mod k).provs.filterMap (fun p =>
      ((senv (sBuild g) k).lookup p.name).map fun v =>
        (p.name, { v with contracted := v.contracted || p.contract })) ∧
    ((sBuild g).getD k ⟨[], [], true⟩).ok = true := by
  have h : (sBuild g).getD k ⟨[], [], true⟩ = sModule (sBuild g) k (g.mod k) := sBuild_getD hwf k
  have hfold := sFoldMod (sExports (sBuild g)) (g.mod k).reqs [] true hall
  have hm : sModule (sBuild g) k (g.mod k) =
      ⟨Env.bindAll ((sImports (sExports (sBuild g)) (g.mod k).reqs).reverse ++ [])
          ((g.mod k).defs.map fun d => (d, (⟨.mod k, d, false⟩ : Val))),
        (g.mod k).provs.filterMap (fun p =>
          ((Env.bindAll ((sImports (sExports (sBuild g)) (g.mod k).reqs).reverse ++ [])
            ((g.mod k).defs.map fun d => (d, (⟨.mod k, d, false⟩ : Val)))).lookup p.name).map fun v =>
            (p.name, { v with contracted := v.contracted || p.contract })), true⟩ := by
    unfold sModule
    rw [hfold]
  simp only [senv, sExports, h, hm]
  simp [Env.bindAll, List.reverse_append]

theorem filterMap_congr_mem {α β : Type} (f f' : α → Option β) : ∀ (l : List α),
    (∀ a ∈ l, f a = f' a) → l.filterMap f = l.filterMap f' := by
  intro l
  induction l with
  | nil => intro _; rfl
  | cons a l ih =>
    intro h
    simp only [List.filterMap_cons, h a (by simp), ih fun x hx => h x (by simp [hx])]

/-! ## the keys a module body writes -/

theorem tbl2_lookup (k : Nat) (G : List Name) (imps : List (Name × Export)) (defs : List Name)
    (tbl : List (Name × Val)) (hG : ∀ i ∈ imps, i.1 ∈ G) (n : Name) :
    (defs.foldl (fun t d => (mangle k d, (⟨.mod k, d, false⟩ : Val)) :: t)
      (imps.foldl (fun t i => ((if i.2.cform then keyOf k G i.1 else mangle k i.1), i.2.val) :: t) tbl)).lookup
        (mangle k n) =
      (((imps.map fun i => (i.1, i.2.val)) ++ defs.map fun d => (d, (⟨.mod k, d, false⟩ : Val))).reverse.lookup
        n).or (tbl.lookup (mangle k n)) := by
  rw [foldl_cons_eq (fun d => (mangle k d, (⟨.mod k, d, false⟩ : Val))),
    foldl_cons_eq (fun i : Name × Export => ((if i.2.cform then keyOf k G i.1 else mangle k i.1), i.2.val))]
  have hI : imps.map (fun i : Name × Export => ((if i.2.cform then keyOf k G i.1 else mangle k i.1), i.2.val)) =
      (imps.map fun i => (i.1, i.2.val)).map fun b => (mangle k b.1, b.2) := by
    rw [List.map_map]
    apply List.map_congr_left
    intro i hi
    simp only [Function.comp, keyOf, hG i hi, if_true, ite_self]
  have hD : defs.map (fun d => (mangle k d, (⟨.mod k, d, false⟩ : Val))) =
      (defs.map fun d => (d, (⟨.mod k, d, false⟩ : Val))).map fun b => (mangle k b.1, b.2) := by
    rw [List.map_map]; rfl
  rw [hI, hD, ← List.append_assoc, ← List.reverse_append, ← List.map_append, List.lookup_append,
    ← List.map_reverse, lookup_mkeys]

/-- **One module body.**  If the modules it requires are what S says they are, its require specs are in the
fragment and it refers only to names bound in it, then its body runs, afterwards the module is what S says it
is, and nothing but its own mangled keys changed. -/
theorem runModule_ok {g : Graph} (hwf : g.wf = true) (fix : Fix)
    (hci : fix.contractImports = true) (st : MState) (k : Nat)
    (hT : ∀ s ∈ (g.mod k).reqs, ModOK (sBuild g) st s.target)
    (hG : modGuard fix.compose g (sBuild g) k = true) :
    ∃ st', runModule fix g st k = some st' ∧ ModOK (sBuild g) st' k ∧ Frame [k] st st' := by
  simp only [modGuard, Bool.and_eq_true, List.all_eq_true, List.mem_append] at hG
  obtain ⟨hcan, hclosed⟩ := hG
  obtain ⟨imps, himps, hrev, hall⟩ := imports_agree fix.compose (sBuild g) st.hashes (g.mod k).reqs
    (fun s hs => (hT s hs).hash) hcan
  obtain ⟨henv, hexp, _⟩ := senv_eq hwf k hall
  -- the set `globals` of the mangler
  have hglob : mGlobals fix.contractImports (g.mod k) imps = (g.mod k).defs ++ imps.map (·.1) := by
    simp [mGlobals, hci]
  have hGmem : ∀ n, n ∈ (g.mod k).defs ++ imps.map (·.1) ↔ ((senv (sBuild g) k).lookup n).isSome = true := by
    intro n
    rw [henv, lookup_isSome_iff_keys]
    simp only [List.map_reverse, List.mem_reverse, List.map_append, List.mem_append, List.map_map]
    have hk := hrev.keys n
    simp only [List.map_map] at hk
    constructor
    · rintro (h | h)
      · exact Or.inr (by simpa [Function.comp] using h)
      · exact Or.inl (hk.mp (by simpa [Function.comp] using h))
    · rintro (h | h)
      · exact Or.inr (by simpa [Function.comp] using hk.mpr h)
      · exact Or.inl (by simpa [Function.comp] using h)
  have hiG : ∀ i ∈ imps, i.1 ∈ (g.mod k).defs ++ imps.map (·.1) :=
    fun i hi => List.mem_append_right _ (List.mem_map.mpr ⟨i, hi, rfl⟩)
  -- the table after the body, on the module's own keys
  have htbl : ∀ n, ((senv (sBuild g) k).lookup n).isSome = true →
      ((g.mod k).defs.foldl (fun t d => (mangle k d, (⟨.mod k, d, false⟩ : Val)) :: t)
        (imps.foldl (fun t i => ((if i.2.cform then keyOf k ((g.mod k).defs ++ imps.map (·.1)) i.1
          else mangle k i.1), i.2.val) :: t) st.tbl)).lookup (mangle k n) = (senv (sBuild g) k).lookup n := by
    intro n hn
    rw [tbl2_lookup k _ imps _ st.tbl hiG n]
    have : ((imps.map fun i => (i.1, i.2.val)) ++
        (g.mod k).defs.map fun d => (d, (⟨.mod k, d, false⟩ : Val))).reverse.lookup n =
        (senv (sBuild g) k).lookup n := by
      rw [henv]
      exact (RevEq.append hrev (RevEq.refl _)) n
    rw [this]
    cases hl : (senv (sBuild g) k).lookup n with
    | none => rw [hl] at hn; simp at hn
    | some v => rfl
  cases hrun : runModule fix g st k with
  | none =>
    unfold runModule at hrun
    simp [himps] at hrun
  | some st' =>
    refine ⟨st', rfl, ?_, ?_⟩
    · -- ModOK
      unfold runModule at hrun
      simp only [himps, hglob, Option.some.injEq] at hrun
      subst hrun
      refine ⟨⟨_, lookup_cons_self k _ _, hGmem⟩, ?_, ⟨_, lookup_cons_self k _ _, ?_⟩⟩
      · exact htbl
      · rw [hexp, List.map_filterMap]
        apply filterMap_congr_mem
        intro p hp
        have hpn : ((senv (sBuild g) k).lookup p.name).isSome = true :=
          hclosed p.name (Or.inl (List.mem_map.mpr ⟨p, hp, rfl⟩))
        have hkey : keyOf k ((g.mod k).defs ++ imps.map (·.1)) p.name = mangle k p.name := by
          simp only [keyOf, (hGmem p.name).mpr hpn, if_true]
        rw [hkey, htbl p.name hpn]
        cases (senv (sBuild g) k).lookup p.name <;> rfl
    · -- Frame
      obtain ⟨imps', himps', hkeep⟩ := runModule_tbl fix g st st' k hrun
      rw [himps] at himps'
      cases himps'
      unfold runModule at hrun
      simp only [himps, hglob, Option.some.injEq] at hrun
      refine ⟨?_, ?_, ?_, ?_, ?_, ?_, ?_, ?_⟩
      · intro key hkey
        apply hkeep
        intro hmem
        rw [hci] at hmem
        obtain ⟨n', e⟩ := moduleWrites_mangled k (g.mod k) imps _ hmem
        exact hkey k (by simp) n' e
      · intro j hj
        subst hrun
        simp only [List.mem_cons, List.mem_nil_iff, or_false] at hj
        have : (j == k) = false := by simpa using hj
        simp [List.lookup_cons, this]
      · intro j hj
        subst hrun
        simp only [List.mem_cons, List.mem_nil_iff, or_false] at hj
        have : (j == k) = false := by simpa using hj
        simp [List.lookup_cons, this]
      · subst hrun; rfl
      · subst hrun; rfl
      · subst hrun; rfl
      · intro h e he
        subst hrun
        simp only [List.mem_cons] at he
        rcases he with rfl | he
        · simp only [List.filter_eq_nil_iff, List.mem_map]
          rintro n ⟨p, hp, rfl⟩
          have hpn := hclosed p.name (Or.inl (List.mem_map.mpr ⟨p, hp, rfl⟩))
          have := (hGmem p.name).mpr hpn
          simp [this]
        · exact h e he
      · intro h e he
        subst hrun
        simp only [List.mem_cons] at he
        rcases he with rfl | he
        · simp only [List.filterMap_eq_nil_iff]
          intro i hi
          have := hiG i hi
          simp [this]
        · exact h e he

/-- **A list of module bodies in dependency order.** -/
theorem runModules_ok {g : Graph} (hwf : g.wf = true) (fix : Fix)
    (hci : fix.contractImports = true) (A : List Nat)
    (hG : ∀ k, modGuard fix.compose g (sBuild g) k = true) :
    ∀ (em before : List Nat) (st : MState), Ordered g A before em →
      (∀ x, x ∈ A ∨ x ∈ before → ModOK (sBuild g) st x) →
      ∃ st', runModules fix g st em = some st' ∧
        (∀ x, x ∈ A ∨ x ∈ before ∨ x ∈ em → ModOK (sBuild g) st' x) ∧ Frame em st st' := by
  intro em
  induction em with
  | nil =>
    intro before st _ h
    exact ⟨st, rfl, fun x hx => h x (by simpa using hx), Frame.refl st⟩
  | cons x em ih =>
    intro before st hord h
    have hT : ∀ s ∈ (g.mod x).reqs, ModOK (sBuild g) st s.target := by
      intro s hs
      exact h _ (hord.1 s.target (List.mem_map.mpr ⟨s, hs, rfl⟩))
    obtain ⟨st1, hrun1, hok1, hf1⟩ := runModule_ok hwf fix hci st x hT (hG x)
    have h1 : ∀ y, y ∈ A ∨ y ∈ before ++ [x] → ModOK (sBuild g) st1 y := by
      intro y hy
      by_cases hyx : y = x
      · subst hyx; exact hok1
      · apply ModOK.frame hf1 (by simpa using hyx)
        apply h
        rcases hy with hy | hy
        · exact Or.inl hy
        · simp only [List.mem_append, List.mem_cons, List.mem_nil_iff, or_false] at hy
          exact Or.inr (hy.resolve_right hyx)
    obtain ⟨st', hrun, hok, hf⟩ := ih (before ++ [x]) st1 hord.2 h1
    refine ⟨st', by simp only [runModules, hrun1]; exact hrun, ?_, Frame.trans hf1 hf⟩
    intro y hy
    apply hok
    rcases hy with hy | hy | hy
    · exact Or.inl hy
    · exact Or.inr (Or.inl (by simp [hy]))
    · rcases List.mem_cons.mp hy with e | e
      · exact Or.inr (Or.inl (by simp [e]))
      · exact Or.inr (Or.inr e)

end SteelVerif.C14
