/-
C14 — lemmas about require specifications: flattening, the generated import list, composition.
-/
import SteelVerif.C14.Lemmas
namespace SteelVerif.C14

/-! ## flattening -/

/-- All prefixes of a spec, outermost first. -/
def Spec.prefixes : Spec → Name
  | .path _ => []
  | .onlyIn s _ => s.prefixes
  | .prefixIn p s => p ++ s.prefixes

/-- All `only-in` entries of a spec, innermost list first. -/
def Spec.ids : Spec → List (Name × Option Name)
  | .path _ => []
  | .onlyIn s l => s.ids ++ l
  | .prefixIn _ s => s.ids

theorem flattenInto_eq (s : Spec) : ∀ ids p,
    s.flattenInto ids p = ⟨s.target, ids ++ s.ids, p ++ s.prefixes⟩ := by
  induction s with
  | path m => intro ids p; simp [Spec.flattenInto, Spec.target, Spec.ids, Spec.prefixes]
  | onlyIn s l ih => intro ids p; simp [Spec.flattenInto, ih, Spec.target, Spec.ids, Spec.prefixes]
  | prefixIn q s ih => intro ids p; simp [Spec.flattenInto, ih, Spec.target, Spec.ids, Spec.prefixes]

theorem flatten_eq (s : Spec) : s.flatten = ⟨s.target, s.ids, s.prefixes⟩ := by
  simp [Spec.flatten, flattenInto_eq]

/-! ## the import list -/

theorem mem_importsM {β : Type} (r : Req) (ex : List (Name × β)) (v n : Name) (b : β) :
    (v, n, b) ∈ r.importsM ex ↔ (n, b) ∈ ex ∧ r.rename n = some v := by
  unfold Req.importsM
  rw [List.mem_filterMap]
  constructor
  · rintro ⟨⟨n', b'⟩, hmem, h⟩
    cases hr : r.rename n' with
    | none => simp [hr] at h
    | some v' =>
      simp [hr] at h
      obtain ⟨h1, h2, h3⟩ := h
      subst h1; subst h2; subst h3
      exact ⟨hmem, hr⟩
  · rintro ⟨hmem, hr⟩
    exact ⟨(n, b), hmem, by simp [hr]⟩

theorem rename_eq_some (r : Req) (n v : Name) :
    r.rename n = some v ↔
      (r.idents = [] ∧ v = r.pfx ++ n) ∨
      (r.idents ≠ [] ∧ ∃ a, lookupLast r.idents n = some a ∧ v = r.pfx ++ a.getD n) := by
  unfold Req.rename
  cases hi : r.idents with
  | nil => simp [eq_comm]
  | cons x xs =>
    simp only [List.isEmpty_cons, Bool.false_eq_true, if_false, ne_eq, reduceCtorEq, not_false_eq_true,
      true_and, false_and, false_or]
    cases hl : lookupLast (x :: xs) n with
    | none => simp
    | some a => simp [eq_comm]

/-! ## association lists -/

theorem lookup_some_mem {β : Type} (l : List (Name × β)) (k : Name) (b : β) :
    l.lookup k = some b → (k, b) ∈ l := by
  induction l with
  | nil => simp
  | cons x xs ih =>
    obtain ⟨k', b'⟩ := x
    rw [List.lookup_cons]
    by_cases h : k = k'
    · subst h; simp; intro hb; subst hb; exact Or.inl rfl
    · have : (k == k') = false := by simpa using h
      simp only [this]
      intro hl
      exact List.mem_cons_of_mem _ (ih hl)

theorem lookup_of_mem_nodup {β : Type} (l : List (Name × β)) (k : Name) (b : β)
    (hn : (l.map (·.1)).Nodup) : (k, b) ∈ l → l.lookup k = some b := by
  induction l with
  | nil => simp
  | cons x xs ih =>
    obtain ⟨k', b'⟩ := x
    simp only [List.map_cons, List.nodup_cons] at hn
    rw [List.lookup_cons]
    intro hm
    rcases List.mem_cons.mp hm with h | h
    · simp at h; obtain ⟨h1, h2⟩ := h; subst h1; subst h2; simp
    · have hk : k ∈ xs.map (·.1) := List.mem_map.mpr ⟨(k, b), h, rfl⟩
      have hne : k ≠ k' := by intro e; subst e; exact hn.1 hk
      have : (k == k') = false := by simpa using hne
      simp only [this]
      exact ih hn.2 h

theorem lookup_isSome_of_mem_keys {β : Type} (l : List (Name × β)) (k : Name) :
    k ∈ l.map (·.1) → (l.lookup k).isSome = true := by
  intro h
  rw [List.lookup_isSome_iff]
  obtain ⟨p, hp, rfl⟩ := List.mem_map.mp h
  exact ⟨p, hp, by simp⟩

theorem lookup_none_of_not_mem_keys {β : Type} (l : List (Name × β)) (k : Name) :
    k ∉ l.map (·.1) → l.lookup k = none := by
  intro h
  rw [List.lookup_eq_none_iff]
  intro p hp
  have : k ≠ p.1 := by intro e; exact h (List.mem_map.mpr ⟨p, hp, e.symm⟩)
  simpa using this

theorem lookupLast_some_mem (ids : List (Name × Option Name)) (n : Name) (a : Option Name) :
    lookupLast ids n = some a → (n, a) ∈ ids := by
  intro h
  have := lookup_some_mem ids.reverse n a h
  simpa using this

theorem lookupLast_of_mem_nodup (ids : List (Name × Option Name)) (n : Name) (a : Option Name)
    (hn : (ids.map (·.1)).Nodup) : (n, a) ∈ ids → lookupLast ids n = some a := by
  intro h
  unfold lookupLast
  apply lookup_of_mem_nodup
  · rw [List.map_reverse]; exact List.nodup_reverse.mpr hn
  · simpa using h

theorem lookupLast_none (ids : List (Name × Option Name)) (n : Name) :
    n ∉ ids.map (·.1) → lookupLast ids n = none := by
  intro h
  unfold lookupLast
  apply lookup_none_of_not_mem_keys
  rw [List.map_reverse]
  simpa using h

/-! ## `mapOpt` -/

theorem mapOpt_some {α β : Type} (f : α → Option β) : ∀ (l : List α) (l' : List β),
    mapOpt f l = some l' → ∀ y, y ∈ l' ↔ ∃ x, x ∈ l ∧ f x = some y := by
  intro l
  induction l with
  | nil => intro l' h y; simp [mapOpt] at h; subst h; simp
  | cons a l ih =>
    intro l' h y
    unfold mapOpt at h
    cases hfa : f a with
    | none => simp [hfa] at h
    | some b =>
      cases hl : mapOpt f l with
      | none => simp [hfa, hl] at h
      | some bs =>
        simp [hfa, hl] at h
        subst h
        have := ih bs hl y
        constructor
        · intro hy
          rcases List.mem_cons.mp hy with e | e
          · subst e; exact ⟨a, by simp, hfa⟩
          · obtain ⟨x, hx, hfx⟩ := this.mp e
            exact ⟨x, by simp [hx], hfx⟩
        · rintro ⟨x, hx, hfx⟩
          rcases List.mem_cons.mp hx with e | e
          · subst e; rw [hfa] at hfx; simp at hfx; subst hfx; simp
          · exact List.mem_cons_of_mem _ (this.mpr ⟨x, e, hfx⟩)

theorem mapOpt_isSome {α β : Type} (f : α → Option β) : ∀ (l : List α),
    (∀ x ∈ l, (f x).isSome = true) → ∃ l', mapOpt f l = some l' := by
  intro l
  induction l with
  | nil => intro _; exact ⟨[], rfl⟩
  | cons a l ih =>
    intro h
    obtain ⟨bs, hbs⟩ := ih (fun x hx => h x (by simp [hx]))
    have ha := h a (by simp)
    cases hfa : f a with
    | none => simp [hfa] at ha
    | some b => exact ⟨b :: bs, by simp [mapOpt, hfa, hbs]⟩

theorem mapOpt_none {α β : Type} (f : α → Option β) : ∀ (l : List α),
    (∃ x, x ∈ l ∧ f x = none) → mapOpt f l = none := by
  intro l
  induction l with
  | nil => rintro ⟨x, hx, _⟩; simp at hx
  | cons a l ih =>
    rintro ⟨x, hx, hfx⟩
    unfold mapOpt
    rcases List.mem_cons.mp hx with e | e
    · subst e; simp [hfx]
    · rw [ih ⟨x, e, hfx⟩]
      cases f a <;> simp

end SteelVerif.C14
