/-
C14 — lemmas about require specifications: flattening, the generated import list, composition.
-/
import SteelVerif.C14.Lemmas
namespace SteelVerif.C14

/-! ## flattening -/

/-- All prefixes of a spec, outermost first. -/
def Spec.prefixes : Spec → Name
  | .path _ => []
  | .onlyIn s _ => s.prefixes
  | .prefixIn p s => p ++ s.prefixes

/-- All `only-in` entries of a spec, innermost list first. -/
def Spec.ids : Spec → List (Name × Option Name)
  | .path _ => []
  | .onlyIn s l => s.ids ++ l
  | .prefixIn _ s => s.ids

theorem flattenInto_eq (s : Spec) : ∀ ids p,
    s.flattenInto ids p = ⟨s.target, ids ++ s.ids, p ++ s.prefixes⟩ := by
  induction s with
  | path m => intro ids p; simp [Spec.flattenInto, Spec.target, Spec.ids, Spec.prefixes]
  | onlyIn s l ih => intro ids p; simp [Spec.flattenInto, ih, Spec.target, Spec.ids, Spec.prefixes]
  | prefixIn q s ih => intro ids p; simp [Spec.flattenInto, ih, Spec.target, Spec.ids, Spec.prefixes]

theorem flatten_eq (s : Spec) : s.flatten = ⟨s.target, s.ids, s.prefixes⟩ := by
  simp [Spec.flatten, flattenInto_eq]

/-! ## the import list -/

theorem mem_importsM {β : Type} (r : Req) (ex : List (Name × β)) (v n : Name) (b : β) :
    (v, n, b) ∈ r.importsM ex ↔ (n, b) ∈ ex ∧ r.rename n = some v := by
  unfold Req.importsM
  rw [List.mem_filterMap]
  constructor
  · rintro ⟨⟨n', b'⟩, hmem, h⟩
    cases hr : r.rename n' with
    | none => simp [hr] at h
    | some v' =>
      simp [hr] at h
      obtain ⟨h1, h2, h3⟩ := h
      subst h1; subst h2; subst h3
      exact ⟨hmem, hr⟩
  · rintro ⟨hmem, hr⟩
    exact ⟨(n, b), hmem, by simp [hr]⟩

theorem rename_eq_some (r : Req) (n v : Name) :
    r.rename n = some v ↔
      (r.idents = [] ∧ v = r.pfx ++ n) ∨
      (r.idents ≠ [] ∧ ∃ a, lookupLast r.idents n = some a ∧ v = r.pfx ++ a.getD n) := by
  unfold Req.rename
  cases hi : r.idents with
  | nil => simp [eq_comm]
  | cons x xs =>
    simp only [List.isEmpty_cons, Bool.false_eq_true, if_false, ne_eq, reduceCtorEq, not_false_eq_true,
      true_and, false_and, false_or]
    cases hl : lookupLast (x :: xs) n with
    | none => simp
    | some a => simp [eq_comm]

/-! ## association lists -/

theorem nodup_reverse {α : Type} (l : List α) (h : l.Nodup) : l.reverse.Nodup := by
  unfold List.Nodup at *
  rw [List.pairwise_reverse]
  exact h.imp (fun hab => fun e => hab e.symm)

theorem lookup_some_mem {β : Type} (l : List (Name × β)) (k : Name) (b : β) :
    l.lookup k = some b → (k, b) ∈ l := by
  induction l with
  | nil => simp
  | cons x xs ih =>
    obtain ⟨k', b'⟩ := x
    rw [List.lookup_cons]
    by_cases h : k = k'
    · subst h; simp; intro hb; subst hb; exact Or.inl rfl
    · have : (k == k') = false := by simpa using h
      simp only [this]
      intro hl
      exact List.mem_cons_of_mem _ (ih hl)

theorem lookup_of_mem_nodup {β : Type} (l : List (Name × β)) (k : Name) (b : β)
    (hn : (l.map (·.1)).Nodup) : (k, b) ∈ l → l.lookup k = some b := by
  induction l with
  | nil => simp
  | cons x xs ih =>
    obtain ⟨k', b'⟩ := x
    simp only [List.map_cons, List.nodup_cons] at hn
    rw [List.lookup_cons]
    intro hm
    rcases List.mem_cons.mp hm with h | h
    · simp at h; obtain ⟨h1, h2⟩ := h; subst h1; subst h2; simp
    · have hk : k ∈ xs.map (·.1) := List.mem_map.mpr ⟨(k, b), h, rfl⟩
      have hne : k ≠ k' := by intro e; subst e; exact hn.1 hk
      have : (k == k') = false := by simpa using hne
      simp only [this]
      exact ih hn.2 h

theorem lookup_isSome_of_mem_keys {β : Type} (l : List (Name × β)) (k : Name) :
    k ∈ l.map (·.1) → (l.lookup k).isSome = true := by
  intro h
  rw [List.lookup_isSome_iff]
  obtain ⟨p, hp, rfl⟩ := List.mem_map.mp h
  exact ⟨p, hp, by simp⟩

theorem lookup_none_of_not_mem_keys {β : Type} (l : List (Name × β)) (k : Name) :
    k ∉ l.map (·.1) → l.lookup k = none := by
  intro h
  rw [List.lookup_eq_none_iff]
  intro p hp
  have : k ≠ p.1 := by intro e; exact h (List.mem_map.mpr ⟨p, hp, e.symm⟩)
  simpa using this

theorem lookupLast_some_mem (ids : List (Name × Option Name)) (n : Name) (a : Option Name) :
    lookupLast ids n = some a → (n, a) ∈ ids := by
  intro h
  have := lookup_some_mem ids.reverse n a h
  simpa using this

theorem lookupLast_of_mem_nodup (ids : List (Name × Option Name)) (n : Name) (a : Option Name)
    (hn : (ids.map (·.1)).Nodup) : (n, a) ∈ ids → lookupLast ids n = some a := by
  intro h
  unfold lookupLast
  apply lookup_of_mem_nodup
  · rw [List.map_reverse]; exact nodup_reverse _ hn
  · simpa using h

theorem lookupLast_none (ids : List (Name × Option Name)) (n : Name) :
    n ∉ ids.map (·.1) → lookupLast ids n = none := by
  intro h
  unfold lookupLast
  apply lookup_none_of_not_mem_keys
  rw [List.map_reverse]
  simpa using h

/-! ## `mapOpt` -/

theorem mapOpt_some {α β : Type} (f : α → Option β) : ∀ (l : List α) (l' : List β),
    mapOpt f l = some l' → ∀ y, y ∈ l' ↔ ∃ x, x ∈ l ∧ f x = some y := by
  intro l
  induction l with
  | nil => intro l' h y; simp [mapOpt] at h; subst h; simp
  | cons a l ih =>
    intro l' h y
    unfold mapOpt at h
    cases hfa : f a with
    | none => simp [hfa] at h
    | some b =>
      cases hl : mapOpt f l with
      | none => simp [hfa, hl] at h
      | some bs =>
        simp [hfa, hl] at h
        subst h
        have := ih bs hl y
        constructor
        · intro hy
          rcases List.mem_cons.mp hy with e | e
          · subst e; exact ⟨a, by simp, hfa⟩
          · obtain ⟨x, hx, hfx⟩ := this.mp e
            exact ⟨x, by simp [hx], hfx⟩
        · rintro ⟨x, hx, hfx⟩
          rcases List.mem_cons.mp hx with e | e
          · subst e; rw [hfa] at hfx; simp at hfx; subst hfx; simp
          · exact List.mem_cons_of_mem _ (this.mpr ⟨x, e, hfx⟩)

theorem mapOpt_isSome {α β : Type} (f : α → Option β) : ∀ (l : List α),
    (∀ x ∈ l, (f x).isSome = true) → ∃ l', mapOpt f l = some l' := by
  intro l
  induction l with
  | nil => intro _; exact ⟨[], rfl⟩
  | cons a l ih =>
    intro h
    obtain ⟨bs, hbs⟩ := ih (fun x hx => h x (by simp [hx]))
    have ha := h a (by simp)
    cases hfa : f a with
    | none => simp [hfa] at ha
    | some b => exact ⟨b :: bs, by simp [mapOpt, hfa, hbs]⟩

theorem mapOpt_none {α β : Type} (f : α → Option β) : ∀ (l : List α),
    (∃ x, x ∈ l ∧ f x = none) → mapOpt f l = none := by
  intro l
  induction l with
  | nil => rintro ⟨x, hx, _⟩; simp at hx
  | cons a l ih =>
    rintro ⟨x, hx, hfx⟩
    unfold mapOpt
    rcases List.mem_cons.mp hx with e | e
    · subst e; simp [hfx]
    · rw [ih ⟨x, e, hfx⟩]
      cases f a <;> simp

/-! ## flattening agrees with composing on the canonical fragment -/

theorem rename_prefix (t : Nat) (ids : List (Name × Option Name)) (p q n : Name) :
    (⟨t, ids, p ++ q⟩ : Req).rename n = ((⟨t, ids, q⟩ : Req).rename n).map (p ++ ·) := by
  unfold Req.rename
  simp only
  split
  · simp [List.append_assoc]
  · cases lookupLast ids n <;> simp [List.append_assoc]

theorem canonical_onlyIn_path {provs : Nat → List Name} {m : Nat} {ids : List (Name × Option Name)}
    (h : (Spec.onlyIn (.path m) ids).canonical provs = true) :
    ids ≠ [] ∧ (ids.map (·.1)).Nodup ∧ (∀ ia ∈ ids, ia.1 ∈ provs m) ∧ (provs m).Nodup := by
  simp only [Spec.canonical, Bool.and_eq_true, Bool.not_eq_true', List.isEmpty_eq_false_iff,
    decide_eq_true_eq, List.all_eq_true, List.contains_iff_mem] at h
  obtain ⟨⟨⟨h1, h2⟩, h3⟩, h4⟩ := h
  exact ⟨h1, h2, h3, h4⟩

theorem flat_eq_compositional {β : Type} (ex : Nat → List (Name × β)) (s : Spec) :
    s.canonical (fun m => (ex m).map (·.1)) = true → ∀ (v : Name) (b : β),
    ((∃ n, (v, n, b) ∈ s.flatten.importsM (ex s.target)) ↔
      ∃ l, s.importsS ex = some l ∧ (v, b) ∈ l) := by
  induction s with
  | path m =>
    intro _ v b
    simp only [flatten_eq, Spec.target, Spec.ids, Spec.prefixes, mem_importsM, Spec.importsS]
    simp [Req.rename]
  | prefixIn p s ih =>
    intro hc v b
    have ih := ih (by simpa [Spec.canonical] using hc)
    simp only [flatten_eq, Spec.target, Spec.ids, Spec.prefixes, mem_importsM, Spec.importsS] at ih ⊢
    rw [show (⟨s.target, s.ids, p ++ s.prefixes⟩ : Req) = ⟨s.target, s.ids, p ++ s.prefixes⟩ from rfl]
    constructor
    · rintro ⟨n, hmem, hr⟩
      rw [rename_prefix] at hr
      cases hr' : (⟨s.target, s.ids, s.prefixes⟩ : Req).rename n with
      | none => simp [hr'] at hr
      | some v' =>
        simp [hr'] at hr
        obtain ⟨l, hl, hv⟩ := (ih v' b).mp ⟨n, hmem, hr'⟩
        refine ⟨l.map fun e => (p ++ e.1, e.2), by simp [hl], ?_⟩
        exact List.mem_map.mpr ⟨(v', b), hv, by simp [hr]⟩
    · rintro ⟨l, hl, hv⟩
      cases hs : s.importsS ex with
      | none => simp [hs] at hl
      | some l0 =>
        simp [hs] at hl
        subst hl
        obtain ⟨⟨v', b'⟩, hm, he⟩ := List.mem_map.mp hv
        simp at he
        obtain ⟨he1, he2⟩ := he
        subst he2
        obtain ⟨n, hmem, hr⟩ := (ih v' b').mpr ⟨l0, hs, hm⟩
        refine ⟨n, hmem, ?_⟩
        rw [rename_prefix, hr]
        simp [he1]
  | onlyIn s ids _ =>
    intro hc v b
    cases s with
    | onlyIn _ _ => simp [Spec.canonical] at hc
    | prefixIn _ _ => simp [Spec.canonical] at hc
    | path m =>
      obtain ⟨hne, hnd, hall, hpn⟩ := canonical_onlyIn_path hc
      simp only [flatten_eq, Spec.target, Spec.ids, Spec.prefixes, mem_importsM, Spec.importsS,
        List.nil_append]
      have hsome : ∀ ia ∈ ids, (((ex m).lookup ia.1).map fun b => (ia.2.getD ia.1, b)).isSome = true := by
        intro ia hia
        have := lookup_isSome_of_mem_keys (ex m) ia.1 (hall ia hia)
        cases h : (ex m).lookup ia.1 <;> simp [h] at this ⊢
      obtain ⟨l', hl'⟩ := mapOpt_isSome _ ids hsome
      have hmem := mapOpt_some _ ids l' hl'
      constructor
      · rintro ⟨n, hn, hr⟩
        refine ⟨l', hl', ?_⟩
        rw [rename_eq_some] at hr
        rcases hr with ⟨he, _⟩ | ⟨_, a, ha, hv⟩
        · exact absurd he hne
        · have hia := lookupLast_some_mem ids n a ha
          rw [hmem]
          refine ⟨(n, a), hia, ?_⟩
          rw [lookup_of_mem_nodup (ex m) n b hpn hn]
          simp [hv]
      · rintro ⟨l, hl, hv⟩
        rw [hl'] at hl
        simp at hl
        subst hl
        obtain ⟨⟨n, a⟩, hia, hf⟩ := (hmem (v, b)).mp hv
        cases hlk : (ex m).lookup n with
        | none => simp [hlk] at hf
        | some b' =>
          simp [hlk] at hf
          obtain ⟨hf1, hf2⟩ := hf
          subst hf2
          refine ⟨n, lookup_some_mem _ _ _ hlk, ?_⟩
          rw [rename_eq_some]
          refine Or.inr ⟨hne, a, lookupLast_of_mem_nodup ids n a hnd hia, ?_⟩
          simp [hf1]

end SteelVerif.C14
